(* Proof/ChanMigration_witness.v — the refutation witnesses of C17 (known findings K1, K2, K3).
   The case terms below are the harness's rendering of corpus/C17/k*.json run on the real
   slot state machine (commands AND the implementation's observations); C17_mismatch = false
   shows that the model reproduces every observed row and result of these runs. *)
From WK Require Import Base.Base.
From WK Require Import Gen.Consts_C15 Gen.Consts_C17 Model.RuntimeMeta Model.ChanMigration Model.ChanMigration_C17.
Open Scope N_scope.

Definition k1_advance_rewind_abort_case : c17_case :=
 (C17Case [([(CUpsertMeta (RuntimeMeta (hx "6731") (2)%Z 1 2 0 [1; 2; 3] [1; 2; 3] 1 (2)%Z 1 1 (1500)%Z 0 (0)%Z [] 0 0 (0)%Z 0))], (Full (Obs (BResults [0]) [] [((ChanKey (hx "6731") (2)%Z), None)] [((ChanKey (hx "6731") (2)%Z), (Some (RuntimeMeta (hx "6731") (2)%Z 1 2 2 [1; 2; 3] [1; 2; 3] 1 (2)%Z 1 1 (1500)%Z 0 (0)%Z [] 0 0 (0)%Z 0)))])));
  ([(CCreate (Task (hx "7431") 1 1 1 (hx "6731") (2)%Z 1 2 2 1 2 [] 0 (0)%Z false 0 0 (0)%Z proof_zero 0 (0)%Z [] [] [] (1010)%Z (1010)%Z (0)%Z progress_zero))], (Full (Obs (BResults [0]) [(Task (hx "7431") 1 1 1 (hx "6731") (2)%Z 1 2 2 1 2 [] 0 (0)%Z false 0 0 (0)%Z proof_zero 0 (0)%Z [] [] [] (1010)%Z (1010)%Z (0)%Z progress_zero)] [((ChanKey (hx "6731") (2)%Z), (Some (hx "7431")))] [((ChanKey (hx "6731") (2)%Z), (Some (RuntimeMeta (hx "6731") (2)%Z 1 2 2 [1; 2; 3] [1; 2; 3] 1 (2)%Z 1 1 (1500)%Z 0 (0)%Z [] 0 0 (0)%Z 0)))])));
  ([(CClaim (TGuard (hx "6731") (2)%Z (hx "7431") 1 1 0 (0)%Z (1010)%Z) 2 1 7 (1420)%Z (1020)%Z (1020)%Z)], (Full (Obs (BResults [0]) [(Task (hx "7431") 1 2 1 (hx "6731") (2)%Z 1 2 2 1 2 [] 0 (0)%Z false 0 7 (1420)%Z proof_zero 0 (0)%Z [] [] [] (1010)%Z (1020)%Z (0)%Z progress_zero)] [((ChanKey (hx "6731") (2)%Z), (Some (hx "7431")))] [((ChanKey (hx "6731") (2)%Z), (Some (RuntimeMeta (hx "6731") (2)%Z 1 2 2 [1; 2; 3] [1; 2; 3] 1 (2)%Z 1 1 (1500)%Z 0 (0)%Z [] 0 0 (0)%Z 0)))])));
  ([(CAdvance (TGuard (hx "6731") (2)%Z (hx "7431") 2 1 7 (1420)%Z (1020)%Z) 2 2 1 (0)%Z [] [] [] (1030)%Z (0)%Z progress_zero proof_zero 0)], (Full (Obs (BResults [0]) [(Task (hx "7431") 1 2 2 (hx "6731") (2)%Z 1 2 2 1 2 [] 0 (0)%Z false 0 7 (1420)%Z proof_zero 1 (0)%Z [] [] [] (1010)%Z (1030)%Z (0)%Z progress_zero)] [((ChanKey (hx "6731") (2)%Z), (Some (hx "7431")))] [((ChanKey (hx "6731") (2)%Z), (Some (RuntimeMeta (hx "6731") (2)%Z 1 2 2 [1; 2; 3] [1; 2; 3] 1 (2)%Z 1 1 (1500)%Z 0 (0)%Z [] 0 0 (0)%Z 0)))])));
  ([(CAdvance (TGuard (hx "6731") (2)%Z (hx "7431") 2 2 7 (1420)%Z (1030)%Z) 2 3 1 (0)%Z [] [] [] (1040)%Z (0)%Z progress_zero proof_zero 0)], (Full (Obs (BResults [0]) [(Task (hx "7431") 1 2 3 (hx "6731") (2)%Z 1 2 2 1 2 [] 0 (0)%Z false 0 7 (1420)%Z proof_zero 1 (0)%Z [] [] [] (1010)%Z (1040)%Z (0)%Z progress_zero)] [((ChanKey (hx "6731") (2)%Z), (Some (hx "7431")))] [((ChanKey (hx "6731") (2)%Z), (Some (RuntimeMeta (hx "6731") (2)%Z 1 2 2 [1; 2; 3] [1; 2; 3] 1 (2)%Z 1 1 (1500)%Z 0 (0)%Z [] 0 0 (0)%Z 0)))])));
  ([(CSetFence (Trans (TGuard (hx "6731") (2)%Z (hx "7431") 2 3 7 (1420)%Z (1040)%Z) (RGuard (hx "6731") (2)%Z 1 2 1 [] 0 0) 2 4 (1050)%Z) 1 (1350)%Z)], (Full (Obs (BResults [0]) [(Task (hx "7431") 1 2 4 (hx "6731") (2)%Z 1 2 2 1 2 (hx "7431") 1 (1350)%Z false 0 7 (1420)%Z proof_zero 1 (0)%Z [] [] [] (1010)%Z (1050)%Z (0)%Z progress_zero)] [((ChanKey (hx "6731") (2)%Z), (Some (hx "7431")))] [((ChanKey (hx "6731") (2)%Z), (Some (RuntimeMeta (hx "6731") (2)%Z 1 2 3 [1; 2; 3] [1; 2; 3] 1 (2)%Z 1 1 (1500)%Z 0 (0)%Z (hx "7431") 1 1 (1350)%Z 0)))])));
  ([(CAdvance (TGuard (hx "6731") (2)%Z (hx "7431") 2 4 7 (1420)%Z (1050)%Z) 2 5 1 (0)%Z [] [] [] (1060)%Z (0)%Z progress_zero (Proof 100 99 1 9 1 2 1) 0)], (Full (Obs (BResults [0]) [(Task (hx "7431") 1 2 5 (hx "6731") (2)%Z 1 2 2 1 2 (hx "7431") 1 (1350)%Z false 0 7 (1420)%Z (Proof 100 99 1 9 1 2 1) 1 (0)%Z [] [] [] (1010)%Z (1060)%Z (0)%Z progress_zero)] [((ChanKey (hx "6731") (2)%Z), (Some (hx "7431")))] [((ChanKey (hx "6731") (2)%Z), (Some (RuntimeMeta (hx "6731") (2)%Z 1 2 3 [1; 2; 3] [1; 2; 3] 1 (2)%Z 1 1 (1500)%Z 0 (0)%Z (hx "7431") 1 1 (1350)%Z 0)))])));
  ([(CAdvance (TGuard (hx "6731") (2)%Z (hx "7431") 2 5 7 (1420)%Z (1060)%Z) 2 6 1 (0)%Z [] [] [] (1070)%Z (0)%Z progress_zero (Proof 100 99 1 9 1 2 1) 0)], (Full (Obs (BResults [0]) [(Task (hx "7431") 1 2 6 (hx "6731") (2)%Z 1 2 2 1 2 (hx "7431") 1 (1350)%Z false 0 7 (1420)%Z (Proof 100 99 1 9 1 2 1) 1 (0)%Z [] [] [] (1010)%Z (1070)%Z (0)%Z progress_zero)] [((ChanKey (hx "6731") (2)%Z), (Some (hx "7431")))] [((ChanKey (hx "6731") (2)%Z), (Some (RuntimeMeta (hx "6731") (2)%Z 1 2 3 [1; 2; 3] [1; 2; 3] 1 (2)%Z 1 1 (1500)%Z 0 (0)%Z (hx "7431") 1 1 (1350)%Z 0)))])));
  ([(CCommit (Trans (TGuard (hx "6731") (2)%Z (hx "7431") 2 6 7 (1420)%Z (1070)%Z) (RGuard (hx "6731") (2)%Z 1 2 1 (hx "7431") 1 0) 2 7 (1080)%Z) 2 3 (1380)%Z (1080)%Z)], (Full (Obs (BResults [0]) [(Task (hx "7431") 1 2 7 (hx "6731") (2)%Z 1 2 2 1 2 (hx "7431") 1 (1350)%Z false 0 7 (1420)%Z (Proof 100 99 1 9 1 2 1) 1 (0)%Z [] [] [] (1010)%Z (1080)%Z (0)%Z progress_zero)] [((ChanKey (hx "6731") (2)%Z), (Some (hx "7431")))] [((ChanKey (hx "6731") (2)%Z), (Some (RuntimeMeta (hx "6731") (2)%Z 1 3 4 [1; 2; 3] [1; 2; 3] 2 (2)%Z 1 1 (1380)%Z 0 (0)%Z (hx "7431") 1 1 (1350)%Z 0)))])));
  ([(CAbort (Trans (TGuard (hx "6731") (2)%Z (hx "7431") 2 7 7 (1420)%Z (1080)%Z) (RGuard (hx "6731") (2)%Z 1 3 2 (hx "7431") 1 0) 6 7 (1090)%Z) (1090)%Z (hx "61626f72746564"))], (Same (BResults [1])));
  ([(CAdvance (TGuard (hx "6731") (2)%Z (hx "7431") 2 7 7 (1420)%Z (1080)%Z) 2 6 1 (0)%Z [] [] [] (1100)%Z (0)%Z progress_zero proof_zero 0)], (Full (Obs (BResults [0]) [(Task (hx "7431") 1 2 6 (hx "6731") (2)%Z 1 2 2 1 2 (hx "7431") 1 (1350)%Z false 0 7 (1420)%Z (Proof 100 99 1 9 1 2 1) 1 (0)%Z [] [] [] (1010)%Z (1100)%Z (0)%Z progress_zero)] [((ChanKey (hx "6731") (2)%Z), (Some (hx "7431")))] [((ChanKey (hx "6731") (2)%Z), (Some (RuntimeMeta (hx "6731") (2)%Z 1 3 4 [1; 2; 3] [1; 2; 3] 2 (2)%Z 1 1 (1380)%Z 0 (0)%Z (hx "7431") 1 1 (1350)%Z 0)))])));
  ([(CAbort (Trans (TGuard (hx "6731") (2)%Z (hx "7431") 2 6 7 (1420)%Z (1100)%Z) (RGuard (hx "6731") (2)%Z 1 3 2 (hx "7431") 1 0) 6 6 (1110)%Z) (1110)%Z (hx "61626f72746564"))], (Full (Obs (BResults [0]) [(Task (hx "7431") 1 6 6 (hx "6731") (2)%Z 1 2 2 1 2 [] 0 (0)%Z false 0 7 (1420)%Z proof_zero 1 (0)%Z [] [] (hx "61626f72746564") (1010)%Z (1110)%Z (1110)%Z progress_zero)] [((ChanKey (hx "6731") (2)%Z), None)] [((ChanKey (hx "6731") (2)%Z), (Some (RuntimeMeta (hx "6731") (2)%Z 1 3 5 [1; 2; 3] [1; 2; 3] 2 (2)%Z 1 1 (1380)%Z 0 (0)%Z [] 2 0 (0)%Z 0)))])))]).

Definition k1_claim_rewind_abort_case : c17_case :=
 (C17Case [([(CUpsertMeta (RuntimeMeta (hx "6731") (2)%Z 1 2 0 [1; 2; 3] [1; 2; 3] 1 (2)%Z 1 1 (1500)%Z 0 (0)%Z [] 0 0 (0)%Z 0))], (Full (Obs (BResults [0]) [] [((ChanKey (hx "6731") (2)%Z), None)] [((ChanKey (hx "6731") (2)%Z), (Some (RuntimeMeta (hx "6731") (2)%Z 1 2 2 [1; 2; 3] [1; 2; 3] 1 (2)%Z 1 1 (1500)%Z 0 (0)%Z [] 0 0 (0)%Z 0)))])));
  ([(CCreate (Task (hx "7431") 1 1 1 (hx "6731") (2)%Z 1 2 2 1 2 [] 0 (0)%Z false 0 0 (0)%Z proof_zero 0 (0)%Z [] [] [] (1010)%Z (1010)%Z (0)%Z progress_zero))], (Full (Obs (BResults [0]) [(Task (hx "7431") 1 1 1 (hx "6731") (2)%Z 1 2 2 1 2 [] 0 (0)%Z false 0 0 (0)%Z proof_zero 0 (0)%Z [] [] [] (1010)%Z (1010)%Z (0)%Z progress_zero)] [((ChanKey (hx "6731") (2)%Z), (Some (hx "7431")))] [((ChanKey (hx "6731") (2)%Z), (Some (RuntimeMeta (hx "6731") (2)%Z 1 2 2 [1; 2; 3] [1; 2; 3] 1 (2)%Z 1 1 (1500)%Z 0 (0)%Z [] 0 0 (0)%Z 0)))])));
  ([(CClaim (TGuard (hx "6731") (2)%Z (hx "7431") 1 1 0 (0)%Z (1010)%Z) 2 1 7 (1420)%Z (1020)%Z (1020)%Z)], (Full (Obs (BResults [0]) [(Task (hx "7431") 1 2 1 (hx "6731") (2)%Z 1 2 2 1 2 [] 0 (0)%Z false 0 7 (1420)%Z proof_zero 0 (0)%Z [] [] [] (1010)%Z (1020)%Z (0)%Z progress_zero)] [((ChanKey (hx "6731") (2)%Z), (Some (hx "7431")))] [((ChanKey (hx "6731") (2)%Z), (Some (RuntimeMeta (hx "6731") (2)%Z 1 2 2 [1; 2; 3] [1; 2; 3] 1 (2)%Z 1 1 (1500)%Z 0 (0)%Z [] 0 0 (0)%Z 0)))])));
  ([(CAdvance (TGuard (hx "6731") (2)%Z (hx "7431") 2 1 7 (1420)%Z (1020)%Z) 2 2 1 (0)%Z [] [] [] (1030)%Z (0)%Z progress_zero proof_zero 0)], (Full (Obs (BResults [0]) [(Task (hx "7431") 1 2 2 (hx "6731") (2)%Z 1 2 2 1 2 [] 0 (0)%Z false 0 7 (1420)%Z proof_zero 1 (0)%Z [] [] [] (1010)%Z (1030)%Z (0)%Z progress_zero)] [((ChanKey (hx "6731") (2)%Z), (Some (hx "7431")))] [((ChanKey (hx "6731") (2)%Z), (Some (RuntimeMeta (hx "6731") (2)%Z 1 2 2 [1; 2; 3] [1; 2; 3] 1 (2)%Z 1 1 (1500)%Z 0 (0)%Z [] 0 0 (0)%Z 0)))])));
  ([(CAdvance (TGuard (hx "6731") (2)%Z (hx "7431") 2 2 7 (1420)%Z (1030)%Z) 2 3 1 (0)%Z [] [] [] (1040)%Z (0)%Z progress_zero proof_zero 0)], (Full (Obs (BResults [0]) [(Task (hx "7431") 1 2 3 (hx "6731") (2)%Z 1 2 2 1 2 [] 0 (0)%Z false 0 7 (1420)%Z proof_zero 1 (0)%Z [] [] [] (1010)%Z (1040)%Z (0)%Z progress_zero)] [((ChanKey (hx "6731") (2)%Z), (Some (hx "7431")))] [((ChanKey (hx "6731") (2)%Z), (Some (RuntimeMeta (hx "6731") (2)%Z 1 2 2 [1; 2; 3] [1; 2; 3] 1 (2)%Z 1 1 (1500)%Z 0 (0)%Z [] 0 0 (0)%Z 0)))])));
  ([(CSetFence (Trans (TGuard (hx "6731") (2)%Z (hx "7431") 2 3 7 (1420)%Z (1040)%Z) (RGuard (hx "6731") (2)%Z 1 2 1 [] 0 0) 2 4 (1050)%Z) 1 (1350)%Z)], (Full (Obs (BResults [0]) [(Task (hx "7431") 1 2 4 (hx "6731") (2)%Z 1 2 2 1 2 (hx "7431") 1 (1350)%Z false 0 7 (1420)%Z proof_zero 1 (0)%Z [] [] [] (1010)%Z (1050)%Z (0)%Z progress_zero)] [((ChanKey (hx "6731") (2)%Z), (Some (hx "7431")))] [((ChanKey (hx "6731") (2)%Z), (Some (RuntimeMeta (hx "6731") (2)%Z 1 2 3 [1; 2; 3] [1; 2; 3] 1 (2)%Z 1 1 (1500)%Z 0 (0)%Z (hx "7431") 1 1 (1350)%Z 0)))])));
  ([(CAdvance (TGuard (hx "6731") (2)%Z (hx "7431") 2 4 7 (1420)%Z (1050)%Z) 2 5 1 (0)%Z [] [] [] (1060)%Z (0)%Z progress_zero (Proof 100 99 1 9 1 2 1) 0)], (Full (Obs (BResults [0]) [(Task (hx "7431") 1 2 5 (hx "6731") (2)%Z 1 2 2 1 2 (hx "7431") 1 (1350)%Z false 0 7 (1420)%Z (Proof 100 99 1 9 1 2 1) 1 (0)%Z [] [] [] (1010)%Z (1060)%Z (0)%Z progress_zero)] [((ChanKey (hx "6731") (2)%Z), (Some (hx "7431")))] [((ChanKey (hx "6731") (2)%Z), (Some (RuntimeMeta (hx "6731") (2)%Z 1 2 3 [1; 2; 3] [1; 2; 3] 1 (2)%Z 1 1 (1500)%Z 0 (0)%Z (hx "7431") 1 1 (1350)%Z 0)))])));
  ([(CAdvance (TGuard (hx "6731") (2)%Z (hx "7431") 2 5 7 (1420)%Z (1060)%Z) 2 6 1 (0)%Z [] [] [] (1070)%Z (0)%Z progress_zero (Proof 100 99 1 9 1 2 1) 0)], (Full (Obs (BResults [0]) [(Task (hx "7431") 1 2 6 (hx "6731") (2)%Z 1 2 2 1 2 (hx "7431") 1 (1350)%Z false 0 7 (1420)%Z (Proof 100 99 1 9 1 2 1) 1 (0)%Z [] [] [] (1010)%Z (1070)%Z (0)%Z progress_zero)] [((ChanKey (hx "6731") (2)%Z), (Some (hx "7431")))] [((ChanKey (hx "6731") (2)%Z), (Some (RuntimeMeta (hx "6731") (2)%Z 1 2 3 [1; 2; 3] [1; 2; 3] 1 (2)%Z 1 1 (1500)%Z 0 (0)%Z (hx "7431") 1 1 (1350)%Z 0)))])));
  ([(CCommit (Trans (TGuard (hx "6731") (2)%Z (hx "7431") 2 6 7 (1420)%Z (1070)%Z) (RGuard (hx "6731") (2)%Z 1 2 1 (hx "7431") 1 0) 2 7 (1080)%Z) 2 3 (1380)%Z (1080)%Z)], (Full (Obs (BResults [0]) [(Task (hx "7431") 1 2 7 (hx "6731") (2)%Z 1 2 2 1 2 (hx "7431") 1 (1350)%Z false 0 7 (1420)%Z (Proof 100 99 1 9 1 2 1) 1 (0)%Z [] [] [] (1010)%Z (1080)%Z (0)%Z progress_zero)] [((ChanKey (hx "6731") (2)%Z), (Some (hx "7431")))] [((ChanKey (hx "6731") (2)%Z), (Some (RuntimeMeta (hx "6731") (2)%Z 1 3 4 [1; 2; 3] [1; 2; 3] 2 (2)%Z 1 1 (1380)%Z 0 (0)%Z (hx "7431") 1 1 (1350)%Z 0)))])));
  ([(CClaim (TGuard (hx "6731") (2)%Z (hx "7431") 2 7 7 (1420)%Z (1080)%Z) 2 6 7 (1490)%Z (1090)%Z (1090)%Z)], (Full (Obs (BResults [0]) [(Task (hx "7431") 1 2 6 (hx "6731") (2)%Z 1 2 2 1 2 (hx "7431") 1 (1350)%Z false 0 7 (1490)%Z (Proof 100 99 1 9 1 2 1) 1 (0)%Z [] [] [] (1010)%Z (1090)%Z (0)%Z progress_zero)] [((ChanKey (hx "6731") (2)%Z), (Some (hx "7431")))] [((ChanKey (hx "6731") (2)%Z), (Some (RuntimeMeta (hx "6731") (2)%Z 1 3 4 [1; 2; 3] [1; 2; 3] 2 (2)%Z 1 1 (1380)%Z 0 (0)%Z (hx "7431") 1 1 (1350)%Z 0)))])));
  ([(CAbort (Trans (TGuard (hx "6731") (2)%Z (hx "7431") 2 6 7 (1490)%Z (1090)%Z) (RGuard (hx "6731") (2)%Z 1 3 2 (hx "7431") 1 0) 6 6 (1100)%Z) (1100)%Z (hx "61626f72746564"))], (Full (Obs (BResults [0]) [(Task (hx "7431") 1 6 6 (hx "6731") (2)%Z 1 2 2 1 2 [] 0 (0)%Z false 0 7 (1490)%Z proof_zero 1 (0)%Z [] [] (hx "61626f72746564") (1010)%Z (1100)%Z (1100)%Z progress_zero)] [((ChanKey (hx "6731") (2)%Z), None)] [((ChanKey (hx "6731") (2)%Z), (Some (RuntimeMeta (hx "6731") (2)%Z 1 3 5 [1; 2; 3] [1; 2; 3] 2 (2)%Z 1 1 (1380)%Z 0 (0)%Z [] 2 0 (0)%Z 0)))])))]).

Definition k2_reset_rewind_abort_case : c17_case :=
 (C17Case [([(CUpsertMeta (RuntimeMeta (hx "6731") (2)%Z 1 2 0 [1; 2; 3] [1; 2; 3] 1 (2)%Z 1 1 (1500)%Z 0 (0)%Z [] 0 0 (0)%Z 0))], (Full (Obs (BResults [0]) [] [((ChanKey (hx "6731") (2)%Z), None)] [((ChanKey (hx "6731") (2)%Z), (Some (RuntimeMeta (hx "6731") (2)%Z 1 2 2 [1; 2; 3] [1; 2; 3] 1 (2)%Z 1 1 (1500)%Z 0 (0)%Z [] 0 0 (0)%Z 0)))])));
  ([(CCreate (Task (hx "7431") 1 1 1 (hx "6731") (2)%Z 1 2 2 1 2 [] 0 (0)%Z false 0 0 (0)%Z proof_zero 0 (0)%Z [] [] [] (1010)%Z (1010)%Z (0)%Z progress_zero))], (Full (Obs (BResults [0]) [(Task (hx "7431") 1 1 1 (hx "6731") (2)%Z 1 2 2 1 2 [] 0 (0)%Z false 0 0 (0)%Z proof_zero 0 (0)%Z [] [] [] (1010)%Z (1010)%Z (0)%Z progress_zero)] [((ChanKey (hx "6731") (2)%Z), (Some (hx "7431")))] [((ChanKey (hx "6731") (2)%Z), (Some (RuntimeMeta (hx "6731") (2)%Z 1 2 2 [1; 2; 3] [1; 2; 3] 1 (2)%Z 1 1 (1500)%Z 0 (0)%Z [] 0 0 (0)%Z 0)))])));
  ([(CClaim (TGuard (hx "6731") (2)%Z (hx "7431") 1 1 0 (0)%Z (1010)%Z) 2 1 7 (1420)%Z (1020)%Z (1020)%Z)], (Full (Obs (BResults [0]) [(Task (hx "7431") 1 2 1 (hx "6731") (2)%Z 1 2 2 1 2 [] 0 (0)%Z false 0 7 (1420)%Z proof_zero 0 (0)%Z [] [] [] (1010)%Z (1020)%Z (0)%Z progress_zero)] [((ChanKey (hx "6731") (2)%Z), (Some (hx "7431")))] [((ChanKey (hx "6731") (2)%Z), (Some (RuntimeMeta (hx "6731") (2)%Z 1 2 2 [1; 2; 3] [1; 2; 3] 1 (2)%Z 1 1 (1500)%Z 0 (0)%Z [] 0 0 (0)%Z 0)))])));
  ([(CAdvance (TGuard (hx "6731") (2)%Z (hx "7431") 2 1 7 (1420)%Z (1020)%Z) 2 2 1 (0)%Z [] [] [] (1030)%Z (0)%Z progress_zero proof_zero 0)], (Full (Obs (BResults [0]) [(Task (hx "7431") 1 2 2 (hx "6731") (2)%Z 1 2 2 1 2 [] 0 (0)%Z false 0 7 (1420)%Z proof_zero 1 (0)%Z [] [] [] (1010)%Z (1030)%Z (0)%Z progress_zero)] [((ChanKey (hx "6731") (2)%Z), (Some (hx "7431")))] [((ChanKey (hx "6731") (2)%Z), (Some (RuntimeMeta (hx "6731") (2)%Z 1 2 2 [1; 2; 3] [1; 2; 3] 1 (2)%Z 1 1 (1500)%Z 0 (0)%Z [] 0 0 (0)%Z 0)))])));
  ([(CAdvance (TGuard (hx "6731") (2)%Z (hx "7431") 2 2 7 (1420)%Z (1030)%Z) 2 3 1 (0)%Z [] [] [] (1040)%Z (0)%Z progress_zero proof_zero 0)], (Full (Obs (BResults [0]) [(Task (hx "7431") 1 2 3 (hx "6731") (2)%Z 1 2 2 1 2 [] 0 (0)%Z false 0 7 (1420)%Z proof_zero 1 (0)%Z [] [] [] (1010)%Z (1040)%Z (0)%Z progress_zero)] [((ChanKey (hx "6731") (2)%Z), (Some (hx "7431")))] [((ChanKey (hx "6731") (2)%Z), (Some (RuntimeMeta (hx "6731") (2)%Z 1 2 2 [1; 2; 3] [1; 2; 3] 1 (2)%Z 1 1 (1500)%Z 0 (0)%Z [] 0 0 (0)%Z 0)))])));
  ([(CSetFence (Trans (TGuard (hx "6731") (2)%Z (hx "7431") 2 3 7 (1420)%Z (1040)%Z) (RGuard (hx "6731") (2)%Z 1 2 1 [] 0 0) 2 4 (1050)%Z) 1 (1350)%Z)], (Full (Obs (BResults [0]) [(Task (hx "7431") 1 2 4 (hx "6731") (2)%Z 1 2 2 1 2 (hx "7431") 1 (1350)%Z false 0 7 (1420)%Z proof_zero 1 (0)%Z [] [] [] (1010)%Z (1050)%Z (0)%Z progress_zero)] [((ChanKey (hx "6731") (2)%Z), (Some (hx "7431")))] [((ChanKey (hx "6731") (2)%Z), (Some (RuntimeMeta (hx "6731") (2)%Z 1 2 3 [1; 2; 3] [1; 2; 3] 1 (2)%Z 1 1 (1500)%Z 0 (0)%Z (hx "7431") 1 1 (1350)%Z 0)))])));
  ([(CAdvance (TGuard (hx "6731") (2)%Z (hx "7431") 2 4 7 (1420)%Z (1050)%Z) 2 5 1 (0)%Z [] [] [] (1060)%Z (0)%Z progress_zero (Proof 100 99 1 9 1 2 1) 0)], (Full (Obs (BResults [0]) [(Task (hx "7431") 1 2 5 (hx "6731") (2)%Z 1 2 2 1 2 (hx "7431") 1 (1350)%Z false 0 7 (1420)%Z (Proof 100 99 1 9 1 2 1) 1 (0)%Z [] [] [] (1010)%Z (1060)%Z (0)%Z progress_zero)] [((ChanKey (hx "6731") (2)%Z), (Some (hx "7431")))] [((ChanKey (hx "6731") (2)%Z), (Some (RuntimeMeta (hx "6731") (2)%Z 1 2 3 [1; 2; 3] [1; 2; 3] 1 (2)%Z 1 1 (1500)%Z 0 (0)%Z (hx "7431") 1 1 (1350)%Z 0)))])));
  ([(CAdvance (TGuard (hx "6731") (2)%Z (hx "7431") 2 5 7 (1420)%Z (1060)%Z) 2 6 1 (0)%Z [] [] [] (1070)%Z (0)%Z progress_zero (Proof 100 99 1 9 1 2 1) 0)], (Full (Obs (BResults [0]) [(Task (hx "7431") 1 2 6 (hx "6731") (2)%Z 1 2 2 1 2 (hx "7431") 1 (1350)%Z false 0 7 (1420)%Z (Proof 100 99 1 9 1 2 1) 1 (0)%Z [] [] [] (1010)%Z (1070)%Z (0)%Z progress_zero)] [((ChanKey (hx "6731") (2)%Z), (Some (hx "7431")))] [((ChanKey (hx "6731") (2)%Z), (Some (RuntimeMeta (hx "6731") (2)%Z 1 2 3 [1; 2; 3] [1; 2; 3] 1 (2)%Z 1 1 (1500)%Z 0 (0)%Z (hx "7431") 1 1 (1350)%Z 0)))])));
  ([(CCommit (Trans (TGuard (hx "6731") (2)%Z (hx "7431") 2 6 7 (1420)%Z (1070)%Z) (RGuard (hx "6731") (2)%Z 1 2 1 (hx "7431") 1 0) 2 7 (1080)%Z) 2 3 (1380)%Z (1080)%Z)], (Full (Obs (BResults [0]) [(Task (hx "7431") 1 2 7 (hx "6731") (2)%Z 1 2 2 1 2 (hx "7431") 1 (1350)%Z false 0 7 (1420)%Z (Proof 100 99 1 9 1 2 1) 1 (0)%Z [] [] [] (1010)%Z (1080)%Z (0)%Z progress_zero)] [((ChanKey (hx "6731") (2)%Z), (Some (hx "7431")))] [((ChanKey (hx "6731") (2)%Z), (Some (RuntimeMeta (hx "6731") (2)%Z 1 3 4 [1; 2; 3] [1; 2; 3] 2 (2)%Z 1 1 (1380)%Z 0 (0)%Z (hx "7431") 1 1 (1350)%Z 0)))])));
  ([(CAbort (Trans (TGuard (hx "6731") (2)%Z (hx "7431") 2 7 7 (1420)%Z (1080)%Z) (RGuard (hx "6731") (2)%Z 1 3 2 (hx "7431") 1 0) 6 7 (1090)%Z) (1090)%Z (hx "61626f72746564"))], (Same (BResults [1])));
  ([(CReset (Trans (TGuard (hx "6731") (2)%Z (hx "7431") 2 7 7 (1420)%Z (1080)%Z) (RGuard (hx "6731") (2)%Z 1 3 2 (hx "7431") 1 0) 2 2 (1100)%Z) (1351)%Z)], (Full (Obs (BResults [0]) [(Task (hx "7431") 1 2 2 (hx "6731") (2)%Z 1 2 2 1 2 [] 0 (0)%Z false 0 7 (1420)%Z proof_zero 1 (0)%Z [] [] [] (1010)%Z (1100)%Z (0)%Z progress_zero)] [((ChanKey (hx "6731") (2)%Z), (Some (hx "7431")))] [((ChanKey (hx "6731") (2)%Z), (Some (RuntimeMeta (hx "6731") (2)%Z 1 3 5 [1; 2; 3] [1; 2; 3] 2 (2)%Z 1 1 (1380)%Z 0 (0)%Z [] 2 0 (0)%Z 0)))])));
  ([(CAbort (Trans (TGuard (hx "6731") (2)%Z (hx "7431") 2 2 7 (1420)%Z (1100)%Z) (RGuard (hx "6731") (2)%Z 1 3 2 [] 2 0) 6 2 (1110)%Z) (1110)%Z (hx "61626f72746564"))], (Full (Obs (BResults [0]) [(Task (hx "7431") 1 6 2 (hx "6731") (2)%Z 1 2 2 1 2 [] 0 (0)%Z false 0 7 (1420)%Z proof_zero 1 (0)%Z [] [] (hx "61626f72746564") (1010)%Z (1110)%Z (1110)%Z progress_zero)] [((ChanKey (hx "6731") (2)%Z), None)] [((ChanKey (hx "6731") (2)%Z), (Some (RuntimeMeta (hx "6731") (2)%Z 1 3 5 [1; 2; 3] [1; 2; 3] 2 (2)%Z 1 1 (1380)%Z 0 (0)%Z [] 2 0 (0)%Z 0)))])))]).

Definition k3_batch_double_active_case : c17_case :=
 (C17Case [([(CUpsertMeta (RuntimeMeta (hx "6731") (2)%Z 1 2 0 [1; 2; 3] [1; 2; 3] 1 (2)%Z 1 1 (1500)%Z 0 (0)%Z [] 0 0 (0)%Z 0))], (Full (Obs (BResults [0]) [] [((ChanKey (hx "6731") (2)%Z), None)] [((ChanKey (hx "6731") (2)%Z), (Some (RuntimeMeta (hx "6731") (2)%Z 1 2 2 [1; 2; 3] [1; 2; 3] 1 (2)%Z 1 1 (1500)%Z 0 (0)%Z [] 0 0 (0)%Z 0)))])));
  ([(CCreate (Task (hx "7431") 1 1 1 (hx "6731") (2)%Z 1 2 2 1 2 [] 0 (0)%Z false 0 0 (0)%Z proof_zero 0 (0)%Z [] [] [] (1010)%Z (1010)%Z (0)%Z progress_zero))], (Full (Obs (BResults [0]) [(Task (hx "7431") 1 1 1 (hx "6731") (2)%Z 1 2 2 1 2 [] 0 (0)%Z false 0 0 (0)%Z proof_zero 0 (0)%Z [] [] [] (1010)%Z (1010)%Z (0)%Z progress_zero)] [((ChanKey (hx "6731") (2)%Z), (Some (hx "7431")))] [((ChanKey (hx "6731") (2)%Z), (Some (RuntimeMeta (hx "6731") (2)%Z 1 2 2 [1; 2; 3] [1; 2; 3] 1 (2)%Z 1 1 (1500)%Z 0 (0)%Z [] 0 0 (0)%Z 0)))])));
  ([(CClaim (TGuard (hx "6731") (2)%Z (hx "7431") 1 1 0 (0)%Z (1010)%Z) 2 1 7 (1420)%Z (1020)%Z (1020)%Z)], (Full (Obs (BResults [0]) [(Task (hx "7431") 1 2 1 (hx "6731") (2)%Z 1 2 2 1 2 [] 0 (0)%Z false 0 7 (1420)%Z proof_zero 0 (0)%Z [] [] [] (1010)%Z (1020)%Z (0)%Z progress_zero)] [((ChanKey (hx "6731") (2)%Z), (Some (hx "7431")))] [((ChanKey (hx "6731") (2)%Z), (Some (RuntimeMeta (hx "6731") (2)%Z 1 2 2 [1; 2; 3] [1; 2; 3] 1 (2)%Z 1 1 (1500)%Z 0 (0)%Z [] 0 0 (0)%Z 0)))])));
  ([(CAdvance (TGuard (hx "6731") (2)%Z (hx "7431") 2 1 7 (1420)%Z (1020)%Z) 2 2 1 (0)%Z [] [] [] (1030)%Z (0)%Z progress_zero proof_zero 0)], (Full (Obs (BResults [0]) [(Task (hx "7431") 1 2 2 (hx "6731") (2)%Z 1 2 2 1 2 [] 0 (0)%Z false 0 7 (1420)%Z proof_zero 1 (0)%Z [] [] [] (1010)%Z (1030)%Z (0)%Z progress_zero)] [((ChanKey (hx "6731") (2)%Z), (Some (hx "7431")))] [((ChanKey (hx "6731") (2)%Z), (Some (RuntimeMeta (hx "6731") (2)%Z 1 2 2 [1; 2; 3] [1; 2; 3] 1 (2)%Z 1 1 (1500)%Z 0 (0)%Z [] 0 0 (0)%Z 0)))])));
  ([(CAdvance (TGuard (hx "6731") (2)%Z (hx "7431") 2 2 7 (1420)%Z (1030)%Z) 2 3 1 (0)%Z [] [] [] (1040)%Z (0)%Z progress_zero proof_zero 0)], (Full (Obs (BResults [0]) [(Task (hx "7431") 1 2 3 (hx "6731") (2)%Z 1 2 2 1 2 [] 0 (0)%Z false 0 7 (1420)%Z proof_zero 1 (0)%Z [] [] [] (1010)%Z (1040)%Z (0)%Z progress_zero)] [((ChanKey (hx "6731") (2)%Z), (Some (hx "7431")))] [((ChanKey (hx "6731") (2)%Z), (Some (RuntimeMeta (hx "6731") (2)%Z 1 2 2 [1; 2; 3] [1; 2; 3] 1 (2)%Z 1 1 (1500)%Z 0 (0)%Z [] 0 0 (0)%Z 0)))])));
  ([(CSetFence (Trans (TGuard (hx "6731") (2)%Z (hx "7431") 2 3 7 (1420)%Z (1040)%Z) (RGuard (hx "6731") (2)%Z 1 2 1 [] 0 0) 2 4 (1050)%Z) 1 (1350)%Z)], (Full (Obs (BResults [0]) [(Task (hx "7431") 1 2 4 (hx "6731") (2)%Z 1 2 2 1 2 (hx "7431") 1 (1350)%Z false 0 7 (1420)%Z proof_zero 1 (0)%Z [] [] [] (1010)%Z (1050)%Z (0)%Z progress_zero)] [((ChanKey (hx "6731") (2)%Z), (Some (hx "7431")))] [((ChanKey (hx "6731") (2)%Z), (Some (RuntimeMeta (hx "6731") (2)%Z 1 2 3 [1; 2; 3] [1; 2; 3] 1 (2)%Z 1 1 (1500)%Z 0 (0)%Z (hx "7431") 1 1 (1350)%Z 0)))])));
  ([(CAdvance (TGuard (hx "6731") (2)%Z (hx "7431") 2 4 7 (1420)%Z (1050)%Z) 2 5 1 (0)%Z [] [] [] (1060)%Z (0)%Z progress_zero (Proof 100 99 1 9 1 2 1) 0)], (Full (Obs (BResults [0]) [(Task (hx "7431") 1 2 5 (hx "6731") (2)%Z 1 2 2 1 2 (hx "7431") 1 (1350)%Z false 0 7 (1420)%Z (Proof 100 99 1 9 1 2 1) 1 (0)%Z [] [] [] (1010)%Z (1060)%Z (0)%Z progress_zero)] [((ChanKey (hx "6731") (2)%Z), (Some (hx "7431")))] [((ChanKey (hx "6731") (2)%Z), (Some (RuntimeMeta (hx "6731") (2)%Z 1 2 3 [1; 2; 3] [1; 2; 3] 1 (2)%Z 1 1 (1500)%Z 0 (0)%Z (hx "7431") 1 1 (1350)%Z 0)))])));
  ([(CAdvance (TGuard (hx "6731") (2)%Z (hx "7431") 2 5 7 (1420)%Z (1060)%Z) 2 6 1 (0)%Z [] [] [] (1070)%Z (0)%Z progress_zero (Proof 100 99 1 9 1 2 1) 0)], (Full (Obs (BResults [0]) [(Task (hx "7431") 1 2 6 (hx "6731") (2)%Z 1 2 2 1 2 (hx "7431") 1 (1350)%Z false 0 7 (1420)%Z (Proof 100 99 1 9 1 2 1) 1 (0)%Z [] [] [] (1010)%Z (1070)%Z (0)%Z progress_zero)] [((ChanKey (hx "6731") (2)%Z), (Some (hx "7431")))] [((ChanKey (hx "6731") (2)%Z), (Some (RuntimeMeta (hx "6731") (2)%Z 1 2 3 [1; 2; 3] [1; 2; 3] 1 (2)%Z 1 1 (1500)%Z 0 (0)%Z (hx "7431") 1 1 (1350)%Z 0)))])));
  ([(CCommit (Trans (TGuard (hx "6731") (2)%Z (hx "7431") 2 6 7 (1420)%Z (1070)%Z) (RGuard (hx "6731") (2)%Z 1 2 1 (hx "7431") 1 0) 2 7 (1080)%Z) 2 3 (1380)%Z (1080)%Z)], (Full (Obs (BResults [0]) [(Task (hx "7431") 1 2 7 (hx "6731") (2)%Z 1 2 2 1 2 (hx "7431") 1 (1350)%Z false 0 7 (1420)%Z (Proof 100 99 1 9 1 2 1) 1 (0)%Z [] [] [] (1010)%Z (1080)%Z (0)%Z progress_zero)] [((ChanKey (hx "6731") (2)%Z), (Some (hx "7431")))] [((ChanKey (hx "6731") (2)%Z), (Some (RuntimeMeta (hx "6731") (2)%Z 1 3 4 [1; 2; 3] [1; 2; 3] 2 (2)%Z 1 1 (1380)%Z 0 (0)%Z (hx "7431") 1 1 (1350)%Z 0)))])));
  ([(CClear (Trans (TGuard (hx "6731") (2)%Z (hx "7431") 2 7 7 (1420)%Z (1080)%Z) (RGuard (hx "6731") (2)%Z 1 3 2 (hx "7431") 1 0) 4 27 (1090)%Z) (1090)%Z)], (Full (Obs (BResults [0]) [(Task (hx "7431") 1 4 27 (hx "6731") (2)%Z 1 2 2 1 2 [] 0 (0)%Z false 0 7 (1420)%Z proof_zero 1 (0)%Z [] [] [] (1010)%Z (1090)%Z (1090)%Z progress_zero)] [((ChanKey (hx "6731") (2)%Z), None)] [((ChanKey (hx "6731") (2)%Z), (Some (RuntimeMeta (hx "6731") (2)%Z 1 3 5 [1; 2; 3] [1; 2; 3] 2 (2)%Z 1 1 (1380)%Z 0 (0)%Z [] 2 0 (0)%Z 0)))])));
  ([(CAdvance (TGuard (hx "6731") (2)%Z (hx "7431") 4 27 7 (1420)%Z (1090)%Z) 2 2 1 (0)%Z [] [] [] (1100)%Z (0)%Z progress_zero proof_zero 0);
  (CCreate (Task (hx "7432") 1 1 1 (hx "6731") (2)%Z 2 1 1 1 3 [] 0 (0)%Z false 0 0 (0)%Z proof_zero 0 (0)%Z [] [] [] (1105)%Z (1105)%Z (0)%Z progress_zero))], (Full (Obs (BResults [0; 0]) [(Task (hx "7431") 1 2 2 (hx "6731") (2)%Z 1 2 2 1 2 [] 0 (0)%Z false 0 7 (1420)%Z proof_zero 1 (0)%Z [] [] [] (1010)%Z (1100)%Z (0)%Z progress_zero);
  (Task (hx "7432") 1 1 1 (hx "6731") (2)%Z 2 1 1 1 3 [] 0 (0)%Z false 0 0 (0)%Z proof_zero 0 (0)%Z [] [] [] (1105)%Z (1105)%Z (0)%Z progress_zero)] [((ChanKey (hx "6731") (2)%Z), (Some (hx "7432")))] [((ChanKey (hx "6731") (2)%Z), (Some (RuntimeMeta (hx "6731") (2)%Z 1 3 5 [1; 2; 3] [1; 2; 3] 2 (2)%Z 1 1 (1380)%Z 0 (0)%Z [] 2 0 (0)%Z 0)))])))]).

Definition r03_embedded_leg_then_abort_case : c17_case :=
 (C17Case [([(CUpsertMeta (RuntimeMeta (hx "6731") (2)%Z 1 2 0 [1; 2; 3] [1; 2; 3] 3 (2)%Z 1 1 (1500)%Z 0 (0)%Z [] 0 0 (0)%Z 0))], (Full (Obs (BResults [0]) [] [((ChanKey (hx "6731") (2)%Z), None)] [((ChanKey (hx "6731") (2)%Z), (Some (RuntimeMeta (hx "6731") (2)%Z 1 2 2 [1; 2; 3] [1; 2; 3] 3 (2)%Z 1 1 (1500)%Z 0 (0)%Z [] 0 0 (0)%Z 0)))])));
  ([(CCreate (Task (hx "7431") 2 1 1 (hx "6731") (2)%Z 3 4 0 1 2 [] 0 (0)%Z false 0 0 (0)%Z proof_zero 0 (0)%Z [] [] [] (1010)%Z (1010)%Z (0)%Z progress_zero))], (Full (Obs (BResults [0]) [(Task (hx "7431") 2 1 1 (hx "6731") (2)%Z 3 4 0 1 2 [] 0 (0)%Z false 0 0 (0)%Z proof_zero 0 (0)%Z [] [] [] (1010)%Z (1010)%Z (0)%Z progress_zero)] [((ChanKey (hx "6731") (2)%Z), (Some (hx "7431")))] [((ChanKey (hx "6731") (2)%Z), (Some (RuntimeMeta (hx "6731") (2)%Z 1 2 2 [1; 2; 3] [1; 2; 3] 3 (2)%Z 1 1 (1500)%Z 0 (0)%Z [] 0 0 (0)%Z 0)))])));
  ([(CClaim (TGuard (hx "6731") (2)%Z (hx "7431") 1 1 0 (0)%Z (1010)%Z) 2 1 7 (1420)%Z (1020)%Z (1020)%Z)], (Full (Obs (BResults [0]) [(Task (hx "7431") 2 2 1 (hx "6731") (2)%Z 3 4 0 1 2 [] 0 (0)%Z false 0 7 (1420)%Z proof_zero 0 (0)%Z [] [] [] (1010)%Z (1020)%Z (0)%Z progress_zero)] [((ChanKey (hx "6731") (2)%Z), (Some (hx "7431")))] [((ChanKey (hx "6731") (2)%Z), (Some (RuntimeMeta (hx "6731") (2)%Z 1 2 2 [1; 2; 3] [1; 2; 3] 3 (2)%Z 1 1 (1500)%Z 0 (0)%Z [] 0 0 (0)%Z 0)))])));
  ([(CAdvance (TGuard (hx "6731") (2)%Z (hx "7431") 2 1 7 (1420)%Z (1020)%Z) 2 2 1 (0)%Z [] [] [] (1030)%Z (0)%Z progress_zero proof_zero 1)], (Full (Obs (BResults [0]) [(Task (hx "7431") 2 2 2 (hx "6731") (2)%Z 3 4 0 1 2 [] 0 (0)%Z true 1 7 (1420)%Z proof_zero 1 (0)%Z [] [] [] (1010)%Z (1030)%Z (0)%Z progress_zero)] [((ChanKey (hx "6731") (2)%Z), (Some (hx "7431")))] [((ChanKey (hx "6731") (2)%Z), (Some (RuntimeMeta (hx "6731") (2)%Z 1 2 2 [1; 2; 3] [1; 2; 3] 3 (2)%Z 1 1 (1500)%Z 0 (0)%Z [] 0 0 (0)%Z 0)))])));
  ([(CAdvance (TGuard (hx "6731") (2)%Z (hx "7431") 2 2 7 (1420)%Z (1030)%Z) 2 3 1 (0)%Z [] [] [] (1040)%Z (0)%Z progress_zero proof_zero 0)], (Full (Obs (BResults [0]) [(Task (hx "7431") 2 2 3 (hx "6731") (2)%Z 3 4 0 1 2 [] 0 (0)%Z true 1 7 (1420)%Z proof_zero 1 (0)%Z [] [] [] (1010)%Z (1040)%Z (0)%Z progress_zero)] [((ChanKey (hx "6731") (2)%Z), (Some (hx "7431")))] [((ChanKey (hx "6731") (2)%Z), (Some (RuntimeMeta (hx "6731") (2)%Z 1 2 2 [1; 2; 3] [1; 2; 3] 3 (2)%Z 1 1 (1500)%Z 0 (0)%Z [] 0 0 (0)%Z 0)))])));
  ([(CSetFence (Trans (TGuard (hx "6731") (2)%Z (hx "7431") 2 3 7 (1420)%Z (1040)%Z) (RGuard (hx "6731") (2)%Z 1 2 3 [] 0 0) 2 4 (1050)%Z) 1 (1350)%Z)], (Full (Obs (BResults [0]) [(Task (hx "7431") 2 2 4 (hx "6731") (2)%Z 3 4 0 1 2 (hx "7431") 1 (1350)%Z true 1 7 (1420)%Z proof_zero 1 (0)%Z [] [] [] (1010)%Z (1050)%Z (0)%Z progress_zero)] [((ChanKey (hx "6731") (2)%Z), (Some (hx "7431")))] [((ChanKey (hx "6731") (2)%Z), (Some (RuntimeMeta (hx "6731") (2)%Z 1 2 3 [1; 2; 3] [1; 2; 3] 3 (2)%Z 1 1 (1500)%Z 0 (0)%Z (hx "7431") 1 1 (1350)%Z 0)))])));
  ([(CAdvance (TGuard (hx "6731") (2)%Z (hx "7431") 2 4 7 (1420)%Z (1050)%Z) 2 5 1 (0)%Z [] [] [] (1060)%Z (0)%Z progress_zero (Proof 100 99 3 9 1 2 1) 0)], (Full (Obs (BResults [0]) [(Task (hx "7431") 2 2 5 (hx "6731") (2)%Z 3 4 0 1 2 (hx "7431") 1 (1350)%Z true 1 7 (1420)%Z (Proof 100 99 3 9 1 2 1) 1 (0)%Z [] [] [] (1010)%Z (1060)%Z (0)%Z progress_zero)] [((ChanKey (hx "6731") (2)%Z), (Some (hx "7431")))] [((ChanKey (hx "6731") (2)%Z), (Some (RuntimeMeta (hx "6731") (2)%Z 1 2 3 [1; 2; 3] [1; 2; 3] 3 (2)%Z 1 1 (1500)%Z 0 (0)%Z (hx "7431") 1 1 (1350)%Z 0)))])));
  ([(CAdvance (TGuard (hx "6731") (2)%Z (hx "7431") 2 5 7 (1420)%Z (1060)%Z) 2 6 1 (0)%Z [] [] [] (1070)%Z (0)%Z progress_zero (Proof 100 99 3 9 1 2 1) 0)], (Full (Obs (BResults [0]) [(Task (hx "7431") 2 2 6 (hx "6731") (2)%Z 3 4 0 1 2 (hx "7431") 1 (1350)%Z true 1 7 (1420)%Z (Proof 100 99 3 9 1 2 1) 1 (0)%Z [] [] [] (1010)%Z (1070)%Z (0)%Z progress_zero)] [((ChanKey (hx "6731") (2)%Z), (Some (hx "7431")))] [((ChanKey (hx "6731") (2)%Z), (Some (RuntimeMeta (hx "6731") (2)%Z 1 2 3 [1; 2; 3] [1; 2; 3] 3 (2)%Z 1 1 (1500)%Z 0 (0)%Z (hx "7431") 1 1 (1350)%Z 0)))])));
  ([(CCommit (Trans (TGuard (hx "6731") (2)%Z (hx "7431") 2 6 7 (1420)%Z (1070)%Z) (RGuard (hx "6731") (2)%Z 1 2 3 (hx "7431") 1 0) 2 7 (1080)%Z) 1 3 (1380)%Z (1080)%Z)], (Full (Obs (BResults [0]) [(Task (hx "7431") 2 2 7 (hx "6731") (2)%Z 3 4 0 1 2 (hx "7431") 1 (1350)%Z true 1 7 (1420)%Z (Proof 100 99 3 9 1 2 1) 1 (0)%Z [] [] [] (1010)%Z (1080)%Z (0)%Z progress_zero)] [((ChanKey (hx "6731") (2)%Z), (Some (hx "7431")))] [((ChanKey (hx "6731") (2)%Z), (Some (RuntimeMeta (hx "6731") (2)%Z 1 3 4 [1; 2; 3] [1; 2; 3] 1 (2)%Z 1 1 (1380)%Z 0 (0)%Z (hx "7431") 1 1 (1350)%Z 0)))])));
  ([(CAbort (Trans (TGuard (hx "6731") (2)%Z (hx "7431") 2 7 7 (1420)%Z (1080)%Z) (RGuard (hx "6731") (2)%Z 1 3 1 (hx "7431") 1 0) 6 7 (1090)%Z) (1090)%Z (hx "61626f72746564"))], (Same (BResults [1])));
  ([(CClear (Trans (TGuard (hx "6731") (2)%Z (hx "7431") 2 7 7 (1420)%Z (1080)%Z) (RGuard (hx "6731") (2)%Z 1 3 1 (hx "7431") 1 0) 2 20 (1100)%Z) (0)%Z)], (Full (Obs (BResults [0]) [(Task (hx "7431") 2 2 20 (hx "6731") (2)%Z 3 4 0 1 2 [] 0 (0)%Z false 0 7 (1420)%Z proof_zero 1 (0)%Z [] [] [] (1010)%Z (1100)%Z (0)%Z progress_zero)] [((ChanKey (hx "6731") (2)%Z), (Some (hx "7431")))] [((ChanKey (hx "6731") (2)%Z), (Some (RuntimeMeta (hx "6731") (2)%Z 1 3 5 [1; 2; 3] [1; 2; 3] 1 (2)%Z 1 1 (1380)%Z 0 (0)%Z [] 2 0 (0)%Z 0)))])));
  ([(CAddLearner (Trans (TGuard (hx "6731") (2)%Z (hx "7431") 2 20 7 (1420)%Z (1100)%Z) (RGuard (hx "6731") (2)%Z 1 3 1 [] 2 0) 2 21 (1110)%Z) 4)], (Full (Obs (BResults [0]) [(Task (hx "7431") 2 2 21 (hx "6731") (2)%Z 3 4 0 1 2 [] 0 (0)%Z false 0 7 (1420)%Z proof_zero 1 (0)%Z [] [] [] (1010)%Z (1110)%Z (0)%Z progress_zero)] [((ChanKey (hx "6731") (2)%Z), (Some (hx "7431")))] [((ChanKey (hx "6731") (2)%Z), (Some (RuntimeMeta (hx "6731") (2)%Z 2 3 6 [1; 2; 3; 4] [1; 2; 3] 1 (2)%Z 1 1 (1380)%Z 0 (0)%Z [] 2 0 (0)%Z 0)))])));
  ([(CAbort (Trans (TGuard (hx "6731") (2)%Z (hx "7431") 2 21 7 (1420)%Z (1110)%Z) (RGuard (hx "6731") (2)%Z 2 3 1 [] 2 0) 6 21 (1120)%Z) (1120)%Z (hx "61626f72746564"))], (Full (Obs (BResults [0]) [(Task (hx "7431") 2 6 21 (hx "6731") (2)%Z 3 4 0 1 2 [] 0 (0)%Z false 0 7 (1420)%Z proof_zero 1 (0)%Z [] [] (hx "61626f72746564") (1010)%Z (1120)%Z (1120)%Z progress_zero)] [((ChanKey (hx "6731") (2)%Z), None)] [((ChanKey (hx "6731") (2)%Z), (Some (RuntimeMeta (hx "6731") (2)%Z 3 3 7 [1; 2; 3] [1; 2; 3] 1 (2)%Z 1 1 (1380)%Z 0 (0)%Z [] 2 0 (0)%Z 0)))])))]).

(* ---- readable predicates on model runs ----------------------------------------------------- *)

Definition batches_of (c : c17_case) : list (list cmd) := map fst (c_raw_steps c).

Fixpoint run_batches (d : db) (bs : list (list cmd)) : db :=
  match bs with
  | [] => d
  | b :: r => run_batches (fst (ApplyBatch d b)) r
  end.

Definition is_cutover_cmd (c : cmd) : bool :=
  match c with CCommit _ _ _ _ _ | CPromote _ _ _ _ => true | _ => false end.

(* one-command batches only: some CommitChannelLeaderTransfer / PromoteLearnerAndRemoveReplica on a
   task was accepted ("ok") and a later AbortChannelMigration on the same task was accepted too *)
Fixpoint abort_after_cutover (d : db) (cut : list tkey) (bs : list (list cmd)) : bool :=
  match bs with
  | [] => false
  | [c] :: r =>
    let '(d', res) := ApplyBatch d [c] in
    let ok := match res with BResults [0] => true | _ => false end in
    match cmd_key c with
    | Some k =>
      if ok && is_abort c && existsb (tkey_eqb k) cut then true
      else abort_after_cutover d' (if ok && is_cutover_cmd c then k :: cut else cut) r
    | None => abort_after_cutover d' cut r
    end
  | _ :: _ => false
  end.

Definition double_active (d : db) : bool :=
  existsb (fun t1 => existsb (fun t2 => isActive t1 && isActive t2
                                        && chan_key_eqb (task_chan t1) (task_chan t2)
                                        && negb (tkey_eqb (task_key t1) (task_key t2)))
                             (db_tasks d)) (db_tasks d).

Definition all_single (bs : list (list cmd)) : bool :=
  forallb (fun b => match b with [_] => true | _ => false end) bs.

(* ---- K1: a generic Advance / Claim rewinds a committed task, Abort is then accepted --------------- *)

Lemma k1_model_agrees : C17_mismatch k1_advance_rewind_abort_case = false.
Proof. vm_compute. reflexivity. Qed.

Theorem c17_rewind_abort_refuted_witness :
  all_single (batches_of k1_advance_rewind_abort_case) = true
  /\ abort_after_cutover db_empty [] (batches_of k1_advance_rewind_abort_case) = true
  /\ C17_monitor k1_advance_rewind_abort_case = 2.
Proof. vm_compute. repeat split. Qed.

Theorem c17_claim_rewind_abort_witness :
  C17_mismatch k1_claim_rewind_abort_case = false
  /\ abort_after_cutover db_empty [] (batches_of k1_claim_rewind_abort_case) = true
  /\ C17_monitor k1_claim_rewind_abort_case = 2.
Proof. vm_compute. repeat split. Qed.

(* ---- K2: ResetChannelWriteFenceToPreCutover rewinds a committed task whose fence expired ------------ *)

Theorem c17_reset_rewind_abort_refuted_witness :
  C17_mismatch k2_reset_rewind_abort_case = false
  /\ all_single (batches_of k2_reset_rewind_abort_case) = true
  /\ abort_after_cutover db_empty [] (batches_of k2_reset_rewind_abort_case) = true
  /\ C17_monitor k2_reset_rewind_abort_case = 3.
Proof. vm_compute. repeat split. Qed.

(* ---- K3: two active tasks on one channel after one two-command batch ----------------------------------- *)

Theorem c17_batch_double_active_refuted_witness :
  C17_mismatch k3_batch_double_active_case = false
  /\ double_active (run_batches db_empty (removelast (batches_of k3_batch_double_active_case))) = false
  /\ double_active (run_batches db_empty (batches_of k3_batch_double_active_case)) = true
  /\ C17_monitor k3_batch_double_active_case = 4.
Proof. vm_compute. repeat split. Qed.

(* ---- not a violation: the embedded leader-transfer leg of a replica replacement ends, the task
        continues as a plain replica replacement and may then be aborted ------------------------------- *)

Theorem c17_embedded_leg_then_abort_ok :
  C17_mismatch r03_embedded_leg_then_abort_case = false
  /\ C17_monitor r03_embedded_leg_then_abort_case = 0.
Proof. vm_compute. repeat split. Qed.

(* ---- the forms quoted in Properties/C17.v ------------------------------------------------------------- *)

Lemma rewind_abort_refuted :
  exists bs, all_single bs = true /\ abort_after_cutover db_empty [] bs = true.
Proof.
  exists (batches_of k1_advance_rewind_abort_case).
  destruct c17_rewind_abort_refuted_witness as (A & B & _). split; assumption.
Qed.

Lemma rewind_abort_monitor_code :
  C17_mismatch k1_advance_rewind_abort_case = false /\ C17_monitor k1_advance_rewind_abort_case = 2
  /\ C17_mismatch k1_claim_rewind_abort_case = false /\ C17_monitor k1_claim_rewind_abort_case = 2.
Proof.
  destruct c17_rewind_abort_refuted_witness as (_ & _ & A).
  destruct c17_claim_rewind_abort_witness as (B & _ & C).
  split; [exact k1_model_agrees|]. split; [exact A|]. split; [exact B|exact C].
Qed.
