(* Proof/Conversation.v — lemmas about Model/Conversation.v. *)
From WK Require Import Base.Base Gen.Consts_C34 Model.Conversation.
From Coq Require Import ZifyBool ZifyN ZifyNat.
Open Scope N_scope.

(* destruct every comparison in the goal, then arithmetic *)
Ltac dcmp :=
  repeat match goal with
  | |- context [N.ltb ?a ?b] => destruct (N.ltb_spec a b)
  | |- context [N.leb ?a ?b] => destruct (N.leb_spec a b)
  | |- context [N.eqb ?a ?b] => destruct (N.eqb_spec a b)
  | |- context [Z.ltb ?a ?b] => destruct (Z.ltb_spec a b)
  | |- context [Z.leb ?a ?b] => destruct (Z.leb_spec a b)
  | |- context [Z.eqb ?a ?b] => destruct (Z.eqb_spec a b)
  end.

(* ---- the generated outcome codes are pairwise distinct ------------------------- *)

Lemma outcomes_distinct :
  HydrationOK <> HydrationNoVisibleMessage /\ HydrationOK <> HydrationDelete
  /\ HydrationOK <> HydrationRetryable /\ HydrationNoVisibleMessage <> HydrationDelete
  /\ HydrationNoVisibleMessage <> HydrationRetryable /\ HydrationDelete <> HydrationRetryable.
Proof. repeat split; discriminate. Qed.

(* ---- maxMembershipFloor is the maximum (any number of arguments) -------------- *)

Lemma mmf_fold : forall l acc,
  fold_left (fun out value => if out <? value then value else out) l acc
  = N.max acc (fold_right N.max 0 l).
Proof.
  induction l as [|v l IH]; intro acc; cbn [fold_left fold_right].
  - lia.
  - rewrite IH. destruct (N.ltb_spec acc v); lia.
Qed.

Lemma mmf_max l : maxMembershipFloor l = fold_right N.max 0 l.
Proof. unfold maxMembershipFloor. rewrite mmf_fold. lia. Qed.

Lemma mmf_upper l v : In v l -> v <= maxMembershipFloor l.
Proof.
  rewrite mmf_max. induction l as [|x l IH]; intro H; [contradiction|].
  cbn [fold_right]. destruct H as [->|H]; [lia|]. specialize (IH H). lia.
Qed.

Lemma mmf_attained l : l <> [] -> In (maxMembershipFloor l) l.
Proof.
  rewrite mmf_max. induction l as [|x l IH]; intro H; [contradiction|].
  cbn [fold_right]. destruct l as [|y l'].
  - cbn [fold_right]. left. lia.
  - assert (Hne : y :: l' <> []) by discriminate. specialize (IH Hne).
    destruct (N.max_spec x (fold_right N.max 0 (y :: l'))) as [[_ E]|[_ E]]; rewrite E.
    + right. exact IH.
    + left. reflexivity.
Qed.

Lemma jvf_pred j : joinVisibilityFloor j = N.pred j.
Proof. unfold joinVisibilityFloor. destruct (N.eqb_spec j 0); lia. Qed.

Lemma floor_spec row hd : visibilityFloor row hd = spec_floor row hd.
Proof.
  unfold visibilityFloor, spec_floor. rewrite mmf_max, jvf_pred. cbn [fold_right]. lia.
Qed.

Lemma eread_spec row hd :
  maxMembershipFloor [visibilityFloor row hd; r_read row; h_own hd] = spec_effective_read row hd.
Proof.
  unfold spec_effective_read. rewrite mmf_max, floor_spec. cbn [fold_right]. lia.
Qed.

(* ---- "committed messages after the read point" ------------------------------------ *)

(* the committed sequences of a channel whose head is [last] are 1..last; count
   those strictly after [er] *)
Definition committed_after (er last : N) : N :=
  N.of_nat (length (filter (fun s => er <? N.of_nat s) (seq 1 (N.to_nat last)))).

Lemma count_after er : forall n,
  length (filter (fun s => er <? N.of_nat s) (seq 1 n)) = (n - N.to_nat er)%nat.
Proof.
  induction n as [|n IH]; [reflexivity|].
  rewrite seq_S, filter_app, app_length, IH. cbn [filter].
  destruct (N.ltb_spec er (N.of_nat (1 + n))); cbn [length]; lia.
Qed.

Lemma committed_after_sub er last : committed_after er last = last - er.
Proof. unfold committed_after. rewrite count_after. lia. Qed.

(* ---- conversationFromMembership ------------------------------------------------------ *)

Lemma cfm_some row hd c : conversationFromMembership row hd = Some c ->
  (visibleMessage row hd = true \/ (0 < r_activated row)%Z)
  /\ c_unread c = h_last hd - spec_effective_read row hd
  /\ c_last c = match h_msg hd with
                | Some s => if visibleMessage row hd && (spec_floor row hd <? s) then Some s else None
                | None => None
                end
  /\ c_join c = r_join row /\ c_active c = r_activated row /\ c_read c = r_read row
  /\ c_deleted c = r_deleted row /\ c_updated c = r_updated row.
Proof.
  unfold conversationFromMembership. cbv zeta. rewrite eread_spec, floor_spec.
  destruct (negb (visibleMessage row hd) && (r_activated row <=? 0)%Z) eqn:E; [discriminate|].
  intro H. inversion H; subst c; clear H. cbn [c_unread c_last c_join c_active c_read c_deleted c_updated].
  split; [|split; [|split; [reflexivity|repeat split]]].
  - destruct (visibleMessage row hd); [left; reflexivity|right]. cbn [negb andb] in E. lia.
  - destruct (N.ltb_spec (spec_effective_read row hd) (h_last hd)); lia.
Qed.

Lemma cfm_none row hd : conversationFromMembership row hd = None <->
  visibleMessage row hd = false /\ (r_activated row <= 0)%Z.
Proof.
  unfold conversationFromMembership. cbv zeta.
  destruct (visibleMessage row hd); cbn [negb andb].
  - split; [discriminate|]. intros [H _]. discriminate.
  - destruct (Z.leb_spec (r_activated row) 0); split; try discriminate; try tauto.
    intros [_ H']. lia.
Qed.

Lemma unread_formula row hd c : conversationFromMembership row hd = Some c ->
  c_unread c = h_last hd - spec_effective_read row hd
  /\ c_unread c = committed_after (spec_effective_read row hd) (h_last hd).
Proof.
  intro H. apply cfm_some in H. destruct H as [_ [Hu _]].
  rewrite committed_after_sub. split; exact Hu.
Qed.

Lemma unread_le_last row hd c : conversationFromMembership row hd = Some c -> c_unread c <= h_last hd.
Proof. intro H. apply cfm_some in H. destruct H as [_ [Hu _]]. lia. Qed.

Lemma last_visible row hd c s : conversationFromMembership row hd = Some c -> c_last c = Some s ->
  h_msg hd = Some s /\ spec_floor row hd < s
  /\ r_join row <= s /\ r_deleted row < s /\ h_ret hd < s
  /\ r_join row <= h_last hd /\ r_deleted row < h_last hd.
Proof.
  intros H Hs. apply cfm_some in H. destruct H as [_ [_ [Hl _]]]. rewrite Hs in Hl.
  destruct (h_msg hd) as [m|]; [|discriminate].
  destruct (visibleMessage row hd) eqn:V; cbn [andb] in Hl; [|discriminate].
  destruct (N.ltb_spec (spec_floor row hd) m); [|discriminate]. inversion Hl; subst m.
  unfold visibleMessage in V. unfold spec_floor in *. split; [reflexivity|]. lia.
Qed.

Lemma item_ok_model row hd c : conversationFromMembership row hd = Some c -> item_ok row hd c = true.
Proof.
  intro H. pose proof (cfm_some row hd c H) as [Hv [Hu [Hl [E1 [E2 [E3 [E4 E5]]]]]]].
  unfold item_ok. rewrite Hu, E1, E2, E3, E4, E5.
  rewrite !N.eqb_refl, !Z.eqb_refl, !andb_true_r.
  assert (Hle : (h_last hd - spec_effective_read row hd <=? h_last hd) = true) by lia.
  rewrite Hle. cbn [andb].
  apply andb_true_iff. split.
  - destruct (c_last c) as [s|] eqn:Hs; [|reflexivity].
    destruct (last_visible row hd c s H Hs) as [Hm [_ [A [B [C _]]]]].
    rewrite Hm. cbn [option_eqb]. rewrite N.eqb_refl. lia.
  - unfold visibleMessage in Hv. destruct Hv as [Hv|Hv]; [rewrite Hv; reflexivity|].
    apply orb_true_iff. right. lia.
Qed.

Lemma unread_zero_of_read row hd c : h_last hd <= r_read row ->
  conversationFromMembership row hd = Some c -> c_unread c = 0.
Proof.
  intros Hr H. apply cfm_some in H. destruct H as [_ [Hu _]].
  unfold spec_effective_read in Hu. lia.
Qed.

(* ---- listings --------------------------------------------------------------------------- *)

Lemma classify_item row hd c : classify row hd = LItem c -> conversationFromMembership row hd = Some c.
Proof.
  unfold classify. destruct (h_outcome hd =? HydrationDelete); [discriminate|].
  destruct (h_outcome hd =? HydrationRetryable); [discriminate|].
  destruct ((h_outcome hd =? HydrationOK) || (h_outcome hd =? HydrationNoVisibleMessage)); [|discriminate].
  destruct (conversationFromMembership row hd); [|discriminate]. intro H. inversion H. reflexivity.
Qed.

Lemma list_item st hd c : List st hd = LItem c \/ Retry st hd = LItem c ->
  exists row, st = Some row /\ r_tomb row = false /\ conversationFromMembership row hd = Some c.
Proof.
  unfold List, Retry. destruct st as [row|]; [|intros [H|H]; discriminate].
  destruct (r_tomb row) eqn:T; [intros [H|H]; discriminate|].
  intros [H|H]; exists row; (split; [reflexivity|split; [exact T|apply classify_item; exact H]]).
Qed.

Lemma listing_ok_list st hd : listing_ok st hd (List st hd) = true.
Proof.
  unfold listing_ok. destruct (List st hd) as [| | | |c] eqn:E; try reflexivity.
  destruct (list_item st hd c (or_introl E)) as [row [-> [T H]]]. rewrite T.
  cbn [negb andb]. apply item_ok_model. exact H.
Qed.

Lemma listing_ok_retry st hd : listing_ok st hd (Retry st hd) = true.
Proof.
  unfold listing_ok. destruct (Retry st hd) as [| | | |c] eqn:E; try reflexivity.
  destruct (list_item st hd c (or_intror E)) as [row [-> [T H]]]. rewrite T.
  cbn [negb andb]. apply item_ok_model. exact H.
Qed.

Lemma listing_ok_pure r hd :
  listing_ok (Some (MRow (r_join r) (r_read r) (r_deleted r) (r_activated r) false (r_updated r)))
             hd (pure_listing r hd) = true.
Proof.
  unfold listing_ok, pure_listing.
  destruct (conversationFromMembership r hd) as [c|] eqn:E; [|reflexivity].
  cbn [r_tomb negb andb].
  replace (item_ok (MRow (r_join r) (r_read r) (r_deleted r) (r_activated r) false (r_updated r)) hd c)
    with (item_ok r hd c) by reflexivity.
  apply item_ok_model. exact E.
Qed.

(* ---- the mutations ------------------------------------------------------------------------ *)

Lemma mmh_inr st hd row : membershipMutationHead st hd = inr row ->
  st = Some row /\ r_tomb row = false
  /\ (h_outcome hd = HydrationOK \/ h_outcome hd = HydrationNoVisibleMessage).
Proof.
  unfold membershipMutationHead. destruct st as [r|]; [|discriminate].
  destruct (r_tomb r) eqn:T; [discriminate|].
  destruct (N.eqb_spec (h_outcome hd) HydrationOK) as [E1|E1]; cbn [orb].
  - intro H. inversion H; subst. split; [reflexivity|]. split; [exact T|left; exact E1].
  - destruct (N.eqb_spec (h_outcome hd) HydrationNoVisibleMessage) as [E2|E2].
    + intro H. inversion H; subst. split; [reflexivity|]. split; [exact T|right; exact E2].
    + destruct (h_outcome hd =? HydrationDelete); [discriminate|].
      destruct (h_outcome hd =? HydrationRetryable); discriminate.
Qed.

Lemma mmh_inl st hd e : membershipMutationHead st hd = inl e -> e <> 0.
Proof.
  unfold membershipMutationHead. destruct st as [r|]; [|intro H; inversion H; discriminate].
  destruct (r_tomb r); [intro H; inversion H; discriminate|].
  destruct ((h_outcome hd =? HydrationOK) || (h_outcome hd =? HydrationNoVisibleMessage)); [discriminate|].
  destruct (h_outcome hd =? HydrationDelete); [intro H; inversion H; discriminate|].
  destruct (h_outcome hd =? HydrationRetryable); intro H; inversion H; discriminate.
Qed.

(* what Advance does to a live row when accepted *)
Lemma advance_live row v upd e st' : r_tomb row = false ->
  AdvanceUserChannelMembershipReadSeq (Some row) v upd = (e, st') ->
  (e = EInvalid /\ st' = Some row)
  \/ (e = EOk /\ exists row', st' = Some row' /\ r_read row' = N.max (r_read row) v
        /\ r_join row' = r_join row /\ r_deleted row' = r_deleted row
        /\ r_activated row' = r_activated row /\ r_tomb row' = false).
Proof.
  intros T. unfold AdvanceUserChannelMembershipReadSeq, mutate. rewrite T.
  destruct (upd <? 0)%Z; intro H; inversion H; subst; [left; split; reflexivity|right].
  split; [reflexivity|]. destruct (N.ltb_spec (r_read row) v).
  - eexists. split; [reflexivity|]. cbn [r_read r_join r_deleted r_activated r_tomb].
    repeat split; try assumption. lia.
  - exists row. repeat split; try assumption. lia.
Qed.

Lemma hide_live row v upd e st' : r_tomb row = false ->
  HideUserChannelMembership (Some row) v upd = (e, st') ->
  (e = EInvalid /\ st' = Some row)
  \/ (e = EOk /\ exists row', st' = Some row' /\ r_deleted row' = N.max (r_deleted row) v
        /\ r_join row' = r_join row /\ r_read row' = r_read row
        /\ r_activated row' = 0%Z /\ r_tomb row' = false).
Proof.
  intros T. unfold HideUserChannelMembership, mutate. rewrite T.
  destruct (upd <? 0)%Z; intro H; inversion H; subst; [left; split; reflexivity|right].
  split; [reflexivity|]. eexists. split; [reflexivity|].
  cbn [r_read r_join r_deleted r_activated r_tomb]. repeat split; try assumption.
  destruct (N.ltb_spec (r_deleted row) v); lia.
Qed.

Lemma activate_any st a upd e st' :
  ActivateUserChannelMembership st a upd = (e, st') ->
  match st, st' with
  | None, None => True
  | Some row, Some row' => r_read row' = r_read row /\ r_deleted row' = r_deleted row
                           /\ r_join row' = r_join row /\ r_tomb row' = r_tomb row
                           /\ (r_activated row <= r_activated row')%Z
  | _, _ => False
  end.
Proof.
  unfold ActivateUserChannelMembership, mutate.
  destruct ((a <=? 0)%Z || (upd <? 0)%Z).
  - intro H. inversion H; subst. destruct st'; [repeat split; lia|exact I].
  - destruct st as [row|]; [|intro H; inversion H; exact I].
    destruct (r_tomb row) eqn:T; intro H; inversion H; subst; [repeat split; lia|].
    destruct (Z.ltb_spec (r_activated row) a); cbn [r_read r_join r_deleted r_activated r_tomb];
      repeat split; try lia; try reflexivity.
Qed.

(* setUnreadTarget = max(visibility floor, last - n), truncated subtraction *)
Lemma set_target_spec row hd n :
  setUnreadTarget row hd n = N.max (spec_floor row hd) (h_last hd - n).
Proof.
  unfold setUnreadTarget. cbv zeta. rewrite floor_spec.
  destruct (N.ltb_spec n (h_last hd)).
  - rewrite mmf_max. cbn [fold_right]. lia.
  - lia.
Qed.

(* ---- ClearUnread / SetUnread / DeleteConversation: what acceptance guarantees ---------- *)

Lemma transition_refl st : transition_ok st st = true.
Proof.
  destruct st as [row|]; [|reflexivity]. cbn [transition_ok].
  rewrite !N.leb_refl, N.eqb_refl, eqb_reflx. reflexivity.
Qed.

Lemma transition_of row row' :
  r_read row <= r_read row' -> r_deleted row <= r_deleted row' -> r_join row' = r_join row ->
  r_tomb row' = r_tomb row -> transition_ok (Some row) (Some row') = true.
Proof.
  intros A B C D. cbn [transition_ok]. rewrite C, D, N.eqb_refl, eqb_reflx.
  assert (r_read row <=? r_read row' = true) as -> by lia.
  assert (r_deleted row <=? r_deleted row' = true) as -> by lia. reflexivity.
Qed.

Lemma clear_spec st hd now :
  let r := ClearUnread st hd now in
  transition_ok st (res_st r) = true
  /\ (res_err r = 0 -> exists row', res_st r = Some row' /\ r_tomb row' = false
                                    /\ h_last hd <= r_read row').
Proof.
  cbv zeta. unfold ClearUnread.
  destruct (membershipMutationHead st hd) as [e|row] eqn:M.
  - cbn [res_st res_err]. split; [apply transition_refl|]. intro E. apply mmh_inl in M. contradiction.
  - apply mmh_inr in M. destruct M as [-> [T _]].
    destruct (N.leb_spec (h_last hd) (r_read row)) as [Hle|Hgt]; cbn [res_st res_err].
    + split; [apply transition_refl|]. intros _. exists row. repeat split; assumption.
    + destruct (AdvanceUserChannelMembershipReadSeq (Some row) (h_last hd) now) as [e st'] eqn:A.
      cbn [res_st res_err].
      destruct (advance_live row _ _ _ _ T A) as [[-> ->]|[-> [row' [-> [R [J [D [_ T']]]]]]]].
      * split; [apply transition_refl|]. discriminate.
      * split; [apply transition_of; try lia; congruence|].
        intros _. exists row'. repeat split; try assumption. lia.
Qed.

Lemma set_spec st hd now n :
  let r := SetUnread st hd now n in
  transition_ok st (res_st r) = true
  /\ (res_err r = 0 -> (0 <= n)%Z /\ exists row', res_st r = Some row' /\ r_tomb row' = false
        /\ h_last hd - Z.to_N n <= N.max (spec_floor row' hd) (r_read row')).
Proof.
  cbv zeta. unfold SetUnread.
  destruct (Z.ltb_spec n 0) as [Hn|Hn]; cbn [res_st res_err].
  { split; [apply transition_refl|]. discriminate. }
  destruct (membershipMutationHead st hd) as [e|row] eqn:M.
  - cbn [res_st res_err]. split; [apply transition_refl|]. intro E. apply mmh_inl in M. contradiction.
  - apply mmh_inr in M. destruct M as [-> [T _]].
    pose proof (set_target_spec row hd (Z.to_N n)) as TS.
    destruct (N.leb_spec (setUnreadTarget row hd (Z.to_N n)) (r_read row)) as [Hle|Hgt]; cbn [res_st res_err].
    + split; [apply transition_refl|]. intros _. split; [exact Hn|].
      exists row. repeat split; try assumption. lia.
    + destruct (AdvanceUserChannelMembershipReadSeq (Some row) (setUnreadTarget row hd (Z.to_N n)) now) as [e st'] eqn:A.
      cbn [res_st res_err].
      destruct (advance_live row _ _ _ _ T A) as [[-> ->]|[-> [row' [-> [R [J [D [_ T']]]]]]]].
      * split; [apply transition_refl|]. discriminate.
      * split; [apply transition_of; try lia; congruence|].
        intros _. split; [exact Hn|]. exists row'. repeat split; try assumption.
        unfold spec_floor in *. rewrite J, D. lia.
Qed.

Lemma delete_spec st hd now :
  let r := DeleteConversation st hd now in
  transition_ok st (res_st r) = true
  /\ (res_err r = 0 -> exists row', res_st r = Some row' /\ r_tomb row' = false
        /\ h_last hd <= r_deleted row' /\ r_activated row' = 0%Z
        /\ (h_outcome hd = HydrationOK \/ h_outcome hd = HydrationNoVisibleMessage)).
Proof.
  cbv zeta. unfold DeleteConversation.
  destruct (membershipMutationHead st hd) as [e|row] eqn:M.
  - cbn [res_st res_err]. split; [apply transition_refl|]. intro E. apply mmh_inl in M. contradiction.
  - apply mmh_inr in M. destruct M as [-> [T O]].
    destruct (HideUserChannelMembership (Some row) (h_last hd) now) as [e st'] eqn:A.
    cbn [res_st res_err].
    destruct (hide_live row _ _ _ _ T A) as [[-> ->]|[-> [row' [-> [D [J [R [Ac T']]]]]]]].
    + split; [apply transition_refl|]. discriminate.
    + split; [apply transition_of; try lia; congruence|].
      intros _. exists row'. repeat split; try assumption. lia.
Qed.

Lemma activate_spec st now :
  transition_ok st (res_st (ActivateConversation st now)) = true.
Proof.
  unfold ActivateConversation.
  destruct (ActivateUserChannelMembership st now now) as [e st'] eqn:A. cbn [res_st].
  apply activate_any in A. destruct st as [row|], st' as [row'|]; try contradiction; [|reflexivity].
  destruct A as [R [D [J [T _]]]]. apply transition_of; try lia; assumption.
Qed.

(* after an accepted clear: whatever is listed has unread 0 *)
Lemma clear_zero st hd now c :
  res_err (ClearUnread st hd now) = 0 ->
  List (res_st (ClearUnread st hd now)) hd = LItem c \/ Retry (res_st (ClearUnread st hd now)) hd = LItem c ->
  c_unread c = 0.
Proof.
  intros E L. destruct (clear_spec st hd now) as [_ H]. destruct (H E) as [row' [S [_ Hr]]].
  apply list_item in L. destruct L as [row [S' [_ Hc]]]. rewrite S in S'. inversion S'; subst row.
  eapply unread_zero_of_read; eassumption.
Qed.

Lemma set_at_most st hd now n c :
  res_err (SetUnread st hd now n) = 0 ->
  List (res_st (SetUnread st hd now n)) hd = LItem c \/ Retry (res_st (SetUnread st hd now n)) hd = LItem c ->
  (0 <= n)%Z /\ (Z.of_N (c_unread c) <= n)%Z.
Proof.
  intros E L. destruct (set_spec st hd now n) as [_ H]. destruct (H E) as [Hn [row' [S [_ Hr]]]].
  split; [exact Hn|].
  apply list_item in L. destruct L as [row [S' [_ Hc]]]. rewrite S in S'. inversion S'; subst row.
  apply cfm_some in Hc. destruct Hc as [_ [Hu _]]. unfold spec_effective_read in Hu. lia.
Qed.

Lemma delete_hides st hd now :
  res_err (DeleteConversation st hd now) = 0 ->
  List (res_st (DeleteConversation st hd now)) hd = LNone
  /\ Retry (res_st (DeleteConversation st hd now)) hd = LNone.
Proof.
  intros E. destruct (delete_spec st hd now) as [_ H].
  destruct (H E) as [row' [S [T [Hd [Ha O]]]]]. rewrite S.
  assert (C : classify row' hd = LNone).
  { unfold classify. destruct outcomes_distinct as [D1 [D2 [D3 [D4 [D5 D6]]]]].
    assert (Hn : conversationFromMembership row' hd = None).
    { apply cfm_none. split; [|lia]. unfold visibleMessage.
      apply andb_false_iff. right. lia. }
    rewrite Hn.
    destruct O as [O|O]; rewrite O.
    - destruct (N.eqb_spec HydrationOK HydrationDelete); [contradiction|].
      destruct (N.eqb_spec HydrationOK HydrationRetryable); [contradiction|].
      rewrite N.eqb_refl. reflexivity.
    - destruct (N.eqb_spec HydrationNoVisibleMessage HydrationDelete); [contradiction|].
      destruct (N.eqb_spec HydrationNoVisibleMessage HydrationRetryable); [contradiction|].
      rewrite N.eqb_refl, orb_true_r. reflexivity. }
  unfold List, Retry. rewrite T, C. split; reflexivity.
Qed.

(* ---- one step and whole histories ---------------------------------------------------------- *)

Lemma step_row st o : b_row (snd (step st o)) = fst (step st o).
Proof. unfold step. destruct (o_k o); reflexivity. Qed.

Lemma post_ok_clear st hd now l :
  l = List (res_st (ClearUnread st hd now)) hd \/ l = Retry (res_st (ClearUnread st hd now)) hd ->
  post_ok OClear (res_err (ClearUnread st hd now)) l = true.
Proof.
  intro Hl. unfold post_ok. destruct (N.eqb_spec (res_err (ClearUnread st hd now)) 0) as [E|E]; [|reflexivity].
  cbn [negb]. destruct l as [| | | |c]; try reflexivity.
  assert (c_unread c = 0) as ->; [|reflexivity].
  apply (clear_zero st hd now c E). destruct Hl as [Hl|Hl]; [left|right]; symmetry; exact Hl.
Qed.

Lemma post_ok_set st hd now n l :
  l = List (res_st (SetUnread st hd now n)) hd \/ l = Retry (res_st (SetUnread st hd now n)) hd ->
  post_ok (OSet n) (res_err (SetUnread st hd now n)) l = true.
Proof.
  intro Hl. unfold post_ok. destruct (N.eqb_spec (res_err (SetUnread st hd now n)) 0) as [E|E]; [|reflexivity].
  cbn [negb]. destruct l as [| | | |c]; try reflexivity.
  assert (H : (0 <= n)%Z /\ (Z.of_N (c_unread c) <= n)%Z).
  { apply (set_at_most st hd now n c E). destruct Hl as [Hl|Hl]; [left|right]; symmetry; exact Hl. }
  lia.
Qed.

Lemma post_ok_delete st hd now l :
  l = List (res_st (DeleteConversation st hd now)) hd \/ l = Retry (res_st (DeleteConversation st hd now)) hd ->
  post_ok ODelete (res_err (DeleteConversation st hd now)) l = true.
Proof.
  intro Hl. unfold post_ok. destruct (N.eqb_spec (res_err (DeleteConversation st hd now)) 0) as [E|E]; [|reflexivity].
  cbn [negb]. destruct (delete_hides st hd now E) as [H1 H2].
  destruct Hl as [->| ->]; [rewrite H1|rewrite H2]; reflexivity.
Qed.

Lemma post_ok_other k e l :
  match k with OClear | OSet _ | ODelete => False | _ => True end -> post_ok k e l = true.
Proof.
  intro H. unfold post_ok. destruct (negb (e =? 0)); [reflexivity|].
  destruct k; try contradiction; destruct l; reflexivity.
Qed.

Lemma step_ok_model st o : step_ok st o (snd (step st o)) = true.
Proof.
  unfold step_ok, step. destruct o as [k now hd]. cbn [o_k o_now o_head].
  destruct k as [|n| | | |r]; cbn [snd fst b_row b_list b_retry b_err].
  - destruct (clear_spec st hd now) as [T _]. rewrite T, listing_ok_list, listing_ok_retry.
    rewrite !post_ok_clear by (first [left; reflexivity|right; reflexivity]). reflexivity.
  - destruct (set_spec st hd now n) as [T _]. rewrite T, listing_ok_list, listing_ok_retry.
    rewrite !post_ok_set by (first [left; reflexivity|right; reflexivity]). reflexivity.
  - destruct (delete_spec st hd now) as [T _]. rewrite T, listing_ok_list, listing_ok_retry.
    rewrite !post_ok_delete by (first [left; reflexivity|right; reflexivity]). reflexivity.
  - rewrite activate_spec, listing_ok_list, listing_ok_retry.
    rewrite !post_ok_other by exact I. reflexivity.
  - cbn [res_st res_err]. rewrite transition_refl, listing_ok_list, listing_ok_retry.
    rewrite !post_ok_other by exact I. reflexivity.
  - rewrite transition_refl, listing_ok_pure. reflexivity.
Qed.

Lemma steps_ok_model : forall ops st, steps_ok st (combine ops (run st ops)) = true.
Proof.
  induction ops as [|o ops IH]; intro st; [reflexivity|].
  cbn [run]. destruct (step st o) as [st' b] eqn:S. cbn [combine steps_ok].
  pose proof (step_ok_model st o) as H1. pose proof (step_row st o) as H2.
  rewrite S in H1, H2. cbn [snd fst] in H1, H2. rewrite H1, H2. cbn [andb]. apply IH.
Qed.

Lemma model_satisfies_monitor st ops : C34_monitor (C34Case st (combine ops (run st ops))) = 0.
Proof. unfold C34_monitor. cbn [k_row k_steps]. rewrite steps_ok_model. reflexivity. Qed.

(* cursors never move backwards along any history *)
Fixpoint final (st : option mrow) (ops : list op) : option mrow :=
  match ops with
  | [] => st
  | o :: rest => final (fst (step st o)) rest
  end.

Lemma transition_trans a b c :
  transition_ok a b = true -> transition_ok b c = true -> transition_ok a c = true.
Proof.
  destruct a as [x|], b as [y|], c as [z|]; cbn [transition_ok]; try discriminate; try reflexivity.
  intros H1 H2. apply andb_true_iff in H1. destruct H1 as [H1 T1].
  apply andb_true_iff in H2. destruct H2 as [H2 T2].
  apply eqb_prop in T1. apply eqb_prop in T2.
  assert (r_tomb z = r_tomb x) as -> by congruence. rewrite eqb_reflx, andb_true_r. lia.
Qed.

Lemma step_transition st o : transition_ok st (fst (step st o)) = true.
Proof.
  pose proof (step_ok_model st o) as H. rewrite <- step_row. unfold step_ok in H.
  destruct (o_k o); repeat (apply andb_true_iff in H; destruct H as [H _]); exact H.
Qed.

Lemma history_monotone : forall ops st, transition_ok st (final st ops) = true.
Proof.
  induction ops as [|o ops IH]; intro st; [apply transition_refl|].
  cbn [final]. eapply transition_trans; [apply step_transition|apply IH].
Qed.

(* ---- the model never mismatches itself ---------------------------------------------------- *)

Lemma mrow_eqb_refl a : mrow_eqb a a = true.
Proof. unfold mrow_eqb. rewrite !N.eqb_refl, !Z.eqb_refl, eqb_reflx. reflexivity. Qed.

Lemma conv_eqb_refl a : conv_eqb a a = true.
Proof.
  unfold conv_eqb. rewrite !N.eqb_refl, !Z.eqb_refl.
  destruct (c_last a); cbn [option_eqb]; [rewrite N.eqb_refl|]; reflexivity.
Qed.

Lemma listing_eqb_refl a : listing_eqb a a = true.
Proof. destruct a; try reflexivity. apply conv_eqb_refl. Qed.

Lemma call_eqb_refl a : call_eqb a a = true.
Proof. destruct a; cbn [call_eqb]; rewrite ?N.eqb_refl, ?Z.eqb_refl; reflexivity. Qed.

Lemma obs_eqb_refl a : obs_eqb a a = true.
Proof.
  unfold obs_eqb. rewrite N.eqb_refl, call_eqb_refl, !listing_eqb_refl.
  destruct (b_row a); cbn [option_eqb]; [rewrite mrow_eqb_refl|]; reflexivity.
Qed.

Lemma run_length : forall ops st, length (run st ops) = length ops.
Proof.
  induction ops as [|o ops IH]; intro st; [reflexivity|].
  cbn [run]. destruct (step st o). cbn [length]. rewrite IH. reflexivity.
Qed.

Lemma map_fst_combine {A B} : forall (l : list A) (m : list B), length m = length l ->
  map fst (combine l m) = l /\ map snd (combine l m) = m.
Proof.
  induction l as [|x l IH]; destruct m as [|y m]; cbn [length]; intro H; try discriminate.
  - split; reflexivity.
  - injection H as H. destruct (IH m H) as [E1 E2]. cbn [combine map fst snd]. rewrite E1, E2. split; reflexivity.
Qed.

Lemma list_eqb_refl {A} (eqb : A -> A -> bool) (R : forall x, eqb x x = true) :
  forall l, list_eqb eqb l l = true.
Proof. induction l as [|x l IH]; [reflexivity|]. cbn [list_eqb]. rewrite R, IH. reflexivity. Qed.

Lemma model_no_mismatch st ops : C34_mismatch (C34Case st (combine ops (run st ops))) = false.
Proof.
  unfold C34_mismatch. cbn [k_row k_steps].
  destruct (map_fst_combine ops (run st ops) (run_length ops st)) as [E1 E2].
  rewrite E1, E2, (list_eqb_refl obs_eqb obs_eqb_refl). reflexivity.
Qed.

(* Prop reading of [history_monotone] *)
Lemma history_monotone_prop ops row :
  exists row', final (Some row) ops = Some row'
    /\ r_read row <= r_read row' /\ r_deleted row <= r_deleted row'
    /\ r_join row' = r_join row /\ r_tomb row' = r_tomb row.
Proof.
  pose proof (history_monotone ops (Some row)) as H.
  destruct (final (Some row) ops) as [row'|]; cbn [transition_ok] in H; [|discriminate].
  exists row'. split; [reflexivity|].
  apply andb_true_iff in H. destruct H as [H T]. apply eqb_prop in T. lia.
Qed.

Lemma history_no_row ops : final None ops = None.
Proof.
  pose proof (history_monotone ops None) as H.
  destruct (final None ops); [discriminate|reflexivity].
Qed.
