(* Proof/Delivery_retry.v — pushWithRetry: every retry pushes exactly the
   previous Retryable set (the same routes again after an error); the monitor's
   walk over one owner's attempts accepts what run_batches produces and finds
   the first attempt of every batch. *)
From WK Require Import Base.Base Gen.Consts_C31 Model.Delivery Model.Delivery_C31 Proof.Delivery_local.
From Coq Require Import Permutation.
Open Scope N_scope.

Definition orc_ok (orc : list oout) : Prop := forall l, In (OLocal l) orc -> no_reject l.

Lemma orc_ok_tl orc : orc_ok orc -> orc_ok (orc_tl orc).
Proof. destruct orc; simpl; [auto|]. unfold orc_ok. simpl. intros H l Hl. apply H. right. exact Hl. Qed.

Lemma orc_ok_hd orc : orc_ok orc -> no_reject (oracle_local (orc_hd orc)).
Proof.
  destruct orc as [|oo t]; simpl; [intros _ []|].
  intros H. destruct oo as [l|]; simpl; [apply H; left; reflexivity| intros []].
Qed.

Lemma nlen_pos {A} (l : list A) : l <> [] -> 0 <? nlen l = true.
Proof. destruct l; [congruence|]. intros _. unfold nlen. simpl. apply N.ltb_lt. lia. Qed.

Lemma nlen_nil_iff {A} (l : list A) : (0 <? nlen l) = negb (is_nil l).
Proof. destruct l; [reflexivity|]. unfold nlen. simpl. apply N.ltb_lt. lia. Qed.

(* ---------------------------------------------------------- one attempt ---- *)

Record att_facts (c : cfg) (ev : event) (o : N) (rs : list route) (oo : oout) (a : attempt) (cx1 : bool) : Prop := {
  af_owner : a_owner a = o;
  af_local : a_local a = (o =? c_local c);
  af_routes : a_routes a = rs;
  af_obs : a_obs a = obs_of rs (a_acc a) (a_retry a) (a_drop a) (a_err a);
  af_cx : cx1 = att_cancel a;
  af_remote : a_local a = false -> a_writes a = [];
  af_loc : a_local a = true ->
           a_err a = 0 /\
           let s := lspec (c_has_writer c) (e_msgid ev) o rs (oracle_local oo) false in
           a_writes a = l_writes s /\ a_retry a = l_retry s /\ a_acc a = l_acc s
           /\ a_drop a = l_drop s /\ cx1 = l_cx s }.

Lemma lspec_cx_cancel hw msgid o rs orc :
  no_reject orc ->
  l_cx (lspec hw msgid o rs orc false) = existsb w_cancel (l_writes (lspec hw msgid o rs orc false)).
Proof.
  intros NR. destruct hw.
  - exact (proj1 (proj2 (lspec_writer msgid o rs orc NR))).
  - destruct (lspec_nowriter msgid o rs orc NR) as (A & _ & C & _). rewrite A, C. reflexivity.
Qed.

Lemma do_attempt_facts c ev o rs oo a cx1 :
  do_attempt c ev o rs oo false = (a, cx1) -> o <> 0 ->
  no_reject (oracle_local oo) ->
  att_facts c ev o rs oo a cx1.
Proof.
  intros E Ho NR. unfold do_attempt in E.
  destruct (o =? c_local c) eqn:Hl.
  - apply N.eqb_eq in Hl. unfold local_attempt, pushOwnerLocal in E.
    assert (G : (c_local c =? 0) || (o =? 0) || negb (o =? c_local c) = false).
    { rewrite <- Hl. rewrite N.eqb_refl. apply N.eqb_neq in Ho. rewrite Ho. reflexivity. }
    rewrite G in E. rewrite local_loop_lspec in E. unfold lres_app, lres0 in E.
    cbn [l_acc l_retry l_drop l_writes l_cx app] in E.
    inversion E; subst a cx1; clear E.
    constructor; cbn [a_owner a_local a_routes a_obs a_acc a_retry a_drop a_err a_writes].
    + reflexivity.
    + symmetry. apply N.eqb_eq. exact Hl.
    + reflexivity.
    + reflexivity.
    + unfold att_cancel. cbn [a_writes]. apply lspec_cx_cancel. exact NR.
    + discriminate.
    + intros _. split; [reflexivity|]. cbn zeta. auto.
  - destruct (negb (c_has_remote c)).
    { inversion E; subst a cx1; clear E.
      constructor; cbn [a_owner a_local a_routes a_obs a_acc a_retry a_drop a_err a_writes]; auto; discriminate. }
    destruct oo as [l|acc retry drop err].
    { inversion E; subst a cx1; clear E.
      constructor; cbn [a_owner a_local a_routes a_obs a_acc a_retry a_drop a_err a_writes]; auto; discriminate. }
    destruct (err =? 2) eqn:He.
    { inversion E; subst a cx1; clear E.
      constructor; cbn [a_owner a_local a_routes a_obs a_acc a_retry a_drop a_err a_writes]; auto; discriminate. }
    inversion E; subst a cx1; clear E.
    constructor; cbn [a_owner a_local a_routes a_obs a_acc a_retry a_drop a_err a_writes]; auto; discriminate.
Qed.

(* the loop of pushWithRetry goes on exactly when the owner push was observed
   with routes left to retry *)
Lemma att_more_spec c ev o rs oo a cx1 :
  att_facts c ev o rs oo a cx1 -> rs <> [] ->
  att_more a = negb ((a_err a =? 0) && is_nil (a_retry a)).
Proof.
  intros F Hrs. unfold att_more. rewrite (af_obs _ _ _ _ _ _ _ F). unfold obs_of. cbn [nth].
  destruct (a_err a =? 0); simpl.
  - apply nlen_nil_iff.
  - apply nlen_pos. exact Hrs.
Qed.

(* routes of the next attempt *)
Definition next_routes (a : attempt) (rs : list route) : list route :=
  if a_err a =? 0 then a_retry a else rs.

Lemma all_valid_filter msgid o (l : list route) :
  (forall x, In x l -> route_valid msgid o x = true) -> filter (route_valid msgid o) l = l.
Proof.
  induction l as [|x l IH]; intros H; simpl; [reflexivity|].
  rewrite (H x (or_introl eq_refl)). f_equal. apply IH. intros y Hy. apply H. right. exact Hy.
Qed.

(* c31_retry_exact, one step: the retry pushes (writes) exactly the previous retry set *)
Lemma retry_rel_next c ev o rs oo a cx1 oo' a' cx2 :
  att_facts c ev o rs oo a cx1 ->
  att_facts c ev o (next_routes a rs) oo' a' cx2 ->
  no_reject (oracle_local oo) -> no_reject (oracle_local oo') ->
  cx1 = false ->
  retry_rel a a' = true.
Proof.
  intros F F' NR NR' Hcx. unfold retry_rel.
  destruct (a_local a') eqn:Hl'.
  - assert (Hl : a_local a = true).
    { rewrite (af_local _ _ _ _ _ _ _ F). rewrite <- (af_local _ _ _ _ _ _ _ F'). exact Hl'. }
    destruct (af_loc _ _ _ _ _ _ _ F Hl) as (He & Hs). cbn zeta in Hs.
    destruct Hs as (Hw & Hr & _ & _ & Hc).
    destruct (af_loc _ _ _ _ _ _ _ F' Hl') as (He' & Hs'). cbn zeta in Hs'.
    destruct Hs' as (Hw' & Hr' & _ & _ & Hc').
    unfold next_routes in *. rewrite He in *. cbn [N.eqb] in *.
    unfold att_routes, att_retryset, att_cancel. rewrite Hl, Hl'.
    rewrite Hw, Hw'. rewrite Hr.
    rewrite Hcx in Hc. symmetry in Hc.
    destruct (c_has_writer c) eqn:Hhw.
    + destruct (lspec_writer (e_msgid ev) o rs (oracle_local oo) NR) as (_ & _ & W3).
      destruct (W3 Hc) as [_ Wr]. rewrite Wr.
      set (R := map w_route (filter (wclass 2) (l_writes (lspec true (e_msgid ev) o rs (oracle_local oo) false)))) in *.
      assert (HR : filter (route_valid (e_msgid ev) o) R = R).
      { apply all_valid_filter. intros x Hx. unfold R in Hx. apply in_map_iff in Hx.
        destruct Hx as (w & <- & Hw0). apply filter_In in Hw0. destruct Hw0 as [Hw0 _].
        eapply lspec_writes_valid. exact Hw0. }
      destruct (lspec_writer (e_msgid ev) o R (oracle_local oo') NR') as (P1 & P2 & P3).
      rewrite HR in P1, P3. rewrite <- P2.
      destruct (l_cx (lspec true (e_msgid ev) o R (oracle_local oo') false)) eqn:Hcx'.
      * exact P1.
      * destruct (P3 eq_refl) as [P3a _]. rewrite P3a. apply routes_eqb_refl.
    + destruct (lspec_nowriter (e_msgid ev) o rs (oracle_local oo) NR) as (A & _ & _ & _).
      rewrite A. simpl.
      destruct (lspec_nowriter (e_msgid ev) o (l_retry (lspec false (e_msgid ev) o rs (oracle_local oo) false))
                               (oracle_local oo') NR') as (A' & _ & _ & _).
      rewrite A'. reflexivity.
  - assert (Hl : a_local a = false).
    { rewrite (af_local _ _ _ _ _ _ _ F). rewrite <- (af_local _ _ _ _ _ _ _ F'). exact Hl'. }
    unfold att_retryset. rewrite Hl. rewrite (af_routes _ _ _ _ _ _ _ F'), (af_routes _ _ _ _ _ _ _ F).
    unfold next_routes. destruct (a_err a =? 0); apply routes_eqb_refl.
Qed.

(* ------------------------------------------------ walk over one batch ---- *)

Section Batch.
Variables (c : cfg) (ev : event) (o : N).
Hypothesis Ho : o <> 0.

Lemma pwr_cancelled n rs orc :
  (0 < n)%nat -> pushWithRetry c ev o n rs orc true = ([], 5, orc, true).
Proof. destruct n; [lia|]. reflexivity. Qed.

(* retries of one batch, p = the previous attempt of the batch *)
Lemma walk_batch_tail : forall n rs oo0 rs0 orc p cx0 k l st orc' cx' rest,
  pushWithRetry c ev o n rs orc false = (l, st, orc', cx') ->
  orc_ok orc -> rs <> [] ->
  att_facts c ev o rs0 oo0 p cx0 -> no_reject (oracle_local oo0) -> cx0 = false ->
  rs = next_routes p rs0 ->
  att_more p = true -> (k < c_retry c)%nat -> (k + n = c_retry c)%nat ->
  (cx' = true -> rest = []) ->
  exists k' p',
    walk (c_retry c) k (Some p) (l ++ rest) = walk (c_retry c) k' (Some p') rest
    /\ (rest <> [] -> att_more p' && (k' <? c_retry c)%nat = false)
    /\ cx' = existsb att_cancel l
    /\ Forall (fun a => a_owner a = o) l.
Proof.
  induction n as [|n IH]; intros rs oo0 rs0 orc p cx0 k l st orc' cx' rest E OK Hrs Fp NRp Hcx0 Hnext Hmore Hk Hkn Hrest.
  { lia. }
  cbn [pushWithRetry] in E.
  destruct (do_attempt c ev o rs (orc_hd orc) false) as [a cx1] eqn:Ea.
  pose proof (do_attempt_facts _ _ _ _ _ _ _ Ea Ho (orc_ok_hd _ OK)) as Fa.
  assert (Hrel : retry_rel p a = true).
  { subst rs. eapply retry_rel_next; eauto. apply orc_ok_hd. exact OK. }
  pose proof (att_more_spec _ _ _ _ _ _ _ Fa Hrs) as Hma.
  assert (Hstep : forall X, walk (c_retry c) k (Some p) (a :: X)
                            = (let '(ok, f) := walk (c_retry c) (S k) (Some a) X in (retry_rel p a && ok, f))).
  { intros X. cbn [walk]. rewrite Hmore. apply Nat.ltb_lt in Hk. rewrite Hk. reflexivity. }
  destruct ((a_err a =? 0) && is_nil (a_retry a)) eqn:Hdone.
  { inversion E; subst l st orc' cx'. clear E.
    exists (S k), a. cbn [app]. rewrite Hstep, Hrel.
    split; [destruct (walk (c_retry c) (S k) (Some a) rest); reflexivity|].
    split; [intros _; rewrite Hma; reflexivity|].
    split; [cbn [existsb]; rewrite orb_false_r; exact (af_cx _ _ _ _ _ _ _ Fa)|].
    constructor; [exact (af_owner _ _ _ _ _ _ _ Fa)| constructor]. }
  destruct n as [|n'].
  { inversion E; subst l st orc' cx'. clear E.
    exists (S k), a. cbn [app]. rewrite Hstep, Hrel.
    split; [destruct (walk (c_retry c) (S k) (Some a) rest); reflexivity|].
    split; [intros _; assert (Hlt : (S k <? c_retry c)%nat = false) by (apply Nat.ltb_ge; lia);
            rewrite Hlt; apply andb_false_r|].
    split; [cbn [existsb]; rewrite orb_false_r; exact (af_cx _ _ _ _ _ _ _ Fa)|].
    constructor; [exact (af_owner _ _ _ _ _ _ _ Fa)| constructor]. }
  destruct cx1 eqn:Hcx1.
  { inversion E; subst l st orc' cx'. clear E.
    exists (S k), a. cbn [app]. rewrite Hstep, Hrel.
    split; [destruct (walk (c_retry c) (S k) (Some a) rest); reflexivity|].
    split; [intros Hne; exfalso; apply Hne; apply Hrest; reflexivity|].
    split; [cbn [existsb]; rewrite orb_false_r; exact (af_cx _ _ _ _ _ _ _ Fa)|].
    constructor; [exact (af_owner _ _ _ _ _ _ _ Fa)| constructor]. }
  destruct (pushWithRetry c ev o (S n') (if a_err a =? 0 then a_retry a else rs) (orc_tl orc) false)
    as [[[l2 st2] orc2] cx2] eqn:E2.
  inversion E; subst l st orc' cx'. clear E.
  assert (Hrs' : (if a_err a =? 0 then a_retry a else rs) <> []).
  { destruct (a_err a =? 0); [|exact Hrs]. simpl in Hdone. destruct (a_retry a); [discriminate| congruence]. }
  destruct (IH _ (orc_hd orc) rs (orc_tl orc) a false (S k) l2 st2 orc2 cx2 rest E2 (orc_ok_tl _ OK) Hrs' Fa
               (orc_ok_hd _ OK) eq_refl eq_refl) as (k' & p' & W & Wend & Wcx & Wown).
  - rewrite Hma. reflexivity.
  - lia.
  - lia.
  - exact Hrest.
  - exists k', p'. cbn [app]. rewrite Hstep, Hrel, W.
    split; [destruct (walk (c_retry c) k' (Some p') rest); reflexivity|].
    split; [exact Wend|].
    split.
    + cbn [existsb]. rewrite <- (af_cx _ _ _ _ _ _ _ Fa). exact Wcx.
    + constructor; [exact (af_owner _ _ _ _ _ _ _ Fa)| exact Wown].
Qed.

(* what the monitor needs to know about the first attempt of a batch *)
Definition first_of (b : list route) (a : attempt) : Prop :=
  a_owner a = o /\ a_local a = (o =? c_local c) /\ obs_routes a = nlen b
  /\ (a_local a = false -> a_routes a = b)
  /\ (a_local a = true -> c_has_writer c = true -> att_cancel a = false ->
      att_routes a = filter (route_valid (e_msgid ev) o) b).

Definition first_cond (k : nat) (prev : option attempt) : Prop :=
  match prev with
  | None => True
  | Some p => att_more p && (k <? c_retry c)%nat = false
  end.

Lemma walk_first k prev a X :
  first_cond k prev ->
  walk (c_retry c) k prev (a :: X)
  = (let '(ok, f) := walk (c_retry c) 1 (Some a) X in (ok, a :: f)).
Proof.
  intros H. cbn [walk]. destruct prev as [p|]; [|reflexivity].
  simpl in H. rewrite H. reflexivity.
Qed.

Lemma walk_batch : forall b orc k prev l st orc' cx' rest,
  pushWithRetry c ev o (c_retry c) b orc false = (l, st, orc', cx') ->
  (0 < c_retry c)%nat ->
  orc_ok orc -> b <> [] -> first_cond k prev ->
  (cx' = true -> rest = []) ->
  exists a1 k' p',
    walk (c_retry c) k prev (l ++ rest)
    = (let '(ok, f) := walk (c_retry c) k' (Some p') rest in (ok, a1 :: f))
    /\ first_of b a1
    /\ (rest <> [] -> first_cond k' (Some p'))
    /\ cx' = existsb att_cancel l
    /\ Forall (fun a => a_owner a = o) l.
Proof.
  intros b orc k prev l st orc' cx' rest E Hpos OK Hb Hfirst Hrest.
  destruct (c_retry c) as [|n] eqn:Hn; [lia|].
  cbn [pushWithRetry] in E.
  destruct (do_attempt c ev o b (orc_hd orc) false) as [a cx1] eqn:Ea.
  pose proof (do_attempt_facts _ _ _ _ _ _ _ Ea Ho (orc_ok_hd _ OK)) as Fa.
  pose proof (att_more_spec _ _ _ _ _ _ _ Fa Hb) as Hma.
  assert (Hfo : first_of b a).
  { split; [exact (af_owner _ _ _ _ _ _ _ Fa)|]. split; [exact (af_local _ _ _ _ _ _ _ Fa)|]. split.
    - unfold obs_routes. rewrite (af_obs _ _ _ _ _ _ _ Fa). reflexivity.
    - split; [intros _; exact (af_routes _ _ _ _ _ _ _ Fa)|].
      intros Hl Hw Hc. destruct (af_loc _ _ _ _ _ _ _ Fa Hl) as (_ & Hs). cbn zeta in Hs.
      destruct Hs as (Hws & _ & _ & _ & Hcx).
      unfold att_routes. rewrite Hl, Hws. rewrite Hw in *.
      destruct (lspec_writer (e_msgid ev) o b (oracle_local (orc_hd orc)) (orc_ok_hd _ OK)) as (_ & _ & W3).
      apply W3. rewrite <- Hcx. rewrite (af_cx _ _ _ _ _ _ _ Fa). exact Hc. }
  assert (Hstep : forall X, walk (S n) k prev (a :: X)
                            = (let '(ok, f) := walk (S n) 1 (Some a) X in (ok, a :: f))).
  { intros X. rewrite <- Hn. apply walk_first. exact Hfirst. }
  destruct ((a_err a =? 0) && is_nil (a_retry a)) eqn:Hdone.
  { inversion E; subst l st orc' cx'. clear E.
    exists a, 1%nat, a. cbn [app]. rewrite Hstep.
    split; [reflexivity|]. split; [exact Hfo|].
    split; [intros _; simpl; rewrite Hma; reflexivity|].
    split; [cbn [existsb]; rewrite orb_false_r; exact (af_cx _ _ _ _ _ _ _ Fa)|].
    constructor; [exact (af_owner _ _ _ _ _ _ _ Fa)| constructor]. }
  destruct n as [|n'].
  { inversion E; subst l st orc' cx'. clear E.
    exists a, 1%nat, a. cbn [app]. rewrite Hstep.
    split; [reflexivity|]. split; [exact Hfo|].
    split; [intros _; simpl; rewrite Hn; apply andb_false_r|].
    split; [cbn [existsb]; rewrite orb_false_r; exact (af_cx _ _ _ _ _ _ _ Fa)|].
    constructor; [exact (af_owner _ _ _ _ _ _ _ Fa)| constructor]. }
  destruct cx1 eqn:Hcx1.
  { inversion E; subst l st orc' cx'. clear E.
    exists a, 1%nat, a. cbn [app]. rewrite Hstep.
    split; [reflexivity|]. split; [exact Hfo|].
    split; [intros Hne; exfalso; apply Hne; apply Hrest; reflexivity|].
    split; [cbn [existsb]; rewrite orb_false_r; exact (af_cx _ _ _ _ _ _ _ Fa)|].
    constructor; [exact (af_owner _ _ _ _ _ _ _ Fa)| constructor]. }
  destruct (pushWithRetry c ev o (S n') (if a_err a =? 0 then a_retry a else b) (orc_tl orc) false)
    as [[[l2 st2] orc2] cx2] eqn:E2.
  inversion E; subst l st orc' cx'. clear E.
  assert (Hrs' : (if a_err a =? 0 then a_retry a else b) <> []).
  { destruct (a_err a =? 0); [|exact Hb]. simpl in Hdone. destruct (a_retry a); [discriminate| congruence]. }
  assert (Hret : c_retry c = S (S n')) by exact Hn.
  destruct (walk_batch_tail (S n') _ (orc_hd orc) b (orc_tl orc) a false 1%nat l2 st2 orc2 cx2 rest E2
              (orc_ok_tl _ OK) Hrs' Fa (orc_ok_hd _ OK) eq_refl eq_refl) as (k' & p' & W & Wend & Wcx & Wown).
  - rewrite Hma. reflexivity.
  - lia.
  - lia.
  - exact Hrest.
  - exists a, k', p'. cbn [app]. rewrite Hstep. rewrite <- Hret. rewrite W.
    split; [reflexivity|]. split; [exact Hfo|].
    split; [intros Hne; simpl; apply Wend; exact Hne|].
    split.
    + cbn [existsb]. rewrite <- (af_cx _ _ _ _ _ _ _ Fa). exact Wcx.
    + constructor; [exact (af_owner _ _ _ _ _ _ _ Fa)| exact Wown].
Qed.

(* ------------------------------------------------------- all batches ---- *)

Lemma run_batches_cancelled bs orc :
  (0 < c_retry c)%nat ->
  run_batches c ev o bs orc true = ([], (match bs with [] => 0 | _ => 5 end), true).
Proof.
  intros Hpos. destruct bs as [|b bs]; [reflexivity|].
  cbn [run_batches]. rewrite pwr_cancelled by exact Hpos. reflexivity.
Qed.

Lemma pwr_orc_ok : forall n b orc cx l st1 orc1 cx1,
  pushWithRetry c ev o n b orc cx = (l, st1, orc1, cx1) -> orc_ok orc -> orc_ok orc1.
Proof.
  induction n as [|n IHn]; intros b orc cx l st1 orc1 cx1 E OK; cbn [pushWithRetry] in E.
  - inversion E; subst. exact OK.
  - destruct cx; [inversion E; subst; exact OK|].
    destruct (do_attempt c ev o b (orc_hd orc) false) as [a cx2].
    destruct ((a_err a =? 0) && is_nil (a_retry a)); [inversion E; subst; apply orc_ok_tl; exact OK|].
    destruct n as [|n']; [inversion E; subst; apply orc_ok_tl; exact OK|].
    destruct cx2; [inversion E; subst; apply orc_ok_tl; exact OK|].
    destruct (pushWithRetry c ev o (S n') (if a_err a =? 0 then a_retry a else b) (orc_tl orc) false)
      as [[[l2 st2] orc2] cx3] eqn:E2.
    inversion E; subst. eapply IHn; [exact E2| apply orc_ok_tl; exact OK].
Qed.

Lemma run_batches_walk : forall bs orc k prev atts st cxf,
  run_batches c ev o bs orc false = (atts, st, cxf) ->
  (0 < c_retry c)%nat ->
  orc_ok orc -> (forall b, In b bs -> b <> []) -> first_cond k prev ->
  exists firsts,
    walk (c_retry c) k prev atts = (true, firsts)
    /\ cxf = existsb att_cancel atts
    /\ Forall (fun a => a_owner a = o) atts
    /\ (cxf = false -> Forall2 first_of bs firsts).
Proof.
  induction bs as [|b bs IH]; intros orc k prev atts st cxf E Hpos OK Hne Hfirst.
  { inversion E; subst. exists []. simpl. auto. }
  cbn [run_batches] in E.
  destruct (pushWithRetry c ev o (c_retry c) b orc false) as [[[l st1] orc1] cx1] eqn:E1.
  assert (OK1 : orc_ok orc1) by (eapply pwr_orc_ok; eauto).
  destruct (negb (st1 =? 0) && cx1) eqn:Hstop.
  - (* the batch failed and the context is done: runOwner returns *)
    inversion E; subst atts st cxf. clear E.
    apply andb_true_iff in Hstop. destruct Hstop as [_ Hcx1]. subst cx1.
    destruct (walk_batch b orc k prev l st1 orc1 true [] E1 Hpos OK (Hne b (or_introl eq_refl)) Hfirst (fun _ => eq_refl))
      as (a1 & k' & p' & W & Hfo & _ & Wcx & Wown).
    rewrite app_nil_r in W. exists [a1]. rewrite W. cbn [walk].
    split; [reflexivity|]. split; [exact Wcx|]. split; [exact Wown|]. discriminate.
  - destruct cx1.
    + (* context done but the batch itself succeeded: the remaining batches push nothing *)
      rewrite run_batches_cancelled in E by exact Hpos.
      inversion E; subst atts st cxf. clear E.
      destruct (walk_batch b orc k prev l st1 orc1 true [] E1 Hpos OK (Hne b (or_introl eq_refl)) Hfirst (fun _ => eq_refl))
        as (a1 & k' & p' & W & Hfo & _ & Wcx & Wown).
      exists [a1]. rewrite W. cbn [walk].
      split; [reflexivity|]. split; [rewrite app_nil_r; exact Wcx|]. split; [rewrite app_nil_r; exact Wown|]. discriminate.
    + destruct (run_batches c ev o bs orc1 false) as [[l2 st2] cx2] eqn:E2.
      inversion E; subst atts st cxf. clear E.
      destruct (walk_batch b orc k prev l st1 orc1 false l2 E1 Hpos OK (Hne b (or_introl eq_refl)) Hfirst
                           (fun H => False_ind _ (Bool.diff_false_true H)))
        as (a1 & k' & p' & W & Hfo & Wend & Wcx & Wown).
      destruct l2 as [|a2 l2'] eqn:Hl2.
      * (* no further attempts: bs = [] (or nothing ran) *)
        exists [a1]. rewrite W. cbn [walk].
        split; [reflexivity|].
        destruct (IH orc1 1%nat None [] st2 cx2 E2 Hpos OK1 (fun b0 Hb0 => Hne b0 (or_intror Hb0)) I)
          as (f2 & W2 & Wcx2 & Wown2 & Wf2).
        split; [rewrite app_nil_r; simpl in Wcx2; subst cx2; exact Wcx|].
        split; [rewrite app_nil_r; exact Wown|].
        intros Hc. simpl in W2. inversion W2; subst f2.
        specialize (Wf2 Hc). inversion Wf2; subst. constructor; [exact Hfo| constructor].
      * rewrite <- Hl2 in *.
        assert (Hne2 : l2 <> []) by (rewrite Hl2; discriminate).
        destruct (IH orc1 k' (Some p') l2 st2 cx2 E2 Hpos OK1 (fun b0 Hb0 => Hne b0 (or_intror Hb0)) (Wend Hne2))
          as (f2 & W2 & Wcx2 & Wown2 & Wf2).
        exists (a1 :: f2). rewrite W, W2.
        split; [reflexivity|].
        split; [rewrite existsb_app, <- Wcx; simpl; exact Wcx2|].
        split; [apply Forall_app; split; assumption|].
        intros Hc. constructor; [exact Hfo| apply Wf2; exact Hc].
Qed.

End Batch.
