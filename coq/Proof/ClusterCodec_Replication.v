(* Proof/ClusterCodec_Replication.v — the exchange codec of
   pkg/channel/replication/codec.go: round trip, truncation and trailing bytes
   rejected, allocation bounded, for both frames, as instances of the generic
   theorems of Proof/ClusterCodecBase.v. *)
From WK Require Import Base.Base Base.Bytes Gen.Consts_C27.
From WK Require Import Model.ClusterCodecBase Model.ClusterCodec_Replication Proof.ClusterCodecBase.
From Coq Require Import ZifyBool ZifyN ZifyNat.
Open Scope N_scope.

(* ---- the frame-size guard of the two Decode functions ------------------------------- *)

Lemma blen_prefix (p s : bytes) : blen p <= blen (p ++ s).
Proof. rewrite blen_app. lia. Qed.

(* an encoding starts with the version uvarint: it is never empty *)
Lemma encode_result_nonempty b : blen (encode exchangeBatchResult b) =? 0 = false.
Proof.
  unfold exchangeBatchResult, FMap. cbn [encode fst snd].
  rewrite blen_app. pose proof (put_uvarint_nonempty (er_version b)) as H.
  unfold blen. lia.
Qed.

Lemma encode_batch_nonempty valid b : blen (encode (exchangeBatch valid) b) =? 0 = false.
Proof.
  unfold exchangeBatch, FMap. cbn [encode fst snd].
  rewrite !blen_app. pose proof (put_uvarint_nonempty (eb_version b)) as H.
  unfold blen. lia.
Qed.

(* ---- result frame ------------------------------------------------------------------------ *)

Lemma encode_result_some b e :
  EncodeExchangeBatchResult b = Some e ->
  e = encode exchangeBatchResult b /\ (MaxExchangeBatchBytes <? blen e) = false.
Proof.
  unfold EncodeExchangeBatchResult. set (enc := encode exchangeBatchResult b).
  destruct (_ && _ && _ && _)%bool; [|discriminate].
  cbv zeta. destruct (MaxExchangeBatchBytes <? blen enc) eqn:Hs; [discriminate|].
  intro H. injection H as <-. split; [reflexivity|exact Hs].
Qed.

Theorem result_roundtrip : forall b e,
  wf exchangeBatchResult b = true ->
  EncodeExchangeBatchResult b = Some e ->
  DecodeExchangeBatchResult e = Some b.
Proof.
  intros b e Hwf He. apply encode_result_some in He. destruct He as [-> Hs].
  unfold DecodeExchangeBatchResult.
  rewrite encode_result_nonempty, Hs. cbn [orb].
  apply decode_full_encode. exact Hwf.
Qed.

(* every strict prefix of an encoded result frame is rejected *)
Theorem result_truncation_rejected : forall b e p s,
  wf exchangeBatchResult b = true ->
  EncodeExchangeBatchResult b = Some e ->
  e = p ++ s -> s <> [] ->
  DecodeExchangeBatchResult p = None.
Proof.
  intros b e p s Hwf He Hp Hs. apply encode_result_some in He. destruct He as [-> _].
  unfold DecodeExchangeBatchResult.
  destruct ((blen p =? 0) || (MaxExchangeBatchBytes <? blen p)); [reflexivity|].
  eapply truncation_rejected; eassumption.
Qed.

(* ... and so is a frame followed by anything *)
Theorem result_trailing_rejected : forall b e s,
  wf exchangeBatchResult b = true ->
  EncodeExchangeBatchResult b = Some e -> s <> [] ->
  DecodeExchangeBatchResult (e ++ s) = None.
Proof.
  intros b e s Hwf He Hs. apply encode_result_some in He. destruct He as [-> _].
  unfold DecodeExchangeBatchResult.
  destruct ((blen _ =? 0) || (MaxExchangeBatchBytes <? blen _)); [reflexivity|].
  apply trailing_rejected; assumption.
Qed.

(* a decoded result frame is one the decoder's bounds admit: whatever the input *)
Theorem result_decode_total : forall data,
  DecodeExchangeBatchResult data = None \/ exists b, DecodeExchangeBatchResult data = Some b.
Proof. intro data. destruct (DecodeExchangeBatchResult data) as [b|]; [right; exists b; reflexivity|left; reflexivity]. Qed.

Ltac le256 := unfold MaxExchangeBatchItems, maxRecoveryProbeIndexes, maxRecoveryReplacementProposals; lia.

Ltac capped_tac := cbn; repeat (first [exact I | le256 | split | intro]).

Lemma records_capped : capped false 256 records.
Proof. capped_tac. Qed.
Lemma indexes_capped : capped false 256 indexes.
Proof. capped_tac. Qed.
Lemma replicaState_capped : capped false 256 replicaState.
Proof. capped_tac. Qed.
Lemma probeRequest_capped : capped false 256 probeRequest.
Proof. capped_tac. Qed.
Lemma fetchRequest_capped : capped false 256 fetchRequest.
Proof. capped_tac. Qed.
Lemma replicateRequest_capped : capped false 256 replicateRequest.
Proof. capped_tac. Qed.
Lemma exchangeItemResult_capped : capped false 256 exchangeItemResult.
Proof. capped_tac. Qed.
Lemma exchangeBatchResult_capped : capped false 256 exchangeBatchResult.
Proof. capped_tac. Qed.

(* Every allocation request DecodeExchangeBatchResult's format issues on ANY input:
   a slice of at most 256 elements, or a byte copy no longer than the input. *)
Theorem result_alloc_bounded : forall data,
  Forall (alloc_ok false 256 (blen data)) (allocs exchangeBatchResult data).
Proof. intro data. apply allocs_bounded. apply exchangeBatchResult_capped. Qed.

(* ---- request frame ------------------------------------------------------------------------ *)

Section WithValid.
  Variable valid : nat -> exchange_item -> bool.

  Lemma encode_batch_some b e :
    EncodeExchangeBatch valid b = Some e ->
    e = encode (exchangeBatch valid) b /\ (MaxExchangeBatchBytes <? blen e) = false.
  Proof.
    unfold EncodeExchangeBatch. set (enc := encode (exchangeBatch valid) b).
    destruct (_ && _ && _ && _ && _)%bool; [|discriminate].
    cbv zeta. destruct (MaxExchangeBatchBytes <? blen enc) eqn:Hs; [discriminate|].
    intro H. injection H as <-. split; [reflexivity|exact Hs].
  Qed.

  Theorem batch_roundtrip : forall b e,
    wf (exchangeBatch valid) b = true ->
    EncodeExchangeBatch valid b = Some e ->
    DecodeExchangeBatch valid e = Some b.
  Proof.
    intros b e Hwf He. apply encode_batch_some in He. destruct He as [-> Hs].
    unfold DecodeExchangeBatch.
    rewrite encode_batch_nonempty, Hs. cbn [orb].
    apply decode_full_encode. exact Hwf.
  Qed.

  Theorem batch_truncation_rejected : forall b e p s,
    wf (exchangeBatch valid) b = true ->
    EncodeExchangeBatch valid b = Some e ->
    e = p ++ s -> s <> [] ->
    DecodeExchangeBatch valid p = None.
  Proof.
    intros b e p s Hwf He Hp Hs. apply encode_batch_some in He. destruct He as [-> _].
    unfold DecodeExchangeBatch.
    destruct ((blen p =? 0) || (MaxExchangeBatchBytes <? blen p)); [reflexivity|].
    eapply truncation_rejected; eassumption.
  Qed.

  Theorem batch_trailing_rejected : forall b e s,
    wf (exchangeBatch valid) b = true ->
    EncodeExchangeBatch valid b = Some e -> s <> [] ->
    DecodeExchangeBatch valid (e ++ s) = None.
  Proof.
    intros b e s Hwf He Hs. apply encode_batch_some in He. destruct He as [-> _].
    unfold DecodeExchangeBatch.
    destruct ((blen _ =? 0) || (MaxExchangeBatchBytes <? blen _)); [reflexivity|].
    apply trailing_rejected; assumption.
  Qed.

  Lemma itemBody_capped p k : capped false 256 (itemBody p k).
  Proof.
    unfold itemBody.
    destruct (k =? ExchangeReplicate); [apply replicateRequest_capped|].
    destruct (k =? ExchangeProbe).
    { destruct (p =? ExchangePriorityForeground); [apply probeRequest_capped|cbn; exact I]. }
    destruct (k =? ExchangeFetch).
    { destruct (p =? ExchangePriorityForeground); [apply fetchRequest_capped|cbn; exact I]. }
    cbn. exact I.
  Qed.

  Lemma exchangeBatch_capped : capped false 256 (exchangeBatch valid).
  Proof.
    unfold exchangeBatch, FMap. cbn [capped ck_rem]. split; [split; exact I|].
    intro vp. cbn [capped ck_rem]. split; [le256|]. intro i. unfold exchangeItem, FMap. cbn [capped].
    split; [split; exact I|]. intro rk. apply itemBody_capped.
  Qed.

  Theorem batch_alloc_bounded : forall data,
    Forall (alloc_ok false 256 (blen data)) (allocs (exchangeBatch valid) data).
  Proof. intro data. apply allocs_bounded. apply exchangeBatch_capped. Qed.

  (* what the decoder accepted satisfies request.Valid() at every position and the
     frame invariants: a decoded batch is never empty and never above the item bound *)
  Theorem batch_decoded_bounds : forall data b,
    DecodeExchangeBatch valid data = Some b ->
    eb_version b = ExchangeVersion /\ priority_valid (eb_priority b) = true
    /\ 1 <= blen (eb_items b) <= MaxExchangeBatchItems.
  Proof.
    intros data b H. unfold DecodeExchangeBatch in H.
    destruct ((blen data =? 0) || (MaxExchangeBatchBytes <? blen data)); [discriminate|].
    unfold decode_full in H.
    destruct (decode (exchangeBatch valid) data) as [[b' r]|] eqn:E; [|discriminate].
    destruct r; [|discriminate]. inversion H; subst b'. clear H.
    unfold exchangeBatch, FMap in E. cbn [decode] in E.
    destruct (p_uvarint data) as [[ver r1]|]; [|discriminate].
    destruct (ver =? ExchangeVersion) eqn:Ev; [|discriminate].
    destruct (p_byte r1) as [[prio r2]|]; [|discriminate].
    destruct (priority_valid prio) eqn:Ep; [|discriminate].
    cbn [snd] in E.
    destruct (p_count CKConst MaxExchangeBatchItems r2) as [[[n|] r3]|] eqn:Ec; try discriminate.
    destruct (rep_dec _ 0 (N.to_nat n) r3) as [[l r4]|] eqn:Er; [|discriminate].
    cbn [nonempty] in E. destruct l as [|it l]; [discriminate|].
    inversion E; subst. cbn [eb_version eb_priority eb_items list_of].
    apply rep_dec_length in Er. apply p_count_bounded in Ec. destruct Ec as [B _].
    specialize (B eq_refl). apply N.eqb_eq in Ev.
    repeat split; try assumption; unfold blen; rewrite Er; cbn [length] in *; lia.
  Qed.
End WithValid.

(* non-vacuity: a two-item result frame, in the decoder's domain, encodable *)
Definition ex_result : exchange_batch_result :=
  ExchangeBatchResult 3
    [ExchangeItemResult 7
       (ReplicateResult 1 9 0 (ReplicateProof (ChanIdent (hx "6b") (hx "6731") 2) 1 2
          (Manifest 1 1 1 1 (repeat 7 32) 8 9 1 8 (repeat 9 32) (repeat 3 32))))
       zPR
       (FetchResult (FetchRequest zI 0 0 zS 0 0 zE 0) zS
          (Some [RecoveryProposal zM (Some [RRecord 5 9 1 0 (hx "7531") [] 17%Z true (hx "6869") 2])]));
     ExchangeItemResult 8 zRR zPR zFR].

Lemma ex_result_wf : wf exchangeBatchResult ex_result = true.
Proof. vm_compute. reflexivity. Qed.
Lemma ex_result_encodes : exists e, EncodeExchangeBatchResult ex_result = Some e.
Proof. eexists. vm_compute. reflexivity. Qed.

(* ---- whatever the decoders accept is within the declared bounds ------------------------------- *)

Ltac repl_unfold :=
  unfold exchangeBatchResult, exchangeItemResult, fetchResult, recoveryProposal, probeResult, entryProbe,
    replicateResult, replicateProof, fetchProof, fetchRequest, probeProof, probeRequest, replicateRequest,
    indexes, records, record, replicaState, entryIdentity, proposalManifest, channelIdentity,
    f_reqid, f_d32, f_str, f_int, f_u16v, FMap in *.

Ltac wfmt_tac :=
  repeat (cbn [wfmt ck_rem];
          first [ exact I | reflexivity
                | match goal with
                  | |- _ /\ _ => split
                  | |- (forall v, _ = false) \/ _ => right
                  | |- forall _, _ => intro
                  | x : (_ * _)%type |- _ => destruct x
                  | |- _ < _ => unfold MaxExchangeBatchItems, maxRecoveryProbeIndexes,
                                       maxRecoveryReplacementProposals, two64; lia
                  end ]).

Lemma exchangeItemResult_wfmt : wfmt exchangeItemResult.
Proof. repl_unfold. wfmt_tac. Qed.

Lemma exchangeBatchResult_wfmt : wfmt exchangeBatchResult.
Proof.
  unfold exchangeBatchResult, FMap. cbn [wfmt ck_rem]. split.
  - split; [right; exact I|]. right. split; [reflexivity|]. split; [unfold MaxExchangeBatchItems, two64; lia|].
    intro i. apply exchangeItemResult_wfmt.
  - intros [v l] W. cbn [wf fst snd] in W.
    apply andb_true_iff in W. destruct W as [_ W]. apply andb_true_iff in W. destruct W as [_ W].
    destruct l as [[|it l]|]; try discriminate. split; reflexivity.
Qed.

(* Whatever DecodeExchangeBatchResult accepts — from ANY byte string — is in the encoder's
   domain: at most 256 items, at most 256 entries / proposals / records / indexes in every
   slice, versions within uint16, sizes within int, request ids non-zero. *)
Theorem result_decoded_in_bounds : forall data b,
  all_bytes data = true -> DecodeExchangeBatchResult data = Some b -> wf exchangeBatchResult b = true.
Proof.
  intros data b B H. unfold DecodeExchangeBatchResult in H.
  destruct ((blen data =? 0) || (MaxExchangeBatchBytes <? blen data)); [discriminate|].
  eapply decode_full_wf; [apply exchangeBatchResult_wfmt|exact B|exact H].
Qed.

Lemma itemBody_wfmt p k : wfmt (itemBody p k).
Proof.
  unfold itemBody, f_fail.
  destruct (k =? ExchangeReplicate); [repl_unfold; wfmt_tac|].
  destruct (k =? ExchangeProbe).
  { destruct (p =? ExchangePriorityForeground); [repl_unfold; wfmt_tac|cbn [wfmt]; left; reflexivity]. }
  destruct (k =? ExchangeFetch).
  { destruct (p =? ExchangePriorityForeground); [repl_unfold; wfmt_tac|cbn [wfmt]; left; reflexivity]. }
  cbn [wfmt]. left. reflexivity.
Qed.

Lemma exchangeBatch_wfmt valid : wfmt (exchangeBatch valid).
Proof.
  unfold exchangeBatch, exchangeItem, FMap. cbn [wfmt ck_rem].
  split.
  - split; [split; right; exact I|]. intro vp. right. cbn [wfmt ck_rem].
    split; [reflexivity|]. split; [unfold MaxExchangeBatchItems, two64; lia|].
    intro i. right. cbn [wfmt]. split.
    + split; [split; [right; exact I|exact I]|]. intro rk. apply itemBody_wfmt.
    + intros [[r k] b] _. split; reflexivity.
  - intros [[v p] l] W. cbn [wf fst snd] in W.
    apply andb_true_iff in W. destruct W as [_ W]. apply andb_true_iff in W. destruct W as [_ W].
    destruct l as [[|it l]|]; try discriminate. split; reflexivity.
Qed.

Theorem batch_decoded_in_bounds : forall valid data b,
  all_bytes data = true -> DecodeExchangeBatch valid data = Some b -> wf (exchangeBatch valid) b = true.
Proof.
  intros valid data b B H. unfold DecodeExchangeBatch in H.
  destruct ((blen data =? 0) || (MaxExchangeBatchBytes <? blen data)); [discriminate|].
  eapply decode_full_wf; [apply exchangeBatch_wfmt|exact B|exact H].
Qed.
