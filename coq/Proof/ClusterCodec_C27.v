(* Proof/ClusterCodec_C27.v — the monitor is the predicate the theorems are
   about: on every trace the MODEL produces (a value in the codec's domain, its
   model encoding, the model's decode of the encoding, of every strict prefix,
   of arbitrary bytes; no allocation) [C27_monitor] returns 0; and on the
   trace of the known finding it returns the finding's code. *)
From WK Require Import Base.Base Base.Bytes Gen.Consts_C27.
From WK Require Import Model.ClusterCodecBase Model.ClusterCodec_Replication Model.ClusterCodec_Propose
  Model.ClusterCodec_Channels Model.ClusterCodec_SlotFSM Model.ClusterCodec_C27.
From WK Require Import Proof.ClusterCodecBase Proof.ClusterCodec_Replication Proof.ClusterCodec_Propose
  Proof.ClusterCodec_Channels Proof.ClusterCodec_SlotFSM.
From Coq Require Import ZifyBool ZifyN ZifyNat.
Open Scope N_scope.

(* the strict prefixes of [e] the decoder [dec] accepts, as the harness records them *)
Definition model_trunc_ok {A} (dec : bytes -> option A) (e : bytes) : list N :=
  map N.of_nat (filter (fun k => negb (is_none (dec (firstn k e)))) (seq 0 (length e))).

Lemma filter_all_false {A} (p : A -> bool) l : (forall x, In x l -> p x = false) -> filter p l = [].
Proof.
  induction l as [|x l IH]; intro H; [reflexivity|].
  cbn [filter]. rewrite (H x (or_introl eq_refl)). apply IH. intros y Hy. apply H. right. exact Hy.
Qed.

Lemma model_trunc_nil {A} (dec : bytes -> option A) e :
  (forall p s, e = p ++ s -> s <> [] -> dec p = None) -> model_trunc_ok dec e = [].
Proof.
  intro H. unfold model_trunc_ok. rewrite filter_all_false; [reflexivity|].
  intros k Hk. apply in_seq in Hk. cbn in Hk.
  rewrite (H (firstn k e) (skipn k e)); [reflexivity|symmetry; apply firstn_skipn|].
  intro E. apply (f_equal (@length N)) in E. rewrite skipn_length in E. cbn in E. lia.
Qed.

Lemma alloc_under_zero base pb mode data enc pl same tr :
  alloc_under base pb (C27Case mode data enc pl same tr 0 0 0) = true.
Proof.
  unfold alloc_under. cbn [c_alloc c_alloc_trunc c_alloc_inflate c_data].
  apply andb_true_iff. split; [apply andb_true_iff; split|]; lia.
Qed.

(* ---- generic: a round-tripping value, no accepted prefix, no allocation ------------------------- *)

Definition res_within {A} (res_ok : A -> bool) (res : option A) : bool :=
  match res with Some y => res_ok y | None => true end.

Lemma monitor_eq_value {A} (eqb : A -> A -> bool) in_bounds res_ok hdr base pb data pl (x : A) res tr :
  option_eqb eqb res (Some x) = true ->
  res_within res_ok res = true ->
  existsb (prefix_must_fail hdr) tr = false ->
  monitor_eq eqb in_bounds res_ok hdr base pb (C27Case 0 data true pl false tr 0 0 0) (Some x) res = 0.
Proof.
  intros R K T. unfold monitor_eq. rewrite alloc_under_zero. unfold res_within in K. rewrite K.
  cbn [negb c_mode c_enc_ok c_trunc_ok].
  rewrite R, T. rewrite andb_false_r. reflexivity.
Qed.

Lemma monitor_eq_prefix {A} (eqb : A -> A -> bool) in_bounds res_ok base pb data pl (res : option A) :
  res = None ->
  monitor_eq eqb in_bounds res_ok None base pb (C27Case 1 data true pl false [] 0 0 0) None res = 0.
Proof.
  intros ->. unfold monitor_eq. rewrite alloc_under_zero. reflexivity.
Qed.

Lemma monitor_eq_bytes {A} (eqb : A -> A -> bool) in_bounds res_ok hdr base pb mode data pl (res : option A) :
  2 <= mode -> res_within res_ok res = true ->
  monitor_eq eqb in_bounds res_ok hdr base pb (C27Case mode data true pl false [] 0 0 0) None res = 0.
Proof.
  intros M K. unfold monitor_eq. rewrite alloc_under_zero. unfold res_within in K. rewrite K. cbn [negb c_mode].
  destruct mode as [|[m|m|]]; try lia; reflexivity.
Qed.

Lemma res_eqb_refl {A} (f : fmt A) x : wf f x = true -> res_eqb f (Some x) (Some x) = true.
Proof. intro W. unfold res_eqb. cbn. apply veqb_refl. exact W. Qed.

(* ---- replication: result frames --------------------------------------------------------------------- *)

Theorem result_model_satisfies_monitor : forall b e,
  wf exchangeBatchResult b = true -> EncodeExchangeBatchResult b = Some e ->
  C27_monitor (C27Case 0 e true (PReplResult (Some b) (DecodeExchangeBatchResult e)) false
                       (model_trunc_ok DecodeExchangeBatchResult e) 0 0 0) = 0.
Proof.
  intros b e W E. cbn [C27_monitor c_payload]. unfold eff_res. cbn [c_res_same]. unfold monitor_codec.
  apply monitor_eq_value.
  - rewrite (result_roundtrip b e W E). apply res_eqb_refl. exact W.
  - rewrite (result_roundtrip b e W E). exact W.
  - rewrite model_trunc_nil; [reflexivity|]. intros p s Hp Hs. eapply result_truncation_rejected; eassumption.
Qed.

Theorem result_prefix_satisfies_monitor : forall b e p s,
  wf exchangeBatchResult b = true -> EncodeExchangeBatchResult b = Some e -> e = p ++ s -> s <> [] ->
  C27_monitor (C27Case 1 p true (PReplResult None (DecodeExchangeBatchResult p)) false [] 0 0 0) = 0.
Proof.
  intros b e p s W E Hp Hs. cbn [C27_monitor c_payload]. unfold eff_res. cbn [c_res_same]. unfold monitor_codec.
  apply monitor_eq_prefix. eapply result_truncation_rejected; eassumption.
Qed.

Theorem result_bytes_satisfy_monitor : forall mode data,
  2 <= mode -> all_bytes data = true ->
  C27_monitor (C27Case mode data true (PReplResult None (DecodeExchangeBatchResult data)) false [] 0 0 0) = 0.
Proof.
  intros mode data M B. cbn [C27_monitor c_payload]. unfold eff_res. cbn [c_res_same]. unfold monitor_codec.
  apply monitor_eq_bytes; [exact M|]. unfold res_within.
  destruct (DecodeExchangeBatchResult data) as [y|] eqn:D; [|reflexivity].
  eapply result_decoded_in_bounds; eassumption.
Qed.

(* ---- replication: request frames ------------------------------------------------------------------------ *)

Theorem batch_model_satisfies_monitor : forall bits b e,
  wf (exchangeBatch (valid_of bits)) b = true -> EncodeExchangeBatch (valid_of bits) b = Some e ->
  C27_monitor (C27Case 0 e true (PReplBatch bits (Some b) (DecodeExchangeBatch (valid_of bits) e)) false
                       (model_trunc_ok (DecodeExchangeBatch (valid_of bits)) e) 0 0 0) = 0.
Proof.
  intros bits b e W E. cbn [C27_monitor c_payload]. unfold eff_res. cbn [c_res_same]. unfold monitor_codec.
  apply monitor_eq_value.
  - rewrite (batch_roundtrip _ b e W E). apply res_eqb_refl. exact W.
  - rewrite (batch_roundtrip _ b e W E). exact W.
  - rewrite model_trunc_nil; [reflexivity|]. intros p s Hp Hs. eapply batch_truncation_rejected; eassumption.
Qed.

Theorem batch_prefix_satisfies_monitor : forall bits b e p s,
  wf (exchangeBatch (valid_of bits)) b = true -> EncodeExchangeBatch (valid_of bits) b = Some e ->
  e = p ++ s -> s <> [] ->
  C27_monitor (C27Case 1 p true (PReplBatch bits None (DecodeExchangeBatch (valid_of bits) p)) false [] 0 0 0) = 0.
Proof.
  intros bits b e p s W E Hp Hs. cbn [C27_monitor c_payload]. unfold eff_res. cbn [c_res_same]. unfold monitor_codec.
  apply monitor_eq_prefix. eapply batch_truncation_rejected; eassumption.
Qed.

(* ---- propose forward request --------------------------------------------------------------------------------- *)

Lemma forward_eqb_refl r : forward_eqb r r = true.
Proof.
  unfold forward_eqb. rewrite !N.eqb_refl, Bool.eqb_reflx. cbn [andb].
  apply bytes_eqb_eq. reflexivity.
Qed.

Theorem forward_model_satisfies_monitor : forall r e,
  forward_wf r = true -> EncodeForwardRequest r = Some e ->
  C27_monitor (C27Case 0 e true (PForward (Some r) (DecodeForwardRequest e)) false
                       (model_trunc_ok DecodeForwardRequest e) 0 0 0) = 0.
Proof.
  intros r e W E. cbn [C27_monitor c_payload]. unfold eff_res. cbn [c_res_same].
  apply monitor_eq_value.
  - destruct (forward_roundtrip r W) as (e' & E' & D). rewrite E in E'. injection E' as <-.
    rewrite D. cbn. apply forward_eqb_refl.
  - unfold res_within. destruct (DecodeForwardRequest e); reflexivity.
  - rewrite model_trunc_nil; [reflexivity|]. intros p s Hp Hs. eapply forward_truncation_rejected; eassumption.
Qed.

(* ---- channels frames (every modelled frame: shown for the append batch request) --------------------------------- *)

Theorem append_batch_model_satisfies_monitor : forall vx e,
  wf f_append_batch vx = true -> encode_frame f_append_batch vx = Some e ->
  C27_monitor (C27Case 0 e true (PChAppendBatch (Some vx) (decode_frame f_append_batch e)) false
                       (model_trunc_ok (decode_frame f_append_batch) e) 0 0 0) = 0.
Proof.
  intros vx e W E. cbn [C27_monitor c_payload]. unfold eff_res. cbn [c_res_same].
  unfold monitor_frame, monitor_lossy. rewrite alloc_under_zero. cbn [negb c_mode c_enc_ok].
  rewrite W. rewrite (frame_roundtrip _ _ _ _ W E), res_eqb_refl by exact W.
  unfold no_prefix_accepted. cbn [c_trunc_ok].
  rewrite model_trunc_nil; [reflexivity|]. intros p s Hp Hs. eapply frame_truncation_rejected; eassumption.
Qed.

(* the known finding: the trace of the witness has exactly the signature of code 2 *)
Theorem k1_witness_has_code_2 :
  exists e, encode_frame f_append_batch (k1_request true) = Some e /\
    C27_monitor (C27Case 0 e true (PChAppendBatch (Some (k1_request true)) (decode_frame f_append_batch e)) false
                         [] 0 0 0) = 2.
Proof. eexists. split; [vm_compute; reflexivity|]. vm_compute. reflexivity. Qed.

(* ---- slot FSM commands ------------------------------------------------------------------------------------------- *)

Lemma command_eqb_refl c : command_eqb c c = true.
Proof.
  destruct c as [|u|u|d|t]; cbn; try reflexivity;
    try (unfold user_eqb; rewrite !Z.eqb_refl; rewrite !(proj2 (bytes_eqb_eq _ _) eq_refl); reflexivity);
    try (unfold device_eqb; rewrite !Z.eqb_refl; rewrite !(proj2 (bytes_eqb_eq _ _) eq_refl); reflexivity).
  apply N.eqb_refl.
Qed.

(* the prefixes of a frame the model decoder accepts are field boundaries: the
   monitor's truncation clause holds of the model *)
Theorem fsm_model_satisfies_monitor : forall c e,
  command_wf c = true -> encodeCommand c = Some e ->
  C27_monitor (C27Case 0 e true (PFsm (Some c) (decodeCommand e)) false
                       (model_trunc_ok (fun p => match decodeCommand p with
                                                  | Some (CmdOther _) => None | r => r end) e) 0 0 0) = 0.
Proof.
  intros c e W E. cbn [C27_monitor c_payload]. unfold eff_res. cbn [c_res_same].
  unfold monitor_fsm. rewrite alloc_under_zero. cbn [negb c_mode c_data c_trunc_ok].
  assert (T : forallb (prefix_ok_tlv e)
                (model_trunc_ok (fun p => match decodeCommand p with Some (CmdOther _) => None | r => r end) e) = true).
  { apply forallb_forall. intros k Hk. unfold model_trunc_ok in Hk. apply in_map_iff in Hk.
    destruct Hk as (n & <- & Hn). apply filter_In in Hn. destruct Hn as [_ Hn].
    unfold prefix_ok_tlv. rewrite Nnat.Nat2N.id.
    destruct (decodeCommand (firstn n e)) as [c'|] eqn:D; [|discriminate].
    apply decoded_is_complete with (c := c'); [exact D|].
    intros t ->. discriminate. }
  rewrite T. cbn [negb]. rewrite W, (command_roundtrip c e W E). cbn. rewrite command_eqb_refl. reflexivity.
Qed.
