From WK Require Import Base.Base Model.Monitor_C01 Proof.QuorumLog_C01.
Open Scope N_scope.
Definition k2_ops : list qop :=
  [ OInstall 3 (1, 1, 1) false 2 no_faults;
    OCommit 3 (1, 1, 1) (TUser 1) [f1_r1] false (Flt [] [1; 2] None []);
    OInstall 1 (1, 2, 2) false 2 no_faults;
    OCommit 1 (1, 2, 2) (TUser 2) [f1_r2] false no_faults;
    OInstall 2 (1, 3, 3) false 2 (Flt [] [] None [1]) ].
Definition k2_closed_ops : list qop :=
  [ OInstall 3 (1, 1, 1) false 2 no_faults;
    OInstall 1 (1, 2, 2) false 2 no_faults;
    OCommit 1 (1, 2, 2) (TUser 2) [f1_r2] false (Flt [] [3] None []);
    OInstall 2 (1, 3, 3) false 2 (Flt [] [] None [1]) ].
Eval vm_compute in (fst (run_model f1_cfg (cluster_init f1_cfg) k2_ops), C01_monitor (model_case f1_cfg k2_ops)).
Eval vm_compute in (fst (run_model f1_cfg (cluster_init f1_cfg) k2_closed_ops), C01_monitor (model_case f1_cfg k2_closed_ops)).
Definition k2_alphabet : list qop :=
  [ OCommit 3 (1, 1, 1) (TUser 1) [f1_r1] false (Flt [] [1; 2] None []);
    OInstall 1 (1, 2, 2) false 2 no_faults;
    OCommit 1 (1, 2, 2) (TUser 2) [f1_r2] false no_faults;
    OInstall 2 (1, 3, 3) false 2 (Flt [] [] None [1]);
    OInstall 2 (1, 3, 3) false 2 no_faults;
    OCommit 2 (1, 3, 3) (TUser 3) [f1_r3] false no_faults;
    ODown 1; OUp 1 ].
Definition codes_hist (alphabet : list qop) (len : nat) : list N :=
  map (fun s => C01_monitor (model_case f1_cfg (OInstall 3 (1, 1, 1) false 2 no_faults :: s))) (schedules01 alphabet len).
Time Eval vm_compute in (let h := codes_hist k2_alphabet 5 in (length h, map (fun c => length (filter (N.eqb c) h)) [0;1;2;3])).

Time Eval vm_compute in (let h := codes_hist k2_alphabet 6 in (length h, map (fun c => length (filter (N.eqb c) h)) [0;1;2;3])).
