(* Proof/HashSlot_summary.v — the composite statements of Properties/C20.v (conjunctions of
   lemmas from the other HashSlot proof files, and the refutation witnesses). *)
From WK Require Import Base.Base Base.Bytes Gen.Consts_C20 Model.HashSlot.
From WK Require Import Proof.HashSlot_table Proof.HashSlot_codec Proof.HashSlot_lists Proof.HashSlot_plan
                       Proof.HashSlot_balance Proof.HashSlot_monitor.
Open Scope N_scope.

Definition tbl_of (assign : list N) : table := Tbl 1 (N.of_nat (length assign)) assign [].
Definition f6_table : table := tbl_of [1;1;1;1;1;1;1;1;1;1;2;2].
Definition k2_table : table := tbl_of [1;2;3;4;4;4;5;5;5;6;6;6].

Lemma c20_physical_preserved_l : forall t, fully_assigned t ->
  (forall hs s, s <> 0 -> fully_assigned (reassign t hs s))
  /\ (forall hs a b, fully_assigned (start_migration t hs a b))
  /\ (forall hs ph, fully_assigned (advance_migration t hs ph))
  /\ (forall hs, fully_assigned (finalize_migration t hs))
  /\ (forall hs, fully_assigned (abort_migration t hs))
  /\ (forall p, Forall (fun m => mv_to m <> 0) p -> fully_assigned (apply_plan t p)).
Proof.
  intros t H. split; [intros; apply reassign_fully; assumption|]. split; [intros; apply start_fully; assumption|].
  split; [intros; apply advance_fully; assumption|]. split; [intros; apply finalize_fully; assumption|].
  split; [intros; apply abort_fully; assumption|intros; apply apply_plan_fully; assumption].
Qed.

Lemma c20_codec_ok_preserved_l : forall t, codec_ok t ->
  (forall hs s, u64 s -> codec_ok (reassign t hs s))
  /\ (forall hs a b, u64 a -> u64 b -> codec_ok (start_migration t hs a b))
  /\ (forall hs ph, ph < 256 -> codec_ok (advance_migration t hs ph))
  /\ (forall hs, codec_ok (finalize_migration t hs))
  /\ (forall hs, codec_ok (abort_migration t hs))
  /\ (forall p, Forall (fun m => u64 (mv_to m)) p -> codec_ok (apply_plan t p)).
Proof.
  intros t H. split; [intros; apply reassign_codec_ok; assumption|]. split; [intros; apply start_codec_ok; assumption|].
  split; [intros; apply advance_codec_ok; assumption|]. split; [intros; apply finalize_codec_ok; assumption|].
  split; [intros; apply abort_codec_ok; assumption|intros; apply apply_plan_codec_ok; assumption].
Qed.

Lemma c20_version_effect_l : forall t,
  (forall hs s, effect t (reassign t hs s))
  /\ (forall hs a b, effect t (start_migration t hs a b))
  /\ (forall hs ph, effect t (advance_migration t hs ph))
  /\ (forall hs, effect t (finalize_migration t hs))
  /\ (forall hs, effect t (abort_migration t hs)).
Proof.
  intro t. split; [intros; apply reassign_effect|]. split; [intros; apply start_effect|].
  split; [intros; apply advance_effect|]. split; [intros; apply finalize_effect|intros; apply abort_effect].
Qed.

Lemma c20_plan_moves_once_l : forall t, wf t ->
  (forall n, moves_ok t (compute_add_slot_plan t n) = true)
  /\ (forall x, moves_ok t (compute_remove_slot_plan t x) = true)
  /\ moves_ok t (compute_rebalance_plan t) = true.
Proof.
  intros t W. split; [|split].
  - intro n. destruct (add_plan_struct t n W) as [F [ND _]]. exact (moves_ok_of t _ _ W F ND).
  - intro x. destruct (remove_plan_struct t x W) as [F [ND _]]. exact (moves_ok_of t _ _ W F ND).
  - destruct (rebalance_plan_struct t W) as [F [ND _]]. exact (moves_ok_of t _ _ W F ND).
Qed.

Lemma c20_plan_structure_l : forall t, wf t ->
  (forall n, Forall (move_ok (t_assign t) (n :: active_slot_ids t)) (compute_add_slot_plan t n)
             /\ NoDup (map mv_hs (compute_add_slot_plan t n)))
  /\ (forall x, Forall (move_ok (t_assign t) (active_slot_ids t)) (compute_remove_slot_plan t x)
                /\ NoDup (map mv_hs (compute_remove_slot_plan t x)))
  /\ (Forall (move_ok (t_assign t) (active_slot_ids t)) (compute_rebalance_plan t)
      /\ NoDup (map mv_hs (compute_rebalance_plan t))).
Proof.
  intros t W. split; [|split].
  - intro n. destruct (add_plan_struct t n W) as [F [ND _]]. split; assumption.
  - intro x. destruct (remove_plan_struct t x W) as [F [ND _]]. split; assumption.
  - destruct (rebalance_plan_struct t W) as [F [ND _]]. split; assumption.
Qed.

Lemma c20_add_unbalanced_refuted_l :
  exists t n, wf t /\ all_nz (t_assign t) = true /\ n <> 0 /\ ~ In n (active_slot_ids t)
    /\ balanced (t_count t) (apply_moves (compute_add_slot_plan t n) (t_assign t)) (n :: active_slot_ids t) = false
    /\ cnt (apply_moves (compute_add_slot_plan t n) (t_assign t)) 1 = 6
    /\ spec_ideal (t_count t) (n :: active_slot_ids t) 1 = 4
    /\ plan_code t (PAdd n) (compute_add_slot_plan t n) = 2.
Proof.
  exists f6_table, 3. split; [reflexivity|]. split; [reflexivity|]. split; [discriminate|].
  split; [vm_compute; intros [H|[H|[]]]; discriminate|]. repeat split; vm_compute; reflexivity.
Qed.

Lemma c20_remove_unbalanced_refuted_l :
  exists t x, wf t /\ all_nz (t_assign t) = true /\ In x (active_slot_ids t)
    /\ balanced (t_count t) (apply_moves (compute_remove_slot_plan t x) (t_assign t)) (active_slot_ids_excluding t x) = false
    /\ plan_code t (PRemove x) (compute_remove_slot_plan t x) = 2.
Proof.
  exists (tbl_of [1;2;3;3;3;3;3]), 1. split; [reflexivity|]. split; [reflexivity|].
  split; [vm_compute; left; reflexivity|]. split; vm_compute; reflexivity.
Qed.

Lemma c20_remove_balanced_refuted_l :
  exists t x, wf t /\ all_nz (t_assign t) = true /\ In x (active_slot_ids t)
    /\ balanced (t_count t) (t_assign t) (active_slot_ids t) = true
    /\ balanced (t_count t) (apply_moves (compute_remove_slot_plan t x) (t_assign t)) (active_slot_ids_excluding t x) = false
    /\ cnt (apply_moves (compute_remove_slot_plan t x) (t_assign t)) 3 = 1
    /\ spec_ideal (t_count t) (active_slot_ids_excluding t x) 3 = 3
    /\ plan_code t (PRemove x) (compute_remove_slot_plan t x) = 3.
Proof.
  exists k2_table, 1. split; [reflexivity|]. split; [reflexivity|].
  split; [vm_compute; left; reflexivity|]. repeat split; vm_compute; reflexivity.
Qed.

Lemma c20_plan_codes_l : forall t, wf t ->
  plan_code t PRebalance (compute_rebalance_plan t) = 0
  /\ (forall n, let c := plan_code t (PAdd n) (compute_add_slot_plan t n) in
        (c = 0 \/ c = 2)
        /\ (balanced (t_count t) (t_assign t) (distinct_nz (t_assign t)) = true -> c = 0))
  /\ (forall x, let c := plan_code t (PRemove x) (compute_remove_slot_plan t x) in
        (c = 0 \/ c = 2 \/ c = 3)
        /\ (c = 2 -> balanced (t_count t) (t_assign t) (distinct_nz (t_assign t)) = false)
        /\ (c = 3 -> balanced (t_count t) (t_assign t) (distinct_nz (t_assign t)) = true)).
Proof.
  intros t W. split; [apply plan_code_rebalance; exact W|].
  split; [intro n; apply plan_code_add; exact W|intro x; apply plan_code_remove; exact W].
Qed.
