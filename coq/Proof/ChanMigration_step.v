(* Proof/ChanMigration_step.v — what one accepted one-command ApplyBatch changes
   (row by row), the model's own trace of a history of one-command batches, and the
   ISR facts behind "migration commands never shrink the ISR". *)
From WK Require Import Base.Base.
From WK Require Import Gen.Consts_C15 Gen.Consts_C17 Model.RuntimeMeta Model.ChanMigration Model.ChanMigration_C17.
From WK Require Import Proof.RuntimeMeta Proof.ChanMigration Proof.ChanMigration_cmds Proof.ChanMigration_inv.
Open Scope N_scope.

(* ---- ApplyBatch [c] is apply_one -------------------------------------------------------------- *)

Definition bres_of (x : res N) : bres := match x with Ok n => BResults [n] | Err e => BErr e end.

Lemma apply_core_single d c :
  apply_core d [c] =
  if cmd_valid c then
    match run_ops d (CState d [] []) (ops_of c) with
    | Ok cs => CoreOk (cs_pend cs) [0]
    | Err e => if isStaleMetaCommitError e then CoreStale else CoreErr e
    end
  else CoreErr EInvalidArgument.
Proof.
  unfold apply_core. rewrite stage_all_single.
  destruct (cmd_valid c); [|reflexivity].
  cbn [wb_ops]. unfold commit.
  destruct (run_ops d (CState d [] []) (ops_of c)) as [cs|e]; reflexivity.
Qed.

Lemma ApplyBatch_single d c :
  ApplyBatch d [c] = (fst (apply_one d c), bres_of (snd (apply_one d c))).
Proof.
  unfold ApplyBatch, apply_one. rewrite apply_core_single.
  destruct (cmd_valid c); [|reflexivity].
  destruct (run_ops d (CState d [] []) (ops_of c)) as [cs|e]; [reflexivity|].
  destruct (isStaleMetaCommitError e); reflexivity.
Qed.

(* an accepted command: its operations ran *)
Lemma accepted_run d c d' :
  apply_one d c = (d', Ok 0) ->
  cmd_valid c = true /\ exists cs, run_ops d (CState d [] []) (ops_of c) = Ok cs /\ d' = cs_pend cs.
Proof.
  rewrite apply_one_spec. destruct (cmd_valid c); [|discriminate].
  destruct (run_ops d (CState d [] []) (ops_of c)) as [cs|e].
  - intro H. inversion H. split; [reflexivity|]. exists cs. auto.
  - destruct (isStaleMetaCommitError e); discriminate.
Qed.

(* ---- the task+meta operation of a one-command batch, spelled out ---------------------------------- *)

Lemma taskmeta_accepted d c h cs :
  stageChannelMigrationTaskAndMeta d (CState d [] []) c = Ok cs ->
  cmd_trans c = Some h ->
  exists t m nt nm,
    task_get (db_tasks d) (tguard_key (tr_guard h)) = Some t
    /\ meta_get d (rguard_chan (tr_rguard h)) = Some m
    /\ mutate_task_meta c t m = Ok (nt, nm)
    /\ (cs = CState d [] []
        \/ (tguard_matches (tr_guard h) t = true /\ rguard_matches (tr_rguard h) m = true
            /\ (isTerminal t = true -> nt = t)
            /\ validateChannelRuntimeMeta (bumpRuntimeRoute m (normalizeChannelRuntimeMeta nm) true) = true
            /\ exists pend, stageUpsertChannelMigrationTask d d nt = Ok pend
                 /\ cs_pend cs = db_put_meta pend (rguard_chan (tr_rguard h))
                                   (bumpRuntimeRoute m (normalizeChannelRuntimeMeta nm) true))).
Proof.
  intros H Ht. revert H. unfold stageChannelMigrationTaskAndMeta. rewrite Ht.
  unfold loadChannelMigrationTask, loadRuntimeMeta. cbn [cs_otasks cs_ometas assoc_get cs_pend].
  destruct (task_get (db_tasks d) (tguard_key (tr_guard h))) as [t|]; [|discriminate].
  destruct (meta_get d (rguard_chan (tr_rguard h))) as [m|]; [|discriminate].
  destruct (mutate_task_meta c t m) as [[nt nm]|e] eqn:M; [|discriminate].
  intro H. exists t, m, nt, nm. split; [reflexivity|]. split; [reflexivity|]. split; [exact M|].
  destruct (negb (tguard_matches (tr_guard h) t) || negb (rguard_matches (tr_rguard h) m)) eqn:G.
  - destruct (task_eqb t nt && channelRuntimeMetaEqual m (bumpRuntimeRoute m (normalizeChannelRuntimeMeta nm) true));
      [|discriminate].
    inversion H. left. reflexivity.
  - right. b2p.
    destruct (isTerminal t && negb (task_eqb t nt)) eqn:T; [discriminate|].
    destruct (negb (validateChannelMigrationTask nt)); [discriminate|].
    destruct (negb (validateChannelRuntimeMeta (bumpRuntimeRoute m (normalizeChannelRuntimeMeta nm) true))) eqn:V;
      [discriminate|].
    destruct (stageUpsertChannelMigrationTask d d nt) as [pend|e] eqn:U; [|discriminate].
    inversion H; subst cs. cbn [cs_pend]. b2p.
    repeat split; try assumption.
    + intro Tt. rewrite Tt in T. cbn [andb] in T. apply negb_false_iff in T. apply task_eqb_eq in T. auto.
    + exists pend. auto.
Qed.

Lemma task_accepted d c g cs :
  stageChannelMigrationTask d (CState d [] []) c = Ok cs ->
  cmd_tguard c = Some g ->
  exists t next,
    task_get (db_tasks d) (tguard_key g) = Some t /\ tguard_matches g t = true
    /\ mutate_task c t = Ok next
    /\ exists pend, stageUpsertChannelMigrationTask d d next = Ok pend /\ cs_pend cs = pend.
Proof.
  intros H0 Hg. revert H0. unfold stageChannelMigrationTask. rewrite Hg.
  unfold loadChannelMigrationTask. cbn [cs_otasks assoc_get cs_pend].
  destruct (task_get (db_tasks d) (tguard_key g)) as [t|]; [|discriminate].
  destruct (negb (tguard_matches g t)) eqn:G; [discriminate|].
  destruct (mutate_task c t) as [next|e] eqn:M; [|discriminate].
  destruct (stageUpsertChannelMigrationTask d d next) as [pend|e0] eqn:U; [|discriminate].
  intro H. inversion H; subst cs. exists t, next. b2p. repeat split; auto. exists pend. auto.
Qed.

Lemma create_accepted d t cs :
  opCreate d (CState d [] []) t = Ok cs ->
  (task_get (db_tasks d) (task_key t) = Some t /\ cs = CState d [] [])
  \/ (task_get (db_tasks d) (task_key t) = None
      /\ exists pend, stageUpsertChannelMigrationTask d d t = Ok pend /\ cs_pend cs = pend).
Proof.
  unfold opCreate, loadChannelMigrationTask. cbn [cs_otasks assoc_get cs_pend].
  destruct (task_get (db_tasks d) (task_key t)) as [e|].
  - destruct (task_eqb e t) eqn:E; [|discriminate].
    apply task_eqb_eq in E. subst e. intro H. inversion H. left. auto.
  - destruct (stageUpsertChannelMigrationTask d d t) as [pend|e] eqn:U; [|discriminate].
    intro H. inversion H; subst cs. right. split; [reflexivity|]. exists pend. auto.
Qed.

(* ---- which rows an accepted command may change -------------------------------------------------------- *)

Lemma cmd_targets_key c k : cmd_targets c k = true <-> cmd_key c = Some k.
Proof.
  unfold cmd_targets. destruct (cmd_key c) as [k'|].
  - split; [intro H; apply tkey_eqb_eq in H; subst; reflexivity|intro H; inversion H; apply tkey_eqb_refl].
  - split; discriminate.
Qed.

Lemma stageUpsert_tasks d t pend :
  db_inv d -> stageUpsertChannelMigrationTask d d t = Ok pend ->
  forall k, task_get (db_tasks pend) k = if tkey_eqb (task_key t) k then Some t else task_get (db_tasks d) k.
Proof.
  intros I U k. destruct (stageUpsert_inv _ _ _ I U) as (_ & T & _). rewrite T. apply task_get_put.
Qed.

Lemma stageUpsert_metas d t pend c :
  db_inv d -> stageUpsertChannelMigrationTask d d t = Ok pend -> meta_get pend c = meta_get d c.
Proof.
  intros I U. destruct (stageUpsert_inv _ _ _ I U) as (_ & _ & M). unfold meta_get. rewrite M. reflexivity.
Qed.

Lemma stageUpsert_active d t pend c :
  stageUpsertChannelMigrationTask d d t = Ok pend -> c <> task_chan t -> active_get pend c = active_get d c.
Proof.
  unfold stageUpsertChannelMigrationTask. intros U N.
  assert (Neq : chan_key_eqb (task_chan t) c = false) by (apply chan_key_eqb_neq; congruence).
  destruct (negb (validateChannelMigrationTask t)); [discriminate|].
  destruct (isActive t).
  - destruct (negb (ensureChannelMigrationActiveAvailable d t)); [discriminate|].
    inversion U. rewrite active_get_put_task, active_get_set, Neq. reflexivity.
  - destruct (task_get (db_tasks d) (task_key t)) as [e|].
    + destruct (isActive e); inversion U; rewrite active_get_put_task; [rewrite active_get_del, Neq|]; reflexivity.
    + inversion U. rewrite active_get_put_task. reflexivity.
Qed.

Lemma meta_get_put_meta d c m c' :
  meta_get (db_put_meta d c m) c' = if chan_key_eqb c c' then Some m else meta_get d c'.
Proof. unfold meta_get, db_put_meta. cbn [db_metas]. apply chan_get_put. Qed.

(* the task row of key [k] after an accepted command *)
Inductive row_change (d : db) (c : cmd) (k : tkey) (d' : db) : Prop :=
| RC_same : task_get (db_tasks d') k = task_get (db_tasks d) k -> row_change d c k d'
| RC_create t : (c = CCreate t \/ exists g, c = CCreateGuarded t g) -> task_key t = k ->
    task_get (db_tasks d) k = None -> task_get (db_tasks d') k = Some t -> row_change d c k d'
| RC_task g t next : cmd_tguard c = Some g -> is_claim_advance c = true -> tguard_key g = k ->
    task_get (db_tasks d) k = Some t -> tguard_matches g t = true -> mutate_task c t = Ok next ->
    task_get (db_tasks d') k = Some next -> row_change d c k d'
| RC_taskmeta h t m nt nm : cmd_trans c = Some h -> tguard_key (tr_guard h) = k ->
    task_get (db_tasks d) k = Some t -> meta_get d (rguard_chan (tr_rguard h)) = Some m ->
    tguard_matches (tr_guard h) t = true -> rguard_matches (tr_rguard h) m = true ->
    mutate_task_meta c t m = Ok (nt, nm) -> (isTerminal t = true -> nt = t) ->
    task_get (db_tasks d') k = Some nt -> row_change d c k d'
| RC_gc before limit t : c = CGC before limit -> task_get (db_tasks d) k = Some t -> isTerminal t = true ->
    task_get (db_tasks d') k = None -> row_change d c k d'.

Lemma is_claim_advance_trans c : is_claim_advance c = true -> cmd_trans c = None.
Proof. destruct c; simpl; try discriminate; reflexivity. Qed.

Ltac taskmeta_row_case I R h k :=
  match type of R with match ?x with _ => _ end = _ =>
    let cs1 := fresh "cs1" in let e := fresh "e" in let E := fresh "E" in
    destruct x as [cs1|e] eqn:E; [|discriminate];
    inversion R; subst cs1;
    let t := fresh "t" in let m := fresh "m" in let nt := fresh "nt" in let nm := fresh "nm" in
    let G := fresh "G" in let Gm := fresh "Gm" in let Mu := fresh "Mu" in let Hs := fresh "Hs" in
    let Mg := fresh "Mg" in let Mr := fresh "Mr" in let Tm := fresh "Tm" in let V := fresh "V" in
    let pend := fresh "pend" in let U := fresh "U" in let Hp := fresh "Hp" in
    destruct (taskmeta_accepted _ _ h _ E eq_refl)
      as (t & m & nt & nm & G & Gm & Mu & [Hs|(Mg & Mr & Tm & V & pend & U & Hp)]);
    [subst; apply RC_same; reflexivity|];
    rewrite Hp; cbn [db_put_meta db_tasks];
    let Kn := fresh "Kn" in let Kt := fresh "Kt" in let K := fresh "K" in
    pose proof (mutate_task_meta_identity _ _ _ _ _ Mu) as (Kn & _);
    pose proof (tguard_matches_key _ _ Mg) as Kt;
    destruct (tkey_eqb (tguard_key (tr_guard h)) k) eqn:K;
    [apply tkey_eqb_eq in K; eapply (RC_taskmeta _ _ k _ h t m nt nm); eauto;
     [rewrite <- K; exact G
     |rewrite (stageUpsert_tasks _ _ _ I U), Kn, Kt, K, tkey_eqb_refl; reflexivity]
    |apply RC_same; rewrite (stageUpsert_tasks _ _ _ I U), Kn, Kt, K; reflexivity]
  end.

Theorem step_row_change d c d' k :
  db_inv d -> apply_one d c = (d', Ok 0) -> row_change d c k d'.
Proof.
  intros I A. destruct (accepted_run _ _ _ A) as (_ & cs & R & Hd). subst d'.
  destruct c; cbn [ops_of run_ops run_op] in R;
    try (taskmeta_row_case I R h k; fail).
  - (* upsert meta: tasks untouched *)
    apply RC_same.
    destruct (opUpsertMeta d (CState d [] []) (upsert_wire m)) as [cs1|e] eqn:E; [|discriminate].
    inversion R; subst cs1. unfold opUpsertMeta in E.
    destruct (resolveMonotonicChannelRuntimeMeta _ _ (upsert_wire m)) as [next result].
    destruct (result =? MonotonicIgnoredStale); [inversion E; reflexivity|].
    destruct (result =? MonotonicConflict); [discriminate|]. inversion E. reflexivity.
  - (* create *)
    destruct (opCreate d (CState d [] []) t) as [cs1|e] eqn:E; [|discriminate].
    inversion R; subst cs1.
    destruct (create_accepted _ _ _ E) as [[G Hcs]|[G [pend [U Hp]]]].
    + subst cs. apply RC_same. reflexivity.
    + rewrite Hp. destruct (tkey_eqb (task_key t) k) eqn:K.
      * apply tkey_eqb_eq in K. eapply RC_create; eauto.
        -- rewrite <- K. exact G.
        -- rewrite (stageUpsert_tasks _ _ _ I U), K, tkey_eqb_refl. reflexivity.
      * apply RC_same. rewrite (stageUpsert_tasks _ _ _ I U), K. reflexivity.
  - (* guarded create *)
    destruct (opGuardCheck d (CState d [] []) t g) as [cs0|e0] eqn:E0; [|discriminate].
    apply opGuardCheck_same in E0. subst cs0.
    destruct (opCreate d (CState d [] []) t) as [cs1|e] eqn:E; [|discriminate].
    inversion R; subst cs1.
    destruct (create_accepted _ _ _ E) as [[G Hcs]|[G [pend [U Hp]]]].
    + subst cs. apply RC_same. reflexivity.
    + rewrite Hp. destruct (tkey_eqb (task_key t) k) eqn:K.
      * apply tkey_eqb_eq in K. eapply RC_create; eauto.
        -- rewrite <- K. exact G.
        -- rewrite (stageUpsert_tasks _ _ _ I U), K, tkey_eqb_refl. reflexivity.
      * apply RC_same. rewrite (stageUpsert_tasks _ _ _ I U), K. reflexivity.
  - (* claim *)
    match type of R with match ?x with _ => _ end = _ => destruct x as [cs1|e] eqn:E; [|discriminate] end.
    inversion R; subst cs1.
    destruct (task_accepted _ _ g _ E eq_refl) as (t & next & G & Mg & Mu & pend & U & Hp).
    rewrite Hp. pose proof (mutate_task_identity _ _ _ Mu) as (Kn & _).
    pose proof (tguard_matches_key _ _ Mg) as Kt.
    destruct (tkey_eqb (tguard_key g) k) eqn:K.
    + apply tkey_eqb_eq in K. eapply (RC_task d _ k pend g t next); eauto.
      * rewrite <- K. exact G.
      * rewrite (stageUpsert_tasks _ _ _ I U), Kn, Kt, K, tkey_eqb_refl. reflexivity.
    + apply RC_same. rewrite (stageUpsert_tasks _ _ _ I U), Kn, Kt, K. reflexivity.
  - (* advance *)
    match type of R with match ?x with _ => _ end = _ => destruct x as [cs1|e] eqn:E; [|discriminate] end.
    inversion R; subst cs1.
    destruct (task_accepted _ _ g _ E eq_refl) as (t & next & G & Mg & Mu & pend & U & Hp).
    rewrite Hp. pose proof (mutate_task_identity _ _ _ Mu) as (Kn & _).
    pose proof (tguard_matches_key _ _ Mg) as Kt.
    destruct (tkey_eqb (tguard_key g) k) eqn:K.
    + apply tkey_eqb_eq in K. eapply (RC_task d _ k pend g t next); eauto.
      * rewrite <- K. exact G.
      * rewrite (stageUpsert_tasks _ _ _ I U), Kn, Kt, K, tkey_eqb_refl. reflexivity.
    + apply RC_same. rewrite (stageUpsert_tasks _ _ _ I U), Kn, Kt, K. reflexivity.
  - (* gc *)
    unfold opGC in R. inversion R; subst cs. cbn [cs_pend].
    destruct (gc_scan_spec (db_tasks d) d before limit 0%Z) as (_ & _ & _ & _ & G5).
    destruct (G5 k) as [S|[S [u [U1 [U2 U3]]]]].
    + apply RC_same. exact S.
    + destruct I as [W _]. eapply RC_gc; eauto.
      rewrite <- U2. apply tasks_wf_get; assumption.
Qed.
