(* Proof/ChanAppend_run.v — one appendEffect.run against ANY appender / idempotency
   ports that satisfy the appender contract (Section hypotheses):

     * AppendBatch only ever extends the channel log, with records taken from the
       request, at sequences above everything stored, never storing a sender +
       client-number pair twice; the successes of an Ok reply are stored at the
       reported (id, seq), in request order;
     * an idempotency hit names a stored record with that sender + client number
       and reports its stored payload hash; lookups do not change the log.

   An error reply may or may not have committed ("unknown outcome"); the extra
   hypothesis [atomic_failures] (an error reply committed nothing) is only used
   where stated. *)
From WK Require Import Base.Base Gen.Consts_C29 Model.ChanAppend Model.ChanAppend_C29
     Proof.ChanAppend_coalesce Proof.ChanAppend_expand.
From Coq Require Import Sorted Permutation.
Open Scope N_scope.

Definition tagof (c : comp) : N := ps_tag (cp_item c).

Lemma NoDup_app_intro {A} (l1 l2 : list A) :
  NoDup l1 -> NoDup l2 -> (forall x, In x l1 -> In x l2 -> False) -> NoDup (l1 ++ l2).
Proof.
  induction l1 as [|a l1 IH]; intros H1 H2 H3; cbn [app]; [exact H2|].
  inversion H1; subst. constructor.
  - intro Hin. apply in_app_iff in Hin. destruct Hin as [Hin|Hin]; [contradiction|].
    apply (H3 a); [left; reflexivity|exact Hin].
  - apply IH; auto. intros x Hx Hy. apply (H3 x); [right; exact Hx|exact Hy].
Qed.

(* ---- channel logs ---------------------------------------------------------------------- *)

Record LogOK (log : list prec) : Prop := {
  lo_seqs : NoDup (map pr_seq log);
  lo_keys : forall r r', In r log -> In r' log -> keyed (pr_cmd r) = true ->
            same_key (pr_cmd r) (pr_cmd r') = true -> r = r' }.

(* an admissible extension of [log] by an append of [items] *)
Record ext_ok (log ext : list prec) (items : list psend) : Prop := {
  eo_from : forall r, In r ext -> exists it, In it items /\ pr_tag r = ps_tag it /\ pr_cmd r = ps_cmd it;
  eo_seqs : NoDup (map pr_seq ext);
  eo_above : forall r r', In r log -> In r' ext -> pr_seq r < pr_seq r';
  eo_fresh : forall r r', In r ext -> In r' log -> keyed (pr_cmd r) = true -> same_key (pr_cmd r) (pr_cmd r') = false;
  eo_keys : forall r r', In r ext -> In r' ext -> keyed (pr_cmd r) = true ->
            same_key (pr_cmd r) (pr_cmd r') = true -> r = r' }.

Lemma same_key_sym a b : same_key a b = same_key b a.
Proof.
  unfold same_key.
  assert (E : forall x y, bytes_eqb x y = bytes_eqb y x).
  { intros x y. destruct (bytes_eqb x y) eqn:E1; destruct (bytes_eqb y x) eqn:E2; auto.
    - apply bytes_eqb_eq in E1. subst. rewrite (proj2 (bytes_eqb_eq y y) eq_refl) in E2. discriminate.
    - apply bytes_eqb_eq in E2. subst. rewrite (proj2 (bytes_eqb_eq x x) eq_refl) in E1. discriminate. }
  rewrite (E (c_uid a)), (E (c_cno a)). reflexivity.
Qed.

Lemma same_key_keyed a b : same_key a b = true -> keyed a = keyed b.
Proof.
  unfold same_key, keyed. intro H. apply andb_true_iff in H. destruct H as [H1 H2].
  apply bytes_eqb_eq in H1. apply bytes_eqb_eq in H2. rewrite H1, H2. reflexivity.
Qed.

Lemma ext_ok_nil log items : ext_ok log [] items.
Proof. constructor; try (intros; contradiction). constructor. Qed.

Lemma LogOK_ext log ext items : LogOK log -> ext_ok log ext items -> LogOK (log ++ ext).
Proof.
  intros [L1 L2] [E1 E2 E3 E4 E5]. constructor.
  - rewrite map_app. apply NoDup_app_intro; auto.
    intros x Hx Hy. apply in_map_iff in Hx. apply in_map_iff in Hy.
    destruct Hx as [r [Er Hr]]. destruct Hy as [r' [Er' Hr']].
    pose proof (E3 r r' Hr Hr'). lia.
  - intros r r' Hr Hr' Hk Hs. apply in_app_iff in Hr. apply in_app_iff in Hr'.
    destruct Hr as [Hr|Hr]; destruct Hr' as [Hr'|Hr'].
    + apply L2; auto.
    + exfalso. rewrite same_key_sym in Hs. rewrite (E4 r' r Hr' Hr) in Hs; [discriminate|].
      rewrite (same_key_keyed _ _ Hs). exact Hk.
    + exfalso. rewrite (E4 r r' Hr Hr' Hk) in Hs. discriminate.
    + apply E5; auto.
Qed.

Lemma ext_ok_mono log ext items items' :
  (forall it, In it items -> In it items') -> ext_ok log ext items -> ext_ok log ext items'.
Proof.
  intros Hsub [E1 E2 E3 E4 E5]. constructor; auto.
  intros r Hr. destruct (E1 r Hr) as [it [H1 H2]]. exists it. split; [apply Hsub; exact H1|exact H2].
Qed.

(* two consecutive extensions are one extension *)
Lemma ext_ok_app log e1 e2 items :
  LogOK log -> ext_ok log e1 items -> ext_ok (log ++ e1) e2 items -> ext_ok log (e1 ++ e2) items.
Proof.
  intros HL X1 X2. pose proof (LogOK_ext _ _ _ HL X1) as HL1.
  pose proof (LogOK_ext _ _ _ HL1 X2) as HL2. rewrite <- app_assoc in HL2.
  destruct X1 as [A1 A2 A3 A4 A5]. destruct X2 as [B1 B2 B3 B4 B5]. constructor.
  - intros r Hr. apply in_app_iff in Hr. destruct Hr; auto.
  - rewrite map_app. apply NoDup_app_intro; auto.
    intros x Hx Hy. apply in_map_iff in Hx. apply in_map_iff in Hy.
    destruct Hx as [r [Er Hr]]. destruct Hy as [r' [Er' Hr']].
    assert (pr_seq r < pr_seq r') by (apply B3; [apply in_or_app; right; exact Hr|exact Hr']). lia.
  - intros r r' Hr Hr'. apply in_app_iff in Hr'. destruct Hr' as [Hr'|Hr'].
    + apply A3; auto.
    + apply B3; [apply in_or_app; left; exact Hr|exact Hr'].
  - intros r r' Hr Hr' Hk. apply in_app_iff in Hr. destruct Hr as [Hr|Hr].
    + apply A4; auto.
    + apply B4; auto. apply in_or_app. left. exact Hr'.
  - intros r r' Hr Hr' Hk Hs. apply (lo_keys _ HL2); auto; apply in_or_app; right; assumption.
Qed.

(* ---- what a completion says about the log ------------------------------------------------ *)

Section Run.
  Variable St : Type.
  Variable do_append : St -> areq -> areply * St.
  Variable do_nlookup : St -> bytes -> bytes -> nreply * St.
  Variable hashf : bytes -> N.
  Variable fp : cmd -> N.
  Variable slog : St -> list prec.
  (* the representation invariant the appender keeps on its own log (for the
     message store: sequences are exactly 1, 2, 3, ...) *)
  Variable Wf : list prec -> Prop.

  (* the appender contract *)
  Definition append_contract : Prop :=
    forall s q rep s', Wf (slog s) -> do_append s q = (rep, s') ->
    exists ext, slog s' = slog s ++ ext /\ Wf (slog s') /\ ext_ok (slog s) ext (q_items q) /\
      match rep with
      | AOk rs =>
          (forall i it a, nth_error (q_items q) i = Some it -> nth_error rs i = Some a -> a_err a = 0 ->
                          In (PRec (a_seq a) (a_id a) (ps_tag it) (ps_cmd it)) ext)
          /\ (forall i j ai aj, (i < j)%nat -> nth_error rs i = Some ai -> nth_error rs j = Some aj ->
                                a_err ai = 0 -> a_err aj = 0 -> a_seq ai < a_seq aj)
      | AErr cls => cls <> 0
      end.

  Definition lookup_contract : Prop :=
    forall s u c rep s', do_nlookup s u c = (rep, s') ->
    slog s' = slog s /\
    match rep with
    | NHit id sq ph => exists r, In r (slog s) /\ pr_id r = id /\ pr_seq r = sq
                                 /\ c_uid (pr_cmd r) = u /\ c_cno (pr_cmd r) = c /\ ph = hashf (c_pay (pr_cmd r))
    | NMiss => True
    | NErr cls => cls <> 0
    end.

  (* an error reply committed nothing *)
  Definition atomic_failures : Prop :=
    forall s q cls s', do_append s q = (AErr cls, s') -> slog s' = slog s.

  Hypothesis Happ : append_contract.
  Hypothesis Hlook : lookup_contract.

  (* a successful completion names a record of [log] with the item's sender and
     client number: the item's own record (same tag, same payload), or — for a
     keyed item — a record with the same payload up to the payload hash *)
  Definition backed (log : list prec) (c : comp) : Prop :=
    is_success (cp_res c) = true ->
    exists r, In r log /\ pr_seq r = r_seq (cp_res c) /\ pr_id r = r_id (cp_res c)
      /\ c_uid (pr_cmd r) = c_uid (ps_cmd (cp_item c)) /\ c_cno (pr_cmd r) = c_cno (ps_cmd (cp_item c))
      /\ ((pr_tag r = tagof c /\ c_pay (pr_cmd r) = c_pay (ps_cmd (cp_item c)))
          \/ (keyed (ps_cmd (cp_item c)) = true
              /\ (c_pay (pr_cmd r) = c_pay (ps_cmd (cp_item c))
                  \/ hashf (c_pay (pr_cmd r)) = hashf (c_pay (ps_cmd (cp_item c)))
                  \/ hashf (c_pay (ps_cmd (cp_item c))) = 0))).

  (* where a unique completion comes from.  [log0]: the log before the run;
     [ext]: what the run appended. *)
  Inductive origin (log0 ext : list prec) (c : comp) : Prop :=
  | OFail : is_success (cp_res c) = false -> cp_committed c = false -> origin log0 ext c
  | OStored : cp_committed c = true -> is_success (cp_res c) = true ->
              In (PRec (r_seq (cp_res c)) (r_id (cp_res c)) (tagof c) (ps_cmd (cp_item c))) ext ->
              origin log0 ext c
  | OFound : forall r, cp_committed c = false -> is_success (cp_res c) = true ->
              In r (log0 ++ ext) -> (atomic_failures -> In r log0) ->
              pr_seq r = r_seq (cp_res c) -> pr_id r = r_id (cp_res c) ->
              c_uid (pr_cmd r) = c_uid (ps_cmd (cp_item c)) -> c_cno (pr_cmd r) = c_cno (ps_cmd (cp_item c)) ->
              keyed (ps_cmd (cp_item c)) = true ->
              (hashf (c_pay (pr_cmd r)) = hashf (c_pay (ps_cmd (cp_item c))) \/ hashf (c_pay (ps_cmd (cp_item c))) = 0) ->
              origin log0 ext c.

  Lemma origin_mono log0 e1 e2 c : origin log0 e1 c -> origin log0 (e1 ++ e2) c.
  Proof.
    intros [H1 H2|H1 H2 H3|r H1 H2 H3 H4 H5 H6 H7 H8 H9 H10].
    - apply OFail; assumption.
    - apply OStored; auto. apply in_or_app. left. exact H3.
    - apply (OFound _ _ _ r); auto. rewrite app_assoc. apply in_or_app. left. exact H3.
  Qed.

  Lemma origin_backed log0 ext c : origin log0 ext c -> backed (log0 ++ ext) c.
  Proof.
    intros [H1 H2|H1 H2 H3|r H1 H2 H3 H4 H5 H6 H7 H8 H9 H10] Hs.
    - congruence.
    - eexists. split; [apply in_or_app; right; exact H3|]. cbn [pr_seq pr_id pr_cmd pr_tag].
      split; [reflexivity|]. split; [reflexivity|]. split; [reflexivity|]. split; [reflexivity|].
      left. split; reflexivity.
    - exists r. split; [exact H3|]. split; [exact H5|]. split; [exact H6|]. split; [exact H7|]. split; [exact H8|].
      right. split; [exact H9|]. right. exact H10.
  Qed.

  Lemma errcomp_fail it cls : cls <> 0 -> is_success (cp_res (errcomp it cls)) = false.
  Proof.
    intro H. unfold errcomp, is_success. cbn [cp_res r_err]. apply N.eqb_neq in H. rewrite H. reflexivity.
  Qed.

  (* ---- lookups ----------------------------------------------------------------------------- *)

  Lemma lookup_spec s c rep s' :
    lookupIdempotentSend St do_nlookup hashf s c = (rep, s') ->
    slog s' = slog s /\
    match rep with
    | LHit id sq => keyed c = true /\ exists r, In r (slog s) /\ pr_id r = id /\ pr_seq r = sq
                      /\ c_uid (pr_cmd r) = c_uid c /\ c_cno (pr_cmd r) = c_cno c
                      /\ (hashf (c_pay (pr_cmd r)) = hashf (c_pay c) \/ hashf (c_pay c) = 0)
    | _ => True
    end.
  Proof.
    unfold lookupIdempotentSend, LookupSend.
    destruct (is_nil (c_cno c)) eqn:Ec.
    { intro H. inversion H; subst. auto. }
    destruct (is_nil (c_uid c)) eqn:Eu; cbn [orb].
    { intro H. inversion H; subst. auto. }
    destruct (do_nlookup s (c_uid c) (c_cno c)) as [nr s1] eqn:D.
    destruct (Hlook _ _ _ _ _ D) as [L1 L2].
    destruct nr as [id sq ph| |cls].
    - destruct (negb (hashf (c_pay c) =? 0) && negb (ph =? hashf (c_pay c))) eqn:E; intro H; inversion H; subst; split; auto.
      split; [unfold keyed; rewrite Eu, Ec; reflexivity|].
      destruct L2 as [r [R1 [R2 [R3 [R4 [R5 R6]]]]]]. exists r. repeat split; auto.
      apply andb_false_iff in E. destruct E as [E|E].
      + right. apply negb_false_iff in E. apply N.eqb_eq in E. exact E.
      + left. apply negb_false_iff in E. apply N.eqb_eq in E. congruence.
    - intro H; inversion H; subst. auto.
    - intro H; inversion H; subst. auto.
  Qed.

  Definition slot_item (sl : lslot) : psend := match sl with LDone c => cp_item c | LMissed it => it end.

  Lemma E_LOOKUP_nz : E_APPEND_FAILED <> 0. Proof. discriminate. Qed.

  (* the completions produced by lookups only: every one is a failure or a found record *)
  Definition found_ok (log0 ext : list prec) (cur : list prec) (c : comp) : Prop :=
    cp_committed c = false /\
    (is_success (cp_res c) = false \/
     exists r, is_success (cp_res c) = true /\ In r cur /\ pr_seq r = r_seq (cp_res c) /\ pr_id r = r_id (cp_res c)
       /\ c_uid (pr_cmd r) = c_uid (ps_cmd (cp_item c)) /\ c_cno (pr_cmd r) = c_cno (ps_cmd (cp_item c))
       /\ keyed (ps_cmd (cp_item c)) = true
       /\ (hashf (c_pay (pr_cmd r)) = hashf (c_pay (ps_cmd (cp_item c))) \/ hashf (c_pay (ps_cmd (cp_item c))) = 0)).

  Lemma recovered_found log0 ext cur it id sq r :
    In r cur -> pr_id r = id -> pr_seq r = sq ->
    c_uid (pr_cmd r) = c_uid (ps_cmd it) -> c_cno (pr_cmd r) = c_cno (ps_cmd it) -> keyed (ps_cmd it) = true ->
    (hashf (c_pay (pr_cmd r)) = hashf (c_pay (ps_cmd it)) \/ hashf (c_pay (ps_cmd it)) = 0) ->
    found_ok log0 ext cur (recovered_comp it id sq).
  Proof.
    intros. split; [reflexivity|]. right. exists r. unfold recovered_comp, is_success.
    cbn [cp_res cp_item r_err r_reason r_seq r_id]. rewrite N.eqb_refl. cbn. repeat split; auto.
  Qed.

  Lemma errcomp_found log0 ext cur it cls : cls <> 0 -> found_ok log0 ext cur (errcomp it cls).
  Proof. intro H. split; [reflexivity|]. left. apply errcomp_fail. exact H. Qed.

  Lemma lookup_err_nz s c cls s' :
    lookupIdempotentSend St do_nlookup hashf s c = (LErr cls, s') -> cls <> 0.
  Proof.
    unfold lookupIdempotentSend, LookupSend.
    destruct (is_nil (c_cno c)); [discriminate|].
    destruct (is_nil (c_uid c) || false) eqn:E; [discriminate|].
    destruct (do_nlookup s (c_uid c) (c_cno c)) as [nr s1] eqn:D.
    destruct nr as [id sq ph| |e].
    - destruct (negb (hashf (c_pay c) =? 0) && negb (ph =? hashf (c_pay c))); discriminate.
    - discriminate.
    - intro H. inversion H; subst. destruct (Hlook _ _ _ _ _ D) as [_ L2]. exact L2.
  Qed.

  Lemma recover_all_spec log0 ext : forall items s cls cs s',
    cls <> 0 ->
    recover_all St do_nlookup hashf s items cls = (cs, s') ->
    slog s' = slog s /\ map cp_item cs = items /\ Forall (found_ok log0 ext (slog s)) cs.
  Proof.
    induction items as [|it r IH]; intros s cls cs s' Hc H; cbn [recover_all] in H.
    - inversion H; subst. repeat split; constructor.
    - destruct (lookupIdempotentSend St do_nlookup hashf s (ps_cmd it)) as [rep s1] eqn:L.
      destruct (recover_all St do_nlookup hashf s1 r cls) as [cs2 s2] eqn:R.
      inversion H; subst. clear H.
      destruct (lookup_spec _ _ _ _ L) as [L1 L2].
      destruct (IH _ _ _ _ Hc R) as [I1 [I2 I3]]. rewrite L1 in I1, I3.
      split; [exact I1|]. split.
      + cbn [map]. rewrite I2. destruct rep; reflexivity.
      + constructor; [|exact I3].
        destruct rep as [id sq| |e].
        * destruct L2 as [K [rr [R1 [R2 [R3 [R4 [R5 R6]]]]]]].
          eapply recovered_found; eauto.
        * apply errcomp_found. exact Hc.
        * apply errcomp_found. eapply lookup_err_nz; eauto.
  Qed.

  Lemma lookup_all_spec log0 ext : forall items s slots rec s',
    lookup_all St do_nlookup hashf s items = (slots, rec, s') ->
    slog s' = slog s /\ map slot_item slots = items
    /\ Forall (fun sl => match sl with LDone c => found_ok log0 ext (slog s) c | LMissed _ => True end) slots.
  Proof.
    induction items as [|it r IH]; intros s slots rec s' H; cbn [lookup_all] in H.
    - inversion H; subst. repeat split; constructor.
    - destruct (lookupIdempotentSend St do_nlookup hashf s (ps_cmd it)) as [rep s1] eqn:L.
      destruct (lookup_all St do_nlookup hashf s1 r) as [[slots2 rec2] s2] eqn:R.
      destruct (lookup_spec _ _ _ _ L) as [L1 L2].
      destruct (IH _ _ _ _ R) as [I1 [I2 I3]]. rewrite L1 in I1, I3.
      destruct rep as [id sq| |e]; inversion H; subst; clear H; cbn [map slot_item cp_item recovered_comp errcomp].
      + split; [exact I1|]. split; [try rewrite I2; reflexivity|]. constructor; [|exact I3].
        destruct L2 as [K [rr [R1 [R2 [R3 [R4 [R5 R6]]]]]]]. eapply recovered_found; eauto.
      + split; [exact I1|]. split; [try rewrite I2; reflexivity|]. constructor; [exact I|exact I3].
      + split; [exact I1|]. split; [try rewrite I2; reflexivity|]. constructor; [|exact I3].
        apply errcomp_found. eapply lookup_err_nz; eauto.
  Qed.

  (* ---- completions built from an Ok reply ------------------------------------------------- *)

  Lemma reason_not_success cls : reasonForAppendError cls <> c29_reason_success.
  Proof.
    unfold reasonForAppendError.
    destruct (cls =? E_CHANNEL_NOT_FOUND); [discriminate|].
    destruct ((cls =? E_NOT_LEADER) || (cls =? E_STALE_ROUTE) || (cls =? E_ROUTE_NOT_READY)); discriminate.
  Qed.

  Lemma arc_origin log0 pre s q rs s' ext :
    do_append s q = (AOk rs, s') ->
    (forall i it a, nth_error (q_items q) i = Some it -> nth_error rs i = Some a -> a_err a = 0 ->
                    In (PRec (a_seq a) (a_id a) (ps_tag it) (ps_cmd it)) ext) ->
    Forall (origin log0 (pre ++ ext)) (appendResultCompletions (q_items q) rs).
  Proof.
    intros D Hst. apply Forall_forall. intros c Hin.
    apply In_nth_error in Hin. destruct Hin as [i Hi].
    assert (Hlt : (i < length (q_items q))%nat).
    { rewrite <- (arc_length (q_items q) rs). apply nth_error_Some. congruence. }
    destruct (nth_error (q_items q) i) as [it|] eqn:E; [|apply nth_error_None in E; lia].
    rewrite (arc_nth_error _ rs _ _ E) in Hi. inversion Hi; subst c. clear Hi.
    unfold arc_one. destruct (nth_error rs i) as [a|] eqn:Er.
    - destruct (a_err a =? 0) eqn:Ea.
      + apply N.eqb_eq in Ea. apply OStored; [reflexivity| |].
        * unfold is_success. cbn [cp_res r_err r_reason]. rewrite !N.eqb_refl. reflexivity.
        * apply in_or_app. right. unfold tagof. cbn [cp_res cp_item r_seq r_id]. eapply Hst; eauto.
      + apply OFail; [|reflexivity]. unfold is_success. cbn [cp_res r_err r_reason].
        pose proof (reason_not_success (a_err a)) as Hn. apply N.eqb_neq in Hn. rewrite Hn. apply andb_false_r.
    - apply OFail; [|reflexivity]. apply errcomp_fail. discriminate.
  Qed.

  Definition tag_lt (a b : psend) : Prop := ps_tag a < ps_tag b.

  Lemma sorted_nth (l : list psend) i j :
    StronglySorted tag_lt l -> (i < j)%nat -> (j < length l)%nat ->
    ps_tag (nth i l dflt_psend) < ps_tag (nth j l dflt_psend).
  Proof.
    intro Hs. revert i j. induction Hs as [|x l Hs IH Hall]; intros i j Hij Hj; [cbn in Hj; lia|].
    destruct j as [|j]; [lia|]. destruct i as [|i]; cbn [nth].
    - rewrite Forall_forall in Hall. apply Hall. apply nth_In. cbn in Hj. lia.
    - apply IH; [lia|cbn in Hj; lia].
  Qed.

  Lemma sorted_pos_of_tag (l : list psend) i j :
    StronglySorted tag_lt l -> (i < length l)%nat -> (j < length l)%nat ->
    ps_tag (nth i l dflt_psend) < ps_tag (nth j l dflt_psend) -> (i < j)%nat.
  Proof.
    intros Hs Hi Hj Ht. destruct (Nat.lt_trichotomy i j) as [L|[L|L]]; [exact L| |].
    - subst. lia.
    - pose proof (sorted_nth l j i Hs L Hi). lia.
  Qed.

  Lemma sorted_filter (f : psend -> bool) l : StronglySorted tag_lt l -> StronglySorted tag_lt (filter f l).
  Proof.
    induction 1 as [|x l Hs IH Hall]; cbn [filter]; [constructor|].
    destruct (f x); [|exact IH]. constructor; [exact IH|].
    rewrite Forall_forall in *. intros y Hy. apply filter_In in Hy. apply Hall. tauto.
  Qed.

  (* committed completions of one Ok reply are ordered like their items *)
  Lemma arc_committed_sorted s q rs s' :
    Wf (slog s) -> do_append s q = (AOk rs, s') -> StronglySorted tag_lt (q_items q) ->
    forall c1 c2, In c1 (appendResultCompletions (q_items q) rs) -> In c2 (appendResultCompletions (q_items q) rs) ->
      cp_committed c1 = true -> cp_committed c2 = true -> tagof c1 < tagof c2 ->
      r_seq (cp_res c1) < r_seq (cp_res c2).
  Proof.
    intros HW D Hs c1 c2 H1 H2 K1 K2 Ht.
    destruct (Happ _ _ _ _ HW D) as [ext [_ [_ [_ [_ Hord]]]]].
    destruct (arc_committed _ _ _ H1 K1) as [i [a [I1 [I2 [I3 I4]]]]].
    destruct (arc_committed _ _ _ H2 K2) as [j [b [J1 [J2 [J3 J4]]]]].
    rewrite I4, J4. cbn [r_seq].
    assert (Hi : (i < length (q_items q))%nat) by (apply nth_error_Some; congruence).
    assert (Hj : (j < length (q_items q))%nat) by (apply nth_error_Some; congruence).
    apply (Hord i j a b); auto.
    apply (sorted_pos_of_tag (q_items q)); auto.
    rewrite (nth_error_nth _ _ dflt_psend I1), (nth_error_nth _ _ dflt_psend J1). exact Ht.
  Qed.

  (* ---- the recovery and retry stage --------------------------------------------------------- *)

  Lemma found_origin log0 ext cur c :
    found_ok log0 ext cur c -> (forall r, In r cur -> In r (log0 ++ ext)) ->
    (atomic_failures -> forall r, In r cur -> In r log0) -> origin log0 ext c.
  Proof.
    intros [Hc [Hf|[r [H1 [H2 [H3 [H4 [H5 [H6 [H7 H8]]]]]]]]]] Hsub Hat.
    - apply OFail; assumption.
    - apply (OFound _ _ _ r); auto.
  Qed.

  Lemma fill_err_spec slots cls :
    map cp_item (fill_err slots cls) = map slot_item slots
    /\ forall c, In c (fill_err slots cls) ->
         (In (LDone c) slots) \/ (exists it, In (LMissed it) slots /\ c = errcomp it cls).
  Proof.
    unfold fill_err. split.
    - rewrite map_map. apply map_ext. intros [c|it]; reflexivity.
    - intros c Hc. apply in_map_iff in Hc. destruct Hc as [[c'|it] [E Hin]]; subst.
      + left. exact Hin.
      + right. exists it. auto.
  Qed.

  Lemma fill_retry_spec : forall slots rc,
    map cp_item rc = filter alive (misses slots) ->
    map cp_item (fill_retry slots rc) = map slot_item slots
    /\ forall c, In c (fill_retry slots rc) ->
         In (LDone c) slots \/ (exists it, In (LMissed it) slots /\ alive it = false /\ c = errcomp it (ps_dead it))
         \/ In c rc.
  Proof.
    induction slots as [|sl slots IH]; intros rc Hrc; cbn [fill_retry map]; [split; [reflexivity|intros c []]|].
    destruct sl as [c0|it].
    - cbn [misses flat_map app] in Hrc. destruct (IH rc Hrc) as [I1 I2]. split.
      + cbn [map slot_item]. rewrite I1. reflexivity.
      + intros c [Hc|Hc]; [left; left; congruence|].
        destruct (I2 c Hc) as [H|[[it' [H1 H2]]|H]]; [left; right; exact H|right; left; exists it'; split; [right; exact H1|exact H2]|right; right; exact H].
    - cbn [misses flat_map app filter] in Hrc. fold (misses slots) in Hrc.
      destruct (alive it) eqn:A.
      + destruct rc as [|c0 rc']; [discriminate|]. cbn [map] in Hrc. inversion Hrc as [[E1 E2]].
        destruct (IH rc' E2) as [I1 I2]. split.
        * cbn [map slot_item]. rewrite I1, E1. reflexivity.
        * intros c [Hc|Hc]; [right; right; left; exact Hc|].
          destruct (I2 c Hc) as [H|[[it' [H1 H2]]|H]]; [left; right; exact H|right; left; exists it'; split; [right; exact H1|exact H2]|right; right; right; exact H].
      + destruct (IH rc Hrc) as [I1 I2]. split.
        * cbn [map slot_item cp_item errcomp]. rewrite I1. reflexivity.
        * intros c [Hc|Hc].
          -- right. left. exists it. split; [left; reflexivity|]. split; [exact A|congruence].
          -- destruct (I2 c Hc) as [H|[[it' [H1 H2]]|H]]; [left; right; exact H|right; left; exists it'; split; [right; exact H1|exact H2]|right; right; exact H].
  Qed.

  Lemma misses_in slots it : In it (misses slots) <-> In (LMissed it) slots.
  Proof.
    unfold misses. rewrite in_flat_map. split.
    - intros [[c|it'] [H1 H2]]; [contradiction|]. destruct H2 as [H2|[]]. subst. exact H1.
    - intro H. exists (LMissed it). split; [exact H|left; reflexivity].
  Qed.

  Lemma misses_sorted slots : StronglySorted tag_lt (map slot_item slots) -> StronglySorted tag_lt (misses slots).
  Proof.
    induction slots as [|sl slots IH]; intro H; cbn [misses flat_map]; [constructor|].
    cbn [map] in H. inversion H as [|x l Hs Hall]; subst. fold (misses slots).
    destruct sl as [c|it]; cbn [app]; [apply IH; exact Hs|].
    constructor; [apply IH; exact Hs|].
    rewrite Forall_forall in *. intros y Hy. apply Hall. apply misses_in in Hy.
    apply in_map_iff. exists (LMissed y). split; [reflexivity|exact Hy].
  Qed.

  Lemma dead_nz it : alive it = false -> ps_dead it <> 0.
  Proof. unfold alive. intro H. apply N.eqb_neq in H. exact H. Qed.

  (* [log0]: the log before the run; [pre]: what the failed first append committed
     (nothing, if failures are atomic) *)
  Lemma recoveriesAndRetry_spec log0 pre s items cls unique s' :
    Wf (slog s) ->
    slog s = log0 ++ pre -> LogOK (slog s) -> (atomic_failures -> pre = []) -> cls <> 0 ->
    StronglySorted tag_lt items ->
    recoveriesAndRetry St do_append do_nlookup hashf s items cls = (unique, s') ->
    exists e2, slog s' = slog s ++ e2 /\ Wf (slog s') /\ ext_ok (slog s) e2 items
      /\ map cp_item unique = items
      /\ Forall (origin log0 (pre ++ e2)) unique
      /\ (forall c1 c2, In c1 unique -> In c2 unique -> cp_committed c1 = true -> cp_committed c2 = true ->
                        tagof c1 < tagof c2 -> r_seq (cp_res c1) < r_seq (cp_res c2)).
  Proof.
    intros HW Hlog HL Hat Hcls Hsorted H. unfold recoveriesAndRetry in H.
    assert (Hfail : forall its, Forall (origin log0 (pre ++ [])) (appendBatchErrorCompletions its cls)).
    { intro its. apply Forall_forall. intros c Hc. unfold appendBatchErrorCompletions in Hc.
      apply in_map_iff in Hc. destruct Hc as [it [E _]]. subst c. apply OFail; [apply errcomp_fail; exact Hcls|reflexivity]. }
    assert (Hnc : forall its c, In c (appendBatchErrorCompletions its cls) -> cp_committed c = false).
    { intros its c Hc. unfold appendBatchErrorCompletions in Hc. apply in_map_iff in Hc.
      destruct Hc as [it [E _]]. subst c. reflexivity. }
    destruct (negb (cls =? E_APPEND_FAILED)).
    { inversion H; subst unique s'. exists []. rewrite app_nil_r. split; [reflexivity|]. split; [exact HW|]. split; [apply ext_ok_nil|].
      split; [unfold appendBatchErrorCompletions; rewrite map_map; apply map_id|].
      split; [apply Hfail|]. intros c1 c2 H1 _ K1. rewrite (Hnc _ _ H1) in K1. discriminate. }
    destruct (lookup_all St do_nlookup hashf s items) as [[slots rec] s1] eqn:LA.
    destruct (lookup_all_spec log0 (pre ++ []) _ _ _ _ _ LA) as [L1 [L2 L3]].
    (* completions decided by the first round of lookups *)
    assert (Hdone : forall c, In (LDone c) slots -> origin log0 (pre ++ []) c /\ cp_committed c = false).
    { intros c Hc. rewrite Forall_forall in L3. specialize (L3 _ Hc). cbn in L3. split; [|apply L3].
      eapply found_origin; [exact L3| |].
      - intros r Hr. rewrite app_nil_r, <- Hlog. exact Hr.
      - intros A r Hr. rewrite Hlog, (Hat A), app_nil_r in Hr. exact Hr. }
    destruct (negb rec).
    { inversion H; subst unique s'. exists []. rewrite app_nil_r. split; [exact L1|]. split; [rewrite L1; exact HW|]. split; [apply ext_ok_nil|].
      destruct (fill_err_spec slots cls) as [F1 F2]. split; [rewrite F1; exact L2|]. split.
      - apply Forall_forall. intros c Hc. destruct (F2 c Hc) as [Hd|[it [_ E]]].
        + apply Hdone. exact Hd.
        + subst c. apply OFail; [apply errcomp_fail; exact Hcls|reflexivity].
      - intros c1 c2 H1 _ K1. destruct (F2 c1 H1) as [Hd|[it [_ E]]].
        + rewrite (proj2 (Hdone _ Hd)) in K1. discriminate.
        + subst c1. discriminate. }
    set (retryItems := filter alive (misses slots)) in *.
    assert (Hrsub : forall it, In it retryItems -> In it items).
    { intros it Hit. apply filter_In in Hit. destruct Hit as [Hit _]. apply misses_in in Hit.
      rewrite <- L2. apply in_map_iff. exists (LMissed it). auto. }
    assert (Hrsorted : StronglySorted tag_lt retryItems).
    { apply sorted_filter. apply misses_sorted. rewrite L2. exact Hsorted. }
    (* completions that do not come from the retry *)
    assert (Hother : forall e2 c,
              In (LDone c) slots \/ (exists it, In (LMissed it) slots /\ alive it = false /\ c = errcomp it (ps_dead it)) ->
              origin log0 (pre ++ e2) c /\ cp_committed c = false).
    { intros e2 c [Hd|[it [_ [A E]]]].
      - destruct (Hdone _ Hd) as [O K]. split; [|exact K]. rewrite app_nil_r in O.
        rewrite <- (app_nil_r pre) in O. apply origin_mono with (e2 := e2) in O.
        rewrite app_nil_r in O. exact O.
      - subst c. split; [|reflexivity]. apply OFail; [apply errcomp_fail; apply dead_nz; exact A|reflexivity]. }
    destruct (is_nil retryItems) eqn:Enil.
    { inversion H; subst unique s'. exists []. rewrite app_nil_r. split; [exact L1|]. split; [rewrite L1; exact HW|]. split; [apply ext_ok_nil|].
      destruct retryItems as [|x l] eqn:ER; [|discriminate].
      destruct (fill_retry_spec slots [] (eq_sym ER)) as [F1 F2].
      split; [rewrite F1; exact L2|]. split.
      - apply Forall_forall. intros c Hc. destruct (F2 c Hc) as [Hd|[Hd|[]]]; apply (Hother [] c); auto.
      - intros c1 c2 H1 _ K1. destruct (F2 c1 H1) as [Hd|[Hd|[]]];
          rewrite (proj2 (Hother [] c1 (ltac:(auto)))) in K1; discriminate. }
    destruct (do_append s1 (appendRequest retryItems c29_recovery_attempt)) as [rep s2] eqn:D.
    assert (HW1 : Wf (slog s1)) by (rewrite L1; exact HW).
    destruct (Happ _ _ _ _ HW1 D) as [e2 [X1 [HW2 [X2 X3]]]]. cbn [appendRequest q_items] in X2, X3.
    rewrite L1 in X1, X2.
    pose proof (ext_ok_mono _ _ _ _ Hrsub X2) as X2'.
    destruct rep as [rs|cls2].
    - (* the retry was accepted *)
      inversion H; subst unique s'. clear H. exists e2. split; [exact X1|]. split; [exact HW2|]. split; [exact X2'|].
      destruct X3 as [X3 X4].
      pose proof (arc_origin log0 pre _ _ _ _ e2 D X3) as Ho. cbn [appendRequest q_items] in Ho.
      destruct (fill_retry_spec slots (appendResultCompletions retryItems rs) (arc_items _ _)) as [F1 F2].
      split; [rewrite F1; exact L2|]. split.
      + apply Forall_forall. intros c Hc. destruct (F2 c Hc) as [Hd|[Hd|Hd]].
        * apply (Hother e2 c). auto.
        * apply (Hother e2 c). auto.
        * rewrite Forall_forall in Ho. apply Ho. exact Hd.
      + intros c1 c2 H1 H2 K1 K2 Ht.
        assert (R1 : In c1 (appendResultCompletions retryItems rs)).
        { destruct (F2 c1 H1) as [Hd|[Hd|Hd]]; [| |exact Hd];
            rewrite (proj2 (Hother e2 c1 (ltac:(auto)))) in K1; discriminate. }
        assert (R2 : In c2 (appendResultCompletions retryItems rs)).
        { destruct (F2 c2 H2) as [Hd|[Hd|Hd]]; [| |exact Hd];
            rewrite (proj2 (Hother e2 c2 (ltac:(auto)))) in K2; discriminate. }
        eapply (arc_committed_sorted _ _ _ _ HW1 D); eauto.
    - (* the retry failed as well: a last round of lookups *)
      unfold appendBatchErrorCompletionsOrRecoveries in H.
      assert (Hcls2 : cls2 <> 0) by exact X3.
      destruct (negb (cls2 =? E_APPEND_FAILED)).
      + inversion H; subst unique s'. clear H. exists e2. split; [exact X1|]. split; [exact HW2|]. split; [exact X2'|].
        assert (Hi : map cp_item (appendBatchErrorCompletions retryItems cls2) = retryItems).
        { unfold appendBatchErrorCompletions. rewrite map_map. apply map_id. }
        destruct (fill_retry_spec slots _ Hi) as [F1 F2].
        assert (Hrc : forall c, In c (appendBatchErrorCompletions retryItems cls2) ->
                      origin log0 (pre ++ e2) c /\ cp_committed c = false).
        { intros c Hc. unfold appendBatchErrorCompletions in Hc. apply in_map_iff in Hc.
          destruct Hc as [it [E _]]. subst c. split; [|reflexivity].
          apply OFail; [apply errcomp_fail; exact Hcls2|reflexivity]. }
        split; [rewrite F1; exact L2|]. split.
        * apply Forall_forall. intros c Hc. destruct (F2 c Hc) as [Hd|[Hd|Hd]];
            [apply (Hother e2 c); auto|apply (Hother e2 c); auto|apply Hrc; exact Hd].
        * intros c1 c2 H1 _ K1. destruct (F2 c1 H1) as [Hd|[Hd|Hd]];
            [rewrite (proj2 (Hother e2 c1 (ltac:(auto)))) in K1|rewrite (proj2 (Hother e2 c1 (ltac:(auto)))) in K1
            |rewrite (proj2 (Hrc c1 Hd)) in K1]; discriminate.
      + destruct (recover_all St do_nlookup hashf s2 retryItems cls2) as [rc s3] eqn:RA.
        inversion H; subst unique s'. clear H.
        destruct (recover_all_spec log0 (pre ++ e2) _ _ _ _ _ Hcls2 RA) as [R1 [R2 R3]].
        exists e2. split; [rewrite R1; exact X1|]. split; [rewrite R1; exact HW2|]. split; [exact X2'|].
        destruct (fill_retry_spec slots rc R2) as [F1 F2].
        assert (Hrc : forall c, In c rc -> origin log0 (pre ++ e2) c /\ cp_committed c = false).
        { intros c Hc. rewrite Forall_forall in R3. specialize (R3 _ Hc). split; [|apply R3].
          eapply found_origin; [exact R3| |].
          - intros r Hr. rewrite X1, Hlog, <- app_assoc in Hr. exact Hr.
          - intros A r Hr. rewrite (A _ _ _ _ D), L1, Hlog, (Hat A), app_nil_r in Hr. exact Hr. }
        split; [rewrite F1; exact L2|]. split.
        * apply Forall_forall. intros c Hc. destruct (F2 c Hc) as [Hd|[Hd|Hd]];
            [apply (Hother e2 c); auto|apply (Hother e2 c); auto|apply Hrc; exact Hd].
        * intros c1 c2 H1 _ K1. destruct (F2 c1 H1) as [Hd|[Hd|Hd]];
            [rewrite (proj2 (Hother e2 c1 (ltac:(auto)))) in K1|rewrite (proj2 (Hother e2 c1 (ltac:(auto)))) in K1
            |rewrite (proj2 (Hrc c1 Hd)) in K1]; discriminate.
  Qed.

  (* ---- the whole effect ---------------------------------------------------------------------- *)

  (* a completion of the event: a unique completion itself, or the copy handed to
     a coalesced duplicate of an EARLIER item of the same batch *)
  Inductive eorigin (log0 ext : list prec) (c : comp) : Prop :=
  | EOwn : origin log0 ext c -> eorigin log0 ext c
  | ECopy : forall u, origin log0 ext u -> cp_res c = cp_res u -> cp_committed c = false ->
            ps_cmd (cp_item c) = ps_cmd (cp_item u) -> keyed (ps_cmd (cp_item c)) = true ->
            tagof u < tagof c -> eorigin log0 ext c.

  Lemma perm_filter_split {A} (f : A -> bool) (l : list A) :
    Permutation (filter (fun x => negb (f x)) l ++ filter f l) l.
  Proof.
    induction l as [|x l IH]; cbn [filter app]; [constructor|].
    destruct (f x); cbn [negb app].
    - apply Permutation_sym. apply Permutation_cons_app. apply Permutation_sym. exact IH.
    - constructor. exact IH.
  Qed.

  Lemma sorted_map_pos (l : list psend) (pos : list nat) :
    StronglySorted tag_lt l -> StronglySorted lt pos -> Forall (fun p => (p < length l)%nat) pos ->
    StronglySorted tag_lt (map (fun p => nth p l dflt_psend) pos).
  Proof.
    intros Hl Hp. induction Hp as [|p pos Hp IH Hall]; intro Hb; cbn [map]; [constructor|].
    inversion Hb; subst. constructor; [apply IH; assumption|].
    rewrite Forall_forall in *. intros y Hy. apply in_map_iff in Hy. destruct Hy as [q [E Hq]]. subst y.
    unfold tag_lt. apply sorted_nth; auto.
  Qed.

  Lemma expand_elems active b pos unique c :
    coalesced active b pos -> map cp_item unique = ib_items b -> StronglySorted tag_lt active ->
    In c (expandCompletions b unique) ->
    In c unique \/
    exists u, In u unique /\ cp_res c = cp_res u /\ cp_committed c = false
              /\ ps_cmd (cp_item c) = ps_cmd (cp_item u) /\ keyed (ps_cmd (cp_item c)) = true
              /\ tagof u < tagof c.
  Proof.
    intros C Hu Hs Hin.
    destruct (expand_aligned _ _ _ _ C Hu) as [L Hn].
    apply In_nth with (d := dflt_comp) in Hin. destruct Hin as [i [Hi E]]. rewrite L in Hi.
    rewrite Hn in E by exact Hi. subst c. unfold expanded_at.
    destruct (cz_owner _ _ _ C i Hi) as [p [P1 [P2 P3]]].
    assert (Hlen : length unique = length pos).
    { rewrite <- (map_length cp_item unique), Hu, (cz_items _ _ _ C), map_length. reflexivity. }
    assert (Ho : (owner_of b i < length unique)%nat) by (rewrite Hlen; apply nth_error_Some; congruence).
    set (u := nth (owner_of b i) unique dflt_comp).
    assert (Hui : In u unique) by (apply nth_In; exact Ho).
    assert (Eu : cp_item u = nth p active dflt_psend).
    { unfold u. change dflt_psend with (cp_item dflt_comp) at 1.
      rewrite <- (map_nth cp_item), Hu, (cz_items _ _ _ C).
      rewrite (nth_indep _ _ (nth 0 active dflt_psend)) by (rewrite map_length, <- Hlen; exact Ho).
      change (nth 0 active dflt_psend) with ((fun q => nth q active dflt_psend) 0%nat).
      rewrite map_nth. rewrite (nth_error_nth _ _ 0%nat P1). reflexivity. }
    rewrite (nth_error_nth _ _ 0%nat P1).
    destruct (Nat.eq_dec p i) as [Epi|Epi].
    - subst p. left. rewrite Nat.eqb_refl, andb_true_r. rewrite <- Eu.
      clearbody u. destruct u as [ui ur ua uc ut]. cbn [cp_item cp_res cp_app cp_committed cp_trace] in *. exact Hui.
    - destruct P3 as [P3|[P3 P4]]; [contradiction|].
      right. exists u. assert (Hp : (p < i)%nat) by lia.
      cbn [cp_res cp_committed cp_item]. unfold tagof. cbn [cp_item].
      split; [exact Hui|]. split; [reflexivity|].
      split; [replace (Nat.eqb p i) with false; [apply andb_false_r|symmetry; apply Nat.eqb_neq; lia]|].
      apply same_eq in P4. unfold cmdat in P4, P3.
      split; [rewrite Eu; symmetry; exact P4|]. split; [exact P3|].
      rewrite Eu. apply sorted_nth; auto.
  Qed.

  Lemma app_eq_self {A} (l e : list A) : l ++ e = l -> e = [].
  Proof.
    intro H. assert (L : length (l ++ e) = length l) by (rewrite H; reflexivity).
    rewrite app_length in L. destruct e; [reflexivity|cbn in L; lia].
  Qed.

  Lemma inactive_items items : map cp_item (inactive_comps items) = filter (fun it => negb (alive it)) items.
  Proof. unfold inactive_comps. rewrite map_map. apply map_id. Qed.

  Lemma inactive_origin log0 ext items c : In c (inactive_comps items) -> origin log0 ext c /\ cp_committed c = false.
  Proof.
    unfold inactive_comps. intro H. apply in_map_iff in H. destruct H as [it [E Hit]]. subst c.
    apply filter_In in Hit. destruct Hit as [_ Hd]. apply negb_true_iff in Hd.
    split; [|reflexivity]. apply OFail; [apply errcomp_fail; apply dead_nz; exact Hd|reflexivity].
  Qed.

  Theorem run_spec s e ev s' :
    Wf (slog s) -> LogOK (slog s) -> StronglySorted tag_lt (ef_items e) ->
    run St do_append do_nlookup hashf fp s e = (ev, s') ->
    exists ext, slog s' = slog s ++ ext /\ Wf (slog s') /\ ext_ok (slog s) ext (ef_items e)
      /\ ev_seq ev = ef_seq e
      /\ Permutation (map cp_item (ev_items ev)) (ef_items e)
      /\ Forall (eorigin (slog s) ext) (ev_items ev)
      /\ (forall c1 c2, In c1 (ev_items ev) -> In c2 (ev_items ev) ->
             cp_committed c1 = true -> cp_committed c2 = true -> tagof c1 < tagof c2 ->
             r_seq (cp_res c1) < r_seq (cp_res c2)).
  Proof.
    intros HW HL Hsorted H. unfold run in H.
    destruct (is_nil (ef_items e)) eqn:En.
    { inversion H; subst ev s'. exists []. rewrite app_nil_r. destruct (ef_items e); [|discriminate].
      cbn [ev_seq ev_items map]. split; [reflexivity|]. split; [exact HW|]. split; [apply ext_ok_nil|]. split; [reflexivity|].
      split; [constructor|]. split; [constructor|]. intros c1 c2 []. }
    rewrite activeAppendItems_correct in H. unfold activeAppendItems_spec in H.
    set (items := ef_items e) in *. set (active := filter alive items) in *.
    assert (Hperm : forall x, map cp_item x = active ->
                     Permutation (map cp_item (inactive_comps items ++ x)) items).
    { intros x Hx. rewrite map_app, inactive_items, Hx. apply perm_filter_split. }
    assert (Hasorted : StronglySorted tag_lt active) by (apply sorted_filter; exact Hsorted).
    destruct (is_nil active) eqn:Ea.
    { inversion H; subst ev s'. exists []. rewrite app_nil_r. cbn [ev_seq ev_items].
      split; [reflexivity|]. split; [exact HW|]. split; [apply ext_ok_nil|]. split; [reflexivity|].
      split.
      { specialize (Hperm [] ltac:(destruct active; [reflexivity|discriminate])).
        rewrite app_nil_r in Hperm. exact Hperm. }
      split.
      { apply Forall_forall. intros c Hc. apply EOwn. eapply inactive_origin; eauto. }
      intros c1 c2 H1 _ K1. rewrite (proj2 (inactive_origin (slog s) [] _ _ H1)) in K1. discriminate. }
    set (b := newIdempotentAppendBatch hashf fp active) in *.
    destruct (nb_coalesced hashf fp active) as [pos C]. fold b in C.
    set (X := ib_items b) in *.
    assert (HXsorted : StronglySorted tag_lt X).
    { unfold X. rewrite (cz_items _ _ _ C). apply sorted_map_pos; [exact Hasorted|apply (cz_sorted _ _ _ C)|apply (cz_bound _ _ _ C)]. }
    assert (HXsub : forall it, In it X -> In it items).
    { intros it Hit. unfold X in Hit. rewrite (cz_items _ _ _ C) in Hit. apply in_map_iff in Hit.
      destruct Hit as [p [E Hp]]. subst it.
      assert (Hb : (p < length active)%nat).
      { pose proof (cz_bound _ _ _ C) as B. rewrite Forall_forall in B. apply B. exact Hp. }
      pose proof (nth_In active dflt_psend Hb) as Hin. apply filter_In in Hin. tauto. }
    destruct (do_append s (appendRequest X c29_initial_attempt)) as [rep s1] eqn:D.
    destruct (Happ _ _ _ _ HW D) as [e1 [X1 [HW1 [X2 X3]]]]. cbn [appendRequest q_items] in X2, X3.
    (* everything the event carries, from the unique completions *)
    assert (Hfinish : forall ext unique,
      map cp_item unique = X -> Forall (origin (slog s) ext) unique ->
      (forall c1 c2, In c1 unique -> In c2 unique -> cp_committed c1 = true -> cp_committed c2 = true ->
                     tagof c1 < tagof c2 -> r_seq (cp_res c1) < r_seq (cp_res c2)) ->
      Permutation (map cp_item (inactive_comps items ++ expandCompletions b unique)) items
      /\ Forall (eorigin (slog s) ext) (inactive_comps items ++ expandCompletions b unique)
      /\ (forall c1 c2, In c1 (inactive_comps items ++ expandCompletions b unique) ->
             In c2 (inactive_comps items ++ expandCompletions b unique) ->
             cp_committed c1 = true -> cp_committed c2 = true -> tagof c1 < tagof c2 ->
             r_seq (cp_res c1) < r_seq (cp_res c2))).
    { intros ext unique Hu Ho Hord.
      split; [apply Hperm; apply (expand_items _ _ _ _ C Hu)|].
      assert (Hel : forall c, In c (expandCompletions b unique) ->
                    eorigin (slog s) ext c /\ (cp_committed c = true -> In c unique)).
      { intros c Hc. rewrite Forall_forall in Ho.
        destruct (expand_elems _ _ _ _ _ C Hu Hasorted Hc) as [Hin|[u [U1 [U2 [U3 [U4 [U5 U6]]]]]]].
        - split; [apply EOwn; apply Ho; exact Hin|auto].
        - split; [eapply ECopy; eauto|]. intro K. congruence. }
      split.
      - apply Forall_forall. intros c Hc. apply in_app_iff in Hc. destruct Hc as [Hc|Hc].
        + apply EOwn. eapply inactive_origin; eauto.
        + apply Hel. exact Hc.
      - intros c1 c2 H1 H2 K1 K2 Ht. apply in_app_iff in H1. apply in_app_iff in H2.
        destruct H1 as [H1|H1]; [rewrite (proj2 (inactive_origin (slog s) ext _ _ H1)) in K1; discriminate|].
        destruct H2 as [H2|H2]; [rewrite (proj2 (inactive_origin (slog s) ext _ _ H2)) in K2; discriminate|].
        apply Hord; auto; apply Hel; auto. }
    destruct rep as [rs|cls].
    - inversion H; subst ev s'. clear H. cbn [ev_seq ev_items]. exists e1.
      split; [exact X1|]. split; [exact HW1|]. split; [eapply ext_ok_mono; [exact HXsub|exact X2]|]. split; [reflexivity|].
      destruct X3 as [X3 X4].
      apply Hfinish.
      + apply arc_items.
      + pose proof (arc_origin (slog s) [] _ _ _ _ e1 D X3) as Ho. exact Ho.
      + intros c1 c2 H1 H2. eapply (arc_committed_sorted _ _ _ _ HW D); eauto.
    - destruct (recoveriesAndRetry St do_append do_nlookup hashf s1 X cls) as [unique s2] eqn:R.
      inversion H; subst ev s'. clear H. cbn [ev_seq ev_items].
      assert (HL1 : LogOK (slog s1)) by (rewrite X1; eapply LogOK_ext; eauto).
      destruct (recoveriesAndRetry_spec (slog s) e1 _ _ _ _ _ HW1 X1 HL1
                  (fun A => app_eq_self _ _ (eq_trans (eq_sym X1) (A _ _ _ _ D))) X3 HXsorted R)
        as [e2 [Y1 [YW [Y2 [Y3 [Y4 Y5]]]]]].
      exists (e1 ++ e2). split; [rewrite Y1, X1, app_assoc; reflexivity|].
      split; [exact YW|]. split.
      { eapply ext_ok_mono; [exact HXsub|]. apply ext_ok_app; auto. rewrite <- X1. exact Y2. }
      split; [reflexivity|].
      apply Hfinish; auto.
  Qed.

  (* ---- what the completions of an event say ------------------------------------------------- *)

  Lemma backed_mono log log' c : (forall r, In r log -> In r log') -> backed log c -> backed log' c.
  Proof.
    intros Hsub Hb Hs. destruct (Hb Hs) as [r [R1 R2]]. exists r. split; [apply Hsub; exact R1|exact R2].
  Qed.

  Lemma eorigin_backed log0 ext c : eorigin log0 ext c -> backed (log0 ++ ext) c.
  Proof.
    intros [O|u O E1 E2 E3 E4 E5]; [apply origin_backed; exact O|].
    intro Hs. rewrite E1 in Hs. destruct (origin_backed _ _ _ O Hs) as [r [R1 [R2 [R3 [R4 [R5 R6]]]]]].
    exists r. rewrite E1, E3. split; [exact R1|]. split; [exact R2|]. split; [exact R3|].
    split; [exact R4|]. split; [exact R5|].
    right. rewrite <- E3. split; [exact E4|]. rewrite E3.
    destruct R6 as [[_ R6]|[_ R6]]; [left; exact R6|exact R6].
  Qed.

  Lemma eorigin_committed log0 ext c :
    eorigin log0 ext c -> cp_committed c = true ->
    is_success (cp_res c) = true
    /\ In (PRec (r_seq (cp_res c)) (r_id (cp_res c)) (tagof c) (ps_cmd (cp_item c))) ext.
  Proof.
    intros [O|u O E1 E2 E3 E4 E5] K; [|congruence].
    destruct O as [H1 H2|H1 H2 H3|r H1 H2 H3 H4 H5 H6 H7 H8 H9 H10]; try congruence. auto.
  Qed.

  (* with atomic failures, a success whose record carries the item's own tag is a
     committed completion (the record was appended by this very effect) *)
  Lemma eorigin_fresh log0 ext c :
    atomic_failures -> NoDup (map pr_seq (log0 ++ ext)) ->
    (forall r, In r log0 -> pr_tag r <> tagof c) ->
    eorigin log0 ext c -> is_success (cp_res c) = true ->
    forall r, In r (log0 ++ ext) -> pr_seq r = r_seq (cp_res c) -> pr_tag r = tagof c ->
    cp_committed c = true.
  Proof.
    intros A Hnd Hfresh Ho Hs r Hr Hseq Htag.
    assert (Huniq : forall r', In r' (log0 ++ ext) -> pr_seq r' = pr_seq r -> r' = r).
    { intros r' Hr' E. clear -Hnd Hr Hr' E. induction (log0 ++ ext) as [|x l IH]; [contradiction|].
      cbn [map] in Hnd. inversion Hnd; subst. destruct Hr as [Hr|Hr]; destruct Hr' as [Hr'|Hr'].
      - congruence.
      - subst x. exfalso. apply H1. rewrite <- E. apply in_map. exact Hr'.
      - subst x. exfalso. apply H1. rewrite E. apply in_map. exact Hr.
      - apply IH; auto. }
    destruct Ho as [O|u O E1 E2 E3 E4 E5].
    - destruct O as [H1 H2|H1 H2 H3|r0 H1 H2 H3 H4 H5 H6 H7 H8 H9 H10]; [congruence|exact H1|].
      exfalso. assert (r0 = r) by (apply Huniq; [exact H3|congruence]). subst r0.
      apply (Hfresh r (H4 A)). exact Htag.
    - exfalso. rewrite E1 in Hs, Hseq.
      destruct O as [H1 H2|H1 H2 H3|r0 H1 H2 H3 H4 H5 H6 H7 H8 H9 H10]; [congruence| |].
      + assert (PRec (r_seq (cp_res u)) (r_id (cp_res u)) (tagof u) (ps_cmd (cp_item u)) = r)
          by (apply Huniq; [apply in_or_app; right; exact H3|cbn [pr_seq]; congruence]).
        subst r. cbn [pr_tag] in Htag. lia.
      + assert (r0 = r) by (apply Huniq; [exact H3|congruence]). subst r0.
        apply (Hfresh r (H4 A)). exact Htag.
  Qed.
End Run.
