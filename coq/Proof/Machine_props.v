(* Proof/Machine_props.v — the C06 theorems in the form stated in Properties/C06.v. *)
From WK Require Import Base.Base Gen.Consts_C06 Model.Machine Proof.Machine Proof.Machine_steps
     Proof.Machine_trans Proof.Machine_monitor.
Open Scope N_scope.

Section FromInit.
  Variables key local gen id leo hw cp : N.
  Hypothesis Hcp : cp <= hw.
  Hypothesis Hhw : hw <= leo.
  Let s0 := init_state key local gen id leo hw cp.

  Lemma reach_inv evs : Inv (run_state s0 evs).
  Proof. apply Inv_run_state. apply Inv_init; assumption. Qed.

  Lemma watermarks evs :
    let s := run_state s0 evs in
    s_cp s <= s_hw s /\ s_hw s <= s_leo s /\ forall n, pr_get n (s_progress s) <= s_leo s.
  Proof. destruct (reach_inv evs) as [[H1 [H2 H3]] _]. cbv zeta. split; [|split]; assumption. Qed.

  Lemma monotone evs e :
    let s := run_state s0 evs in
    let s' := fst (step s e) in
    s_hw s <= s_hw s' /\ s_leo s <= s_leo s' /\ s_cp s' = s_cp s.
  Proof.
    cbv zeta. destruct (step (run_state s0 evs) e) as [s' d] eqn:E. cbn [fst].
    pose proof (step_establishes_facts _ _ _ _ (reach_inv evs) E) as F.
    split; [exact (sf_hw _ _ _ _ F)|]. split; [exact (sf_leo _ _ _ _ F)|exact (sf_cp _ _ _ _ F)].
  Qed.

  Lemma quorum_reply_covered evs e r :
    let s := run_state s0 evs in
    let s' := fst (step s e) in
    In r (d_replies (snd (step s e))) -> r_err r = 0 ->
    exists w target,
      find_w (r_op r) (s_pending s) = Some w /\ target <> 0
      /\ (forall q, last_idx (r_items r) = Some q -> q = target)
      /\ (w_mode w = CommitModeQuorum -> target <= s_hw s').
  Proof.
    cbv zeta. destruct (step (run_state s0 evs) e) as [s' d] eqn:E. cbn [fst snd].
    intros Hr He.
    pose proof (step_establishes_facts _ _ _ _ (reach_inv evs) E) as F.
    destruct (sf_replies _ _ _ _ F r Hr) as [w [Fw [_ Q]]].
    destruct (Q He) as [w' [_ [_ [_ [T [L C]]]]]].
    exists w, (w_target w'). split; [exact Fw|]. split; [exact T|]. split; [exact L|exact C].
  Qed.

  Lemma reply_once_step evs e :
    let s := run_state s0 evs in
    let s' := fst (step s e) in
    let d := snd (step s e) in
    (forall r, In r (d_replies d) ->
       In (r_op r) (pend_ids (s_pending s)) /\ ~ In (r_op r) (pend_ids (s_pending s')))
    /\ NoDup (map r_op (d_replies d))
    /\ (forall x, In x (pend_ids (s_pending s')) ->
          In x (pend_ids (s_pending s)) \/ In x (admitted_ids e d))
    /\ (forall x, In x (admitted_ids e d) -> ~ In x (pend_ids (s_pending s)))
    /\ NoDup (admitted_ids e d).
  Proof.
    cbv zeta. destruct (step (run_state s0 evs) e) as [s' d] eqn:E. cbn [fst snd].
    pose proof (step_establishes_facts _ _ _ _ (reach_inv evs) E) as F.
    split; [|split; [exact (sf_nodup _ _ _ _ F)|split; [exact (sf_pend _ _ _ _ F)|
             split; [exact (sf_fresh _ _ _ _ F)|exact (sf_adm_nodup _ _ _ _ F)]]]].
    intros r Hr. destruct (sf_replies _ _ _ _ F r Hr) as [w [Fw [N _]]].
    split; [eapply find_w_some_ids; exact Fw|exact N].
  Qed.

  Lemma reply_once evs x : (replies_to x (run s0 evs) <= admissions_of x (run s0 evs))%nat.
  Proof.
    pose proof (trace_ok_reply_once (run s0 evs) s0 x) as H.
    assert (T : trace_ok s0 (run s0 evs) = true) by (apply trace_ok_run; apply Inv_init; assumption).
    specialize (H T). assert (W : waiting x s0 = 0%nat) by reflexivity. lia.
  Qed.
End FromInit.

(* ---- rejected metadata, in Prop form ------------------------------------------------------------------- *)
Lemma meta_rejects s m :
  m_epoch m < s_epoch s
  \/ (m_epoch m = s_epoch s /\ m_lepoch m < s_lepoch s)
  \/ (m_epoch m = s_epoch s /\ m_lepoch m = s_lepoch s /\ m_leader m <> s_leader s) ->
  exists e, e <> 0 /\ step s (EvMeta m) = (s, dec_err e).
Proof.
  intro H. cbn [step]. apply meta_rejected. unfold meta_older, meta_leader_switch.
  destruct H as [H|[[H1 H2]|[H1 [H2 H3]]]].
  - apply N.ltb_lt in H. rewrite H. reflexivity.
  - apply N.eqb_eq in H1. apply N.ltb_lt in H2. rewrite H1, H2. rewrite orb_true_r. reflexivity.
  - apply N.eqb_eq in H1, H2. apply N.eqb_neq in H3. rewrite H1, H2, H3. cbn [negb andb].
    rewrite orb_true_r. reflexivity.
Qed.

Lemma stale_fence_noop s f :
  matches_fence s f = false ->
  (forall base last err, step s (EvStored f base last err) = (s, dec_empty))
  /\ (forall first last hw err, step s (EvQuorum f first last hw err) = (s, dec_empty)).
Proof.
  intro H. split; intros; cbn [step]; [apply stale_stored|apply stale_quorum]; exact H.
Qed.

Lemma ack_guard_all_routes s r key epoch lepoch follower off ver_ok :
  s_leo s < off ->
  exists e, e <> 0 /\ step s (EvAck r key epoch lepoch follower off ver_ok) = (s, dec_err e).
Proof.
  intro H. destruct (ack_over_leo_noop s r key epoch lepoch follower off ver_ok H) as [e [E N]].
  exists e. split; [exact N|exact E].
Qed.

(* ---- what the guard is for: the same machine with the guard removed breaks HW <= LEO ----------------------- *)
Definition step_unguarded (s : state) (e : event) : state * decision :=
  match e with
  | EvAck _ _ _ _ follower off _ => apply_follower_ack s follower off
  | _ => step s e
  end.

Fixpoint run_state_unguarded (s : state) (evs : list event) : state :=
  match evs with
  | [] => s
  | e :: r => run_state_unguarded (fst (step_unguarded s e)) r
  end.

Definition unguarded_witness : list event :=
  [ EvMeta (Meta 1 1 1 1 1 [1; 2] [1; 2] 1%Z StatusActive);
    EvAck RPull 1 1 1 2 5 true ].

Lemma unguarded_ack_refuted :
  exists evs, let s := run_state_unguarded (init_state 1 1 1 0 0 0 0) evs in s_leo s < s_hw s.
Proof. exists unguarded_witness. vm_compute. reflexivity. Qed.

(* the same history through the guarded machine keeps the invariant (the ack is rejected) *)
Lemma guarded_witness_ok :
  let s := run_state (init_state 1 1 1 0 0 0 0) unguarded_witness in s_hw s = 0 /\ s_leo s = 0.
Proof. vm_compute. split; reflexivity. Qed.
