(* Proof/RaftLog_ops.v — the remaining per-scope steps: markApplied /
   markConfigApplied, planSnapshotSave + staging, and the reads. *)
From WK Require Import Base.Base Gen.Consts_C14 Model.RaftLog
     Proof.RaftLog_lists Proof.RaftLog_ref Proof.RaftLog_pebble.
From Coq Require Import ZifyBool ZifyN ZifyNat.
Open Scope N_scope.

(* ---- mark applied / config applied *)

Lemma markApplied_sim sc files next rw r cs i :
  RowsInv files next rw r -> ref_conf r = Some cs ->
  let r' := RS (r_hs r) i (r_cfg r) (r_snap r) (r_ents r) in
  exists b st',
    markAppliedOp_apply sc (canon_w rw r cs) i = (b, st')
    /\ Forall (fun x => bop_scope x = sc) b
    /\ RowsInv files next (fold_left apply_bop_rows b rw) r'
    /\ ref_conf r' = Some cs
    /\ st' = canon_w (fold_left apply_bop_rows b rw) r' cs.
Proof.
  intros (Hh & Hc & He & Hs & Hm) Hcs r'. unfold markAppliedOp_apply.
  eexists. eexists. split; [reflexivity|]. split; [repeat constructor|].
  cbn [fold_left apply_bop_rows k_hs k_applied k_cfg k_snap k_meta k_ents].
  split.
  { unfold RowsInv. cbn [k_hs k_applied k_cfg k_snap k_meta k_ents]. subst r'.
    repeat split; try assumption. exists cs. split; [exact Hcs|reflexivity]. }
  split; [exact Hcs|reflexivity].
Qed.

Lemma markConfigApplied_sim sc files next rw r cs i :
  RowsInv files next rw r -> ref_conf r = Some cs ->
  let r' := RS (r_hs r) (r_applied r) i (r_snap r) (r_ents r) in
  exists b st',
    markConfigAppliedOp_apply sc (canon_w rw r cs) i = (b, st')
    /\ Forall (fun x => bop_scope x = sc) b
    /\ RowsInv files next (fold_left apply_bop_rows b rw) r'
    /\ ref_conf r' = Some cs
    /\ st' = canon_w (fold_left apply_bop_rows b rw) r' cs.
Proof.
  intros (Hh & Hc & He & Hs & Hm) Hcs r'. unfold markConfigAppliedOp_apply.
  eexists. eexists. split; [reflexivity|]. split; [repeat constructor|].
  cbn [fold_left apply_bop_rows k_hs k_applied k_cfg k_snap k_meta k_ents].
  split.
  { unfold RowsInv. cbn [k_hs k_applied k_cfg k_snap k_meta k_ents]. subst r'.
    repeat split; try assumption. }
  split; [exact Hcs|reflexivity].
Qed.

(* ---- snapshot payload files only grow, under fresh ids *)

Definition files_ext (files : list (N * bytes)) (next : N) (files' : list (N * bytes)) (next' : N) : Prop :=
  (files' = files /\ next' = next) \/ (exists d, files' = (next, d) :: files /\ next' = next + 1).

Lemma files_ext_refl files next : files_ext files next files next.
Proof. left. split; reflexivity. Qed.

Lemma snap_rel_ext files next files' next' ks s :
  files_ext files next files' next' -> snap_rel files next ks s -> snap_rel files' next' ks s.
Proof.
  intros [[-> ->]|(d & -> & ->)] H; [exact H|].
  destruct ks as [mf|]; [|exact H]. cbn in *.
  destruct H as (H1 & H2 & H3 & H4 & H5 & H6 & H7 & H8).
  repeat split; try assumption; [lia|].
  replace (next =? mf_id mf) with false by lia. exact H8.
Qed.

Lemma RowsInv_ext files next files' next' rw r :
  files_ext files next files' next' -> RowsInv files next rw r -> RowsInv files' next' rw r.
Proof.
  intros Hx (Hh & Hc & He & Hs & Hm). repeat split; try assumption.
  eapply snap_rel_ext; eassumption.
Qed.

Lemma files_ext_trans f1 n1 f2 n2 ks s :
  files_ext f1 n1 f2 n2 -> snap_rel f1 n1 ks s -> snap_rel f2 n2 ks s.
Proof. apply snap_rel_ext. Qed.

(* ---- planSnapshotSave + prepareAndWriteSnapshot + publish *)

Lemma plan_save_sim c sc r hs ents snap :
  wf r -> RowsInv (c_files c) (c_next c) (rows_of sc (c_kv c)) r ->
  req_valid r (WSave hs ents snap) = true -> not_k1 r (WSave hs ents snap) ->
  match ref_save false r hs ents snap with
  | ROk r' => exists c' sv,
      plan_save c sc hs ents snap = Ok (c', sv)
      /\ c_kv c' = c_kv c /\ c_cache c' = c_cache c
      /\ files_ext (c_files c) (c_next c) (c_files c') (c_next c')
      /\ plan_ok (c_files c') (c_next c') (rows_of sc (c_kv c)) r r' hs ents snap sv
  | RRej e => plan_save c sc hs ents snap = Err e
  | RInvalid => True
  end.
Proof.
  intros Hwf Hinv Hv Hk.
  destruct (ref_save false r hs ents snap) as [r'|e|] eqn:Href; [| |exact I].
  - (* accepted *)
    destruct (ref_save_ok r hs ents snap r' Hwf Hv Hk Href) as (Hspec & _ & _).
    pose proof (ref_save_ok_cases r hs ents snap r' Href) as Hcases.
    pose proof Hinv as (Hh & Hc & He & Hs & Hm).
    unfold plan_save. destruct snap as [s|].
    + rewrite (validate_ok _ _ _ _ Hwf Hinv). cbn [negb].
      pose proof Hv as Hv'. unfold req_valid in Hv'. rewrite Href in Hv'.
      apply andb_true_iff in Hv'. destruct Hv' as [Hv' _].
      apply andb_true_iff in Hv'. destruct Hv' as [_ Hsn].
      unfold snapshot_ok in Hsn.
      apply andb_true_iff in Hsn. destruct Hsn as [Hsn Hcoll].
      apply andb_true_iff in Hsn. destruct Hsn as [Hsn Hcok].
      apply andb_true_iff in Hsn. destruct Hsn as [Hsn Htpos].
      apply andb_true_iff in Hsn. destruct Hsn as [Hipos Himax].
      assert (Hr'snap : r_snap r' = fst (spec_snap r (Some s))) by (rewrite Hspec; reflexivity).
      destruct Hcases as [[Heq Hsm]|Hgt].
      * (* the stored snapshot again: no staging *)
        destruct (k_snap (rows_of sc (c_kv c))) as [mf|] eqn:Eks.
        2:{ cbn in Hs. unfold r_sidx in Heq. rewrite Hs in Heq. cbn in Heq. lia. }
        cbn in Hs. destruct Hs as (Hp & Hi & Ht & Hcf & Hsz & Hsum & Hid & Hfile).
        destruct (snap_eqb_fields _ _ Hsm) as (Hi' & Ht' & Hcf' & Hd').
        unfold r_sidx in Heq.
        replace (s_idx s <? mf_idx mf) with false by lia.
        replace (mf_idx mf <? s_idx s) with false by lia.
        assert (Hcmp : negb (s_term s =? mf_term mf) || negb (conf_eqb (s_conf s) (mf_conf mf))
                       || negb (blen (s_data s) =? mf_size mf) || negb (s_sum s =? mf_sum mf) = false).
        { assert (Hls : (blen (s_data s) =? blen (s_data (r_snap r))) && (s_sum s =? s_sum (r_snap r)) = true).
          { unfold r_sidx in Hcoll. rewrite Hi', Ht', Hcf', !N.eqb_refl, conf_eqb_refl in Hcoll.
            cbn [andb negb orb] in Hcoll. apply eqb_prop in Hcoll. rewrite <- Hcoll. rewrite Hd'. apply bytes_eqb_refl. }
          apply andb_true_iff in Hls. destruct Hls as [Hl Hsu].
          rewrite Ht, Hcf, Hsz, Hsum, Ht', Hcf', N.eqb_refl, conf_eqb_refl, Hl, Hsu. reflexivity. }
        rewrite Hcmp.
        exists c. eexists. split; [reflexivity|]. split; [reflexivity|]. split; [reflexivity|].
        split; [apply files_ext_refl|].
        exists mf. split; [reflexivity|]. split; [|intros _; exact Eks].
        rewrite Hr'snap. unfold spec_snap. unfold r_sidx. replace (s_idx (r_snap r) <? s_idx s) with false by lia.
        cbn [fst]. cbn. repeat split; assumption.
      * (* a newer snapshot: staged under a fresh id and published *)
        assert (Hext : (if (s_idx s =? 0) || (s_term s =? 0) then @Err (cstate * wsave) errOther
                        else Ok (CS (c_kv c) (c_cache c) ((c_next c, s_data s) :: c_files c) (c_next c + 1),
                                 WSv hs (filterEntriesAfterSnapshot ents (s_idx s)) (Some (smeta_of s))
                                     (Some (MF (s_idx s) (s_term s) (s_conf s) (blen (s_data s)) (s_sum s) (c_next c)))))
                       = Ok (CS (c_kv c) (c_cache c) ((c_next c, s_data s) :: c_files c) (c_next c + 1),
                             WSv hs (filterEntriesAfterSnapshot ents (s_idx s)) (Some (smeta_of s))
                                 (Some (MF (s_idx s) (s_term s) (s_conf s) (blen (s_data s)) (s_sum s) (c_next c))))).
        { replace (s_idx s =? 0) with false by lia. replace (s_term s =? 0) with false by lia. reflexivity. }
        assert (Hgoal : exists c' sv,
                   Ok (CS (c_kv c) (c_cache c) ((c_next c, s_data s) :: c_files c) (c_next c + 1),
                       WSv hs (filterEntriesAfterSnapshot ents (s_idx s)) (Some (smeta_of s))
                           (Some (MF (s_idx s) (s_term s) (s_conf s) (blen (s_data s)) (s_sum s) (c_next c))))
                   = Ok (c', sv)
                   /\ c_kv c' = c_kv c /\ c_cache c' = c_cache c
                   /\ files_ext (c_files c) (c_next c) (c_files c') (c_next c')
                   /\ plan_ok (c_files c') (c_next c') (rows_of sc (c_kv c)) r r' hs ents (Some s) sv).
        { eexists. eexists. split; [reflexivity|]. cbn [c_kv c_cache c_files c_next].
          split; [reflexivity|]. split; [reflexivity|].
          split; [right; exists (s_data s); split; reflexivity|].
          eexists. split; [reflexivity|]. split; [|intro; lia].
          rewrite Hr'snap. unfold spec_snap. replace (r_sidx r <? s_idx s) with true by lia. cbn [fst].
          cbn. rewrite N.eqb_refl. repeat split; try reflexivity; lia. }
        destruct (k_snap (rows_of sc (c_kv c))) as [mf|] eqn:Eks.
        -- cbn in Hs. destruct Hs as (Hp & Hi & _). unfold r_sidx in Hgt.
           replace (s_idx s <? mf_idx mf) with false by lia.
           replace (mf_idx mf <? s_idx s) with true by lia.
           rewrite Hext. exact Hgoal.
        -- rewrite Hext. exact Hgoal.
    + exists c. eexists. split; [reflexivity|]. split; [reflexivity|]. split; [reflexivity|].
      split; [apply files_ext_refl|]. split; [reflexivity|exact Hs].
  - (* refused *)
    destruct (ref_save_rej r hs ents snap e Href) as (s & -> & Hcase).
    pose proof Hinv as (Hh & Hc & He & Hs & Hm).
    unfold plan_save. rewrite (validate_ok _ _ _ _ Hwf Hinv). cbn [negb].
    pose proof Hv as Hv'. unfold req_valid in Hv'. rewrite Href in Hv'.
    apply andb_true_iff in Hv'. destruct Hv' as [Hv' _].
    apply andb_true_iff in Hv'. destruct Hv' as [_ Hsn].
    unfold snapshot_ok in Hsn.
    apply andb_true_iff in Hsn. destruct Hsn as [Hsn Hcoll].
    apply andb_true_iff in Hsn. destruct Hsn as [Hsn Hcok].
    apply andb_true_iff in Hsn. destruct Hsn as [Hsn Htpos].
    apply andb_true_iff in Hsn. destruct Hsn as [Hipos Himax].
    destruct (k_snap (rows_of sc (c_kv c))) as [mf|] eqn:Eks.
    2:{ cbn in Hs. unfold r_sidx in Hcase. rewrite Hs in Hcase. cbn in Hcase.
        destruct Hcase as [[? _]|[? _]]; lia. }
    cbn in Hs. destruct Hs as (Hp & Hi & Ht & Hcf & Hsz & Hsum & Hid & Hfile).
    unfold r_sidx in Hcase. destruct Hcase as [[Hlt ->]|(Heq & Hns & ->)].
    + replace (s_idx s <? mf_idx mf) with true by lia. reflexivity.
    + replace (s_idx s <? mf_idx mf) with false by lia.
      replace (mf_idx mf <? s_idx s) with false by lia.
      assert (Hcmp : negb (s_term s =? mf_term mf) || negb (conf_eqb (s_conf s) (mf_conf mf))
                     || negb (blen (s_data s) =? mf_size mf) || negb (s_sum s =? mf_sum mf) = true).
      { rewrite Ht, Hcf, Hsz, Hsum.
        unfold same_snapshot, snap_eqb in Hns. unfold r_sidx in Hcoll.
        replace (s_idx s =? s_idx (r_snap r)) with true in * by lia. cbn [andb] in Hns, Hcoll.
        destruct (s_term s =? s_term (r_snap r)); [|reflexivity].
        destruct (conf_eqb (s_conf s) (s_conf (r_snap r))); [|reflexivity].
        cbn [andb negb orb] in Hns, Hcoll. rewrite Hns in Hcoll. apply eqb_prop in Hcoll.
        cbn [negb orb].
        destruct (blen (s_data s) =? blen (s_data (r_snap r))); [|reflexivity].
        cbn [andb] in Hcoll. rewrite <- Hcoll. reflexivity. }
      rewrite Hcmp. reflexivity.
Qed.

(* ---- reads *)

Lemma ensureMeta_sim files next rw r cs :
  wf r -> RowsInv files next rw r -> ref_conf r = Some cs ->
  ensureMeta rw = Ok (canon_meta r cs,
                      RW (k_hs rw) (k_applied rw) (k_cfg rw) (k_snap rw) (Some (canon_meta r cs)) (k_ents rw))
  /\ RowsInv files next (RW (k_hs rw) (k_applied rw) (k_cfg rw) (k_snap rw) (Some (canon_meta r cs)) (k_ents rw)) r
  /\ (k_meta rw <> None -> k_meta rw = Some (canon_meta r cs)).
Proof.
  intros Hwf Hinv Hcs. pose proof Hinv as (Hh & Hc & He & Hs & Hm).
  unfold ensureMeta, currentMeta. rewrite (validate_ok _ _ _ _ Hwf Hinv). cbn [negb].
  destruct (k_meta rw) as [m|] eqn:Ekm.
  - destruct Hm as (cs' & Hcs' & ->). rewrite Hcs in Hcs'. inversion Hcs'; subst cs'.
    split; [|split; [|intros _; reflexivity]].
    + f_equal. f_equal. destruct rw; cbn in *. rewrite Ekm. reflexivity.
    + unfold RowsInv. cbn [k_hs k_cfg k_ents k_snap k_meta k_applied].
      split; [exact Hh|]. split; [exact Hc|]. split; [exact He|]. split; [exact Hs|].
      exists cs. split; [assumption|reflexivity].
  - destruct Hm as (Hp & Ha). pose proof Hp as (Hh0 & Ha0 & Hs0 & He0).
    rewrite (ref_conf_pristine r Hp) in Hcs. inversion Hcs; subst cs.
    rewrite loadEntries_00, He, He0, Ha.
    assert (Hcm : canon_meta r [] = M 1 0 0 0 0 []).
    { unfold canon_meta, r_last, r_sidx. rewrite Hs0, He0, Ha0. reflexivity. }
    rewrite Hcm. split; [reflexivity|]. split; [|intro H; congruence].
    unfold RowsInv. cbn [k_hs k_cfg k_ents k_snap k_meta k_applied].
    split; [exact Hh|]. split; [exact Hc|]. split; [first [exact He | symmetry; exact He0 | congruence]|]. split; [exact Hs|].
    exists []. split; [apply ref_conf_pristine; assumption|]. symmetry. exact Hcm.
Qed.

Lemma loadSnapshot_sim c sc r :
  wf r -> RowsInv (c_files c) (c_next c) (rows_of sc (c_kv c)) r ->
  exists s, loadSnapshot c sc = Some s /\ snap_eqb s (r_snap r) = true /\ s = r_snap r.
Proof.
  intros Hwf Hinv. pose proof Hinv as (Hh & Hc & He & Hs & Hm).
  unfold loadSnapshot. rewrite (validate_ok _ _ _ _ Hwf Hinv). cbn [negb].
  destruct (k_snap (rows_of sc (c_kv c))) as [mf|].
  - cbn in Hs. destruct Hs as (Hp & Hi & Ht & Hcf & Hsz & Hsum & Hid & Hfile).
    rewrite Hfile, Hsz, N.eqb_refl, Hi, Ht, Hcf, Hsum.
    exists (r_snap r). destruct (r_snap r); cbn. split; [reflexivity|]. split; [apply snap_eqb_refl|reflexivity].
  - cbn in Hs. exists snap0. rewrite Hs. split; [reflexivity|]. split; reflexivity.
Qed.

Lemma aget_aset_same {A} k (v : A) l : aget k (aset k v l) = Some v.
Proof.
  induction l as [|[k' v'] l IH]; cbn [aset aget].
  - rewrite N.eqb_refl. reflexivity.
  - destruct (k' =? k) eqn:E; cbn [aget].
    + rewrite N.eqb_refl. reflexivity.
    + rewrite E. exact IH.
Qed.

Lemma aget_aset_other {A} k k' (v : A) l : k' <> k -> aget k' (aset k v l) = aget k' l.
Proof.
  intro Hne. induction l as [|[k2 v2] l IH]; cbn [aset aget].
  - replace (k =? k') with false by lia. reflexivity.
  - destruct (k2 =? k) eqn:E; cbn [aget].
    + replace (k =? k') with false by lia. replace (k2 =? k') with false by lia. reflexivity.
    + destruct (k2 =? k'); [reflexivity|exact IH].
Qed.

Lemma rows_of_aset_same k v kv : rows_of k (aset k v kv) = v.
Proof. unfold rows_of. rewrite aget_aset_same. reflexivity. Qed.
Lemma rows_of_aset_other k k' v kv : k' <> k -> rows_of k' (aset k v kv) = rows_of k' kv.
Proof. intro H. unfold rows_of. rewrite aget_aset_other by assumption. reflexivity. Qed.

(* the full observation of a scope equals the reference's *)
Lemma observe_sim c sc r cs :
  wf r -> RowsInv (c_files c) (c_next c) (rows_of sc (c_kv c)) r -> ref_conf r = Some cs ->
  exists c' rw',
    observe c sc = (c', ref_observe r)
    /\ c_files c' = c_files c /\ c_next c' = c_next c /\ c_cache c' = c_cache c
    /\ (c_kv c' = c_kv c \/ c_kv c' = aset sc rw' (c_kv c))
    /\ rows_of sc (c_kv c') = rw'
    /\ RowsInv (c_files c) (c_next c) rw' r
    /\ k_snap rw' = k_snap (rows_of sc (c_kv c)).
Proof.
  intros Hwf Hinv Hcs. pose proof Hinv as (Hh & Hc & He & Hs & Hm).
  destruct (ensureMeta_sim _ _ _ _ _ Hwf Hinv Hcs) as (Hem & Hinv' & Hsame).
  unfold observe. rewrite Hem.
  set (rw := rows_of sc (c_kv c)) in *.
  set (rw' := RW (k_hs rw) (k_applied rw) (k_cfg rw) (k_snap rw) (Some (canon_meta r cs)) (k_ents rw)) in *.
  set (c' := match k_meta rw with Some _ => c | None => set_rows c sc rw' end).
  assert (Hrows' : rows_of sc (c_kv c') = rw' /\ (c_kv c' = c_kv c \/ c_kv c' = aset sc rw' (c_kv c))
                   /\ c_files c' = c_files c /\ c_next c' = c_next c /\ c_cache c' = c_cache c).
  { subst c'. destruct (k_meta rw) as [m|] eqn:Ekm.
    - split; [|split; [left; reflexivity|repeat split]].
      fold rw. subst rw'. rewrite <- (Hsame ltac:(discriminate)). destruct rw; cbn in *. rewrite Ekm. reflexivity.
    - unfold set_rows. cbn [c_kv c_files c_next c_cache]. split; [apply rows_of_aset_same|].
      split; [right; reflexivity|repeat split]. }
  destruct Hrows' as (Hr' & Hkv & Hf & Hn & Hca).
  assert (Hinv'' : RowsInv (c_files c') (c_next c') (rows_of sc (c_kv c')) r) by (rewrite Hf, Hn, Hr'; exact Hinv').
  destruct (loadSnapshot_sim c' sc r Hwf Hinv'') as (s & Hls & _ & ->).
  rewrite Hls. exists c', rw'. split.
  { f_equal. unfold ref_observe. rewrite Hcs. f_equal. subst rw. rewrite loadEntries_00.
    unfold canon_meta. cbn [m_conf m_applied m_first m_last]. rewrite Hh, Hc, He. reflexivity. }
  repeat split; try assumption; apply Hinv'.
Qed.

(* ---- Entries / Term of the durable store against the reference *)

Lemma pebble_entries_eq c sc r lo hi mx :
  RowsInv (c_files c) (c_next c) (rows_of sc (c_kv c)) r ->
  pebble_entries c sc lo hi mx = limit_size mx (filter (fun e => in_window lo hi (e_idx e)) (r_ents r)).
Proof.
  intros (_ & _ & He & _). unfold pebble_entries, loadEntries. rewrite He. reflexivity.
Qed.

(* whatever window is asked for, the durable store only returns reference entries
   inside the window, as one contiguous run *)
Lemma window_limit_safe r lo hi mx :
  wf r ->
  entries_safe r lo hi (limit_size mx (filter (fun e => in_window lo hi (e_idx e)) (r_ents r))) = true.
Proof.
  intros (Hc & _). unfold entries_safe.
  destruct (limit_size_prefix mx (filter (fun e => in_window lo hi (e_idx e)) (r_ents r))) as [k Hk].
  rewrite Hk. set (a := r_sidx r + 1) in *.
  rewrite (filter_window a (r_ents r) lo hi Hc).
  set (l := firstn k (firstn _ (skipn _ (r_ents r)))).
  assert (Hin : forall e, In e l -> In e (r_ents r) /\ in_window lo hi (e_idx e) = true).
  { intros e He. subst l. apply firstn_In in He.
    rewrite <- (filter_window a (r_ents r) lo hi Hc) in He. apply filter_In in He. exact He. }
  apply andb_true_iff. split.
  - apply forallb_forall. intros e He. destruct (Hin e He) as [Hm Hw].
    unfold in_window in Hw. rewrite Hw. cbn [andb].
    unfold ref_entry_at. pose proof (contig_in _ _ _ Hc Hm) as Hb. subst a.
    replace (r_sidx r <? e_idx e) with true by lia.
    replace (N.to_nat (e_idx e - r_sidx r - 1)) with (N.to_nat (e_idx e - (r_sidx r + 1))) by lia.
    rewrite (contig_in_nth _ _ _ Hc Hm). apply entry_eqb_refl.
  - assert (Hcl : exists b, contiguous_from b l = true).
    { subst l.
      destruct (Nat.le_gt_cases (N.to_nat (lo - a)) (length (r_ents r))) as [Hle|Hgt].
      - eexists. apply contig_firstn. apply contig_firstn. apply contig_skipn; [exact Hc|exact Hle].
      - exists 0. rewrite skipn_all2 by lia. rewrite firstn_nil, firstn_nil. reflexivity. }
    destruct Hcl as [b Hb]. apply (contig_head b). exact Hb.
Qed.

Lemma ref_entries_window r lo hi mx :
  wf r -> r_first r <= lo -> lo <= hi -> hi <= r_last r + 1 ->
  limit_size mx (filter (fun e => in_window lo hi (e_idx e)) (r_ents r)) = ref_entries r lo hi mx.
Proof.
  intros (Hc & _) H1 H2 H3. unfold ref_entries, r_first, r_last in *.
  rewrite (filter_window (r_sidx r + 1) (r_ents r) lo hi Hc).
  f_equal.
  replace (N.to_nat (lo - (r_sidx r + 1))) with (N.to_nat (lo - r_sidx r - 1)) by lia.
  destruct (hi =? 0) eqn:Hz; [lia|].
  replace (N.max lo (r_sidx r + 1)) with lo by lia. reflexivity.
Qed.

Lemma judge_entries_pebble c sc r lo hi mx :
  wf r -> RowsInv (c_files c) (c_next c) (rows_of sc (c_kv c)) r ->
  judge_entries lo hi mx (pebble_entries c sc lo hi mx) r = true.
Proof.
  intros Hwf Hinv. rewrite (pebble_entries_eq c sc r lo hi mx Hinv). unfold judge_entries.
  destruct ((r_first r <=? lo) && (lo <=? hi) && (hi <=? r_last r + 1)) eqn:E.
  - rewrite (ref_entries_window r lo hi mx Hwf) by lia. apply entries_eqb_refl.
  - apply window_limit_safe. exact Hwf.
Qed.

Lemma pebble_term_sim c sc r cs i :
  wf r -> RowsInv (c_files c) (c_next c) (rows_of sc (c_kv c)) r -> ref_conf r = Some cs ->
  exists c' rw' t,
    pebble_term c sc i = (c', Some t)
    /\ judge_term i t r = true
    /\ c_files c' = c_files c /\ c_next c' = c_next c /\ c_cache c' = c_cache c
    /\ (c_kv c' = c_kv c \/ c_kv c' = aset sc rw' (c_kv c))
    /\ rows_of sc (c_kv c') = rw'
    /\ RowsInv (c_files c) (c_next c) rw' r
    /\ k_snap rw' = k_snap (rows_of sc (c_kv c)).
Proof.
  intros Hwf Hinv Hcs. pose proof Hinv as (Hh & Hc & He & Hs & Hm).
  pose proof Hwf as (Hcont & _).
  unfold pebble_term. set (rw := rows_of sc (c_kv c)) in *. rewrite He.
  rewrite (row_get_contig (r_sidx r + 1) (r_ents r) i Hcont).
  destruct ((r_sidx r + 1 <=? i) && (i <? r_sidx r + 1 + len (r_ents r))) eqn:Ein.
  - (* an entry row *)
    assert (Hlt : (N.to_nat (i - (r_sidx r + 1)) < length (r_ents r))%nat) by (unfold len in *; lia).
    destruct (nth_error (r_ents r) (N.to_nat (i - (r_sidx r + 1)))) as [e|] eqn:En.
    2:{ apply nth_error_None in En. lia. }
    exists c, rw, (e_term e). split; [reflexivity|]. split.
    { unfold judge_term, r_term. replace (i <? r_sidx r) with false by lia.
      replace (i =? r_sidx r) with false by lia.
      replace (N.to_nat (i - r_sidx r - 1)) with (N.to_nat (i - (r_sidx r + 1))) by lia.
      rewrite En. apply N.eqb_refl. }
    repeat split; try reflexivity; try assumption. left. reflexivity.
  - destruct (i =? 0) eqn:Ei0.
    + exists c, rw, 0. split; [reflexivity|]. split.
      { unfold judge_term, r_term. assert (i = 0) by lia. subst i.
        destruct (0 <? r_sidx r) eqn:E1; [reflexivity|].
        replace (0 =? r_sidx r) with true by lia.
        destruct Hwf as (_ & _ & _ & Hz & _). rewrite (Hz ltac:(lia)). reflexivity. }
      repeat split; try reflexivity; try assumption. left. reflexivity.
    + destruct (ensureMeta_sim _ _ _ _ _ Hwf Hinv Hcs) as (Hem & Hinv' & Hsame).
      rewrite Hem.
      set (rw' := RW (k_hs rw) (k_applied rw) (k_cfg rw) (k_snap rw) (Some (canon_meta r cs)) (k_ents rw)) in *.
      set (c' := match k_meta rw with Some _ => c | None => set_rows c sc rw' end).
      exists c', rw'. eexists. split; [reflexivity|].
      split.
      { unfold canon_meta. cbn [m_sidx m_sterm]. unfold judge_term, r_term.
        destruct (i <? r_sidx r) eqn:E1.
        - replace (r_sidx r =? i) with false by lia. reflexivity.
        - destruct (i =? r_sidx r) eqn:E2.
          + replace (r_sidx r =? i) with true by lia. apply N.eqb_refl.
          + replace (r_sidx r =? i) with false by lia.
            destruct (nth_error (r_ents r) (N.to_nat (i - r_sidx r - 1))) eqn:En; [|reflexivity].
            assert (N.to_nat (i - r_sidx r - 1) < length (r_ents r))%nat
              by (apply nth_error_Some; rewrite En; discriminate).
            unfold len in *. lia. }
      subst c'. destruct (k_meta rw) as [m|] eqn:Ekm.
      * assert (Hrw : rw' = rw).
        { subst rw'. rewrite <- (Hsame ltac:(discriminate)). destruct rw; cbn in *. rewrite Ekm. reflexivity. }
        repeat split; try reflexivity; try assumption.
        -- left. reflexivity.
        -- fold rw. symmetry. exact Hrw.
        -- apply Hinv'.
      * unfold set_rows. cbn [c_kv c_files c_next c_cache].
        repeat split; try reflexivity; try assumption.
        -- right. reflexivity.
        -- apply rows_of_aset_same.
        -- apply Hinv'.
Qed.
