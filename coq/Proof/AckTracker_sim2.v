(* Proof/AckTracker_sim2.v — SessionClosed, Expire: bulk removals *)
From WK Require Import Base.Base Gen.Consts_C32 Model.AckTracker.
From WK Require Import Proof.AckTracker_map Proof.AckTracker_entry Proof.AckTracker_index Proof.AckTracker_inv
     Proof.AckTracker_sim.
From Coq Require Import Permutation.
Open Scope N_scope.

Lemma keys_nodup_spec ks : keys_nodup ks = true <-> NoDup ks.
Proof.
  induction ks as [|k r IH]; simpl; [split; [constructor|reflexivity]|].
  rewrite andb_true_iff, negb_true_iff, IH. split.
  - intros [H1 H2]. constructor; [|exact H2]. intro H.
    assert (X : existsb (key_eqb k) r = true).
    { apply existsb_exists. exists k. split; [exact H|apply key_eqb_spec; reflexivity]. }
    congruence.
  - intro H. inversion H as [|? ? Hn H2]. subst. split; [|exact H2].
    destruct (existsb (key_eqb k) r) eqn:E; [|reflexivity].
    apply existsb_exists in E. destruct E as [x [E1 E2]]. apply key_eqb_spec in E2. subst x. contradiction.
Qed.

Lemma existsb_key_in k ks : existsb (key_eqb k) ks = true <-> In k ks.
Proof.
  rewrite existsb_exists. split.
  - intros [x [H1 H2]]. apply key_eqb_spec in H2. subst. exact H1.
  - intro H. exists k. split; [exact H|apply key_eqb_spec; reflexivity].
Qed.

Lemma filter_none {A} (f : A -> bool) l : (forall x, In x l -> f x = false) -> filter f l = [].
Proof.
  induction l as [|a l IH]; simpl; [reflexivity|]. intro H.
  rewrite (H a) by (left; reflexivity). apply IH. intros x Hx. apply H. right. exact Hx.
Qed.

Lemma filter_partition_length {A} (f : A -> bool) l :
  (length (filter f l) + length (filter (fun x => negb (f x)) l) = length l)%nat.
Proof. induction l as [|a l IH]; simpl; [reflexivity|]. destruct (f a); simpl; lia. Qed.

Lemma flat_map_ext_in {A B} (f g : A -> list B) l :
  (forall a, In a l -> f a = g a) -> flat_map f l = flat_map g l.
Proof.
  induction l as [|a l IH]; simpl; [reflexivity|]. intro H.
  rewrite (H a) by (left; reflexivity). f_equal. apply IH. intros x Hx. apply H. right. exact Hx.
Qed.

(* filtering the specification state by a predicate on keys *)
Lemma rel_filter bm bm' s (f : key -> bool) :
  Rel bm s -> (forall k, kget k bm' = if f k then kget k bm else None) ->
  Rel bm' (filter (fun ke => f (fst ke)) s).
Proof.
  intros R H. constructor.
  - apply al_filter_nodup. apply (rel_nodup _ _ R).
  - intros k e G. rewrite H in G. destruct (f k) eqn:F; [|discriminate].
    destruct (rel_some _ _ R _ _ G) as [se [G1 G2]]. exists se. split; [|exact G2].
    rewrite (k_get_filter _ _ _ (rel_nodup _ _ R)). rewrite G1. simpl. rewrite F. reflexivity.
  - intros k G. rewrite (k_get_filter _ _ _ (rel_nodup _ _ R)).
    destruct (kget k s) eqn:G1; [|reflexivity]. simpl.
    destruct (f k) eqn:F; [|reflexivity]. rewrite H, F in G.
    rewrite (rel_none _ _ R _ G) in G1. discriminate.
Qed.

(* ---- SessionClosed ------------------------------------------------------------------------- *)
Lemma close_loop_spec u sid mids :
  NoDup mids -> forall bm, NoDup (al_keys bm) ->
  let '(bm', ps) := close_loop bm u sid mids in
  NoDup (al_keys bm')
  /\ (forall k, kget k bm' = if skey_eqb (key_skey k) (u, sid) && mem_mid (key_mid k) mids then None else kget k bm)
  /\ ps = flat_map (fun m => match kget (u, sid, m) bm with Some e => [e_pending e] | None => [] end) mids
  /\ (length bm' + length ps = length bm)%nat.
Proof.
  induction mids as [|m r IH]; intros ND bm NB.
  - simpl. split; [exact NB|]. split; [|split; [reflexivity|lia]].
    intro k. rewrite andb_false_r. reflexivity.
  - inversion ND as [|? ? Hn ND']. subst. cbn [close_loop].
    assert (CASE : forall k : key, k <> (u, sid, m) ->
              skey_eqb (key_skey k) (u, sid) && mem_mid (key_mid k) (m :: r)
              = skey_eqb (key_skey k) (u, sid) && mem_mid (key_mid k) r).
    { intros [[ku ks] km] Hk. unfold mem_mid. simpl.
      destruct ((ku =? u) && (ks =? sid)) eqn:E1; [|reflexivity]. simpl.
      destruct (km =? m) eqn:E2; [|reflexivity]. exfalso. apply Hk.
      apply andb_true_iff in E1. destruct E1 as [E1 E3]. apply N.eqb_eq in E1, E2, E3. subst. reflexivity. }
    assert (SELF : skey_eqb (key_skey (u, sid, m)) (u, sid) && mem_mid (key_mid (u, sid, m)) (m :: r) = true).
    { unfold mem_mid. simpl. rewrite !N.eqb_refl. reflexivity. }
    destruct (kget (u, sid, m) bm) as [e|] eqn:G.
    + specialize (IH ND' (al_del key_eqb (u, sid, m) bm) (k_del_nodup _ _ NB)).
      destruct (close_loop (al_del key_eqb (u, sid, m) bm) u sid r) as [bm' ps].
      destruct IH as [I1 [I2 [I3 I4]]]. split; [exact I1|]. split; [|split].
      * intro k. rewrite I2. destruct (key_eq_dec k (u, sid, m)) as [E|E].
        -- subst k. rewrite SELF, k_get_del_same.
           destruct (skey_eqb (key_skey (u, sid, m)) (u, sid) && mem_mid (key_mid (u, sid, m)) r); reflexivity.
        -- rewrite (CASE k E). rewrite k_get_del_other by congruence. reflexivity.
      * rewrite I3. cbn [flat_map]. rewrite G. cbn [app]. f_equal. apply flat_map_ext_in. intros a Ha.
        rewrite k_get_del_other; [reflexivity|]. intro X. inversion X. subst a. contradiction.
      * simpl. pose proof (k_del_length _ _ _ NB G). lia.
    + specialize (IH ND' bm NB). destruct (close_loop bm u sid r) as [bm' ps].
      destruct IH as [I1 [I2 [I3 I4]]]. split; [exact I1|]. split; [|split; [rewrite I3; cbn [flat_map]; rewrite G; reflexivity|exact I4]].
      intro k. rewrite I2. destruct (key_eq_dec k (u, sid, m)) as [E|E].
      * subst k. rewrite SELF, G.
        destruct (skey_eqb (key_skey (u, sid, m)) (u, sid) && mem_mid (key_mid (u, sid, m)) r); reflexivity.
      * rewrite (CASE k E). reflexivity.
Qed.

Lemma key_skey_eq (k : key) u sid : key_skey k = (u, sid) -> k = (u, sid, key_mid k).
Proof. destruct k as [[ku ks] km]. simpl. intro H. inversion H. reflexivity. Qed.

Lemma skey_eqb_refl sk : skey_eqb sk sk = true.
Proof. apply skey_eqb_spec. reflexivity. Qed.

(* a session without stored identities: nothing to remove *)
Lemma close_nothing t s u sid now :
  Sim t s -> (forall k e, kget k (t_byMessage t) = Some e -> key_skey k <> (u, sid)) ->
  exists s', spec_step s now (OClose u sid) (RList []) = Some (s', now) /\ Sim t s'.
Proof.
  intros [I R] H. unfold spec_step.
  assert (M : filter (fun ke : key * sentry => skey_eqb (key_skey (fst ke)) (u, sid)) s = []).
  { apply filter_none. intros [k se] Hin. simpl.
    destruct (skey_eqb (key_skey k) (u, sid)) eqn:E; [|reflexivity]. apply skey_eqb_spec in E.
    pose proof (k_in_get _ _ _ (rel_nodup _ _ R) Hin) as G.
    destruct (kget k (t_byMessage t)) eqn:G2.
    - exfalso. apply (H _ _ G2). exact E.
    - rewrite (rel_none _ _ R _ G2) in G. discriminate. }
  rewrite M. simpl. eexists. split; [reflexivity|]. split; [exact I|].
  apply (rel_filter (t_byMessage t) (t_byMessage t) s (fun k => negb (skey_eqb (key_skey k) (u, sid)))); [exact R|].
  intro k. destruct (skey_eqb (key_skey k) (u, sid)) eqn:E; [|reflexivity]. simpl.
  apply skey_eqb_spec in E. destruct (kget k (t_byMessage t)) eqn:G; [|reflexivity].
  exfalso. apply (H _ _ G). exact E.
Qed.

Lemma SessionClosed_sim t s u sid now :
  Sim t s ->
  let '(t', r) := SessionClosed t u sid in
  exists s', spec_step s now (OClose u sid) r = Some (s', now) /\ Sim t' s'
  /\ t_next t' = t_next t /\ t_limit t' = t_limit t /\ t_shards t' = t_shards t.
Proof.
  intros S. pose proof S as [I R]. unfold SessionClosed.
  destruct ((u =? 0) || (sid =? 0)) eqn:C.
  { destruct (close_nothing t s u sid now S) as [s' [H1 H2]].
    - intros k e G X. destruct (inv_entries t I _ _ G) as [_ KV].
      destruct k as [[ku ks] km]. simpl in X. inversion X. subst. destruct KV as [K1 [K2 _]].
      apply N.eqb_neq in K1, K2. rewrite K1, K2 in C. discriminate.
    - exists s'. split; [exact H1|]. split; [exact H2|]. repeat split; reflexivity. }
  destruct (sget (u, sid) (t_bySession t)) as [mids|] eqn:GS.
  2:{ destruct (close_nothing t s u sid now S) as [s' [H1 H2]].
    - intros k e G X. apply key_skey_eq in X.
      assert (HK : has_key (t_byMessage t) (u, sid, key_mid k)) by (unfold has_key; rewrite <- X, G; discriminate).
      apply (si_proj _ _ (inv_index t I)) in HK. destruct HK as [ms [HK _]]. congruence.
    - exists s'. split; [exact H1|]. split; [exact H2|]. repeat split; reflexivity. }
  destruct (si_rows _ _ (inv_index t I) _ _ GS) as [NE NDm].
  destruct mids as [|m0 r0]; [contradiction|]. set (mids := m0 :: r0) in *.
  pose proof (close_loop_spec u sid mids NDm (t_byMessage t) (inv_nodup t I)) as CL.
  destruct (close_loop (t_byMessage t) u sid mids) as [bm' ps]. destruct CL as [C1 [C2 [C3 C4]]].
  (* every indexed message is stored *)
  assert (ALL : forall m, In m mids -> exists e, kget (u, sid, m) (t_byMessage t) = Some e).
  { intros m Hm. assert (HK : has_key (t_byMessage t) (u, sid, m)).
    { apply (si_proj _ _ (inv_index t I)). exists mids. split; [exact GS|exact Hm]. }
    unfold has_key in HK. destruct (kget (u, sid, m) (t_byMessage t)); [eexists; reflexivity|contradiction]. }
  assert (NOT : forall m, ~ In m mids -> kget (u, sid, m) (t_byMessage t) = None).
  { intros m Hm. destruct (kget (u, sid, m) (t_byMessage t)) eqn:G; [|reflexivity]. exfalso. apply Hm.
    assert (HK : has_key (t_byMessage t) (u, sid, m)) by (unfold has_key; rewrite G; discriminate).
    apply (si_proj _ _ (inv_index t I)) in HK. destruct HK as [ms [H1 H2]]. congruence. }
  assert (KS : map key_of ps = map (fun m => (u, sid, m)) mids).
  { rewrite C3. clear C3 C4. generalize ALL. generalize mids. induction mids0 as [|m r IH]; intro A; [reflexivity|].
    simpl. destruct (A m (or_introl eq_refl)) as [e G]. rewrite G. simpl. f_equal.
    - destruct (inv_entries t I _ _ G) as [[_ _ K _] _]. apply K. left. reflexivity.
    - apply IH. intros x Hx. apply A. right. exact Hx. }
  assert (LEN : length ps = length mids).
  { rewrite <- (map_length key_of ps), KS, map_length. reflexivity. }
  assert (GET' : forall k, kget k bm' = if negb (skey_eqb (key_skey k) (u, sid)) then kget k (t_byMessage t) else None).
  { intro k. rewrite C2. destruct (skey_eqb (key_skey k) (u, sid)) eqn:E; [|reflexivity]. cbn [andb negb].
    destruct (mem_mid (key_mid k) mids) eqn:M; [reflexivity|].
    apply skey_eqb_spec in E. apply key_skey_eq in E. rewrite E. apply NOT.
    intro X. apply mem_mid_in in X. congruence. }
  set (mine := filter (fun ke : key * sentry => skey_eqb (key_skey (fst ke)) (u, sid)) s).
  assert (MG : forall m, In m mids -> spec_has mine (u, sid, m) = true).
  { intros m Hm. unfold spec_has, mine. rewrite (k_get_filter _ _ _ (rel_nodup _ _ R)).
    destruct (ALL m Hm) as [e G]. destruct (rel_some _ _ R _ _ G) as [se [G1 _]]. rewrite G1.
    simpl. rewrite !N.eqb_refl. reflexivity. }
  assert (ML : length mine = length mids).
  { transitivity (length (al_keys mine)); [unfold al_keys; rewrite map_length; reflexivity|].
    rewrite <- (map_length (fun m => (u, sid, m)) mids).
    apply nodup_same_length.
    - apply al_filter_nodup. apply (rel_nodup _ _ R).
    - apply FinFun.Injective_map_NoDup; [|exact NDm]. intros a b X. inversion X. reflexivity.
    - intro k. split.
      + intro Hk. unfold al_keys in Hk. apply in_map_iff in Hk. destruct Hk as [[k0 se] [E1 E2]]. simpl in E1. subst k0.
        apply filter_In in E2. destruct E2 as [E2 E3]. simpl in E3. apply skey_eqb_spec in E3.
        apply key_skey_eq in E3. rewrite E3. apply in_map.
        destruct (in_dec N.eq_dec (key_mid k) mids) as [Y|Y]; [exact Y|exfalso].
        apply NOT in Y. rewrite <- E3 in Y. apply (rel_none _ _ R) in Y.
        rewrite (k_in_get _ _ _ (rel_nodup _ _ R) E2) in Y. discriminate.
      + intro Hk. apply in_map_iff in Hk. destruct Hk as [m [E1 E2]]. subst k.
        specialize (MG m E2). unfold spec_has in MG.
        destruct (kget (u, sid, m) mine) eqn:G; [apply (k_get_some_key _ _ _ G)|discriminate]. }
  exists (filter (fun ke : key * sentry => negb (skey_eqb (key_skey (fst ke)) (u, sid))) s).
  split; [|split; [|repeat split; reflexivity]].
  - unfold spec_step. cbv zeta. fold mine. rewrite KS.
    assert (X1 : keys_nodup (map (fun m => (u, sid, m)) mids) = true).
    { apply keys_nodup_spec. apply FinFun.Injective_map_NoDup; [|exact NDm]. intros a b X. inversion X. reflexivity. }
    assert (X2 : Nat.eqb (length (map (fun m => (u, sid, m)) mids)) (length mine) = true).
    { apply Nat.eqb_eq. rewrite map_length, ML. reflexivity. }
    assert (X3 : forallb (fun k => spec_has mine k) (map (fun m => (u, sid, m)) mids) = true).
    { apply forallb_forall. intros k Hk. apply in_map_iff in Hk. destruct Hk as [m [E1 E2]]. subst k. apply MG. exact E2. }
    match goal with |- (if ?c then _ else _) = _ => assert (HC : c = true) end.
    { rewrite !andb_true_iff. split; [split|]; [exact X1|exact X2|exact X3]. }
    rewrite HC. reflexivity.
  - split.
    + constructor; proj.
      * exact C1.
      * rewrite (inv_count t I). lia.
      * constructor.
        -- apply s_del_nodup. apply (si_nodup _ _ (inv_index t I)).
        -- intros sk ms. destruct (skey_eq_dec (u, sid) sk) as [E|E].
           ++ subst sk. rewrite s_get_del_same. discriminate.
           ++ rewrite s_get_del_other by exact E. apply (si_rows _ _ (inv_index t I)).
        -- intros u' s' m'. unfold has_key. rewrite GET'. simpl key_skey.
           destruct (skey_eq_dec (u, sid) (u', s')) as [E|E].
           ++ inversion E. subst u' s'. rewrite s_get_del_same, skey_eqb_refl. simpl. split.
              ** intros [ms [X _]]. discriminate.
              ** intro X. contradiction.
           ++ rewrite s_get_del_other by exact E.
              assert (F : skey_eqb (u', s') (u, sid) = false).
              { destruct (skey_eqb (u', s') (u, sid)) eqn:F; [|reflexivity]. apply skey_eqb_spec in F. congruence. }
              rewrite F. simpl. apply (si_proj _ _ (inv_index t I)).
      * intros k e G. rewrite GET' in G. destruct (negb _); [|discriminate]. apply (inv_entries t I _ _ G).
      * intros LP sk ms G. destruct (skey_eq_dec (u, sid) sk) as [E|E].
        -- subst sk. rewrite s_get_del_same in G. discriminate.
        -- rewrite s_get_del_other in G by exact E. apply (inv_limit t I LP _ _ G).
    + proj. apply (rel_filter (t_byMessage t) bm' s (fun k => negb (skey_eqb (key_skey k) (u, sid)))); [exact R|exact GET'].
Qed.
