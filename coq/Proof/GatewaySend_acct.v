(* Proof/GatewaySend_acct.v — accounting invariant of the sendExecutor transition
   system: the admission WaitGroup counts exactly the SENDs between the
   admission gate and their completeAdmission; a non-empty shard queue always
   has a scheduled drain; the drain / close flags are ordered
   (mailbox closed -> drained -> admission closed and nothing admitted). *)
From WK Require Import Base.Base Model.GatewaySend Proof.GatewaySend_lib Proof.GatewaySend_split.
Open Scope N_scope.

Definition wk_items (p : wpc) : list task :=
  match p with
  | WCollect i | WConsumeShard i | WConsume i => i
  | WDisp _ cur _ rest | WErr _ _ cur rest => cur ++ concat rest
  | _ => []
  end.

(* admissions held by a drain worker *)
Definition whold (p : wpc) : N :=
  match p with
  | WCollect i | WConsumeShard i | WConsume i => len i
  | WDisp n _ _ _ | WErr n _ _ _ => n
  | WComplete r => r
  | _ => 0
  end.

(* admission held by a submitter *)
Definition shold (p : spc) : N :=
  match p with
  | SReserve _ _ _ | SReserveShard _ _ _ | SEnqueue _ _ _
  | SUndoShard _ _ _ | SUndoQueue _ _ _ | SUndoAdm _ _ _ => 1
  | _ => 0
  end.

Definition pipe (st : state) (k : nat) : list task := wk_items (wpcs st k) ++ mbox st k.

Definition cfg_ok (c : cfg) : Prop := (0 < c_shards c)%nat.

Lemma shard_lt c s : cfg_ok c -> (shard_of c s < c_shards c)%nat.
Proof. intro H. unfold shard_of. apply Nat.mod_upper_bound. unfold cfg_ok in H. lia. Qed.

(* [step] = tick, then the event *)
Definition stepT (c : cfg) (st : state) (e : ev) : state :=
  match e with
  | ESend s b =>
      match spcs st s with
      | SIdle =>
          if (s <? c_nsess c)%nat && negb (sclosed st s)
          then set_spc s (SGate (nextq st s) b (now st)) (set_nextq (upd (nextq st) s (nextq st s + 1)) st)
          else st
      | _ => st
      end
  | ESub s => if (s <? c_nsess c)%nat then sub_step c s st else st
  | EWork k ch => if (k <? c_shards c)%nat then work_step c k ch st else st
  | EDrainCall d stop =>
      match dpcs st d with DIdle => set_dpc d (DSet (now st) stop) st | _ => st end
  | EDrain d timeout => drain_step d timeout st
  | EWaiter =>
      if dstarted st && negb (drained st) && (admitted st =? 0) then set_drained true st else st
  | ECloser =>
      if cstarted st && drained st && negb (mclosed st)
      then set_shq (fun _ => 0) (set_queued 0 (set_mclosed true st)) else st
  | EClose s => if (s <? c_nsess c)%nat then set_sclosed (upd (sclosed st) s true) st else st
  | EPush s w tag =>
      if (s <? c_nsess c)%nat && negb (w =? 0) then
        if sclosed st s then set_issues (issues st ++ [HIssue s w tag (now st) (now st) false]) st
        else set_issues (issues st ++ [HIssue s w tag (now st) (now st) true])
               (set_wire (wire st ++ [HWire s w tag (now st)]) st)
      else st
  end.

Definition tick (st : state) : state := set_now (now st + 1) st.

Lemma step_eq c st e : step c st e = stepT c (tick st) e.
Proof. reflexivity. Qed.

(* projections through setters *)
Ltac sp :=
  cbn [now closed admitted queued shq mbox mclosed dstarted drained cstarted spcs wpcs dpcs
       nextq sclosed sends disps drains issues wire
       set_now set_closed set_admitted set_queued set_shq set_mbox set_mclosed set_dstarted
       set_drained set_cstarted set_spcs set_wpcs set_dpcs set_nextq set_sclosed set_sends
       set_disps set_drains set_issues set_wire set_spc set_wpc set_dpc tick
       advance drop_items drain_return] in *.

Record Acct (c : cfg) (st : state) : Prop := {
  a_sp : forall s, (c_nsess c <= s)%nat -> spcs st s = SIdle;
  a_wp : forall k, (c_shards c <= k)%nat -> wpcs st k = WIdle /\ mbox st k = [];
  a_adm : admitted st = sumf (fun s => shold (spcs st s)) (c_nsess c)
                        + sumf (fun k => len (mbox st k) + whold (wpcs st k)) (c_shards c);
  a_hold : forall k, len (wk_items (wpcs st k)) <= whold (wpcs st k);
  a_sched : forall k, mbox st k <> [] -> wpcs st k <> WIdle;
  a_drained : drained st = true -> dstarted st = true /\ admitted st = 0;
  a_dstarted : dstarted st = true -> closed st = true;
  a_mclosed : mclosed st = true -> drained st = true;
  a_dpc : closed st = false -> forall d, match dpcs st d with DIdle | DSet _ _ => True | _ => False end }.

Lemma sumf_const0 n : sumf (fun _ => 0) n = 0.
Proof. induction n; cbn [sumf]; lia. Qed.

Lemma acct_init c : Acct c init.
Proof.
  constructor; cbn; intros; try discriminate; try (split; reflexivity); try reflexivity;
    try congruence; try exact I; try lia.
  rewrite !sumf_const0. reflexivity.
Qed.

Lemma acct_tick c st : Acct c st -> Acct c (tick st).
Proof. intros [? ? ? ? ? ? ? ? ?]. constructor; assumption. Qed.

(* when nothing is admitted every queue and every worker is empty *)
Lemma acct_zero c st k : Acct c st -> admitted st = 0 -> mbox st k = [] /\ wk_items (wpcs st k) = [].
Proof.
  intros A H0. destruct (Nat.lt_ge_cases k (c_shards c)) as [Hk|Hk].
  - pose proof (a_adm c st A) as Ha. rewrite H0 in Ha.
    assert (Hz : sumf (fun k => len (mbox st k) + whold (wpcs st k)) (c_shards c) = 0) by lia.
    pose proof (sumf_zero _ _ Hz k Hk) as Hk0. cbn beta in Hk0.
    pose proof (a_hold c st A k) as Hh.
    split; apply len_zero; lia.
  - destruct (a_wp c st A k Hk) as [H1 H2]. rewrite H1, H2. split; reflexivity.
Qed.

Lemma acct_zero_sub c st s : Acct c st -> admitted st = 0 -> shold (spcs st s) = 0.
Proof.
  intros A H0. destruct (Nat.lt_ge_cases s (c_nsess c)) as [Hs|Hs].
  - pose proof (a_adm c st A) as Ha. rewrite H0 in Ha.
    assert (Hz : sumf (fun s => shold (spcs st s)) (c_nsess c) = 0) by lia.
    exact (sumf_zero _ _ Hz s Hs).
  - rewrite (a_sp c st A s Hs). reflexivity.
Qed.

(* ---- sums under a single-thread update ---------------------------------------------- *)

Lemma sum_sp_upd (f : nat -> spc) n s p :
  (s < n)%nat ->
  sumf (fun i => shold (upd f s p i)) n + shold (f s) = sumf (fun i => shold (f i)) n + shold p.
Proof.
  intro Hs.
  pose proof (sumf_change (fun i => shold (f i)) (fun i => shold (upd f s p i)) n s Hs
                (fun i Hi => f_equal shold (upd_other f s p i Hi))) as H.
  cbn beta in H. rewrite upd_same in H. exact H.
Qed.

Lemma sum_wk_upd (m : nat -> list task) (w : nat -> wpc) n k mv p :
  (k < n)%nat ->
  sumf (fun i => len (upd m k mv i) + whold (upd w k p i)) n + (len (m k) + whold (w k))
  = sumf (fun i => len (m i) + whold (w i)) n + (len mv + whold p).
Proof.
  intro Hk.
  pose proof (sumf_change (fun i => len (m i) + whold (w i))
                (fun i => len (upd m k mv i) + whold (upd w k p i)) n k Hk) as H.
  cbn beta in H. rewrite !upd_same in H. apply H.
  intros i Hi. rewrite !upd_other by exact Hi. reflexivity.
Qed.

Lemma sum_wk_upd_w (m : nat -> list task) (w : nat -> wpc) n k p :
  (k < n)%nat ->
  sumf (fun i => len (m i) + whold (upd w k p i)) n + whold (w k)
  = sumf (fun i => len (m i) + whold (w i)) n + whold p.
Proof.
  intro Hk.
  pose proof (sumf_change (fun i => len (m i) + whold (w i))
                (fun i => len (m i) + whold (upd w k p i)) n k Hk) as H.
  cbn beta in H. rewrite !upd_same in H.
  assert (forall i, i <> k -> len (m i) + whold (upd w k p i) = len (m i) + whold (w i)) as Hx
      by (intros i Hi; rewrite upd_other by exact Hi; reflexivity).
  specialize (H Hx). lia.
Qed.

Ltac ltb_hyp :=
  repeat match goal with
  | H : (_ <? _)%nat = true |- _ => apply Nat.ltb_lt in H
  | H : (_ <? _)%nat = false |- _ => apply Nat.ltb_ge in H
  | H : (_ <=? _)%nat = true |- _ => apply Nat.leb_le in H
  | H : (_ <=? _)%nat = false |- _ => apply Nat.leb_gt in H
  | H : (_ <=? _) = true |- _ => apply N.leb_le in H
  | H : (_ <=? _) = false |- _ => apply N.leb_gt in H
  | H : (_ =? _) = true |- _ => apply N.eqb_eq in H
  | H : (_ =? _) = false |- _ => apply N.eqb_neq in H
  | H : _ && _ = true |- _ => apply andb_true_iff in H; destruct H
  | H : negb _ = true |- _ => apply negb_true_iff in H
  end.

(* a field quantified over thread indexes, after one [upd] *)
Ltac by_index i k := destruct (Nat.eq_dec i k) as [->|?]; rewrite ?upd_same, ?upd_other by assumption.

Lemma acct_send c st s b : Acct c st -> Acct c (stepT c st (ESend s b)).
Proof.
  intros A. cbn [stepT]. destruct (spcs st s) eqn:Hpc; try exact A.
  destruct ((s <? c_nsess c)%nat && negb (sclosed st s)) eqn:Hc; [|exact A].
  ltb_hyp. destruct A. constructor; sp; try assumption.
  - intros s' Hs'. by_index s' s; [lia|auto].
  - pose proof (sum_sp_upd (spcs st) (c_nsess c) s (SGate (nextq st s) b (now st)) ltac:(assumption)) as Hs.
    rewrite Hpc in Hs. cbn [shold] in Hs. lia.
Qed.

Lemma sum_wk_upd_m (m : nat -> list task) (w : nat -> wpc) n k mv :
  (k < n)%nat ->
  sumf (fun i => len (upd m k mv i) + whold (w i)) n + len (m k)
  = sumf (fun i => len (m i) + whold (w i)) n + len mv.
Proof.
  intro Hk.
  pose proof (sumf_change (fun i => len (m i) + whold (w i))
                (fun i => len (upd m k mv i) + whold (w i)) n k Hk) as H.
  cbn beta in H. rewrite !upd_same in H.
  assert (forall i, i <> k -> len (upd m k mv i) + whold (w i) = len (m i) + whold (w i)) as Hx
      by (intros i Hi; rewrite upd_other by exact Hi; reflexivity).
  specialize (H Hx). lia.
Qed.

Ltac pose_sums :=
  try match goal with
  | |- context [sumf (fun i => shold (upd ?f ?s ?p i)) ?n] =>
      pose proof (sum_sp_upd f n s p ltac:(assumption))
  end;
  try match goal with
  | |- context [sumf (fun i => len (upd ?m ?k ?mv i) + whold (upd ?w ?k ?p i)) ?n] =>
      pose proof (sum_wk_upd m w n k mv p ltac:(assumption))
  end;
  try match goal with
  | |- context [sumf (fun i => len (@?m i) + whold (upd ?w ?k ?p i)) ?n] =>
      pose proof (sum_wk_upd_w m w n k p ltac:(assumption))
  end;
  try match goal with
  | |- context [sumf (fun i => len (upd ?m ?k ?mv i) + whold (@?w i)) ?n] =>
      pose proof (sum_wk_upd_m m w n k mv ltac:(assumption))
  end.

Ltac idx_goal :=
  let i := fresh "i" in intro i;
  match goal with
  | |- context [upd _ ?k _ i] => by_index i k
  end.

Ltac use_pcs :=
  repeat match goal with
  | H : spcs _ _ = _ |- _ => rewrite H in *
  | H : wpcs _ _ = _ |- _ => rewrite H in *
  | H : mbox _ _ = _ |- _ => rewrite H in *
  end.

Lemma len_nil_t : len (@nil task) = 0.
Proof. reflexivity. Qed.
Lemma len_cons_t (x : task) l : len (x :: l) = len l + 1.
Proof. apply len_cons. Qed.
Lemma len_app_t (a b : list task) : len (a ++ b) = len a + len b.
Proof. apply len_app. Qed.

Ltac lens := rewrite ?len_app_t, ?len_cons_t, ?len_nil_t in *.

(* the thread at the updated index is in range: the out-of-range fields *)
Ltac f_range := idx_goal; [intros; exfalso; lia | auto].
Ltac f_hold :=
  try match goal with
      | Hh : forall k, len (wk_items (wpcs ?st k)) <= whold (wpcs ?st k), Hw : wpcs ?st ?k = _ |- _ =>
          let H := fresh in pose proof (Hh k) as H; rewrite Hw in H; cbn [wk_items whold] in H
      end;
  idx_goal; [cbn [wk_items whold]; cbn [app concat] in *; lens; try lia | auto].
Ltac f_sched := idx_goal; [intros; use_pcs; try discriminate; try congruence | auto].
Ltac f_sum := pose_sums; use_pcs; cbn [shold whold] in *; lens; lia.

Ltac f_drained :=
  let Hd := fresh "Hd" in intro Hd;
  match goal with H : drained _ = true -> _ |- _ => destruct (H Hd) end; split; [assumption|lia].

Ltac acct_fields :=
  sp; try assumption; try solve [f_range]; try solve [f_sum]; try solve [f_hold]; try solve [f_sched];
  try solve [f_drained].

Lemma acct_sub c st s : cfg_ok c -> (s < c_nsess c)%nat -> Acct c st -> Acct c (sub_step c s st).
Proof.
  intros Hc Hs A. unfold sub_step.
  pose proof (shard_lt c s Hc) as Hk. set (k := shard_of c s) in *.
  destruct (spcs st s) eqn:Hpc; try exact A.
  - (* SGate *) destruct (closed st) eqn:Hcl; destruct A; constructor; acct_fields.
    intro Hd. destruct (a_drained0 Hd) as [Hd1 _]. rewrite (a_dstarted0 Hd1) in Hcl. discriminate.
  - (* SReserve *) destruct (c_cap c <=? queued st); destruct A; constructor; acct_fields.
  - (* SReserveShard *) destruct (c_shardcap c <=? shq st k); destruct A; constructor; acct_fields.
  - (* SEnqueue *) destruct (mclosed st || (c_shardcap c <=? len (mbox st k))) eqn:Hfull.
    + destruct A; constructor; acct_fields.
    + destruct (wpcs st k) eqn:Hw; cbn [is_widle]; destruct A; constructor; acct_fields.
  - destruct A; constructor; acct_fields.
  - destruct A; constructor; acct_fields.
  - destruct A; constructor; acct_fields.
  - destruct A; constructor; acct_fields.
Qed.

Lemma acct_advance c st k n rest :
  (k < c_shards c)%nat -> Acct c st ->
  (exists cur curall, wpcs st k = WDisp n cur curall rest) \/ (exists tc cur, wpcs st k = WErr n tc cur rest) ->
  Acct c (advance k n rest st).
Proof.
  intros Hk A Hw. unfold advance.
  assert (Hlen : len (concat rest) <= n /\ whold (wpcs st k) = n).
  { pose proof (a_hold c st A k) as Hh.
    destruct Hw as [[cur [ca Hw]]|[tc [cur Hw]]]; rewrite Hw in Hh; cbn [wk_items whold] in Hh;
      rewrite len_app in Hh; rewrite Hw; cbn [whold]; split; try reflexivity; lia. }
  destruct Hlen as [Hlen Hwh].
  destruct rest as [|b rest']; destruct A; constructor; acct_fields.
Qed.

(* logging handled items does not touch the accounting *)
Lemma acct_drop c st items : Acct c st -> Acct c (drop_items items st).
Proof. intros [? ? ? ? ? ? ? ? ?]. constructor; sp; assumption. Qed.

Lemma acct_work c st k ch : cfg_ok c -> (k < c_shards c)%nat -> Acct c st -> Acct c (work_step c k ch st).
Proof.
  intros Hc Hk A. unfold work_step.
  destruct (wpcs st k) eqn:Hw; try exact A.
  - (* WPending *) destruct A; constructor; acct_fields.
  - (* WNext *) destruct (mbox st k) eqn:Hm; destruct A; constructor; acct_fields.
  - (* WCollect *)
    destruct (eff_maxrec (c_maxrec c) <=? length items)%nat.
    + destruct A; constructor; acct_fields.
    + destruct ch; destruct (mbox st k) eqn:Hm; try exact A; destruct A; constructor; acct_fields.
  - (* WConsumeShard *) destruct A; constructor; acct_fields.
  - (* WConsume *)
    pose proof (units_concat c t_b items) as Hcat. unfold advance.
    destruct (units c t_b items) as [|b0 rest] eqn:Hu; destruct A; constructor; acct_fields.
    idx_goal; [cbn [wk_items whold]; change (b0 ++ concat rest) with (concat (b0 :: rest)); rewrite Hcat; lia | auto].
  - (* WDisp *)
    assert (Hadv : forall st', Acct c st' -> wpcs st' k = wpcs st k -> Acct c (advance k n rest st')).
    { intros st' A' Hw'. apply acct_advance; [exact Hk | exact A' |]. left. rewrite Hw', Hw. eauto. }
    assert (Hack : forall x cur', cur = x :: cur' ->
              Acct c (set_wpc k (WDisp n cur' curall rest)
                (drop_items [x] (if sclosed st (t_s x) then st
                   else set_wire (wire st ++ [HWire (t_s x) 0 (t_q x) (now st)]) st)))).
    { intros x cur' ->. pose proof (a_hold c st A k) as Hh. rewrite Hw in Hh. cbn [wk_items whold] in Hh.
      cbn [app] in Hh. lens.
      destruct (sclosed st (t_s x)); destruct A; constructor; acct_fields;
        (idx_goal; [cbn [wk_items whold]; lens; lia | auto]). }
    assert (Hdef : Acct c match cur with
                          | [] => advance k n rest st
                          | x :: cur' => set_wpc k (WDisp n cur' curall rest)
                              (drop_items [x] (if sclosed st (t_s x) then st
                                 else set_wire (wire st ++ [HWire (t_s x) 0 (t_q x) (now st)]) st))
                          end).
    { destruct cur as [|x cur']; [apply Hadv; [exact A | reflexivity] | apply Hack; reflexivity]. }
    destruct ch; try exact Hdef.
    + (* CFail *) destruct A; constructor; acct_fields.
    + (* CPanic *) apply Hadv; [apply acct_drop; exact A | reflexivity].
  - (* WErr *)
    destruct toclose as [|s0 tc].
    + apply acct_advance; [exact Hk | apply acct_drop; exact A |]. right. sp. rewrite Hw. eauto.
    + destruct A; constructor; acct_fields.
  - (* WComplete *)
    destruct (r =? 0) eqn:Hr; ltb_hyp; destruct A; constructor; acct_fields.
  - (* WFinish *)
    destruct (mbox st k) eqn:Hm.
    + destruct A; constructor; acct_fields.
    + destruct (mclosed st) eqn:Hmc.
      * exfalso. destruct (acct_zero c st k A) as [Hz _].
        { apply (a_drained c st A). apply (a_mclosed c st A). exact Hmc. }
        rewrite Hz in Hm. discriminate.
      * destruct A; constructor; acct_fields.
Qed.

Ltac f_dpc :=
  let Hc := fresh in let d := fresh "d" in
  intros Hc d;
  match goal with
  | |- context [upd _ ?k _ d] => by_index d k
  | _ => idtac
  end;
  try exact I; try discriminate;
  match goal with H : closed _ = false -> forall d, _ |- _ => apply (H Hc) end.

Lemma acct_drain c st d timeout : Acct c st -> Acct c (drain_step d timeout st).
Proof.
  intros A. unfold drain_step. destruct (dpcs st d) eqn:Hd; try exact A.
  - (* DSet *) destruct A; constructor; acct_fields.
  - (* DOnce *)
    assert (Hcl : closed st = true).
    { destruct (closed st) eqn:E; [reflexivity|]. pose proof (a_dpc c st A E d) as H. rewrite Hd in H. contradiction. }
    destruct A; constructor; acct_fields.
    + intro Hx. split; [reflexivity | apply a_drained0; exact Hx].
    + intros _. exact Hcl.
    + intros Hc; rewrite Hcl in Hc; discriminate.
  - (* DWait *)
    assert (Hcl : closed st = true).
    { destruct (closed st) eqn:E; [reflexivity|]. pose proof (a_dpc c st A E d) as H. rewrite Hd in H. contradiction. }
    assert (Hret : forall ok, Acct c (drain_return d t0 stop ok st)).
    { intro ok. unfold drain_return. destruct stop; destruct A; constructor; acct_fields;
        intros Hc; rewrite Hcl in Hc; discriminate. }
    destruct (drained st); [apply Hret|]. destruct timeout; [apply Hret|exact A].
Qed.

Lemma acct_stepT c st e : cfg_ok c -> Acct c st -> Acct c (stepT c st e).
Proof.
  intros Hc A. destruct e; cbn [stepT].
  - apply acct_send. exact A.
  - destruct (s <? c_nsess c)%nat eqn:Hs; [|exact A]. ltb_hyp. apply acct_sub; assumption.
  - destruct (k <? c_shards c)%nat eqn:Hk; [|exact A]. ltb_hyp. apply acct_work; assumption.
  - (* EDrainCall *) destruct (dpcs st d) eqn:Hd; try exact A.
    destruct A; constructor; acct_fields. f_dpc.
  - apply acct_drain. exact A.
  - (* EWaiter *) destruct (dstarted st && negb (drained st) && (admitted st =? 0)) eqn:Hw; [|exact A].
    ltb_hyp. destruct A; constructor; acct_fields. intros _. split; assumption.
  - (* ECloser *) destruct (cstarted st && drained st && negb (mclosed st)) eqn:Hw; [|exact A].
    ltb_hyp. destruct A; constructor; acct_fields. intros _. assumption.
  - (* EClose *) destruct (s <? c_nsess c)%nat; [|exact A]. destruct A; constructor; acct_fields.
  - (* EPush *) destruct ((s <? c_nsess c)%nat && negb (w =? 0)); [|exact A].
    destruct (sclosed st s); destruct A; constructor; acct_fields.
Qed.

Lemma acct_step c st e : cfg_ok c -> Acct c st -> Acct c (step c st e).
Proof. intros Hc A. rewrite step_eq. apply acct_stepT; [exact Hc|]. apply acct_tick. exact A. Qed.

Lemma acct_run c evs : cfg_ok c -> Acct c (run c evs).
Proof.
  intro Hc. unfold run. rewrite <- fold_left_rev_right.
  induction (rev evs) as [|e l IH]; cbn [fold_right]; [apply acct_init|].
  apply acct_step; assumption.
Qed.
