(* Proof/Wire_monitor.v — the C26 (a) monitor accepts every case the Wire model produces. *)
From WK Require Import Base.Base Base.Bytes Gen.Consts_C26 Model.Wire Model.C26Case Proof.Wire.
Open Scope N_scope.

Lemma bytes_eqb_refl (a : bytes) : bytes_eqb a a = true.
Proof. apply bytes_eqb_eq. reflexivity. Qed.

Lemma werr_eqb_refl e : werr_eqb e e = true.
Proof. destruct e; reflexivity. Qed.

Lemma header_eqb_refl h : header_eqb h h = true.
Proof. unfold header_eqb. rewrite !N.eqb_refl. reflexivity. Qed.

Lemma hb_eqb_refl x : hb_eqb x x = true.
Proof. unfold hb_eqb. rewrite header_eqb_refl, bytes_eqb_refl. reflexivity. Qed.

Lemma wres_eqb_refl {A} (eqb : A -> A -> bool) (R : forall x, eqb x x = true) r : wres_eqb eqb r r = true.
Proof. destruct r; cbn [wres_eqb]; [apply R|apply werr_eqb_refl]. Qed.

Lemma list_eqb_refl {A} (eqb : A -> A -> bool) (R : forall x, eqb x x = true) l : list_eqb eqb l l = true.
Proof. induction l as [|x l IH]; [reflexivity|]. cbn [list_eqb]. rewrite R, IH. reflexivity. Qed.

(* DecodeHeader on arbitrary bytes *)
Lemma mon_dec_model enc max : all_bytes enc = true ->
  mon_dec enc max (decode_header enc max) (reenc_of (decode_header enc max)) = true.
Proof.
  intro A. unfold mon_dec. destruct (hdr_malformed enc max) eqn:M.
  - destruct (malformed_rejected enc max M) as (e & E & _). rewrite E. reflexivity.
  - destruct (wellformed_accepted enc max M) as (h & E). rewrite E. cbn [reenc_of].
    rewrite <- (decode_ok_is_encoding enc max h A E).
    unfold obytes_eqb. cbn [option_eqb]. apply bytes_eqb_refl.
Qed.

(* EncodeHeader then DecodeHeader *)
Lemma mon_enc_model h max : header_in_domain h = true ->
  mon_enc h max (encode_header h) (decode_header (encode_header h) max) = true.
Proof.
  intro D. unfold mon_enc. rewrite encode_header_length, Nat.eqb_refl. cbn [andb].
  rewrite <- (app_nil_r (encode_header h)).
  destruct (header_ok h max) eqn:O.
  - rewrite header_roundtrip by exact O. cbn [wres_eqb]. apply header_eqb_refl.
  - destruct (header_not_ok_rejected h [] max D O) as (e & E & _). rewrite E. reflexivity.
Qed.

(* ReadFrame *)
Lemma firstn_firstn_same n (l : bytes) : firstn n (firstn n l) = firstn n l.
Proof. rewrite firstn_firstn, Nat.min_id. reflexivity. Qed.

Lemma mon_read_model stream max : all_bytes stream = true ->
  let o := read_frame stream max in
  mon_read stream max (ro_res o) (ro_consumed o) (ro_beyond o) (ro_alloc_over o)
           (reenc_of_hb (ro_res o)) = true.
Proof.
  intro A. cbv zeta. unfold mon_read.
  destruct (ro_res (read_frame stream max)) as [[h body]|e] eqn:R.
  - (* accepted *)
    unfold read_frame in *. destruct stream as [|b0 s]; [discriminate|].
    cbv iota beta in *. remember (b0 :: s) as st eqn:Hst. clear Hst.
    destruct (Nat.ltb (length st) header_size) eqn:L; [discriminate|].
    destruct (decode_header (firstn header_size st) max) as [h'|e'] eqn:D; [|discriminate].
    pose proof (decode_ok_wellformed _ _ _ D) as M.
    pose proof (decode_ok_is_encoding _ _ _ (all_bytes_firstn _ _ A) D) as EN.
    rewrite firstn_firstn_same in EN.
    assert (B : body_exceeds_max (h_bodylen h') max = false).
    { pose proof D as D2. rewrite decode_spec, M in D2.
      unfold hdr_malformed in M. rewrite !orb_false_iff in M. destruct M as [_ M].
      inversion D2. cbn [h_bodylen]. exact M. }
    unfold body_len_to_int in *. destruct (IntMax <? h_bodylen h'); [discriminate|].
    destruct (h_bodylen h' =? 0) eqn:Z0.
    + cbn [ro_res ro_consumed] in *. inversion R; subst h' body. clear R.
      apply N.eqb_eq in Z0. rewrite M, B, Z0. cbn [negb andb reenc_of_hb length N.of_nat].
      rewrite EN. unfold obytes_eqb. cbn [option_eqb]. rewrite bytes_eqb_refl.
      cbn [N.to_nat]. unfold slice. cbn [firstn bytes_eqb list_eqb andb].
      rewrite N.add_0_r, !N.eqb_refl. reflexivity.
    + destruct (Nat.ltb (length (skipn header_size st)) (N.to_nat (h_bodylen h'))) eqn:L2; [discriminate|].
      cbn [ro_res ro_consumed] in *. inversion R; subst h' body. clear R.
      rewrite M, B. cbn [negb andb reenc_of_hb]. rewrite EN.
      unfold obytes_eqb. cbn [option_eqb]. rewrite bytes_eqb_refl. unfold slice. rewrite bytes_eqb_refl.
      cbn [andb]. apply Nat.ltb_ge in L2. rewrite firstn_length_le by exact L2.
      rewrite N2Nat.id, !N.eqb_refl. reflexivity.
  - (* error *)
    apply andb_true_iff. split.
    + destruct (validation_error e) eqn:V; [|reflexivity].
      destruct (read_validation_error stream max e R V) as [AL C].
      unfold ro_beyond, ro_alloc_over. rewrite AL, C. rewrite N.leb_refl. reflexivity.
    + destruct (Nat.leb header_size (length stream)) eqn:L; [|reflexivity].
      destruct (hdr_malformed (firstn header_size stream) max) eqn:M; [|reflexivity].
      cbn [andb]. apply Nat.leb_le in L.
      destruct (malformed_rejected _ _ M) as (e' & E & V).
      rewrite (read_rejected stream max e' L E) in R |- *. cbn [ro_res ro_consumed] in *.
      inversion R; subst e'. rewrite V, N.eqb_refl. reflexivity.
Qed.

(* WriteFrames then ReadFrame *)
Lemma frame_ok_domain max f : frame_ok max f = true -> frame_in_domain f = true.
Proof.
  unfold frame_ok, header_ok, header_in_domain, frame_in_domain, with_bodylen.
  cbn [h_kind h_prio h_service h_reqid h_bodylen]. rewrite !andb_true_iff. tauto.
Qed.

Lemma frame_ok_append max f : frame_ok max f = true -> exists b, append_frame f max = WOk b.
Proof.
  intro O. unfold frame_ok in O. pose proof O as O2. apply header_ok_validate in O2. destruct O2 as [D V].
  pose proof (validate_none_not_exceeds _ _ V) as B. cbn [with_bodylen h_bodylen] in B.
  apply in_domain_inv in D. cbn [with_bodylen h_bodylen] in D. destruct D as (_ & _ & _ & _ & Db).
  unfold append_frame.
  assert (E1 : (max <? Z.of_nat (length (f_body f)))%Z = false).
  { unfold body_exceeds_max in B. destruct (max <? 0)%Z; [discriminate|].
    rewrite nat_N_Z in B. exact B. }
  rewrite E1.
  assert (E2 : u32max <? N.of_nat (length (f_body f)) = false).
  { apply N.ltb_ge. unfold u32max. lia. }
  rewrite E2, V. eexists. reflexivity.
Qed.

Lemma frame_not_ok_append max f : frame_in_domain f = true -> frame_ok max f = false ->
  exists e, append_frame f max = WErr e.
Proof.
  intros D O. unfold append_frame.
  destruct (max <? Z.of_nat (length (f_body f)))%Z; [eexists; reflexivity|].
  destruct (u32max <? N.of_nat (length (f_body f))) eqn:U; [eexists; reflexivity|].
  apply N.ltb_ge in U. pose proof (frame_hdr_domain f D U) as HD.
  destruct (validate_not_ok _ max HD O) as (e & V & _). rewrite V. eexists. reflexivity.
Qed.

Lemma write_frames_ok max fs : forallb (frame_ok max) fs = true -> exists b, write_frames fs max = WOk b.
Proof.
  induction fs as [|f fs IH]; intro H; [eexists; reflexivity|].
  cbn [forallb] in H. apply andb_true_iff in H. destruct H as [Hf Hfs].
  destruct (frame_ok_append max f Hf) as (b & E). destruct (IH Hfs) as (br & Er).
  cbn [write_frames]. rewrite E, Er. eexists. reflexivity.
Qed.

Lemma write_frames_err max fs : forallb frame_in_domain fs = true -> forallb (frame_ok max) fs = false ->
  exists e, write_frames fs max = WErr e.
Proof.
  induction fs as [|f fs IH]; intros D H; [discriminate|].
  cbn [forallb] in D, H. apply andb_true_iff in D. destruct D as [Df Dfs].
  cbn [write_frames]. destruct (frame_ok max f) eqn:O.
  - cbn [andb] in H. destruct (IH Dfs H) as (e & E). rewrite E.
    destruct (append_frame f max); eexists; reflexivity.
  - destruct (frame_not_ok_append max f Df O) as (e & E). rewrite E. eexists. reflexivity.
Qed.

Lemma forallb_impl {A} (p q : A -> bool) l : (forall x, p x = true -> q x = true) ->
  forallb p l = true -> forallb q l = true.
Proof.
  intros I. induction l as [|x l IH]; [reflexivity|]. cbn [forallb]. rewrite !andb_true_iff.
  intros [H1 H2]. split; [apply I, H1|apply IH, H2].
Qed.

Lemma mon_write_model fs max : forallb frame_in_domain fs = true ->
  mon_write fs max (write_frames fs max)
    (match write_frames fs max with WOk b => read_frames (length fs) b max | WErr _ => [] end) = true.
Proof.
  intro D. unfold mon_write. destruct (forallb (frame_ok max) fs) eqn:O.
  - destruct (write_frames_ok max fs O) as (b & E). rewrite E.
    rewrite <- (app_nil_r b). rewrite (write_read_roundtrip fs max b [] D E).
    apply list_eqb_refl. intro x. apply wres_eqb_refl. apply hb_eqb_refl.
  - destruct (write_frames_err max fs D O) as (e & E). rewrite E. reflexivity.
Qed.
