(* Proof/Delivery_sys.v — the runtime as a transition system (Model/Delivery_sys):
   for EVERY interleaving of producers, admission close, and the one worker per
   shard, the port calls of two plans of one shard happen in the order the
   plans were accepted, and never interleave. *)
From WK Require Import Base.Base Gen.Consts_C31 Model.Delivery Model.Delivery_C31 Model.Delivery_sys
     Proof.Delivery_queue Proof.Delivery_queue_pop.
From Coq Require Import Sorted.
Open Scope N_scope.

Section SysProof.
Variable X : Type.
Variables cap shards : nat.
Hypothesis Hcap : (0 < cap)%nat.
Hypothesis Hsh : (0 < shards)%nat.

Notation entry := (N * nat * plan * X * N)%type.

(* newest first: older entries have smaller times, and (same shard) stamps that are not larger *)
Fixpoint LogOk (l : list entry) : Prop :=
  match l with
  | [] => True
  | e :: r => LogOk r /\ forall e', In e' r ->
               le_time X e' < le_time X e
               /\ (le_shard X e' = le_shard X e -> le_stamp X e' <= le_stamp X e)
  end.

Record SInv (st : sys X) : Prop := {
  si_q : exists fl sl, QInv (s_q X st) fl sl /\ length sl = shards
           /\ forall s, (s < shards)%nat ->
                Forall2 (fun a p => In (a, s, p) (s_acc X st))
                        (nth s (s_gh X st) []) (nth s (abs (s_q X st) sl) []);
  si_len_gh : length (s_gh X st) = shards;
  si_len_work : length (s_work X st) = shards;
  si_sorted : forall s, StronglySorted N.lt (nth s (s_gh X st) []);
  si_gh_now : forall s x, In x (nth s (s_gh X st) []) -> x <= s_now X st;
  si_acc : forall a s p, In (a, s, p) (s_acc X st) ->
             s = plan_shard shards p /\ a <= s_now X st /\ (s < shards)%nat;
  si_work : forall s w, nth s (s_work X st) None = Some w ->
       In (w_stamp X w, s, w_plan X w) (s_acc X st)
       /\ (forall x, In x (nth s (s_gh X st) []) -> w_stamp X w < x)
       /\ (forall e, In e (s_log X st) -> le_shard X e = s -> le_stamp X e <= w_stamp X w);
  si_idle : forall s, nth s (s_work X st) None = None ->
       forall e x, In e (s_log X st) -> le_shard X e = s -> In x (nth s (s_gh X st) []) -> le_stamp X e < x;
  si_log : LogOk (s_log X st);
  si_log_t : forall e, In e (s_log X st) ->
       le_time X e <= s_now X st /\ le_stamp X e < le_time X e
       /\ In (le_stamp X e, le_shard X e, le_plan X e) (s_acc X st);
  si_acc_nodup : NoDup (map (fun x : N * nat * plan => fst (fst x)) (s_acc X st)) }.

Lemma sorted_snoc (l : list N) (x : N) :
  StronglySorted N.lt l -> (forall y, In y l -> y < x) -> StronglySorted N.lt (l ++ [x]).
Proof.
  induction l as [|a l IH]; intros S H; simpl.
  - constructor; constructor.
  - inversion S as [|? ? S' F]; subst. constructor.
    + apply IH; [exact S'| intros y Hy; apply H; right; exact Hy].
    + apply Forall_app. split; [exact F|]. constructor; [apply H; left; reflexivity| constructor].
Qed.

Lemma forall2_mono {A B} (P Q : A -> B -> Prop) (la : list A) (lb : list B) :
  (forall a b, P a b -> Q a b) -> Forall2 P la lb -> Forall2 Q la lb.
Proof. intros H F. induction F; constructor; auto. Qed.

Lemma nth_nil_any {A} (s : nat) : nth s (@nil (list A)) [] = [].
Proof. destruct s; reflexivity. Qed.

Lemma init_inv : SInv (sys_init X cap shards).
Proof.
  constructor; cbn [sys_init s_q s_gh s_closed s_work s_now s_acc s_log].
  - exists (seq 0 cap), (repeat [] shards). split; [apply newq_inv; assumption|].
    split; [apply repeat_length|]. intros s Hs. rewrite newq_abs, !nth_repeat by exact Hs. constructor.
  - apply repeat_length.
  - apply repeat_length.
  - intros s. destruct (Nat.lt_ge_cases s shards) as [H|H].
    + rewrite nth_repeat by exact H. constructor.
    + rewrite nth_overflow by (rewrite repeat_length; exact H). constructor.
  - intros s x Hx. destruct (Nat.lt_ge_cases s shards) as [H|H].
    + rewrite nth_repeat in Hx by exact H. destruct Hx.
    + rewrite nth_overflow in Hx by (rewrite repeat_length; exact H). destruct Hx.
  - intros a s p [].
  - intros s w H. destruct (Nat.lt_ge_cases s shards) as [H'|H'].
    + rewrite nth_repeat in H by exact H'. discriminate.
    + rewrite nth_overflow in H by (rewrite repeat_length; exact H'). discriminate.
  - intros s _ e x [].
  - exact I.
  - intros e [].
  - constructor.
Qed.

(* time only moves forward; facts about the log that do not depend on the clock *)
Lemma le_now_succ (a n : N) : a <= n -> a <= n + 1.
Proof. lia. Qed.

Lemma step_inv st e : SInv st -> SInv (sys_step X st e).
Proof.
  intros I. destruct (si_q st I) as (fl & sl & QI & Lsl & Z).
  assert (Hheads : length (pq_heads (s_q X st)) = shards) by (rewrite (qi_len_heads _ _ _ QI); exact Lsl).
  destruct e as [p| |s calls|s]; cbn [sys_step].
  - (* SEnq *)
    destruct (pq_enqueue (s_q X st) (s_closed X st) p) as [q' r] eqn:E.
    destruct (enqueue_refines _ _ _ _ _ _ _ QI E) as (fl' & sl' & QI' & A' & C' & L').
    destruct r.
    + (* accepted *)
      rewrite Hheads. set (s := plan_shard shards p). set (now := s_now X st + 1).
      assert (Hs : (s < shards)%nat) by (apply plan_shard_lt; exact Hsh).
      unfold aq_enqueue in A'. destruct (s_closed X st); [discriminate|].
      destruct (pq_cap (s_q X st) <=? aq_total (abs (s_q X st) sl))%nat; [discriminate|].
      assert (Habs : abs q' sl' = upd s (nth s (abs (s_q X st) sl) [] ++ [p]) (abs (s_q X st) sl)).
      { assert (Hla : length (abs (s_q X st) sl) = shards) by (unfold abs; rewrite map_length; exact Lsl).
        rewrite Hla in A'. fold s in A'. inversion A' as [H0]. reflexivity. }
      constructor; cbn [s_q s_gh s_closed s_work s_now s_acc s_log].
      * exists fl', sl'. split; [exact QI'|]. split; [congruence|].
        intros s0 Hs0. rewrite Habs.
        destruct (Nat.eq_dec s0 s) as [->|Hne].
        -- rewrite !nth_upd_eq by (try rewrite (si_len_gh st I); try (unfold abs; rewrite map_length, Lsl); exact Hs).
           apply Forall2_app.
           ++ eapply forall2_mono; [|exact (Z s Hs)]. intros a0 p0 H. right. exact H.
           ++ constructor; [left; reflexivity| constructor].
        -- rewrite !nth_upd_neq by congruence.
           eapply forall2_mono; [|exact (Z s0 Hs0)]. intros a0 p0 H. right. exact H.
      * rewrite upd_length. exact (si_len_gh st I).
      * exact (si_len_work st I).
      * intros s0. destruct (Nat.eq_dec s0 s) as [->|Hne].
        -- rewrite nth_upd_eq by (rewrite (si_len_gh st I); exact Hs).
           apply sorted_snoc; [apply (si_sorted st I)|].
           intros y Hy. pose proof (si_gh_now st I s y Hy). unfold now. lia.
        -- rewrite nth_upd_neq by congruence. apply (si_sorted st I).
      * intros s0 x Hx. destruct (Nat.eq_dec s0 s) as [->|Hne].
        -- rewrite nth_upd_eq in Hx by (rewrite (si_len_gh st I); exact Hs).
           apply in_app_or in Hx. destruct Hx as [Hx|[<-|[]]]; [|unfold now; lia].
           pose proof (si_gh_now st I s x Hx). unfold now. lia.
        -- rewrite nth_upd_neq in Hx by congruence.
           pose proof (si_gh_now st I s0 x Hx). unfold now. lia.
      * intros a0 s0 p0 [H|H].
        -- inversion H; subst. split; [reflexivity|]. split; [unfold now; lia| exact Hs].
        -- destruct (si_acc st I a0 s0 p0 H) as (A & B & C). split; [exact A|]. split; [unfold now; lia| exact C].
      * intros s0 w Hw. destruct (si_work st I s0 w Hw) as (A & B & C).
        split; [right; exact A|]. split; [|exact C].
        intros x Hx. destruct (Nat.eq_dec s0 s) as [->|Hne].
        -- rewrite nth_upd_eq in Hx by (rewrite (si_len_gh st I); exact Hs).
           apply in_app_or in Hx. destruct Hx as [Hx|[<-|[]]]; [apply B; exact Hx|].
           destruct (si_acc st I _ _ _ A) as (_ & A2 & _). unfold now. lia.
        -- rewrite nth_upd_neq in Hx by congruence. apply B. exact Hx.
      * intros s0 Hw e0 x He Hsh0 Hx. destruct (Nat.eq_dec s0 s) as [->|Hne].
        -- rewrite nth_upd_eq in Hx by (rewrite (si_len_gh st I); exact Hs).
           apply in_app_or in Hx. destruct Hx as [Hx|[<-|[]]]; [exact (si_idle st I s Hw e0 x He Hsh0 Hx)|].
           destruct (si_log_t st I e0 He) as (T1 & T2 & _). unfold now. lia.
        -- rewrite nth_upd_neq in Hx by congruence. exact (si_idle st I s0 Hw e0 x He Hsh0 Hx).
      * exact (si_log st I).
      * intros e0 He. destruct (si_log_t st I e0 He) as (T1 & T2 & T3).
        split; [unfold now; lia|]. split; [exact T2| right; exact T3].
      * cbn [map fst]. constructor; [|exact (si_acc_nodup st I)].
        intro Hin. apply in_map_iff in Hin. destruct Hin as ([[a0 s0] p0] & Ea & Hin). cbn [fst] in Ea. subst a0.
        destruct (si_acc st I _ _ _ Hin) as (_ & B & _). unfold now in B. lia.
    + (* refused: closed *)
      constructor; cbn [s_q s_gh s_closed s_work s_now s_acc s_log];
        try exact (si_len_gh st I); try exact (si_len_work st I); try exact (si_sorted st I);
        try exact (si_work st I); try exact (si_idle st I); try exact (si_log st I); try exact (si_acc_nodup st I).
      * exists fl, sl. auto.
      * intros s x Hx. pose proof (si_gh_now st I s x Hx). lia.
      * intros a s p0 H. destruct (si_acc st I a s p0 H) as (A & B & C). split; [exact A|]. split; [lia| exact C].
      * intros e0 He. destruct (si_log_t st I e0 He) as (T1 & T2 & T3). split; [lia|]. auto.
    + (* parked: full *)
      constructor; cbn [s_q s_gh s_closed s_work s_now s_acc s_log];
        try exact (si_len_gh st I); try exact (si_len_work st I); try exact (si_sorted st I);
        try exact (si_work st I); try exact (si_idle st I); try exact (si_log st I); try exact (si_acc_nodup st I).
      * exists fl, sl. auto.
      * intros s x Hx. pose proof (si_gh_now st I s x Hx). lia.
      * intros a s p0 H. destruct (si_acc st I a s p0 H) as (A & B & C). split; [exact A|]. split; [lia| exact C].
      * intros e0 He. destruct (si_log_t st I e0 He) as (T1 & T2 & T3). split; [lia|]. auto.
  - (* SClose *)
    constructor; cbn [s_q s_gh s_closed s_work s_now s_acc s_log];
      try exact (si_len_gh st I); try exact (si_len_work st I); try exact (si_sorted st I);
      try exact (si_work st I); try exact (si_idle st I); try exact (si_log st I); try exact (si_acc_nodup st I).
    + exists fl, sl. auto.
    + intros s x Hx. pose proof (si_gh_now st I s x Hx). lia.
    + intros a s p0 H. destruct (si_acc st I a s p0 H) as (A & B & C). split; [exact A|]. split; [lia| exact C].
    + intros e0 He. destruct (si_log_t st I e0 He) as (T1 & T2 & T3). split; [lia|]. auto.
  - (* SPop *)
    assert (Hsame : SInv (Sys X (s_q X st) (s_gh X st) (s_closed X st) (s_work X st) (s_now X st + 1) (s_acc X st) (s_log X st))).
    { constructor; cbn [s_q s_gh s_closed s_work s_now s_acc s_log];
        try exact (si_len_gh st I); try exact (si_len_work st I); try exact (si_sorted st I);
        try exact (si_work st I); try exact (si_idle st I); try exact (si_log st I); try exact (si_acc_nodup st I).
      + exists fl, sl. auto.
      + intros s0 x Hx. pose proof (si_gh_now st I s0 x Hx). lia.
      + intros a s0 p0 H. destruct (si_acc st I a s0 p0 H) as (A & B & C). split; [exact A|]. split; [lia| exact C].
      + intros e0 He. destruct (si_log_t st I e0 He) as (T1 & T2 & T3). split; [lia|]. auto. }
    destruct (nth s (s_work X st) None) as [w|] eqn:Hw; [exact Hsame|].
    destruct (pq_pop (s_q X st) s) as [q' g] eqn:E.
    destruct (pop_refines _ _ _ _ _ _ QI E) as (fl' & sl' & QI' & A' & C' & L').
    destruct g as [p|]; [|exact Hsame].
    unfold aq_pop in A'. destruct (nth s (abs (s_q X st) sl) []) as [|p0 r] eqn:En; [discriminate|].
    inversion A' as [[Habs Hp]]. subst p0.
    assert (Hs : (s < shards)%nat).
    { destruct (Nat.lt_ge_cases s shards) as [H|H]; [exact H|].
      rewrite nth_overflow in En by (unfold abs; rewrite map_length, Lsl; exact H). discriminate. }
    pose proof (Z s Hs) as Zs. rewrite En in Zs.
    destruct (nth s (s_gh X st) []) as [|a gr] eqn:Eg; [inversion Zs|].
    inversion Zs as [|? ? ? ? Hacc Zr]; subst. cbn [hd tl].
    pose proof (si_sorted st I s) as Ss. rewrite Eg in Ss. inversion Ss as [|? ? Ss' Fs]; subst.
    constructor; cbn [s_q s_gh s_closed s_work s_now s_acc s_log].
    + exists fl', sl'. split; [exact QI'|]. split; [congruence|].
      intros s0 Hs0. rewrite <- Habs. destruct (Nat.eq_dec s0 s) as [->|Hne].
      * rewrite !nth_upd_eq by (try rewrite (si_len_gh st I); try (unfold abs; rewrite map_length, Lsl); exact Hs).
        exact Zr.
      * rewrite !nth_upd_neq by congruence. exact (Z s0 Hs0).
    + rewrite upd_length. exact (si_len_gh st I).
    + rewrite upd_length. exact (si_len_work st I).
    + intros s0. destruct (Nat.eq_dec s0 s) as [->|Hne].
      * rewrite nth_upd_eq by (rewrite (si_len_gh st I); exact Hs). exact Ss'.
      * rewrite nth_upd_neq by congruence. apply (si_sorted st I).
    + intros s0 x Hx. destruct (Nat.eq_dec s0 s) as [->|Hne].
      * rewrite nth_upd_eq in Hx by (rewrite (si_len_gh st I); exact Hs).
        assert (H0 : x <= s_now X st) by (apply (si_gh_now st I s); rewrite Eg; right; exact Hx). lia.
      * rewrite nth_upd_neq in Hx by congruence. pose proof (si_gh_now st I s0 x Hx). lia.
    + intros a0 s0 p0 H. destruct (si_acc st I a0 s0 p0 H) as (A & B & C). split; [exact A|]. split; [lia| exact C].
    + intros s0 w0 Hw0. destruct (Nat.eq_dec s0 s) as [->|Hne].
      * rewrite nth_upd_eq in Hw0 by (rewrite (si_len_work st I); exact Hs).
        inversion Hw0; subst w0. cbn [w_stamp w_plan].
        split; [exact Hacc|]. split.
        -- intros x Hx. rewrite nth_upd_eq in Hx by (rewrite (si_len_gh st I); exact Hs).
           rewrite Forall_forall in Fs. apply Fs. exact Hx.
        -- intros e0 He Hsh0. apply N.lt_le_incl.
           apply (si_idle st I s Hw e0 a He Hsh0). rewrite Eg. left. reflexivity.
      * rewrite nth_upd_neq in Hw0 by congruence.
        destruct (si_work st I s0 w0 Hw0) as (A & B & C). split; [exact A|]. split; [|exact C].
        intros x Hx. rewrite nth_upd_neq in Hx by congruence. apply B. exact Hx.
    + intros s0 Hw0 e0 x He Hsh0 Hx. destruct (Nat.eq_dec s0 s) as [->|Hne].
      * rewrite nth_upd_eq in Hw0 by (rewrite (si_len_work st I); exact Hs). discriminate.
      * rewrite nth_upd_neq in Hw0 by congruence. rewrite nth_upd_neq in Hx by congruence.
        exact (si_idle st I s0 Hw0 e0 x He Hsh0 Hx).
    + exact (si_log st I).
    + intros e0 He. destruct (si_log_t st I e0 He) as (T1 & T2 & T3). split; [lia|]. auto.
    + exact (si_acc_nodup st I).
  - (* SCall *)
    assert (Hsame : SInv (Sys X (s_q X st) (s_gh X st) (s_closed X st) (s_work X st) (s_now X st + 1) (s_acc X st) (s_log X st))).
    { constructor; cbn [s_q s_gh s_closed s_work s_now s_acc s_log];
        try exact (si_len_gh st I); try exact (si_len_work st I); try exact (si_sorted st I);
        try exact (si_work st I); try exact (si_idle st I); try exact (si_log st I); try exact (si_acc_nodup st I).
      + exists fl, sl. auto.
      + intros s0 x Hx. pose proof (si_gh_now st I s0 x Hx). lia.
      + intros a s0 p0 H. destruct (si_acc st I a s0 p0 H) as (A & B & C). split; [exact A|]. split; [lia| exact C].
      + intros e0 He. destruct (si_log_t st I e0 He) as (T1 & T2 & T3). split; [lia|]. auto. }
    destruct (nth s (s_work X st) None) as [w|] eqn:Hw; [|exact Hsame].
    assert (Hs : (s < shards)%nat).
    { destruct (Nat.lt_ge_cases s shards) as [H|H]; [exact H|].
      rewrite nth_overflow in Hw by (rewrite (si_len_work st I); exact H). discriminate. }
    destruct (si_work st I s w Hw) as (WA & WB & WC).
    destruct (w_todo X w) as [|x r] eqn:Et.
    + (* the plan is finished: the worker becomes idle *)
      constructor; cbn [s_q s_gh s_closed s_work s_now s_acc s_log];
        try exact (si_len_gh st I); try exact (si_sorted st I); try exact (si_log st I); try exact (si_acc_nodup st I).
      * exists fl, sl. auto.
      * rewrite upd_length. exact (si_len_work st I).
      * intros s0 x Hx. pose proof (si_gh_now st I s0 x Hx). lia.
      * intros a s0 p0 H. destruct (si_acc st I a s0 p0 H) as (A & B & C). split; [exact A|]. split; [lia| exact C].
      * intros s0 w0 Hw0. destruct (Nat.eq_dec s0 s) as [->|Hne].
        -- rewrite nth_upd_eq in Hw0 by (rewrite (si_len_work st I); exact Hs). discriminate.
        -- rewrite nth_upd_neq in Hw0 by congruence. exact (si_work st I s0 w0 Hw0).
      * intros s0 Hw0 e0 x He Hsh0 Hx. destruct (Nat.eq_dec s0 s) as [->|Hne].
        -- pose proof (WC e0 He Hsh0). pose proof (WB x Hx). lia.
        -- rewrite nth_upd_neq in Hw0 by congruence. exact (si_idle st I s0 Hw0 e0 x He Hsh0 Hx).
      * intros e0 He. destruct (si_log_t st I e0 He) as (T1 & T2 & T3). split; [lia|]. auto.
    + (* one port call *)
      destruct (si_acc st I _ _ _ WA) as (_ & WA2 & _).
      constructor; cbn [s_q s_gh s_closed s_work s_now s_acc s_log];
        try exact (si_len_gh st I); try exact (si_sorted st I); try exact (si_acc_nodup st I).
      * exists fl, sl. auto.
      * rewrite upd_length. exact (si_len_work st I).
      * intros s0 y Hy. pose proof (si_gh_now st I s0 y Hy). lia.
      * intros a s0 p0 H. destruct (si_acc st I a s0 p0 H) as (A & B & C). split; [exact A|]. split; [lia| exact C].
      * intros s0 w0 Hw0. destruct (Nat.eq_dec s0 s) as [->|Hne].
        -- rewrite nth_upd_eq in Hw0 by (rewrite (si_len_work st I); exact Hs).
           inversion Hw0; subst w0. cbn [w_stamp w_plan].
           split; [exact WA|]. split; [exact WB|].
           intros e0 [<-|He] Hsh0; [cbn; lia| exact (WC e0 He Hsh0)].
        -- rewrite nth_upd_neq in Hw0 by congruence.
           destruct (si_work st I s0 w0 Hw0) as (A & B & C). split; [exact A|]. split; [exact B|].
           intros e0 [<-|He] Hsh0; [cbn in Hsh0; congruence| exact (C e0 He Hsh0)].
      * intros s0 Hw0 e0 y [<-|He] Hsh0 Hy.
        -- cbn in Hsh0. subst s0. rewrite nth_upd_eq in Hw0 by (rewrite (si_len_work st I); exact Hs). discriminate.
        -- destruct (Nat.eq_dec s0 s) as [->|Hne].
           ++ rewrite nth_upd_eq in Hw0 by (rewrite (si_len_work st I); exact Hs). discriminate.
           ++ rewrite nth_upd_neq in Hw0 by congruence. exact (si_idle st I s0 Hw0 e0 y He Hsh0 Hy).
      * cbn [LogOk]. split; [exact (si_log st I)|].
        intros e' He'. destruct (si_log_t st I e' He') as (T1 & _ & _). split; [cbn; lia|].
        intros Hsh'. cbn in Hsh'. cbn. exact (WC e' He' Hsh').
      * intros e0 [<-|He].
        -- cbn. split; [lia|]. split; [lia| exact WA].
        -- destruct (si_log_t st I e0 He) as (T1 & T2 & T3). split; [lia|]. auto.
Qed.

Lemma run_inv evs : SInv (sys_run X cap shards evs).
Proof.
  unfold sys_run. generalize init_inv. generalize (sys_init X cap shards).
  induction evs as [|e evs IH]; intros st I; simpl; [exact I|].
  apply IH. apply step_inv. exact I.
Qed.

Lemma logok_order (l : list entry) : LogOk l ->
  forall e1 e2, In e1 l -> In e2 l -> le_shard X e1 = le_shard X e2 ->
  le_stamp X e1 < le_stamp X e2 -> le_time X e1 < le_time X e2.
Proof.
  induction l as [|e l IH]; intros L e1 e2 H1 H2 Hs Hlt; [destruct H1|].
  cbn [LogOk] in L. destruct L as [L' Hhd].
  destruct H1 as [<-|H1]; destruct H2 as [<-|H2].
  - lia.
  - destruct (Hhd e2 H2) as [_ B]. specialize (B (eq_sym Hs)). lia.
  - exact (proj1 (Hhd e1 H1)).
  - exact (IH L' e1 e2 H1 H2 Hs Hlt).
Qed.

(* c31_channel_fifo, system part *)
Theorem sys_fifo evs e1 e2 :
  let st := sys_run X cap shards evs in
  In e1 (s_log X st) -> In e2 (s_log X st) ->
  le_shard X e1 = le_shard X e2 -> le_stamp X e1 < le_stamp X e2 ->
  le_time X e1 < le_time X e2.
Proof.
  cbn zeta. intros H1 H2 Hs Hlt.
  exact (logok_order _ (si_log _ (run_inv evs)) e1 e2 H1 H2 Hs Hlt).
Qed.

(* every port call belongs to an accepted plan, is made after its acceptance,
   by the worker of the shard its channel hashes to *)
Theorem sys_calls_accepted evs e :
  let st := sys_run X cap shards evs in
  In e (s_log X st) ->
  In (le_stamp X e, le_shard X e, le_plan X e) (s_acc X st)
  /\ le_stamp X e < le_time X e
  /\ le_shard X e = plan_shard shards (le_plan X e).
Proof.
  cbn zeta. intros H. pose proof (run_inv evs) as I.
  destruct (si_log_t _ I e H) as (_ & T2 & T3).
  split; [exact T3|]. split; [exact T2|]. exact (proj1 (si_acc _ I _ _ _ T3)).
Qed.

End SysProof.
