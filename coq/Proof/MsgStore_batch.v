(* Proof/MsgStore_batch.v — the multi-channel StoreAppendBatch (OCBatch): appends
   to pairwise different channels commute on the plain logs (up to the ORDER of
   the taint list), so the one physical batch the model commits in channel order
   refines the item-by-item specification. *)
From WK Require Import Base.Base Model.KV Gen.Consts_C07 Model.MsgStore Model.MsgStore_C07
     Proof.KV Proof.MsgStore_base Proof.MsgStore_rel Proof.MsgStore_reads Proof.MsgStore_frame
     Proof.MsgStore_mut Proof.MsgStore_step Proof.MsgStore_ops.
From Coq Require Import Sorting.Permutation Sorting.Sorted.

(* ---- specifications up to the order of the taint list ------------------------------------------------- *)

Definition seqv (s s' : aspec) : Prop :=
  (forall c, as_log s c = as_log s' c) /\ (forall i, In i (as_tids s) <-> In i (as_tids s')).

Lemma seqv_refl s : seqv s s.
Proof. split; [reflexivity|tauto]. Qed.

Lemma seqv_sym s s' : seqv s s' -> seqv s' s.
Proof. intros [H1 H2]. split; [intro; symmetry; apply H1|intro; symmetry; apply H2]. Qed.

Lemma seqv_trans a b c : seqv a b -> seqv b c -> seqv a c.
Proof. intros [H1 H2] [H3 H4]. split; [intro; rewrite H1; apply H3|intro; rewrite H2; apply H4]. Qed.

Lemma id_stored_seqv s s' i : seqv s s' -> id_stored s i = id_stored s' i.
Proof.
  intros [H _]. unfold id_stored. induction all_chans as [|c l IH]; cbn [existsb]; [reflexivity|]. rewrite H, IH. reflexivity.
Qed.

Lemma spec_append_one_seqv s s' c a : seqv s s' -> seqv (spec_append s c [a]) (spec_append s' c [a]).
Proof.
  intros Hs. pose proof Hs as [Hl Ht]. rewrite !spec_append_one. split.
  - intro c'. cbn [as_log]. destruct (c' =? c); [rewrite Hl; reflexivity|apply Hl].
  - intro i. cbn [as_tids]. rewrite (id_stored_seqv s s' _ Hs).
    destruct (id_stored s' (m_id (a_msg a))); cbn [In]; rewrite Ht; tauto.
Qed.

Lemma spec_append_seqv c l : forall s s', seqv s s' -> seqv (spec_append s c l) (spec_append s' c l).
Proof.
  induction l as [|a l IH]; intros s s' H; [exact H|].
  rewrite !(spec_append_cons _ c a l). apply IH. apply spec_append_one_seqv. exact H.
Qed.

Lemma Rkv_seqv kv s s' : seqv s s' -> Rkv kv s -> Rkv kv s'.
Proof.
  intros [Hl Ht] HR. constructor.
  - apply HR.
  - intro c. destruct (rk_chan _ _ HR c) as [rows Rc]. exists rows.
    apply (Rchan_frame kv kv s s' c rows (rk_wf _ _ HR) (rk_wf _ _ HR)); [reflexivity|symmetry; apply Hl|exact Rc].
  - apply HR.
  - intros c q r G Hn. apply (rk_gc _ _ HR); [exact G|]. intro Hin. apply Hn. apply Ht. exact Hin.
  - apply HR.
Qed.

(* ---- two rows appended to different channels commute ---------------------------------------------------- *)

Lemma id_stored_one s c a i : In c all_chans ->
  id_stored (spec_append s c [a]) i = id_stored s i || (m_id (a_msg a) =? i).
Proof.
  intro Hc. rewrite spec_append_one. unfold id_stored. cbn [as_log].
  unfold all_chans in *. cbn [existsb In] in *.
  destruct Hc as [<-|[<-|[<-|[]]]]; cbn [N.eqb Pos.eqb existsb al_rows]; rewrite ?existsb_app; cbn [existsb];
    rewrite ?orb_false_r; destruct (existsb _ (al_rows (as_log s 0))), (existsb _ (al_rows (as_log s 1))), (existsb _ (al_rows (as_log s 2))),
      (m_id (a_msg a) =? i); reflexivity.
Qed.

Definition app_log (l : alog) (a : arow) : alog :=
  AL (al_rows l ++ [a]) (m_seq (a_msg a)) (al_ck l) (al_hist l)
     (if both_nonempty (m_uid (a_msg a)) (m_cno (a_msg a)) && pair_stored l (m_uid (a_msg a)) (m_cno (a_msg a))
      then (m_uid (a_msg a), m_cno (a_msg a)) :: al_tpairs l else al_tpairs l).

Lemma app_log_one s c a : as_log (spec_append s c [a]) c = app_log (as_log s c) a.
Proof. rewrite spec_append_one. cbn [as_log]. rewrite N.eqb_refl. reflexivity. Qed.

Lemma swap_rows s c1 c2 a b :
  c1 <> c2 -> In c1 all_chans -> In c2 all_chans ->
  seqv (spec_append (spec_append s c1 [a]) c2 [b]) (spec_append (spec_append s c2 [b]) c1 [a]).
Proof.
  intros Hne H1 H2.
  assert (E12 : (c1 =? c2) = false) by (apply N.eqb_neq; exact Hne).
  assert (E21 : (c2 =? c1) = false) by (apply N.eqb_neq; intro X; apply Hne; symmetry; exact X).
  split.
  - intro c. destruct (N.eq_dec c c2) as [->|Hn2]; [|destruct (N.eq_dec c c1) as [->|Hn1]].
    + rewrite (spec_append_other (spec_append s c2 [b]) c1 [a] c2) by (intro X; apply Hne; symmetry; exact X).
      rewrite !app_log_one. rewrite (spec_append_other s c1 [a] c2) by (intro X; apply Hne; symmetry; exact X). reflexivity.
    + rewrite (spec_append_other (spec_append s c1 [a]) c2 [b] c1) by exact Hne.
      rewrite !app_log_one. rewrite (spec_append_other s c2 [b] c1) by exact Hne. reflexivity.
    + rewrite !spec_append_other by assumption. reflexivity.
  - intro i.
    rewrite (spec_append_one (spec_append s c1 [a]) c2 b), (spec_append_one (spec_append s c2 [b]) c1 a). cbn [as_tids].
    rewrite (id_stored_one s c1 a _ H1), (id_stored_one s c2 b _ H2).
    rewrite (spec_append_one s c1 a), (spec_append_one s c2 b). cbn [as_tids].
    set (ia := m_id (a_msg a)). set (ib := m_id (a_msg b)).
    destruct (N.eq_dec ia ib) as [E|NE].
    + rewrite E, !N.eqb_refl. destruct (id_stored s ib); cbn [orb In]; tauto.
    + assert (E1 : (ia =? ib) = false) by (apply N.eqb_neq; exact NE).
      assert (E2 : (ib =? ia) = false) by (apply N.eqb_neq; intro X; apply NE; symmetry; exact X).
      rewrite E1, E2, !orb_false_r.
      destruct (id_stored s ia); destruct (id_stored s ib); cbn [In]; tauto.
Qed.

Lemma swap_row_list c1 c2 a l2 : c1 <> c2 -> In c1 all_chans -> In c2 all_chans -> forall s,
  seqv (spec_append (spec_append s c1 [a]) c2 l2) (spec_append (spec_append s c2 l2) c1 [a]).
Proof.
  intros Hne H1 H2. induction l2 as [|b l2 IH]; intro s; [apply seqv_refl|].
  rewrite (spec_append_cons _ c2 b l2).
  eapply seqv_trans; [apply spec_append_seqv; apply swap_rows; assumption|].
  eapply seqv_trans; [apply IH|]. rewrite (spec_append_cons s c2 b l2). apply seqv_refl.
Qed.

Lemma swap_lists c1 c2 l1 l2 : c1 <> c2 -> In c1 all_chans -> In c2 all_chans -> forall s,
  seqv (spec_append (spec_append s c1 l1) c2 l2) (spec_append (spec_append s c2 l2) c1 l1).
Proof.
  intros Hne H1 H2. induction l1 as [|a l1 IH]; intro s; [apply seqv_refl|].
  rewrite (spec_append_cons s c1 a l1).
  eapply seqv_trans; [apply IH|].
  rewrite (spec_append_cons (spec_append s c2 l2) c1 a l1).
  apply spec_append_seqv. apply swap_row_list; assumption.
Qed.

(* ---- folding blocks -------------------------------------------------------------------------------------------- *)

Definition block := (N * list arow)%type.

Definition fold_blocks (s : aspec) (bl : list block) : aspec :=
  fold_left (fun s b => spec_append s (fst b) (snd b)) bl s.

Lemma fold_blocks_seqv bl : forall s s', seqv s s' -> seqv (fold_blocks s bl) (fold_blocks s' bl).
Proof.
  induction bl as [|b bl IH]; intros s s' H; [exact H|]. cbn [fold_blocks fold_left]. apply IH. apply spec_append_seqv. exact H.
Qed.

Lemma fold_blocks_perm bl1 bl2 :
  Permutation bl1 bl2 -> NoDup (map fst bl1) -> Forall (fun b => In (fst b) all_chans) bl1 ->
  forall s, seqv (fold_blocks s bl1) (fold_blocks s bl2).
Proof.
  induction 1 as [|x l l' P IH|x y l|l l' l'' P1 IH1 P2 IH2]; intros Hnd Hch s.
  - apply seqv_refl.
  - cbn [fold_blocks fold_left]. cbn [map] in Hnd. inversion Hnd; subst. inversion Hch; subst. apply IH; assumption.
  - cbn [fold_blocks fold_left]. apply fold_blocks_seqv.
    cbn [map] in Hnd. inversion Hnd as [|? ? Hn1 Hn2]; subst. inversion Hch as [|? ? Hy Hrest]; subst. inversion Hrest as [|? ? Hx _]; subst.
    apply swap_lists; [|exact Hy|exact Hx]. intro E. apply Hn1. left. symmetry. exact E.
  - eapply seqv_trans; [apply IH1; assumption|]. apply IH2.
    + eapply Permutation_NoDup; [apply Permutation_map; exact P1|exact Hnd].
    + eapply Permutation_Forall; eassumption.
Qed.

Lemma fold_blocks_other bl c : ~ In c (map fst bl) -> forall s, as_log (fold_blocks s bl) c = as_log s c.
Proof.
  induction bl as [|b bl IH]; intros Hn s; [reflexivity|].
  change (fold_blocks s (b :: bl)) with (fold_blocks (spec_append s (fst b) (snd b)) bl).
  cbn [map In] in Hn. rewrite IH by tauto. apply spec_append_other. intro E. apply Hn. left. symmetry. exact E.
Qed.

Lemma insert_by_map {A B} (f : B -> N) (g : A -> B) x l :
  insert_by f (g x) (map g l) = map g (insert_by (fun a => f (g a)) x l).
Proof.
  induction l as [|y l IH]; cbn [insert_by map]; [reflexivity|].
  destruct (f (g x) <=? f (g y)); cbn [map]; [reflexivity|]. rewrite IH. reflexivity.
Qed.

Lemma sort_by_map {A B} (f : B -> N) (g : A -> B) l :
  sort_by f (map g l) = map g (sort_by (fun a => f (g a)) l).
Proof.
  induction l as [|x l IH]; cbn [sort_by map]; [reflexivity|]. rewrite IH. apply insert_by_map.
Qed.

(* error classes are never 0 *)
Lemma compat_err_nonzero c l : forall q e, compatibilityRowsFromRecords c q l = inr e -> e <> 0.
Proof.
  induction l as [|y l IH]; intros q e H; cbn [compatibilityRowsFromRecords] in H; [discriminate H|].
  destruct (negb (i_ridx y =? 0) && negb (i_ridx y =? q)); [injection H as <-; discriminate|].
  destruct (i_id y =? 0); [injection H as <-; discriminate|].
  destruct (negb (i_rid y =? 0) && negb (i_rid y =? i_id y)); [injection H as <-; discriminate|].
  destruct (compatibilityRowsFromRecords c (q + 1) l) as [rs|e0] eqn:E0; [discriminate H|].
  cbn [bind] in H. injection H as <-. eapply IH. exact E0.
Qed.

Lemma getRowBySeq_err_nonzero kv c q e : getRowBySeq kv c q = inr e -> e <> 0.
Proof.
  unfold getRowBySeq. destruct (q =? 0); [intro H; injection H as <-; discriminate|].
  destruct (kget (KyRow c q) kv) as [v|]; [|discriminate]. destruct v; try discriminate.
  unfold validateMaterializedMessageRow, bind. destruct (r_id r =? 0); [intro H; injection H as <-; discriminate|].
  destruct (negb _); [intro H; injection H as <-; discriminate|discriminate].
Qed.

Lemma lookupIdem_err_nonzero kv c u n e : lookupIdempotencyByKey kv c u n = inr e -> e <> 0.
Proof.
  unfold lookupIdempotencyByKey. destruct (kget (KyIdem c n u) kv) as [v|]; [|discriminate]. destruct v; try discriminate.
  destruct (getRowBySeq kv c seq) as [[r|]|e0] eqn:Eg; cbn [bind].
  - destruct (_ && _ && _ && _); [discriminate|intro H; injection H as <-; discriminate].
  - intro H; injection H as <-; discriminate.
  - intro H. injection H as <-. eapply getRowBySeq_err_nonzero. exact Eg.
Qed.

Section ValidateErr.
  Variable F : Type.
  Variable f_may : F -> bytes * bytes -> bool.
  Variable f_add : F -> bytes * bytes -> F.

  Lemma validateAppendRow_err_nonzero st c r sn mode st' e :
    validateAppendRow F f_may f_add st c r sn mode = (st', inr e) -> e <> 0.
  Proof.
    unfold MsgStore.validateAppendRow.
    destruct (r_id r =? 0); [intro H; injection H as _ <-; discriminate|].
    destruct (mem_N _ _); [intro H; injection H as _ <-; discriminate|].
    destruct (if mode =? AppendStrict then _ else false); [intro H; injection H as _ <-; discriminate|].
    destruct (is_nil (r_uid r) || is_nil (r_cno r)); [intro H; discriminate H|].
    destruct (mem_pair _ _); [intro H; injection H as _ <-; discriminate|].
    destruct (mode =? AppendTrustedContiguous); [intro H; discriminate H|].
    destruct (negb (f_may _ _)); [intro H; discriminate H|].
    destruct (lookupIdempotencyByKey _ c (r_uid r) (r_cno r)) as [[[[q i] h]|]|e0] eqn:El.
    - destruct (negb (q =? r_seq r)); [intro H; injection H as _ <-; discriminate|intro H; discriminate H].
    - intro H; discriminate H.
    - intro H. injection H as _ <-. eapply lookupIdem_err_nonzero. exact El.
  Qed.

  Lemma validate_err_nonzero rows : forall st c sn mode st' e,
    validate_rows F f_may f_add st c rows sn mode = (st', inr e) -> e <> 0.
  Proof.
    induction rows as [|r rows IH]; intros st c sn mode st' e H; cbn [MsgStore.validate_rows] in H; [discriminate H|].
    destruct (validateAppendRow F f_may f_add st c r sn mode) as [st1 [sn1|e1]] eqn:Er.
    - eapply IH. exact H.
    - injection H as _ <-. eapply validateAppendRow_err_nonzero. exact Er.
  Qed.
End ValidateErr.

(* ---- the model's StoreAppendBatch ---------------------------------------------------------------------------------- *)
Section CBatch.
  Variable F : Type.
  Variable f_empty : F.
  Variable f_may : F -> bytes * bytes -> bool.
  Variable f_add : F -> bytes * bytes -> F.

  Notation mstate := (mstate F).
  Notation R := (MsgStore_reads.R F).
  Notation st_kv := (st_kv F).
  Notation st_cache := (st_cache F).

  (* an accepted, non-empty item: its channel and validated rows *)
  Definition rblock := (N * list row)%type.
  Definition ablock (b : rblock) : block := (fst b, map arow_of (snd b)).
  Definition kblock (b : rblock) : N * kbatch :=
    (fst b, stageMessageRows (fst b) (snd b) ++ stageCatalogForAppend (fst b) (first_seq (snd b))).
  Definition lblock (b : rblock) : N * N := (fst b, last_seq (snd b)).

  Definition good_block (s : aspec) (all : list item) (b : rblock) : Prop :=
    snd b <> [] /\ count_chan all (fst b) = 1%nat /\ In (fst b) all_chans
    /\ consec (al_leo (as_log s (fst b)) + 1) (snd b) /\ Forall (row_ok (fst b)) (snd b).

  Lemma count_chan_app l1 l2 c : count_chan (l1 ++ l2) c = (count_chan l1 c + count_chan l2 c)%nat.
  Proof. unfold count_chan. rewrite filter_app, app_length. reflexivity. Qed.

  Lemma count_chan_in l c m recs : In (c, m, recs) l -> (1 <= count_chan l c)%nat.
  Proof.
    intro H. unfold count_chan. induction l as [|x l IH]; [destruct H|]. cbn [filter].
    destruct H as [->|H]; [cbn [fst]; rewrite N.eqb_refl; cbn [length]; lia|].
    destruct (fst (fst x) =? c); cbn [length]; specialize (IH H); lia.
  Qed.

  Lemma cbatch_items_sim s all : forall items pre st (Bpre : list rblock),
    all = pre ++ items ->
    R st s ->
    Forall (fun it : item => In (fst (fst it)) all_chans) items ->
    (forall b, In b Bpre -> count_chan all (fst b) = 1%nat /\ exists m recs, In (fst b, m, recs) pre) ->
    let '(st1, rs, bs, ls) := cbatch_items F f_may f_add st all items in
    R st1 s
    /\ exists B : list rblock,
         bs = map kblock B /\ ls = map lblock B
         /\ Forall (good_block s all) B
         /\ (forall b, In b B -> exists m recs, In (fst b, m, recs) items)
         /\ NoDup (map fst B)
         /\ spec_batch (fold_blocks s (map ablock Bpre)) items rs
            = Some (fold_blocks (fold_blocks s (map ablock Bpre)) (map ablock B)).
  Proof.
    induction items as [|[[c m] recs] items IH]; intros pre st Bpre Hall HR Hch Hpre; cbn [cbatch_items].
    - split; [exact HR|]. exists []. repeat split; try constructor. intros b [].
    - inversion Hch as [|? ? Hc Hch']; subst. cbn [fst] in Hc. unfold item in *.
      assert (Hall' : pre ++ (c, m, recs) :: items = (pre ++ [(c, m, recs)]) ++ items) by (rewrite <- app_assoc; reflexivity).
      (* blocks of the prefix stay blocks of the longer prefix *)
      assert (Hpre' : forall b, In b Bpre -> count_chan (pre ++ (c, m, recs) :: items) (fst b) = 1%nat
                                 /\ exists m0 recs0, In (fst b, m0, recs0) (pre ++ [(c, m, recs)])).
      { intros b Hb. destruct (Hpre b Hb) as [H1 [m0 [recs0 H2]]]. split; [exact H1|]. exists m0, recs0. apply in_or_app. left. exact H2. }
      destruct (1 <? count_chan (pre ++ (c, m, recs) :: items) c)%nat eqn:Ecnt.
      { (* the channel occurs twice: rejected *)
        specialize (IH (pre ++ [(c, m, recs)]) st Bpre Hall' HR Hch' Hpre').
        destruct (cbatch_items F f_may f_add st (pre ++ (c, m, recs) :: items) items) as [[[st1 rs] bs] ls]. cbv beta iota zeta in IH.
        destruct IH as [H1 [B [E1 [E2 [E3 [E4 [E5 E6]]]]]]]. split; [exact H1|]. exists B.
        split; [exact E1|]. split; [exact E2|]. split; [exact E3|].
        split; [intros b Hb; destruct (E4 b Hb) as [m0 [r0 H0]]; exists m0, r0; right; exact H0|]. split; [exact E5|].
        cbn [spec_batch]. rewrite (proj2 (N.eqb_neq EInvalid 0)) by discriminate. exact E6. }
      apply Nat.ltb_ge in Ecnt.
      assert (Hcnt : count_chan (pre ++ (c, m, recs) :: items) c = 1%nat).
      { pose proof (count_chan_in (pre ++ (c, m, recs) :: items) c m recs) as H. specialize (H ltac:(apply in_or_app; right; left; reflexivity)). lia. }
      (* the channel is not among the blocks of the prefix *)
      assert (Hfresh : ~ In c (map fst (map ablock Bpre))).
      { intro Hin. rewrite map_map in Hin. apply in_map_iff in Hin. destruct Hin as [b [Eb Hb]]. cbn [ablock fst] in Eb. subst c.
        destruct (Hpre b Hb) as [_ [m0 [r0 H0]]].
        pose proof (count_chan_in pre (fst b) m0 r0 H0) as H1. rewrite count_chan_app in Hcnt.
        pose proof (count_chan_in ((fst b, m, recs) :: items) (fst b) m recs (or_introl eq_refl)) as H2. lia. }
      set (scur := fold_blocks s (map ablock Bpre)).
      assert (Hlog : as_log scur c = as_log s c) by (apply fold_blocks_other; exact Hfresh).
      destruct (loadLEO_R F st s c HR) as [H1 [H2 _]].
      destruct (loadLEOLocked F st c) as [st1 base]. cbn [fst snd] in H1, H2. subst base.
      destruct recs as [|x recs].
      { (* an empty item: accepted, no block *)
        specialize (IH (pre ++ [(c, m, [])]) st1 Bpre Hall' H2 Hch' Hpre').
        destruct (cbatch_items F f_may f_add st1 (pre ++ (c, m, []) :: items) items) as [[[st2 rs] bs] ls]. cbv beta iota zeta in IH.
        destruct IH as [H3 [B [E1 [E2 [E3 [E4 [E5 E6]]]]]]]. split; [exact H3|]. exists B.
        split; [exact E1|]. split; [exact E2|]. split; [exact E3|].
        split; [intros b Hb; destruct (E4 b Hb) as [m0 [r0 H0]]; exists m0, r0; right; exact H0|]. split; [exact E5|].
        cbn [spec_batch]. rewrite N.eqb_refl. fold scur. rewrite Hlog, N.eqb_refl. cbn [length N.of_nat]. rewrite N.add_0_r, N.eqb_refl.
          cbn [andb msgs_from]. exact E6. }
      destruct (compatibilityRowsFromRecords c (al_leo (as_log s c) + 1) (x :: recs)) as [rows|e] eqn:Ec.
      2:{ specialize (IH (pre ++ [(c, m, x :: recs)]) st1 Bpre Hall' H2 Hch' Hpre').
          destruct (cbatch_items F f_may f_add st1 (pre ++ (c, m, x :: recs) :: items) items) as [[[st2 rs] bs] ls]. cbv beta iota zeta in IH.
          destruct IH as [H3 [B [E1 [E2 [E3 [E4 [E5 E6]]]]]]]. split; [exact H3|]. exists B.
          split; [exact E1|]. split; [exact E2|]. split; [exact E3|].
          split; [intros b Hb; destruct (E4 b Hb) as [m0 [r0 H0]]; exists m0, r0; right; exact H0|]. split; [exact E5|].
          cbn [spec_batch].
            assert (Ee : (e =? 0) = false) by (apply N.eqb_neq; eapply compat_err_nonzero; exact Ec).
            rewrite Ee. exact E6. }
      destruct (compat_rows _ _ _ _ Ec) as [Hcs [Har [Hlen Hf]]].
      pose proof (validate_rows_volatile F f_may f_add rows st1 c (Seen [] []) (if m =? 1 then AppendServerAllocatedMessageID else AppendStrict)) as Hv.
      destruct (validate_rows F f_may f_add st1 c rows (Seen [] []) (if m =? 1 then AppendServerAllocatedMessageID else AppendStrict))
        as [st2 [sn|e]] eqn:Ev; cbn [fst] in Hv.
      2:{ assert (HR2 : R st2 s) by (eapply volatile_R; eassumption).
          specialize (IH (pre ++ [(c, m, x :: recs)]) st2 Bpre Hall' HR2 Hch' Hpre').
          destruct (cbatch_items F f_may f_add st2 (pre ++ (c, m, x :: recs) :: items) items) as [[[st3 rs] bs] ls]. cbv beta iota zeta in IH.
          destruct IH as [H3 [B [E1 [E2 [E3 [E4 [E5 E6]]]]]]]. split; [exact H3|]. exists B.
          split; [exact E1|]. split; [exact E2|]. split; [exact E3|].
          split; [intros b Hb; destruct (E4 b Hb) as [m0 [r0 H0]]; exists m0, r0; right; exact H0|]. split; [exact E5|].
          cbn [spec_batch].
            assert (Ee : (toChannelError e =? 0) = false).
            { apply N.eqb_neq. unfold toChannelError. destruct (e =? EConflict); [discriminate|]. eapply (validate_err_nonzero F f_may f_add); exact Ev. }
            rewrite Ee. exact E6. }
      (* an accepted block *)
      assert (HR2 : R st2 s) by (eapply volatile_R; eassumption).
      assert (Hne : rows <> []) by (intro X; subst rows; discriminate Hlen).
      assert (Hok : Forall (row_ok c) rows) by (eapply consec_ok; [|exact Hcs|exact Hf]; lia).
      set (blk := (c, rows) : rblock).
      assert (Hpre2 : forall b, In b (Bpre ++ [blk]) -> count_chan (pre ++ (c, m, x :: recs) :: items) (fst b) = 1%nat
                                 /\ exists m0 recs0, In (fst b, m0, recs0) (pre ++ [(c, m, x :: recs)])).
      { intros b Hb. apply in_app_or in Hb. destruct Hb as [Hb|[<-|[]]]; [apply Hpre'; exact Hb|].
        split; [exact Hcnt|]. exists m, (x :: recs). apply in_or_app. right. left. reflexivity. }
      specialize (IH (pre ++ [(c, m, x :: recs)]) st2 (Bpre ++ [blk]) Hall' HR2 Hch' Hpre2).
      destruct (cbatch_items F f_may f_add st2 (pre ++ (c, m, x :: recs) :: items) items) as [[[st3 rs] bs] ls]. cbv beta iota zeta in IH.
      destruct IH as [H3 [B [E1 [E2 [E3 [E4 [E5 E6]]]]]]]. split; [exact H3|]. exists (blk :: B).
      assert (Hnotin : ~ In c (map fst B)).
      { intro Hin. apply in_map_iff in Hin. destruct Hin as [b [Eb Hb]]. destruct (E4 b Hb) as [m0 [r0 H0]]. rewrite Eb in H0.
        pose proof (count_chan_in items c m0 r0 H0) as Hc1. rewrite count_chan_app in Hcnt. unfold count_chan in Hcnt at 2. cbn [filter fst] in Hcnt.
        rewrite N.eqb_refl in Hcnt. cbn [length] in Hcnt. fold (count_chan items c) in Hcnt. lia. }
      split; [cbn [map kblock fst snd blk]; rewrite E1; reflexivity|].
      assert (El : last_seq rows = al_leo (as_log s c) + N.of_nat (length (x :: recs))).
      { pose proof (consec_last _ _ Hcs Hne) as Hl. rewrite Hlen in Hl. lia. }
      split; [cbn [map]; unfold lblock at 1; cbn [fst snd blk]; rewrite E2, El; reflexivity|].
      split; [constructor; [|exact E3]; unfold good_block; cbn [fst snd blk]; repeat split; assumption|].
      split; [intros b [<-|Hb]; [exists m, (x :: recs); left; reflexivity|destruct (E4 b Hb) as [m0 [r0 H0]]; exists m0, r0; right; exact H0]|].
      split; [cbn [map fst blk]; constructor; assumption|].
      cbn [spec_batch]. rewrite N.eqb_refl. fold scur. rewrite Hlog, N.eqb_refl, N.eqb_refl. cbn [andb].
      rewrite <- Har. rewrite map_app in E6. unfold fold_blocks in E6. rewrite fold_left_app in E6. cbn [fold_left map ablock fst snd blk] in E6.
      unfold scur, fold_blocks. refine (eq_trans E6 _). cbn [map fold_left ablock fst snd blk]. reflexivity.
  Qed.

  (* ---- the one physical batch, in any order of pairwise different channels ------------------------------------- *)

  Lemma blocks_Rkv all : forall (B : list rblock) kv s,
    Rkv kv s -> NoDup (map fst B) -> Forall (good_block s all) B ->
    Rkv (kapply kv (flat_map snd (map kblock B))) (fold_blocks s (map ablock B)).
  Proof.
    induction B as [|[c rows] B IH]; intros kv s HR Hnd Hg; [exact HR|].
    inversion Hnd as [|? ? Hni Hnd']; subst. inversion Hg as [|? ? Hb Hg']; subst.
    destruct Hb as [Hne [_ [Hc [Hcs Hok]]]]. cbn [fst snd] in *.
    cbn [map flat_map kblock fst snd]. rewrite kapply_app.
    change (fold_blocks s (ablock (c, rows) :: map ablock B))
      with (fold_blocks (spec_append s c (map arow_of rows)) (map ablock B)).
    apply IH; [|exact Hnd'|].
    - rewrite kapply_app. apply Rkv_irrelevant; [apply irrelevant_catalog_app|].
      apply add_rows_Rkv; assumption.
    - apply Forall_forall. intros b Hb. pose proof (proj1 (Forall_forall _ _) Hg' b Hb) as [H1 [H2 [H3 [H4 H5]]]].
      assert (Hnc : fst b <> c) by (intro X; apply Hni; rewrite <- X; apply in_map; exact Hb).
      unfold good_block. rewrite spec_append_other by exact Hnc. repeat split; assumption.
  Qed.

  Lemma fold_set_leo_kv (ls : list (N * N)) : forall st : mstate,
    st_kv (fold_left (fun s cl => set_leo F s (fst cl) (snd cl)) ls st) = st_kv st.
  Proof. induction ls as [|x ls IH]; intro st; cbn [fold_left]; [reflexivity|]. rewrite IH. reflexivity. Qed.

  Lemma fold_set_leo_cache : forall (B : list rblock) (st : mstate) s,
    Forall (fun b : rblock => snd b <> []) B -> Rcache F st s ->
    Rcache F (fold_left (fun s cl => set_leo F s (fst cl) (snd cl)) (map lblock B) st) (fold_blocks s (map ablock B)).
  Proof.
    induction B as [|[c rows] B IH]; intros st s Hne Hc; [exact Hc|].
    inversion Hne as [|? ? Hn Hne']; subst. cbn [snd] in Hn.
    cbn [map fold_left lblock fst snd].
    change (fold_blocks s (ablock (c, rows) :: map ablock B))
      with (fold_blocks (spec_append s c (map arow_of rows)) (map ablock B)).
    apply IH; [exact Hne'|].
    intros c' Hld. unfold set_leo, set_cache in *. cbn [MsgStore.st_cache] in *.
    destruct (c' =? c) eqn:E.
    - apply N.eqb_eq in E. subst c'. cbn [cc_leo]. symmetry. apply spec_append_leo. exact Hn.
    - apply N.eqb_neq in E. rewrite spec_append_other by exact E. apply Hc. exact Hld.
  Qed.

  Lemma good_perm s all (B B' : list rblock) : Permutation B B' -> Forall (good_block s all) B -> Forall (good_block s all) B'.
  Proof. intros P H. eapply Permutation_Forall; eassumption. Qed.

  Lemma step_cbatch st s items :
    R st s -> Forall (fun it : item => In (fst (fst it)) all_chans) items ->
    let '(st', rs) := CBatch F f_may f_add st items in
    sim F s (OCBatch items) st' (XBatch rs).
  Proof.
    intros HR Hch. unfold CBatch.
    pose proof (cbatch_items_sim s items items [] st [] eq_refl HR Hch ltac:(intros b [])) as H.
    destruct (cbatch_items F f_may f_add st items items) as [[[st1 rs] bs] ls]. cbv beta iota zeta in H.
    destruct H as [HR1 [B [E1 [E2 [Hg [_ [Hnd Hs]]]]]]]. cbn [map] in Hs.
    change (fold_blocks s []) with s in Hs.
    destruct bs as [|b0 bs0] eqn:Ebs.
    - destruct B; [|discriminate E1]. exists s. split; [exact Hs|exact HR1].
    - rewrite <- Ebs in *. clear Ebs b0 bs0.
      exists (fold_blocks s (map ablock B)). split; [exact Hs|].
      subst bs ls. rewrite (sort_by_map (fun x : N * kbatch => fst x) kblock B).
      set (B' := sort_by (fun a : rblock => fst (kblock a)) B).
      assert (P : Permutation B' B) by apply sort_by_perm.
      assert (Hnd' : NoDup (map fst B')).
      { eapply Permutation_NoDup; [|exact Hnd]. apply Permutation_map. apply Permutation_sym. exact P. }
      assert (Hg' : Forall (good_block s items) B') by (eapply good_perm; [apply Permutation_sym; exact P|exact Hg]).
      pose proof (blocks_Rkv items B' (st_kv st1) s (proj1 HR1) Hnd' Hg') as Hk.
      assert (Hsv : seqv (fold_blocks s (map ablock B')) (fold_blocks s (map ablock B))).
      { apply fold_blocks_perm.
        - apply Permutation_map. exact P.
        - rewrite map_map. exact Hnd'.
        - apply Forall_forall. intros b Hb. apply in_map_iff in Hb. destruct Hb as [b' [<- Hb']].
          pose proof (proj1 (Forall_forall _ _) Hg' b' Hb') as [_ [_ [H3 _]]]. exact H3. }
      split.
      + rewrite fold_set_leo_kv. cbn [MsgStore.st_kv commit]. eapply Rkv_seqv; [exact Hsv|exact Hk].
      + apply fold_set_leo_cache.
        * apply Forall_forall. intros b Hb. pose proof (proj1 (Forall_forall _ _) Hg b Hb) as [H1 _]. exact H1.
        * exact (proj2 HR1).
  Qed.
End CBatch.
