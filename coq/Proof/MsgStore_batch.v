(* Proof/MsgStore_batch.v — the multi-channel StoreAppendBatch (OCBatch): appends
   to pairwise different channels commute on the plain logs (up to the ORDER of
   the taint list), so the one physical batch the model commits in channel order
   refines the item-by-item specification. *)
From WK Require Import Base.Base Model.KV Gen.Consts_C07 Model.MsgStore Model.MsgStore_C07
     Proof.KV Proof.MsgStore_base Proof.MsgStore_rel Proof.MsgStore_reads Proof.MsgStore_frame
     Proof.MsgStore_mut Proof.MsgStore_step Proof.MsgStore_ops.
From Coq Require Import Sorting.Permutation Sorting.Sorted.

(* ---- specifications up to the order of the taint list ------------------------------------------------- *)

Definition seqv (s s' : aspec) : Prop :=
  (forall c, as_log s c = as_log s' c) /\ (forall i, In i (as_tids s) <-> In i (as_tids s')).

Lemma seqv_refl s : seqv s s.
Proof. split; [reflexivity|tauto]. Qed.

Lemma seqv_sym s s' : seqv s s' -> seqv s' s.
Proof. intros [H1 H2]. split; [intro; symmetry; apply H1|intro; symmetry; apply H2]. Qed.

Lemma seqv_trans a b c : seqv a b -> seqv b c -> seqv a c.
Proof. intros [H1 H2] [H3 H4]. split; [intro; rewrite H1; apply H3|intro; rewrite H2; apply H4]. Qed.

Lemma id_stored_seqv s s' i : seqv s s' -> id_stored s i = id_stored s' i.
Proof.
  intros [H _]. unfold id_stored. induction all_chans as [|c l IH]; cbn [existsb]; [reflexivity|]. rewrite H, IH. reflexivity.
Qed.

Lemma spec_append_one_seqv s s' c a : seqv s s' -> seqv (spec_append s c [a]) (spec_append s' c [a]).
Proof.
  intros Hs. pose proof Hs as [Hl Ht]. rewrite !spec_append_one. split.
  - intro c'. cbn [as_log]. destruct (c' =? c); [rewrite Hl; reflexivity|apply Hl].
  - intro i. cbn [as_tids]. rewrite (id_stored_seqv s s' _ Hs).
    destruct (id_stored s' (m_id (a_msg a))); cbn [In]; rewrite Ht; tauto.
Qed.

Lemma spec_append_seqv c l : forall s s', seqv s s' -> seqv (spec_append s c l) (spec_append s' c l).
Proof.
  induction l as [|a l IH]; intros s s' H; [exact H|].
  rewrite !(spec_append_cons _ c a l). apply IH. apply spec_append_one_seqv. exact H.
Qed.

Lemma Rkv_seqv kv s s' : seqv s s' -> Rkv kv s -> Rkv kv s'.
Proof.
  intros [Hl Ht] HR. constructor.
  - apply HR.
  - intro c. destruct (rk_chan _ _ HR c) as [rows Rc]. exists rows.
    apply (Rchan_frame kv kv s s' c rows (rk_wf _ _ HR) (rk_wf _ _ HR)); [reflexivity|symmetry; apply Hl|exact Rc].
  - apply HR.
  - intros c q r G Hn. apply (rk_gc _ _ HR); [exact G|]. intro Hin. apply Hn. apply Ht. exact Hin.
  - apply HR.
Qed.

(* ---- two rows appended to different channels commute ---------------------------------------------------- *)

Lemma id_stored_one s c a i : In c all_chans ->
  id_stored (spec_append s c [a]) i = id_stored s i || (m_id (a_msg a) =? i).
Proof.
  intro Hc. rewrite spec_append_one. unfold id_stored. cbn [as_log].
  unfold all_chans in *. cbn [existsb In] in *.
  destruct Hc as [<-|[<-|[<-|[]]]]; cbn [N.eqb Pos.eqb existsb al_rows]; rewrite ?existsb_app; cbn [existsb];
    rewrite ?orb_false_r; destruct (existsb _ (al_rows (as_log s 0))), (existsb _ (al_rows (as_log s 1))), (existsb _ (al_rows (as_log s 2))),
      (m_id (a_msg a) =? i); reflexivity.
Qed.

Definition app_log (l : alog) (a : arow) : alog :=
  AL (al_rows l ++ [a]) (m_seq (a_msg a)) (al_ck l) (al_hist l)
     (if both_nonempty (m_uid (a_msg a)) (m_cno (a_msg a)) && pair_stored l (m_uid (a_msg a)) (m_cno (a_msg a))
      then (m_uid (a_msg a), m_cno (a_msg a)) :: al_tpairs l else al_tpairs l).

Lemma app_log_one s c a : as_log (spec_append s c [a]) c = app_log (as_log s c) a.
Proof. rewrite spec_append_one. cbn [as_log]. rewrite N.eqb_refl. reflexivity. Qed.

Lemma swap_rows s c1 c2 a b :
  c1 <> c2 -> In c1 all_chans -> In c2 all_chans ->
  seqv (spec_append (spec_append s c1 [a]) c2 [b]) (spec_append (spec_append s c2 [b]) c1 [a]).
Proof.
  intros Hne H1 H2.
  assert (E12 : (c1 =? c2) = false) by (apply N.eqb_neq; exact Hne).
  assert (E21 : (c2 =? c1) = false) by (apply N.eqb_neq; intro X; apply Hne; symmetry; exact X).
  split.
  - intro c. destruct (N.eq_dec c c2) as [->|Hn2]; [|destruct (N.eq_dec c c1) as [->|Hn1]].
    + rewrite (spec_append_other (spec_append s c2 [b]) c1 [a] c2) by (intro X; apply Hne; symmetry; exact X).
      rewrite !app_log_one. rewrite (spec_append_other s c1 [a] c2) by (intro X; apply Hne; symmetry; exact X). reflexivity.
    + rewrite (spec_append_other (spec_append s c1 [a]) c2 [b] c1) by exact Hne.
      rewrite !app_log_one. rewrite (spec_append_other s c2 [b] c1) by exact Hne. reflexivity.
    + rewrite !spec_append_other by assumption. reflexivity.
  - intro i.
    rewrite (spec_append_one (spec_append s c1 [a]) c2 b), (spec_append_one (spec_append s c2 [b]) c1 a). cbn [as_tids].
    rewrite (id_stored_one s c1 a _ H1), (id_stored_one s c2 b _ H2).
    rewrite (spec_append_one s c1 a), (spec_append_one s c2 b). cbn [as_tids].
    destruct (id_stored s (m_id (a_msg a))) eqn:Sa; destruct (id_stored s (m_id (a_msg b))) eqn:Sb; cbn [orb In];
      destruct (m_id (a_msg a) =? m_id (a_msg b)) eqn:Eab;
      try (apply N.eqb_eq in Eab); rewrite ?(N.eqb_sym (m_id (a_msg b))), ?Eab; cbn [In];
      try rewrite Eab; intuition (try congruence).
Qed.

Lemma swap_row_list c1 c2 a l2 : c1 <> c2 -> In c1 all_chans -> In c2 all_chans -> forall s,
  seqv (spec_append (spec_append s c1 [a]) c2 l2) (spec_append (spec_append s c2 l2) c1 [a]).
Proof.
  intros Hne H1 H2. induction l2 as [|b l2 IH]; intro s; [apply seqv_refl|].
  rewrite (spec_append_cons _ c2 b l2).
  eapply seqv_trans; [apply spec_append_seqv; apply swap_rows; assumption|].
  eapply seqv_trans; [apply IH|]. rewrite (spec_append_cons s c2 b l2). apply seqv_refl.
Qed.

Lemma swap_lists c1 c2 l1 l2 : c1 <> c2 -> In c1 all_chans -> In c2 all_chans -> forall s,
  seqv (spec_append (spec_append s c1 l1) c2 l2) (spec_append (spec_append s c2 l2) c1 l1).
Proof.
  intros Hne H1 H2. induction l1 as [|a l1 IH]; intro s; [apply seqv_refl|].
  rewrite (spec_append_cons s c1 a l1).
  eapply seqv_trans; [apply IH|].
  rewrite (spec_append_cons (spec_append s c2 l2) c1 a l1).
  apply spec_append_seqv. apply swap_row_list; assumption.
Qed.

(* ---- folding blocks -------------------------------------------------------------------------------------------- *)

Definition block := (N * list arow)%type.

Definition fold_blocks (s : aspec) (bl : list block) : aspec :=
  fold_left (fun s b => spec_append s (fst b) (snd b)) bl s.

Lemma fold_blocks_seqv bl : forall s s', seqv s s' -> seqv (fold_blocks s bl) (fold_blocks s' bl).
Proof.
  induction bl as [|b bl IH]; intros s s' H; [exact H|]. cbn [fold_blocks fold_left]. apply IH. apply spec_append_seqv. exact H.
Qed.

Lemma fold_blocks_perm bl1 bl2 :
  Permutation bl1 bl2 -> NoDup (map fst bl1) -> Forall (fun b => In (fst b) all_chans) bl1 ->
  forall s, seqv (fold_blocks s bl1) (fold_blocks s bl2).
Proof.
  induction 1 as [|x l l' P IH|x y l|l l' l'' P1 IH1 P2 IH2]; intros Hnd Hch s.
  - apply seqv_refl.
  - cbn [fold_blocks fold_left]. cbn [map] in Hnd. inversion Hnd; subst. inversion Hch; subst. apply IH; assumption.
  - cbn [fold_blocks fold_left]. apply fold_blocks_seqv.
    cbn [map] in Hnd. inversion Hnd as [|? ? Hn1 Hn2]; subst. inversion Hch as [|? ? Hy Hrest]; subst. inversion Hrest as [|? ? Hx _]; subst.
    apply swap_lists; [|exact Hy|exact Hx]. intro E. apply Hn1. left. symmetry. exact E.
  - eapply seqv_trans; [apply IH1; assumption|]. apply IH2.
    + eapply Permutation_NoDup; [apply Permutation_map; exact P1|exact Hnd].
    + eapply Permutation_Forall; eassumption.
Qed.

Lemma fold_blocks_other bl c : ~ In c (map fst bl) -> forall s, as_log (fold_blocks s bl) c = as_log s c.
Proof.
  induction bl as [|b bl IH]; intros Hn s; [reflexivity|]. cbn [fold_blocks fold_left].
  cbn [map In] in Hn. rewrite IH by tauto. apply spec_append_other. intro E. apply Hn. left. symmetry. exact E.
Qed.
