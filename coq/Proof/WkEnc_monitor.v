(* Proof/WkEnc_monitor.v — the monitor C25_monitor accepts every trace the model
   produces (or an MD5 collision is exhibited): links the property evaluated on
   implementation traces to the theorems of Proof/WkEnc.v. *)
From WK Require Import Base.Base Base.Bytes Gen.Consts_C25 Model.WkEnc.
From WK Require Import Proof.WkEnc_b64 Proof.WkEnc_blocks Proof.WkEnc.
From Coq Require Import ZifyBool ZifyN ZifyNat.
Open Scope N_scope.

(* ---- decimal digits are bytes ------------------------------------------------------------ *)

Lemma dec_digits_bytes fuel : forall n acc, all_bytes acc = true -> all_bytes (dec_digits fuel n acc) = true.
Proof.
  induction fuel as [|f IH]; intros n acc H; [exact H|].
  cbn [dec_digits].
  assert (H' : all_bytes ((48 + n mod 10) :: acc) = true).
  { apply all_bytes_cons. split; [|exact H]. pose proof (N.mod_lt n 10). lia. }
  destruct (n / 10 =? 0); [exact H'|apply IH; exact H'].
Qed.

Lemma append_uint_bytes n : all_bytes (append_uint n) = true.
Proof. apply dec_digits_bytes. reflexivity. Qed.

Definition wf_packet (p : send_packet) : Prop :=
  all_bytes (sp_msgno p) = true /\ all_bytes (sp_chid p) = true /\ all_bytes (sp_payload p) = true.

Lemma sign_bytes_bytes p : wf_packet p -> all_bytes (send_sign_bytes p) = true.
Proof.
  intros (H1 & H2 & H3). unfold send_sign_bytes.
  rewrite !all_bytes_app, !append_uint_bytes, H1, H2, H3. reflexivity.
Qed.

(* inputs are byte strings *)
Definition wf_op (o : c25_op) : Prop :=
  match o with
  | OpNeg _ _ _ _ _ _ _ _ => True
  | OpEnc keys payload _ _ _ => all_bytes (AESIV keys) = true /\ all_bytes payload = true
  | OpDec _ _ _ => True
  | OpSend keys _ plain _ msgno chid _ _ _ _ _ tampered _ _ _ =>
    all_bytes (AESIV keys) = true /\ all_bytes plain = true /\ all_bytes msgno = true /\ all_bytes chid = true
    /\ wf_packet tampered
  | OpRecv keys _ _ pkt _ _ _ => all_bytes (AESIV keys) = true /\ all_bytes (rp_payload pkt) = true
  end.

Lemma res_eqb_refl {A} (eqb : A -> A -> bool) (r : res A) :
  (forall a, eqb a a = true) -> res_eqb eqb r r = true.
Proof. intro H. destruct r; cbn [res_eqb]; [apply H|apply N.eqb_refl]. Qed.

Lemma keys_eqb_refl k : keys_eqb k k = true.
Proof. apply keys_eqb_eq. reflexivity. Qed.

Section Monitor.

Variable aesE aesD : bytes -> bytes -> bytes.
Variable md5 : bytes -> bytes.
Variable x25519 : bytes -> bytes -> option bytes.
Hypothesis AES : aes_ok aesE aesD.
Hypothesis MD5 : md5_ok md5.
Hypothesis DH : dh_ok x25519.

(* with a consistent session the adapter helpers are the keys entry points *)
Lemma consistent_cases keys s : sess_consistent keys s = true ->
  (exists sc, NewSessionCrypto keys = Ok sc /\ SessionCryptoFromSession s = Some sc) \/
  (SessionCryptoFromSession s = None /\
   (SessionKeysFromSession s = Some keys \/ (SessionKeysFromSession s = None /\ ~ usable keys))).
Proof.
  intro C. unfold sess_consistent in C. unfold SessionCryptoFromSession.
  destruct (s_crypto s) as [k|].
  - apply andb_true_iff in C. destruct C as [C1 C2]. apply keys_eqb_eq in C1. subst k.
    destruct (NewSessionCrypto keys) as [sc|] eqn:K; [|discriminate]. left. exists sc. split; reflexivity.
  - right. split; [reflexivity|]. unfold SessionKeysFromSession.
    destruct (s_key s) as [k|]; [|discriminate]. destruct (s_iv s) as [iv|]; [|discriminate].
    apply andb_true_iff in C. destruct C as [C1 C2]. apply bytes_eqb_eq in C1, C2. subst.
    destruct keys as [k iv]. cbn [AESKey AESIV bytesValue].
    destruct k as [|x k]; [right; split; [reflexivity|intros [U _]; cbn in U; lia]|].
    destruct iv as [|y iv]; [right; split; [reflexivity|intros [_ U]; cbn in U; lia]|].
    left. reflexivity.
Qed.

Lemma Decrypt_crypto_eq keys sc d : NewSessionCrypto keys = Ok sc ->
  DecryptPayloadWithCrypto aesD d (Some sc) = DecryptPayload aesD d keys.
Proof. intro K. unfold DecryptPayload, with_keys. rewrite K. reflexivity. Qed.

Lemma adapter_send_eq keys sc s p : NewSessionCrypto keys = Ok sc -> sess_consistent keys s = true ->
  decryptSendPacketForSession aesE aesD md5 s p =
  match ValidateSendPacket aesE md5 p keys with
  | 0 => DecryptPayload aesD (sp_payload p) keys
  | e => Err e
  end.
Proof.
  intros K C. unfold decryptSendPacketForSession.
  destruct (consistent_cases keys s C) as [(sc' & K' & E)|[E1 [E2|[_ NU]]]].
  - rewrite K in K'. inversion K'; subst sc'.
    rewrite E, (Validate_crypto_eq aesE md5 keys sc p K), (Decrypt_crypto_eq keys sc _ K). reflexivity.
  - rewrite E1, E2. reflexivity.
  - exfalso. apply NU. apply NewSessionCrypto_ok in K. apply K.
Qed.

Lemma adapter_recv_ok keys s p r : sess_consistent keys s = true ->
  sealRecvPacketForSession aesE md5 s p = Ok r -> SealRecvPacket aesE md5 p keys = Ok r.
Proof.
  intros C. unfold sealRecvPacketForSession.
  destruct (consistent_cases keys s C) as [(sc & K & E)|[E1 [E2|[E2 _]]]].
  - rewrite E. unfold SealRecvPacket, with_keys. rewrite K. trivial.
  - rewrite E1, E2. trivial.
  - rewrite E1, E2. discriminate.
Qed.

Lemma seal_payload keys p e k : SealRecvPacket aesE md5 p keys = Ok (e, k) ->
  EncryptPayload aesE (rp_payload p) keys = Ok e.
Proof.
  unfold SealRecvPacket, EncryptPayload, with_keys. destruct (NewSessionCrypto keys) as [sc|]; [|discriminate].
  cbn [SealRecvPacketWithCrypto EncryptPayloadWithCrypto msgKeyWithCrypto]. intro E. inversion E. reflexivity.
Qed.

(* ---- one operation --------------------------------------------------------------------------------- *)

Lemma mon_neg cpriv ckey rnd cs ci a b c :
  mon_op (model_op aesE aesD md5 x25519 (OpNeg cpriv ckey rnd cs ci a b c)) = true.
Proof.
  cbn [model_op mon_op].
  destruct (NegotiateServerSession md5 x25519 ckey rnd) as [[skeys spub]|e] eqn:N; [|reflexivity].
  destruct (negotiated_usable md5 x25519 MD5 ckey rnd skeys spub N) as [L1 L2].
  rewrite L1, L2, !Nat.eqb_refl. cbn [andb].
  destruct (bytes_eqb ckey (b64_encode (opt_get (x25519 cpriv X25519Basepoint) []))) eqn:Q1; [|reflexivity].
  destruct (Nat.eqb (length (opt_get (x25519 cpriv X25519Basepoint) [])) 32) eqn:Q2; [|reflexivity].
  destruct cs as [x|]; [reflexivity|]. destruct ci as [x|]; [reflexivity|]. cbn [andb is_none opt_get].
  destruct (x25519 cpriv X25519Basepoint) as [cpub|] eqn:Hc; [|discriminate]. cbn [opt_get] in Q1.
  apply bytes_eqb_eq in Q1. subst ckey.
  rewrite (same_keys md5 x25519 DH cpriv cpub rnd skeys spub Hc N).
  cbn [res_eqb]. apply keys_eqb_refl.
Qed.

Lemma mon_enc keys payload a b c : wf_op (OpEnc keys payload a b c) ->
  mon_op (model_op aesE aesD md5 x25519 (OpEnc keys payload a b c)) = true.
Proof.
  intros [Hiv Hp]. cbn [model_op mon_op andb].
  destruct (EncryptPayload aesE payload keys) as [e|] eqn:E; [|reflexivity].
  rewrite (decrypt_encrypt aesE aesD AES keys payload e Hiv Hp E). cbn [res_eqb]. apply bytes_eqb_refl.
Qed.

Lemma mon_recv keys s direct pkt a b c : wf_op (OpRecv keys s direct pkt a b c) ->
  mon_op (model_op aesE aesD md5 x25519 (OpRecv keys s direct pkt a b c)) = true.
Proof.
  intros [Hiv Hp]. cbn [model_op mon_op andb].
  set (sealed := if direct then SealRecvPacket aesE md5 pkt keys else sealRecvPacketForSession aesE md5 s pkt).
  destruct sealed as [[e k]|err] eqn:S; [|reflexivity].
  destruct (direct || sess_consistent keys s) eqn:DC; [|reflexivity]. cbn [negb orb].
  assert (S' : SealRecvPacket aesE md5 pkt keys = Ok (e, k)).
  { subst sealed. destruct direct; [exact S|]. cbn [orb] in DC. exact (adapter_recv_ok keys s pkt _ DC S). }
  apply seal_payload in S'.
  rewrite (decrypt_encrypt aesE aesD AES keys (rp_payload pkt) e Hiv Hp S'). cbn [res_eqb]. apply bytes_eqb_refl.
Qed.

Lemma mon_send keys s plain seq msgno chid chtype a b c d tampered e f g :
  wf_op (OpSend keys s plain seq msgno chid chtype a b c d tampered e f g) ->
  mon_op (model_op aesE aesD md5 x25519 (OpSend keys s plain seq msgno chid chtype a b c d tampered e f g)) = true
  \/ md5_collision md5.
Proof.
  intros (Hiv & Hp & Hno & Hch & Ht). cbn [model_op mon_op andb].
  destruct (EncryptPayload aesE plain keys) as [enc|] eqn:E; [|left; reflexivity].
  assert (K : exists sc, NewSessionCrypto keys = Ok sc).
  { unfold EncryptPayload, with_keys in E. destruct (NewSessionCrypto keys) as [sc|]; [eexists; reflexivity|discriminate]. }
  destruct K as [sc K].
  unfold honest_packet. cbn [res_get].
  set (h0 := SendPkt [] seq msgno chid chtype enc).
  rewrite (SendMsgKey_usable aesE md5 keys sc h0 K). cbn [res_get].
  set (k := hexMD5String (md5 (msg_key_preimage aesE (send_sign_bytes h0) sc))).
  set (h := SendPkt k seq msgno chid chtype enc).
  assert (MK : SendMsgKey aesE md5 h keys = Ok k) by (rewrite (SendMsgKey_usable aesE md5 keys sc h K); reflexivity).
  (* honest packet *)
  rewrite (validate_honest aesE md5 keys h k MK eq_refl). cbn [N.eqb andb].
  assert (A0 : sess_consistent keys s = true -> decryptSendPacketForSession aesE aesD md5 s h = Ok plain).
  { intro C. rewrite (adapter_send_eq keys sc s h K C), (validate_honest aesE md5 keys h k MK eq_refl).
    cbn [sp_payload h]. exact (decrypt_encrypt aesE aesD AES keys plain enc Hiv Hp E). }
  assert (G0 : negb (sess_consistent keys s) || res_eqb bytes_eqb (decryptSendPacketForSession aesE aesD md5 s h) (Ok plain) = true).
  { destruct (sess_consistent keys s) eqn:C; [|reflexivity]. rewrite (A0 eq_refl). cbn [negb orb res_eqb]. apply bytes_eqb_refl. }
  rewrite G0. cbn [andb].
  (* rejected packets *)
  assert (REJ : ValidateSendPacket aesE md5 tampered keys = E_MsgKeyMismatch ->
                negb (ValidateSendPacket aesE md5 tampered keys =? 0)
                && (negb (sess_consistent keys s) || negb (is_ok (decryptSendPacketForSession aesE aesD md5 s tampered))) = true).
  { intro V. rewrite V. cbn [N.eqb negb andb]. change (E_MsgKeyMismatch =? 0) with false. cbn [negb andb].
    destruct (sess_consistent keys s) eqn:C; [|reflexivity].
    rewrite (adapter_send_eq keys sc s tampered K C), V. reflexivity. }
  assert (Bh : all_bytes (send_sign_bytes h) = true).
  { apply sign_bytes_bytes. repeat split; try assumption. cbn [sp_payload h].
    unfold EncryptPayload, with_keys in E. rewrite K in E. cbn [EncryptPayloadWithCrypto] in E. inversion E.
    apply b64_encode_all_bytes. }
  assert (Bt : all_bytes (send_sign_bytes tampered) = true) by (apply sign_bytes_bytes; exact Ht).
  destruct (bytes_eqb (sp_msgkey tampered) k) eqn:KS;
    destruct (bytes_eqb (send_sign_bytes tampered) (send_sign_bytes h)) eqn:SS; cbn [andb orb negb].
  - (* nothing covered changed *)
    apply bytes_eqb_eq in KS, SS.
    destruct ((sp_seq tampered =? seq) && bytes_eqb (sp_msgno tampered) msgno && bytes_eqb (sp_chid tampered) chid
              && (sp_chtype tampered =? chtype) && bytes_eqb (sp_payload tampered) enc) eqn:U; [|left; reflexivity].
    repeat (apply andb_true_iff in U; let U2 := fresh "U" in destruct U as [U U2]).
    apply N.eqb_eq in U, U1. apply bytes_eqb_eq in U0, U2, U3.
    assert (T : tampered = h).
    { destruct tampered as [tk ts tn tc tt tp]. cbn in *. subst. reflexivity. }
    rewrite T. rewrite (validate_honest aesE md5 keys h k MK eq_refl). cbn [N.eqb andb]. left. exact G0.
  - (* covered bytes altered under the same key *)
    apply bytes_eqb_eq in KS.
    assert (N : send_sign_bytes tampered <> send_sign_bytes h).
    { intro Q. rewrite Q, bytes_eqb_refl in SS. discriminate. }
    destruct (tamper_covered aesE aesD md5 AES MD5 keys h tampered k Hiv Bh Bt MK KS N) as [V|COL]; [|right; exact COL].
    left. exact (REJ V).
  - (* message key altered *)
    apply bytes_eqb_eq in SS.
    assert (N : sp_msgkey tampered <> k).
    { intro Q. rewrite Q, bytes_eqb_refl in KS. discriminate. }
    left. exact (REJ (tamper_key aesE md5 keys h tampered k MK SS N)).
  - left. reflexivity.
Qed.

Theorem mon_model_op o : wf_op o ->
  mon_op (model_op aesE aesD md5 x25519 o) = true \/ md5_collision md5.
Proof.
  destruct o; intro W.
  - left. apply mon_neg.
  - left. apply mon_enc. exact W.
  - left. reflexivity.
  - apply mon_send. exact W.
  - left. apply mon_recv. exact W.
Qed.

(* c25_model_satisfies_monitor *)
Theorem model_satisfies_monitor ops tE tD tM tDH : Forall wf_op ops ->
  C25_monitor (C25Case (map (model_op aesE aesD md5 x25519) ops) tE tD tM tDH) = 0 \/ md5_collision md5.
Proof.
  intro W. unfold C25_monitor. cbn [c25_ops].
  induction W as [|o ops Wo _ IH]; [left; reflexivity|].
  cbn [map forallb].
  destruct (mon_model_op o Wo) as [M|COL]; [|right; exact COL]. rewrite M. cbn [andb]. exact IH.
Qed.

End Monitor.

(* ---- sanity of the correspondence predicate: a case whose observations are the model's own,
   evaluated with the case's oracle tables as primitives, is never a mismatch ------------------- *)

Lemma obs_eqb_refl o : obs_eqb o o = true.
Proof.
  assert (B : forall r : res bytes, res_eqb bytes_eqb r r = true) by (intro r; apply res_eqb_refl; apply bytes_eqb_refl).
  destruct o; cbn [obs_eqb]; rewrite ?B, ?N.eqb_refl, ?bytes_eqb_refl; cbn [andb]; try reflexivity.
  - rewrite !res_eqb_refl; [reflexivity|apply keys_eqb_refl|].
    intros [k b]. unfold pair_eqb. cbn [fst snd]. rewrite keys_eqb_refl, bytes_eqb_refl. reflexivity.
  - rewrite res_eqb_refl; [reflexivity|].
    intros [a b]. unfold pair_eqb. cbn [fst snd]. rewrite !bytes_eqb_refl. reflexivity.
Qed.

Lemma model_op_idem aesE aesD md5 dh o :
  model_op aesE aesD md5 dh (model_op aesE aesD md5 dh o) = model_op aesE aesD md5 dh o.
Proof. destruct o; reflexivity. Qed.

Theorem model_no_mismatch ops tE tD tM tDH :
  let aesE := lookup_block tE in
  let aesD := lookup_block tD in
  let md5 := fun m => lookup1 tM m [] in
  let dh := fun a p => lookup2 tDH a p None in
  C25_mismatch (C25Case (map (model_op aesE aesD md5 dh) ops) tE tD tM tDH) = false.
Proof.
  cbv zeta. unfold C25_mismatch. cbn [c25_ops c25_tabE c25_tabD c25_tabMD5 c25_tabDH].
  apply negb_false_iff. apply forallb_forall. intros o Ho. apply in_map_iff in Ho.
  destruct Ho as (o' & <- & _). rewrite model_op_idem. apply obs_eqb_refl.
Qed.


(* ---- the assumptions are satisfiable ---------------------------------------------------------- *)

Lemma toy_primitives_ok :
  aes_ok (fun _ b => rev b) (fun _ b => rev b)
  /\ md5_ok (fun _ => repeat 7 16)
  /\ dh_ok (fun _ _ => Some (repeat 9 32)).
Proof.
  split; [|split].
  - split.
    + intros k b _. apply rev_involutive.
    + intros k b [L B]. split; [rewrite rev_length; exact L|rewrite all_bytes_rev; exact B].
  - intro m. split; reflexivity.
  - split.
    + intros x y pa pb _ _. reflexivity.
    + intros x p r H. inversion H. split; reflexivity.
Qed.
