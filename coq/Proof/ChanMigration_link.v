(* Proof/ChanMigration_link.v — the temporal clause of the monitor on the model's trace, and the
   link theorem: on every history of one-command batches the monitor, run on the model's own
   observations, returns 0, 2 (K1) or 3 (K2) — never 1 — and returns 0 when no accepted
   Claim/Advance/Reset moves a task out of a post-commit phase. *)
From WK Require Import Base.Base.
From WK Require Import Gen.Consts_C15 Gen.Consts_C17 Model.RuntimeMeta Model.ChanMigration Model.ChanMigration_C17.
From WK Require Import Proof.RuntimeMeta Proof.ChanMigration Proof.ChanMigration_cmds Proof.ChanMigration_inv
                       Proof.ChanMigration_step Proof.ChanMigration_meta Proof.ChanMigration_trace
                       Proof.ChanMigration_monitor.
Open Scope N_scope.

(* ---- leaving a post-commit phase ----------------------------------------------------------------- *)

Lemma post_phase_facts p :
  post_commit_phase p = true ->
  (p =? PhaseWriteFence) = false /\ (p =? PhaseWarmCatchUp) = false /\ (p =? PhaseCommitLeaderMeta) = false
  /\ (p =? PhaseAddLearner) = false /\ (p =? PhasePromoteAndRemove) = false.
Proof.
  unfold post_commit_phase. intro H.
  apply orb_true_iff in H. destruct H as [H|H]; [apply orb_true_iff in H; destruct H as [H|H]|];
    apply N.eqb_eq in H; subst p; repeat split; reflexivity.
Qed.

Lemma setFence_keeps_post_phase t h :
  requireChannelMigrationSetFenceTransition t h = true -> post_commit_phase (t_phase t) = true ->
  tr_phase h = t_phase t.
Proof.
  intros R P. destruct (post_phase_facts _ P) as (F1 & F2 & _).
  unfold requireChannelMigrationSetFenceTransition in R. rewrite F1, F2 in R. cbn [andb orb] in R.
  destruct (negb (tr_status h =? StatusRunning)); [discriminate|].
  destruct (isLeaderTransferTaskKind (t_kind t)
            || (t_kind t =? KindReplicaReplace) && t_embedded_leader_transfer t && isLeaderTransferPhase (t_phase t)).
  - apply andb_prop in R. destruct R as [_ R]. apply N.eqb_eq in R. exact R.
  - destruct (t_kind t =? KindReplicaReplace); [|discriminate].
    apply andb_prop in R. destruct R as [_ R]. apply N.eqb_eq in R. exact R.
Qed.

(* a task+meta command accepted on a task in a post-commit phase: it is the reset, or the task stays
   in a post-commit phase (and the command is not an abort), or it is the clear-fence that ends the
   embedded leader-transfer leg of a replica replacement *)
Lemma taskmeta_from_post c t m nt nm :
  mutate_task_meta c t m = Ok (nt, nm) -> post_commit_phase (t_phase t) = true ->
  is_reset c = true
  \/ (post_commit_phase (t_phase nt) = true /\ is_abort c = false
      /\ ((t_phase nt = t_phase t /\ t_embedded_leader_transfer nt = t_embedded_leader_transfer t)
          \/ t_phase nt = PhaseClearFence))
  \/ (is_embedded_leg_clear c = true /\ (t_kind t =? KindReplicaReplace) = true
      /\ t_embedded_leader_transfer t = true /\ (t_phase t =? PhaseVerifyNewLeader) = true
      /\ (t_phase nt =? PhaseAddLearner) = true /\ t_embedded_leader_transfer nt = false).
Proof.
  intros M P. destruct (post_phase_facts _ P) as (F1 & F2 & F3 & F4 & F5).
  destruct c; cbn [mutate_task_meta] in M; try discriminate.
  - (* set fence *)
    right. left.
    unfold mutSetFence in M. repeat if_inv M. b2p. inversion M; subst.
    cbn [t_phase set_status_phase_updated].
    rewrite (setFence_keeps_post_phase _ _ E P).
    split; [exact P|]. split; [reflexivity|]. left. split; reflexivity.
  - left. reflexivity.
  - exfalso. destruct (mutCommit_needs_proof _ _ _ _ _ _ _ _ M) as (_ & Ph & _).
    rewrite Ph in F3. discriminate.
  - exfalso. unfold mutAddLearner in M. if_inv M. b2p.
    unfold requireChannelMigrationAddLearnerTransition in E. b2p.
    match goal with Hq : (t_phase t =? PhaseAddLearner) = true |- _ => rewrite F4 in Hq; discriminate end.
  - exfalso. destruct (mutPromote_needs_proof _ _ _ _ _ _ _ M) as (_ & Ph & _).
    rewrite Ph in F5. discriminate.
  - (* clear fence *)
    unfold mutClear in M. if_inv M. b2p. if_inv M.
    + inversion M; subst. right. left. split; [exact P|]. split; [reflexivity|]. left. split; reflexivity.
    + repeat if_inv M. inversion M; subst. clear M.
      unfold requireChannelMigrationClearFenceTransition in E.
      destruct (negb (isChannelMigrationFencePhaseAllowed t)); [discriminate|].
      destruct ((tr_status h =? StatusCompleted) && (tr_phase h =? PhaseClearFence) && (0 <? completed)%Z) eqn:C1.
      * right. left. b2p.
        match goal with Hq : (tr_phase h =? PhaseClearFence) = true |- _ => apply N.eqb_eq in Hq end.
        match goal with |- context [if ?cc then _ else _] => destruct cc end;
          cbn [t_phase set_embedded set_completed set_status_phase_updated];
          match goal with Hq : tr_phase h = PhaseClearFence |- _ => rewrite Hq end;
          (split; [reflexivity|split; [reflexivity|right; reflexivity]]).
      * right. right. b2p.
        repeat match goal with Hq : (_ =? _) = true |- _ => rewrite Hq end.
        repeat match goal with Hq : t_embedded_leader_transfer t = true |- _ => rewrite Hq end.
        cbn [andb is_embedded_leg_clear].
        repeat match goal with Hq : (_ =? _) = true |- _ => rewrite Hq end.
        cbn [andb t_phase t_embedded_leader_transfer set_embedded set_completed set_status_phase_updated].
        repeat match goal with Hq : (_ =? _) = true |- _ => rewrite Hq end.
        repeat split; reflexivity.
  - exfalso. apply mutAbort_ok in M. destruct M as [_ M]. rewrite P in M. discriminate.
Qed.

(* ---- marks ------------------------------------------------------------------------------------------ *)

Definition mark_ok (d : db) (k : tkey) (m : mark) : Prop :=
  mk_other m = false
  /\ (mk_post m = true -> mk_adv m = false -> mk_reset m = false ->
      exists t, task_get (db_tasks d) k = Some t /\ post_commit_phase (t_phase t) = true).

Definition mark_clean (m : mark) : Prop := mk_adv m = false /\ mk_reset m = false.

Lemma mark_zero_ok d k : mark_ok d k mark_zero.
Proof. split; [reflexivity|discriminate]. Qed.
Lemma mark_zero_clean : mark_clean mark_zero.
Proof. split; reflexivity. Qed.

Definition good (n : N) : Prop := n = 0 \/ n = 2 \/ n = 3.

Lemma abort_code_good d k m : mark_ok d k m -> good (abort_code m) \/
  (mk_post m = true /\ mk_adv m = false /\ mk_reset m = false).
Proof.
  intros [O _]. unfold abort_code, good. rewrite O.
  destruct (mk_post m); cbn [negb]; [|left; auto].
  destruct (mk_adv m); [left; auto|]. destruct (mk_reset m); [left; auto|]. right. auto.
Qed.

(* executor discipline for one command: a Reset is never applied to a task that is in a
   post-commit phase, and a Claim/Advance applied to such a task keeps its phase and its
   embedded-transfer flag (the executor's own Claim / blockTask do) *)
Definition disciplined (d : db) (c : cmd) : Prop :=
  forall k t, cmd_key c = Some k -> task_get (db_tasks d) k = Some t -> post_commit_phase (t_phase t) = true ->
    is_reset c = false
    /\ (forall next, is_claim_advance c = true -> mutate_task c t = Ok next ->
        t_phase next = t_phase t /\ t_embedded_leader_transfer next = t_embedded_leader_transfer t).

(* ---- mark_step as a function of seven booleans ---------------------------------------------------------- *)

Definition mark_fn (pre_post cur_post has_adv has_reset aborted leg_done adv_moved : bool) (m0 : mark) : N * mark :=
  let m1 := if pre_post then Mark true (mk_adv m0) (mk_reset m0) (mk_other m0) else m0 in
  let leaving := pre_post && (negb cur_post || aborted || adv_moved) in
  let m2 := if leaving then
              if leg_done then mark_zero
              else Mark (mk_post m1) (mk_adv m1 || has_adv) (mk_reset m1 || has_reset)
                        (mk_other m1 || (negb has_adv && negb has_reset))
            else m1 in
  let code := if aborted then abort_code m2 else 0 in
  let m3 := if cur_post then Mark true (mk_adv m2) (mk_reset m2) (mk_other m2) else m2 in
  (code, m3).

(* what the model guarantees about one step of one row *)
Record step_facts (pre_post cur_post has_adv has_reset aborted leg_done adv_moved : bool) : Prop := {
  sf_cause : pre_post = true -> negb cur_post || aborted || adv_moved = true ->
             leg_done = true \/ has_adv = true \/ has_reset = true;
  sf_abort : aborted = true -> pre_post = false;
  sf_leg : leg_done = true -> cur_post = false /\ aborted = false /\ has_adv = false;
  sf_moved : adv_moved = true -> has_adv = true }.

Lemma mark_fn_good pre_post cur_post has_adv has_reset aborted leg_done adv_moved m0 :
  step_facts pre_post cur_post has_adv has_reset aborted leg_done adv_moved ->
  mk_other m0 = false ->
  (mk_post m0 = true -> mk_adv m0 = false -> mk_reset m0 = false -> pre_post = true) ->
  let r := mark_fn pre_post cur_post has_adv has_reset aborted leg_done adv_moved m0 in
  good (fst r) /\ mk_other (snd r) = false
  /\ (mk_post (snd r) = true -> mk_adv (snd r) = false -> mk_reset (snd r) = false -> cur_post = true).
Proof.
  intros [Fa Fb Fc Fm] O Pw. destruct m0 as [po ad re ot]. cbn [mk_other mk_post mk_adv mk_reset] in *. subst ot.
  unfold mark_fn, good, abort_code.
  destruct pre_post, cur_post, has_adv, has_reset, aborted, leg_done, adv_moved, po, ad, re;
    cbn [andb orb negb mk_post mk_adv mk_reset mk_other mark_zero fst snd] in *;
    repeat split; auto;
    try (intros; discriminate);
    try (exfalso; destruct (Fa eq_refl eq_refl) as [X|[X|X]]; discriminate);
    try (exfalso; pose proof (Fb eq_refl); discriminate);
    try (exfalso; destruct (Fc eq_refl) as (X1 & X2 & X3); discriminate);
    try (exfalso; pose proof (Fm eq_refl); discriminate);
    try (exfalso; pose proof (Pw eq_refl eq_refl eq_refl); discriminate).
Qed.

Lemma mark_fn_disciplined pre_post cur_post has_adv has_reset aborted leg_done adv_moved m0 :
  step_facts pre_post cur_post has_adv has_reset aborted leg_done adv_moved ->
  (pre_post = true -> negb cur_post || aborted || adv_moved = true -> leg_done = true) ->
  (mk_post m0 = true -> mk_adv m0 = false -> mk_reset m0 = false -> pre_post = true) ->
  mark_clean m0 ->
  let r := mark_fn pre_post cur_post has_adv has_reset aborted leg_done adv_moved m0 in
  fst r = 0 /\ mark_clean (snd r).
Proof.
  intros [Fa Fb Fc Fm] Fd Pw [C1 C2]. destruct m0 as [po ad re ot]. cbn [mk_other mk_post mk_adv mk_reset] in *. subst ad re.
  unfold mark_fn, mark_clean, abort_code.
  destruct pre_post, cur_post, has_adv, has_reset, aborted, leg_done, adv_moved, po, ot;
    cbn [andb orb negb mk_post mk_adv mk_reset mk_other mark_zero fst snd] in *;
    repeat split; auto;
    try (exfalso; pose proof (Fd eq_refl eq_refl); discriminate);
    try (exfalso; pose proof (Fb eq_refl); discriminate);
    try (exfalso; destruct (Fc eq_refl) as (X1 & X2 & X3); discriminate);
    try (exfalso; pose proof (Fm eq_refl); discriminate);
    try (exfalso; pose proof (Pw eq_refl eq_refl eq_refl); discriminate).
Qed.

(* the six booleans of mark_step for key k *)
Definition b_pre_post (d : db) (k : tkey) : bool :=
  match task_get (db_tasks d) k with Some t => post_commit_phase (t_phase t) | None => false end.
Definition b_mine (okc : list cmd) (k : tkey) : list cmd := filter (fun y => cmd_targets y k) okc.
Definition b_aborted (d : db) (okc : list cmd) (k : tkey) (ct : task) : bool :=
  existsb is_abort (b_mine okc k) && (t_status ct =? StatusAborted)
  && match task_get (db_tasks d) k with Some t => negb (t_status t =? StatusAborted) | None => true end.
Definition b_leg_done (d : db) (okc : list cmd) (k : tkey) (ct : task) : bool :=
  existsb is_embedded_leg_clear (b_mine okc k)
  && match task_get (db_tasks d) k with
     | Some t => (t_kind t =? KindReplicaReplace) && t_embedded_leader_transfer t && (t_phase t =? PhaseVerifyNewLeader)
     | None => false
     end
  && negb (post_commit_phase (t_phase ct)).

Definition b_adv_moved (d : db) (okc : list cmd) (k : tkey) (ct : task) : bool :=
  existsb is_claim_advance (b_mine okc k)
  && match task_get (db_tasks d) k with
     | Some t => negb (t_phase t =? t_phase ct)
                 || negb (Bool.eqb (t_embedded_leader_transfer t) (t_embedded_leader_transfer ct))
     | None => false
     end.

Ltac fin := try discriminate; try (intros; discriminate); try (intros; reflexivity); try (intros; auto; fail).

Section MarkStep.
  Variable chs : list chan_key.
  Variable p : snap.
  Variable d : db.
  Variable c : cmd.
  Hypothesis Sh : shows chs p d.
  Hypothesis I : db_inv d.

  Local Notation d' := (fst (apply_one d c)).
  Local Notation x := (snd (apply_one d c)).
  Local Notation okc := (if accepted (snd (apply_one d c)) then [c] else []).
  Local Notation cur := (snap_of (obs_of chs (fst (apply_one d c)) (bres_of (snd (apply_one d c))))).

  Lemma mark_step_as_fn k m0 ct :
    task_get (db_tasks d') k = Some ct ->
    mark_step okc p cur k m0 =
    (fst (mark_fn (b_pre_post d k) (post_commit_phase (t_phase ct)) (existsb is_claim_advance (b_mine okc k))
                  (existsb is_reset (b_mine okc k)) (b_aborted d okc k ct) (b_leg_done d okc k ct) (b_adv_moved d okc k ct) m0),
     Some (snd (mark_fn (b_pre_post d k) (post_commit_phase (t_phase ct)) (existsb is_claim_advance (b_mine okc k))
                        (existsb is_reset (b_mine okc k)) (b_aborted d okc k ct) (b_leg_done d okc k ct) (b_adv_moved d okc k ct) m0))).
  Proof.
    intro G. unfold mark_step. unfold snap_task at 1. cbn [snap_of obs_of s_tasks o_tasks]. rewrite G.
    rewrite (snap_task_p chs p d Sh). reflexivity.
  Qed.

  Lemma mark_step_gone k m0 : task_get (db_tasks d') k = None -> mark_step okc p cur k m0 = (0, None).
  Proof.
    intro G. unfold mark_step. unfold snap_task at 1. cbn [snap_of obs_of s_tasks o_tasks]. rewrite G. reflexivity.
  Qed.

  Lemma post_not_addlearner ph : post_commit_phase ph = true -> (ph =? PhaseAddLearner) = false.
  Proof. intro H. apply (post_phase_facts _ H). Qed.

  (* the facts, for every row that is present after the step *)
  Lemma step_facts_hold k ct :
    task_get (db_tasks d') k = Some ct ->
    step_facts (b_pre_post d k) (post_commit_phase (t_phase ct)) (existsb is_claim_advance (b_mine okc k))
               (existsb is_reset (b_mine okc k)) (b_aborted d okc k ct) (b_leg_done d okc k ct) (b_adv_moved d okc k ct)
    /\ (disciplined d c -> b_pre_post d k = true ->
        negb (post_commit_phase (t_phase ct)) || b_aborted d okc k ct || b_adv_moved d okc k ct = true -> b_leg_done d okc k ct = true).
  Proof.
    intro Gc.
    (* when the row did not change *)
    assert (SameRow : task_get (db_tasks d) k = Some ct ->
      step_facts (b_pre_post d k) (post_commit_phase (t_phase ct)) (existsb is_claim_advance (b_mine okc k))
                 (existsb is_reset (b_mine okc k)) (b_aborted d okc k ct) (b_leg_done d okc k ct) (b_adv_moved d okc k ct)
      /\ (disciplined d c -> b_pre_post d k = true ->
          negb (post_commit_phase (t_phase ct)) || b_aborted d okc k ct || b_adv_moved d okc k ct = true -> b_leg_done d okc k ct = true)).
    { intro G0. unfold b_pre_post, b_aborted, b_leg_done, b_adv_moved. rewrite G0.
      assert (Ab : forall z, z && (t_status ct =? StatusAborted) && negb (t_status ct =? StatusAborted) = false)
        by (intro z; destruct (t_status ct =? StatusAborted); [rewrite andb_false_r|rewrite andb_false_r, andb_false_l]; reflexivity).
      rewrite Ab, N.eqb_refl, Bool.eqb_reflx. cbn [negb orb]. rewrite andb_false_r.
      split; [split|].
      - intros P1 P2. rewrite P1 in P2. discriminate.
      - discriminate.
      - intro L. exfalso. b2p.
        match goal with Hq : (t_phase ct =? PhaseVerifyNewLeader) = true |- _ => apply N.eqb_eq in Hq; rewrite Hq in * end.
        discriminate.
      - discriminate.
      - intros _ P1 P2. rewrite P1 in P2. discriminate. }
    destruct (accepted x) eqn:A.
    2:{ assert (D : d' = d) by (apply not_accepted_same; exact A). rewrite D in Gc. apply SameRow. exact Gc. }
    pose proof (accepted_eq d c A) as E.
    assert (Mine : b_mine [c] k = if cmd_targets c k then [c] else []) by reflexivity.
    destruct (step_row_change d c d' k I E)
      as [S|t0 Hc Hk Hn Hg|g t0 next Hg Hca Hk Hp Hm Hu Hn|h t0 m nt nm Hh Hk Hp Hm Hg Hr Hu Ht0 Hn|b l t0 Hc Hp Ht0 Hn].
    - apply SameRow. rewrite <- S. exact Gc.
    - (* created *)
      unfold b_pre_post, b_aborted, b_leg_done, b_adv_moved. rewrite Hn, Mine.
      assert (Na : existsb is_abort (if cmd_targets c k then [c] else []) = false).
      { destruct (cmd_targets c k); [|reflexivity]. destruct Hc as [Hc|[g Hc]]; subst c; reflexivity. }
      rewrite Na. cbn [andb]. rewrite !andb_false_r. cbn [andb].
      split; [split|]; fin.
    - (* claim / advance *)
      rewrite Gc in Hn. inversion Hn; subst next. clear Hn.
      assert (Tg : cmd_targets c k = true) by (apply cmd_targets_key; rewrite (claim_key _ _ Hca Hg), Hk; reflexivity).
      unfold b_pre_post, b_aborted, b_leg_done, b_adv_moved. rewrite Hp, Mine, Tg. cbn [existsb orb]. rewrite Hca.
      assert (Na : is_abort c = false) by (destruct c; try discriminate Hca; reflexivity).
      assert (Nl : is_embedded_leg_clear c = false) by (destruct c; try discriminate Hca; reflexivity).
      rewrite Na, Nl. cbn [andb orb].
      split; [split|].
      + intros _ _. right. left. reflexivity.
      + fin.
      + fin.
      + fin.
      + intros Dz P0 Q. exfalso.
        destruct (Dz k t0) as [_ Dn]; [rewrite (claim_key _ _ Hca Hg), Hk; reflexivity|exact Hp|exact P0|].
        destruct (Dn ct Hca Hu) as [D1 D2].
        rewrite D1, D2, N.eqb_refl, Bool.eqb_reflx, P0 in Q. discriminate.
    - (* task + meta *)
      rewrite Gc in Hn. inversion Hn; subst nt. clear Hn.
      assert (Tg : cmd_targets c k = true) by (apply cmd_targets_key; rewrite (trans_key _ _ Hh), Hk; reflexivity).
      unfold b_pre_post, b_aborted, b_leg_done, b_adv_moved. rewrite Hp, Mine, Tg. cbn [existsb orb].
      rewrite (trans_not_claim _ _ Hh). rewrite !orb_false_r. cbn [andb].
      destruct (post_commit_phase (t_phase t0)) eqn:P0.
      + destruct (taskmeta_from_post _ _ _ _ _ Hu P0) as [Rs|[(Pc & Na & _)|(Lc & L1 & L2 & L3 & L4 & L5)]].
        * assert (Na : is_abort c = false) by (destruct c; try discriminate Rs; reflexivity).
          assert (Nl : is_embedded_leg_clear c = false) by (destruct c; try discriminate Rs; reflexivity).
          rewrite Rs, Na, Nl. cbn [andb orb].
          split; [split|].
          -- intros _ _. right. right. reflexivity.
          -- fin.
          -- fin.
          -- fin.
          -- intros Dz _ _. destruct (Dz k t0) as [Dr _]; [rewrite (trans_key _ _ Hh), Hk; reflexivity|exact Hp|exact P0|].
             rewrite Rs in Dr. discriminate.
        * rewrite Pc, Na. cbn [andb orb negb]. rewrite !andb_false_r. cbn [andb].
          split; [split|]; fin.
        * assert (Na : is_abort c = false) by (destruct c; try discriminate Lc; reflexivity).
          assert (Pc : post_commit_phase (t_phase ct) = false) by (apply N.eqb_eq in L4; rewrite L4; reflexivity).
          rewrite Na, Lc, L1, L2, L3, Pc. cbn [andb orb negb].
          split; [split|].
          -- intros _ _. left. reflexivity.
          -- fin.
          -- intros _. repeat split; reflexivity.
          -- fin.
          -- intros _ _ _. reflexivity.
      + assert (Q7 : (t_phase t0 =? PhaseVerifyNewLeader) = false).
        { destruct (t_phase t0 =? PhaseVerifyNewLeader) eqn:Q; [|reflexivity].
          apply N.eqb_eq in Q. rewrite Q in P0. discriminate. }
        rewrite Q7. rewrite !andb_false_r. cbn [andb].
        split; [split|]; fin.
    - rewrite Gc in Hn. discriminate.
  Qed.
End MarkStep.

(* ---- one key, one step ------------------------------------------------------------------------------------ *)

Lemma mark_step_key chs p d c k m0 :
  shows chs p d -> db_inv d -> mark_ok d k m0 ->
  let d' := fst (apply_one d c) in
  let okc := if accepted (snd (apply_one d c)) then [c] else [] in
  let cur := snap_of (obs_of chs d' (bres_of (snd (apply_one d c)))) in
  let r := mark_step okc p cur k m0 in
  good (fst r)
  /\ (forall m, snd r = Some m -> mark_ok d' k m)
  /\ (disciplined d c -> mark_clean m0 -> fst r = 0 /\ forall m, snd r = Some m -> mark_clean m).
Proof.
  intros Sh I [O Pw]. cbn zeta.
  destruct (task_get (db_tasks (fst (apply_one d c))) k) as [ct|] eqn:Gc.
  - rewrite (mark_step_as_fn chs p d c Sh k m0 ct Gc). cbn [fst snd].
    destruct (step_facts_hold d c I k ct Gc) as [F Fd].
    assert (Pw' : mk_post m0 = true -> mk_adv m0 = false -> mk_reset m0 = false -> b_pre_post d k = true).
    { intros P1 P2 P3. destruct (Pw P1 P2 P3) as (t & G & Q). unfold b_pre_post. rewrite G. exact Q. }
    destruct (mark_fn_good _ _ _ _ _ _ _ m0 F O Pw') as (G1 & G2 & G3).
    split; [exact G1|]. split.
    + intros m Em. inversion Em; subst m. split; [exact G2|].
      intros P1 P2 P3. exists ct. split; [exact Gc|apply G3; assumption].
    + intros Dz Cl. destruct (mark_fn_disciplined _ _ _ _ _ _ _ m0 F (Fd Dz) Pw' Cl) as [Z Cz].
      split; [exact Z|]. intros m Em. inversion Em; subst m. exact Cz.
  - rewrite (mark_step_gone chs p d c k m0 Gc). cbn [fst snd].
    split; [left; reflexivity|]. split; [discriminate|]. intros _ _. split; [reflexivity|discriminate].
Qed.

(* ---- the fold over the rows ---------------------------------------------------------------------------------- *)

Lemma assoc_get_snoc (l : marks) k m k' :
  assoc_get tkey_eqb (l ++ [(k, m)]) k' =
  match assoc_get tkey_eqb l k' with Some v => Some v | None => if tkey_eqb k k' then Some m else None end.
Proof.
  induction l as [|[k0 v0] l IH]; cbn [app assoc_get]; [reflexivity|].
  destruct (tkey_eqb k0 k'); [reflexivity|exact IH].
Qed.

Lemma good_combine a b : good a -> good b -> good (combine a b).
Proof.
  unfold good, combine. intros [A|[A|A]] [B|[B|B]]; subst; cbn [N.eqb orb Pos.eqb]; auto.
Qed.

Lemma zero_combine a b : a = 0 -> b = 0 -> combine a b = 0.
Proof. intros; subst; reflexivity. Qed.

Definition mark_of (ms : marks) (k : tkey) : mark :=
  match assoc_get tkey_eqb ms k with Some m => m | None => mark_zero end.

Lemma marks_step_fold (G : N -> Prop) (Pk : tkey -> mark -> Prop) okc p c ms :
  (forall a b, G a -> G b -> G (combine a b)) ->
  (forall t, In t (s_tasks c) ->
     G (fst (mark_step okc p c (task_key t) (mark_of ms (task_key t))))
     /\ forall m, snd (mark_step okc p c (task_key t) (mark_of ms (task_key t))) = Some m -> Pk (task_key t) m) ->
  G 0 ->
  G (fst (marks_step okc p c ms))
  /\ forall k m, assoc_get tkey_eqb (snd (marks_step okc p c ms)) k = Some m -> Pk k m.
Proof.
  intros Gc Hs G0. unfold marks_step.
  assert (Gen : forall l acc, incl l (s_tasks c) -> G (fst acc) ->
            (forall k m, assoc_get tkey_eqb (snd acc) k = Some m -> Pk k m) ->
            G (fst (fold_left (fun acc t =>
               let k := task_key t in
               let m0 := match assoc_get tkey_eqb ms k with Some m => m | None => mark_zero end in
               match mark_step okc p c k m0 with
               | (code, Some m) => (combine (fst acc) code, snd acc ++ [(k, m)])
               | (code, None) => (combine (fst acc) code, snd acc)
               end) l acc))
            /\ forall k m, assoc_get tkey_eqb (snd (fold_left (fun acc t =>
               let k := task_key t in
               let m0 := match assoc_get tkey_eqb ms k with Some m => m | None => mark_zero end in
               match mark_step okc p c k m0 with
               | (code, Some m) => (combine (fst acc) code, snd acc ++ [(k, m)])
               | (code, None) => (combine (fst acc) code, snd acc)
               end) l acc)) k = Some m -> Pk k m).
  { induction l as [|t l IH]; intros acc Inc Ga Pa; cbn [fold_left]; [split; assumption|].
    assert (It : In t (s_tasks c)) by (apply Inc; left; reflexivity).
    destruct (Hs t It) as [H1 H2]. unfold mark_of in H1, H2.
    cbn zeta.
    destruct (mark_step okc p c (task_key t)
                match assoc_get tkey_eqb ms (task_key t) with Some m => m | None => mark_zero end) as [code om].
    cbn [fst snd] in H1, H2.
    apply IH; [intros u Hu; apply Inc; right; exact Hu| |].
    - destruct om; cbn [fst]; apply Gc; assumption.
    - destruct om as [m1|]; cbn [snd]; [|exact Pa].
      intros k m Hk. rewrite assoc_get_snoc in Hk.
      destruct (assoc_get tkey_eqb (snd acc) k) as [v|] eqn:Ea.
      + inversion Hk; subst. apply Pa. exact Ea.
      + destruct (tkey_eqb (task_key t) k) eqn:Ek; [|discriminate].
        apply tkey_eqb_eq in Ek. subst k. inversion Hk; subst. apply H2. reflexivity. }
  apply Gen; [apply incl_refl|exact G0|intros k m H; discriminate].
Qed.

(* ---- one monitor step on the model's trace ----------------------------------------------------------------------- *)

Definition marks_inv (d : db) (ms : marks) : Prop := forall k, mark_ok d k (mark_of ms k).
Definition marks_clean (ms : marks) : Prop := forall k, mark_clean (mark_of ms k).

Record sim (chs : list chan_key) (d : db) (st : mstate) : Prop := {
  sim_shows : shows chs (ms_prev st) d;
  sim_inv : db_inv d;
  sim_norm : metas_normalized d;
  sim_taint : ms_taint st = [];
  sim_marks : marks_inv d (ms_marks st) }.

Lemma sim_init chs : sim chs db_empty mstate_init.
Proof.
  split; [apply shows_empty|apply db_inv_empty|apply metas_normalized_empty|reflexivity|].
  intro k. apply mark_zero_ok.
Qed.

Lemma marks_inv_of d ms : (forall k m, assoc_get tkey_eqb ms k = Some m -> mark_ok d k m) -> marks_inv d ms.
Proof. intros H k. unfold mark_of. destruct (assoc_get tkey_eqb ms k) eqn:E; [apply (H k); exact E|apply mark_zero_ok]. Qed.

Lemma marks_clean_of ms : (forall k m, assoc_get tkey_eqb ms k = Some m -> mark_clean m) -> marks_clean ms.
Proof. intros H k. unfold mark_of. destruct (assoc_get tkey_eqb ms k) eqn:E; [apply (H k); exact E|apply mark_zero_clean]. Qed.

Lemma fold_combine_six t : fold_left combine [0; 0; 0; 0; 0; 0; t] 0 = t.
Proof. cbn [fold_left]. change (combine 0 0) with 0. apply combine_zero_l. Qed.

Local Notation XX d c := (snd (apply_one d c)).
Local Notation DD d c := (fst (apply_one d c)).
Local Notation OKC d c := (if accepted (snd (apply_one d c)) then [c] else []).
Local Notation CUR chs d c := (snap_of (obs_of chs (fst (apply_one d c)) (bres_of (snd (apply_one d c))))).

Theorem mon_step_on_model chs d st c :
  sim chs d st -> covers chs c ->
  let o := obs_of chs (DD d c) (bres_of (XX d c)) in
  good (fst (mon_step st [c] o))
  /\ sim chs (DD d c) (snd (mon_step st [c] o))
  /\ (disciplined d c -> marks_clean (ms_marks st) ->
      fst (mon_step st [c] o) = 0 /\ marks_clean (ms_marks (snd (mon_step st [c] o)))).
Proof.
  intros [Sh I Nm Tn Mk] Cov. cbn zeta.
  unfold mon_step, mon_step_codes. cbn [o_res obs_of].
  rewrite ok_cmds_single.
  rewrite Tn.
  rewrite (single_active_step_zero chs [c] (OKC d c) (ms_prev st) (DD d c) (bres_of (XX d c)) (I' chs d c I)).
  destruct (marks_step (OKC d c) (ms_prev st) (CUR chs d c) (ms_marks st)) as [ct ms'] eqn:Ms.
  cbn [fst snd].
  (* the six state / per-command clauses are 0 *)
  assert (C1 : b2c (negb (all_stale (bres_of (XX d c))
                          || true && match bres_of (XX d c) with BErr _ => true | BResults _ => false end)
                    || snap_unchanged (ms_prev st) (CUR chs d c)) = 0).
  { cbn [andb]. pose proof (rejected_holds chs (ms_prev st) d c Sh) as R. cbn zeta in R. rewrite R. reflexivity. }
  assert (C2 : b2c (negb true || forallb (commit_clause (ms_prev st)) (OKC d c)) = 0).
  { cbn [negb orb]. destruct (accepted (XX d c)) eqn:A; cbn [forallb]; [|reflexivity].
    rewrite (commit_clause_holds chs (ms_prev st) d c Sh Cov A). reflexivity. }
  assert (C3 : b2c (negb true || forallb (abort_clause (ms_prev st)) (OKC d c)) = 0).
  { cbn [negb orb]. destruct (accepted (XX d c)) eqn:A; cbn [forallb]; [|reflexivity].
    rewrite (abort_clause_holds chs (ms_prev st) d c Sh Cov A). reflexivity. }
  assert (C4 : b2c (tasks_frame (OKC d c) (ms_prev st) (CUR chs d c)
                    && metas_frame (OKC d c) (ms_prev st) (CUR chs d c)) = 0).
  { rewrite (tasks_frame_holds chs (ms_prev st) d c Sh I Cov), (metas_frame_holds chs (ms_prev st) d c Sh I Nm Cov). reflexivity. }
  assert (C5 : b2c (metas_valid (OKC d c) (ms_prev st) (CUR chs d c)) = 0).
  { rewrite (metas_valid_holds chs (ms_prev st) d c Sh I Nm Cov). reflexivity. }
  rewrite C1, C2, C3, C4, C5, fold_combine_six.
  (* the temporal clause *)
  pose proof (marks_step_fold good (mark_ok (DD d c)) (OKC d c) (ms_prev st) (CUR chs d c) (ms_marks st) good_combine) as Fg.
  rewrite Ms in Fg. cbn [fst snd] in Fg.
  destruct Fg as [Gt Mt].
  { intros t _. destruct (mark_step_key chs (ms_prev st) d c (task_key t) (mark_of (ms_marks st) (task_key t)) Sh I (Mk _))
      as (A1 & A2 & _). split; assumption. }
  { left. reflexivity. }
  split; [exact Gt|]. split.
  - split; cbn [ms_prev ms_marks ms_taint].
    + apply shows_obs.
    + apply (I' chs d c I).
    + destruct (apply_one d c) as [d1 x1] eqn:E. eapply apply_one_normalized; eauto.
    + reflexivity.
    + apply marks_inv_of. exact Mt.
  - intros Dz Cl.
    pose proof (marks_step_fold (fun n => n = 0) (fun _ m => mark_clean m) (OKC d c) (ms_prev st)
                  (CUR chs d c) (ms_marks st) zero_combine) as Fz.
    rewrite Ms in Fz. cbn [fst snd] in Fz.
    destruct Fz as [Zt Ct].
    { intros t _. destruct (mark_step_key chs (ms_prev st) d c (task_key t) (mark_of (ms_marks st) (task_key t)) Sh I (Mk _))
        as (_ & _ & A3). destruct (A3 Dz (Cl _)) as [Z1 Z2]. split; assumption. }
    { reflexivity. }
    split; [exact Zt|]. cbn [ms_marks]. apply marks_clean_of. exact Ct.
Qed.

(* ---- whole histories ------------------------------------------------------------------------------------------------- *)

Fixpoint history_disciplined (d : db) (cs : list cmd) : Prop :=
  match cs with
  | [] => True
  | c :: r => disciplined d c /\ history_disciplined (fst (apply_one d c)) r
  end.

Lemma mon_run_on_model chs cs : forall d st acc,
  sim chs d st -> Forall (covers chs) cs -> good acc ->
  good (mon_run st (model_trace chs d cs) acc)
  /\ (history_disciplined d cs -> marks_clean (ms_marks st) -> acc = 0 ->
      mon_run st (model_trace chs d cs) acc = 0).
Proof.
  induction cs as [|c r IH]; intros d st acc S Cv Ga; cbn [model_trace mon_run].
  - split; [exact Ga|]. intros _ _ Z. exact Z.
  - inversion Cv as [|? ? Cc Cr]; subst.
    destruct (mon_step_on_model chs d st c S Cc) as (G1 & S1 & D1).
    destruct (mon_step st [c] (obs_of chs (fst (apply_one d c)) (bres_of (snd (apply_one d c))))) as [code st'].
    cbn [fst snd] in G1, S1, D1.
    destruct (IH (fst (apply_one d c)) st' (combine acc code) S1 Cr (good_combine _ _ Ga G1)) as [H1 H2].
    split; [exact H1|].
    intros [Dc Dr] Cl Z. destruct (D1 Dc Cl) as [Z1 C1]. apply H2; [exact Dr|exact C1|].
    subst. reflexivity.
Qed.

(* THEOREM c17_model_satisfies_monitor: on the model's own observations of any history of one-command
   batches (from the empty database, over any channel alphabet that names the meta rows the commands
   read) the monitor returns 0, 2 (K1) or 3 (K2): never a violation, never K3 *)
Theorem model_satisfies_monitor chs cs :
  Forall (covers chs) cs ->
  good (C17_monitor_on (model_trace chs db_empty cs)).
Proof.
  intro Cv. unfold C17_monitor_on.
  apply (mon_run_on_model chs cs db_empty mstate_init 0 (sim_init chs) Cv). left. reflexivity.
Qed.

(* ... and 0 when the history is disciplined *)
Theorem model_satisfies_monitor_disciplined chs cs :
  Forall (covers chs) cs -> history_disciplined db_empty cs ->
  C17_monitor_on (model_trace chs db_empty cs) = 0.
Proof.
  intros Cv Dz. unfold C17_monitor_on.
  apply (mon_run_on_model chs cs db_empty mstate_init 0 (sim_init chs) Cv); auto.
  - left. reflexivity.
  - intro k. apply mark_zero_clean.
Qed.
