(* Proof/ChanMigration_link.v — the temporal clause of the monitor on the model's trace, and the
   link theorem: on every history of one-command batches the monitor, run on the model's own
   observations, returns 0, 2 (K1) or 3 (K2) — never 1 — and returns 0 when no accepted
   Claim/Advance/Reset moves a task out of a post-commit phase. *)
From WK Require Import Base.Base.
From WK Require Import Gen.Consts_C15 Gen.Consts_C17 Model.RuntimeMeta Model.ChanMigration Model.ChanMigration_C17.
From WK Require Import Proof.RuntimeMeta Proof.ChanMigration Proof.ChanMigration_cmds Proof.ChanMigration_inv
                       Proof.ChanMigration_step Proof.ChanMigration_meta Proof.ChanMigration_trace
                       Proof.ChanMigration_monitor.
Open Scope N_scope.

(* ---- leaving a post-commit phase ----------------------------------------------------------------- *)

Lemma post_phase_facts p :
  post_commit_phase p = true ->
  (p =? PhaseWriteFence) = false /\ (p =? PhaseWarmCatchUp) = false /\ (p =? PhaseCommitLeaderMeta) = false
  /\ (p =? PhaseAddLearner) = false /\ (p =? PhasePromoteAndRemove) = false.
Proof.
  unfold post_commit_phase. intro H.
  apply orb_true_iff in H. destruct H as [H|H]; [apply orb_true_iff in H; destruct H as [H|H]|];
    apply N.eqb_eq in H; subst p; repeat split; reflexivity.
Qed.

Lemma setFence_keeps_post_phase t h :
  requireChannelMigrationSetFenceTransition t h = true -> post_commit_phase (t_phase t) = true ->
  tr_phase h = t_phase t.
Proof.
  intros R P. destruct (post_phase_facts _ P) as (F1 & F2 & _).
  unfold requireChannelMigrationSetFenceTransition in R. rewrite F1, F2 in R. cbn [andb orb] in R.
  destruct (negb (tr_status h =? StatusRunning)); [discriminate|].
  destruct (isLeaderTransferTaskKind (t_kind t)
            || (t_kind t =? KindReplicaReplace) && t_embedded_leader_transfer t && isLeaderTransferPhase (t_phase t)).
  - apply andb_prop in R. destruct R as [_ R]. apply N.eqb_eq in R. exact R.
  - destruct (t_kind t =? KindReplicaReplace); [|discriminate].
    apply andb_prop in R. destruct R as [_ R]. apply N.eqb_eq in R. exact R.
Qed.

(* a task+meta command accepted on a task in a post-commit phase: it is the reset, or the task stays
   in a post-commit phase (and the command is not an abort), or it is the clear-fence that ends the
   embedded leader-transfer leg of a replica replacement *)
Lemma taskmeta_from_post c t m nt nm :
  mutate_task_meta c t m = Ok (nt, nm) -> post_commit_phase (t_phase t) = true ->
  is_reset c = true
  \/ (post_commit_phase (t_phase nt) = true /\ is_abort c = false)
  \/ (is_embedded_leg_clear c = true /\ (t_kind t =? KindReplicaReplace) = true
      /\ t_embedded_leader_transfer t = true /\ (t_phase t =? PhaseVerifyNewLeader) = true
      /\ (t_phase nt =? PhaseAddLearner) = true /\ t_embedded_leader_transfer nt = false).
Proof.
  intros M P. destruct (post_phase_facts _ P) as (F1 & F2 & F3 & F4 & F5).
  destruct c; cbn [mutate_task_meta] in M; try discriminate.
  - (* set fence *)
    right. left. split; [|reflexivity].
    unfold mutSetFence in M. repeat if_inv M. b2p. inversion M; subst.
    cbn [t_phase set_status_phase_updated].
    rewrite (setFence_keeps_post_phase _ _ E P). exact P.
  - left. reflexivity.
  - exfalso. destruct (mutCommit_needs_proof _ _ _ _ _ _ _ _ M) as (_ & Ph & _).
    rewrite Ph in F3. discriminate.
  - exfalso. unfold mutAddLearner in M. if_inv M. b2p.
    unfold requireChannelMigrationAddLearnerTransition in E. b2p.
    match goal with Hq : (t_phase t =? PhaseAddLearner) = true |- _ => rewrite F4 in Hq; discriminate end.
  - exfalso. destruct (mutPromote_needs_proof _ _ _ _ _ _ _ M) as (_ & Ph & _).
    rewrite Ph in F5. discriminate.
  - (* clear fence *)
    unfold mutClear in M. if_inv M. b2p. if_inv M.
    + inversion M; subst. right. left. split; [exact P|reflexivity].
    + repeat if_inv M. inversion M; subst. clear M.
      unfold requireChannelMigrationClearFenceTransition in E.
      destruct (negb (isChannelMigrationFencePhaseAllowed t)); [discriminate|].
      destruct ((tr_status h =? StatusCompleted) && (tr_phase h =? PhaseClearFence) && (0 <? completed)%Z) eqn:C1.
      * right. left. split; [|reflexivity]. b2p.
        match goal with Hq : (tr_phase h =? PhaseClearFence) = true |- _ => apply N.eqb_eq in Hq end.
        match goal with |- context [if ?cc then _ else _] => destruct cc end;
          cbn [t_phase set_embedded set_completed set_status_phase_updated];
          match goal with Hq : tr_phase h = PhaseClearFence |- _ => rewrite Hq end; reflexivity.
      * right. right. b2p.
        repeat match goal with Hq : (_ =? _) = true |- _ => rewrite Hq end.
        repeat match goal with Hq : t_embedded_leader_transfer t = true |- _ => rewrite Hq end.
        cbn [andb is_embedded_leg_clear].
        repeat match goal with Hq : (_ =? _) = true |- _ => rewrite Hq end.
        cbn [andb t_phase t_embedded_leader_transfer set_embedded set_completed set_status_phase_updated].
        repeat match goal with Hq : (_ =? _) = true |- _ => rewrite Hq end.
        repeat split; reflexivity.
  - exfalso. apply mutAbort_ok in M. destruct M as [_ M]. rewrite P in M. discriminate.
Qed.

(* ---- marks ------------------------------------------------------------------------------------------ *)

Definition mark_ok (d : db) (k : tkey) (m : mark) : Prop :=
  mk_other m = false
  /\ (mk_post m = true -> mk_adv m = false -> mk_reset m = false ->
      exists t, task_get (db_tasks d) k = Some t /\ post_commit_phase (t_phase t) = true).

Definition mark_clean (m : mark) : Prop := mk_adv m = false /\ mk_reset m = false.

Lemma mark_zero_ok d k : mark_ok d k mark_zero.
Proof. split; [reflexivity|discriminate]. Qed.
Lemma mark_zero_clean : mark_clean mark_zero.
Proof. split; reflexivity. Qed.

Definition good (n : N) : Prop := n = 0 \/ n = 2 \/ n = 3.

Lemma abort_code_good d k m : mark_ok d k m -> good (abort_code m) \/
  (mk_post m = true /\ mk_adv m = false /\ mk_reset m = false).
Proof.
  intros [O _]. unfold abort_code, good. rewrite O.
  destruct (mk_post m); cbn [negb]; [|left; auto].
  destruct (mk_adv m); [left; auto|]. destruct (mk_reset m); [left; auto|]. right. auto.
Qed.

(* executor discipline for one command: a Reset is never applied to, and a Claim/Advance never
   moves, a task that is in a post-commit phase *)
Definition disciplined (d : db) (c : cmd) : Prop :=
  forall k t, cmd_key c = Some k -> task_get (db_tasks d) k = Some t -> post_commit_phase (t_phase t) = true ->
    is_reset c = false
    /\ (forall next, is_claim_advance c = true -> mutate_task c t = Ok next -> post_commit_phase (t_phase next) = true).

(* ---- mark_step as a function of six booleans ------------------------------------------------------------ *)

Definition mark_fn (pre_post cur_post has_adv has_reset aborted leg_done : bool) (m0 : mark) : N * mark :=
  let m1 := if pre_post then Mark true (mk_adv m0) (mk_reset m0) (mk_other m0) else m0 in
  let leaving := pre_post && (negb cur_post || aborted) in
  let m2 := if leaving then
              if leg_done then mark_zero
              else Mark (mk_post m1) (mk_adv m1 || has_adv) (mk_reset m1 || has_reset)
                        (mk_other m1 || (negb has_adv && negb has_reset))
            else m1 in
  let code := if aborted then abort_code m2 else 0 in
  let m3 := if cur_post then Mark true (mk_adv m2) (mk_reset m2) (mk_other m2) else m2 in
  (code, m3).

(* what the model guarantees about one step of one row *)
Record step_facts (pre_post cur_post has_adv has_reset aborted leg_done : bool) : Prop := {
  sf_cause : pre_post = true -> negb cur_post || aborted = true ->
             leg_done = true \/ has_adv = true \/ has_reset = true;
  sf_abort : aborted = true -> pre_post = false;
  sf_leg : leg_done = true -> cur_post = false /\ aborted = false }.

Lemma mark_fn_good pre_post cur_post has_adv has_reset aborted leg_done m0 :
  step_facts pre_post cur_post has_adv has_reset aborted leg_done ->
  mk_other m0 = false ->
  (mk_post m0 = true -> mk_adv m0 = false -> mk_reset m0 = false -> pre_post = true) ->
  let r := mark_fn pre_post cur_post has_adv has_reset aborted leg_done m0 in
  good (fst r) /\ mk_other (snd r) = false
  /\ (mk_post (snd r) = true -> mk_adv (snd r) = false -> mk_reset (snd r) = false -> cur_post = true).
Proof.
  intros [Fa Fb Fc] O Pw. destruct m0 as [po ad re ot]. cbn [mk_other mk_post mk_adv mk_reset] in *. subst ot.
  unfold mark_fn, good, abort_code.
  destruct pre_post, cur_post, has_adv, has_reset, aborted, leg_done, po, ad, re;
    cbn [andb orb negb mk_post mk_adv mk_reset mk_other mark_zero fst snd] in *;
    repeat split; auto;
    try (intros; discriminate);
    try (exfalso; destruct (Fa eq_refl eq_refl) as [X|[X|X]]; discriminate);
    try (exfalso; pose proof (Fb eq_refl); discriminate);
    try (exfalso; destruct (Fc eq_refl); discriminate);
    try (exfalso; pose proof (Pw eq_refl eq_refl eq_refl); discriminate).
Qed.

Lemma mark_fn_disciplined pre_post cur_post has_adv has_reset aborted leg_done m0 :
  step_facts pre_post cur_post has_adv has_reset aborted leg_done ->
  (pre_post = true -> negb cur_post || aborted = true -> leg_done = true) ->
  (mk_post m0 = true -> mk_adv m0 = false -> mk_reset m0 = false -> pre_post = true) ->
  mark_clean m0 ->
  let r := mark_fn pre_post cur_post has_adv has_reset aborted leg_done m0 in
  fst r = 0 /\ mark_clean (snd r).
Proof.
  intros [Fa Fb Fc] Fd Pw [C1 C2]. destruct m0 as [po ad re ot]. cbn [mk_other mk_post mk_adv mk_reset] in *. subst ad re.
  unfold mark_fn, mark_clean, abort_code.
  destruct pre_post, cur_post, has_adv, has_reset, aborted, leg_done, po, ot;
    cbn [andb orb negb mk_post mk_adv mk_reset mk_other mark_zero fst snd] in *;
    repeat split; auto;
    try (exfalso; pose proof (Fd eq_refl eq_refl); discriminate);
    try (exfalso; pose proof (Fb eq_refl); discriminate);
    try (exfalso; destruct (Fc eq_refl); discriminate);
    try (exfalso; pose proof (Pw eq_refl eq_refl eq_refl); discriminate).
Qed.

(* the six booleans of mark_step for key k *)
Definition b_pre_post (d : db) (k : tkey) : bool :=
  match task_get (db_tasks d) k with Some t => post_commit_phase (t_phase t) | None => false end.
Definition b_mine (okc : list cmd) (k : tkey) : list cmd := filter (fun y => cmd_targets y k) okc.
Definition b_aborted (d : db) (okc : list cmd) (k : tkey) (ct : task) : bool :=
  existsb is_abort (b_mine okc k) && (t_status ct =? StatusAborted)
  && match task_get (db_tasks d) k with Some t => negb (t_status t =? StatusAborted) | None => true end.
Definition b_leg_done (d : db) (okc : list cmd) (k : tkey) (ct : task) : bool :=
  existsb is_embedded_leg_clear (b_mine okc k)
  && match task_get (db_tasks d) k with
     | Some t => (t_kind t =? KindReplicaReplace) && t_embedded_leader_transfer t && (t_phase t =? PhaseVerifyNewLeader)
     | None => false
     end
  && (t_phase ct =? PhaseAddLearner) && negb (t_embedded_leader_transfer ct).

Section MarkStep.
  Variable chs : list chan_key.
  Variable p : snap.
  Variable d : db.
  Variable c : cmd.
  Hypothesis Sh : shows chs p d.
  Hypothesis I : db_inv d.

  Local Notation d' := (fst (apply_one d c)).
  Local Notation x := (snd (apply_one d c)).
  Local Notation okc := (if accepted (snd (apply_one d c)) then [c] else []).
  Local Notation cur := (snap_of (obs_of chs (fst (apply_one d c)) (bres_of (snd (apply_one d c))))).

  Lemma mark_step_as_fn k m0 ct :
    task_get (db_tasks d') k = Some ct ->
    mark_step okc p cur k m0 =
    (fst (mark_fn (b_pre_post d k) (post_commit_phase (t_phase ct)) (existsb is_claim_advance (b_mine okc k))
                  (existsb is_reset (b_mine okc k)) (b_aborted d okc k ct) (b_leg_done d okc k ct) m0),
     Some (snd (mark_fn (b_pre_post d k) (post_commit_phase (t_phase ct)) (existsb is_claim_advance (b_mine okc k))
                        (existsb is_reset (b_mine okc k)) (b_aborted d okc k ct) (b_leg_done d okc k ct) m0))).
  Proof.
    intro G. unfold mark_step. unfold snap_task at 1. cbn [snap_of obs_of s_tasks o_tasks]. rewrite G.
    rewrite (snap_task_p chs p d Sh). reflexivity.
  Qed.

  Lemma mark_step_gone k m0 : task_get (db_tasks d') k = None -> mark_step okc p cur k m0 = (0, None).
  Proof.
    intro G. unfold mark_step. unfold snap_task at 1. cbn [snap_of obs_of s_tasks o_tasks]. rewrite G. reflexivity.
  Qed.

  Lemma post_not_addlearner ph : post_commit_phase ph = true -> (ph =? PhaseAddLearner) = false.
  Proof. intro H. apply (post_phase_facts _ H). Qed.

  (* the facts, for every row that is present after the step *)
  Lemma step_facts_hold k ct :
    task_get (db_tasks d') k = Some ct ->
    step_facts (b_pre_post d k) (post_commit_phase (t_phase ct)) (existsb is_claim_advance (b_mine okc k))
               (existsb is_reset (b_mine okc k)) (b_aborted d okc k ct) (b_leg_done d okc k ct)
    /\ (disciplined d c -> b_pre_post d k = true ->
        negb (post_commit_phase (t_phase ct)) || b_aborted d okc k ct = true -> b_leg_done d okc k ct = true).
  Proof.
    intro Gc.
    (* when the row did not change *)
    assert (Same : task_get (db_tasks d) k = Some ct ->
      step_facts (b_pre_post d k) (post_commit_phase (t_phase ct)) (existsb is_claim_advance (b_mine okc k))
                 (existsb is_reset (b_mine okc k)) (b_aborted d okc k ct) (b_leg_done d okc k ct)
      /\ (disciplined d c -> b_pre_post d k = true ->
          negb (post_commit_phase (t_phase ct)) || b_aborted d okc k ct = true -> b_leg_done d okc k ct = true)).
    { intro G0. unfold b_pre_post, b_aborted, b_leg_done. rewrite G0.
      assert (Ab : forall z, z && (t_status ct =? StatusAborted) && negb (t_status ct =? StatusAborted) = false)
        by (intro z; destruct (t_status ct =? StatusAborted); [rewrite andb_false_r|rewrite andb_false_r, andb_false_l]; reflexivity).
      rewrite Ab.
      split; [split|].
      - intros P1 P2. rewrite P1 in P2. discriminate.
      - discriminate.
      - intro L. b2p.
        match goal with Hq : (t_phase ct =? PhaseVerifyNewLeader) = true |- _ => apply N.eqb_eq in Hq; rewrite Hq in * end.
        discriminate.
      - intros _ P1 P2. rewrite P1 in P2. discriminate. }
    destruct (accepted x) eqn:A.
    2:{ assert (D : d' = d) by (apply not_accepted_same; exact A). rewrite D in Gc. apply Same. exact Gc. }
    pose proof (accepted_eq d c A) as E. fold d' in E.
    assert (OK : okc = [c]) by (unfold okc; try rewrite A; reflexivity).
    assert (Mine : b_mine k = if cmd_targets c k then [c] else []) by (unfold b_mine; rewrite OK; reflexivity).
    destruct (step_row_change d c d' k I E)
      as [S|t0 Hc Hk Hn Hg|g t0 next Hg Hca Hk Hp Hm Hu Hn|h t0 m nt nm Hh Hk Hp Hm Hg Hr Hu Ht0 Hn|b l t0 Hc Hp Ht0 Hn].
    - apply Same. rewrite <- S. exact Gc.
    - (* created *)
      unfold b_pre_post, b_aborted, b_leg_done. rewrite Hn, Mine.
      assert (Na : existsb is_abort (if cmd_targets c k then [c] else []) = false).
      { destruct (cmd_targets c k); [|reflexivity]. destruct Hc as [Hc|[g Hc]]; subst c; reflexivity. }
      rewrite Na. cbn [andb]. rewrite andb_false_r. cbn [andb].
      split; [split|]; try discriminate. intros _ Q. discriminate.
    - (* claim / advance *)
      rewrite Gc in Hn. inversion Hn; subst next. clear Hn.
      assert (Tg : cmd_targets c k = true) by (apply cmd_targets_key; rewrite (claim_key _ _ Hca Hg), Hk; reflexivity).
      unfold b_pre_post, b_aborted, b_leg_done. rewrite Hp, Mine, Tg. cbn [existsb orb]. rewrite Hca.
      assert (Na : is_abort c = false) by (destruct c; try discriminate Hca; reflexivity).
      assert (Nl : is_embedded_leg_clear c = false) by (destruct c; try discriminate Hca; reflexivity).
      rewrite Na, Nl. cbn [andb orb].
      split; [split|]; try discriminate.
      + intros _ _. right. left. reflexivity.
      + intros Dz P0 Q. rewrite orb_false_r in Q. apply negb_true_iff in Q.
        destruct (Dz k t0) as [_ Dn]; [rewrite (claim_key _ _ Hca Hg), Hk; reflexivity|exact Hp|exact P0|].
        rewrite (Dn ct Hca Hu) in Q. discriminate.
    - (* task + meta *)
      rewrite Gc in Hn. inversion Hn; subst nt. clear Hn.
      assert (Tg : cmd_targets c k = true) by (apply cmd_targets_key; rewrite (trans_key _ _ Hh), Hk; reflexivity).
      unfold b_pre_post, b_aborted, b_leg_done. rewrite Hp, Mine, Tg. cbn [existsb orb].
      rewrite (trans_not_claim _ _ Hh).
      destruct (post_commit_phase (t_phase t0)) eqn:P0.
      + destruct (taskmeta_from_post _ _ _ _ _ Hu P0) as [Rs|[[Pc Na]|(Lc & L1 & L2 & L3 & L4 & L5)]].
        * assert (Na : is_abort c = false) by (destruct c; try discriminate Rs; reflexivity).
          assert (Nl : is_embedded_leg_clear c = false) by (destruct c; try discriminate Rs; reflexivity).
          rewrite Rs, Na, Nl. cbn [andb orb].
          split; [split|]; try discriminate.
          -- intros _ _. right. right. reflexivity.
          -- intros Dz _ _. destruct (Dz k t0) as [Dr _]; [rewrite (trans_key _ _ Hh), Hk; reflexivity|exact Hp|exact P0|].
             rewrite Rs in Dr. discriminate.
        * rewrite Pc, Na, (post_not_addlearner _ Pc). cbn [andb orb negb]. rewrite !andb_false_r. cbn [andb].
          split; [split|]; try discriminate. intros _ _ Q. discriminate.
        * assert (Na : is_abort c = false) by (destruct c; try discriminate Lc; reflexivity).
          assert (Pc : post_commit_phase (t_phase ct) = false) by (apply N.eqb_eq in L4; rewrite L4; reflexivity).
          rewrite Na, Lc, L1, L2, L3, L4, L5, Pc. cbn [andb orb negb].
          split; [split|]; try discriminate; auto.
      + assert (Lg : forall z w, z && ((t_kind t0 =? KindReplicaReplace) && t_embedded_leader_transfer t0
                                    && (t_phase t0 =? PhaseVerifyNewLeader)) && w = false).
        { intros z w. destruct (t_phase t0 =? PhaseVerifyNewLeader) eqn:Q.
          - apply N.eqb_eq in Q. rewrite Q in P0. discriminate.
          - rewrite !andb_false_r. reflexivity. }
        rewrite <- !andb_assoc. rewrite andb_assoc with (b1 := is_embedded_leg_clear c || false).
        rewrite (andb_assoc (is_embedded_leg_clear c || false)).
        split; [split|]; try discriminate.
        * intro L. exfalso.
          destruct (t_phase t0 =? PhaseVerifyNewLeader) eqn:Q.
          -- apply N.eqb_eq in Q. rewrite Q in P0. discriminate.
          -- rewrite !andb_false_r in L. cbn [andb] in L. rewrite ?andb_false_r in L. discriminate.
        * reflexivity.
    - rewrite Gc in Hn. discriminate.
  Qed.
End MarkStep.
