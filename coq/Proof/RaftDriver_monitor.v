(* Proof/RaftDriver_monitor.v — C12: a cluster of driver models, every replica
   stepping on its own under the library hypotheses, produces a case on which the
   property monitor C12_monitor returns 0. *)
From WK Require Import Base.Base Model.RaftDriver Proof.RaftDriver_lists Proof.RaftDriver_exec
  Proof.RaftDriver_inv Proof.RaftDriver_steps Proof.RaftDriver_trace Proof.RaftDriver_futures.
From Coq Require Import Sorted ZifyBool ZifyN ZifyNat.
Open Scope N_scope.

(* ---- the trace only grows ------------------------------------------------------------------------------ *)

Definition tr_ext (s s' : node) : Prop := exists ext, n_tr s' = n_tr s ++ ext.

Lemma tr_ext_refl s : tr_ext s s.
Proof. exists []. rewrite app_nil_r. reflexivity. Qed.

Lemma tr_ext_trans a b c : tr_ext a b -> tr_ext b c -> tr_ext a c.
Proof. intros [x Hx] [y Hy]. exists (x ++ y). rewrite Hy, Hx, app_assoc. reflexivity. Qed.

Lemma tr_ext_same s s' : n_tr s' = n_tr s -> tr_ext s s'.
Proof. intro H. exists []. rewrite app_nil_r. exact H. Qed.

Lemma tr_ext_one s s' ev : n_tr s' = n_tr s ++ [ev] -> tr_ext s s'.
Proof. intro H. exists [ev]. exact H. Qed.

Lemma same_core_tr_ext s s' : same_core s s' -> tr_ext s s'.
Proof.
  unfold same_core.
  intros (Edur & Elog & Ehs & Esnap & Esnapc & Eapp & Esmi & Esmh & Eup & Efail & Eapplying & Evapp & Eq & Epos & Etr).
  apply tr_ext_same, Etr.
Qed.

Lemma exec_tr_ext o s : tr_ext s (exec o s).
Proof.
  destruct (live_dec s) as [L|D]; [|rewrite exec_dead by exact D; apply tr_ext_refl].
  destruct o as [hs ents snap|ents|ms|i c|c|idx|ents|t| |upto|l|i|i].
  - destruct (exec_save_live hs ents snap s L) as [(_ & _ & _ & E)|E]; rewrite E; [apply tr_ext_refl|].
    unfold save_body. destruct snap as [[[i t] c]|]; cbn zeta; (eapply tr_ext_one; nsimpl; reflexivity).
  - apply same_core_tr_ext. apply (exec_track_facts ents s L).
  - rewrite (exec_live _ _ L). destruct ms; [apply tr_ext_refl | eapply tr_ext_one; nsimpl; reflexivity].
  - rewrite (exec_live _ _ L). eapply tr_ext_one; nsimpl; reflexivity.
  - rewrite (exec_live _ _ L). eapply tr_ext_one; nsimpl; reflexivity.
  - rewrite (exec_live _ _ L). destruct (idx <=? v_applied s); [apply tr_ext_refl|].
    destruct (markApplied (durable_sm s) (sm_idx s) idx).
    + eapply tr_ext_one; nsimpl; reflexivity.
    + apply tr_ext_same; nsimpl; reflexivity.
    + apply tr_ext_same; nsimpl; reflexivity.
  - apply same_core_tr_ext. apply (exec_resolve_facts ents s L).
  - rewrite (exec_live _ _ L). apply tr_ext_same; nsimpl; reflexivity.
  - rewrite (exec_live _ _ L). apply tr_ext_same; nsimpl; reflexivity.
  - rewrite (exec_live _ _ L). apply tr_ext_same; nsimpl; reflexivity.
  - apply same_core_tr_ext. apply (exec_refresh_facts l s L).
  - rewrite (exec_live _ _ L). destruct (durable_sm s); [eapply tr_ext_one; nsimpl; reflexivity | apply tr_ext_refl].
  - rewrite (exec_live _ _ L). eapply tr_ext_one; nsimpl; reflexivity.
Qed.

Lemma exec_all_tr_ext ops : forall s, tr_ext s (exec_all ops s).
Proof.
  induction ops as [|o r IH]; intro s; [apply tr_ext_refl|].
  rewrite exec_all_cons. eapply tr_ext_trans; [apply exec_tr_ext | apply IH].
Qed.

Lemma crash_tr_ext hard s : tr_ext s (crash hard s).
Proof.
  unfold crash. destruct (v_up s); cbn [negb]; [|apply tr_ext_refl].
  eapply tr_ext_trans; [apply same_core_tr_ext, failLeadershipDependent_core|].
  eapply tr_ext_one; nsimpl; reflexivity.
Qed.

Lemma exec_cut_tr_ext ops cut s : tr_ext s (exec_cut ops cut s).
Proof.
  unfold exec_cut. destruct cut; [|apply exec_all_tr_ext].
  eapply tr_ext_trans; [apply exec_all_tr_ext | apply crash_tr_ext].
Qed.

Lemma newSlot_tr_ext first s : tr_ext s (newSlot first s).
Proof.
  unfold newSlot. destruct (v_up s); [apply tr_ext_refl|].
  set (ev0 := EvBoot first (hs_term (d_hs s)) (hs_vote (d_hs s)) (hs_commit (d_hs s)) (d_applied s) (d_snap s) (sm_idx s)).
  set (start := newSlot_applied (durable_sm s) (d_snap s) (d_applied s) (sm_idx s)).
  set (s1 := set_pos start (set_volatile true false start start [] (emit ev0 s))).
  assert (H1 : tr_ext s s1) by (eapply tr_ext_one; unfold s1; nsimpl; reflexivity).
  destruct (negb (d_snap s =? 0)).
  - eapply tr_ext_trans; [exact H1|]. eapply tr_ext_trans; [apply exec_tr_ext|].
    eapply tr_ext_one; nsimpl; reflexivity.
  - eapply tr_ext_trans; [exact H1|]. eapply tr_ext_one; nsimpl; reflexivity.
Qed.

Lemma step_tr_ext st s : tr_ext s (step_node st s).
Proof.
  destruct st as [rd busy cut|cut|cmd acc|wait cut|hard|]; cbn [step_node].
  - destruct (v_up s); [apply exec_cut_tr_ext | apply tr_ext_refl].
  - destruct (v_queue s); [apply tr_ext_refl|]. destruct (v_up s); [apply exec_cut_tr_ext | apply tr_ext_refl].
  - destruct (v_up s && negb (v_failed s)); [|apply tr_ext_refl].
    destruct acc; apply tr_ext_same; nsimpl; reflexivity.
  - destruct (v_up s); [apply exec_cut_tr_ext | apply tr_ext_refl].
  - apply crash_tr_ext.
  - apply newSlot_tr_ext.
Qed.

Lemma tr_ext_applied s s' x : tr_ext s s' -> In x (applied_tr (n_tr s)) -> In x (applied_tr (n_tr s')).
Proof. intros [ext ->] H. rewrite applied_tr_app. apply in_or_app. left. exact H. Qed.

(* ---- lists ------------------------------------------------------------------------------------------------ *)

Lemma In_upd {A} (l : list A) : forall i x m, In m (upd l i x) -> m = x \/ In m l.
Proof.
  induction l as [|y l IH]; intros i x m H; cbn [upd] in H; [destruct i; destruct H|].
  destruct i as [|k].
  - destruct H as [<-|H]; [left; reflexivity | right; right; exact H].
  - destruct H as [<-|H]; [right; left; reflexivity|].
    destruct (IH _ _ _ H) as [Hq|Hq]; [left; exact Hq | right; right; exact Hq].
Qed.

Lemma upd_In_other {A} (l : list A) : forall i x n m,
  nth_error l i = Some n -> In m l -> m = n \/ In m (upd l i x).
Proof.
  induction l as [|y l IH]; intros i x n m Hn Hm; [destruct Hm|].
  destruct i as [|k]; cbn [nth_error upd] in *.
  - injection Hn as <-. destruct Hm as [<-|Hm]; [left; reflexivity | right; right; exact Hm].
  - destruct Hm as [<-|Hm]; [right; left; reflexivity|].
    destruct (IH _ x _ _ Hn Hm) as [Hq|Hq]; [left; exact Hq | right; right; exact Hq].
Qed.

Lemma upd_In_new {A} (l : list A) : forall i x n, nth_error l i = Some n -> In x (upd l i x).
Proof.
  induction l as [|y l IH]; intros i x n Hn; [destruct i; discriminate|].
  destruct i as [|k]; cbn [nth_error upd] in *; [left; reflexivity | right; eapply IH; exact Hn].
Qed.

Section Monitor.

Variable clog : N -> entry.
Hypothesis clog_idx : forall i, e_idx (clog i) = i.

Notation TrackFut := (TrackFut clog).

Definition Gall (ns : list node) : list entry := flat_map (fun n => applied_tr (n_tr n)) ns.
Definition GSof (ns : list node) : entry -> Prop := fun e => In e (Gall ns).

Record NINV (GS : entry -> Prop) (n : node) : Prop := mkNINV {
  ni_inv : INV clog GS n;
  ni_binv : live n -> BINV clog n;
  ni_ord : ORD clog n;
  ni_pers : PERS n;
  ni_fut : FINV clog n
}.

Definition CINV (ns : list node) : Prop := forall n, In n ns -> NINV (GSof ns) n.

Lemma INV_mono (GS GS' : entry -> Prop) s :
  (forall e, GS e -> GS' e) -> INV clog GS s -> INV clog GS' s.
Proof.
  intros H I. destruct I. constructor; try assumption.
  - intros e He. destruct (i_hist_known e He) as [A|B]; [left; exact A | right; apply H, B].
  - intros e He. destruct (i_snap_known e He) as [A|B]; [left; exact A | right; apply H, B].
Qed.

Lemma NINV_mono (GS GS' : entry -> Prop) n : (forall e, GS e -> GS' e) -> NINV GS n -> NINV GS' n.
Proof. intros H [A B C D E]. constructor; try assumption. eapply INV_mono; eassumption. Qed.

Lemma In_Gall ns e : In e (Gall ns) <-> exists n, In n ns /\ In e (applied_tr (n_tr n)).
Proof. unfold Gall. rewrite in_flat_map. reflexivity. Qed.

(* ---- one step of one replica ------------------------------------------------------------------------------- *)

Definition cstep_ok (ns : list node) (cs : nat * step) : Prop :=
  match nth_error ns (fst cs) with
  | Some n => step_ok clog (GSof ns) TrackFut (snd cs) n
  | None => True
  end.

Lemma cstep_CINV ns cs : CINV ns -> cstep_ok ns cs -> CINV (cstep_apply ns cs).
Proof.
  intros C Hok. unfold cstep_apply, cstep_ok in *. destruct cs as [i st]. cbn [fst snd] in *.
  destruct (nth_error ns i) as [n|] eqn:En; [|exact C].
  assert (Hn : In n ns) by (eapply nth_error_In; exact En).
  destruct (C n Hn) as [I B O P F].
  set (n' := step_node st n).
  assert (S : SINV clog (GSof ns) n) by (split; assumption).
  assert (N' : NINV (GSof ns) n').
  { destruct (step_SINV clog clog_idx (GSof ns) TrackFut (TrackFut_submitted clog) st n S Hok) as [I' B'].
    constructor; [exact I' | exact B' | | |].
    - apply (step_P clog clog_idx (GSof ns) TrackFut (TrackFut_submitted clog) (ORD clog)); try assumption.
      + exact (ORD_exec clog clog_idx (GSof ns) TrackFut (TrackFut_submitted clog)).
      + exact (ORD_crash clog (GSof ns)).
      + exact (ORD_newSlot clog (GSof ns)).
      + exact (ORD_propose clog (GSof ns)).
    - apply (step_P clog clog_idx (GSof ns) TrackFut (TrackFut_submitted clog) PERS); try assumption.
      + exact (PERS_exec clog (GSof ns) TrackFut).
      + exact (PERS_crash clog (GSof ns)).
      + exact (PERS_newSlot clog (GSof ns)).
      + exact (PERS_propose clog (GSof ns)).
    - apply (step_P clog clog_idx (GSof ns) TrackFut (TrackFut_submitted clog) (FINV clog)); try assumption.
      + exact (FINV_exec clog (GSof ns)).
      + exact (FINV_crash clog (GSof ns)).
      + exact (FINV_newSlot clog (GSof ns)).
      + exact (FINV_propose clog (GSof ns)). }
  assert (Mono : forall e, GSof ns e -> GSof (upd ns i n') e).
  { unfold GSof. intros e He. apply In_Gall in He. destruct He as (m & Hm & Hx). apply In_Gall.
    destruct (upd_In_other ns i n' n m En Hm) as [->|Hm'].
    - exists n'. split; [eapply upd_In_new; exact En|]. eapply tr_ext_applied; [apply step_tr_ext | exact Hx].
    - exists m. split; assumption. }
  intros m Hm. destruct (In_upd _ _ _ _ Hm) as [->|Hm'].
  - eapply NINV_mono; [exact Mono | exact N'].
  - eapply NINV_mono; [exact Mono | apply C, Hm'].
Qed.

Fixpoint csched_ok (sched : list (nat * step)) (ns : list node) : Prop :=
  match sched with
  | [] => True
  | cs :: r => cstep_ok ns cs /\ csched_ok r (cstep_apply ns cs)
  end.

Lemma crun_from_CINV sched : forall ns, CINV ns -> csched_ok sched ns -> CINV (fold_left cstep_apply sched ns).
Proof.
  induction sched as [|cs r IH]; intros ns C Hok; [exact C|].
  cbn [csched_ok] in Hok. destruct Hok as [H1 H2]. cbn [fold_left].
  apply IH; [apply cstep_CINV; assumption | exact H2].
Qed.

Lemma start_NINV GS : NINV GS start_node.
Proof.
  destruct (start_SINV clog clog_idx GS TrackFut (TrackFut_submitted clog)) as [I B].
  constructor; [exact I | exact B | | |].
  - apply (run_ORD clog clog_idx GS TrackFut (TrackFut_submitted clog) []). exact Logic.I.
  - apply (run_PERS clog clog_idx GS TrackFut (TrackFut_submitted clog) []). exact Logic.I.
  - apply (run_FINV clog clog_idx GS []). exact Logic.I.
Qed.

Lemma init_CINV k : CINV (cluster_init true k).
Proof.
  intros n Hn. unfold cluster_init in Hn. apply repeat_spec in Hn. subst n. apply start_NINV.
Qed.

Theorem crun_CINV k sched : csched_ok sched (cluster_init true k) -> CINV (crun true k sched).
Proof. intro H. unfold crun. apply crun_from_CINV; [apply init_CINV | exact H]. Qed.

(* ---- from the invariant to the monitor ------------------------------------------------------------------------ *)

Lemma applied_all_case ns : applied_all (case_of ns) = Gall ns.
Proof.
  unfold applied_all, case_of, Gall. cbn [c_nodes]. rewrite flat_map_concat_map, map_map, <- flat_map_concat_map.
  reflexivity.
Qed.

Lemma Gall_sound ns : CINV ns -> Gsound clog (Gall ns).
Proof.
  intros C g Hg. apply In_Gall in Hg. destruct Hg as (n & Hn & Hx).
  destruct (C n Hn) as [I _ _ _ _]. apply (i_applied_sound _ _ _ I), Hx.
Qed.

Lemma find_idx_sound G e :
  Gsound clog G -> In e G -> find_idx G (e_idx e) = Some e.
Proof.
  intros HG. induction G as [|g G IH]; intro He; [destruct He|]. cbn [find_idx].
  destruct (N.eqb_spec (e_idx g) (e_idx e)) as [E|NE].
  - f_equal. destruct (HG g (or_introl eq_refl)) as (A & _). destruct (HG e He) as (B & _). congruence.
  - destruct He as [->|He]; [congruence|]. apply IH; [|exact He].
    intros x Hx. apply HG. right. exact Hx.
Qed.

Lemma find_idx_In G i g : find_idx G i = Some g -> In g G /\ e_idx g = i.
Proof.
  induction G as [|x G IH]; cbn [find_idx]; [discriminate|].
  destruct (N.eqb_spec (e_idx x) i) as [E|NE].
  - intro H. injection H as <-. split; [left; reflexivity | exact E].
  - intro H. destruct (IH H) as [A B]. split; [right; exact A | exact B].
Qed.

Lemma check_same_sound G : Gsound clog G -> check_same G = true.
Proof.
  intro HG. unfold check_same. apply forallb_forall. intros e He. unfold same_entry.
  rewrite (find_idx_sound G e HG He), !N.eqb_refl. reflexivity.
Qed.

Lemma increasing_N_sorted h : forall cur,
  sorted h -> (forall e, In e h -> cur < e_idx e) -> increasing_N cur (map e_idx h) = true.
Proof.
  induction h as [|x h IH]; intros cur Hs Hgt; [reflexivity|].
  cbn [map increasing_N]. apply andb_true_iff. split.
  - apply N.ltb_lt. apply Hgt. left. reflexivity.
  - unfold sorted in Hs. inversion Hs as [|? ? Hs' Hf]; subst. apply IH; [exact Hs'|].
    intros e He. rewrite Forall_forall in Hf. apply Hf, He.
Qed.

Lemma check_final_ok ns n : CINV ns -> In n ns -> check_final (Gall ns) (obs_of n) = true.
Proof.
  intros C Hn. pose proof (Gall_sound ns C) as HG. destruct (C n Hn) as [I _ _ _ _]. destruct I.
  unfold check_final, obs_of. cbn [o_hist o_smidx].
  apply andb_true_iff. split; [apply andb_true_iff; split|].
  - rewrite map_map. cbn [fst]. apply increasing_N_sorted; [exact i_sorted|].
    intros e He. destruct (i_sound e He) as (_ & _ & H). lia.
  - apply forallb_forall. intros p Hp. apply in_map_iff in Hp. destruct Hp as (e & <- & He). cbn [fst snd].
    destruct (i_sound e He) as (_ & _ & Hb). apply andb_true_iff. split; [apply N.leb_le; lia|].
    assert (HeG : In e (Gall ns)).
    { destruct (i_hist_known e He) as [A|B]; [apply In_Gall; exists n; split; assumption | exact B]. }
    rewrite (find_idx_sound _ e HG HeG). apply N.eqb_refl.
  - apply forallb_forall. intros g Hg. destruct (e_idx g <=? sm_idx n) eqn:E; [|reflexivity].
    apply N.leb_le in E. destruct (HG g Hg) as (A & B & Cg).
    assert (In (clog (e_idx g)) (sm_hist n)).
    { apply i_complete; [lia | rewrite <- A; exact B]. }
    unfold hist_has. apply existsb_exists. exists (e_idx g, e_cmd g). split; [|cbn [fst]; apply N.eqb_refl].
    apply in_map_iff. exists g. split; [reflexivity | rewrite A at 1; exact H].
Qed.

Lemma filter_nil {A} (f : A -> bool) l : (forall x, In x l -> f x = false) -> filter f l = [].
Proof.
  induction l as [|x l IH]; intro H; [reflexivity|]. cbn [filter].
  rewrite (H x (or_introl eq_refl)). apply IH. intros y Hy. apply H. right. exact Hy.
Qed.

Lemma futs_from_In ns : forall i f,
  In f (futs_from i ns) -> exists n p, In n ns /\ In p (n_futs n) /\ f_cmd f = fst p /\ f_res f = snd p.
Proof.
  induction ns as [|n r IH]; intros i f H; cbn [futs_from] in H; [destruct H|].
  apply in_app_or in H. destruct H as [H|H].
  - apply in_map_iff in H. destruct H as (p & <- & Hp). exists n, p. cbn. repeat split; auto.
  - destruct (IH _ _ H) as (m & p & A & B). exists m, p. split; [right; exact A | exact B].
Qed.

Theorem CINV_monitor ns : CINV ns -> C12_monitor (case_of ns) = 0.
Proof.
  intro C. pose proof (Gall_sound ns C) as HG.
  unfold C12_monitor, check_C12_nodes. rewrite applied_all_case. cbn [c_nodes case_of c_futs].
  assert (E1 : check_same (Gall ns) = true) by (apply check_same_sound, HG).
  assert (E2 : forallb (fun n => check_order (Gall ns) 0 (o_events n)) (map obs_of ns) = true).
  { apply forallb_forall. intros o Ho. apply in_map_iff in Ho. destruct Ho as (n & <- & Hn).
    destruct (C n Hn) as [_ _ O _ _]. cbn [obs_of o_events]. rewrite check_order_run, (O _ HG). reflexivity. }
  assert (E3 : forallb (fun n => check_persist dur0 (o_events n)) (map obs_of ns) = true).
  { apply forallb_forall. intros o Ho. apply in_map_iff in Ho. destruct Ho as (n & <- & Hn).
    destruct (C n Hn) as [_ _ _ P _]. cbn [obs_of o_events]. rewrite check_persist_run. unfold PERS in P. rewrite P. reflexivity. }
  assert (E4 : forallb (check_final (Gall ns)) (map obs_of ns) = true).
  { apply forallb_forall. intros o Ho. apply in_map_iff in Ho. destruct Ho as (n & <- & Hn).
    apply check_final_ok; assumption. }
  rewrite E1, E2, E3, E4. cbn [andb negb].
  assert (E5 : filter (fun f => negb (fut_ok (Gall ns) f)) (futs_from 0 ns) = []).
  { apply filter_nil. intros f Hf. apply negb_false_iff.
    destruct (futs_from_In ns 0 f Hf) as (n & p & Hn & Hp & Ec & Er).
    destruct (C n Hn) as [_ _ _ _ F]. unfold fut_ok. rewrite Er.
    destruct p as [cmd res]. cbn [fst snd] in *. destruct res as [i t d| |]; try reflexivity.
    destruct (f_done _ _ F cmd i t d Hp) as (Hb & Hd & Hin).
    assert (HinG : In (clog i) (Gall ns)) by (apply In_Gall; exists n; split; assumption).
    pose proof (find_idx_sound _ _ HG HinG) as Hfi. rewrite clog_idx in Hfi. rewrite Hfi.
    rewrite Hb. cbn [e_term e_cmd]. rewrite Hd, Ec, !N.eqb_refl. reflexivity. }
  rewrite E5. reflexivity.
Qed.

End Monitor.
