(* Proof/SlotFSM_c39.v — hash-slot migration: deltas are applied exactly once and in source
   order whatever the forwarder duplicates; replaying writes the snapshot already contains
   is harmless for the user registers.  (Model/SlotFSM.v; C39.) *)
From WK Require Import Base.Base.
From WK Require Import Gen.Consts_C15 Gen.Consts_C17 Gen.Consts_C13.
From WK Require Import Model.RuntimeMeta Model.ChanMigration Model.SlotFSM.
From WK Require Import Proof.SlotFSM_machine Proof.SlotFSM_inst Proof.SlotFSM_props.
Open Scope N_scope.

(* a source write forwarded to the target: its source log index and the original command *)
Record dlv := Dlv { dl_idx : N; dl_cmd : hcmd }.

Section Deliver.
  Variable cfg : fsm_cfg.      (* the target's configuration: any *)
  Variable src : N.            (* the source slot *)
  Variable h : N.              (* the migrating hash slot *)
  Hypothesis src_nz : src <> 0.

  (* the apply_delta command the target receives; [tidx] is its index in the target's own log *)
  Definition delta_fcmd (tidx : N) (w : dlv) : fcmd :=
    FCmd true h tidx (HDelta src (dl_idx w) h (Some (dl_cmd w))) [].

  Definition dkey_of (w : dlv) : dkey := DKey h src (dl_idx w).

  Definition wf_dlv (w : dlv) : Prop := dl_idx w <> 0 /\ inner_ok h (dl_cmd w) = true.

  (* the effect of one delivery on the tables: nothing if the delta's record exists, else the
     original command's operations and the record *)
  Definition dstep (d : store) (w : dlv) : store :=
    if dkey_mem (dkey_of w) (st_applied d) then d
    else fold_left eff (plain_ops h (dl_cmd w) ++ [WMarkApplied (dkey_of w)]) d.

  Lemma dstep_eqv d d0 w : store_eqv d d0 -> store_eqv (dstep d w) (dstep d0 w).
  Proof.
    intro E. unfold dstep. destruct E as (A & B & C & D & F). rewrite F.
    destruct (dkey_mem (dkey_of w) (st_applied d0)); [repeat split; assumption|].
    generalize (plain_ops h (dl_cmd w) ++ [WMarkApplied (dkey_of w)]). intro ops.
    assert (E : store_eqv d d0) by (repeat split; assumption). clear A B C D F. revert d d0 E.
    induction ops as [|o ops IH]; intros d d0 E; cbn [fold_left]; [exact E|].
    apply IH. apply eff_eqv. exact E.
  Qed.

  Lemma good_delta tidx w : wf_dlv w -> good_cmd (delta_fcmd tidx w).
  Proof.
    intros (Hi & Hin). unfold good_cmd, delta_fcmd. cbn [fc_cmd good_hcmd].
    assert (E1 : (src =? 0) = false) by (apply N.eqb_neq; exact src_nz).
    assert (E2 : (dl_idx w =? 0) = false) by (apply N.eqb_neq; exact Hi).
    rewrite E1, E2, Hin. reflexivity.
  Qed.

  (* one delivery, one batch *)
  Lemma deliver_one d tidx w :
    wf_dlv w ->
    exists d', apply_one (fsm_stage cfg) bstate0 fsm_finish fsm_v0 fsm_run_op fsm_flush (R_STALE, []) d (delta_fcmd tidx w)
               = (d', inr (R_OK, []))
               /\ store_eqv d' (dstep d w).
  Proof.
    intros (Hi & Hin). unfold apply_one, apply_core. cbn [stage_all].
    unfold dstep, dkey_of.
    destruct (dkey_mem (DKey h src (dl_idx w)) (st_applied d)) eqn:Ap.
    - assert (St : fsm_stage cfg d bstate0 (delta_fcmd tidx w) = SDone bstate0 [] (R_OK, [])).
      { apply (fsm_delta_replay_noop cfg d bstate0 (delta_fcmd tidx w) src (dl_idx w) h (Some (dl_cmd w)));
          try reflexivity; try assumption; unfold delta_seen; rewrite Ap; apply orb_true_r. }
      rewrite St. cbn [app]. unfold fsm_finish. cbn [rev app delta_fcmd fc_index].
      destruct (tidx =? 0).
      + cbn. exists d. split; [reflexivity|apply store_eqv_refl].
      + cbn [run_ops]. rewrite run_op_good by exact I. cbn.
        eexists. split; [reflexivity|]. repeat split.
    - assert (St : fsm_stage cfg d bstate0 (delta_fcmd tidx w) =
                   SDone (set_bs_delta bstate0 (DKey h src (dl_idx w) :: bs_delta bstate0))
                         (plain_ops h (dl_cmd w) ++ [WMarkApplied (DKey h src (dl_idx w))]) (R_OK, [])).
      { apply (fsm_delta_first cfg d bstate0 (delta_fcmd tidx w) src (dl_idx w) h (dl_cmd w));
          try reflexivity; try assumption. }
      rewrite St. cbn [app]. unfold fsm_finish. cbn [rev app delta_fcmd fc_index].
      assert (G : Forall good_wop (plain_ops h (dl_cmd w) ++ [WMarkApplied (DKey h src (dl_idx w))])).
      { apply Forall_app. split; [apply plain_ops_good|repeat constructor]. }
      destruct (tidx =? 0).
      + rewrite !app_nil_r. rewrite (run_ops_good _ d (fsm_v0 d) G). cbn.
        eexists. split; [reflexivity|apply store_eqv_refl].
      + match goal with |- context [run_ops fsm_run_op d (fsm_v0 d) ?ops] =>
          assert (G' : Forall good_wop ops) by (repeat (apply Forall_app; split); try exact G; repeat constructor; apply plain_ops_good);
          rewrite (run_ops_good ops d (fsm_v0 d) G') end.
        cbn [fsm_flush ca_pend fsm_v0].
        eexists. split; [reflexivity|].
        rewrite !fold_left_app. cbn [app fold_left eff]. repeat split.
  Qed.

  (* a delivery schedule, one apply_delta per batch: every batch is answered ok and the tables are
     those of folding [dstep] over the schedule *)
  Theorem deliver_effect ps : forall d d0,
      Forall (fun p => wf_dlv (snd p)) ps ->
      store_eqv d d0 ->
      exists d', fsm_apply_individually cfg d (map (fun p => delta_fcmd (fst p) (snd p)) ps)
                 = (d', BRes (map (fun _ => (R_OK, [])) ps))
                 /\ store_eqv d' (fold_left dstep (map snd ps) d0).
  Proof.
    induction ps as [|[tidx w] ps IH]; intros d d0 Hw E.
    - exists d. split; [reflexivity|exact E].
    - inversion Hw as [|? ? Hw1 Hws]; subst. cbn [snd fst] in Hw1.
      destruct (deliver_one d tidx w Hw1) as (d1 & H1 & E1).
      assert (E1' : store_eqv d1 (dstep d0 w)).
      { eapply store_eqv_trans; [exact E1|apply dstep_eqv; exact E]. }
      destruct (IH d1 (dstep d0 w) Hws E1') as (d' & Hind & E').
      exists d'. split; [|exact E'].
      unfold fsm_apply_individually in *. cbn [map apply_individually fst snd]. rewrite H1, Hind. reflexivity.
  Qed.

  (* ---- duplicates are skipped: only first occurrences count ------------------------------------------ *)

  Fixpoint first_occ (seen : list N) (l : list dlv) : list dlv :=
    match l with
    | [] => []
    | w :: r => if memN (dl_idx w) seen then first_occ seen r else w :: first_occ (dl_idx w :: seen) r
    end.

  Lemma plain_ops_applied_store o d : st_applied (fold_left eff (plain_ops h o) d) = st_applied d.
  Proof. rewrite fold_applied, plain_ops_applied. reflexivity. Qed.

  Lemma dstep_applied d w k :
    dkey_mem k (st_applied (dstep d w)) = dkey_mem k (st_applied d) || dkey_eqb k (dkey_of w).
  Proof.
    unfold dstep. destruct (dkey_mem (dkey_of w) (st_applied d)) eqn:Ap.
    - destruct (dkey_eqb k (dkey_of w)) eqn:E; [|rewrite orb_false_r; reflexivity].
      apply dkey_eqb_eq in E. subst k. rewrite Ap. reflexivity.
    - rewrite fold_left_app. cbn [fold_left eff]. cbn [st_applied set_applied].
      rewrite dkey_mem_insert, plain_ops_applied_store. apply orb_comm.
  Qed.

  Theorem first_occurrences_only l : forall seen d,
      (forall i, dkey_mem (DKey h src i) (st_applied d) = memN i seen) ->
      fold_left dstep l d = fold_left dstep (first_occ seen l) d.
  Proof.
    induction l as [|w l IH]; intros seen d Hs; cbn [fold_left first_occ]; [reflexivity|].
    destruct (memN (dl_idx w) seen) eqn:M.
    - assert (Hd : dstep d w = d).
      { unfold dstep, dkey_of. rewrite (Hs (dl_idx w)), M. reflexivity. }
      rewrite Hd. apply IH. exact Hs.
    - cbn [fold_left]. apply IH. intro i. rewrite dstep_applied, Hs. unfold dkey_of, dkey_eqb. cbn [dk_hs dk_src dk_idx].
      rewrite !N.eqb_refl. cbn [andb memN existsb]. fold (memN i seen). apply orb_comm.
  Qed.

  (* no loss, no duplication: a schedule in which every write W_1..W_n of the source occurs, first
     occurrences in source order, arbitrary duplicates anywhere, gives the target exactly the
     tables of applying W_1..W_n once each in order *)
  Theorem exactly_once ps ws d :
    Forall (fun p => wf_dlv (snd p)) ps ->
    (forall i, dkey_mem (DKey h src i) (st_applied d) = false) ->
    first_occ [] (map snd ps) = ws ->
    exists d', fsm_apply_individually cfg d (map (fun p => delta_fcmd (fst p) (snd p)) ps)
               = (d', BRes (map (fun _ => (R_OK, [])) ps))
               /\ store_eqv d' (fold_left dstep ws d).
  Proof.
    intros Hw Hfresh Hocc.
    destruct (deliver_effect ps d d Hw (store_eqv_refl d)) as (d' & Hrun & E).
    exists d'. split; [exact Hrun|].
    rewrite (first_occurrences_only (map snd ps) [] d) in E; [|intro i; rewrite Hfresh; reflexivity].
    rewrite Hocc in E. exact E.
  Qed.
End Deliver.

(* ---- register algebra: replaying a prefix the snapshot already contains is harmless -------------------- *)

(* what a user command does to the row of one key *)
Inductive rop := RId | RPut (u : urow) | RCreate (u : urow).

Definition rop_apply (f : rop) (s : option urow) : option urow :=
  match f with
  | RId => s
  | RPut u => Some u
  | RCreate u => match s with Some _ => s | None => Some u end
  end.

(* composition: [rop_comp g f] is "f then g" *)
Definition rop_comp (g f : rop) : rop :=
  match g with
  | RId => f
  | RPut u => RPut u
  | RCreate u => match f with RId => RCreate u | RPut v => RPut v | RCreate v => RCreate v end
  end.

Lemma rop_comp_ok g f s : rop_apply (rop_comp g f) s = rop_apply g (rop_apply f s).
Proof. destruct g, f, s; reflexivity. Qed.

Lemma rop_idem f s : rop_apply f (rop_apply f s) = rop_apply f s.
Proof. destruct f, s; reflexivity. Qed.

Definition rops_apply (fs : list rop) (s : option urow) : option urow := fold_left (fun x f => rop_apply f x) fs s.

Definition rops_comp (fs : list rop) : rop := fold_left (fun acc f => rop_comp f acc) fs RId.

Lemma rops_comp_ok fs : forall acc s,
    rop_apply (fold_left (fun a f => rop_comp f a) fs acc) s = rops_apply fs (rop_apply acc s).
Proof.
  induction fs as [|f fs IH]; intros acc s; cbn [fold_left rops_apply]; [reflexivity|].
  rewrite IH, rop_comp_ok. reflexivity.
Qed.

(* the writes of a log, applied to a row that already went through a prefix of the same log *)
Theorem replay_prefix_harmless fs k s :
  rops_apply fs (rops_apply (firstn k fs) s) = rops_apply fs s.
Proof.
  rewrite <- (firstn_skipn k fs) at 1 3. unfold rops_apply. rewrite !fold_left_app.
  fold (rops_apply (firstn k fs)). fold (rops_apply (skipn k fs)).
  f_equal.
  pose proof (rops_comp_ok (firstn k fs) RId) as H. cbn [rop_apply] in H.
  rewrite <- !H. apply rop_idem.
Qed.

(* ---- the user table as per-key registers ------------------------------------------------------------------ *)

Lemma user_get_del l k hs uid :
  user_get (user_del l k) hs uid = if (ur_hs k =? hs) && bytes_eqb (ur_uid k) uid then None else user_get l hs uid.
Proof.
  induction l as [|y l IH]; cbn [user_del user_get].
  - destruct ((ur_hs k =? hs) && bytes_eqb (ur_uid k) uid); reflexivity.
  - unfold urow_same. destruct ((ur_hs y =? ur_hs k) && bytes_eqb (ur_uid y) (ur_uid k)) eqn:E.
    + rewrite IH. apply andb_true_iff in E. destruct E as (E1 & E2).
      apply N.eqb_eq in E1. apply bytes_eqb_eq in E2. rewrite E1, E2.
      destruct ((ur_hs k =? hs) && bytes_eqb (ur_uid k) uid); reflexivity.
    + cbn [user_get]. rewrite IH.
      destruct ((ur_hs y =? hs) && bytes_eqb (ur_uid y) uid) eqn:E2; [|reflexivity].
      apply andb_true_iff in E2. destruct E2 as (A & B). apply N.eqb_eq in A. apply bytes_eqb_eq in B. subst hs uid.
      assert (X : (ur_hs k =? ur_hs y) && bytes_eqb (ur_uid k) (ur_uid y) = false).
      { destruct ((ur_hs k =? ur_hs y) && bytes_eqb (ur_uid k) (ur_uid y)) eqn:F; [|reflexivity].
        apply andb_true_iff in F. destruct F as (F1 & F2). apply N.eqb_eq in F1. apply bytes_eqb_eq in F2.
        rewrite F1, F2, N.eqb_refl in E. cbn in E.
        assert (R : bytes_eqb (ur_uid y) (ur_uid y) = true) by (apply bytes_eqb_eq; reflexivity).
        rewrite R in E. discriminate. }
      rewrite X. reflexivity.
Qed.

Lemma user_get_insert l k hs uid :
  user_get l (ur_hs k) (ur_uid k) = None ->
  user_get (user_insert l k) hs uid = if (ur_hs k =? hs) && bytes_eqb (ur_uid k) uid then Some k else user_get l hs uid.
Proof.
  induction l as [|y l IH]; intro Hn; cbn [user_insert user_get]; [reflexivity|].
  cbn [user_get] in Hn.
  destruct ((ur_hs y =? ur_hs k) && bytes_eqb (ur_uid y) (ur_uid k)) eqn:Eyk; [discriminate|].
  destruct (urow_ltb k y).
  - cbn [user_get]. reflexivity.
  - cbn [user_get]. rewrite (IH Hn).
    destruct ((ur_hs y =? hs) && bytes_eqb (ur_uid y) uid) eqn:E1; [|reflexivity].
    apply andb_true_iff in E1. destruct E1 as (A & B). apply N.eqb_eq in A. apply bytes_eqb_eq in B. subst hs uid.
    assert (X : (ur_hs k =? ur_hs y) && bytes_eqb (ur_uid k) (ur_uid y) = false).
    { destruct ((ur_hs k =? ur_hs y) && bytes_eqb (ur_uid k) (ur_uid y)) eqn:F; [|reflexivity].
      apply andb_true_iff in F. destruct F as (F1 & F2). apply N.eqb_eq in F1. apply bytes_eqb_eq in F2.
      rewrite F1, F2, N.eqb_refl in Eyk. cbn in Eyk.
      assert (R : bytes_eqb (ur_uid y) (ur_uid y) = true) by (apply bytes_eqb_eq; reflexivity).
      rewrite R in Eyk. discriminate. }
    rewrite X. reflexivity.
Qed.

Lemma user_get_put l k hs uid :
  user_get (user_put l k) hs uid = if (ur_hs k =? hs) && bytes_eqb (ur_uid k) uid then Some k else user_get l hs uid.
Proof.
  unfold user_put. rewrite user_get_insert.
  - rewrite user_get_del. destruct ((ur_hs k =? hs) && bytes_eqb (ur_uid k) uid); reflexivity.
  - rewrite user_get_del, N.eqb_refl.
    assert (R : bytes_eqb (ur_uid k) (ur_uid k) = true) by (apply bytes_eqb_eq; reflexivity).
    rewrite R. reflexivity.
Qed.

(* the row operation of a user command for one key *)
Definition rop_of (hs : N) (uid : bytes) (c : hcmd) (k_hs : N) (k_uid : bytes) : rop :=
  match c with
  | HUser create u token flag level =>
      if (hs =? k_hs) && bytes_eqb u k_uid
      then (if create then RCreate (URow hs u token flag level) else RPut (URow hs u token flag level))
      else RId
  | _ => RId
  end.

(* a user command is a register operation on every key of the user table *)
Lemma user_cmd_is_rop hs c d k_hs k_uid :
  user_get (st_users (fold_left eff (plain_ops hs c) d)) k_hs k_uid =
  rop_apply (rop_of hs [] c k_hs k_uid) (user_get (st_users d) k_hs k_uid).
Proof.
  destruct c; try reflexivity. cbn [plain_ops fold_left eff rop_of].
  destruct create.
  - cbn [ur_hs ur_uid]. destruct (user_get (st_users d) hs uid) as [r|] eqn:G.
    + destruct ((hs =? k_hs) && bytes_eqb uid k_uid) eqn:E; [|reflexivity].
      apply andb_true_iff in E. destruct E as (A & B). apply N.eqb_eq in A. apply bytes_eqb_eq in B. subst.
      rewrite G. reflexivity.
    + cbn [st_users set_users]. rewrite user_get_put. cbn [ur_hs ur_uid].
      destruct ((hs =? k_hs) && bytes_eqb uid k_uid) eqn:E; [|reflexivity].
      apply andb_true_iff in E. destruct E as (A & B). apply N.eqb_eq in A. apply bytes_eqb_eq in B. subst.
      rewrite G. reflexivity.
  - cbn [st_users set_users]. rewrite user_get_put. cbn [ur_hs ur_uid].
    destruct ((hs =? k_hs) && bytes_eqb uid k_uid); reflexivity.
Qed.

(* the user rows after a sequence of user commands for hash slot [hs] *)
Definition apply_writes (hs : N) (cs : list hcmd) (d : store) : store :=
  fold_left (fun acc c => fold_left eff (plain_ops hs c) acc) cs d.

Lemma apply_writes_rops hs cs : forall d k_hs k_uid,
    user_get (st_users (apply_writes hs cs d)) k_hs k_uid =
    rops_apply (map (fun c => rop_of hs [] c k_hs k_uid) cs) (user_get (st_users d) k_hs k_uid).
Proof.
  induction cs as [|c cs IH]; intros d k_hs k_uid; cbn [apply_writes fold_left map rops_apply]; [reflexivity|].
  fold (apply_writes hs cs (fold_left eff (plain_ops hs c) d)). rewrite IH, user_cmd_is_rop. reflexivity.
Qed.

(* the snapshot the target starts from contains a prefix of the writes that are then replayed
   in full as deltas: every user row ends as on the source *)
Theorem snapshot_overlap_harmless hs cs k d k_hs k_uid :
  user_get (st_users (apply_writes hs cs (apply_writes hs (firstn k cs) d))) k_hs k_uid =
  user_get (st_users (apply_writes hs cs d)) k_hs k_uid.
Proof.
  rewrite !apply_writes_rops. rewrite <- firstn_map. apply replay_prefix_harmless.
Qed.
