(* Proof/AckTracker_map.v — facts about the association lists of Model/AckTracker.v *)
From WK Require Import Base.Base Model.AckTracker.
From Coq Require Import Permutation.
Open Scope N_scope.

Definition al_keys {K V : Type} (m : list (K * V)) : list K := map fst m.

Section ALFacts.
  Context {K V : Type} (eqb : K -> K -> bool).
  Hypothesis eqb_spec : forall a b, eqb a b = true <-> a = b.

  Lemma al_eqb_refl k : eqb k k = true.
  Proof. apply eqb_spec. reflexivity. Qed.

  Lemma al_eqb_neq a b : a <> b -> eqb a b = false.
  Proof.
    intro H. destruct (eqb a b) eqn:E; [|reflexivity].
    apply eqb_spec in E. contradiction.
  Qed.

  Lemma al_eqb_false a b : eqb a b = false -> a <> b.
  Proof. intros E H. subst. rewrite al_eqb_refl in E. discriminate. Qed.

  Lemma al_get_del_same k (m : list (K * V)) : al_get eqb k (al_del eqb k m) = None.
  Proof.
    induction m as [|[k' v] m IH]; simpl; [reflexivity|].
    destruct (eqb k k') eqn:E; [exact IH|]. simpl. rewrite E. exact IH.
  Qed.

  Lemma al_get_del_other k k' (m : list (K * V)) :
    k <> k' -> al_get eqb k' (al_del eqb k m) = al_get eqb k' m.
  Proof.
    intro H. induction m as [|[k2 v] m IH]; simpl; [reflexivity|].
    destruct (eqb k k2) eqn:E.
    - apply eqb_spec in E. subst k2.
      rewrite (al_eqb_neq k' k) by (intro; subst; contradiction). exact IH.
    - simpl. destruct (eqb k' k2); [reflexivity|exact IH].
  Qed.

  Lemma al_get_set_same k v (m : list (K * V)) : al_get eqb k (al_set eqb k v m) = Some v.
  Proof. unfold al_set. simpl. rewrite al_eqb_refl. reflexivity. Qed.

  Lemma al_get_set_other k k' v (m : list (K * V)) :
    k <> k' -> al_get eqb k' (al_set eqb k v m) = al_get eqb k' m.
  Proof.
    intro H. unfold al_set. simpl.
    rewrite (al_eqb_neq k' k) by (intro; subst; contradiction).
    apply al_get_del_other. exact H.
  Qed.

  Lemma al_get_none_iff k (m : list (K * V)) : al_get eqb k m = None <-> ~ In k (al_keys m).
  Proof.
    induction m as [|[k' v] m IH]; simpl.
    - split; [intros _ []|reflexivity].
    - destruct (eqb k k') eqn:E.
      + apply eqb_spec in E. subst. split; [discriminate|]. intro H. exfalso. apply H. left. reflexivity.
      + apply al_eqb_false in E. rewrite IH. split.
        * intros H [H1|H1]; [subst; contradiction|contradiction].
        * intros H H1. apply H. right. exact H1.
  Qed.

  Lemma al_get_some_in k v (m : list (K * V)) : al_get eqb k m = Some v -> In (k, v) m.
  Proof.
    induction m as [|[k' v'] m IH]; simpl; [discriminate|].
    destruct (eqb k k') eqn:E.
    - apply eqb_spec in E. subst. intro H. inversion H. left. reflexivity.
    - intro H. right. apply IH. exact H.
  Qed.

  Lemma al_get_some_key k v (m : list (K * V)) : al_get eqb k m = Some v -> In k (al_keys m).
  Proof. intro H. apply al_get_some_in in H. apply (in_map fst) in H. exact H. Qed.

  Lemma al_in_get k v (m : list (K * V)) :
    NoDup (al_keys m) -> In (k, v) m -> al_get eqb k m = Some v.
  Proof.
    induction m as [|[k' v'] m IH]; simpl; [intros _ []|].
    intros ND [H|H].
    - inversion H. subst. rewrite al_eqb_refl. reflexivity.
    - inversion ND as [|? ? Hn ND']. subst.
      destruct (eqb k k') eqn:E.
      + apply eqb_spec in E. subst. exfalso. apply Hn. apply (in_map fst) in H. exact H.
      + apply IH; assumption.
  Qed.

  Lemma al_keys_del k k' (m : list (K * V)) :
    In k' (al_keys (al_del eqb k m)) <-> k' <> k /\ In k' (al_keys m).
  Proof.
    induction m as [|[k2 v] m IH]; simpl.
    - split; [intros []|intros [_ []]].
    - destruct (eqb k k2) eqn:E.
      + apply eqb_spec in E. subst k2. rewrite IH. split.
        * intros [H1 H2]. split; [exact H1|right; exact H2].
        * intros [H1 [H2|H2]]; [subst; contradiction|split; assumption].
      + apply al_eqb_false in E. simpl. rewrite IH. split.
        * intros [H|[H1 H2]]; [subst; split; [intro; subst; contradiction|left; reflexivity]|split; [exact H1|right; exact H2]].
        * intros [H1 [H2|H2]]; [left; exact H2|right; split; assumption].
  Qed.

  Lemma al_del_nodup k (m : list (K * V)) : NoDup (al_keys m) -> NoDup (al_keys (al_del eqb k m)).
  Proof.
    induction m as [|[k2 v] m IH]; simpl; [intros; constructor|].
    intro ND. inversion ND as [|? ? Hn ND']. subst.
    destruct (eqb k k2); [apply IH; exact ND'|].
    simpl. constructor; [|apply IH; exact ND'].
    intro H. apply al_keys_del in H. apply Hn. apply H.
  Qed.

  Lemma al_set_nodup k v (m : list (K * V)) : NoDup (al_keys m) -> NoDup (al_keys (al_set eqb k v m)).
  Proof.
    intro ND. unfold al_set. simpl. constructor; [|apply al_del_nodup; exact ND].
    intro H. apply al_keys_del in H. destruct H as [H _]. apply H. reflexivity.
  Qed.

  Lemma al_keys_set k v k' (m : list (K * V)) :
    In k' (al_keys (al_set eqb k v m)) <-> k' = k \/ In k' (al_keys m).
  Proof.
    unfold al_set. simpl. rewrite al_keys_del. split.
    - intros [H|[_ H]]; [left; symmetry; exact H|right; exact H].
    - intros [H|H]; [left; symmetry; exact H|].
      destruct (eqb k' k) eqn:E.
      + apply eqb_spec in E. left. symmetry. exact E.
      + right. split; [apply al_eqb_false; exact E|exact H].
  Qed.

  Lemma al_del_notin k (m : list (K * V)) : al_get eqb k m = None -> al_del eqb k m = m.
  Proof.
    induction m as [|[k2 v] m IH]; simpl; [reflexivity|].
    destruct (eqb k k2); [discriminate|]. intro H. rewrite IH by exact H. reflexivity.
  Qed.

  Lemma al_del_length k v (m : list (K * V)) :
    NoDup (al_keys m) -> al_get eqb k m = Some v -> S (length (al_del eqb k m)) = length m.
  Proof.
    induction m as [|[k2 v2] m IH]; simpl; [discriminate|].
    intros ND H. inversion ND as [|? ? Hn ND']. subst.
    destruct (eqb k k2) eqn:E.
    - apply eqb_spec in E. subst k2.
      rewrite al_del_notin; [reflexivity|]. apply al_get_none_iff. exact Hn.
    - simpl. rewrite (IH ND' H). reflexivity.
  Qed.

  Lemma al_del_length_le k (m : list (K * V)) : (length (al_del eqb k m) <= length m)%nat.
  Proof.
    induction m as [|[k2 v2] m IH]; simpl; [lia|]. destruct (eqb k k2); simpl; lia.
  Qed.

  (* a filter on rows never creates keys and keeps lookups of the kept rows *)
  Lemma al_filter_keys f k (m : list (K * V)) : In k (al_keys (filter f m)) -> In k (al_keys m).
  Proof.
    unfold al_keys. intro H. apply in_map_iff in H. destruct H as [[k2 v] [H1 H2]].
    apply filter_In in H2. apply in_map_iff. exists (k2, v). split; [exact H1|apply H2].
  Qed.

  Lemma al_filter_nodup f (m : list (K * V)) : NoDup (al_keys m) -> NoDup (al_keys (filter f m)).
  Proof.
    induction m as [|[k v] m IH]; simpl; [intros; constructor|].
    intro ND. inversion ND as [|? ? Hn ND']. subst.
    destruct (f (k, v)); [|apply IH; exact ND'].
    simpl. constructor; [|apply IH; exact ND'].
    intro H. apply Hn. apply (al_filter_keys f). exact H.
  Qed.

  Lemma al_get_filter f k (m : list (K * V)) :
    NoDup (al_keys m) ->
    al_get eqb k (filter f m) =
    match al_get eqb k m with
    | Some v => if f (k, v) then Some v else None
    | None => None
    end.
  Proof.
    induction m as [|[k2 v2] m IH]; simpl; [reflexivity|].
    intro ND. inversion ND as [|? ? Hn ND']. subst.
    destruct (eqb k k2) eqn:E.
    - apply eqb_spec in E. subst k2. destruct (f (k, v2)) eqn:F.
      + simpl. rewrite al_eqb_refl. reflexivity.
      + apply al_get_none_iff. intro H. apply Hn. apply (al_filter_keys f). exact H.
    - destruct (f (k2, v2)); [simpl; rewrite E|]; apply IH; exact ND'.
  Qed.
End ALFacts.

(* ---- the two key types ------------------------------------------------------ *)
Lemma key_eqb_spec : forall a b : key, key_eqb a b = true <-> a = b.
Proof.
  intros [[a1 a2] a3] [[b1 b2] b3]. unfold key_eqb.
  rewrite !andb_true_iff, !N.eqb_eq. split.
  - intros [[H1 H2] H3]. subst. reflexivity.
  - intro H. inversion H. auto.
Qed.

Lemma skey_eqb_spec : forall a b : skey, skey_eqb a b = true <-> a = b.
Proof.
  intros [a1 a2] [b1 b2]. unfold skey_eqb.
  rewrite !andb_true_iff, !N.eqb_eq. split.
  - intros [H1 H2]. subst. reflexivity.
  - intro H. inversion H. auto.
Qed.


(* ---- instances for the two maps ------------------------------------------------ *)
Definition k_get_del_other {V} := @al_get_del_other key V key_eqb key_eqb_spec.
Definition k_get_set_same {V} := @al_get_set_same key V key_eqb key_eqb_spec.
Definition k_get_set_other {V} := @al_get_set_other key V key_eqb key_eqb_spec.
Definition k_get_none_iff {V} := @al_get_none_iff key V key_eqb key_eqb_spec.
Definition k_get_some_in {V} := @al_get_some_in key V key_eqb key_eqb_spec.
Definition k_get_some_key {V} := @al_get_some_key key V key_eqb key_eqb_spec.
Definition k_in_get {V} := @al_in_get key V key_eqb key_eqb_spec.
Definition k_keys_del {V} := @al_keys_del key V key_eqb key_eqb_spec.
Definition k_del_nodup {V} := @al_del_nodup key V key_eqb key_eqb_spec.
Definition k_set_nodup {V} := @al_set_nodup key V key_eqb key_eqb_spec.
Definition k_keys_set {V} := @al_keys_set key V key_eqb key_eqb_spec.
Definition k_del_length {V} := @al_del_length key V key_eqb key_eqb_spec.
Definition k_get_filter {V} := @al_get_filter key V key_eqb key_eqb_spec.
Definition k_get_del_same {V} := @al_get_del_same key V key_eqb.
Definition k_del_notin {V} := @al_del_notin key V key_eqb.
Definition k_del_length_le {V} := @al_del_length_le key V key_eqb.
Definition s_get_del_other {V} := @al_get_del_other skey V skey_eqb skey_eqb_spec.
Definition s_get_set_same {V} := @al_get_set_same skey V skey_eqb skey_eqb_spec.
Definition s_get_set_other {V} := @al_get_set_other skey V skey_eqb skey_eqb_spec.
Definition s_get_none_iff {V} := @al_get_none_iff skey V skey_eqb skey_eqb_spec.
Definition s_get_some_in {V} := @al_get_some_in skey V skey_eqb skey_eqb_spec.
Definition s_get_some_key {V} := @al_get_some_key skey V skey_eqb skey_eqb_spec.
Definition s_in_get {V} := @al_in_get skey V skey_eqb skey_eqb_spec.
Definition s_keys_del {V} := @al_keys_del skey V skey_eqb skey_eqb_spec.
Definition s_del_nodup {V} := @al_del_nodup skey V skey_eqb skey_eqb_spec.
Definition s_set_nodup {V} := @al_set_nodup skey V skey_eqb skey_eqb_spec.
Definition s_keys_set {V} := @al_keys_set skey V skey_eqb skey_eqb_spec.
Definition s_del_length {V} := @al_del_length skey V skey_eqb skey_eqb_spec.
Definition s_get_filter {V} := @al_get_filter skey V skey_eqb skey_eqb_spec.
Definition s_get_del_same {V} := @al_get_del_same skey V skey_eqb.
Definition s_del_notin {V} := @al_del_notin skey V skey_eqb.
Definition s_del_length_le {V} := @al_del_length_le skey V skey_eqb.

Lemma nodup_same_length {A} (l1 l2 : list A) :
  NoDup l1 -> NoDup l2 -> (forall x, In x l1 <-> In x l2) -> length l1 = length l2.
Proof.
  intros N1 N2 H. apply Permutation_length. apply NoDup_Permutation; assumption.
Qed.
