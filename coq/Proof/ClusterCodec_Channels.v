(* Proof/ClusterCodec_Channels.v — pkg/cluster/channels/codec.go: the frame
   theorems (for EVERY frame format at once: they are instances of the generic
   theorems), allocation bounds of the fourteen modelled frames, and the
   fields the wire does not carry. *)
From WK Require Import Base.Base Base.Bytes Gen.Consts_C27.
From WK Require Import Model.ClusterCodecBase Model.ClusterCodec_Channels Proof.ClusterCodecBase.
From Coq Require Import ZifyBool ZifyN ZifyNat.
Open Scope N_scope.

(* ---- frames: round trip, truncation, trailing bytes ------------------------------------------ *)

Lemma encode_frame_some {A} (f : fmt (N * A)) vx e :
  encode_frame f vx = Some e -> e = encode f vx /\ version_writable (fst vx) = true.
Proof.
  unfold encode_frame. destruct (version_writable (fst vx)); [|discriminate].
  intro H. injection H as <-. split; reflexivity.
Qed.

Theorem frame_roundtrip : forall A (f : fmt (N * A)) vx e,
  wf f vx = true -> encode_frame f vx = Some e -> decode_frame f e = Some vx.
Proof.
  intros A f vx e W E. apply encode_frame_some in E. destruct E as [-> _].
  apply decode_full_encode. exact W.
Qed.

Theorem frame_truncation_rejected : forall A (f : fmt (N * A)) vx e p s,
  wf f vx = true -> encode_frame f vx = Some e -> e = p ++ s -> s <> [] -> decode_frame f p = None.
Proof.
  intros A f vx e p s W E Hp Hs. apply encode_frame_some in E. destruct E as [-> _].
  eapply truncation_rejected; eassumption.
Qed.

Theorem frame_trailing_rejected : forall A (f : fmt (N * A)) vx e s,
  wf f vx = true -> encode_frame f vx = Some e -> s <> [] -> decode_frame f (e ++ s) = None.
Proof.
  intros A f vx e s W E Hs. apply encode_frame_some in E. destruct E as [-> _].
  apply trailing_rejected; assumption.
Qed.

(* a frame of a non-writable version is refused by the encoder, whatever the body *)
Theorem frame_version_refused : forall A (f : fmt (N * A)) vx,
  version_writable (fst vx) = false -> encode_frame f vx = None.
Proof. intros A f vx H. unfold encode_frame. rewrite H. reflexivity. Qed.

(* a decoded frame carries a known version *)
Theorem request_frame_version_known : forall A kind (body : N -> fmt A) data v x,
  decode_frame (request_frame kind body) data = Some (v, x) -> version_known v = true.
Proof.
  intros A kind body data v x H. unfold decode_frame, decode_full in H.
  destruct (decode (request_frame kind body) data) as [[[v' x'] r]|] eqn:E; [|discriminate].
  destruct r; [|discriminate]. inversion H; subst v' x'. clear H.
  unfold request_frame, FMap, f_frame_head in E. cbn [decode] in E.
  destruct (p_byte data) as [[a r1]|]; [|discriminate].
  destruct (p_byte r1) as [[b r2]|]; [|discriminate].
  cbn [fst snd] in E.
  destruct (version_known a && (b =? kind)) eqn:G; [|discriminate].
  cbn [fst] in E. destruct (decode (body a) r2) as [[y r3]|]; [|discriminate].
  inversion E; subst. apply andb_true_iff in G. destruct G as [G _]. exact G.
Qed.

(* ---- allocation: every count is checked against the remaining input ----------------------------- *)

Ltac ch_capped :=
  cbn;
  repeat (first [ exact I | reflexivity | split | intro
                | match goal with |- context [if ?c then _ else _] => destruct c end; cbn ]).

Lemma readMessage_capped ver : capped true 0 (readMessage ver).
Proof. unfold readMessage, msg_ts, msg_setting. ch_capped. Qed.
Lemma readRecord_capped ver : capped true 0 (readRecord ver).
Proof. unfold readRecord, rec_str, msg_ts, msg_setting. ch_capped. Qed.
Lemma readMeta_capped ver : capped true 0 (readMeta ver).
Proof. unfold readMeta, meta_uv, meta_str, meta_byte, meta_time. ch_capped. Qed.

Lemma request_frame_capped {A} kind (body : N -> fmt A) :
  (forall ver, capped true 0 (body ver)) -> capped true 0 (request_frame kind body).
Proof. intro H. unfold request_frame, FMap, f_frame_head. cbn [capped]. split; [split; exact I|]. intro a. apply H. Qed.
Lemma result_frame_capped {A} kind (body : N -> fmt A) :
  (forall ver, capped true 0 (body ver)) -> capped true 0 (result_frame kind body).
Proof.
  intro H. unfold result_frame, FMap, f_frame_head. cbn [capped]. split; [split; exact I|].
  intro a. split; [exact I|apply H].
Qed.

Lemma f_pull_capped : capped true 0 f_pull.
Proof. apply request_frame_capped. intro. ch_capped. Qed.
Lemma f_pull_batch_capped : capped true 0 f_pull_batch.
Proof. apply request_frame_capped. intro. ch_capped. Qed.
Lemma f_ack_capped : capped true 0 f_ack.
Proof. apply request_frame_capped. intro. ch_capped. Qed.
Lemma f_pull_hint_capped : capped true 0 f_pull_hint.
Proof. apply request_frame_capped. intro. ch_capped. Qed.
Lemma f_pull_hint_batch_capped : capped true 0 f_pull_hint_batch.
Proof. apply request_frame_capped. intro. ch_capped. Qed.
Lemma f_notify_capped : capped true 0 f_notify.
Proof. apply request_frame_capped. intro. ch_capped. Qed.
Ltac ch_capped2 :=
  repeat (cbn [capped ck_rem];
          first [ exact I | reflexivity
                | match goal with
                  | |- capped _ _ (readMessage _) => apply readMessage_capped
                  | |- capped _ _ (readRecord _) => apply readRecord_capped
                  | |- capped _ _ (readMeta _) => apply readMeta_capped
                  end
                | split | intro
                | match goal with |- context [if ?c then _ else _] => destruct c end
                | progress unfold msg_ts, msg_setting, rec_str, meta_uv, meta_str, meta_byte, meta_time, v7uv ]).

Lemma f_append_capped : capped true 0 f_append.
Proof. apply request_frame_capped. intro ver. unfold readAppendRequest, FMap. ch_capped2. Qed.
Lemma f_append_batch_capped : capped true 0 f_append_batch.
Proof. apply request_frame_capped. intro ver. unfold readAppendBatchRequest, readMessages, FMap. ch_capped2. Qed.
Lemma f_last_visible_capped : capped true 0 f_last_visible.
Proof. apply request_frame_capped. intro ver. unfold readLastVisibleRequest. ch_capped. Qed.
Lemma f_conversation_heads_capped : capped true 0 f_conversation_heads.
Proof. apply request_frame_capped. intro. ch_capped. Qed.
Lemma f_committed_reads_capped : capped true 0 f_committed_reads.
Proof. apply request_frame_capped. intro. ch_capped. Qed.
Lemma f_pull_response_capped : capped true 0 f_pull_response.
Proof. apply result_frame_capped. intro ver. unfold readPullResponse, readRecords, FMap. ch_capped2. Qed.
Lemma f_append_response_capped : capped true 0 f_append_response.
Proof. apply result_frame_capped. intro ver. unfold readAppendResult, FMap. ch_capped2. Qed.
Lemma f_last_visible_response_capped : capped true 0 f_last_visible_response.
Proof. apply result_frame_capped. intro ver. unfold readLastVisibleResponse, v7uv, FMap. ch_capped2. Qed.

(* For a format whose counts are all checked against the remaining input: every
   make([]T, n) has n <= |input| and every byte copy is no longer than the input. *)
Theorem channels_alloc_bounded : forall A (f : fmt A) data,
  capped true 0 f ->
  Forall (fun a => match a with AList n => n <= blen data | ABytes n => n <= blen data end) (allocs f data).
Proof.
  intros A f data H. pose proof (allocs_bounded A f true 0 data H) as B.
  eapply Forall_impl; [|exact B]. intros [n|n]; cbn; lia.
Qed.

(* ---- fields the wire does not carry ---------------------------------------------------------------- *)

(* appendMessage writes the same bytes whatever Message.SyncOnce is ... *)
Lemma message_sync_once_not_encoded ver m :
  encode (readMessage ver) m =
  encode (readMessage ver)
         (CMessage (cm_id m) (cm_seq m) (cm_channel_id m) (cm_channel_type m) (cm_setting m) (cm_from_uid m)
                   (cm_client_msg_no m) (cm_ts m) (cm_trace_id m) (cm_channel_key m) false (cm_payload m)).
Proof. destruct m. reflexivity. Qed.

(* ... and readMessage never returns a message with SyncOnce set *)
Lemma message_decoded_sync_once_false ver data m r :
  decode (readMessage ver) data = Some (m, r) -> cm_sync_once m = false.
Proof.
  unfold readMessage. intro H. apply decode_FMapD_inv in H. destruct H as [t ->].
  destruct t as (i & s & c & t & u & n & ts & st & tr & k & p). reflexivity.
Qed.

(* the witness of C27-K1, as in corpus/C27/k1_append_batch_synconce.json: a forwarded
   append batch whose only message is a sync-once command comes back without the flag *)
Definition k1_message (sync : bool) : cmessage :=
  CMessage 7 0 [] 0 0 (hx "7531") (hx "6331") 1%Z [] [] sync (Some (hx "636d64")).
Definition k1_request (sync : bool) : N * append_batch_request :=
  (codecVersion, AppendBatchRequest (ChanId (hx "6731") 2) (Some [k1_message sync]) [] [] 0%Z 0 0 0 false false).

Theorem append_batch_sync_once_lost :
  exists e, encode_frame f_append_batch (k1_request true) = Some e
            /\ decode_frame f_append_batch e = Some (k1_request false)
            /\ k1_request false <> k1_request true.
Proof.
  eexists. split; [vm_compute; reflexivity|]. split; [vm_compute; reflexivity|].
  intro H. inversion H.
Qed.
