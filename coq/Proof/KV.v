(* Proof/KV.v — lemmas about the key-value store of Model/KV.v: point reads after
   writes, key uniqueness, membership, batches, the crash invariant lemma and
   the sort used by scans. *)
From WK Require Import Base.Base Model.KV.
From Coq Require Import Sorting.Permutation Sorting.Sorted.

Section KVProof.
  Context {K V : Type}.
  Variable keqb : K -> K -> bool.
  Hypothesis keqb_eq : forall a b, keqb a b = true <-> a = b.

  Lemma keqb_refl k : keqb k k = true.
  Proof. apply keqb_eq. reflexivity. Qed.

  Lemma keqb_neq a b : a <> b -> keqb a b = false.
  Proof.
    intro H. destruct (keqb a b) eqn:E; [|reflexivity].
    apply keqb_eq in E. contradiction.
  Qed.

  Lemma keqb_false a b : keqb a b = false -> a <> b.
  Proof. intros E H. subst. rewrite keqb_refl in E. discriminate. Qed.

  Lemma keqb_sym a b : keqb a b = keqb b a.
  Proof.
    destruct (keqb a b) eqn:E.
    - apply keqb_eq in E. subst. symmetry. apply keqb_refl.
    - symmetry. apply keqb_neq. intro H. subst. rewrite keqb_refl in E. discriminate.
  Qed.

  Notation store := (@store K V).
  Notation get := (get keqb).
  Notation del := (del keqb).
  Notation put := (put keqb).

  (* ---- point reads ------------------------------------------------------------- *)

  Lemma get_del_same k (s : store) : get k (del k s) = None.
  Proof.
    induction s as [|[k' v] s IH]; cbn [KV.del KV.get]; [reflexivity|].
    destruct (keqb k k') eqn:E; [exact IH|].
    cbn [KV.get]. rewrite E. exact IH.
  Qed.

  Lemma get_del_other k k' (s : store) : k <> k' -> get k (del k' s) = get k s.
  Proof.
    intro N. induction s as [|[k2 v] s IH]; cbn [KV.del KV.get]; [reflexivity|].
    destruct (keqb k' k2) eqn:E.
    - apply keqb_eq in E. subst k2. rewrite (keqb_neq _ _ N). exact IH.
    - cbn [KV.get]. destruct (keqb k k2); [reflexivity|exact IH].
  Qed.

  Lemma get_put_same k v (s : store) : get k (put k v s) = Some v.
  Proof. unfold KV.put. cbn [KV.get]. rewrite keqb_refl. reflexivity. Qed.

  Lemma get_put_other k k' v (s : store) : k <> k' -> get k (put k' v s) = get k s.
  Proof.
    intro N. unfold KV.put. cbn [KV.get]. rewrite (keqb_neq _ _ N).
    apply get_del_other. exact N.
  Qed.

  Lemma get_del_range k p (s : store) :
    get k (del_range p s) = if p k then None else get k s.
  Proof.
    unfold del_range.
    induction s as [|[k' v] s IH]; cbn [filter KV.get fst].
    - destruct (p k); reflexivity.
    - destruct (p k') eqn:P; cbn [negb].
      + rewrite IH. destruct (keqb k k') eqn:E; [|reflexivity].
        apply keqb_eq in E. subst. rewrite P. reflexivity.
      + cbn [KV.get]. destruct (keqb k k') eqn:E; [|exact IH].
        apply keqb_eq in E. subst. rewrite P. reflexivity.
  Qed.

  (* ---- key uniqueness ------------------------------------------------------------ *)

  Definition keys (s : store) : list K := map fst s.
  Definition wf (s : store) : Prop := NoDup (keys s).

  Lemma in_keys_del k k' (s : store) : In k (keys (del k' s)) -> In k (keys s) /\ k <> k'.
  Proof.
    induction s as [|[k2 v] s IH]; cbn [KV.del keys map fst]; [intros []|].
    destruct (keqb k' k2) eqn:E.
    - intro H. destruct (IH H) as [H1 H2]. split; [right; exact H1|exact H2].
    - cbn [keys map fst In]. intros [H|H].
      + subst k2. split; [left; reflexivity|]. intro; subst. rewrite keqb_refl in E. discriminate.
      + destruct (IH H) as [H1 H2]. split; [right; exact H1|exact H2].
  Qed.

  Lemma wf_del k (s : store) : wf s -> wf (del k s).
  Proof.
    unfold wf. induction s as [|[k' v] s IH]; cbn [KV.del keys map fst]; [intro; constructor|].
    intro H. inversion H as [|? ? Hn Hd]; subst.
    destruct (keqb k k'); [apply IH; exact Hd|].
    cbn [keys map fst]. constructor; [|apply IH; exact Hd].
    intro Hin. apply in_keys_del in Hin. apply Hn. exact (proj1 Hin).
  Qed.

  Lemma wf_put k v (s : store) : wf s -> wf (put k v s).
  Proof.
    intro H. unfold KV.put, wf. cbn [keys map fst]. constructor; [|apply wf_del; exact H].
    intro Hin. apply in_keys_del in Hin. destruct Hin as [_ N]. apply N. reflexivity.
  Qed.

  Lemma wf_del_range p (s : store) : wf s -> wf (del_range p s).
  Proof.
    unfold wf, del_range. induction s as [|[k v] s IH]; cbn [filter keys map fst]; [intro; constructor|].
    intro H. inversion H as [|? ? Hn Hd]; subst.
    destruct (negb (p k)); [|apply IH; exact Hd].
    cbn [keys map fst]. constructor; [|apply IH; exact Hd].
    intro Hin. apply Hn. unfold keys in *. apply in_map_iff in Hin. destruct Hin as [[k2 v2] [E Hin]].
    apply filter_In in Hin. apply in_map_iff. exists (k2, v2). split; [exact E|exact (proj1 Hin)].
  Qed.

  (* ---- membership = point read, for well-formed stores ------------------------------ *)

  Lemma get_in k v (s : store) : get k s = Some v -> In (k, v) s.
  Proof.
    induction s as [|[k' v'] s IH]; cbn [KV.get]; [discriminate|].
    destruct (keqb k k') eqn:E.
    - intro H. injection H as ->. apply keqb_eq in E. subst. left. reflexivity.
    - intro H. right. apply IH. exact H.
  Qed.

  Lemma in_get k v (s : store) : wf s -> In (k, v) s -> get k s = Some v.
  Proof.
    unfold wf. induction s as [|[k' v'] s IH]; cbn [KV.get keys map fst]; [intros _ []|].
    intros H [Hin|Hin]; inversion H as [|? ? Hn Hd]; subst.
    - injection Hin as -> ->. rewrite keqb_refl. reflexivity.
    - destruct (keqb k k') eqn:E.
      + apply keqb_eq in E. subst k'. exfalso. apply Hn. unfold keys.
        apply in_map_iff. exists (k, v). split; [reflexivity|exact Hin].
      + apply IH; assumption.
  Qed.

  Lemma in_iff_get k v (s : store) : wf s -> (In (k, v) s <-> get k s = Some v).
  Proof. intro H. split; [apply in_get; exact H|apply get_in]. Qed.

  (* ---- batches ------------------------------------------------------------------------ *)

  Notation apply_op := (apply_op keqb).
  Notation apply_batch := (apply_batch keqb).
  Notation run_batches := (run_batches keqb).

  Lemma wf_apply_op (s : store) o : wf s -> wf (apply_op s o).
  Proof.
    destruct o; cbn [KV.apply_op]; intro H;
      [apply wf_put|apply wf_del|apply wf_del_range]; exact H.
  Qed.

  Lemma wf_apply_batch b : forall s : store, wf s -> wf (apply_batch s b).
  Proof.
    induction b as [|o b IH]; intros s H; cbn [KV.apply_batch fold_left]; [exact H|].
    apply IH. apply wf_apply_op. exact H.
  Qed.

  Lemma apply_batch_app (s : store) b1 b2 :
    apply_batch s (b1 ++ b2) = apply_batch (apply_batch s b1) b2.
  Proof. unfold KV.apply_batch. apply fold_left_app. Qed.

  Lemma apply_batch_cons (s : store) o b :
    apply_batch s (o :: b) = apply_batch (apply_op s o) b.
  Proof. reflexivity. Qed.

  Lemma run_batches_app (s : store) bs1 bs2 :
    run_batches s (bs1 ++ bs2) = run_batches (run_batches s bs1) bs2.
  Proof. unfold KV.run_batches. apply fold_left_app. Qed.

  (* the effect of one staged write on a point read *)
  Definition op_effect (k : K) (o : @wop K V) (cur : option V) : option V :=
    match o with
    | Put k' v => if keqb k k' then Some v else cur
    | Del k' => if keqb k k' then None else cur
    | DelRange p => if p k then None else cur
    end.

  Lemma get_apply_op k (s : store) o : get k (apply_op s o) = op_effect k o (get k s).
  Proof.
    destruct o as [k' v|k'|p]; cbn [KV.apply_op op_effect].
    - destruct (keqb k k') eqn:E.
      + apply keqb_eq in E. subst. apply get_put_same.
      + apply get_put_other. apply keqb_false. exact E.
    - destruct (keqb k k') eqn:E.
      + apply keqb_eq in E. subst. apply get_del_same.
      + apply get_del_other. apply keqb_false. exact E.
    - apply get_del_range.
  Qed.

  Definition batch_effect (k : K) (b : @batch K V) (cur : option V) : option V :=
    fold_left (fun c o => op_effect k o c) b cur.

  Lemma get_apply_batch k b : forall s : store, get k (apply_batch s b) = batch_effect k b (get k s).
  Proof.
    induction b as [|o b IH]; intro s; cbn [KV.apply_batch fold_left batch_effect]; [reflexivity|].
    fold (apply_batch (apply_op s o) b). rewrite IH. rewrite get_apply_op. reflexivity.
  Qed.

  Lemma batch_effect_app k b1 b2 cur :
    batch_effect k (b1 ++ b2) cur = batch_effect k b2 (batch_effect k b1 cur).
  Proof. unfold batch_effect. apply fold_left_app. Qed.

  (* a batch that never mentions a key leaves it alone *)
  Definition op_touches (k : K) (o : @wop K V) : bool :=
    match o with
    | Put k' _ | Del k' => keqb k k'
    | DelRange p => p k
    end.

  Lemma batch_effect_untouched k b cur :
    forallb (fun o => negb (op_touches k o)) b = true -> batch_effect k b cur = cur.
  Proof.
    revert cur. induction b as [|o b IH]; intros cur H; cbn [batch_effect fold_left]; [reflexivity|].
    cbn [forallb] in H. apply andb_true_iff in H. destruct H as [H1 H2].
    fold (batch_effect k b (op_effect k o cur)). rewrite IH by exact H2.
    destruct o; cbn [op_touches op_effect] in *; apply negb_true_iff in H1; rewrite H1; reflexivity.
  Qed.

  (* ---- crash semantics ------------------------------------------------------------------- *)

  (* crash_inv: an invariant preserved by every single batch holds in every crash state *)
  Lemma crash_inv (Inv : store -> Prop) (s0 : store) bs :
    Inv s0 ->
    (forall s b, Inv s -> In b bs -> Inv (apply_batch s b)) ->
    forall durable s, crash_states keqb s0 bs durable s -> Inv s.
  Proof.
    intros H0 Hstep durable s [k [_ ->]]. unfold crash_state.
    assert (G : forall l s1, Inv s1 -> (forall b, In b l -> In b bs) -> Inv (run_batches s1 l)).
    { induction l as [|b l IH]; intros s1 H1 Hsub; cbn [KV.run_batches fold_left]; [exact H1|].
      apply IH.
      - apply Hstep; [exact H1|apply Hsub; left; reflexivity].
      - intros b' Hb. apply Hsub. right. exact Hb. }
    apply G; [exact H0|].
    intros b Hb. rewrite <- (firstn_skipn k bs). apply in_or_app. left. exact Hb.
  Qed.

  (* every returned batch is contained in every crash state's prefix *)
  Lemma crash_contains_durable (s0 : store) bs durable s :
    crash_states keqb s0 bs durable s ->
    exists k, (durable <= k <= length bs)%nat /\
              s = run_batches (run_batches s0 (firstn durable bs)) (skipn durable (firstn k bs)).
  Proof.
    intros [k [Hk ->]]. exists k. split; [exact Hk|].
    unfold crash_state. rewrite <- run_batches_app.
    f_equal. rewrite <- (firstn_skipn durable (firstn k bs)) at 1.
    f_equal. rewrite firstn_firstn. f_equal. lia.
  Qed.

  (* the full history is one of the crash states (no crash) and the empty prefix
     is one when nothing was reported durable *)
  Lemma crash_states_full (s0 : store) bs durable :
    (durable <= length bs)%nat -> crash_states keqb s0 bs durable (run_batches s0 bs).
  Proof.
    intro H. exists (length bs). split; [lia|]. unfold crash_state. rewrite firstn_all. reflexivity.
  Qed.
End KVProof.

(* ---- sort_by ------------------------------------------------------------------------------- *)
Section SortProof.
  Context {A : Type}.
  Variable f : A -> N.

  Lemma insert_by_perm x l : Permutation (insert_by f x l) (x :: l).
  Proof.
    induction l as [|y l IH]; cbn [insert_by]; [apply Permutation_refl|].
    destruct (f x <=? f y); [apply Permutation_refl|].
    eapply perm_trans; [apply perm_skip; exact IH|apply perm_swap].
  Qed.

  Lemma sort_by_perm l : Permutation (sort_by f l) l.
  Proof.
    induction l as [|x l IH]; cbn [sort_by]; [apply Permutation_refl|].
    eapply perm_trans; [apply insert_by_perm|apply perm_skip; exact IH].
  Qed.

  Lemma in_sort_by x l : In x (sort_by f l) <-> In x l.
  Proof.
    split; apply Permutation_in; [apply sort_by_perm|apply Permutation_sym, sort_by_perm].
  Qed.

  Definition sorted_le (l : list A) : Prop := StronglySorted (fun a b => f a <= f b) l.
  Definition sorted_lt (l : list A) : Prop := StronglySorted (fun a b => f a < f b) l.

  Lemma insert_by_sorted x l : sorted_le l -> sorted_le (insert_by f x l).
  Proof.
    unfold sorted_le. induction l as [|y l IH]; cbn [insert_by]; intro H.
    - constructor; [constructor|constructor].
    - destruct (f x <=? f y) eqn:E.
      + apply N.leb_le in E. constructor; [exact H|].
        inversion H as [|? ? Hs Hall]; subst. constructor; [exact E|].
        eapply Forall_impl; [|exact Hall]. cbn. intros; lia.
      + apply N.leb_gt in E. inversion H as [|? ? Hs Hall]; subst.
        constructor; [apply IH; exact Hs|].
        assert (P : Permutation (insert_by f x l) (x :: l)) by apply insert_by_perm.
        eapply Permutation_Forall; [apply Permutation_sym; exact P|].
        constructor; [lia|exact Hall].
  Qed.

  Lemma sort_by_sorted l : sorted_le (sort_by f l).
  Proof.
    induction l as [|x l IH]; cbn [sort_by]; [constructor|].
    apply insert_by_sorted. exact IH.
  Qed.

  (* with pairwise distinct keys the sorted order is strict *)
  Lemma sorted_le_lt l : NoDup (map f l) -> sorted_le l -> sorted_lt l.
  Proof.
    unfold sorted_le, sorted_lt. induction l as [|x l IH]; intros Hn Hs; [constructor|].
    cbn [map] in Hn. inversion Hn as [|? ? Hnx Hnl]; subst.
    inversion Hs as [|? ? Hs' Hall]; subst.
    constructor; [apply IH; assumption|].
    apply Forall_forall. intros y Hy.
    assert (f x <= f y) by (eapply Forall_forall in Hall; [exact Hall|exact Hy]).
    assert (f x <> f y).
    { intro E. apply Hnx. rewrite E. apply in_map. exact Hy. }
    lia.
  Qed.

  (* a strictly sorted list is determined by its elements *)
  Lemma sorted_lt_unique l1 : forall l2,
    sorted_lt l1 -> sorted_lt l2 -> (forall x, In x l1 <-> In x l2) -> l1 = l2.
  Proof.
    unfold sorted_lt.
    induction l1 as [|x l1 IH]; intros l2 H1 H2 Hiff.
    - destruct l2 as [|y l2]; [reflexivity|]. exfalso. apply (Hiff y). left. reflexivity.
    - destruct l2 as [|y l2]; [exfalso; apply (Hiff x); left; reflexivity|].
      inversion H1 as [|? ? Hs1 Ha1]; subst. inversion H2 as [|? ? Hs2 Ha2]; subst.
      assert (Exy : x = y).
      { assert (Hx : In x (y :: l2)) by (apply Hiff; left; reflexivity).
        assert (Hy : In y (x :: l1)) by (apply Hiff; left; reflexivity).
        destruct Hx as [Hx|Hx]; [symmetry; exact Hx|].
        destruct Hy as [Hy|Hy]; [exact Hy|].
        eapply Forall_forall in Ha1; [|exact Hy]. eapply Forall_forall in Ha2; [|exact Hx]. lia. }
      subst y. f_equal. apply IH; [exact Hs1|exact Hs2|].
      intro z. split; intro Hz.
      + assert (Hz' : In z (x :: l2)) by (apply Hiff; right; exact Hz).
        destruct Hz' as [Hz'|Hz']; [|exact Hz'].
        subst z. eapply Forall_forall in Ha1; [|exact Hz]. lia.
      + assert (Hz' : In z (x :: l1)) by (apply Hiff; right; exact Hz).
        destruct Hz' as [Hz'|Hz']; [|exact Hz'].
        subst z. eapply Forall_forall in Ha2; [|exact Hz]. lia.
  Qed.

  Lemma sorted_lt_nodup l : sorted_lt l -> NoDup (map f l).
  Proof.
    unfold sorted_lt. induction l as [|x l IH]; intro H; cbn [map]; [constructor|].
    inversion H as [|? ? Hs Ha]; subst. constructor; [|apply IH; exact Hs].
    intro Hin. apply in_map_iff in Hin. destruct Hin as [y [E Hy]].
    eapply Forall_forall in Ha; [|exact Hy]. lia.
  Qed.
End SortProof.
