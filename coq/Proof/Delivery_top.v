(* Proof/Delivery_top.v — C31_monitor = 0 on the cases built from model output. *)
From WK Require Import Base.Base Gen.Consts_C31 Model.Delivery Model.Delivery_C31 Model.Delivery_sys
     Proof.Delivery_local Proof.Delivery_retry Proof.Delivery_cover Proof.Delivery_monitor
     Proof.Delivery_accept Proof.Delivery_link.
Open Scope N_scope.

Theorem monitor_push c steps :
  (forall st, In st steps -> ps_obs st = push_model c st) ->
  C31_monitor (CPush c steps) = 0.
Proof.
  intros H. unfold C31_monitor, C31_ok.
  assert (E : forallb (fun st => push_monitor (ps_obs st)) steps = true).
  { apply forallb_forall. intros st Hst. rewrite (H st Hst). apply push_model_accepted. }
  rewrite E. reflexivity.
Qed.

Theorem monitor_plan c steps :
  (forall st, In st steps -> exists orc,
      plan_contract (pl_plan st) (pl_ans st) orc
      /\ pl_obs st = fst (processPlan c (pl_plan st) (pl_ans st) (pl_panic st) orc (pl_cx0 st))) ->
  C31_monitor (CPlan c steps) = 0.
Proof.
  intros H. unfold C31_monitor, C31_ok.
  assert (E : forallb (fun st => plan_monitor c (pl_plan st) (pl_ans st) (pl_panic st) (pl_cx0 st) (pl_obs st)) steps = true).
  { apply forallb_forall. intros st Hst. destruct (H st Hst) as (orc & PC & ->).
    apply plan_model_accepted. exact PC. }
  rewrite E. reflexivity.
Qed.

Theorem monitor_queue cap shards ops :
  C31_monitor (CQueue cap shards (q_model_steps (newOrderedPlanQueue cap shards) ops)) = 0.
Proof. unfold C31_monitor, C31_ok. rewrite queue_model_accepted. reflexivity. Qed.

Definition shard_row_of (k : N * N * bytes) : shard_row :=
  let '(sh, ty, id) := k in (sh, ty, id, shardIndex sh ty id).

Theorem monitor_shard keys :
  (forall sh ty id, In (sh, ty, id) keys -> 0 < sh) ->
  C31_monitor (CShard (map shard_row_of keys)) = 0.
Proof.
  intros H. unfold C31_monitor, C31_ok.
  assert (E : shard_rows_ok (map shard_row_of keys) = true).
  { induction keys as [|[[sh ty] id] keys IH]; [reflexivity|].
    cbn [map shard_rows_ok shard_row_of]. apply andb_true_iff. split; [apply andb_true_iff; split|].
    - apply N.ltb_lt. unfold shardIndex. apply N.mod_lt.
      pose proof (H sh ty id (or_introl eq_refl)). lia.
    - apply forallb_forall. intros [[[sh' ty'] id'] idx'] Hin. apply in_map_iff in Hin.
      destruct Hin as ([[sh2 ty2] id2] & E2 & _). cbn [shard_row_of] in E2. inversion E2; subst.
      unfold shard_pair_ok.
      destruct ((sh =? sh') && (ty =? ty') && bytes_eqb id id') eqn:Ek; [|reflexivity].
      apply andb_true_iff in Ek. destruct Ek as [Ek E3]. apply andb_true_iff in Ek. destruct Ek as [E1 E2'].
      apply N.eqb_eq in E1, E2'. apply bytes_eqb_eq in E3. subst. apply N.eqb_refl.
    - apply IH. intros sh0 ty0 id0 Hin. apply (H sh0 ty0 id0). right. exact Hin. }
  rewrite E. reflexivity.
Qed.

(* one channel, one shard *)
Theorem shard_function n p p' :
  e_chtype (p_event p) = e_chtype (p_event p') -> e_chid (p_event p) = e_chid (p_event p') ->
  plan_shard n p = plan_shard n p'.
Proof. intros A B. unfold plan_shard. rewrite A, B. reflexivity. Qed.
