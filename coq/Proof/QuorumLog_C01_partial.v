(* Proof/QuorumLog_C01_partial.v — c01_partial: the conditional survival theorem.
   If the prefix selected by recovery reaches an acknowledged entry and is backed by a voter that
   holds both the entry and the selected identity (what `probe_covers` + quorum intersection give,
   and what fails in F1 where the selected index is below the entry), then after repair — and after
   the barrier — the installing node holds that entry, identical, at its index. *)
From WK Require Import Base.Base.
From WK Require Import Model.ReplicaLog Model.QuorumLog Model.Cluster.
From WK Require Import Proof.ReplicaLog Proof.QuorumLog_Commit Proof.ReplicaLog_WF Proof.LogMatching Proof.Cluster_Lift.
From Coq Require Import ZifyBool ZifyN.
Open Scope N_scope.

(* chain + digests *)
Definition WF2 (rp : replica) : Prop := WF rp /\ digests_ok rp.
Definition R2 (rp rp' : replica) : Prop := WF2 rp -> WF2 rp'.

Lemma R2_refl rp : R2 rp rp. Proof. intro H; exact H. Qed.
Lemma R2_trans a b c : R2 a b -> R2 b c -> R2 a c. Proof. intros H1 H2 H. auto. Qed.
Lemma R2_sync k rp mu rp' o nf : sync k rp mu = (rp', o, nf) -> R2 rp rp'.
Proof. intros H [W D]. split; [exact (proj1 (sync_WF _ _ _ _ _ _ W H)) | eapply sync_digests; eauto]. Qed.
Lemma R2_replace k rp q rp' lo : replace k rp q = inr (rp', lo) -> R2 rp rp'.
Proof. intros H [W D]. split; [exact (proj1 (replace_WF _ _ _ _ _ W H)) | eapply replace_digests; eauto]. Qed.

(* logs only grow through Syncs *)
Definition Rp (rp rp' : replica) : Prop := exists ext, rp_log rp' = rp_log rp ++ ext.
Lemma Rp_refl rp : Rp rp rp. Proof. exists []. rewrite app_nil_r. reflexivity. Qed.
Lemma Rp_trans a b c : Rp a b -> Rp b c -> Rp a c.
Proof. intros [x Hx] [y Hy]. exists (x ++ y). rewrite Hy, Hx, app_assoc. reflexivity. Qed.
Lemma Rp_sync k rp mu rp' o nf : sync k rp mu = (rp', o, nf) -> Rp rp rp'.
Proof. apply sync_log_prefix. Qed.

Lemma Rp_ent_at rp rp' idx e : Rp rp rp' -> ent_at rp idx = Some e -> ent_at rp' idx = Some e.
Proof.
  intros [ext Hx] H. destruct (ent_at_nth _ _ _ H) as (Hi & r & Hn).
  unfold ent_at, log_at. replace (idx =? 0) with false by lia.
  rewrite Hx, nth_error_app1; [rewrite Hn; reflexivity|]. apply nth_error_Some. congruence.
Qed.

(* ---- what a successful repair returns ---------------------------------------------------------------------- *)

Lemma loadRecovery_exact n local s es :
  loadRecoveryReplicaState n local [] = inr (s, es) -> loadExactState (nt_kind n) (net_rep n local) = Some s.
Proof.
  unfold loadRecoveryReplicaState.
  destruct (load (nt_kind n) (net_rep n local) []) as [[s0 es0]|] eqn:L; [|discriminate].
  destruct (validReplicaState s0 && listN_eqb (map pb_idx es0) []); [|discriminate].
  intro H. inversion H; subst. unfold load in L.
  destruct (loadExactState (nt_kind n) (net_rep n local)) as [s1|]; [|discriminate].
  cbn in L. inversion L. reflexivity.
Qed.

Lemma loadExactState_tail k rp s : loadExactState k rp = Some s -> 0 < rs_leo s ->
  rs_leo s = rp_leo rp /\ ent_at rp (rs_leo s) = Some (rs_tail s).
Proof.
  unfold loadExactState. destruct (rp_leo rp <? rp_hw rp); [discriminate|].
  destruct (rp_leo rp =? 0) eqn:E0.
  - intro H. inversion H; subst. cbn. lia.
  - destruct (by_last (rp_bylast rp) (rp_leo rp)) as [m|]; [|discriminate].
    destruct (ent_at rp (rp_leo rp)) as [e|] eqn:Ee; [|discriminate].
    destruct (_ && _ && _ && _ && _ && _ && _); [|discriminate].
    destruct (validReplicaState _); [|discriminate]. intro H. inversion H; subst. cbn. auto.
Qed.

Lemma repair_pages_current : forall fuel n local sel maxBytes current from keepThrough previous firstPage n1 cur fr,
  loadExactState (nt_kind n) (net_rep n local) = Some current ->
  repair_pages fuel n local sel maxBytes current from keepThrough previous firstPage = (n1, inr (cur, fr)) ->
  loadExactState (nt_kind n1) (net_rep n1 local) = Some cur.
Proof.
  induction fuel as [|fuel IH]; intros n local sel maxBytes current from keepThrough previous firstPage n1 cur fr Hc H;
    cbn in H; [discriminate|].
  destruct (sl_index sel <? from); [inversion H; subst; exact Hc|].
  destruct (fetchRecoveryPage _ _ _ _ _ _ _ _) as [e | ps]; [discriminate|].
  destruct (negb (validRecoveryProposals _ _ _ _ _)); [discriminate|].
  destruct (last_proposal ps) as [lm lrecs].
  destruct (SealProposalManifest lm lrecs) as [[sm les]|]; [|discriminate].
  destruct (_ && _ && _); [discriminate|].
  destruct (local_replace n local _) as [n2 res].
  destruct res as [e | lo]; [discriminate|].
  destruct (negb (lo =? m_last lm)); [discriminate|].
  destruct (loadRecoveryReplicaState n2 local []) as [e | [loaded es]] eqn:El; [discriminate|].
  destruct (negb (rstate_eqb loaded _)); [discriminate|].
  eapply IH; [|exact H]. eapply loadRecovery_exact; eauto.
Qed.

(* a successful repair leaves the local replica ending exactly in the selected identity *)
Lemma repair_success_tail n local voters q sel maxBytes n1 recovered :
  repairQuorumPrefix n local voters q sel maxBytes = (n1, inr recovered) -> 0 < sl_index sel ->
  rs_leo recovered = sl_index sel /\ rs_tail recovered = sl_ident sel /\
  ent_at (net_rep n1 local) (sl_index sel) = Some (sl_ident sel).
Proof.
  unfold repairQuorumPrefix. intros H Hpos.
  destruct (_ || _); [discriminate|].
  destruct (loadRecoveryReplicaState n local []) as [e | [localSt es]] eqn:El; [discriminate|].
  pose proof (loadRecovery_exact _ _ _ _ El) as Hex.
  destruct (sl_index sel <? rs_committed localSt); [discriminate|].
  match type of H with context[match ?prev with inl _ => _ | inr _ => _ end] => destruct prev as [e | previous] end;
    [discriminate|].
  assert (Hfin : forall nn c, loadExactState (nt_kind nn) (net_rep nn local) = Some c ->
            rs_leo c = sl_index sel -> rs_tail c = sl_ident sel ->
            ent_at (net_rep nn local) (sl_index sel) = Some (sl_ident sel)).
  { intros nn c Hl H1 H2. destruct (loadExactState_tail _ _ _ Hl) as [_ T]; [lia|]. rewrite H1, H2 in T. exact T. }
  destruct ((rs_leo localSt =? sl_index sel) && ident_eqb (rs_tail localSt) (sl_ident sel) &&
            (rs_committed localSt =? sl_index sel)) eqn:Eearly.
  - inversion H; subst. rewrite !andb_true_iff in Eearly. destruct Eearly as [[E1 E2] _].
    apply N.eqb_eq in E1. apply ident_eqb_eq in E2. split; [exact E1|]. split; [exact E2|]. eapply Hfin; eauto.
  - destruct (repair_pages _ n local sel maxBytes localSt _ _ previous true) as [n2 [e | [current from]]] eqn:Ep;
      [inversion H|].
    pose proof (repair_pages_current _ _ _ _ _ _ _ _ _ _ _ _ _ Hex Ep) as Hcur.
    destruct ((from =? 1) && (sl_index sel =? 0)) eqn:Ez; [rewrite andb_true_iff in Ez; lia|].
    destruct (negb (rs_leo current =? sl_index sel) || negb (rs_committed current =? sl_index sel) ||
              negb (ident_eqb (rs_tail current) (sl_ident sel))) eqn:Ec; [discriminate|].
    inversion H; subst. rewrite !orb_false_iff, !negb_false_iff in Ec. destruct Ec as [[E1 _] E2].
    apply N.eqb_eq in E1. apply ident_eqb_eq in E2. split; [exact E1|]. split; [exact E2|]. eapply Hfin; eauto.
Qed.

(* ---- c01_partial -------------------------------------------------------------------------------------------- *)

(* the selected prefix covers entry e at idx: some voter whose log is well formed holds e at idx and
   the selected identity at the selected index >= idx *)
Definition selection_covers (n : net) (sel : selection) (idx : N) (e : ident) : Prop :=
  idx <> 0 /\ idx <= sl_index sel /\
  exists w, WF2 (net_rep n w) /\ ent_at (net_rep n w) idx = Some e /\
            ent_at (net_rep n w) (sl_index sel) = Some (sl_ident sel).

Lemma repair_keeps_covered_entry n local voters q sel maxBytes n1 recovered idx e :
  WF2 (net_rep n local) ->
  repairQuorumPrefix n local voters q sel maxBytes = (n1, inr recovered) ->
  selection_covers n sel idx e ->
  ent_at (net_rep n1 local) idx = Some e /\ WF2 (net_rep n1 local).
Proof.
  intros Hloc Hrep (Hi0 & Hle & w & Hw & Hwe & Hws).
  destruct (repair_success_tail _ _ _ _ _ _ _ _ Hrep) as (_ & _ & Htail); [lia|].
  pose proof (repairQuorumPrefix_ok R2 R2_refl R2_trans R2_replace _ _ _ _ _ _ _ _ Hrep) as [_ K].
  pose proof (K local Hloc) as Hloc1.
  split; [|exact Hloc1].
  rewrite <- Hwe. symmetry.
  apply (log_matching (net_rep n w) (net_rep n1 local) (sl_index sel) (sl_ident sel));
    [exact (proj1 Hw) | exact (proj1 Hloc1) | exact (proj2 Hw) | exact (proj2 Hloc1) | exact Hws | exact Htail | exact Hle].
Qed.

(* the barrier only appends *)
Lemma barrier_keeps_entries n a recovered rot n2 r v idx e :
  writeCurrentTermBarrier n a recovered rot = (n2, r) ->
  ent_at (net_rep n v) idx = Some e -> ent_at (net_rep n2 v) idx = Some e.
Proof.
  intros H He.
  pose proof (writeCurrentTermBarrier_ok Rp Rp_refl Rp_trans Rp_sync _ _ _ _ _ _ H) as [_ K].
  eapply Rp_ent_at; [apply K | exact He].
Qed.

(* every successful Install that ran recovery is "recover; repair; optional barrier" *)
Lemma Install_ok_recovery_path cfg n st local a n' st' x leo hw :
  Install cfg n st local a = (n', st', IOk x leo hw) ->
  (n' = n /\ st' = st /\ qc_ready st = true) \/
  exists sel n1 recovered,
    recoverQuorumPrefix n local (a_voters a) (a_q a) = inr sel /\
    repairQuorumPrefix n local (a_voters a) (a_q a) sel (cf_pagebytes cfg) = (n1, inr recovered) /\
    (n' = n1 \/ exists bs, writeCurrentTermBarrier n1 a recovered (cf_rot cfg) = (n', inr bs)).
Proof.
  unfold Install. destruct (_ || _ || _); [discriminate|].
  assert (Htail : forall st1,
    (if a_wf a then (n, st1, IErr EFenced)
     else match recoverQuorumPrefix n local (a_voters a) (a_q a) with
          | inl e0 => (n, st1, IErr e0)
          | inr sel0 =>
              match repairQuorumPrefix n local (a_voters a) (a_q a) sel0 (cf_pagebytes cfg) with
              | (n1, inl e0) => (n1, st1, IErr e0)
              | (n1, inr recovered) =>
                  if negb (rstate_is_zero recovered) && negb (frontierUsesAuthority recovered (a_id a))
                  then match writeCurrentTermBarrier n1 a recovered (cf_rot cfg) with
                       | (n2, inl e0) => (n2, st1, IErr e0)
                       | (n2, inr bs) => (n2, QChan (qc_auth st1) bs (rs_leo bs) true None [] [], IOk (a_id a) (rs_leo bs) (rs_leo bs))
                       end
                  else (n1, QChan (qc_auth st1) recovered (rs_leo recovered) true None [] [],
                        IOk (a_id a) (rs_leo recovered) (rs_leo recovered))
              end
          end) = (n', st', IOk x leo hw) ->
    exists sel n1 recovered,
      recoverQuorumPrefix n local (a_voters a) (a_q a) = inr sel /\
      repairQuorumPrefix n local (a_voters a) (a_q a) sel (cf_pagebytes cfg) = (n1, inr recovered) /\
      (n' = n1 \/ exists bs, writeCurrentTermBarrier n1 a recovered (cf_rot cfg) = (n', inr bs))).
  { intros st1 Ht. destruct (a_wf a); [discriminate|].
    destruct (recoverQuorumPrefix n local (a_voters a) (a_q a)) as [e | sel]; [discriminate|].
    destruct (repairQuorumPrefix n local (a_voters a) (a_q a) sel (cf_pagebytes cfg)) as [n1 [e | recovered]] eqn:E; [discriminate|].
    exists sel, n1, recovered. split; [first [reflexivity | assumption]|]. split; [first [exact E | reflexivity]|].
    destruct (_ && _).
    - destruct (writeCurrentTermBarrier n1 a recovered (cf_rot cfg)) as [n2 [e | bs]] eqn:E2; [discriminate|].
      inversion Ht; subst. right. exists bs. reflexivity.
    - inversion Ht; subst. left. reflexivity. }
  destruct (qc_auth st) as [cur|].
  - destruct (compareAuthorityID (a_id a) (a_id cur)).
    + destruct (negb (sameAuthority a cur)); [discriminate|].
      destruct (a_wf a) eqn:Hwf; [discriminate|].
      destruct (qc_ready st) eqn:Hrd.
      * intro H. inversion H; subst. left. auto.
      * intro H. right. apply (Htail st). exact H.
    + discriminate.
    + intro H. right. apply (Htail _ H).
  - intro H. right. apply (Htail _ H).
Qed.

(* c01_partial: an Install that succeeds through recovery with a selection covering the acknowledged
   entry leaves the installed (writable) node holding that entry at its index *)
Lemma Install_keeps_covered_entry cfg n st local a n' st' x leo hw idx e :
  Install cfg n st local a = (n', st', IOk x leo hw) -> qc_ready st = false ->
  WF2 (net_rep n local) ->
  (forall sel, recoverQuorumPrefix n local (a_voters a) (a_q a) = inr sel -> selection_covers n sel idx e) ->
  ent_at (net_rep n' local) idx = Some e.
Proof.
  intros H Hnr Hloc Hcov. apply Install_ok_recovery_path in H.
  destruct H as [(_ & _ & Hr) | (sel & n1 & recovered & Hrec & Hrep & Hn')]; [congruence|].
  destruct (repair_keeps_covered_entry _ _ _ _ _ _ _ _ _ _ Hloc Hrep (Hcov _ Hrec)) as [He _].
  destruct Hn' as [-> | (bs & Hb)]; [exact He|].
  eapply barrier_keeps_entries; eauto.
Qed.

(* ---- every reachable replica is well formed with structural digests ---------------------------------------- *)

From WK Require Import Proof.Cluster_WF Proof.Cluster_LiftStep.

Lemma R2_ckpt rp w : w <= rp_leo rp -> R2 rp (storeCheckpoint rp w).
Proof.
  intros Hw [W D]. split; [exact (proj1 (storeCheckpoint_WF _ _ W Hw))|].
  unfold digests_ok, storeCheckpoint in *. destruct (rp_hw rp <? w); exact D.
Qed.

Lemma WF2_empty : WF2 replica_empty.
Proof. split; [apply WF_empty | constructor]. Qed.

Lemma all_replicas_WF2 cfg ops :
  run_bounded cfg (cluster_init cfg) ops ->
  forall v, WF2 (net_rep (cl_net (run_cluster cfg (cluster_init cfg) ops)) v).
Proof.
  intros Hb v.
  apply (run_cluster_lift R2 R2_refl R2_trans R2_sync R2_replace R2_ckpt cfg ops (cluster_init cfg) Hb v).
  unfold cluster_init, net_rep. cbn. rewrite get_rep_init. apply WF2_empty.
Qed.
