(* Proof/ChanAppend_monitor.v — the property monitor of the case files accepts every
   complete history the pipeline model produces (at most one append in flight,
   failed appends commit nothing): the boolean the harness evaluates on
   implementation histories is the predicate the C29 theorems are about. *)
From WK Require Import Base.Base Gen.Consts_C29 Model.ChanAppend Model.ChanAppend_C29
     Proof.ChanAppend_coalesce Proof.ChanAppend_expand Proof.ChanAppend_writer Proof.ChanAppend_run
     Proof.ChanAppend_pipeline.
From Coq Require Import Sorted Permutation.
Open Scope N_scope.

Lemma find_rec_unique log r : NoDup (map pr_seq log) -> In r log -> find_rec log (pr_seq r) = Some r.
Proof.
  unfold find_rec. induction log as [|x l IH]; intros Hnd Hr; [contradiction|].
  cbn [map] in Hnd. inversion Hnd as [|y m Hx Hnd']; subst. cbn [find].
  destruct (pr_seq x =? pr_seq r) eqn:E.
  - apply N.eqb_eq in E. destruct Hr as [Hr|Hr]; [congruence|].
    exfalso. apply Hx. rewrite E. apply in_map. exact Hr.
  - apply N.eqb_neq in E. destruct Hr as [Hr|Hr]; [congruence|]. apply IH; assumption.
Qed.

Lemma find_rec_some log sq r : find_rec log sq = Some r -> In r log /\ pr_seq r = sq.
Proof. unfold find_rec. intro H. apply find_some in H. destruct H as [H1 H2]. apply N.eqb_eq in H2. auto. Qed.

Lemma filter_map_comm {A B} (g : A -> B) (f : B -> bool) (l : list A) :
  filter f (map g l) = map g (filter (fun x => f (g x)) l).
Proof. induction l as [|x l IH]; cbn [map filter]; [reflexivity|]. destruct (f (g x)); cbn [map]; rewrite IH; reflexivity. Qed.

Lemma filter_unique {A} (f : A -> N) (l : list A) t :
  NoDup (map f l) -> In t (map f l) -> exists y, filter (fun z => f z =? t) l = [y] /\ f y = t.
Proof.
  induction l as [|x l IH]; intros Hnd Hin; [contradiction|].
  cbn [map] in Hnd, Hin. inversion Hnd as [|y m Hx Hnd']; subst. cbn [filter].
  destruct (f x =? t) eqn:E.
  - apply N.eqb_eq in E. exists x. split; [|exact E]. f_equal.
    assert (Hnone : forall z, In z l -> (f z =? t) = false).
    { intros z Hz. apply N.eqb_neq. intro Ez. apply Hx. rewrite E, <- Ez. apply in_map. exact Hz. }
    clear -Hnone. induction l as [|z l IHl]; [reflexivity|]. cbn [filter].
    rewrite (Hnone z (or_introl eq_refl)). apply IHl. intros w Hw. apply Hnone. right. exact Hw.
  - apply N.eqb_neq in E. destruct Hin as [Hin|Hin]; [congruence|]. apply IH; assumption.
Qed.

Lemma nodup_map_inj {A} (f : A -> N) (l : list A) x y :
  NoDup (map f l) -> In x l -> In y l -> f x = f y -> x = y.
Proof.
  induction l as [|z l IH]; intros Hnd Hx Hy E; [contradiction|].
  cbn [map] in Hnd. inversion Hnd as [|w m Hz Hnd']; subst.
  destruct Hx as [Hx|Hx]; destruct Hy as [Hy|Hy].
  - congruence.
  - subst z. exfalso. apply Hz. rewrite E. apply in_map. exact Hy.
  - subst z. exfalso. apply Hz. rewrite <- E. apply in_map. exact Hx.
  - apply IH; assumption.
Qed.

Lemma bytes_eqb_refl b : bytes_eqb b b = true.
Proof. apply bytes_eqb_eq. reflexivity. Qed.

Lemma join_code_zero : join_code 0 0 = 0.
Proof. reflexivity. Qed.

Lemma all_pairs_zero h l :
  (forall a b, In a l -> In b l -> pair_code h a b = 0) -> all_pairs h l = 0.
Proof.
  induction l as [|a r IH]; intro H; cbn [all_pairs]; [reflexivity|].
  rewrite IH by (intros x y Hx Hy; apply H; right; assumption).
  assert (E : forall acc, acc = 0 ->
    fold_left (fun acc b => join_code acc (join_code (pair_code h a b) (pair_code h b a))) r acc = 0).
  { assert (Hr : forall b, In b r -> pair_code h a b = 0 /\ pair_code h b a = 0).
    { intros b Hb. split; apply H; auto; [left|right|right|left]; auto. }
    clear -Hr. induction r as [|b r IHr]; intros acc Ha; cbn [fold_left]; [exact Ha|].
    apply IHr; [intros x Hx; apply Hr; right; exact Hx|].
    destruct (Hr b (or_introl eq_refl)) as [E1 E2]. rewrite Ha, E1, E2. reflexivity. }
  rewrite (E 0 eq_refl). reflexivity.
Qed.

Section Mon.
  Variable St : Type.
  Variable do_append : St -> areq -> areply * St.
  Variable do_nlookup : St -> bytes -> bytes -> nreply * St.
  Variable fp : cmd -> N.
  Variable slog : St -> list prec.
  Variable Wf : list prec -> Prop.
  Hypothesis Happ : append_contract St do_append slog Wf.
  Hypothesis Hlook : lookup_contract St do_nlookup idempotencyPayloadHash slog.

  (* the history a pipeline state stands for: every submitted item is a call of its
     own, made at the time of its tag (so "submitted before" is the tag order) *)
  Definition hsend_of (c : comp) : hsend :=
    HSend (tagof c) 0 (tagof c) (tagof c) 0 (tagof c) (ps_cmd (cp_item c)) (cp_res c).

  Definition hist_of (p : pstate St) : hist :=
    Hist true (map (fun it => HCall (ps_tag it) 1 1) (p_submitted p))
         (map hsend_of (p_delivered p)) [(0, slog (p_store p))].

  Notation Inv := (PInv St idempotencyPayloadHash slog Wf).

  Lemma all_comps_tags_nodup p : Inv p -> NoDup (map tagof (all_comps St p)).
  Proof.
    intro I. pose proof (sorted_tags_nodup _ (pi_sorted _ _ _ _ _ I)) as Hnd.
    assert (Hp : Permutation (map cp_item (all_comps St p) ++ queued St p) (p_submitted p)).
    { apply (Permutation_count_occ psend_eq_dec). apply (pi_cons _ _ _ _ _ I). }
    apply (Permutation_map ps_tag) in Hp. apply Permutation_sym in Hp.
    pose proof (Permutation_NoDup Hp Hnd) as Hnd2. rewrite map_app in Hnd2.
    apply NoDup_app_l in Hnd2. rewrite map_map in Hnd2. exact Hnd2.
  Qed.

  Lemma log_of_hist p : log_of (hist_of p) 0 = slog (p_store p).
  Proof. reflexivity. Qed.

  (* H2 on the model's history *)
  Lemma model_send_ok p c : Inv p -> In c (p_delivered p) -> send_ok (hist_of p) (hsend_of c) = true.
  Proof.
    intros I Hc. unfold send_ok. cbn [h_res h_ch h_cmd h_tag hsend_of]. rewrite log_of_hist.
    destruct (is_success (cp_res c)) eqn:S; [|reflexivity].
    assert (Hac : In c (all_comps St p)) by (apply in_or_app; left; exact Hc).
    destruct (pi_backed _ _ _ _ _ I c Hac S) as [r [R1 [R2 [R3 [R4 [R5 R6]]]]]].
    pose proof (lo_seqs _ (pi_log _ _ _ _ _ I)) as Hnd.
    rewrite <- R2. rewrite (find_rec_unique _ _ Hnd R1).
    rewrite R3, N.eqb_refl, R4, R5, !bytes_eqb_refl. cbn [andb].
    destruct (pr_tag r =? tagof c) eqn:T.
    - apply N.eqb_eq in T. apply bytes_eqb_eq.
      destruct R6 as [[_ R6]|_]; [exact R6|].
      destruct (pi_logtags _ _ _ _ _ I r R1) as [c' [C1 [C2 C3]]].
      assert (c' = c).
      { apply (nodup_map_inj tagof (all_comps St p)); auto; [apply all_comps_tags_nodup; exact I|congruence]. }
      subst c'. rewrite <- C3. reflexivity.
    - apply N.eqb_neq in T. destruct R6 as [[R6 _]|[K R6]]; [congruence|].
      rewrite K. cbn [andb].
      destruct R6 as [R6|[R6|R6]].
      + rewrite R6, bytes_eqb_refl. reflexivity.
      + rewrite R6, N.eqb_refl. apply orb_true_iff. left. apply orb_true_r.
      + rewrite R6. cbn [N.eqb]. apply orb_true_r.
  Qed.

  (* H1 on the model's history: nothing in flight, so every submitted item has its one result *)
  Lemma model_call_ok p it :
    Inv p -> Permutation (map cp_item (p_delivered p)) (p_submitted p) -> In it (p_submitted p) ->
    call_ok (map hsend_of (p_delivered p)) (HCall (ps_tag it) 1 1) = true.
  Proof.
    intros I Hp Hit. unfold call_ok. cbn [hc_items hc_results hc_id].
    rewrite filter_map_comm. cbn [h_call hsend_of].
    assert (Hnd : NoDup (map tagof (p_delivered p))).
    { pose proof (all_comps_tags_nodup p I) as H. unfold all_comps in H. rewrite map_app in H.
      apply NoDup_app_l in H. exact H. }
    assert (Hin : In (ps_tag it) (map tagof (p_delivered p))).
    { apply (Permutation_in _ (Permutation_sym Hp)) in Hit. apply in_map_iff in Hit.
      destruct Hit as [c [E Hc]]. apply in_map_iff. exists c. unfold tagof. rewrite E. auto. }
    destruct (filter_unique tagof _ _ Hnd Hin) as [y [Ey _]]. rewrite Ey. reflexivity.
  Qed.

  Lemma fresh_is_fresh p c :
    In c (p_delivered p) -> fresh (hist_of p) (hsend_of c) = true -> is_fresh St slog p c.
  Proof.
    intros Hc H. unfold fresh in H. cbn [h_res h_ch h_tag hsend_of] in H. rewrite log_of_hist in H.
    apply andb_true_iff in H. destruct H as [S H]. split; [exact S|].
    destruct (find_rec (slog (p_store p)) (r_seq (cp_res c))) as [r|] eqn:F; [|discriminate].
    apply find_rec_some in F. destruct F as [F1 F2]. apply N.eqb_eq in H. exists r. auto.
  Qed.

  (* the monitor accepts the history of every quiescent reachable state *)
  Theorem model_hist_monitor s0 hw limit evs :
    slog s0 = [] -> Wf [] -> (limit <= 1)%Z -> atomic_failures St do_append slog ->
    let p := reach St do_append do_nlookup idempotencyPayloadHash fp s0 hw limit evs in
    quiescent St p = true -> hist_monitor (hist_of p) = 0.
  Proof.
    intros E W L A p Q.
    pose proof (reach_inv St do_append do_nlookup idempotencyPayloadHash fp slog Wf Happ Hlook s0 hw limit evs E W) as I.
    fold p in I.
    destruct (pipeline_exactly_one St do_append do_nlookup idempotencyPayloadHash fp slog Wf Happ Hlook
                s0 hw limit evs E W) as [_ [_ Hq]].
    fold p in Hq. specialize (Hq Q).
    unfold hist_monitor. cbn [hi_sends hi_calls hi_ordered hist_of].
    assert (C1 : forallb (call_ok (map hsend_of (p_delivered p)))
                         (map (fun it => HCall (ps_tag it) 1 1) (p_submitted p)) = true).
    { apply forallb_forall. intros c Hc. apply in_map_iff in Hc. destruct Hc as [it [Ec Hit]]. subst c.
      apply model_call_ok; assumption. }
    assert (C2 : forallb (send_ok (hist_of p)) (map hsend_of (p_delivered p)) = true).
    { apply forallb_forall. intros s Hs. apply in_map_iff in Hs. destruct Hs as [c [Ec Hc]]. subst s.
      apply model_send_ok; assumption. }
    fold (hist_of p). rewrite C1, C2.
    rewrite all_pairs_zero; [reflexivity|].
    intros a b Ha Hb. apply filter_In in Ha. apply filter_In in Hb.
    destruct Ha as [Ha Fa]. destruct Hb as [Hb Fb].
    apply in_map_iff in Ha. apply in_map_iff in Hb.
    destruct Ha as [c1 [E1 H1]]. destruct Hb as [c2 [E2 H2]]. subst a b.
    assert (Eb : before (hsend_of c1) (hsend_of c2) = (tagof c1 <? tagof c2)).
    { unfold before, hsend_of. cbn [h_end h_start h_call h_pos].
      replace (0 <? 0) with false by reflexivity. rewrite andb_false_r, orb_false_r. reflexivity. }
    unfold pair_code. rewrite Eb. cbn [h_ch h_res hsend_of]. rewrite N.eqb_refl. cbn [andb].
    destruct (tagof c1 <? tagof c2) eqn:T; [|reflexivity]. apply N.ltb_lt in T.
    pose proof (pipeline_seq_increasing St do_append do_nlookup idempotencyPayloadHash fp slog Wf Happ Hlook
                  s0 hw limit evs c1 c2 E W L A H1 H2
                  (fresh_is_fresh p c1 H1 Fa) (fresh_is_fresh p c2 H2 Fb) T) as Hlt.
    apply N.ltb_lt in Hlt. rewrite Hlt. reflexivity.
  Qed.
End Mon.

(* the same statement on the case record the harness prints for histories *)
Theorem model_case_monitor : forall St do_append do_nlookup fp slog Wf,
  append_contract St do_append slog Wf -> lookup_contract St do_nlookup idempotencyPayloadHash slog ->
  forall s0 hw limit evs, slog s0 = [] -> Wf [] -> (limit <= 1)%Z -> atomic_failures St do_append slog ->
  let p := reach St do_append do_nlookup idempotencyPayloadHash fp s0 hw limit evs in
  quiescent St p = true ->
  let h := hist_of St slog p in
  C29_monitor (C29Hist (hi_ordered h) (hi_calls h) (hi_sends h) (hi_logs h)) = 0.
Proof.
  intros St do_append do_nlookup fp slog Wf Happ Hlook s0 hw limit evs E W L A p Q h.
  cbn [C29_monitor]. exact (model_hist_monitor St do_append do_nlookup fp slog Wf Happ Hlook s0 hw limit evs E W L A Q).
Qed.
