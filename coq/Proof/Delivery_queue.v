(* Proof/Delivery_queue.v — the array / free-list orderedPlanQueue refines a
   vector of per-shard FIFO lists. *)
From WK Require Import Base.Base Gen.Consts_C31 Model.Delivery.
From Coq Require Import Permutation.
Open Scope nat_scope.

(* ------------------------------------------------------------ upd / nth ---- *)

Lemma upd_length {A} (i : nat) (x : A) (l : list A) : length (upd i x l) = length l.
Proof.
  revert i. induction l as [|y l IH]; intros i; simpl.
  - reflexivity.
  - destruct i; simpl; [reflexivity| rewrite IH; reflexivity].
Qed.

Lemma nth_upd_eq {A} (i : nat) (x d : A) (l : list A) :
  i < length l -> nth i (upd i x l) d = x.
Proof.
  revert i. induction l as [|y l IH]; intros i H; simpl in *.
  - lia.
  - destruct i; simpl; [reflexivity| apply IH; lia].
Qed.

Lemma nth_upd_neq {A} (i j : nat) (x d : A) (l : list A) :
  i <> j -> nth j (upd i x l) d = nth j l d.
Proof.
  revert i j. induction l as [|y l IH]; intros i j H; simpl.
  - reflexivity.
  - destruct i; destruct j; simpl; try reflexivity; try congruence.
    apply IH. congruence.
Qed.

Lemma upd_out {A} (i : nat) (x : A) (l : list A) : length l <= i -> upd i x l = l.
Proof.
  revert i. induction l as [|y l IH]; intros i H; simpl in *.
  - reflexivity.
  - destruct i; [lia|]. f_equal. apply IH. lia.
Qed.

Lemma map_upd {A B} (g : A -> B) (i : nat) (x : A) (l : list A) :
  map g (upd i x l) = upd i (g x) (map g l).
Proof.
  revert i. induction l as [|y l IH]; intros i; simpl.
  - reflexivity.
  - destruct i; simpl; [reflexivity| rewrite IH; reflexivity].
Qed.

(* ----------------------------------------------------- concat of shards ---- *)

Lemma in_nth_concat {A} (sl : list (list A)) (s : nat) (x : A) :
  In x (nth s sl []) -> In x (concat sl).
Proof.
  revert s. induction sl as [|l sl IH]; intros s H; simpl in *.
  - destruct s; contradiction.
  - apply in_or_app. destruct s; [left; exact H| right; eapply IH; exact H].
Qed.

Lemma nodup_app_inv {A} (a b : list A) :
  NoDup (a ++ b) -> NoDup a /\ NoDup b /\ (forall x, In x a -> In x b -> False).
Proof.
  induction a as [|y a IH]; simpl; intros ND.
  - split; [constructor|]. split; [exact ND| intros x []].
  - inversion ND as [|? ? Hn ND']; subst. destruct (IH ND') as (Na & Nb & D).
    split; [|split].
    + constructor; [|exact Na]. intro Hy. apply Hn. apply in_or_app. left. exact Hy.
    + exact Nb.
    + intros x [->|Hx] Hb.
      * apply Hn. apply in_or_app. right. exact Hb.
      * exact (D x Hx Hb).
Qed.

Lemma concat_disjoint (sl : list (list nat)) :
  NoDup (concat sl) ->
  forall s s' x, s <> s' -> In x (nth s sl []) -> In x (nth s' sl []) -> False.
Proof.
  induction sl as [|l sl IH]; intros ND s s' x Hne H1 H2; simpl in *.
  - destruct s; contradiction.
  - destruct (nodup_app_inv _ _ ND) as (Nl & Nc & D).
    destruct s as [|s]; destruct s' as [|s']; try congruence.
    + apply in_nth_concat in H2. exact (D x H1 H2).
    + apply in_nth_concat in H1. exact (D x H2 H1).
    + apply (IH Nc s s' x); [congruence| assumption| assumption].
Qed.

Lemma concat_upd_snoc (sl : list (list nat)) (s i : nat) :
  s < length sl ->
  Permutation (concat (upd s (nth s sl [] ++ [i]) sl)) (i :: concat sl).
Proof.
  revert s. induction sl as [|l sl IH]; intros s H; simpl in *; [lia|].
  destruct s as [|s]; simpl.
  - rewrite <- app_assoc. simpl. apply Permutation_sym. apply Permutation_middle.
  - eapply Permutation_trans.
    + apply Permutation_app_head. apply IH. lia.
    + apply Permutation_sym. apply Permutation_middle.
Qed.

Lemma concat_upd_tail (sl : list (list nat)) (s i : nat) (r : list nat) :
  nth s sl [] = i :: r ->
  Permutation (concat sl) (i :: concat (upd s r sl)).
Proof.
  revert s. induction sl as [|l sl IH]; intros s H; simpl in *.
  - destruct s; discriminate.
  - destruct s as [|s]; simpl.
    + subst l. reflexivity.
    + eapply Permutation_trans.
      * apply Permutation_app_head. apply IH. exact H.
      * apply Permutation_sym. apply Permutation_middle.
Qed.

Lemma nth_upd {A} (i j : nat) (x d : A) (l : list A) :
  nth j (upd i x l) d = if (i =? j) && (i <? length l) then x else nth j l d.
Proof.
  destruct (Nat.eqb_spec i j) as [->|Hne]; simpl.
  - destruct (Nat.ltb_spec j (length l)).
    + apply nth_upd_eq. assumption.
    + rewrite upd_out by lia. reflexivity.
  - apply nth_upd_neq. assumption.
Qed.

(* ------------------------------------------------------------ the chains ---- *)

(* following the next links from h visits exactly the nodes of l, then ends *)
Fixpoint chain (nxt : list (option nat)) (h : option nat) (l : list nat) : Prop :=
  match l with
  | [] => h = None
  | i :: r => h = Some i /\ chain nxt (nth i nxt None) r
  end.

Definition last_opt (l : list nat) : option nat :=
  match l with [] => None | _ => Some (last l 0) end.

Lemma chain_upd_notin nxt h l j x :
  ~ In j l -> chain nxt h l -> chain (upd j x nxt) h l.
Proof.
  revert h. induction l as [|i r IH]; intros h Hn Hc; simpl in *.
  - exact Hc.
  - destruct Hc as [-> Hc]. split; [reflexivity|].
    rewrite nth_upd_neq by (intro E; apply Hn; left; congruence).
    apply IH; [intro Hj; apply Hn; right; exact Hj| exact Hc].
Qed.

Lemma last_in (l : list nat) d : l <> [] -> In (last l d) l.
Proof.
  induction l as [|a l IH]; intros H; [congruence|].
  destruct l as [|b l]; [left; reflexivity|].
  right. apply IH. congruence.
Qed.

Lemma chain_snoc nxt h l i :
  chain nxt h l -> l <> [] -> NoDup l -> ~ In i l ->
  (forall j, In j l -> j < length nxt) -> i < length nxt ->
  chain (upd (last l 0) (Some i) (upd i None nxt)) h (l ++ [i]).
Proof.
  revert h. induction l as [|a l IH]; intros h Hc Hne ND Hi Hb Hib; [congruence|].
  simpl in Hc. destruct Hc as [-> Hc].
  inversion ND as [|? ? Ha ND']; subst.
  destruct l as [|b l].
  - simpl in *. split; [reflexivity|]. split.
    + rewrite nth_upd_eq; [reflexivity| rewrite upd_length; apply Hb; left; reflexivity].
    + rewrite nth_upd_neq by (intro E; apply Hi; left; exact E).
      rewrite nth_upd_eq by exact Hib. reflexivity.
  - change (last (a :: b :: l) 0) with (last (b :: l) 0).
    change ((a :: b :: l) ++ [i]) with (a :: ((b :: l) ++ [i])).
    split; [reflexivity|].
    assert (Hlast : In (last (b :: l) 0) (b :: l)) by (apply last_in; congruence).
    rewrite nth_upd_neq by (intro E; apply Ha; rewrite <- E; exact Hlast).
    rewrite nth_upd_neq by (intro E; apply Hi; left; congruence).
    apply IH.
    + exact Hc.
    + congruence.
    + exact ND'.
    + intro Hj. apply Hi. right. exact Hj.
    + intros j Hj. apply Hb. right. exact Hj.
    + exact Hib.
Qed.

(* --------------------------------------------------------- the invariant ---- *)

Record QInv (q : pq) (fl : list nat) (sl : list (list nat)) : Prop := {
  qi_len_plans : length (pq_plans q) = pq_cap q;
  qi_len_next : length (pq_next q) = pq_cap q;
  qi_len_heads : length (pq_heads q) = length sl;
  qi_len_tails : length (pq_tails q) = length sl;
  qi_free : chain (pq_next q) (pq_free q) fl;
  qi_shards : forall s, s < length sl ->
      chain (pq_next q) (nth s (pq_heads q) None) (nth s sl [])
      /\ nth s (pq_tails q) None = last_opt (nth s sl []);
  qi_nodup : NoDup (fl ++ concat sl);
  qi_bound : forall i, In i (fl ++ concat sl) -> i < pq_cap q;
  qi_count : length (fl ++ concat sl) = pq_cap q;
  qi_depth : pq_depth q = length (concat sl);
  qi_pos : 0 < length sl }.

(* the abstraction: the plans stored at the nodes of each shard's chain *)
Definition plan_at (plans : list plan) (i : nat) : plan := nth i plans zero_plan.
Definition abs (q : pq) (sl : list (list nat)) : aq := map (map (plan_at (pq_plans q))) sl.

Lemma abs_total q sl : aq_total (abs q sl) = length (concat sl).
Proof.
  unfold aq_total, abs. induction sl as [|l sl IH]; simpl; [reflexivity|].
  rewrite !app_length, map_length. rewrite IH. reflexivity.
Qed.

(* ------------------------------------------------------------- the start ---- *)

Lemma chain_init cap k :
  k <= cap ->
  chain (init_next cap) (if k =? cap then None else Some k) (seq k (cap - k)).
Proof.
  intros Hk. remember (cap - k) as n eqn:En. revert k Hk En.
  induction n as [|n IH]; intros k Hk En; simpl.
  - assert (k = cap) by lia. subst. rewrite Nat.eqb_refl. reflexivity.
  - assert (Hlt : k < cap) by lia.
    destruct (Nat.eqb_spec k cap) as [E|_]; [lia|]. split; [reflexivity|].
    assert (E : nth k (init_next cap) None = (if S k =? cap then None else Some (S k))).
    { unfold init_next.
      set (g := fun i : nat => if S i =? cap then None else Some (S i)).
      rewrite (nth_indep (map g (seq 0 cap)) None (g 0))
        by (rewrite map_length, seq_length; exact Hlt).
      rewrite (map_nth g (seq 0 cap) 0 k). rewrite seq_nth by exact Hlt. reflexivity. }
    rewrite E. apply (IH (S k)); lia.
Qed.

Lemma concat_repeat_nil {A} n : concat (repeat (@nil A) n) = [].
Proof. induction n; simpl; auto. Qed.

Lemma nth_repeat {A} (x d : A) n k : k < n -> nth k (repeat x n) d = x.
Proof.
  revert k. induction n as [|n IH]; intros k H; [lia|].
  destruct k; simpl; [reflexivity| apply IH; lia].
Qed.

Lemma newq_inv cap shards :
  0 < cap -> 0 < shards -> QInv (newq_nat cap shards) (seq 0 cap) (repeat [] shards).
Proof.
  intros Hc Hs0. constructor; simpl.
  - apply repeat_length.
  - unfold init_next. rewrite map_length, seq_length. reflexivity.
  - rewrite !repeat_length. reflexivity.
  - rewrite !repeat_length. reflexivity.
  - pose proof (chain_init cap 0 (Nat.le_0_l cap)) as H.
    destruct (Nat.eqb_spec 0 cap); [lia|]. rewrite Nat.sub_0_r in H. exact H.
  - intros s Hs. rewrite repeat_length in Hs. rewrite !nth_repeat by exact Hs.
    simpl. split; reflexivity.
  - rewrite concat_repeat_nil, app_nil_r. apply seq_NoDup.
  - intros i Hi. rewrite concat_repeat_nil, app_nil_r in Hi. apply in_seq in Hi. lia.
  - rewrite concat_repeat_nil, app_nil_r. apply seq_length.
  - rewrite concat_repeat_nil. reflexivity.
  - rewrite repeat_length. exact Hs0.
Qed.

Lemma newq_abs cap shards : abs (newq_nat cap shards) (repeat [] shards) = repeat [] shards.
Proof. unfold abs. induction shards; simpl; [reflexivity| f_equal; assumption]. Qed.

(* --------------------------------------------------------------- helpers ---- *)

Lemma last_opt_snoc l i : last_opt (l ++ [i]) = Some i.
Proof.
  unfold last_opt. destruct (l ++ [i]) eqn:E.
  - destruct l; discriminate.
  - rewrite <- E. rewrite last_last. reflexivity.
Qed.

Lemma last_opt_none l : last_opt l = None -> l = [].
Proof. destruct l; [reflexivity| discriminate]. Qed.

Lemma last_opt_some l t : last_opt l = Some t -> l <> [] /\ t = last l 0.
Proof. destruct l; [discriminate|]. intros E. inversion E. split; [congruence| reflexivity]. Qed.

Lemma nodup_nth_concat (sl : list (list nat)) (s : nat) :
  NoDup (concat sl) -> NoDup (nth s sl []).
Proof.
  revert s. induction sl as [|l0 sl IH]; intros s ND; simpl in *.
  - destruct s; constructor.
  - destruct (nodup_app_inv _ _ ND) as (N1 & N2 & _).
    destruct s; [exact N1| apply IH; exact N2].
Qed.

Lemma abs_ext plans plans' (sl : list (list nat)) :
  (forall j, In j (concat sl) -> plan_at plans' j = plan_at plans j) ->
  map (map (plan_at plans')) sl = map (map (plan_at plans)) sl.
Proof.
  induction sl as [|l sl IH]; intros H; simpl; [reflexivity|].
  f_equal.
  - apply map_ext_in. intros j Hj. apply H. simpl. apply in_or_app. left. exact Hj.
  - apply IH. intros j Hj. apply H. simpl. apply in_or_app. right. exact Hj.
Qed.

Lemma upd_ext {A} (s : nat) (x : A) (l1 l2 : list A) (d : A) :
  length l1 = length l2 ->
  (forall k, k <> s -> nth k l1 d = nth k l2 d) ->
  upd s x l1 = upd s x l2.
Proof.
  revert s l2. induction l1 as [|a l1 IH]; intros s l2 HL H; destruct l2 as [|b l2]; simpl in *; try lia.
  - reflexivity.
  - destruct s as [|s].
    + f_equal. apply (nth_ext _ _ d d); [lia|]. intros n Hn. apply (H (S n)). lia.
    + f_equal.
      * apply (H 0). lia.
      * apply IH; [lia|]. intros k Hk. apply (H (S k)). lia.
Qed.

Lemma nth_abs plans (sl : list (list nat)) k :
  nth k (map (map (plan_at plans)) sl) [] = map (plan_at plans) (nth k sl []).
Proof. change (@nil plan) with (map (plan_at plans) []). apply map_nth. Qed.

Lemma plan_shard_lt n p : 0 < n -> plan_shard n p < n.
Proof.
  intros H. unfold plan_shard, shardIndex.
  assert (N.of_nat n <> 0%N) by lia.
  pose proof (N.mod_lt (chan_hash (e_chtype (p_event p)) (e_chid (p_event p))) (N.of_nat n) H0). lia.
Qed.

(* ------------------------------------------------------------- enqueue ---- *)

Lemma enqueue_refines q fl sl closed p q' r :
  QInv q fl sl -> pq_enqueue q closed p = (q', r) ->
  exists fl' sl', QInv q' fl' sl'
    /\ aq_enqueue (pq_cap q) (abs q sl) closed p = (abs q' sl', r)
    /\ pq_cap q' = pq_cap q /\ length sl' = length sl.
Proof.
  intros I E. unfold pq_enqueue in E. unfold aq_enqueue.
  destruct closed.
  { inversion E; subst. exists fl, sl. auto. }
  rewrite abs_total. rewrite <- (qi_depth _ _ _ I).
  destruct (pq_cap q <=? pq_depth q) eqn:Hfull.
  { inversion E; subst. exists fl, sl. auto. }
  apply Nat.leb_gt in Hfull.
  pose proof (qi_free _ _ _ I) as Hfree.
  destruct (pq_free q) as [i|] eqn:Hf.
  2:{ destruct fl as [|x fl]; [|simpl in Hfree; destruct Hfree; discriminate].
      pose proof (qi_count _ _ _ I) as Hc. pose proof (qi_depth _ _ _ I) as Hd. simpl in Hc. lia. }
  destruct fl as [|i0 fl']; [simpl in Hfree; discriminate|].
  simpl in Hfree. destruct Hfree as [Ei Hfree]. inversion Ei; subst i0. clear Ei.
  set (s := plan_shard (length (pq_heads q)) p) in *.
  assert (Hs : s < length sl).
  { unfold s. rewrite (qi_len_heads _ _ _ I). apply plan_shard_lt. exact (qi_pos _ _ _ I). }
  assert (Hsabs : plan_shard (length (abs q sl)) p = s).
  { unfold s, abs. rewrite map_length, (qi_len_heads _ _ _ I). reflexivity. }
  rewrite Hsabs.
  pose proof (qi_nodup _ _ _ I) as ND. simpl in ND.
  inversion ND as [|? ? Hi_notin ND']; subst.
  destruct (nodup_app_inv _ _ ND') as (NDf & NDc & Dfc).
  assert (Hi_fl : ~ In i fl') by (intro H; apply Hi_notin; apply in_or_app; left; exact H).
  assert (Hi_c : ~ In i (concat sl)) by (intro H; apply Hi_notin; apply in_or_app; right; exact H).
  assert (Hib : i < pq_cap q) by (apply (qi_bound _ _ _ I); left; reflexivity).
  destruct (qi_shards _ _ _ I s Hs) as [Hch Htail].
  set (l := nth s sl []) in *.
  set (sl' := upd s (l ++ [i]) sl).
  assert (Hperm : Permutation (fl' ++ concat sl') ((i :: fl') ++ concat sl)).
  { simpl. eapply Permutation_trans.
    - apply Permutation_app_head. unfold sl', l. apply concat_upd_snoc. exact Hs.
    - apply Permutation_sym. apply Permutation_middle. }
  assert (Hlen_c : length (concat sl') = S (length (concat sl))).
  { unfold sl', l. rewrite (Permutation_length (concat_upd_snoc sl s i Hs)). reflexivity. }
  assert (Habs : forall nxt heads tails fr d,
             abs (PQ (pq_cap q) (upd i p (pq_plans q)) nxt heads tails fr d) sl'
             = upd s (nth s (abs q sl) [] ++ [p]) (abs q sl)).
  { intros. unfold abs. cbn [pq_plans]. unfold sl'. rewrite map_upd.
    rewrite nth_abs. fold l. rewrite map_app. simpl.
    assert (Hpi : plan_at (upd i p (pq_plans q)) i = p).
    { unfold plan_at. apply nth_upd_eq. rewrite (qi_len_plans _ _ _ I). exact Hib. }
    rewrite Hpi.
    assert (Hl : map (plan_at (upd i p (pq_plans q))) l = map (plan_at (pq_plans q)) l).
    { apply map_ext_in. intros j Hj. unfold plan_at. apply nth_upd_neq.
      intro Eij. subst j. apply Hi_c. apply (in_nth_concat sl s). exact Hj. }
    rewrite Hl. f_equal. apply abs_ext. intros j Hj. unfold plan_at. apply nth_upd_neq.
    intro Eij. subst j. exact (Hi_c Hj). }
  assert (Hlenl' : length sl' = length sl) by (unfold sl'; apply upd_length).
  assert (Hnth_s : nth s sl' [] = l ++ [i]) by (unfold sl'; apply nth_upd_eq; exact Hs).
  assert (Hnth_o : forall s', s' <> s -> nth s' sl' [] = nth s' sl []).
  { intros s' Hne. unfold sl'. apply nth_upd_neq. congruence. }
  destruct (nth s (pq_tails q) None) as [t|] eqn:Ht.
  - (* non-empty shard: link behind the tail *)
    inversion E; subst q' r. clear E.
    symmetry in Htail. apply last_opt_some in Htail. destruct Htail as [Hlne Htl].
    assert (Ht_in : In t l) by (rewrite Htl; apply last_in; exact Hlne).
    assert (Ht_c : In t (concat sl)) by (apply (in_nth_concat sl s); exact Ht_in).
    exists fl', sl'. split; [|split; [rewrite Habs; reflexivity| split; [reflexivity| exact Hlenl']]].
    constructor; cbn [pq_cap pq_plans pq_next pq_heads pq_tails pq_free pq_depth].
    + rewrite upd_length. exact (qi_len_plans _ _ _ I).
    + rewrite !upd_length. exact (qi_len_next _ _ _ I).
    + rewrite Hlenl'. exact (qi_len_heads _ _ _ I).
    + rewrite upd_length, Hlenl'. exact (qi_len_tails _ _ _ I).
    + apply chain_upd_notin; [intro H; exact (Dfc t H Ht_c)|].
      apply chain_upd_notin; [exact Hi_fl| exact Hfree].
    + intros s' Hs'. rewrite Hlenl' in Hs'.
      destruct (Nat.eq_dec s' s) as [->|Hne].
      * rewrite Hnth_s. split.
        -- rewrite Htl. apply chain_snoc.
           ++ exact Hch.
           ++ exact Hlne.
           ++ apply nodup_nth_concat. exact NDc.
           ++ intro H. apply Hi_c. apply (in_nth_concat sl s). exact H.
           ++ intros j Hj. rewrite (qi_len_next _ _ _ I). apply (qi_bound _ _ _ I).
              right. apply in_or_app. right. apply (in_nth_concat sl s). exact Hj.
           ++ rewrite (qi_len_next _ _ _ I). exact Hib.
        -- rewrite nth_upd_eq by (rewrite (qi_len_tails _ _ _ I); exact Hs).
           symmetry. apply last_opt_snoc.
      * rewrite (Hnth_o s' Hne). destruct (qi_shards _ _ _ I s' Hs') as [Hc' Ht'].
        split.
        -- apply chain_upd_notin.
           ++ intro H. exact (concat_disjoint sl NDc s s' t (fun e => Hne (eq_sym e)) Ht_in H).
           ++ apply chain_upd_notin; [|exact Hc'].
              intro H. apply Hi_c. apply (in_nth_concat sl s'). exact H.
        -- rewrite nth_upd_neq by congruence. exact Ht'.
    + exact (Permutation_NoDup (Permutation_sym Hperm) ND).
    + intros j Hj. apply (qi_bound _ _ _ I). exact (Permutation_in j Hperm Hj).
    + rewrite (Permutation_length Hperm). exact (qi_count _ _ _ I).
    + rewrite Hlen_c, (qi_depth _ _ _ I). reflexivity.
    + rewrite Hlenl'. exact (qi_pos _ _ _ I).
  - (* empty shard *)
    inversion E; subst q' r. clear E.
    symmetry in Htail. apply last_opt_none in Htail.
    exists fl', sl'. split; [|split; [rewrite Habs; reflexivity| split; [reflexivity| exact Hlenl']]].
    constructor; cbn [pq_cap pq_plans pq_next pq_heads pq_tails pq_free pq_depth].
    + rewrite upd_length. exact (qi_len_plans _ _ _ I).
    + rewrite !upd_length. exact (qi_len_next _ _ _ I).
    + rewrite upd_length, Hlenl'. exact (qi_len_heads _ _ _ I).
    + rewrite upd_length, Hlenl'. exact (qi_len_tails _ _ _ I).
    + apply chain_upd_notin; [exact Hi_fl| exact Hfree].
    + intros s' Hs'. rewrite Hlenl' in Hs'.
      destruct (Nat.eq_dec s' s) as [->|Hne].
      * rewrite Hnth_s, Htail. simpl. split.
        -- split.
           ++ apply nth_upd_eq. rewrite (qi_len_heads _ _ _ I). exact Hs.
           ++ apply nth_upd_eq. rewrite (qi_len_next _ _ _ I). exact Hib.
        -- apply nth_upd_eq. rewrite (qi_len_tails _ _ _ I). exact Hs.
      * rewrite (Hnth_o s' Hne). destruct (qi_shards _ _ _ I s' Hs') as [Hc' Ht'].
        rewrite !nth_upd_neq by congruence. split; [|exact Ht'].
        apply chain_upd_notin; [|exact Hc'].
        intro H. apply Hi_c. apply (in_nth_concat sl s'). exact H.
    + exact (Permutation_NoDup (Permutation_sym Hperm) ND).
    + intros j Hj. apply (qi_bound _ _ _ I). exact (Permutation_in j Hperm Hj).
    + rewrite (Permutation_length Hperm). exact (qi_count _ _ _ I).
    + rewrite Hlen_c, (qi_depth _ _ _ I). reflexivity.
    + rewrite Hlenl'. exact (qi_pos _ _ _ I).
Qed.
