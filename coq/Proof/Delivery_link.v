(* Proof/Delivery_link.v — the ordering clause of the rt monitor holds on every
   run of the runtime transition system; the queue monitor holds on every
   history answered by the queue model. *)
From WK Require Import Base.Base Gen.Consts_C31 Model.Delivery Model.Delivery_C31 Model.Delivery_sys
     Proof.Delivery_queue Proof.Delivery_queue_pop Proof.Delivery_sys.
Open Scope N_scope.

(* ------------------------------------------------------------ min / max ---- *)

Lemma fold_max_lt (l : list N) : forall a u, a < u -> (forall t, In t l -> t < u) -> fold_left N.max l a < u.
Proof.
  induction l as [|x l IH]; intros a u Ha H; simpl; [exact Ha|].
  apply IH; [|intros t Ht; apply H; right; exact Ht].
  pose proof (H x (or_introl eq_refl)). lia.
Qed.

Lemma fold_min_gt (l : list N) : forall a m, m < a -> (forall t, In t l -> m < t) -> m < fold_left N.min l a.
Proof.
  induction l as [|x l IH]; intros a m Ha H; simpl; [exact Ha|].
  apply IH; [|intros t Ht; apply H; right; exact Ht].
  pose proof (H x (or_introl eq_refl)). lia.
Qed.

Lemma all_pairs_intro {A} (f : A -> A -> bool) (l : list A) :
  (forall a b, In a l -> In b l -> f a b = true) -> all_pairs f l = true.
Proof.
  induction l as [|x l IH]; intros H; simpl; [reflexivity|].
  apply andb_true_iff. split.
  - apply forallb_forall. intros b Hb. apply andb_true_iff. split; apply H; simpl; auto.
  - apply IH. intros a b Ha Hb. apply H; right; assumption.
Qed.

Section Link.
Variable X : Type.
Variables cap shards : nat.
Hypothesis Hcap : (0 < cap)%nat.
Hypothesis Hsh : (0 < shards)%nat.

Lemma times_of_in a (log : list (N * nat * plan * X * N)) t :
  In t (times_of X a log) <-> exists e, In e log /\ le_stamp X e = a /\ le_time X e = t.
Proof.
  unfold times_of. rewrite in_map_iff. split.
  - intros (e & Et & He). apply filter_In in He. destruct He as [He Hs]. apply N.eqb_eq in Hs. eauto.
  - intros (e & He & Hs & Et). exists e. split; [exact Et|]. apply filter_In. split; [exact He|].
    apply N.eqb_eq. exact Hs.
Qed.

(* the ordering clause of the monitor, on every run of the system *)
Theorem sys_times_ok evs :
  all_pairs times_pair_ok (sys_times X (sys_run X cap shards evs)) = true.
Proof.
  set (st := sys_run X cap shards evs).
  pose proof (run_inv X cap shards Hcap Hsh evs) as I. fold st in I.
  apply all_pairs_intro. intros ta tb Ha Hb.
  unfold sys_times in Ha, Hb. apply in_map_iff in Ha, Hb.
  destruct Ha as ([[a sa] pa] & <- & Ha). destruct Hb as ([[b sb] pb] & <- & Hb).
  unfold times_pair_ok. cbn [pt_acc pt_has pt_ct pt_ch pt_es pt_ee pt_first pt_last fst snd andb].
  destruct (negb (is_nil (times_of X a (s_log X st)))) eqn:Hna; [|reflexivity].
  destruct (negb (is_nil (times_of X b (s_log X st)))) eqn:Hnb; [|reflexivity]. cbn [andb].
  destruct (e_chtype (p_event pa) =? e_chtype (p_event pb)) eqn:Ect; [|reflexivity].
  destruct (bytes_eqb (e_chid (p_event pa)) (e_chid (p_event pb))) eqn:Ech; [|reflexivity].
  destruct (a <? b) eqn:Hab; [|reflexivity]. cbn [andb].
  apply N.eqb_eq in Ect. apply bytes_eqb_eq in Ech. apply N.ltb_lt in Hab. apply N.ltb_lt.
  (* both plans hash to the same shard *)
  destruct (si_acc X shards st I _ _ _ Ha) as (Sa & _ & _).
  destruct (si_acc X shards st I _ _ _ Hb) as (Sb & _ & _).
  assert (Hshard : sa = sb).
  { rewrite Sa, Sb. unfold plan_shard. rewrite Ect, Ech. reflexivity. }
  (* a stamp identifies its accepted plan *)
  assert (Huniq : forall e s p, In e (s_log X st) -> In (le_stamp X e, s, p) (s_acc X st) -> le_shard X e = s).
  { intros e s p He Hacc.
    destruct (si_log_t X shards st I e He) as (_ & _ & T3).
    pose proof (si_acc_nodup X shards st I) as ND.
    revert ND T3 Hacc. generalize (s_acc X st). intros acc ND.
    induction acc as [|[[a0 s0] p0] acc IHacc]; intros T3 Hacc; [destruct T3|].
    cbn [map fst] in ND. inversion ND as [|? ? Hn ND']; subst.
    destruct T3 as [T3|T3]; destruct Hacc as [Hacc|Hacc].
    - inversion T3; inversion Hacc; subst. congruence.
    - exfalso. apply Hn. inversion T3; subst. apply in_map_iff.
      exists (le_stamp X e, s, p). split; [reflexivity| exact Hacc].
    - exfalso. apply Hn. inversion Hacc; subst. apply in_map_iff.
      exists (le_stamp X e, le_shard X e, le_plan X e). split; [reflexivity| exact T3].
    - exact (IHacc ND' T3 Hacc). }
  assert (Hcross : forall t u, In t (times_of X a (s_log X st)) -> In u (times_of X b (s_log X st)) -> t < u).
  { intros t u Ht Hu. apply times_of_in in Ht, Hu.
    destruct Ht as (e1 & He1 & S1 & <-). destruct Hu as (e2 & He2 & S2 & <-).
    apply (logok_order X cap shards Hcap Hsh _ (si_log X shards st I) e1 e2 He1 He2).
    - rewrite <- S1 in Ha. rewrite <- S2 in Hb.
      rewrite (Huniq e1 sa pa He1 Ha), (Huniq e2 sb pb He2 Hb). exact Hshard.
    - rewrite S1, S2. exact Hab. }
  destruct (times_of X b (s_log X st)) as [|u0 ub] eqn:Eb; [discriminate|].
  unfold minN, maxN.
  apply fold_min_gt.
  - apply fold_max_lt.
    + assert (Hu0 : In u0 (times_of X b (s_log X st))) by (rewrite Eb; left; reflexivity).
      apply times_of_in in Hu0. destruct Hu0 as (e2 & He2 & _ & <-).
      destruct (si_log_t X shards st I e2 He2) as (_ & T2 & _). lia.
    + intros t Ht. apply Hcross; [exact Ht| left; reflexivity].
  - intros u Hu. apply fold_max_lt.
    + assert (Hu' : In u (times_of X b (s_log X st))) by (rewrite Eb; right; exact Hu).
      apply times_of_in in Hu'. destruct Hu' as (e2 & He2 & _ & <-).
      destruct (si_log_t X shards st I e2 He2) as (_ & T2 & _). lia.
    + intros t Ht. apply Hcross; [exact Ht| right; exact Hu].
Qed.

End Link.

(* ============================================================ queue monitor *)

Definition msgid_of (p : plan) : N := e_msgid (p_event p).

Lemma concat_map_map_length {A B} (g : A -> B) (l : list (list A)) :
  length (concat (map (map g) l)) = length (concat l).
Proof.
  induction l as [|x l IH]; simpl; [reflexivity|]. rewrite !app_length, map_length, IH. reflexivity.
Qed.

Lemma nth_map_nil {A B} (g : A -> B) (l : list (list A)) (k : nat) :
  nth k (map (map g) l) [] = map g (nth k l []).
Proof. change (@nil B) with (map g []). apply map_nth. Qed.

Lemma q_monitor_some : forall ops q fl sl,
  QInv q fl sl ->
  q_monitor false (pq_cap q) (map (map msgid_of) (abs q sl)) (q_model_steps (Some q) ops) = true.
Proof.
  induction ops as [|o ops IH]; intros q fl sl I; [reflexivity|].
  cbn [q_model_steps q_model_step].
  assert (Hla : length (map (map msgid_of) (abs q sl)) = length (pq_heads q)).
  { unfold abs. rewrite !map_length. symmetry. exact (qi_len_heads _ _ _ I). }
  destruct o as [closed p|s].
  - destruct (pq_enqueue q closed p) as [q' r] eqn:E.
    destruct (enqueue_refines _ _ _ _ _ _ _ I E) as (fl' & sl' & I' & A' & C' & L').
    cbn [q_monitor q_op q_obs].
    unfold aq_enqueue in A'.
    destruct r; cbn [enq_code].
    + (* accepted *)
      destruct closed; [discriminate|].
      destruct (pq_cap q <=? aq_total (abs q sl))%nat eqn:Hfull; [discriminate|].
      inversion A' as [Habs]. clear A'.
      cbn [N.eqb negb andb]. rewrite Nat2N.id.
      assert (Hlh : length (abs q sl) = length (pq_heads q)).
      { unfold abs. rewrite map_length. symmetry. exact (qi_len_heads _ _ _ I). }
      rewrite Hlh in Habs.
      set (s := plan_shard (length (pq_heads q)) p) in *.
      assert (Hs : (s < length (pq_heads q))%nat).
      { apply plan_shard_lt. rewrite (qi_len_heads _ _ _ I). exact (qi_pos _ _ _ I). }
      rewrite Hla. apply Nat.ltb_lt in Hs. rewrite Hs. cbn [andb].
      unfold ql_total. rewrite concat_map_map_length. fold (aq_total (abs q sl)).
      apply Nat.leb_gt in Hfull. apply Nat.ltb_lt in Hfull. rewrite Hfull. cbn [andb].
      rewrite nth_map_nil.
      replace (upd s (map msgid_of (nth s (abs q sl) []) ++ [e_msgid (p_event p)]) (map (map msgid_of) (abs q sl)))
        with (map (map msgid_of) (abs q' sl')).
      * rewrite <- C'. apply (IH q' fl' sl' I').
      * rewrite <- Habs. rewrite map_upd, map_app. reflexivity.
    + (* refused *)
      destruct closed.
      2:{ destruct (pq_cap q <=? aq_total (abs q sl))%nat; discriminate. }
      inversion A' as [Habs]. cbn [N.eqb orb andb]. rewrite Habs, <- C'. apply (IH q' fl' sl' I').
    + (* parked *)
      destruct closed; [discriminate|].
      destruct (pq_cap q <=? aq_total (abs q sl))%nat eqn:Hfull; [|discriminate].
      inversion A' as [Habs]. cbn [N.eqb negb andb].
      unfold ql_total. rewrite concat_map_map_length. fold (aq_total (abs q sl)). rewrite Hfull. cbn [andb].
      rewrite Habs, <- C'. apply (IH q' fl' sl' I').
  - unfold pq_dequeue.
    destruct ((s <? 0)%Z || (Z.of_nat (length (pq_heads q)) <=? s)%Z) eqn:Hr.
    { cbn [q_monitor q_op q_obs option_map]. rewrite Hla, Hr. cbn [is_none andb]. apply (IH q fl sl I). }
    destruct (pq_pop q (Z.to_nat s)) as [q' g] eqn:E.
    cbn [q_monitor q_op q_obs]. rewrite Hla, Hr.
    destruct (pop_refines _ _ _ _ _ _ I E) as (fl' & sl' & I' & A' & C' & L').
    unfold aq_pop in A'. rewrite nth_map_nil.
    destruct (nth (Z.to_nat s) (abs q sl) []) as [|p r] eqn:En.
    + inversion A' as [[Habs Hg]]. cbn [map option_map is_none andb].
      rewrite Habs, <- C'. apply (IH q' fl' sl' I').
    + inversion A' as [[Habs Hg]]. cbn [map option_map option_eqb]. unfold msgid_of at 1.
      rewrite N.eqb_refl. cbn [andb].
      replace (upd (Z.to_nat s) (map msgid_of r) (map (map msgid_of) (abs q sl)))
        with (map (map msgid_of) (abs q' sl')).
      * rewrite <- C'. apply (IH q' fl' sl' I').
      * rewrite <- Habs. rewrite map_upd. reflexivity.
Qed.

Lemma nth_repeat_nil {A} n k : nth k (repeat (@nil A) n) [] = [].
Proof.
  destruct (Nat.lt_ge_cases k n) as [H|H].
  - apply nth_repeat. exact H.
  - apply nth_overflow. rewrite repeat_length. exact H.
Qed.

Lemma q_monitor_none : forall ops cap n,
  q_monitor true cap (repeat [] n) (q_model_steps None ops) = true.
Proof.
  induction ops as [|o ops IH]; intros cap n; [reflexivity|].
  cbn [q_model_steps q_model_step]. destruct o as [closed p|s]; cbn [q_monitor q_op q_obs].
  - cbn [N.eqb]. rewrite orb_true_r. apply IH.
  - destruct ((s <? 0)%Z || (Z.of_nat (length (repeat (@nil N) n)) <=? s)%Z); [apply IH|].
    rewrite nth_repeat_nil. apply IH.
Qed.

(* the queue monitor holds on every history answered by the queue model *)
Theorem queue_model_accepted cap shards ops :
  queue_monitor cap shards (q_model_steps (newOrderedPlanQueue cap shards) ops) = true.
Proof.
  unfold queue_monitor, newOrderedPlanQueue.
  destruct ((cap <=? 0)%Z || (shards <=? 0)%Z) eqn:Hnil.
  - apply q_monitor_none.
  - apply orb_false_iff in Hnil. destruct Hnil as [Hc Hs].
    apply Z.leb_gt in Hc. apply Z.leb_gt in Hs.
    assert (I : QInv (newq_nat (Z.to_nat cap) (Z.to_nat shards)) (seq 0 (Z.to_nat cap)) (repeat [] (Z.to_nat shards))).
    { apply newq_inv; lia. }
    pose proof (q_monitor_some ops _ _ _ I) as H.
    rewrite newq_abs in H. cbn [newq_nat pq_cap] in H.
    assert (Hrep : forall n, map (map msgid_of) (repeat [] n) = repeat (@nil N) n).
    { induction n as [|n IHn]; simpl; [reflexivity| f_equal; exact IHn]. }
    rewrite Hrep in H. exact H.
Qed.
