(* Proof/ChanMigration_monitor.v — the per-command and frame clauses of the C17 monitor hold on
   every step of the model's trace of one-command batches. *)
From WK Require Import Base.Base.
From WK Require Import Gen.Consts_C15 Gen.Consts_C17 Model.RuntimeMeta Model.ChanMigration Model.ChanMigration_C17.
From WK Require Import Proof.RuntimeMeta Proof.ChanMigration Proof.ChanMigration_cmds Proof.ChanMigration_inv
                       Proof.ChanMigration_step Proof.ChanMigration_meta Proof.ChanMigration_trace.
Open Scope N_scope.

(* the channel alphabet of the observations names the meta row a command reads *)
Definition covers (chs : list chan_key) (c : cmd) : Prop :=
  match cmd_meta_chan c with Some ch => In ch chs | None => True end.

Lemma trans_key c h : cmd_trans c = Some h -> cmd_key c = Some (tguard_key (tr_guard h)).
Proof. destruct c; cbn [cmd_trans cmd_key cmd_tguard]; try discriminate; intro H; inversion H; reflexivity. Qed.

Lemma trans_tguard c h : cmd_trans c = Some h -> cmd_tguard c = Some (tr_guard h).
Proof. destruct c; cbn [cmd_trans cmd_tguard]; try discriminate; intro H; inversion H; reflexivity. Qed.

Lemma trans_meta_chan c h : cmd_trans c = Some h -> cmd_meta_chan c = Some (rguard_chan (tr_rguard h)).
Proof. destruct c; cbn [cmd_trans cmd_meta_chan]; try discriminate; intro H; inversion H; reflexivity. Qed.

Lemma trans_not_claim c h : cmd_trans c = Some h -> is_claim_advance c = false.
Proof. destruct c; cbn [cmd_trans is_claim_advance]; try discriminate; reflexivity. Qed.

Lemma trans_not_upsert c h : cmd_trans c = Some h -> is_upsert c = false.
Proof. destruct c; cbn [cmd_trans is_upsert]; try discriminate; reflexivity. Qed.

Lemma claim_key c g : is_claim_advance c = true -> cmd_tguard c = Some g -> cmd_key c = Some (tguard_key g).
Proof. destruct c; cbn [is_claim_advance cmd_tguard cmd_key]; try discriminate; intros _ H; inversion H; reflexivity. Qed.

Lemma create_key c t : (c = CCreate t \/ exists g, c = CCreateGuarded t g) -> cmd_key c = Some (task_key t).
Proof. intros [H|[g H]]; subst; reflexivity. Qed.

Lemma load_task_empty d k : loadChannelMigrationTask d (CState d [] []) k = task_get (db_tasks d) k.
Proof. reflexivity. Qed.
Lemma load_meta_empty d c : loadRuntimeMeta d (CState d [] []) c = meta_get d c.
Proof. reflexivity. Qed.

Section OneStep.
  Variable chs : list chan_key.
  Variable p : snap.
  Variable d : db.
  Variable c : cmd.
  Hypothesis Sh : shows chs p d.
  Hypothesis I : db_inv d.
  Hypothesis Nm : metas_normalized d.
  Hypothesis Cov : covers chs c.

  Let d' := fst (apply_one d c).
  Let x := snd (apply_one d c).
  Let okc := if accepted x then [c] else [].
  Let cur := snap_of (obs_of chs d' (bres_of x)).

  Lemma snap_task_p k : snap_task p k = task_get (db_tasks d) k.
  Proof. unfold snap_task. rewrite (proj1 Sh). reflexivity. Qed.

  Lemma snap_meta_p ch : In ch chs -> snap_meta p ch = meta_get d ch.
  Proof. intro H. apply (proj2 Sh ch H). Qed.

  Lemma I' : db_inv d'.
  Proof. unfold d'. destruct (apply_one d c) as [d1 x1] eqn:E. eapply apply_one_inv; eauto. Qed.

  (* ---- commit / promote clause ---- *)
  Lemma commit_clause_holds : accepted x = true -> commit_clause p c = true.
  Proof.
    intro A. pose proof (accepted_eq d c A) as E. fold d' in E.
    destruct (accepted_run _ _ _ E) as (_ & cs & R & _).
    destruct c; try reflexivity; cbn [ops_of run_ops run_op] in R.
    - match type of R with match ?y with _ => _ end = _ => destruct y as [cs1|e] eqn:S; [|discriminate] end.
      match type of S with stageChannelMigrationTaskAndMeta _ _ ?cc = _ =>
        destruct (stage_cutover_needs_proof d _ cc h cs1 eq_refl eq_refl S) as (t & m & Lt & Lm & M) end.
      rewrite load_task_empty in Lt. rewrite load_meta_empty in Lm.
      cbn [commit_clause]. rewrite snap_task_p, Lt, snap_meta_p, Lm; [exact M|]. exact Cov.
    - match type of R with match ?y with _ => _ end = _ => destruct y as [cs1|e] eqn:S; [|discriminate] end.
      match type of S with stageChannelMigrationTaskAndMeta _ _ ?cc = _ =>
        destruct (stage_cutover_needs_proof d _ cc h cs1 eq_refl eq_refl S) as (t & m & Lt & Lm & M) end.
      rewrite load_task_empty in Lt. rewrite load_meta_empty in Lm.
      cbn [commit_clause]. rewrite snap_task_p, Lt, snap_meta_p, Lm; [exact M|]. exact Cov.
  Qed.

  (* ---- abort clause (per command) ---- *)
  Lemma abort_clause_holds : accepted x = true -> abort_clause p c = true.
  Proof.
    intro A. pose proof (accepted_eq d c A) as E. fold d' in E.
    destruct (accepted_run _ _ _ E) as (_ & cs & R & _).
    destruct c; try reflexivity; cbn [ops_of run_ops run_op] in R.
    match type of R with match ?y with _ => _ end = _ => destruct y as [cs1|e] eqn:S; [|discriminate] end.
    destruct (taskmeta_accepted _ _ h _ S eq_refl) as (t & m & nt & nm & G & Gm & Mu & _).
    cbn [mutate_task_meta] in Mu. apply mutAbort_ok in Mu. destruct Mu as [T P].
    cbn [abort_clause]. rewrite snap_task_p, G, T, P. reflexivity.
  Qed.

  (* ---- frame: task rows ---- *)
  Lemma tasks_frame_holds : tasks_frame okc p cur = true.
  Proof.
    unfold tasks_frame. apply andb_true_iff.
    destruct (accepted x) eqn:A.
    - pose proof (accepted_eq d c A) as E. fold d' in E.
      assert (OK : okc = [c]) by (unfold okc; try rewrite A; reflexivity). rewrite OK.
      split; apply forallb_forall.
      + intros t Ht. cbn [cur snap_of obs_of s_tasks o_tasks] in Ht.
        pose proof (tasks_wf_get _ _ (proj1 I') Ht) as Gt.
        rewrite snap_task_p.
        destruct (step_row_change d c d' (task_key t) I E)
          as [S|t0 Hc Hk Hn Hg|g t0 next Hg Hca Hk Hp Hm Hu Hn|h t0 m nt nm Hh Hk Hp Hm Hg Hr Hu Ht0 Hn|b l t0 Hc Hp Ht0 Hn].
        * rewrite <- S, Gt, task_eqb_refl. reflexivity.
        * rewrite Hn. cbn [existsb]. unfold cmd_targets. rewrite (create_key _ _ Hc), Hk, tkey_eqb_refl. reflexivity.
        * rewrite Hp. cbn [existsb]. unfold cmd_targets. rewrite (claim_key _ _ Hca Hg), Hk, tkey_eqb_refl.
          rewrite orb_true_r. reflexivity.
        * rewrite Hp. cbn [existsb]. unfold cmd_targets. rewrite (trans_key _ _ Hh), Hk, tkey_eqb_refl.
          rewrite orb_true_r. reflexivity.
        * rewrite Gt in Hn. discriminate.
      + intros t0 Ht0. rewrite (proj1 Sh) in Ht0.
        pose proof (tasks_wf_get _ _ (proj1 I) Ht0) as G0.
        unfold snap_task. cbn [cur snap_of obs_of s_tasks o_tasks].
        destruct (step_row_change d c d' (task_key t0) I E)
          as [S|t1 Hc Hk Hn Hg|g t1 next Hg Hca Hk Hp Hm Hu Hn|h t1 m nt nm Hh Hk Hp Hm Hg Hr Hu Ht1 Hn|b l t1 Hc Hp Ht1 Hn].
        * rewrite S, G0. reflexivity.
        * rewrite G0 in Hn. discriminate.
        * rewrite Hn. reflexivity.
        * rewrite Hn. reflexivity.
        * rewrite Hn. subst c. cbn [existsb is_gc]. rewrite G0 in Hp. inversion Hp; subst t1.
          rewrite Ht1. reflexivity.
    - assert (OK : okc = []) by (unfold okc; try rewrite A; reflexivity). rewrite OK.
      assert (D : d' = d) by (apply not_accepted_same; exact A).
      split; apply forallb_forall.
      + intros t Ht. cbn [cur snap_of obs_of s_tasks o_tasks] in Ht. rewrite D in Ht.
        rewrite snap_task_p, (tasks_wf_get _ _ (proj1 I) Ht), task_eqb_refl. reflexivity.
      + intros t0 Ht0. rewrite (proj1 Sh) in Ht0.
        unfold snap_task. cbn [cur snap_of obs_of s_tasks o_tasks]. rewrite D.
        rewrite (tasks_wf_get _ _ (proj1 I) Ht0). reflexivity.
  Qed.

  (* ---- frame: meta rows and fence ownership ---- *)
  Lemma token_owned_free_or h t m :
    cmd_trans c = Some h -> tguard_matches (tr_guard h) t = true ->
    fence_free_or m (t_task_id t) -> token_owned [c] (rm_write_fence_token m) = true.
  Proof.
    intros Hh Mg [F|F]; unfold token_owned; rewrite F.
    - reflexivity.
    - cbn [existsb]. rewrite (trans_tguard _ _ Hh), (trans_not_claim _ _ Hh).
      unfold tguard_matches in Mg. b2p.
      match goal with Hb : bytes_eqb (t_task_id t) _ = true |- _ => apply bytes_eqb_eq in Hb; rewrite Hb end.
      rewrite bytes_eqb_refl. destruct (is_empty (tg_task_id (tr_guard h))); reflexivity.
  Qed.

  Lemma metas_frame_holds : metas_frame okc p cur = true.
  Proof.
    unfold metas_frame. apply forallb_forall. intros [ch v] Hin.
    cbn [cur snap_of obs_of s_metas o_metas] in Hin. apply in_map_iff in Hin. destruct Hin as [ch0 [Ev Hch]].
    inversion Ev; subst ch0 v. clear Ev. cbn [fst snd]. rewrite (snap_meta_p _ Hch).
    destruct (accepted x) eqn:A.
    - pose proof (accepted_eq d c A) as E. fold d' in E.
      assert (OK : okc = [c]) by (unfold okc; try rewrite A; reflexivity). rewrite OK. cbn [existsb].
      destruct (step_meta_change d c d' ch I Nm E) as [S|m0 next Hc Hk Gn Nn|h t m nt nm Hh Hk Gt Gm Mg Mu V Gn].
      + rewrite S. destruct (meta_get d ch); [rewrite runtime_meta_eqb_refl|]; reflexivity.
      + rewrite Gn. subst c. cbn [cmd_meta_chan is_upsert]. rewrite <- Hk, chan_key_eqb_refl. cbn [orb andb].
        destruct (meta_get d ch); [rewrite orb_true_r|]; reflexivity.
      + rewrite Gn, Gm. rewrite (trans_meta_chan _ _ Hh), <- Hk, chan_key_eqb_refl. cbn [orb andb].
        apply orb_true_iff. right.
        destruct (mutate_fence_ownership _ _ _ _ _ Mu) as [F|[F1 F2]].
        * rewrite (fence_eqb_trans _ _ _ F (fence_stored m nm)). rewrite orb_true_r. reflexivity.
        * rewrite (token_owned_free_or h t m Hh Mg F1).
          assert (F3 : fence_free_or (bumpRuntimeRoute m (normalizeChannelRuntimeMeta nm) true) (t_task_id t)).
          { destruct (fence_eqb_eq _ _ (fence_stored m nm)) as (Tk & _). unfold fence_free_or. rewrite <- Tk. exact F2. }
          rewrite (token_owned_free_or h t _ Hh Mg F3). rewrite !orb_true_r. reflexivity.
    - assert (D : d' = d) by (apply not_accepted_same; exact A). rewrite D.
      destruct (meta_get d ch); [rewrite runtime_meta_eqb_refl|]; reflexivity.
  Qed.

  (* ---- meta rows changed by migration commands are valid, keep MinISR, never shrink the ISR ---- *)
  Lemma metas_valid_holds : metas_valid okc p cur = true.
  Proof.
    unfold metas_valid. apply forallb_forall. intros [ch v] Hin.
    cbn [cur snap_of obs_of s_metas o_metas] in Hin. apply in_map_iff in Hin. destruct Hin as [ch0 [Ev Hch]].
    inversion Ev; subst ch0 v. clear Ev. cbn [fst snd]. rewrite (snap_meta_p _ Hch).
    destruct (accepted x) eqn:A.
    - pose proof (accepted_eq d c A) as E. fold d' in E.
      assert (OK : okc = [c]) by (unfold okc; try rewrite A; reflexivity). rewrite OK. cbn [existsb].
      destruct (step_meta_change d c d' ch I Nm E) as [S|m0 next Hc Hk Gn Nn|h t m nt nm Hh Hk Gt Gm Mg Mu V Gn].
      + rewrite S. destruct (meta_get d ch); [rewrite runtime_meta_eqb_refl|]; reflexivity.
      + rewrite Gn. subst c. cbn [is_upsert]. destruct (meta_get d ch); [rewrite orb_true_r|]; reflexivity.
      + rewrite Gn, Gm. apply orb_true_iff. right.
        destruct (Nm _ _ Gm) as (_ & Si & _).
        destruct (mutate_isr _ _ _ _ _ Si Mu) as [Mi Li].
        destruct (stored_isr m nm) as [Es Em].
        rewrite V, Em, Mi, Z.eqb_refl, Es. cbn [andb]. apply Nat.leb_le. exact Li.
    - assert (D : d' = d) by (apply not_accepted_same; exact A). rewrite D.
      destruct (meta_get d ch); [rewrite runtime_meta_eqb_refl|]; reflexivity.
  Qed.

  (* ---- a rejected batch changes nothing ---- *)
  Lemma rejected_holds :
    let r := bres_of x in
    negb (all_stale r || match r with BErr _ => true | _ => false end) || snap_unchanged p cur = true.
  Proof.
    cbn zeta. destruct (accepted x) eqn:A.
    - destruct x as [n|e]; [|discriminate]. destruct n; [|discriminate]. reflexivity.
    - assert (D : d' = d) by (apply not_accepted_same; exact A).
      unfold cur. rewrite D, (snap_unchanged_shows chs p d _ Sh). apply orb_true_r.
  Qed.
End OneStep.
