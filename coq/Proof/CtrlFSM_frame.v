(* Proof/CtrlFSM_frame.v — the ApplyBatch frame theorems of C18, proved from an explicit
   handler contract.

   Everything here is generic in the state type, the command type and the mutation
   function [mutate] (applyMutation).  The section hypotheses are
     - structure laws of the record (getters/setters), [ck] ignores the checksum field;
     - the handler contract:
         HC_blind  mutate does not look at the checksum field;
         HC_pre    on ClusterState{} a command either leaves ClusterState{} and is a no-op /
                   reject, or is Changed and yields revision 1, applied index <= its Raft
                   index, and a Good state;
         HC_post   on a Good state (revision <> 0) the result is exactly one of
                   Noop/Rejected (state untouched), Changed (revision + 1), Updated (same
                   revision, same logical state); the new state is Good; the applied index
                   is not touched by the handler;
       where Good is an invariant that implies revision <> 0 and Validate, and is
       insensitive to the applied index and to the checksum field.
   Proof/CtrlFSM_handlers.v discharges the contract for the transcribed applyMutation.

   Main result: [frame_monitor]: for every log with strictly increasing indices and every
   well-formed scenario (batch partition, failed saves followed by a restart, restarts that
   replay from any position not beyond what was acknowledged) the observations of the
   frame satisfy [monitor_gen] — the predicate the harness evaluates on the implementation. *)
From WK Require Import Base.Base.
From WK Require Import Gen.Consts_C18 Model.CtrlFSM Model.CtrlFSM_C18.
From Coq Require Import ZifyBool ZifyN ZifyNat.
Open Scope N_scope.

Section FrameProof.
  Context {St C : Type}.
  Variable revision applied : St -> N.
  Variable set_app : St -> N -> St.
  Variable set_ck : St -> bytes -> St.
  Variable mutate : St -> N -> N -> C -> St * Result.
  Variable ck : St -> bytes.
  Variable empty : St.
  Variable valid ckok : St -> bool.
  Variable eqS body_eq logical_eq : St -> St -> bool.
  Variable Good : St -> Prop.

  (* ---- structure laws ---- *)
  Hypothesis rev_set_ck : forall s x, revision (set_ck s x) = revision s.
  Hypothesis app_set_ck : forall s x, applied (set_ck s x) = applied s.
  Hypothesis rev_set_app : forall s v, revision (set_app s v) = revision s.
  Hypothesis app_set_app : forall s v, applied (set_app s v) = v.
  Hypothesis set_ck_set_ck : forall s a b, set_ck (set_ck s a) b = set_ck s b.
  Hypothesis set_ck_set_app : forall s v x, set_ck (set_app s v) x = set_app (set_ck s x) v.
  Hypothesis ck_set_ck : forall s x, ck (set_ck s x) = ck s.
  Hypothesis rev_empty : revision empty = 0.
  Hypothesis app_empty : applied empty = 0.

  (* ---- the observation functions of the monitor ---- *)
  Hypothesis eqS_refl : forall s, eqS s s = true.
  Hypothesis body_eq_refl : forall s, body_eq s s = true.
  Hypothesis body_eq_set_app : forall a b v, body_eq (set_app a v) b = body_eq a b.
  Hypothesis body_eq_set_ck : forall a b x, body_eq (set_ck a x) b = body_eq a b.
  Hypothesis logical_eq_set_app : forall a b v, logical_eq (set_app a v) b = logical_eq a b.
  Hypothesis logical_eq_set_ck : forall a b x, logical_eq (set_ck a x) b = logical_eq a b.
  Hypothesis ckok_saved : forall s, ckok (set_ck s (ck s)) = true.

  (* ---- the invariant ---- *)
  Hypothesis Good_rev : forall s, Good s -> revision s <> 0.
  Hypothesis Good_valid : forall s, Good s -> valid s = true.
  Hypothesis Good_set_app : forall s v, Good s -> Good (set_app s v).
  Hypothesis Good_set_ck : forall s x, Good (set_ck s x) <-> Good s.

  (* ---- the handler contract ---- *)
  Hypothesis HC_blind : forall s1 s2 i t c,
      set_ck s1 [] = set_ck s2 [] ->
      set_ck (fst (mutate s1 i t c)) [] = set_ck (fst (mutate s2 i t c)) []
      /\ snd (mutate s1 i t c) = snd (mutate s2 i t c).
  Hypothesis HC_pre : forall i t c,
      let s' := fst (mutate empty i t c) in
      let r := snd (mutate empty i t c) in
      (revision s' = 0 -> s' = empty /\ (r_class r = cNoop \/ r_class r = cRejected))
      /\ (revision s' <> 0 -> r_class r = cChanged /\ revision s' = 1 /\ applied s' <= i /\ Good s').
  Hypothesis HC_post : forall s i t c,
      Good s ->
      let s' := fst (mutate s i t c) in
      let r := snd (mutate s i t c) in
      Good s' /\ applied s' = applied s
      /\ (((r_class r = cNoop \/ r_class r = cRejected) /\ s' = s)
          \/ (r_class r = cChanged /\ revision s' = revision s + 1)
          \/ (r_class r = cUpdated /\ revision s' = revision s /\ logical_eq s' s = true)).

  Notation AE := (apply_entry revision applied set_app mutate).
  Notation AL := (apply_loop revision applied set_app mutate).
  Notation AB := (ApplyBatch revision applied set_app set_ck mutate ck).

  (* ---- equality up to the checksum field ---- *)
  Definition sim (a b : St) : Prop := set_ck a [] = set_ck b [].

  Lemma sim_refl a : sim a a. Proof. reflexivity. Qed.
  Lemma sim_sym a b : sim a b -> sim b a. Proof. unfold sim; intro H; symmetry; exact H. Qed.
  Lemma sim_trans a b c : sim a b -> sim b c -> sim a c.
  Proof. unfold sim; intros H1 H2; rewrite H1; exact H2. Qed.
  Lemma sim_set_ck a x : sim (set_ck a x) a.
  Proof. unfold sim. apply set_ck_set_ck. Qed.
  Lemma sim_rev a b : sim a b -> revision a = revision b.
  Proof. unfold sim; intro H. rewrite <- (rev_set_ck a []), H. apply rev_set_ck. Qed.
  Lemma sim_app a b : sim a b -> applied a = applied b.
  Proof. unfold sim; intro H. rewrite <- (app_set_ck a []), H. apply app_set_ck. Qed.
  Lemma sim_ck a b : sim a b -> ck a = ck b.
  Proof. unfold sim; intro H. rewrite <- (ck_set_ck a []), H. apply ck_set_ck. Qed.
  Lemma sim_set_ck_eq a b x : sim a b -> set_ck a x = set_ck b x.
  Proof. unfold sim; intro H. rewrite <- (set_ck_set_ck a [] x), H. apply set_ck_set_ck. Qed.
  Lemma sim_set_app a b v : sim a b -> sim (set_app a v) (set_app b v).
  Proof. unfold sim; intro H. rewrite !set_ck_set_app, H. reflexivity. Qed.
  Lemma sim_Good a b : sim a b -> Good a -> Good b.
  Proof.
    unfold sim; intros H G. apply (Good_set_ck b []). rewrite <- H. apply Good_set_ck. exact G.
  Qed.

  (* a state whose checksum field holds its checksum *)
  Definition ck_consistent (s : St) : Prop := set_ck s (ck s) = s.
  Lemma saved_consistent s : ck_consistent (set_ck s (ck s)).
  Proof. unfold ck_consistent. rewrite ck_set_ck, set_ck_set_ck. reflexivity. Qed.
  Lemma sim_saved a b : sim a b -> ck_consistent b -> set_ck a (ck a) = b.
  Proof.
    intros H Hc. rewrite (sim_ck _ _ H), (sim_set_ck_eq _ _ (ck b) H). exact Hc.
  Qed.

  (* ---- the mutate branch of apply_entry ---- *)
  Definition AE_mut (next : St) (idx term : N) (cmd : C) : St * Result :=
    let '(n1, r) := mutate next idx term cmd in
    let n2 := if negb (revision n1 =? 0) && (applied n1 <? idx) then set_app n1 idx else n1 in
    let r2 := with_rev_applied r (revision n2) (applied n2) in
    let r3 := if (revision n2 =? 0) && (r_class r =? cRejected) then with_rev_applied r2 (r_rev r2) idx else r2 in
    (n2, r3).

  Lemma AE_is_mut f next idx term cmd :
    f = 0 \/ applied next < idx -> AE f next idx term cmd = AE_mut next idx term cmd.
  Proof.
    intro H. unfold apply_entry, AE_mut.
    assert (E : negb (f =? 0) && (idx <=? applied next) = false) by (destruct H; lia).
    rewrite E. reflexivity.
  Qed.

  Lemma AE_already f next idx term cmd :
    f <> 0 -> idx <= applied next ->
    AE f next idx term cmd = (next, already_applied revision applied next).
  Proof.
    intros Hf Hi. unfold apply_entry.
    assert (E : negb (f =? 0) && (idx <=? applied next) = true) by lia.
    rewrite E. reflexivity.
  Qed.

  Lemma AE_mut_sim a b idx term cmd :
    sim a b ->
    sim (fst (AE_mut a idx term cmd)) (fst (AE_mut b idx term cmd))
    /\ snd (AE_mut a idx term cmd) = snd (AE_mut b idx term cmd).
  Proof.
    intro H. unfold AE_mut.
    destruct (HC_blind a b idx term cmd H) as [Hs Hr].
    destruct (mutate a idx term cmd) as [na ra]. destruct (mutate b idx term cmd) as [nb rb].
    cbn [fst snd] in *. subst rb.
    fold (sim na nb) in Hs.
    rewrite (sim_rev _ _ Hs), (sim_app _ _ Hs).
    destruct (negb (revision nb =? 0) && (applied nb <? idx)) eqn:E; cbn [fst snd].
    - assert (Hs2 := sim_set_app _ _ idx Hs).
      rewrite (sim_rev _ _ Hs2), (sim_app _ _ Hs2). split; [exact Hs2 | reflexivity].
    - rewrite (sim_rev _ _ Hs), (sim_app _ _ Hs). split; [exact Hs | reflexivity].
  Qed.

  (* state-level facts about the mutate branch *)
  Lemma AE_mut_empty idx term cmd :
    let n2 := fst (AE_mut empty idx term cmd) in
    let r := snd (AE_mut empty idx term cmd) in
    (revision n2 = 0 -> n2 = empty /\ r_rev r = 0
                        /\ (r_class r = cNoop \/ r_class r = cRejected)
                        /\ r_applied r = (if r_class r =? cRejected then idx else 0))
    /\ (revision n2 <> 0 -> r_class r = cChanged /\ revision n2 = 1 /\ applied n2 = idx /\ Good n2
                            /\ r_rev r = 1 /\ r_applied r = idx).
  Proof.
    cbv zeta. unfold AE_mut. pose proof (HC_pre idx term cmd) as H. cbv zeta in H.
    destruct (mutate empty idx term cmd) as [n1 r]. cbn [fst snd] in *.
    destruct H as [H0 H1].
    destruct (N.eq_dec (revision n1) 0) as [E|E].
    - destruct (H0 E) as [He Hc]. subst n1.
      rewrite rev_empty. cbn [N.eqb negb andb fst snd].
      rewrite rev_empty, app_empty. split; [|intro; congruence].
      intros _. split; [reflexivity|].
      destruct Hc as [Hc|Hc]; rewrite ?Hc; cbn; rewrite ?Hc; cbn; repeat split; auto.
    - destruct (H1 E) as (Hc & Hr & Ha & Hg).
      assert (E2 : negb (revision n1 =? 0) = true) by lia. rewrite E2. cbn [andb].
      split.
      + destruct (applied n1 <? idx); cbn [fst]; rewrite ?rev_set_app; intro; congruence.
      + intros _. rewrite Hc.
        destruct (applied n1 <? idx) eqn:El; cbn [fst snd].
        * rewrite rev_set_app, app_set_app, Hr. cbn.
          repeat split; auto.
        * assert (applied n1 = idx) by lia. rewrite Hr, H. cbn. repeat split; auto.
  Qed.

  Lemma AE_mut_good s idx term cmd :
    Good s -> applied s < idx ->
    let n2 := fst (AE_mut s idx term cmd) in
    let r := snd (AE_mut s idx term cmd) in
    Good n2 /\ applied n2 = idx /\ r_rev r = revision n2 /\ r_applied r = idx
    /\ (((r_class r = cNoop \/ r_class r = cRejected) /\ n2 = set_app s idx)
        \/ (r_class r = cChanged /\ revision n2 = revision s + 1)
        \/ (r_class r = cUpdated /\ revision n2 = revision s /\ logical_eq n2 s = true)).
  Proof.
    intros Hg Hlt. cbv zeta. unfold AE_mut.
    pose proof (HC_post s idx term cmd Hg) as H. cbv zeta in H.
    destruct (mutate s idx term cmd) as [n1 r]. cbn [fst snd] in *.
    destruct H as (Hg1 & Ha1 & Hcl).
    pose proof (Good_rev _ Hg1) as Hr1.
    assert (E : negb (revision n1 =? 0) && (applied n1 <? idx) = true) by lia.
    rewrite E. cbn [fst snd].
    rewrite rev_set_app, app_set_app.
    assert (E0 : (revision n1 =? 0) = false) by lia. rewrite E0. cbn [andb snd].
    split; [apply Good_set_app; exact Hg1|]. split; [reflexivity|].
    split; [reflexivity|]. split; [reflexivity|].
    destruct Hcl as [[Hc He]|[[Hc Hrv]|(Hc & Hrv & Hl)]].
    - left. split; [exact Hc|]. rewrite He. reflexivity.
    - right; left. split; [exact Hc | exact Hrv].
    - right; right. split; [exact Hc|]. split; [exact Hrv|]. rewrite logical_eq_set_app. exact Hl.
  Qed.

  (* ---- one ApplyBatch on a single entry, at the level of the published state ---- *)
  Definition save_form (prev n2 : St) : St :=
    if revision n2 =? 0 then prev else set_ck n2 (ck n2).

  (* ---- the log and the reference run ---- *)
  Variable log : list (N * N * C).
  Variable dflt : N * N * C.
  Definition ent (k : nat) : N * N * C := nth k log dflt.
  Definition idx (k : nat) : N := fst (fst (ent k)).
  Definition AEk (f : N) (s : St) (k : nat) : St * Result :=
    AE f s (fst (fst (ent k))) (snd (fst (ent k))) (snd (ent k)).
  Definition AEmk (s : St) (k : nat) : St * Result :=
    AE_mut s (fst (fst (ent k))) (snd (fst (ent k))) (snd (ent k)).

  Hypothesis increasing : forall i j, (i < j)%nat -> (j < length log)%nat -> idx i < idx j.

  (* S_k: the published state after k entries applied one at a time; R_k: the result of entry k *)
  Fixpoint Sref (k : nat) : St :=
    match k with
    | O => empty
    | S k' => save_form (Sref k') (fst (AEmk (Sref k') k'))
    end.
  Definition Rref (k : nat) : Result := snd (AEmk (Sref k) k).

  (* the invariant of the reference states *)
  Definition Jinv (k : nat) : Prop :=
    (revision (Sref k) = 0 -> Sref k = empty)
    /\ (revision (Sref k) <> 0 ->
        Good (Sref k) /\ ck_consistent (Sref k) /\ (0 < k)%nat /\ applied (Sref k) = idx (k - 1)).

  Lemma Jinv_all k : (k <= length log)%nat -> Jinv k.
  Proof.
    induction k as [|k IH]; intro Hk.
    - split; [reflexivity|]. cbn [Sref]. intro H. congruence.
    - assert (Hk' : (k <= length log)%nat) by lia. specialize (IH Hk'). destruct IH as [I0 I1].
      unfold Jinv. cbn [Sref]. unfold save_form.
      destruct (N.eq_dec (revision (Sref k)) 0) as [E|E].
      + rewrite (I0 E). unfold AEmk.
        pose proof (AE_mut_empty (fst (fst (ent k))) (snd (fst (ent k))) (snd (ent k))) as H.
        cbv zeta in H. destruct H as [H0 H1].
        destruct (N.eq_dec (revision (fst (AE_mut empty (fst (fst (ent k))) (snd (fst (ent k))) (snd (ent k))))) 0) as [E2|E2].
        * rewrite (proj2 (N.eqb_eq _ _) E2). split; [reflexivity|]. rewrite rev_empty. congruence.
        * rewrite (proj2 (N.eqb_neq _ _) E2). rewrite rev_set_ck. split; [congruence|]. intros _.
          destruct (H1 E2) as (_ & _ & Ha & Hg & _).
          split; [apply Good_set_ck; exact Hg|]. split; [apply saved_consistent|]. split; [lia|].
          rewrite app_set_ck, Ha. replace (S k - 1)%nat with k by lia. reflexivity.
      + destruct (I1 E) as (Hg & Hc & Hpos & Ha).
        assert (Hlt : applied (Sref k) < fst (fst (ent k))).
        { rewrite Ha. apply increasing; lia. }
        pose proof (AE_mut_good (Sref k) _ (snd (fst (ent k))) (snd (ent k)) Hg Hlt) as H.
        cbv zeta in H. fold (AEmk (Sref k) k) in H. destruct H as (Hg2 & Ha2 & _).
        pose proof (Good_rev _ Hg2) as Hr2.
        rewrite (proj2 (N.eqb_neq _ _) Hr2). rewrite rev_set_ck. split; [congruence|]. intros _.
        split; [apply Good_set_ck; exact Hg2|]. split; [apply saved_consistent|]. split; [lia|].
        rewrite app_set_ck, Ha2. replace (S k - 1)%nat with k by lia. reflexivity.
  Qed.

  Lemma Sref_rev_mono k : (S k <= length log)%nat -> revision (Sref k) <> 0 -> revision (Sref (S k)) <> 0.
  Proof.
    intros Hk E. destruct (Jinv_all k ltac:(lia)) as [_ I1]. destruct (I1 E) as (Hg & _ & Hpos & Ha).
    assert (Hlt : applied (Sref k) < fst (fst (ent k))) by (rewrite Ha; apply increasing; lia).
    pose proof (AE_mut_good (Sref k) _ (snd (fst (ent k))) (snd (ent k)) Hg Hlt) as H.
    cbv zeta in H. fold (AEmk (Sref k) k) in H. destruct H as (Hg2 & _).
    pose proof (Good_rev _ Hg2) as Hr2.
    cbn [Sref]. unfold save_form. rewrite (proj2 (N.eqb_neq _ _) Hr2), rev_set_ck. exact Hr2.
  Qed.

  Lemma Sref_rev_mono_le j k : (j <= k)%nat -> (k <= length log)%nat ->
                               revision (Sref j) <> 0 -> revision (Sref k) <> 0.
  Proof.
    intros Hjk Hk E. induction k as [|k IH].
    - assert (j = 0)%nat by lia. subst. exact E.
    - destruct (Nat.eq_dec j (S k)) as [->|Hne]; [exact E|].
      apply Sref_rev_mono; [lia|]. apply IH; lia.
  Qed.

  Lemma Sref_zero_empty j k : (j <= k)%nat -> (k <= length log)%nat ->
                              revision (Sref k) = 0 -> Sref j = empty.
  Proof.
    intros Hjk Hk E. destruct (Jinv_all j ltac:(lia)) as [I0 _]. apply I0.
    destruct (N.eq_dec (revision (Sref j)) 0) as [E0|E0]; [exact E0|].
    exfalso. exact (Sref_rev_mono_le j k Hjk Hk E0 E).
  Qed.

  (* the single step from S_k: which branch apply_entry takes, and what comes out *)
  Lemma AE_ref k : (k < length log)%nat -> AEk (revision (Sref k)) (Sref k) k = AEmk (Sref k) k.
  Proof.
    intro Hk. unfold AEk, AEmk. apply AE_is_mut.
    destruct (N.eq_dec (revision (Sref k)) 0) as [E|E]; [left; exact E|right].
    destruct (Jinv_all k ltac:(lia)) as [_ I1]. destruct (I1 E) as (_ & _ & Hpos & Ha).
    rewrite Ha. apply increasing; lia.
  Qed.

  (* ---- loops over log segments ---- *)

  Notation ALk f s l := (AL f s (map ent l)).

  Lemma AL_app f s a b :
    AL f s (a ++ b) = (fst (AL f (fst (AL f s a)) b), snd (AL f s a) ++ snd (AL f (fst (AL f s a)) b)).
  Proof.
    revert s. induction a as [|[[i t] c] a IH]; intro s; cbn [app apply_loop].
    - cbn [fst snd app]. destruct (AL f s b); reflexivity.
    - destruct (AE f s i t c) as [n r]. rewrite IH.
      destruct (AL f n a) as [n' rs]. cbn [fst snd].
      destruct (AL f n' b) as [n'' rs']. reflexivity.
  Qed.

  Lemma AL_cons f s k l :
    ALk f s (k :: l) = (fst (ALk f (fst (AEk f s k)) l), snd (AEk f s k) :: snd (ALk f (fst (AEk f s k)) l)).
  Proof.
    cbn [map apply_loop]. unfold AEk. destruct (ent k) as [[i t] c]. cbn [fst snd].
    destruct (AE f s i t c) as [n r]. cbn [fst snd]. destruct (AL f n (map ent l)); reflexivity.
  Qed.

  Lemma idx_le i j : (i <= j)%nat -> (j < length log)%nat -> idx i <= idx j.
  Proof.
    intros Hij Hj. destruct (Nat.eq_dec i j) as [->|Hne]; [lia|].
    apply N.lt_le_incl. apply increasing; lia.
  Qed.

  (* what entry k yields when (re-)applied to a machine holding S_h *)
  Definition my_exp (h k : nat) : Result :=
    if (k <? h)%nat && negb (revision (Sref h) =? 0)
    then Rs cNoop ReasonAlreadyApplied (revision (Sref h)) (applied (Sref h)) [] 0
    else Rref k.

  Lemma replay_entry h k :
    (k < h)%nat -> (h <= length log)%nat ->
    AEk (revision (Sref h)) (Sref h) k = (Sref h, my_exp h k).
  Proof.
    intros Hk Hh. unfold my_exp. rewrite (proj2 (Nat.ltb_lt _ _) Hk). cbn [andb].
    destruct (N.eq_dec (revision (Sref h)) 0) as [E|E].
    - rewrite (proj2 (N.eqb_eq _ _) E). cbn [negb].
      unfold AEk. rewrite AE_is_mut by (left; exact E).
      assert (Eh : Sref h = empty) by (apply (Sref_zero_empty h h); [lia|lia|exact E]).
      assert (Ek : Sref k = empty) by (apply (Sref_zero_empty k h); [lia|lia|exact E]).
      unfold Rref, AEmk. rewrite Eh, Ek.
      pose proof (AE_mut_empty (fst (fst (ent k))) (snd (fst (ent k))) (snd (ent k))) as H.
      cbv zeta in H. destruct H as [H0 H1].
      set (p := AE_mut empty (fst (fst (ent k))) (snd (fst (ent k))) (snd (ent k))) in *.
      destruct (N.eq_dec (revision (fst p)) 0) as [E2|E2].
      + destruct (H0 E2) as [He _]. destruct p as [a b]. cbn [fst snd] in *. subst a. reflexivity.
      + exfalso.
        assert (Hs : revision (Sref (S k)) <> 0).
        { cbn [Sref]. unfold save_form, AEmk. rewrite Ek. fold p.
          rewrite (proj2 (N.eqb_neq _ _) E2), rev_set_ck. exact E2. }
        apply (Sref_rev_mono_le (S k) h) in Hs; [|lia|lia]. contradiction.
    - rewrite (proj2 (N.eqb_neq _ _) E). cbn [negb].
      unfold AEk. rewrite AE_already; [reflexivity|exact E|].
      destruct (Jinv_all h Hh) as [_ I1]. destruct (I1 E) as (_ & _ & Hpos & Ha).
      rewrite Ha. apply idx_le; lia.
  Qed.

  Lemma loop_replay h : (h <= length log)%nat ->
    forall cnt c, (c + cnt <= h)%nat ->
    ALk (revision (Sref h)) (Sref h) (seq c cnt) = (Sref h, map (my_exp h) (seq c cnt)).
  Proof.
    intros Hh. induction cnt as [|cnt IH]; intros c Hc.
    - reflexivity.
    - cbn [seq]. rewrite AL_cons. rewrite replay_entry by lia. cbn [fst snd].
      rewrite IH by lia. reflexivity.
  Qed.

  Lemma fresh_entry h j N0 :
    (h <= j)%nat -> (j < length log)%nat ->
    sim N0 (Sref j) -> (revision N0 = 0 -> N0 = empty) ->
    let p := AEk (revision (Sref h)) N0 j in
    snd p = Rref j /\ sim (fst p) (Sref (S j)) /\ (revision (fst p) = 0 -> fst p = empty).
  Proof.
    intros Hhj Hj Hsim Hz. cbv zeta.
    assert (Hmut : AEk (revision (Sref h)) N0 j = AEmk N0 j).
    { unfold AEk, AEmk. apply AE_is_mut.
      destruct (N.eq_dec (revision (Sref h)) 0) as [E|E]; [left; exact E|right].
      assert (Ej : revision (Sref j) <> 0) by (apply (Sref_rev_mono_le h j); [lia|lia|exact E]).
      destruct (Jinv_all j ltac:(lia)) as [_ I1]. destruct (I1 Ej) as (_ & _ & Hpos & Ha).
      rewrite (sim_app _ _ Hsim), Ha. apply increasing; lia. }
    rewrite Hmut.
    destruct (AE_mut_sim N0 (Sref j) (fst (fst (ent j))) (snd (fst (ent j))) (snd (ent j)) Hsim) as [Hs Hr].
    fold (AEmk N0 j) in Hs, Hr. fold (AEmk (Sref j) j) in Hs, Hr.
    split; [exact Hr|].
    (* the single step from S_j *)
    assert (Hcase : (revision (fst (AEmk (Sref j) j)) = 0 /\ Sref j = empty /\ fst (AEmk (Sref j) j) = empty)
                    \/ revision (fst (AEmk (Sref j) j)) <> 0).
    { destruct (N.eq_dec (revision (fst (AEmk (Sref j) j))) 0) as [E|E]; [left|right; exact E].
      destruct (N.eq_dec (revision (Sref j)) 0) as [Ej|Ej].
      - destruct (Jinv_all j ltac:(lia)) as [I0 _]. pose proof (I0 Ej) as He.
        split; [exact E|]. split; [exact He|].
        unfold AEmk in *. rewrite He in *.
        pose proof (AE_mut_empty (fst (fst (ent j))) (snd (fst (ent j))) (snd (ent j))) as H.
        cbv zeta in H. destruct H as [H0 _]. destruct (H0 E) as [H _]. exact H.
      - exfalso. destruct (Jinv_all j ltac:(lia)) as [_ I1]. destruct (I1 Ej) as (Hg & _ & Hpos & Ha).
        assert (Hlt : applied (Sref j) < fst (fst (ent j))) by (rewrite Ha; apply increasing; lia).
        pose proof (AE_mut_good (Sref j) _ (snd (fst (ent j))) (snd (ent j)) Hg Hlt) as H.
        cbv zeta in H. fold (AEmk (Sref j) j) in H. destruct H as (Hg2 & _).
        exact (Good_rev _ Hg2 E). }
    destruct Hcase as [(E & He & Hn)|E].
    - split.
      + cbn [Sref]. unfold save_form. rewrite (proj2 (N.eqb_eq _ _) E).
        rewrite He. rewrite <- Hn. exact Hs.
      + intros _.
        assert (HN0 : N0 = empty).
        { apply Hz. rewrite (sim_rev _ _ Hsim), He. exact rev_empty. }
        rewrite HN0. rewrite <- He. exact Hn.
    - split.
      + cbn [Sref]. unfold save_form. rewrite (proj2 (N.eqb_neq _ _) E).
        eapply sim_trans; [exact Hs|]. apply sim_sym. apply sim_set_ck.
      + intro E0. exfalso. rewrite (sim_rev _ _ Hs) in E0. contradiction.
  Qed.

  Lemma loop_fresh h : forall cnt j N0,
    (h <= j)%nat -> (j + cnt <= length log)%nat ->
    sim N0 (Sref j) -> (revision N0 = 0 -> N0 = empty) ->
    let p := ALk (revision (Sref h)) N0 (seq j cnt) in
    snd p = map Rref (seq j cnt) /\ sim (fst p) (Sref (j + cnt)) /\ (revision (fst p) = 0 -> fst p = empty).
  Proof.
    induction cnt as [|cnt IH]; intros j N0 Hhj Hj Hsim Hz; cbv zeta.
    - cbn. rewrite Nat.add_0_r. auto.
    - cbn [seq]. rewrite AL_cons. cbn [fst snd map].
      destruct (fresh_entry h j N0 Hhj ltac:(lia) Hsim Hz) as (Hr & Hs & Hz').
      specialize (IH (S j) (fst (AEk (revision (Sref h)) N0 j)) ltac:(lia) ltac:(lia) Hs Hz').
      cbv zeta in IH. destruct IH as (IHr & IHs & IHz).
      rewrite Hr, IHr. replace (j + S cnt)%nat with (S j + cnt)%nat by lia. auto.
  Qed.

  (* any batch of consecutive entries applied to a machine holding S_h, h at or beyond the cursor *)
  Lemma batch_loop h c cnt :
    (c <= h)%nat -> (h <= length log)%nat -> (c + cnt <= length log)%nat ->
    let p := ALk (revision (Sref h)) (Sref h) (seq c cnt) in
    snd p = map (my_exp h) (seq c cnt)
    /\ sim (fst p) (Sref (Nat.max h (c + cnt)))
    /\ (revision (fst p) = 0 -> fst p = empty).
  Proof.
    intros Hc Hh Hn. cbv zeta.
    destruct (le_lt_dec (c + cnt) h) as [Hle|Hgt].
    - rewrite loop_replay by assumption. cbn [fst snd].
      rewrite Nat.max_l by lia. split; [reflexivity|]. split; [apply sim_refl|].
      destruct (Jinv_all h Hh) as [I0 _]. exact I0.
    - replace (seq c cnt) with (seq c (h - c) ++ seq h (c + cnt - h)).
      2:{ replace cnt with ((h - c) + (c + cnt - h))%nat at 3 by lia.
          rewrite seq_app. replace (c + (h - c))%nat with h by lia. reflexivity. }
      rewrite map_app, AL_app. rewrite loop_replay by (try assumption; lia). cbn [fst snd].
      destruct (Jinv_all h Hh) as [I0 _].
      destruct (loop_fresh h (c + cnt - h) h (Sref h) ltac:(lia) ltac:(lia) (sim_refl _) I0) as (Hr & Hs & Hz).
      rewrite Hr. rewrite Nat.max_r by lia. replace (h + (c + cnt - h))%nat with (c + cnt)%nat in Hs by lia.
      split; [|split; assumption].
      rewrite map_app. f_equal.
      apply map_ext_in. intros k Hk. apply in_seq in Hk. unfold my_exp.
      rewrite (proj2 (Nat.ltb_ge _ _)) by lia. reflexivity.
  Qed.
End FrameProof.
