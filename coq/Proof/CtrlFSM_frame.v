(* Proof/CtrlFSM_frame.v — the ApplyBatch frame theorems of C18, proved from an explicit
   handler contract.

   Everything here is generic in the state type, the command type and the mutation
   function [mutate] (applyMutation).  The section hypotheses are
     - structure laws of the record (getters/setters), [ck] ignores the checksum field;
     - the handler contract:
         HC_blind  mutate does not look at the checksum field;
         HC_pre    on ClusterState{} a command either leaves ClusterState{} and is a no-op /
                   reject, or is Changed and yields revision 1, applied index <= its Raft
                   index, and a Good state;
         HC_post   on a Good state (revision <> 0) the result is exactly one of
                   Noop/Rejected (state untouched), Changed (revision + 1), Updated (same
                   revision, same logical state); the new state is Good; the applied index
                   is not touched by the handler;
       where Good is an invariant that implies revision <> 0 and Validate, and is
       insensitive to the applied index and to the checksum field.
   Proof/CtrlFSM_handlers.v discharges the contract for the transcribed applyMutation.

   Main result: [frame_monitor]: for every log with strictly increasing indices and every
   well-formed scenario (batch partition, failed saves followed by a restart, restarts that
   replay from any position not beyond what was acknowledged) the observations of the
   frame satisfy [monitor_gen] — the predicate the harness evaluates on the implementation. *)
From WK Require Import Base.Base.
From WK Require Import Gen.Consts_C18 Model.CtrlFSM Model.CtrlFSM_C18.
From Coq Require Import ZifyBool ZifyN ZifyNat.
Open Scope N_scope.

Section FrameProof.
  Context {St C : Type}.
  Variable revision applied : St -> N.
  Variable set_app : St -> N -> St.
  Variable set_ck : St -> bytes -> St.
  Variable mutate : St -> N -> N -> C -> St * Result.
  Variable ck : St -> bytes.
  Variable empty : St.
  Variable valid ckok : St -> bool.
  Variable eqS body_eq logical_eq : St -> St -> bool.
  Variable Good : St -> Prop.

  (* ---- structure laws ---- *)
  Hypothesis rev_set_ck : forall s x, revision (set_ck s x) = revision s.
  Hypothesis app_set_ck : forall s x, applied (set_ck s x) = applied s.
  Hypothesis rev_set_app : forall s v, revision (set_app s v) = revision s.
  Hypothesis app_set_app : forall s v, applied (set_app s v) = v.
  Hypothesis set_ck_set_ck : forall s a b, set_ck (set_ck s a) b = set_ck s b.
  Hypothesis set_ck_set_app : forall s v x, set_ck (set_app s v) x = set_app (set_ck s x) v.
  Hypothesis ck_set_ck : forall s x, ck (set_ck s x) = ck s.
  Hypothesis rev_empty : revision empty = 0.
  Hypothesis app_empty : applied empty = 0.

  (* ---- the observation functions of the monitor ---- *)
  Hypothesis eqS_refl : forall s, eqS s s = true.
  Hypothesis body_eq_refl : forall s, body_eq s s = true.
  Hypothesis body_eq_set_app : forall a b v, body_eq (set_app a v) b = body_eq a b.
  Hypothesis body_eq_set_ck : forall a b x, body_eq (set_ck a x) b = body_eq a b.
  Hypothesis logical_eq_set_app : forall a b v, logical_eq (set_app a v) b = logical_eq a b.
  Hypothesis logical_eq_set_ck : forall a b x, logical_eq (set_ck a x) b = logical_eq a b.
  Hypothesis ckok_saved : forall s, ckok (set_ck s (ck s)) = true.

  (* ---- the invariant ---- *)
  Hypothesis Good_rev : forall s, Good s -> revision s <> 0.
  Hypothesis Good_valid : forall s, Good s -> valid s = true.
  Hypothesis Good_set_app : forall s v, Good s -> Good (set_app s v).
  Hypothesis Good_set_ck : forall s x, Good (set_ck s x) <-> Good s.

  (* ---- the handler contract ---- *)
  Hypothesis HC_blind : forall s1 s2 i t c,
      set_ck s1 [] = set_ck s2 [] ->
      set_ck (fst (mutate s1 i t c)) [] = set_ck (fst (mutate s2 i t c)) []
      /\ snd (mutate s1 i t c) = snd (mutate s2 i t c).
  Hypothesis HC_pre : forall i t c,
      let s' := fst (mutate empty i t c) in
      let r := snd (mutate empty i t c) in
      (revision s' = 0 -> s' = empty /\ (r_class r = cNoop \/ r_class r = cRejected))
      /\ (revision s' <> 0 -> r_class r = cChanged /\ revision s' = 1 /\ applied s' <= i /\ Good s').
  Hypothesis HC_post : forall s i t c,
      Good s ->
      let s' := fst (mutate s i t c) in
      let r := snd (mutate s i t c) in
      Good s' /\ applied s' = applied s
      /\ (((r_class r = cNoop \/ r_class r = cRejected) /\ s' = s)
          \/ (r_class r = cChanged /\ revision s' = revision s + 1)
          \/ (r_class r = cUpdated /\ revision s' = revision s /\ logical_eq s' s = true)).

  Notation AE := (apply_entry revision applied set_app mutate).
  Notation AL := (apply_loop revision applied set_app mutate).
  Notation AB := (ApplyBatch revision applied set_app set_ck mutate ck).

  (* ---- equality up to the checksum field ---- *)
  Definition sim (a b : St) : Prop := set_ck a [] = set_ck b [].

  Lemma sim_refl a : sim a a. Proof. reflexivity. Qed.
  Lemma sim_sym a b : sim a b -> sim b a. Proof. unfold sim; intro H; symmetry; exact H. Qed.
  Lemma sim_trans a b c : sim a b -> sim b c -> sim a c.
  Proof. unfold sim; intros H1 H2; rewrite H1; exact H2. Qed.
  Lemma sim_set_ck a x : sim (set_ck a x) a.
  Proof. unfold sim. apply set_ck_set_ck. Qed.
  Lemma sim_rev a b : sim a b -> revision a = revision b.
  Proof. unfold sim; intro H. rewrite <- (rev_set_ck a []), H. apply rev_set_ck. Qed.
  Lemma sim_app a b : sim a b -> applied a = applied b.
  Proof. unfold sim; intro H. rewrite <- (app_set_ck a []), H. apply app_set_ck. Qed.
  Lemma sim_ck a b : sim a b -> ck a = ck b.
  Proof. unfold sim; intro H. rewrite <- (ck_set_ck a []), H. apply ck_set_ck. Qed.
  Lemma sim_set_ck_eq a b x : sim a b -> set_ck a x = set_ck b x.
  Proof. unfold sim; intro H. rewrite <- (set_ck_set_ck a [] x), H. apply set_ck_set_ck. Qed.
  Lemma sim_set_app a b v : sim a b -> sim (set_app a v) (set_app b v).
  Proof. unfold sim; intro H. rewrite !set_ck_set_app, H. reflexivity. Qed.
  Lemma sim_Good a b : sim a b -> Good a -> Good b.
  Proof.
    unfold sim; intros H G. apply (Good_set_ck b []). rewrite <- H. apply Good_set_ck. exact G.
  Qed.

  (* a state whose checksum field holds its checksum *)
  Definition ck_consistent (s : St) : Prop := set_ck s (ck s) = s.
  Lemma saved_consistent s : ck_consistent (set_ck s (ck s)).
  Proof. unfold ck_consistent. rewrite ck_set_ck, set_ck_set_ck. reflexivity. Qed.
  Lemma sim_saved a b : sim a b -> ck_consistent b -> set_ck a (ck a) = b.
  Proof.
    intros H Hc. rewrite (sim_ck _ _ H), (sim_set_ck_eq _ _ (ck b) H). exact Hc.
  Qed.

  (* ---- the mutate branch of apply_entry ---- *)
  Definition AE_mut (next : St) (idx term : N) (cmd : C) : St * Result :=
    let '(n1, r) := mutate next idx term cmd in
    let n2 := if negb (revision n1 =? 0) && (applied n1 <? idx) then set_app n1 idx else n1 in
    let r2 := with_rev_applied r (revision n2) (applied n2) in
    let r3 := if (revision n2 =? 0) && (r_class r =? cRejected) then with_rev_applied r2 (r_rev r2) idx else r2 in
    (n2, r3).

  Lemma AE_is_mut f next idx term cmd :
    f = 0 \/ applied next < idx -> AE f next idx term cmd = AE_mut next idx term cmd.
  Proof.
    intro H. unfold apply_entry, AE_mut.
    assert (E : negb (f =? 0) && (idx <=? applied next) = false) by (destruct H; lia).
    rewrite E. reflexivity.
  Qed.

  Lemma AE_already f next idx term cmd :
    f <> 0 -> idx <= applied next ->
    AE f next idx term cmd = (next, already_applied revision applied next).
  Proof.
    intros Hf Hi. unfold apply_entry.
    assert (E : negb (f =? 0) && (idx <=? applied next) = true) by lia.
    rewrite E. reflexivity.
  Qed.

  Lemma AE_mut_sim a b idx term cmd :
    sim a b ->
    sim (fst (AE_mut a idx term cmd)) (fst (AE_mut b idx term cmd))
    /\ snd (AE_mut a idx term cmd) = snd (AE_mut b idx term cmd).
  Proof.
    intro H. unfold AE_mut.
    destruct (HC_blind a b idx term cmd H) as [Hs Hr].
    destruct (mutate a idx term cmd) as [na ra]. destruct (mutate b idx term cmd) as [nb rb].
    cbn [fst snd] in *. subst rb.
    fold (sim na nb) in Hs.
    rewrite (sim_rev _ _ Hs), (sim_app _ _ Hs).
    destruct (negb (revision nb =? 0) && (applied nb <? idx)) eqn:E; cbn [fst snd].
    - assert (Hs2 := sim_set_app _ _ idx Hs).
      rewrite (sim_rev _ _ Hs2), (sim_app _ _ Hs2). split; [exact Hs2 | reflexivity].
    - rewrite (sim_rev _ _ Hs), (sim_app _ _ Hs). split; [exact Hs | reflexivity].
  Qed.

  (* state-level facts about the mutate branch *)
  Lemma AE_mut_empty idx term cmd :
    let n2 := fst (AE_mut empty idx term cmd) in
    let r := snd (AE_mut empty idx term cmd) in
    (revision n2 = 0 -> n2 = empty /\ r_rev r = 0
                        /\ (r_class r = cNoop \/ r_class r = cRejected)
                        /\ r_applied r = (if r_class r =? cRejected then idx else 0))
    /\ (revision n2 <> 0 -> r_class r = cChanged /\ revision n2 = 1 /\ applied n2 = idx /\ Good n2
                            /\ r_rev r = 1 /\ r_applied r = idx).
  Proof.
    cbv zeta. unfold AE_mut. pose proof (HC_pre idx term cmd) as H. cbv zeta in H.
    destruct (mutate empty idx term cmd) as [n1 r]. cbn [fst snd] in *.
    destruct H as [H0 H1].
    destruct (N.eq_dec (revision n1) 0) as [E|E].
    - destruct (H0 E) as [He Hc]. subst n1.
      rewrite rev_empty. cbn [N.eqb negb andb fst snd].
      rewrite rev_empty, app_empty. split; [|intro; congruence].
      intros _. split; [reflexivity|].
      destruct Hc as [Hc|Hc]; rewrite ?Hc; cbn; rewrite ?Hc; cbn; repeat split; auto.
    - destruct (H1 E) as (Hc & Hr & Ha & Hg).
      assert (E2 : negb (revision n1 =? 0) = true) by lia. rewrite E2. cbn [andb].
      split.
      + destruct (applied n1 <? idx); cbn [fst]; rewrite ?rev_set_app; intro; congruence.
      + intros _. rewrite Hc.
        destruct (applied n1 <? idx) eqn:El; cbn [fst snd].
        * rewrite rev_set_app, app_set_app, Hr. cbn.
          repeat split; auto.
        * assert (applied n1 = idx) by lia. rewrite Hr, H. cbn. repeat split; auto.
  Qed.

  Lemma AE_mut_good s idx term cmd :
    Good s -> applied s < idx ->
    let n2 := fst (AE_mut s idx term cmd) in
    let r := snd (AE_mut s idx term cmd) in
    Good n2 /\ applied n2 = idx /\ r_rev r = revision n2 /\ r_applied r = idx
    /\ (((r_class r = cNoop \/ r_class r = cRejected) /\ n2 = set_app s idx)
        \/ (r_class r = cChanged /\ revision n2 = revision s + 1)
        \/ (r_class r = cUpdated /\ revision n2 = revision s /\ logical_eq n2 s = true)).
  Proof.
    intros Hg Hlt. cbv zeta. unfold AE_mut.
    pose proof (HC_post s idx term cmd Hg) as H. cbv zeta in H.
    destruct (mutate s idx term cmd) as [n1 r]. cbn [fst snd] in *.
    destruct H as (Hg1 & Ha1 & Hcl).
    pose proof (Good_rev _ Hg1) as Hr1.
    assert (E : negb (revision n1 =? 0) && (applied n1 <? idx) = true) by lia.
    rewrite E. cbn [fst snd].
    rewrite rev_set_app, app_set_app.
    assert (E0 : (revision n1 =? 0) = false) by lia. rewrite E0. cbn [andb snd].
    split; [apply Good_set_app; exact Hg1|]. split; [reflexivity|].
    split; [reflexivity|]. split; [reflexivity|].
    destruct Hcl as [[Hc He]|[[Hc Hrv]|(Hc & Hrv & Hl)]].
    - left. split; [exact Hc|]. rewrite He. reflexivity.
    - right; left. split; [exact Hc | exact Hrv].
    - right; right. split; [exact Hc|]. split; [exact Hrv|]. rewrite logical_eq_set_app. exact Hl.
  Qed.

  (* ---- one ApplyBatch on a single entry, at the level of the published state ---- *)
  Definition save_form (prev n2 : St) : St :=
    if revision n2 =? 0 then prev else set_ck n2 (ck n2).

  (* ---- the log and the reference run ---- *)
  Variable log : list (N * N * C).
  Variable dflt : N * N * C.
  Definition ent (k : nat) : N * N * C := nth k log dflt.
  Definition idx (k : nat) : N := fst (fst (ent k)).
  Definition AEk (f : N) (s : St) (k : nat) : St * Result :=
    AE f s (fst (fst (ent k))) (snd (fst (ent k))) (snd (ent k)).
  Definition AEmk (s : St) (k : nat) : St * Result :=
    AE_mut s (fst (fst (ent k))) (snd (fst (ent k))) (snd (ent k)).

  Hypothesis increasing : forall i j, (i < j)%nat -> (j < length log)%nat -> idx i < idx j.

  (* S_k: the published state after k entries applied one at a time; R_k: the result of entry k *)
  Fixpoint Sref (k : nat) : St :=
    match k with
    | O => empty
    | S k' => save_form (Sref k') (fst (AEmk (Sref k') k'))
    end.
  Definition Rref (k : nat) : Result := snd (AEmk (Sref k) k).

  (* the invariant of the reference states *)
  Definition Jinv (k : nat) : Prop :=
    (revision (Sref k) = 0 -> Sref k = empty)
    /\ (revision (Sref k) <> 0 ->
        Good (Sref k) /\ ck_consistent (Sref k) /\ (0 < k)%nat /\ applied (Sref k) = idx (k - 1)).

  Lemma Jinv_all k : (k <= length log)%nat -> Jinv k.
  Proof.
    induction k as [|k IH]; intro Hk.
    - split; [reflexivity|]. cbn [Sref]. intro H. congruence.
    - assert (Hk' : (k <= length log)%nat) by lia. specialize (IH Hk'). destruct IH as [I0 I1].
      unfold Jinv. cbn [Sref]. unfold save_form.
      destruct (N.eq_dec (revision (Sref k)) 0) as [E|E].
      + rewrite (I0 E). unfold AEmk.
        pose proof (AE_mut_empty (fst (fst (ent k))) (snd (fst (ent k))) (snd (ent k))) as H.
        cbv zeta in H. destruct H as [H0 H1].
        destruct (N.eq_dec (revision (fst (AE_mut empty (fst (fst (ent k))) (snd (fst (ent k))) (snd (ent k))))) 0) as [E2|E2].
        * rewrite (proj2 (N.eqb_eq _ _) E2). split; [reflexivity|]. rewrite rev_empty. congruence.
        * rewrite (proj2 (N.eqb_neq _ _) E2). rewrite rev_set_ck. split; [congruence|]. intros _.
          destruct (H1 E2) as (_ & _ & Ha & Hg & _).
          split; [apply Good_set_ck; exact Hg|]. split; [apply saved_consistent|]. split; [lia|].
          rewrite app_set_ck, Ha. replace (S k - 1)%nat with k by lia. reflexivity.
      + destruct (I1 E) as (Hg & Hc & Hpos & Ha).
        assert (Hlt : applied (Sref k) < fst (fst (ent k))).
        { rewrite Ha. apply increasing; lia. }
        pose proof (AE_mut_good (Sref k) _ (snd (fst (ent k))) (snd (ent k)) Hg Hlt) as H.
        cbv zeta in H. fold (AEmk (Sref k) k) in H. destruct H as (Hg2 & Ha2 & _).
        pose proof (Good_rev _ Hg2) as Hr2.
        rewrite (proj2 (N.eqb_neq _ _) Hr2). rewrite rev_set_ck. split; [congruence|]. intros _.
        split; [apply Good_set_ck; exact Hg2|]. split; [apply saved_consistent|]. split; [lia|].
        rewrite app_set_ck, Ha2. replace (S k - 1)%nat with k by lia. reflexivity.
  Qed.

  Lemma Sref_rev_mono k : (S k <= length log)%nat -> revision (Sref k) <> 0 -> revision (Sref (S k)) <> 0.
  Proof.
    intros Hk E. destruct (Jinv_all k ltac:(lia)) as [_ I1]. destruct (I1 E) as (Hg & _ & Hpos & Ha).
    assert (Hlt : applied (Sref k) < fst (fst (ent k))) by (rewrite Ha; apply increasing; lia).
    pose proof (AE_mut_good (Sref k) _ (snd (fst (ent k))) (snd (ent k)) Hg Hlt) as H.
    cbv zeta in H. fold (AEmk (Sref k) k) in H. destruct H as (Hg2 & _).
    pose proof (Good_rev _ Hg2) as Hr2.
    cbn [Sref]. unfold save_form. rewrite (proj2 (N.eqb_neq _ _) Hr2), rev_set_ck. exact Hr2.
  Qed.

  Lemma Sref_rev_mono_le j k : (j <= k)%nat -> (k <= length log)%nat ->
                               revision (Sref j) <> 0 -> revision (Sref k) <> 0.
  Proof.
    intros Hjk Hk E. induction k as [|k IH].
    - assert (j = 0)%nat by lia. subst. exact E.
    - destruct (Nat.eq_dec j (S k)) as [->|Hne]; [exact E|].
      apply Sref_rev_mono; [lia|]. apply IH; lia.
  Qed.

  Lemma Sref_zero_empty j k : (j <= k)%nat -> (k <= length log)%nat ->
                              revision (Sref k) = 0 -> Sref j = empty.
  Proof.
    intros Hjk Hk E. destruct (Jinv_all j ltac:(lia)) as [I0 _]. apply I0.
    destruct (N.eq_dec (revision (Sref j)) 0) as [E0|E0]; [exact E0|].
    exfalso. exact (Sref_rev_mono_le j k Hjk Hk E0 E).
  Qed.

  (* the single step from S_k: which branch apply_entry takes, and what comes out *)
  Lemma AE_ref k : (k < length log)%nat -> AEk (revision (Sref k)) (Sref k) k = AEmk (Sref k) k.
  Proof.
    intro Hk. unfold AEk, AEmk. apply AE_is_mut.
    destruct (N.eq_dec (revision (Sref k)) 0) as [E|E]; [left; exact E|right].
    destruct (Jinv_all k ltac:(lia)) as [_ I1]. destruct (I1 E) as (_ & _ & Hpos & Ha).
    rewrite Ha. apply increasing; lia.
  Qed.

  (* ---- loops over log segments ---- *)

  Notation ALk f s l := (AL f s (map ent l)).

  Lemma AL_app f s a b :
    AL f s (a ++ b) = (fst (AL f (fst (AL f s a)) b), snd (AL f s a) ++ snd (AL f (fst (AL f s a)) b)).
  Proof.
    revert s. induction a as [|[[i t] c] a IH]; intro s; cbn [app apply_loop].
    - cbn [fst snd app]. destruct (AL f s b); reflexivity.
    - destruct (AE f s i t c) as [n r]. rewrite IH.
      destruct (AL f n a) as [n' rs]. cbn [fst snd].
      destruct (AL f n' b) as [n'' rs']. reflexivity.
  Qed.

  Lemma AL_cons f s k l :
    ALk f s (k :: l) = (fst (ALk f (fst (AEk f s k)) l), snd (AEk f s k) :: snd (ALk f (fst (AEk f s k)) l)).
  Proof.
    cbn [map apply_loop]. unfold AEk. destruct (ent k) as [[i t] c]. cbn [fst snd].
    destruct (AE f s i t c) as [n r]. cbn [fst snd]. destruct (AL f n (map ent l)); reflexivity.
  Qed.

  Lemma idx_le i j : (i <= j)%nat -> (j < length log)%nat -> idx i <= idx j.
  Proof.
    intros Hij Hj. destruct (Nat.eq_dec i j) as [->|Hne]; [lia|].
    apply N.lt_le_incl. apply increasing; lia.
  Qed.

  (* what entry k yields when (re-)applied to a machine holding S_h *)
  Definition my_exp (h k : nat) : Result :=
    if (k <? h)%nat && negb (revision (Sref h) =? 0)
    then Rs cNoop ReasonAlreadyApplied (revision (Sref h)) (applied (Sref h)) [] 0
    else Rref k.

  Lemma replay_entry h k :
    (k < h)%nat -> (h <= length log)%nat ->
    AEk (revision (Sref h)) (Sref h) k = (Sref h, my_exp h k).
  Proof.
    intros Hk Hh. unfold my_exp. rewrite (proj2 (Nat.ltb_lt _ _) Hk). cbn [andb].
    destruct (N.eq_dec (revision (Sref h)) 0) as [E|E].
    - rewrite (proj2 (N.eqb_eq _ _) E). cbn [negb].
      unfold AEk. rewrite AE_is_mut by (left; exact E).
      assert (Eh : Sref h = empty) by (apply (Sref_zero_empty h h); [lia|lia|exact E]).
      assert (Ek : Sref k = empty) by (apply (Sref_zero_empty k h); [lia|lia|exact E]).
      unfold Rref, AEmk. rewrite Eh, Ek.
      pose proof (AE_mut_empty (fst (fst (ent k))) (snd (fst (ent k))) (snd (ent k))) as H.
      cbv zeta in H. destruct H as [H0 H1].
      set (p := AE_mut empty (fst (fst (ent k))) (snd (fst (ent k))) (snd (ent k))) in *.
      destruct (N.eq_dec (revision (fst p)) 0) as [E2|E2].
      + destruct (H0 E2) as [He _]. destruct p as [a b]. cbn [fst snd] in *. subst a. reflexivity.
      + exfalso.
        assert (Hs : revision (Sref (S k)) <> 0).
        { cbn [Sref]. unfold save_form, AEmk. rewrite Ek. fold p.
          rewrite (proj2 (N.eqb_neq _ _) E2), rev_set_ck. exact E2. }
        apply (Sref_rev_mono_le (S k) h) in Hs; [|lia|lia]. contradiction.
    - rewrite (proj2 (N.eqb_neq _ _) E). cbn [negb].
      unfold AEk. rewrite AE_already; [reflexivity|exact E|].
      destruct (Jinv_all h Hh) as [_ I1]. destruct (I1 E) as (_ & _ & Hpos & Ha).
      rewrite Ha. apply idx_le; lia.
  Qed.

  Lemma loop_replay h : (h <= length log)%nat ->
    forall cnt c, (c + cnt <= h)%nat ->
    ALk (revision (Sref h)) (Sref h) (seq c cnt) = (Sref h, map (my_exp h) (seq c cnt)).
  Proof.
    intros Hh. induction cnt as [|cnt IH]; intros c Hc.
    - reflexivity.
    - cbn [seq]. rewrite AL_cons. rewrite replay_entry by lia. cbn [fst snd].
      rewrite IH by lia. reflexivity.
  Qed.

  Lemma fresh_entry h j N0 :
    (h <= j)%nat -> (j < length log)%nat ->
    sim N0 (Sref j) -> (revision N0 = 0 -> N0 = empty) ->
    let p := AEk (revision (Sref h)) N0 j in
    snd p = Rref j /\ sim (fst p) (Sref (S j)) /\ (revision (fst p) = 0 -> fst p = empty).
  Proof.
    intros Hhj Hj Hsim Hz. cbv zeta.
    assert (Hmut : AEk (revision (Sref h)) N0 j = AEmk N0 j).
    { unfold AEk, AEmk. apply AE_is_mut.
      destruct (N.eq_dec (revision (Sref h)) 0) as [E|E]; [left; exact E|right].
      assert (Ej : revision (Sref j) <> 0) by (apply (Sref_rev_mono_le h j); [lia|lia|exact E]).
      destruct (Jinv_all j ltac:(lia)) as [_ I1]. destruct (I1 Ej) as (_ & _ & Hpos & Ha).
      rewrite (sim_app _ _ Hsim), Ha. apply increasing; lia. }
    rewrite Hmut.
    destruct (AE_mut_sim N0 (Sref j) (fst (fst (ent j))) (snd (fst (ent j))) (snd (ent j)) Hsim) as [Hs Hr].
    fold (AEmk N0 j) in Hs, Hr. fold (AEmk (Sref j) j) in Hs, Hr.
    split; [exact Hr|].
    (* the single step from S_j *)
    assert (Hcase : (revision (fst (AEmk (Sref j) j)) = 0 /\ Sref j = empty /\ fst (AEmk (Sref j) j) = empty)
                    \/ revision (fst (AEmk (Sref j) j)) <> 0).
    { destruct (N.eq_dec (revision (fst (AEmk (Sref j) j))) 0) as [E|E]; [left|right; exact E].
      destruct (N.eq_dec (revision (Sref j)) 0) as [Ej|Ej].
      - destruct (Jinv_all j ltac:(lia)) as [I0 _]. pose proof (I0 Ej) as He.
        split; [exact E|]. split; [exact He|].
        unfold AEmk in *. rewrite He in *.
        pose proof (AE_mut_empty (fst (fst (ent j))) (snd (fst (ent j))) (snd (ent j))) as H.
        cbv zeta in H. destruct H as [H0 _]. destruct (H0 E) as [H _]. exact H.
      - exfalso. destruct (Jinv_all j ltac:(lia)) as [_ I1]. destruct (I1 Ej) as (Hg & _ & Hpos & Ha).
        assert (Hlt : applied (Sref j) < fst (fst (ent j))) by (rewrite Ha; apply increasing; lia).
        pose proof (AE_mut_good (Sref j) _ (snd (fst (ent j))) (snd (ent j)) Hg Hlt) as H.
        cbv zeta in H. fold (AEmk (Sref j) j) in H. destruct H as (Hg2 & _).
        exact (Good_rev _ Hg2 E). }
    destruct Hcase as [(E & He & Hn)|E].
    - split.
      + cbn [Sref]. unfold save_form. rewrite (proj2 (N.eqb_eq _ _) E).
        rewrite He. rewrite <- Hn. exact Hs.
      + intros _.
        assert (HN0 : N0 = empty).
        { apply Hz. rewrite (sim_rev _ _ Hsim), He. exact rev_empty. }
        rewrite HN0. rewrite He in Hn. exact Hn.
    - split.
      + cbn [Sref]. unfold save_form. rewrite (proj2 (N.eqb_neq _ _) E).
        eapply sim_trans; [exact Hs|]. apply sim_sym. apply sim_set_ck.
      + intro E0. exfalso. rewrite (sim_rev _ _ Hs) in E0. contradiction.
  Qed.

  Lemma loop_fresh h : forall cnt j N0,
    (h <= j)%nat -> (j + cnt <= length log)%nat ->
    sim N0 (Sref j) -> (revision N0 = 0 -> N0 = empty) ->
    let p := ALk (revision (Sref h)) N0 (seq j cnt) in
    snd p = map Rref (seq j cnt) /\ sim (fst p) (Sref (j + cnt)) /\ (revision (fst p) = 0 -> fst p = empty).
  Proof.
    induction cnt as [|cnt IH]; intros j N0 Hhj Hj Hsim Hz; cbv zeta.
    - cbn. rewrite Nat.add_0_r. auto.
    - cbn [seq]. rewrite AL_cons. cbn [fst snd map].
      destruct (fresh_entry h j N0 Hhj ltac:(lia) Hsim Hz) as (Hr & Hs & Hz').
      specialize (IH (S j) (fst (AEk (revision (Sref h)) N0 j)) ltac:(lia) ltac:(lia) Hs Hz').
      cbv zeta in IH. destruct IH as (IHr & IHs & IHz).
      rewrite Hr, IHr. replace (j + S cnt)%nat with (S j + cnt)%nat by lia. auto.
  Qed.

  (* any batch of consecutive entries applied to a machine holding S_h, h at or beyond the cursor *)
  Lemma batch_loop h c cnt :
    (c <= h)%nat -> (h <= length log)%nat -> (c + cnt <= length log)%nat ->
    let p := ALk (revision (Sref h)) (Sref h) (seq c cnt) in
    snd p = map (my_exp h) (seq c cnt)
    /\ sim (fst p) (Sref (Nat.max h (c + cnt)))
    /\ (revision (fst p) = 0 -> fst p = empty).
  Proof.
    intros Hc Hh Hn. cbv zeta.
    destruct (le_lt_dec (c + cnt) h) as [Hle|Hgt].
    - rewrite loop_replay by assumption. cbn [fst snd].
      rewrite Nat.max_l by lia. split; [reflexivity|]. split; [apply sim_refl|].
      destruct (Jinv_all h Hh) as [I0 _]. exact I0.
    - replace (seq c cnt) with (seq c (h - c) ++ seq h (c + cnt - h)).
      2:{ replace (seq h (c + cnt - h)) with (seq (c + (h - c)) (c + cnt - h)) by (f_equal; lia).
          rewrite <- seq_app. f_equal. lia. }
      rewrite map_app, AL_app. rewrite loop_replay by (try assumption; lia). cbn [fst snd].
      destruct (Jinv_all h Hh) as [I0 _].
      destruct (loop_fresh h (c + cnt - h) h (Sref h) ltac:(lia) ltac:(lia) (sim_refl _) I0) as (Hr & Hs & Hz).
      rewrite Hr. rewrite Nat.max_r by lia. replace (h + (c + cnt - h))%nat with (c + cnt)%nat in Hs by lia.
      split; [|split; assumption].
      rewrite map_app. f_equal.
      apply map_ext_in. intros k Hk. apply in_seq in Hk. unfold my_exp.
      rewrite (proj2 (Nat.ltb_ge _ _)) by lia. reflexivity.
  Qed.

  (* ---- machines: ApplyBatch on a machine that holds S_h ---- *)

  Definition store_of (k : nat) : option St :=
    if revision (Sref k) =? 0 then None else Some (Sref k).

  Lemma skipn_nth (l : list (N * N * C)) : forall c, (c < length l)%nat -> skipn c l = nth c l dflt :: skipn (S c) l.
  Proof.
    induction l as [|x l IH]; intros c Hc; [cbn in Hc; lia|].
    destruct c as [|c]; [reflexivity|]. cbn [skipn nth]. cbn [length] in Hc. rewrite IH by lia. reflexivity.
  Qed.

  Lemma firstn_skipn_seq : forall cnt c, (c + cnt <= length log)%nat ->
    firstn cnt (skipn c log) = map ent (seq c cnt).
  Proof.
    induction cnt as [|cnt IH]; intros c Hc; [reflexivity|].
    rewrite skipn_nth by lia. cbn [firstn seq map]. fold (ent c). rewrite IH by lia. reflexivity.
  Qed.

  Lemma take_seq c cnt : (N.to_nat c + N.to_nat cnt <= length log)%nat ->
    take_entries log c cnt = map ent (seq (N.to_nat c) (N.to_nat cnt)).
  Proof. intro H. unfold take_entries. apply firstn_skipn_seq. exact H. Qed.

  Lemma Sref_zero h : (h <= length log)%nat -> revision (Sref h) = 0 -> Sref h = empty.
  Proof. intros Hh E. destruct (Jinv_all h Hh) as [I0 _]. exact (I0 E). Qed.

  Lemma AB_outcome m mode h c cnt :
    m_state m = Sref h -> (c <= h)%nat -> (h <= length log)%nat -> (c + cnt <= length log)%nat ->
    let T := Sref (Nat.max h (c + cnt)) in
    let res := map (my_exp h) (seq c cnt) in
    AB m mode (map ent (seq c cnt)) =
      if revision T =? 0 then (m, BO res false (Some T) None)
      else if mode =? 0 then (Mk T (Some T) false, BO res false (Some T) (Some T))
      else if mode =? 1 then (Mk (Sref h) (m_store m) true, BO res true None (Some T))
      else (Mk (Sref h) (Some T) true, BO res true None (Some T)).
  Proof.
    intros Hm Hc Hh Hn. cbv zeta. unfold ApplyBatch. rewrite Hm.
    destruct (batch_loop h c cnt Hc Hh Hn) as (Hr & Hs & Hz). cbv zeta in Hr, Hs, Hz.
    destruct (AL (revision (Sref h)) (Sref h) (map ent (seq c cnt))) as [N' rs]. cbn [fst snd] in *.
    subst rs. rewrite (sim_rev _ _ Hs).
    set (T := Sref (Nat.max h (c + cnt)%nat)) in *.
    assert (HT : (Nat.max h (c + cnt) <= length log)%nat) by lia.
    destruct (N.eq_dec (revision T) 0) as [E|E].
    - rewrite (proj2 (N.eqb_eq _ _) E).
      assert (N' = T).
      { assert (HTe : T = empty) by (apply Sref_zero; assumption).
        rewrite HTe. apply Hz. rewrite (sim_rev _ _ Hs). exact E. }
      subst N'. reflexivity.
    - rewrite (proj2 (N.eqb_neq _ _) E).
      destruct (Jinv_all _ HT) as [_ I1]. destruct (I1 E) as (_ & Hck & _).
      rewrite (sim_saved _ _ Hs Hck). reflexivity.
  Qed.

  (* ---- the reference run as observed ---- *)

  Notation RUN := (run_cmds revision applied set_app set_ck mutate ck empty log).
  Notation BSTEP := (batch_step revision applied set_app set_ck mutate ck log).

  Definition refM (k : nat) : Machine St := Mk (Sref k) (store_of k) false.
  Definition refO (k : nat) : Step St :=
    ST 0 1 0 [Rref k] false (Some (Sref (S k))) (store_of (S k)) (Sref (S k)) (store_of (S k)) false.

  Lemma my_exp_self k : my_exp k k = Rref k.
  Proof. unfold my_exp. rewrite Nat.ltb_irrefl. reflexivity. Qed.

  Lemma store_of_zero k : revision (Sref k) = 0 -> store_of k = None.
  Proof. intro E. unfold store_of. rewrite (proj2 (N.eqb_eq _ _) E). reflexivity. Qed.
  Lemma store_of_nz k : revision (Sref k) <> 0 -> store_of k = Some (Sref k).
  Proof. intro E. unfold store_of. rewrite (proj2 (N.eqb_neq _ _) E). reflexivity. Qed.

  Lemma BSTEP_ref k : (k < length log)%nat -> BSTEP (refM k) (N.of_nat k) 1 0 = (refM (S k), refO k).
  Proof.
    intro Hk. unfold batch_step. rewrite take_seq by lia.
    rewrite Nat2N.id. change (N.to_nat 1) with 1%nat.
    rewrite (AB_outcome (refM k) 0 k k 1 eq_refl ltac:(lia) ltac:(lia) ltac:(lia)).
    replace (Nat.max k (k + 1)%nat) with (S k) by lia. cbn [seq map]. rewrite my_exp_self.
    destruct (N.eq_dec (revision (Sref (S k))) 0) as [E|E].
    - rewrite (proj2 (N.eqb_eq _ _) E).
      assert (Ek : Sref k = empty) by (apply (Sref_zero_empty k (S k)); [lia|lia|exact E]).
      assert (Ek1 : Sref (S k) = empty) by (apply Sref_zero; [lia|exact E]).
      assert (R0 : revision (Sref k) = 0) by (rewrite Ek; exact rev_empty).
      unfold refM, refO. rewrite (store_of_zero _ E), (store_of_zero _ R0). cbn [m_state m_store m_degraded].
      rewrite Ek, Ek1. reflexivity.
    - rewrite (proj2 (N.eqb_neq _ _) E). cbn [N.eqb].
      unfold refM, refO. rewrite (store_of_nz _ E). reflexivity.
  Qed.

  Lemma run_singles : forall j k, (k + j <= length log)%nat ->
    RUN (refM k) (N.of_nat k) (repeat (CBatch 1 0) j) = map refO (seq k j).
  Proof.
    induction j as [|j IH]; intros k Hk; [reflexivity|].
    cbn [repeat run_cmds seq map]. rewrite BSTEP_ref by lia.
    cbn [st_err refO]. replace (N.of_nat k + 1) with (N.of_nat (S k)) by lia.
    rewrite IH by lia. reflexivity.
  Qed.

  Definition ref_obs : list (Step St) := map refO (seq 0 (length log)).
  Definition ref_states : list St := empty :: map st_pub ref_obs.
  Definition ref_results : list Result := map (fun s => hd no_outcome (st_results s)) ref_obs.

  Lemma Sk_ref k : (k <= length log)%nat -> Sk empty ref_states (N.of_nat k) = Sref k.
  Proof.
    intro Hk. unfold Sk, ref_states, ref_obs. rewrite Nat2N.id.
    destruct k as [|k]; [reflexivity|]. cbn [nth]. rewrite map_map.
    rewrite (nth_indep _ empty (st_pub (refO 0))) by (rewrite map_length, seq_length; lia).
    rewrite (map_nth (fun x => st_pub (refO x)) (seq 0 (length log)) 0%nat k).
    rewrite seq_nth by lia. reflexivity.
  Qed.

  Lemma Rk_ref k : (k < length log)%nat -> Rk ref_results (N.of_nat k) = Rref k.
  Proof.
    intro Hk. unfold Rk, ref_results, ref_obs. rewrite Nat2N.id. rewrite map_map.
    rewrite (nth_indep _ no_outcome (hd no_outcome (st_results (refO 0)))) by (rewrite map_length, seq_length; lia).
    rewrite (map_nth (fun x => hd no_outcome (st_results (refO x))) (seq 0 (length log)) 0%nat k).
    rewrite seq_nth by lia. reflexivity.
  Qed.

  (* ---- the reference run satisfies the per-entry clauses ---- *)

  Notation CHECK_REF_STEP := (check_ref_step revision applied valid ckok eqS body_eq logical_eq).
  Notation CHECK_REF := (check_ref revision applied valid ckok eqS body_eq logical_eq).

  Lemma ref_step_facts k : (k < length log)%nat ->
    let pre := Sref k in let post := Sref (S k) in let r := Rref k in
    (revision post = 0 /\ pre = empty /\ post = empty /\ r_rev r = 0
     /\ (r_class r = cNoop \/ r_class r = cRejected)
     /\ r_applied r = (if r_class r =? cRejected then idx k else 0))
    \/ (revision post <> 0 /\ Good post /\ ckok post = true /\ r_rev r = revision post
        /\ r_applied r = idx k /\ applied post = idx k /\ applied pre <= idx k
        /\ (((r_class r = cNoop \/ r_class r = cRejected) /\ body_eq post pre = true)
            \/ (r_class r = cChanged /\ revision post = revision pre + 1)
            \/ (r_class r = cUpdated /\ revision post = revision pre /\ logical_eq post pre = true))).
  Proof.
    intro Hk. cbv zeta.
    destruct (N.eq_dec (revision (Sref k)) 0) as [Ek|Ek].
    - assert (He : Sref k = empty) by (apply Sref_zero; [lia|exact Ek]).
      pose proof (AE_mut_empty (fst (fst (ent k))) (snd (fst (ent k))) (snd (ent k))) as H.
      cbv zeta in H. destruct H as [H0 H1].
      unfold Rref. cbn [Sref]. unfold save_form, AEmk. rewrite He.
      set (p := AE_mut empty (fst (fst (ent k))) (snd (fst (ent k))) (snd (ent k))) in *.
      destruct (N.eq_dec (revision (fst p)) 0) as [E|E].
      + left. destruct (H0 E) as (Hn & Hrr & Hc & Hra).
        rewrite (proj2 (N.eqb_eq _ _) E). rewrite rev_empty. repeat split; auto.
      + right. destruct (H1 E) as (Hc & Hr1 & Ha & Hg & Hrr & Hra).
        rewrite (proj2 (N.eqb_neq _ _) E). rewrite rev_set_ck, app_set_ck, rev_empty, app_empty.
        split; [exact E|]. split; [apply Good_set_ck; exact Hg|]. split; [apply ckok_saved|].
        split; [congruence|]. split; [exact Hra|]. split; [exact Ha|]. split; [lia|].
        right; left. split; [exact Hc|]. rewrite Hr1. reflexivity.
    - right.
      destruct (Jinv_all k ltac:(lia)) as [_ I1]. destruct (I1 Ek) as (Hg & _ & Hpos & Ha).
      assert (Hlt : applied (Sref k) < fst (fst (ent k))) by (rewrite Ha; apply increasing; lia).
      pose proof (AE_mut_good (Sref k) _ (snd (fst (ent k))) (snd (ent k)) Hg Hlt) as H.
      cbv zeta in H. fold (AEmk (Sref k) k) in H. destruct H as (Hg2 & Ha2 & Hrr & Hra & Hcl).
      pose proof (Good_rev _ Hg2) as Hr2.
      unfold Rref. cbn [Sref]. unfold save_form. rewrite (proj2 (N.eqb_neq _ _) Hr2).
      rewrite rev_set_ck, app_set_ck.
      split; [exact Hr2|]. split; [apply Good_set_ck; exact Hg2|]. split; [apply ckok_saved|].
      split; [exact Hrr|]. split; [exact Hra|]. split; [exact Ha2|]. split; [unfold idx; lia|].
      destruct Hcl as [[Hc He]|[[Hc Hrv]|(Hc & Hrv & Hl)]].
      + left. split; [exact Hc|]. rewrite body_eq_set_ck, He, body_eq_set_app. apply body_eq_refl.
      + right; left. split; assumption.
      + right; right. split; [exact Hc|]. split; [exact Hrv|]. rewrite logical_eq_set_ck. exact Hl.
  Qed.

  Lemma check_ref_step_ok k : (k < length log)%nat -> CHECK_REF_STEP (Sref k) (idx k) (refO k) = true.
  Proof.
    intro Hk. unfold check_ref_step, refO.
    cbn [st_kind st_n st_mode st_err st_degraded st_results st_pub st_final st_store st_saved N.eqb negb andb].
    unfold oo_eq. rewrite eqS_refl. cbn [andb].
    destruct (ref_step_facts k Hk) as [(E & Hpre & Hpost & Hrr & Hc & Hra)|(E & Hg & Hck & Hrr & Hra & Hap & Hle & Hcl)].
    - rewrite (store_of_zero _ E). rewrite Hrr, Hra, Hpre, Hpost, rev_empty, app_empty.
      cbn [N.eqb oo_none andb]. rewrite eqS_refl. cbn [andb].
      destruct Hc as [Hc|Hc]; rewrite Hc; cbn; rewrite ?N.eqb_refl; cbn; apply body_eq_refl.
    - rewrite (store_of_nz _ E). rewrite Hrr, Hra, Hap, N.eqb_refl, (proj2 (N.eqb_neq _ _) E).
      rewrite (Good_valid _ Hg), Hck, !N.eqb_refl, eqS_refl. rewrite N.max_r by exact Hle. rewrite N.eqb_refl.
      cbn [andb].
      destruct Hcl as [[Hc He]|[[Hc Hrv]|(Hc & Hrv & Hl)]].
      + rewrite He. destruct Hc as [Hc|Hc]; rewrite Hc; reflexivity.
      + rewrite Hc, Hrv. cbn. apply N.eqb_refl.
      + rewrite Hc, Hrv, Hl. cbn. rewrite N.eqb_refl. reflexivity.
  Qed.

  Lemma check_ref_ok : forall j k, (k + j <= length log)%nat ->
    CHECK_REF (Sref k) (map idx (seq k j)) (map refO (seq k j)) = true.
  Proof.
    induction j as [|j IH]; intros k Hk; [reflexivity|].
    cbn [seq map check_ref]. rewrite check_ref_step_ok by lia. cbn [andb refO st_pub]. apply IH. lia.
  Qed.

  (* ---- scenarios ---- *)

  Notation CHECK_STEP := (check_step revision applied eqS empty ref_states ref_results (lenN log)).
  Notation CHECK_STEPS := (check_steps revision applied eqS empty ref_states ref_results (lenN log)).

  Lemma Result_eqb_refl r : Result_eqb r r = true.
  Proof.
    unfold Result_eqb. rewrite !N.eqb_refl.
    assert (B : forall b, bytes_eqb b b = true) by (intro b; apply bytes_eqb_eq; reflexivity).
    rewrite B. cbn [andb].
    assert (T : forall l, TSums_eqb l l = true).
    { induction l as [|x l IHl]; [reflexivity|]. cbn. unfold TSum_eqb at 1. rewrite B, !Bool.eqb_reflx. exact IHl. }
    rewrite T. reflexivity.
  Qed.

  Lemma Results_eqb_refl l : list_eqb Result_eqb l l = true.
  Proof. induction l as [|x l IH]; [reflexivity|]. cbn. rewrite Result_eqb_refl. exact IH. Qed.

  Lemma expected_results_eq h : (h <= length log)%nat -> forall cnt c, (c + cnt <= length log)%nat ->
    expected_results revision applied empty ref_states ref_results (N.of_nat h) (N.of_nat c) cnt
    = map (my_exp h) (seq c cnt).
  Proof.
    intro Hh. induction cnt as [|cnt IH]; intros c Hc; [reflexivity|].
    cbn [expected_results seq map]. replace (N.of_nat c + 1) with (N.of_nat (S c)) by lia.
    rewrite IH by lia. f_equal.
    unfold expected_result, my_exp. rewrite Sk_ref by lia. rewrite Rk_ref by lia.
    replace (N.of_nat c <? N.of_nat h) with (c <? h)%nat; [reflexivity|].
    destruct (Nat.ltb_spec c h); symmetry; [apply N.ltb_lt|apply N.ltb_ge]; lia.
  Qed.

  Lemma expected_store_ok k : (k <= length log)%nat ->
    expected_store revision eqS empty ref_states (N.of_nat k) (store_of k) = true.
  Proof.
    intro Hk. unfold expected_store. rewrite Sk_ref by lia. unfold store_of.
    destruct (revision (Sref k) =? 0); [reflexivity|]. cbn. apply eqS_refl.
  Qed.

  (* a scenario is well formed when batches stay inside the log, a failed Save is followed by a
     restart, and a restart replays from a position not beyond the acknowledged one *)
  Fixpoint wf_cmds (c h hs : nat) (dg : bool) (cmds : list cmdstep) : Prop :=
    match cmds with
    | [] => True
    | CBatch cnt mode :: r =>
      dg = false /\ (c + N.to_nat cnt <= length log)%nat
      /\ let h' := Nat.max h (c + N.to_nat cnt) in
         if negb (mode =? 0) && negb (revision (Sref h') =? 0)
         then wf_cmds c h (if mode =? 1 then hs else h') true r
         else wf_cmds (c + N.to_nat cnt) h' h' false r
    | CRestart c' :: r => (N.to_nat c' <= hs)%nat /\ wf_cmds (N.to_nat c') hs hs false r
    end.

  Ltac simp_obs :=
    cbn [tr_c tr_h tr_hs st_kind st_n st_mode st_results st_err st_degraded st_pub st_final st_saved st_store
         bo_results bo_err bo_final bo_saved m_state m_store m_degraded N.eqb Pos.eqb fst snd].

  Lemma scen_ok : forall cmds m c h hs dg,
    m_state m = Sref h -> m_store m = store_of hs -> m_degraded m = dg ->
    (c <= h)%nat -> (h <= length log)%nat -> (hs <= length log)%nat -> (dg = false -> hs = h) ->
    wf_cmds c h hs dg cmds ->
    CHECK_STEPS (TRK (N.of_nat c) (N.of_nat h) (N.of_nat hs)) (RUN m (N.of_nat c) cmds) = true.
  Proof.
    induction cmds as [|cmd cmds IH]; intros m c h hs dg Hm Hst Hdg Hc Hh Hhs Hnd Hwf; [reflexivity|].
    destruct cmd as [cnt mode|c'].
    - (* a batch *)
      cbn [wf_cmds] in Hwf. destruct Hwf as (Hdg0 & Hlen & Hwf). cbv zeta in Hwf.
      specialize (Hnd Hdg0). subst hs.
      cbn [run_cmds]. unfold batch_step. rewrite take_seq by (rewrite Nat2N.id; exact Hlen).
      rewrite Nat2N.id.
      rewrite (AB_outcome m mode h c (N.to_nat cnt) Hm Hc Hh Hlen).
      set (h' := Nat.max h (c + N.to_nat cnt)%nat) in *.
      assert (Hh' : (h' <= length log)%nat) by lia.
      assert (EN : N.max (N.of_nat h) (N.of_nat c + cnt) = N.of_nat h') by lia.
      assert (Hexp := expected_results_eq h Hh (N.to_nat cnt) c Hlen).
      assert (Hlenb : (N.of_nat c + cnt <=? lenN log) = true) by (unfold lenN; lia).
      destruct (N.eq_dec (revision (Sref h')) 0) as [E|E].
      + (* nothing to save *)
        rewrite (proj2 (N.eqb_eq _ _) E) in *. rewrite andb_false_r in Hwf.
        cbn [check_steps st_err]. unfold check_step.
        simp_obs.
        rewrite EN, Hlenb, Sk_ref by lia. rewrite (proj2 (N.eqb_eq _ _) E). rewrite andb_false_r.
        rewrite Hexp, Results_eqb_refl. cbn [negb].
        rewrite Hdg, Hdg0. cbn [negb andb].
        assert (E0 : revision (Sref h) = 0).
        { destruct (N.eq_dec (revision (Sref h)) 0) as [X|X]; [exact X|].
          exfalso. apply (Sref_rev_mono_le h h') in X; [contradiction|lia|lia]. }
        assert (HSeq : Sref h = Sref h') by (rewrite (Sref_zero h Hh E0), (Sref_zero h' Hh' E); reflexivity).
        assert (Hsto : store_of h = store_of h') by (rewrite (store_of_zero _ E0), (store_of_zero _ E); reflexivity).
        rewrite Hm, HSeq, eqS_refl.
        unfold oo_eq. rewrite eqS_refl. cbn [oo_none andb].
        rewrite Hst, Hsto. rewrite expected_store_ok by lia.
        replace (N.of_nat c + cnt) with (N.of_nat (c + N.to_nat cnt)) by lia.
        apply (IH m (c + N.to_nat cnt)%nat h' h' false); try assumption; try lia; try reflexivity.
        all: try (rewrite Hm; exact HSeq); try (rewrite Hst; exact Hsto); try (rewrite Hdg; exact Hdg0).
      + rewrite (proj2 (N.eqb_neq _ _) E) in *. rewrite andb_true_r in Hwf.
        destruct (N.eq_dec mode 0) as [M0|M0].
        * (* saved *)
          subst mode. cbn [N.eqb negb] in Hwf.
          cbn [N.eqb check_steps st_err]. unfold check_step.
          simp_obs.
          rewrite EN, Hlenb, Sk_ref by lia. rewrite (proj2 (N.eqb_neq _ _) E).
          rewrite Hexp, Results_eqb_refl. cbn [negb andb].
          unfold oo_eq. rewrite eqS_refl. cbn [andb].
          rewrite <- (store_of_nz _ E). rewrite expected_store_ok by lia.
          replace (N.of_nat c + cnt) with (N.of_nat (c + N.to_nat cnt)) by lia.
          apply (IH _ (c + N.to_nat cnt)%nat h' h' false); try assumption; try lia; try reflexivity.
          all: try (cbn [m_store]; symmetry; apply store_of_nz; exact E).
        * (* the save fails *)
          rewrite (proj2 (N.eqb_neq _ _) M0) in *. cbn [negb] in Hwf.
          destruct (N.eq_dec mode 1) as [M1|M1].
          -- subst mode. cbn [N.eqb Pos.eqb] in *.
             cbn [check_steps st_err]. unfold check_step.
             simp_obs.
             rewrite EN, Hlenb, !Sk_ref by lia. rewrite (proj2 (N.eqb_neq _ _) E).
             rewrite Hexp, Results_eqb_refl. cbn [negb andb oo_none].
             unfold oo_eq. rewrite !eqS_refl. cbn [andb].
             rewrite Hst. rewrite expected_store_ok by lia.
             apply (IH _ c h h true); try assumption; try lia; try reflexivity.
             all: try (intro X; discriminate X).
          -- rewrite (proj2 (N.eqb_neq _ _) M1) in *.
             cbn [check_steps st_err]. unfold check_step.
             simp_obs.
             rewrite EN, Hlenb, !Sk_ref by lia. rewrite (proj2 (N.eqb_neq _ _) E).
             rewrite (proj2 (N.eqb_neq _ _) M0), (proj2 (N.eqb_neq _ _) M1).
             rewrite Hexp, Results_eqb_refl. cbn [negb andb oo_none].
             unfold oo_eq. rewrite !eqS_refl. cbn [andb].
             rewrite <- (store_of_nz _ E). rewrite expected_store_ok by lia.
             apply (IH _ c h h' true); try assumption; try lia; try reflexivity.
             all: try (cbn [m_store]; symmetry; apply store_of_nz; exact E); try (intro X; discriminate X).
    - (* a restart *)
      cbn [wf_cmds] in Hwf. destruct Hwf as (Hc' & Hwf).
      cbn [run_cmds]. unfold restart_step, restart.
      cbn [check_steps]. unfold check_step.
      cbn [tr_c tr_h tr_hs st_kind st_n st_mode st_results st_err st_degraded st_pub st_final st_saved st_store m_state m_store m_degraded N.eqb Pos.eqb is_empty negb andb].
      assert (Hpub : match m_store m with Some s => s | None => empty end = Sref hs).
      { rewrite Hst. unfold store_of. destruct (N.eq_dec (revision (Sref hs)) 0) as [E|E].
        - rewrite (proj2 (N.eqb_eq _ _) E). symmetry. apply Sref_zero; assumption.
        - rewrite (proj2 (N.eqb_neq _ _) E). reflexivity. }
      rewrite Hpub. rewrite Sk_ref by lia. rewrite eqS_refl. rewrite Hst, expected_store_ok by lia.
      assert (Hle : (c' <=? N.of_nat hs) = true) by lia. rewrite Hle. cbn [andb].
      replace c' with (N.of_nat (N.to_nat c')) at 1 2 by lia.
      apply (IH _ (N.to_nat c') hs hs false); try assumption; try lia; try reflexivity.
  Qed.

  (* ---- the monitor on the frame's own observations ---- *)

  Definition scen_wf (cmds : list cmdstep) : Prop := wf_cmds 0 0 0 false cmds.

  Theorem frame_monitor (scens : list (list cmdstep)) :
    Forall scen_wf scens ->
    monitor_gen revision applied valid ckok eqS body_eq logical_eq empty
                (map (fun e => fst (fst e)) log)
                (RUN (fresh empty) 0 (repeat (CBatch 1 0) (length log)))
                (map (RUN (fresh empty) 0) scens) = true.
  Proof.
    intro Hwf. unfold monitor_gen.
    assert (Hfresh : fresh empty = refM 0).
    { unfold refM, store_of, fresh. cbn [Sref]. rewrite rev_empty. reflexivity. }
    rewrite Hfresh. change 0 with (N.of_nat 0).
    rewrite run_singles by lia. fold ref_obs. fold ref_states. fold ref_results.
    apply andb_true_iff. split.
    - replace (map (fun e => fst (fst e)) log) with (map idx (seq 0 (length log))).
      + apply (check_ref_ok (length log) 0). lia.
      + unfold idx, ent. clear. induction log as [|x l IH] using rev_ind; [reflexivity|].
        rewrite app_length, Nat.add_1_r, seq_S, !map_app. cbn [map Nat.add].
        rewrite app_nth2, Nat.sub_diag by lia. cbn [nth]. f_equal.
        rewrite <- IH. apply map_ext_in. intros k Hk. apply in_seq in Hk. rewrite app_nth1 by lia. reflexivity.
    - apply forallb_forall. intros ss Hin. apply in_map_iff in Hin. destruct Hin as (cmds & <- & Hin).
      rewrite Forall_forall in Hwf. specialize (Hwf cmds Hin). unfold scen_wf in Hwf.
      unfold check_scen.
      replace (lenN (map (fun e => fst (fst e)) log)) with (lenN log) by (unfold lenN; rewrite map_length; reflexivity).
      apply (scen_ok cmds (refM 0) 0 0 0 false); try reflexivity; try lia; assumption.
  Qed.

  (* ---- the same facts in plain terms ---- *)

  Notation PARTS := (apply_parts revision applied set_app set_ck mutate ck).

  Lemma refM_zero_eq j k : (j <= k)%nat -> (k <= length log)%nat -> revision (Sref k) = 0 -> refM j = refM k.
  Proof.
    intros Hjk Hk E. unfold refM.
    assert (Ej : Sref j = empty) by (apply (Sref_zero_empty j k); assumption).
    assert (Ek : Sref k = empty) by (apply Sref_zero; assumption).
    rewrite (store_of_zero k E). rewrite store_of_zero by (rewrite Ej; exact rev_empty).
    rewrite Ej, Ek. reflexivity.
  Qed.

  Lemma skipn_add {A} (l : list A) : forall a b, skipn (a + b) l = skipn b (skipn a l).
  Proof.
    induction l as [|x l IH]; intros a b.
    - rewrite !skipn_nil. reflexivity.
    - destruct a as [|a]; [reflexivity|]. cbn [Nat.add skipn]. apply IH.
  Qed.

  Lemma parts_from : forall parts c, (c <= length log)%nat -> concat parts = skipn c log ->
    PARTS (refM c) parts = (refM (length log), map Rref (seq c (length log - c))).
  Proof.
    induction parts as [|p parts IH]; intros c Hc Hcat.
    - cbn [concat] in Hcat. assert (Hl : length (skipn c log) = 0%nat) by (rewrite <- Hcat; reflexivity).
      rewrite skipn_length in Hl. assert (c = length log) by lia. subst c.
      rewrite Nat.sub_diag. reflexivity.
    - cbn [concat] in Hcat.
      assert (Hlen : (c + length p <= length log)%nat).
      { assert (Hl : length (skipn c log) = (length p + length (concat parts))%nat) by (rewrite <- Hcat; apply app_length).
        rewrite skipn_length in Hl. lia. }
      assert (Hp : p = map ent (seq c (length p))).
      { rewrite <- firstn_skipn_seq by exact Hlen. rewrite <- Hcat. rewrite firstn_app, Nat.sub_diag, firstn_all.
        cbn [firstn]. rewrite app_nil_r. reflexivity. }
      assert (Hrest : concat parts = skipn (c + length p) log).
      { rewrite skipn_add, <- Hcat. rewrite skipn_app, Nat.sub_diag, skipn_all. reflexivity. }
      cbn [apply_parts]. rewrite Hp at 1.
      rewrite (AB_outcome (refM c) 0 c c (length p) eq_refl ltac:(lia) Hc Hlen).
      replace (Nat.max c (c + length p)%nat) with (c + length p)%nat by lia.
      assert (Hres : map (my_exp c) (seq c (length p)) = map Rref (seq c (length p))).
      { apply map_ext_in. intros k Hk. apply in_seq in Hk. unfold my_exp.
        rewrite (proj2 (Nat.ltb_ge _ _)) by lia. reflexivity. }
      rewrite Hres.
      assert (Hseq : map Rref (seq c (length log - c)) =
                     map Rref (seq c (length p)) ++ map Rref (seq (c + length p) (length log - (c + length p)))).
      { rewrite <- map_app, <- seq_app. f_equal. f_equal. lia. }
      destruct (N.eq_dec (revision (Sref (c + length p))) 0) as [E|E].
      + rewrite (proj2 (N.eqb_eq _ _) E).
        rewrite (refM_zero_eq c (c + length p) ltac:(lia) Hlen E).
        rewrite (IH (c + length p)%nat Hlen Hrest). cbn [bo_results]. rewrite Hseq. reflexivity.
      + rewrite (proj2 (N.eqb_neq _ _) E). cbn [N.eqb].
        replace (Mk (Sref (c + length p)) (Some (Sref (c + length p))) false) with (refM (c + length p))
          by (unfold refM; rewrite (store_of_nz _ E); reflexivity).
        rewrite (IH (c + length p)%nat Hlen Hrest). cbn [bo_results]. rewrite Hseq. reflexivity.
  Qed.

  (* any partition of the log into batches gives the machine (published state, persisted state)
     and the per-entry results of applying the entries one at a time *)
  Theorem partition_invariant parts :
    concat parts = log ->
    PARTS (fresh empty) parts = PARTS (fresh empty) (map (fun e => [e]) log).
  Proof.
    intro Hcat.
    assert (Hfresh : fresh empty = refM 0).
    { unfold refM, store_of, fresh. cbn [Sref]. rewrite rev_empty. reflexivity. }
    rewrite Hfresh.
    rewrite (parts_from parts 0 ltac:(lia) Hcat).
    rewrite (parts_from (map (fun e => [e]) log) 0 ltac:(lia)); [reflexivity|].
    cbn [skipn]. clear. induction log as [|x l IH]; [reflexivity|]. cbn [map concat app]. rewrite IH. reflexivity.
  Qed.

  (* after a restart from the persisted state S_h (revision <> 0), re-applying entries that
     were already applied returns already_applied no-ops and changes neither the published
     nor the persisted state *)
  Theorem replay_noop h c cnt :
    (h <= length log)%nat -> (c + cnt <= h)%nat -> revision (Sref h) <> 0 ->
    AB (restart empty (refM h)) 0 (map ent (seq c cnt))
    = (refM h, BO (repeat (already_applied revision applied (Sref h)) cnt) false (Some (Sref h)) (Some (Sref h))).
  Proof.
    intros Hh Hc E.
    assert (Hr : restart empty (refM h) = refM h).
    { unfold restart, refM. cbn [m_store m_state]. rewrite (store_of_nz _ E). reflexivity. }
    rewrite Hr.
    rewrite (AB_outcome (refM h) 0 h c cnt eq_refl ltac:(lia) Hh ltac:(lia)).
    replace (Nat.max h (c + cnt)%nat) with h by lia.
    rewrite (proj2 (N.eqb_neq _ _) E). cbn [N.eqb].
    assert (Hres : map (my_exp h) (seq c cnt) = repeat (already_applied revision applied (Sref h)) cnt).
    { clear - Hc E. revert c Hc. induction cnt as [|cnt IH]; intros c Hc; [reflexivity|].
      cbn [seq map repeat]. rewrite IH by lia. f_equal. unfold my_exp, already_applied.
      rewrite (proj2 (Nat.ltb_lt _ _)) by lia. rewrite (proj2 (N.eqb_neq _ _) E). reflexivity. }
    rewrite Hres. unfold refM. rewrite (store_of_nz _ E). reflexivity.
  Qed.

  (* before init a restart finds nothing persisted and re-applying the same entries gives the
     same results and again persists nothing *)
  Theorem replay_preinit h c cnt :
    (h <= length log)%nat -> (c + cnt <= h)%nat -> revision (Sref h) = 0 ->
    AB (restart empty (refM h)) 0 (map ent (seq c cnt))
    = (refM h, BO (map Rref (seq c cnt)) false (Some empty) None).
  Proof.
    intros Hh Hc E.
    assert (Hr : restart empty (refM h) = refM h).
    { unfold restart, refM. cbn [m_store m_state]. rewrite (store_of_zero _ E).
      rewrite (Sref_zero h Hh E). reflexivity. }
    rewrite Hr.
    rewrite (AB_outcome (refM h) 0 h c cnt eq_refl ltac:(lia) Hh ltac:(lia)).
    replace (Nat.max h (c + cnt)%nat) with h by lia.
    rewrite (proj2 (N.eqb_eq _ _) E). rewrite (Sref_zero h Hh E).
    f_equal. f_equal. apply map_ext_in. intros k Hk. apply in_seq in Hk. unfold my_exp.
    rewrite (proj2 (N.eqb_eq _ _) E). rewrite andb_false_r. reflexivity.
  Qed.
End FrameProof.
