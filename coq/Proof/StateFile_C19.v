(* Proof/StateFile_C19.v — the monitor of C19 on the model's own runs. *)
From WK Require Import Base.Base.
From WK Require Import Gen.Consts_C18 Model.CtrlFSM Model.StateFile Model.StateFile_C19 Proof.StateFile.
From Coq Require Import ZifyBool ZifyN ZifyNat.
Open Scope N_scope.

(* whatever coding of file contents is used, the content found after a crash is coded as the
   old or as the new content *)
Lemma crash_old_or_new_coded (code : option bytes -> Z) s0 t data :
  settled s0 = true -> bounded s0 -> t <> 0 ->
  forall k j junk,
    old_or_new_b (code (read s0 0)) (code (Some data))
                 (code (read (crash (run s0 (firstn k (save_ops t data))) j junk) 0)) = true.
Proof.
  intros Hs Hb Ht k j junk. destruct (old_or_new s0 t data Hs Hb Ht k j junk) as [[H|H] _];
    unfold reads_old, reads_new in H; rewrite H; unfold old_or_new_b; rewrite Z.eqb_refl; [reflexivity|apply orb_true_r].
Qed.

(* the hook cases as the model runs them satisfy the monitor and agree with themselves *)
Lemma model_hook_ok : forall v has_old, v < 4 ->
  let '(h, a, l) := model_hook v has_old in
  C19_monitor (HookCase v has_old h a v l) = 0 /\ C19_mismatch (HookCase v has_old h a v l) = false.
Proof.
  intros v has_old Hv.
  assert (Hc : v = 0 \/ v = 1 \/ v = 2 \/ v = 3) by lia.
  destruct Hc as [ -> | [ -> | [ -> | -> ] ] ]; destruct has_old; vm_compute; split; reflexivity.
Qed.

(* the kill cases: a child that reported [done] saves of a round-robin over n states and is killed
   leaves the state of the last reported save or of the next one *)
Lemma kill_ok_spec n done loaded :
  n <> 0 ->
  kill_ok n done loaded = true <->
  (loaded = Z.of_N (done mod n) \/ (done <> 0 /\ loaded = Z.of_N ((done - 1) mod n)) \/ (done = 0 /\ loaded = (-1)%Z)).
Proof.
  intro Hn. unfold kill_ok, old_or_new_b. rewrite (proj2 (N.eqb_neq _ _) Hn).
  destruct (N.eq_dec done 0) as [->|Hd].
  - cbn [N.eqb]. rewrite orb_true_iff, !Z.eqb_eq. intuition.
  - rewrite (proj2 (N.eqb_neq _ _) Hd). rewrite orb_true_iff, !Z.eqb_eq. intuition.
Qed.
