(* Proof/StateFile_C19.v — the monitor of C19 on the model's own runs. *)
From WK Require Import Base.Base.
From WK Require Import Gen.Consts_C18 Model.CtrlFSM Model.StateFile Model.StateFile_C19 Proof.StateFile.
From Coq Require Import ZifyBool ZifyN ZifyNat.
Open Scope N_scope.

(* whatever coding of file contents is used, the content found after a crash is coded as the
   old or as the new content *)
Lemma crash_old_or_new_coded (code : option bytes -> Z) s0 t data :
  settled s0 = true -> bounded s0 -> t <> 0 ->
  forall k j junk,
    old_or_new_b (code (read s0 0)) (code (Some data))
                 (code (read (crash (run s0 (firstn k (save_ops t data))) j junk) 0)) = true.
Proof.
  intros Hs Hb Ht k j junk. destruct (old_or_new s0 t data Hs Hb Ht k j junk) as [[H|H] _];
    unfold reads_old, reads_new in H; rewrite H; unfold old_or_new_b; rewrite Z.eqb_refl; [reflexivity|apply orb_true_r].
Qed.

(* the hook cases as the model runs them satisfy the monitor and agree with themselves *)
Lemma model_hook_ok : forall v has_old, v < 4 ->
  let '(h, a, l) := model_hook v has_old in
  C19_monitor (HookCase v has_old h a v l) = 0 /\ C19_mismatch (HookCase v has_old h a v l) = false.
Proof.
  intros v has_old Hv.
  assert (Hc : v = 0 \/ v = 1 \/ v = 2 \/ v = 3) by lia.
  destruct Hc as [ -> | [ -> | [ -> | -> ] ] ]; destruct has_old; vm_compute; split; reflexivity.
Qed.

(* the kill cases: a child that reported [done] saves of a round-robin over n states and is killed
   leaves the state of the last reported save or of the next one *)
Lemma kill_ok_spec n done loaded :
  n <> 0 ->
  kill_ok n done loaded = true <->
  (loaded = Z.of_N (done mod n) \/ (done <> 0 /\ loaded = Z.of_N ((done - 1) mod n)) \/ (done = 0 /\ loaded = (-1)%Z)).
Proof.
  intro Hn. unfold kill_ok, old_or_new_b. rewrite (proj2 (N.eqb_neq _ _) Hn).
  destruct (N.eq_dec done 0) as [->|Hd].
  - cbn [N.eqb]. rewrite orb_true_iff, !Z.eqb_eq. intuition.
  - rewrite (proj2 (N.eqb_neq _ _) Hd). rewrite orb_true_iff, !Z.eqb_eq. intuition.
Qed.

(* ---- histories: what stays visible when the process (not the machine) dies ---- *)

Definition vis_ok (s : fs) : Prop := forall m i, dir_get (f_dir s) m = Some i -> i < f_next s.

Section VisibleSave.
  Variable s : fs.
  Variable t : N.
  Variable data : bytes.
  Hypothesis Hvis : vis_ok s.
  Hypothesis Ht0 : t <> 0.

  Let inew := f_next s.
  Definition vtab3 : list (N * inode) :=
    ino_set (ino_set (ino_set (f_inodes s) inew (IN [] true)) inew (IN data (is_empty data))) inew (IN data true).
  Definition vs3 : fs :=
    FS (dir_set (f_dir s) t inew) (f_ddir s) (f_pending s ++ [DLink t inew]) vtab3 (inew + 1).

  Lemma vrun3 : run s [Create t; Write t data; Fsync t] = vs3.
  Proof.
    unfold run. cbn [fold_left]. unfold step at 3. unfold step at 2.
    cbn [f_dir f_ddir f_pending f_inodes f_next].
    rewrite dir_get_set, N.eqb_refl. unfold ino_set at 1. cbn [ino_get]. rewrite N.eqb_refl.
    unfold step. cbn [f_dir f_ddir f_pending f_inodes f_next].
    rewrite dir_get_set, N.eqb_refl. unfold ino_set at 1. cbn [ino_get]. rewrite N.eqb_refl.
    cbn [i_data i_synced app]. rewrite andb_true_r. reflexivity.
  Qed.

  Lemma vtab3_old i : i < inew -> ino_get vtab3 i = ino_get (f_inodes s) i.
  Proof.
    intro Hi. unfold vtab3, ino_set. cbn [ino_get]. assert (E : (inew =? i) = false) by lia. rewrite E. reflexivity.
  Qed.
  Lemma vtab3_new : ino_get vtab3 inew = Some (IN data true).
  Proof. unfold vtab3, ino_set. cbn [ino_get]. rewrite N.eqb_refl. reflexivity. Qed.

  Lemma read_keep d dd pend :
    dir_get d 0 = dir_get (f_dir s) 0 -> read (FS d dd pend vtab3 (inew + 1)) 0 = read s 0.
  Proof.
    intro Hd. unfold read. cbn [f_dir f_inodes]. rewrite Hd.
    destruct (dir_get (f_dir s) 0) as [i|] eqn:E; [|reflexivity].
    rewrite vtab3_old by (apply (Hvis 0 i E)). reflexivity.
  Qed.

  Lemma vis_ok_set d dd pend tab : (forall m i, dir_get d m = Some i -> i < inew + 1) -> vis_ok (FS d dd pend tab (inew + 1)).
  Proof. intros H m i E. cbn [f_dir f_next] in *. apply (H m i E). Qed.

  Lemma d1_bound : forall m i, dir_get (dir_set (f_dir s) t inew) m = Some i -> i < inew + 1.
  Proof.
    intros m i. rewrite dir_get_set. destruct (t =? m); intro E; [inversion E; lia|].
    assert (i < inew) by (apply (Hvis m i E)). lia.
  Qed.

  (* the process dies inside the hook *)
  Lemma vis_kill :
    read (run s (firstn 4 (save_ops t data))) 0 = read s 0 /\ vis_ok (run s (firstn 4 (save_ops t data))).
  Proof.
    change (firstn 4 (save_ops t data)) with ([Create t; Write t data; Fsync t] ++ [Hook]).
    unfold run. rewrite fold_left_app. fold (run s [Create t; Write t data; Fsync t]). rewrite vrun3.
    cbn [fold_left step]. unfold vs3. split.
    - apply read_keep. rewrite dir_get_set. assert (E : (t =? 0) = false) by lia. rewrite E. reflexivity.
    - apply vis_ok_set. exact d1_bound.
  Qed.

  (* the hook fails: the temp file is removed *)
  Lemma vis_fail :
    read (run s (save_ops_hook_fails t data)) 0 = read s 0 /\ vis_ok (run s (save_ops_hook_fails t data)).
  Proof.
    change (save_ops_hook_fails t data) with ([Create t; Write t data; Fsync t] ++ [Hook; Remove t]).
    unfold run. rewrite fold_left_app. fold (run s [Create t; Write t data; Fsync t]). rewrite vrun3.
    cbn [fold_left step vs3 f_dir f_ddir f_pending f_inodes f_next]. split.
    - apply read_keep. rewrite dir_get_del, dir_get_set. assert (E : (t =? 0) = false) by lia. rewrite E. reflexivity.
    - apply vis_ok_set. intros m i. rewrite dir_get_del. destruct (t =? m); [discriminate|apply d1_bound].
  Qed.

  (* Save returns nil *)
  Lemma vis_full :
    read (run s (save_ops t data)) 0 = Some data /\ vis_ok (run s (save_ops t data)).
  Proof.
    change (save_ops t data) with ([Create t; Write t data; Fsync t] ++ [Hook; Rename t 0; FsyncDir]).
    unfold run. rewrite fold_left_app. fold (run s [Create t; Write t data; Fsync t]). rewrite vrun3.
    cbn [fold_left step vs3 f_dir f_ddir f_pending f_inodes f_next dir_apply].
    rewrite dir_get_set, N.eqb_refl. cbn [f_dir f_ddir f_pending f_inodes f_next]. split.
    - unfold read. cbn [f_dir f_inodes]. rewrite dir_get_set. cbn [N.eqb]. rewrite vtab3_new. reflexivity.
    - apply vis_ok_set. intros m i. rewrite dir_get_set. destruct (0 =? m); intro E; [inversion E; lia|].
      rewrite dir_get_del in E. destruct (t =? m); [discriminate|apply (d1_bound m i E)].
  Qed.
End VisibleSave.

(* every history the model can run satisfies the history clause of the monitor *)
Theorem model_hist_ok : forall plan s n cur,
  vis_ok s -> code_gen (read s 0) = cur -> hist_ok cur (model_hist s n plan) = true.
Proof.
  induction plan as [|[mode idx] plan IH]; intros s n cur Hv Hc; [reflexivity|].
  cbn [model_hist hist_ok he_save he_loaded he_idx].
  assert (Ht : n + 1 <> 0) by lia.
  unfold hist_step, load_bytes.
  destruct (mode =? 0) eqn:E0.
  - destruct (vis_full s (n + 1) [idx] Hv Ht) as [Hr Hv'].
    cbn [N.eqb]. rewrite Hr. cbn [code_gen]. rewrite Z.eqb_refl. cbn [andb].
    apply IH; [exact Hv'|rewrite Hr; reflexivity].
  - destruct (mode =? 1) eqn:E1.
    + destruct (vis_kill s (n + 1) [idx] Hv Ht) as [Hr Hv'].
      cbn [N.eqb]. rewrite Hr, Hc. unfold old_or_new_b. rewrite Z.eqb_refl. cbn [orb andb].
      apply IH; [exact Hv'|rewrite Hr; exact Hc].
    + destruct (vis_fail s (n + 1) [idx] Hv Ht) as [Hr Hv'].
      cbn [N.eqb]. rewrite Hr, Hc. unfold old_or_new_b. rewrite Z.eqb_refl. cbn [orb andb].
      apply IH; [exact Hv'|rewrite Hr; exact Hc].
Qed.

Lemma model_hist_monitor plan :
  C19_monitor (HistCase (model_hist (fs_start false) 0 plan)) = 0.
Proof.
  unfold C19_monitor. rewrite (model_hist_ok plan (fs_start false) 0 (-1)%Z); [reflexivity| |reflexivity].
  intros m i E. cbn in E. discriminate E.
Qed.
