(* Proof/ReadBounds_monitor.v — C10, part 3: the monitor accepts every trace the
   model can produce (so a monitor failure on an implementation trace that the
   model reproduces is impossible: it is a real property failure). *)
From WK Require Import Base.Base Gen.Consts_C10 Model.ReadBounds Proof.ReadBounds Proof.ReadBounds_trim.
Open Scope N_scope.

(* ---- the trace of a model run -------------------------------------------- *)

Fixpoint trace (y : sys) (ops : list op) : list step_obs :=
  match ops with
  | [] => []
  | o :: rest => let '(y1, r) := step y o in mkStep o r (snap_of y1) :: trace y1 rest
  end.

(* the log never reaches the uint64 ceiling during the run *)
Fixpoint leo_bounded (y : sys) (ops : list op) : bool :=
  match ops with
  | [] => true
  | o :: rest => let y1 := fst (step y o) in
                 (s_leo (y_store y1) <? MaxUint64) && leo_bounded y1 rest
  end.

Record Inv (y : sys) (syncs : list N) : Prop := {
  inv_le : forall r, In r (s_rows (y_store y)) -> row_seq r <= s_leo (y_store y);
  inv_sync : forall r, In r (s_rows (y_store y)) -> In (row_seq r) syncs -> row_sync r = true;
  inv_syncs_le : forall x, In x syncs -> x <= s_leo (y_store y) }.

(* ---- small list facts ------------------------------------------------------ *)

Lemma memN_true x l : memN x l = true <-> In x l.
Proof.
  unfold memN. split.
  - intro H. apply existsb_exists in H. destruct H as (z & Hz & E). apply N.eqb_eq in E. subst. exact Hz.
  - intro H. apply existsb_exists. exists x. split; [exact H | apply N.eqb_refl].
Qed.

Lemma nil_of_no_member {A} (l : list A) : (forall x, ~ In x l) -> l = [].
Proof. destruct l as [|a l]; [reflexivity|]. intro H. exfalso. apply (H a). left; reflexivity. Qed.

Lemma deleted_rows_spec y y1 d :
  In d (deleted_rows (snap_of y) (snap_of y1)) ->
  exists r, In r (s_rows (y_store y)) /\ row_seq r = d /\ ~ In r (s_rows (y_store y1)).
Proof.
  unfold deleted_rows, snap_of. cbn [n_rows]. intro H. apply filter_In in H. destruct H as [H1 H2].
  apply in_map_iff in H1. destruct H1 as (r & E & Hr). exists r. repeat split; auto.
  intro Hin. apply negb_true_iff in H2.
  assert (memN d (map row_seq (s_rows (y_store y1))) = true).
  { apply memN_true. apply in_map_iff. exists r. auto. }
  congruence.
Qed.

(* ---- new_rows: consecutive, distinct sequences ---------------------------------- *)

Lemma new_rows_range : forall sizes b flags r,
  In r (new_rows b sizes flags) -> b < row_seq r /\ row_seq r <= b + N.of_nat (length sizes).
Proof.
  induction sizes as [|sz sizes IH]; intros b flags r H; cbn [new_rows] in H; [contradiction|].
  cbn [length]. rewrite Nat2N.inj_succ.
  destruct H as [H|H].
  - subst r. cbn [row_seq]. lia.
  - apply IH in H. lia.
Qed.

Lemma new_rows_inj : forall sizes b flags r r',
  In r (new_rows b sizes flags) -> In r' (new_rows b sizes flags) -> row_seq r = row_seq r' -> r = r'.
Proof.
  induction sizes as [|sz sizes IH]; intros b flags r r' H H' E; cbn [new_rows] in H, H'; [contradiction|].
  destruct H as [H|H]; destruct H' as [H'|H'].
  - congruence.
  - subst r. cbn [row_seq] in E. apply new_rows_range in H'. lia.
  - subst r'. cbn [row_seq] in E. apply new_rows_range in H. lia.
  - eapply IH; eassumption.
Qed.

(* ---- shape of the results ------------------------------------------------------- *)

Lemma apply_retention_res y t mm mb y1 res :
  apply_retention y t mm mb = (y1, res) ->
  exists e a b c d f g h i j k, res = RApply e a b c d f g h i j k.
Proof.
  unfold apply_retention.
  destruct (t =? 0); [intro H; inversion H; repeat eexists|].
  match goal with |- context [if ?c then _ else _] => destruct c end; [intro H; inversion H; repeat eexists|].
  destruct (retentionTrimDecision _ t) as [allowed reason].
  destruct (AdoptRetentionBoundary (y_store y) t) as [[s1 e1] rmax1].
  destruct (if allowed then TrimMessagesThrough s1 t mm mb else (s1, 0, no_trim)) as [[s2 e2] tr].
  destruct (negb (e2 =? 0)); intro H; inversion H; repeat eexists.
Qed.

Lemma deletion_gate_ok y t mm mb r :
  deletion_ok y (OApply t mm mb) r -> gate_ok (y_r y) (row_seq r) = true.
Proof.
  cbn [deletion_ok]. intros (c & Hd & Hle).
  destruct (r_retention (y_r y) <? t).
  - eapply trim_gated_gate_ok; eassumption.
  - apply (trim_gated_gate_ok (y_r y) (r_retention (y_r y)) t c); [|exact Hle].
    destruct (y_r y); exact Hd.
Qed.

(* rows after a step: appended at the end, or a subset *)
Lemma step_rows y o y1 res :
  step y o = (y1, res) ->
  match o with
  | OAppend sizes flags =>
      s_rows (y_store y1) = s_rows (y_store y) ++ new_rows (s_leo (y_store y)) sizes flags
      /\ s_leo (y_store y1) = s_leo (y_store y) + N.of_nat (length sizes)
      /\ res = RAppend 0 (s_leo (y_store y) + 1) (s_leo (y_store y) + N.of_nat (length sizes))
  | _ => forall r, In r (s_rows (y_store y1)) -> In r (s_rows (y_store y))
  end.
Proof.
  destruct o; cbn [step].
  - unfold AppendLeader. intro H; inversion H; subst. cbn. auto.
  - intro H; inversion H; subst; auto.
  - intro H; inversion H; subst; cbn [y_store].
    pose proof (StoreCheckpoint_same (y_store y) v) as (C1 & _). rewrite C1. auto.
  - intro H; inversion H; subst; auto.
  - intro H. apply apply_retention_spec in H. tauto.
  - destruct (AdoptRetentionBoundary (y_store y) through) as [[s1 e] rmax] eqn:Ea.
    pose proof (Adopt_spec _ _ _ _ _ Ea) as (A1 & _).
    intro H; inversion H; subst; cbn [y_store]. rewrite A1. auto.
  - destruct (TrimMessagesThrough (y_store y) through maxMessages maxBytes) as [[s1 e] tr] eqn:Et.
    pose proof (Trim_spec _ _ _ _ _ _ _ Et) as (_ & _ & _ & _ & _ & _ & T6 & _).
    intro H; inversion H; subst; cbn [y_store]. exact T6.
  - destruct (readLocalCommitted (y_store y) q retention minISR) as [msgs nx].
    intro H; inversion H; subst; auto.
  - destruct (SyncMessages (y_store y) (mkQuery start endSeq minSeq limit mode) retention minISR) as [seqs more].
    intro H; inversion H; subst; auto.
Qed.

(* ---- the invariant is preserved ---------------------------------------------------- *)

Lemma Inv_step y syncs o y1 res :
  Inv y syncs -> step y o = (y1, res) ->
  Inv y1 (syncs_after syncs (mkStep o res (snap_of y1))).
Proof.
  intros [I1 I2 I3] Hs.
  pose proof (step_spec _ _ _ _ Hs) as (_ & Hleo & _).
  pose proof (step_rows _ _ _ _ Hs) as Hr.
  destruct o;
    try (unfold syncs_after; cbn [o_op o_res];
         constructor;
         [ intros r Hin; apply Hr in Hin; apply I1 in Hin; lia
         | intros r Hin Hx; apply Hr in Hin; eapply I2; eassumption
         | intros x Hx; apply I3 in Hx; lia ]).
  (* append *)
  destruct Hr as (Hrows & Hl & Hres). subst res.
  unfold syncs_after; cbn [o_op o_res]. unfold sync_seqs.
  replace (s_leo (y_store y) + 1 - 1) with (s_leo (y_store y)) by lia.
  set (nw := new_rows (s_leo (y_store y)) sizes flags) in *.
  constructor.
  - intros r Hin. rewrite Hrows in Hin. apply in_app_or in Hin. destruct Hin as [Hin|Hin].
    + apply I1 in Hin. lia.
    + apply new_rows_range in Hin. lia.
  - intros r Hin Hx. rewrite Hrows in Hin. apply in_app_or in Hin. apply in_app_or in Hx.
    destruct Hin as [Hin|Hin]; destruct Hx as [Hx|Hx].
    + apply in_map_iff in Hx. destruct Hx as (r' & E & Hr'). apply filter_In in Hr'. destruct Hr' as [Hr' _].
      apply new_rows_range in Hr'. apply I1 in Hin. lia.
    + eapply I2; eassumption.
    + apply in_map_iff in Hx. destruct Hx as (r' & E & Hr'). apply filter_In in Hr'. destruct Hr' as [Hr' Hs'].
      assert (r' = r) by (eapply new_rows_inj; eassumption). subst r'. exact Hs'.
    + apply I3 in Hx. apply new_rows_range in Hin. lia.
  - intros x Hx. apply in_app_or in Hx. destruct Hx as [Hx|Hx].
    + apply in_map_iff in Hx. destruct Hx as (r' & E & Hr'). apply filter_In in Hr'. destruct Hr' as [Hr' _].
      apply new_rows_range in Hr'. lia.
    + apply I3 in Hx. lia.
Qed.

(* ---- every model step passes the monitor's step check ------------------------------- *)

Lemma monotone_ok_of y y1 : boundaries_le y y1 -> monotone_ok (snap_of y) (snap_of y1) = true.
Proof.
  unfold boundaries_le, monotone_ok, snap_of. cbn. intros (A & B & C & D & E).
  repeat (apply andb_true_iff; split); apply N.leb_le; assumption.
Qed.

Lemma step_code_ok y syncs o y1 res :
  Inv y syncs -> s_leo (y_store y) < MaxUint64 -> step y o = (y1, res) ->
  step_code (snap_of y) syncs (mkStep o res (snap_of y1)) = 0.
Proof.
  intros [I1 I2 I3] Hmax Hs.
  pose proof (step_spec _ _ _ _ Hs) as (Hb & _ & Hdel).
  assert (Hwf : rows_below_max (y_store y)) by (intros r Hr; apply I1 in Hr; lia).
  unfold step_code. cbn [o_snap o_op o_res].
  rewrite (monotone_ok_of _ _ Hb). cbn [negb].
  assert (Hnodel : (forall r, In r (s_rows (y_store y)) -> ~ In r (s_rows (y_store y1)) -> False) ->
                   deleted_rows (snap_of y) (snap_of y1) = []).
  { intro Hno. apply nil_of_no_member. intros d Hd. apply deleted_rows_spec in Hd.
    destruct Hd as (r & Hr & _ & Hn). eapply Hno; eassumption. }
  destruct o; cbn [step] in Hs.
  - (* append *) unfold AppendLeader in Hs. inversion Hs; subst. rewrite Hnodel; [reflexivity | exact Hdel].
  - inversion Hs; subst. rewrite Hnodel; [reflexivity | exact Hdel].
  - inversion Hs; subst. rewrite Hnodel; [reflexivity | exact Hdel].
  - inversion Hs; subst. rewrite Hnodel; [reflexivity | exact Hdel].
  - (* apply *)
    destruct (apply_retention_res _ _ _ _ _ _ Hs) as (e & a & b & c & d & f & g & h & i & j & k & ->).
    match goal with |- (if forallb ?p ?l then _ else _) = _ => assert (Hall : forallb p l = true) end.
    { apply forallb_forall. intros x Hx. apply deleted_rows_spec in Hx. destruct Hx as (r & Hr & E & Hn).
      subst x. eapply deletion_gate_ok. eapply Hdel; eassumption. }
    rewrite Hall. reflexivity.
  - (* adopt *)
    destruct (AdoptRetentionBoundary (y_store y) through) as [[s1 e] rmax]. inversion Hs; subst.
    rewrite Hnodel; [reflexivity | exact Hdel].
  - (* trim *)
    destruct (TrimMessagesThrough (y_store y) through maxMessages maxBytes) as [[s1 e] tr]. inversion Hs; subst.
    match goal with |- (if forallb ?p ?l then _ else _) = _ => assert (Hall : forallb p l = true) end.
    { apply forallb_forall. intros x Hx. apply deleted_rows_spec in Hx. destruct Hx as (r & Hr & E & Hn).
      subst x. specialize (Hdel r Hr Hn). cbn [deletion_ok] in Hdel. cbn [snap_of n_local]. apply N.leb_le. lia. }
    rewrite Hall. reflexivity.
  - (* read *)
    destruct (readLocalCommitted (y_store y) q retention minISR) as [msgs nx] eqn:Er. inversion Hs; subst.
    rewrite Hnodel; [|exact Hdel]. cbn [negb].
    match goal with |- (if forallb ?p ?l then _ else _) = _ => assert (Hall : forallb p l = true) end.
    { apply forallb_forall. intros x Hx. apply in_map_iff in Hx. destruct Hx as (m & E & Hm). subst x. cbn [fst].
      assert (Hm' : In m (fst (readLocalCommitted (y_store y1) q retention minISR))) by (rewrite Er; exact Hm).
      apply readLocalCommitted_window in Hm'; [|exact Hwf]. destruct Hm' as (_ & A & B).
      unfold in_window, boundary_of, committed_snap, snap_of. cbn [n_local n_leo n_hw].
      apply andb_true_iff. split; [apply N.ltb_lt; exact A | apply N.leb_le; exact B]. }
    rewrite Hall. reflexivity.
  - (* sync *)
    destruct (SyncMessages (y_store y) (mkQuery start endSeq minSeq limit mode) retention minISR) as [seqs more] eqn:Er.
    inversion Hs; subst.
    rewrite Hnodel; [|exact Hdel]. cbn [negb].
    match goal with |- (if forallb ?p ?l then _ else _) = _ => assert (Hall : forallb p l = true) end.
    { apply forallb_forall. intros x Hx.
      assert (Hx' : In x (fst (SyncMessages (y_store y1) (mkQuery start endSeq minSeq limit mode) retention minISR)))
        by (rewrite Er; exact Hx).
      apply SyncMessages_window in Hx'; [|exact Hwf]. destruct Hx' as (m & Hm & E & Hsy & A & B).
      apply andb_true_iff. split.
      - unfold in_window, boundary_of, committed_snap, snap_of. cbn [n_local n_leo n_hw].
        apply andb_true_iff. split; [apply N.ltb_lt; exact A | apply N.leb_le; exact B].
      - apply negb_true_iff. destruct (memN x syncs) eqn:Em; [|reflexivity].
        apply memN_true in Em. subst x. rewrite (I2 m Hm Em) in Hsy. discriminate. }
    rewrite Hall. reflexivity.
Qed.

(* ---- the whole run ---------------------------------------------------------------------- *)

Theorem monitor_trace : forall ops y syncs,
  Inv y syncs -> s_leo (y_store y) < MaxUint64 -> leo_bounded y ops = true ->
  monitor_steps (snap_of y) syncs (trace y ops) = 0.
Proof.
  induction ops as [|o ops IH]; intros y syncs HI Hmax Hb; cbn [trace leo_bounded] in *.
  - reflexivity.
  - destruct (step y o) as [y1 res] eqn:Es. cbn [fst] in Hb.
    apply andb_true_iff in Hb. destruct Hb as [Hb1 Hb2]. apply N.ltb_lt in Hb1.
    cbn [monitor_steps]. rewrite (step_code_ok _ _ _ _ _ HI Hmax Es). cbn [o_snap].
    apply IH; [eapply Inv_step; eassumption | exact Hb1 | exact Hb2].
Qed.

Lemma Inv_init : Inv init_sys [].
Proof. constructor; cbn; intros; contradiction. Qed.

Theorem model_satisfies_monitor ops :
  leo_bounded init_sys ops = true -> C10_monitor (C10Hist (trace init_sys ops)) = 0.
Proof.
  intro Hb. cbn [C10_monitor]. apply monitor_trace; [exact Inv_init | cbn; reflexivity | exact Hb].
Qed.

Lemma trace_replays : forall ops y, replay_mismatch y (trace y ops) = false.
Proof.
  assert (Hn : forall l, nlist_eqb l l = true).
  { intro l. apply (proj2 (list_eqb_spec N.eqb (fun x y => N.eqb_eq x y) l l)). reflexivity. }
  assert (Hr : forall st, rstate_eqb st st = true).
  { intro st. unfold rstate_eqb. rewrite !N.eqb_refl, Hn. cbn [andb].
    assert (Hp : list_eqb pair_eqb (r_prog st) (r_prog st) = true).
    { induction (r_prog st) as [|p l IHl]; cbn; [reflexivity|].
      unfold pair_eqb at 1. rewrite !N.eqb_refl. exact IHl. }
    rewrite Hp. reflexivity. }
  assert (Hsn : forall sn, snap_eqb sn sn = true).
  { intro sn. unfold snap_eqb. rewrite !N.eqb_refl, Hn, Hr. reflexivity. }
  assert (Hres : forall r, res_eqb r r = true).
  { destruct r; cbn; rewrite ?N.eqb_refl, ?Bool.eqb_reflx, ?Hn; try reflexivity.
    assert (Hm : list_eqb msg_eqb msgs msgs = true).
    { induction msgs as [|p l IHl]; cbn; [reflexivity|].
      unfold msg_eqb at 1. rewrite N.eqb_refl, Bool.eqb_reflx. exact IHl. }
    rewrite Hm. reflexivity. }
  induction ops as [|o ops IH]; intro y; cbn [trace replay_mismatch]; [reflexivity|].
  destruct (step y o) as [y1 r] eqn:E. cbn [replay_mismatch o_op o_res o_snap]. rewrite E.
  rewrite Hres, Hsn. cbn. apply IH.
Qed.

(* ---- the pure decision case ------------------------------------------------------------ *)

Theorem pure_model_satisfies_monitor st through :
  let '(a, r) := retentionTrimDecision st through in
  C10_monitor (C10Pure st through a r (minISRMatchOffset st)) = 0.
Proof.
  destruct (retentionTrimDecision st through) as [a r] eqn:E. cbn [C10_monitor].
  destruct a; [|reflexivity].
  apply trim_gated in E. destruct E as (E0 & _ & E1 & E2 & E3 & E4).
  assert (H : pure_gate_ok st through = true).
  { unfold pure_gate_ok. repeat (apply andb_true_iff; split); try (apply N.leb_le; assumption).
    - apply negb_true_iff. apply N.eqb_neq. exact E0.
    - destruct (r_role st =? RoleLeader) eqn:Er; [|reflexivity]. cbn [negb orb].
      apply N.eqb_eq in Er. apply forallb_forall. intros n Hn. apply N.leb_le. apply E4; assumption. }
  rewrite H. reflexivity.
Qed.

(* ---- concrete inputs used by the Examples of Properties/C10.v --------------------------- *)

Definition ex_ops : list op :=
  [ OMeta RoleLeader 1 [1; 2] [(2, 3)];
    OAppend [1; 2; 3; 0] [false; true; false; false];
    OHW 4; OCkpt 3;
    ORead (mkReq 0 0 0 10 0 false) 0 2;          (* returns 1,2,3 (4 is above the checkpointed HW) *)
    OSync 0 0 0 10 PullModeUp 0 2;               (* returns 1,3: 2 is SyncOnce *)
    OApply 2 0 0;                                (* allowed: deletes 1,2 *)
    ORead (mkReq MaxUint64 0 0 10 0 true) 0 1;   (* latest first, MinISR 1: 4,3 *)
    OApply 1 0 0;                                (* regressing boundary: no-op *)
    OApply 4 0 0 ].                              (* blocked: checkpoint lag, submits a checkpoint *)


Definition ex_snap (rows : list N) (hw local : N) (st : rstate) : snap := mkSnap rows 3 hw local 0 3 st.
