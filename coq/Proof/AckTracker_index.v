(* Proof/AckTracker_index.v — the bySession index is the projection of byMessage *)
From WK Require Import Base.Base Model.AckTracker Proof.AckTracker_map.
From Coq Require Import Permutation.
Open Scope N_scope.

Notation kget := (al_get key_eqb).
Notation sget := (al_get skey_eqb).

Definition has_key {V} (bm : list (key * V)) (k : key) : Prop := al_get key_eqb k bm <> None.

Record session_index_ok (bm : list (key * entry)) (bs : list (skey * list N)) : Prop := {
  si_nodup : NoDup (al_keys bs);
  si_rows : forall sk ms, sget sk bs = Some ms -> ms <> [] /\ NoDup ms;
  si_proj : forall u s m, (exists ms, sget (u, s) bs = Some ms /\ In m ms) <-> has_key bm (u, s, m) }.

Lemma key_neq_cases (u s m u' s' m' : N) :
  (u, s, m) <> (u', s', m') -> (u, s) <> (u', s') \/ ((u, s) = (u', s') /\ m <> m').
Proof.
  intro H. destruct (N.eq_dec u u') as [E1|E1]; [|left; congruence].
  destruct (N.eq_dec s s') as [E2|E2]; [|left; congruence].
  right. split; [congruence|]. intro. subst. apply H. reflexivity.
Qed.

Lemma skey_eq_dec (a b : skey) : {a = b} + {a <> b}.
Proof. decide equality; apply N.eq_dec. Qed.
Lemma key_eq_dec (a b : key) : {a = b} + {a <> b}.
Proof. decide equality; [apply N.eq_dec|apply skey_eq_dec]. Qed.

(* only the set of keys of byMessage matters *)
Lemma si_dom bm bm' bs :
  (forall k, has_key bm k <-> has_key bm' k) -> session_index_ok bm bs -> session_index_ok bm' bs.
Proof.
  intros D [H1 H2 H3]. constructor; [exact H1|exact H2|].
  intros u s m. rewrite H3. apply D.
Qed.

Lemma has_key_set {V} k (v : V) bm k' : has_key (al_set key_eqb k v bm) k' <-> k' = k \/ has_key bm k'.
Proof.
  unfold has_key. destruct (key_eq_dec k k') as [E|E].
  - subst. rewrite k_get_set_same. split; [left; reflexivity|discriminate].
  - rewrite k_get_set_other by exact E. split.
    + intro H. right. exact H.
    + intros [H|H]; [congruence|exact H].
Qed.

Lemma has_key_del {V} k (bm : list (key * V)) k' : has_key (al_del key_eqb k bm) k' <-> k' <> k /\ has_key bm k'.
Proof.
  unfold has_key. destruct (key_eq_dec k k') as [E|E].
  - subst. rewrite k_get_del_same. split; [congruence|intros [H _]; congruence].
  - rewrite k_get_del_other by exact E. split.
    + intro H. split; [congruence|exact H].
    + intros [_ H]. exact H.
Qed.

Lemma mem_mid_in m ms : mem_mid m ms = true <-> In m ms.
Proof.
  unfold mem_mid. rewrite existsb_exists. split.
  - intros [x [H1 H2]]. apply N.eqb_eq in H2. subst. exact H1.
  - intro H. exists m. split; [exact H|apply N.eqb_refl].
Qed.

Lemma add_mid_in m ms x : In x (add_mid m ms) <-> x = m \/ In x ms.
Proof.
  unfold add_mid. destruct (mem_mid m ms) eqn:E.
  - apply mem_mid_in in E. split; [intro H; right; exact H|intros [H|H]; [subst; exact E|exact H]].
  - rewrite in_app_iff. simpl. split.
    + intros [H|[H|[]]]; [right; exact H|left; symmetry; exact H].
    + intros [H|H]; [right; left; symmetry; exact H|left; exact H].
Qed.

Lemma add_mid_nodup m ms : NoDup ms -> NoDup (add_mid m ms).
Proof.
  intro H. unfold add_mid. destruct (mem_mid m ms) eqn:E; [exact H|].
  eapply Permutation_NoDup; [apply Permutation_cons_append|].
  constructor; [|exact H]. intro H1. apply mem_mid_in in H1. congruence.
Qed.

Lemma add_mid_length m ms :
  length (add_mid m ms) = if mem_mid m ms then length ms else S (length ms).
Proof.
  unfold add_mid. destruct (mem_mid m ms); [reflexivity|]. rewrite app_length. simpl. lia.
Qed.

Lemma del_mid_in m ms x : In x (del_mid m ms) <-> x <> m /\ In x ms.
Proof.
  unfold del_mid. rewrite filter_In, negb_true_iff, N.eqb_neq. tauto.
Qed.

Lemma del_mid_nodup m ms : NoDup ms -> NoDup (del_mid m ms).
Proof. apply NoDup_filter. Qed.

Lemma del_mid_length m ms : (length (del_mid m ms) <= length ms)%nat.
Proof. unfold del_mid. induction ms as [|x ms IH]; simpl; [lia|]. destruct (negb (x =? m)); simpl; lia. Qed.

(* a bind adds message m to the session row *)
Lemma si_add bm bs u s m (e : entry) :
  session_index_ok bm bs ->
  session_index_ok (al_set key_eqb (u, s, m) e bm)
    (al_set skey_eqb (u, s) (add_mid m (match sget (u, s) bs with Some ms => ms | None => [] end)) bs).
Proof.
  intros [H1 H2 H3]. constructor.
  - apply s_set_nodup. exact H1.
  - intros sk ms. destruct (skey_eq_dec (u, s) sk) as [E|E].
    + subst sk. rewrite s_get_set_same. intro H. inversion H. subst ms. clear H. split.
      * intro H. assert (X : In m (add_mid m match sget (u, s) bs with Some ms => ms | None => [] end)).
        { apply add_mid_in. left. reflexivity. }
        rewrite H in X. destruct X.
      * apply add_mid_nodup. destruct (sget (u, s) bs) eqn:G; [apply (H2 _ _ G)|constructor].
    + rewrite s_get_set_other by exact E. apply H2.
  - intros u' s' m'. rewrite has_key_set. destruct (skey_eq_dec (u, s) (u', s')) as [E|E].
    + inversion E. subst u' s'. rewrite s_get_set_same. split.
      * intros [ms [G1 G2]]. inversion G1. subst ms. apply add_mid_in in G2. destruct G2 as [G2|G2].
        -- left. subst. reflexivity.
        -- right. apply H3. destruct (sget (u, s) bs) eqn:G; [|destruct G2]. exists l. split; [reflexivity|exact G2].
      * intros [G|G].
        -- inversion G. subst m'. eexists. split; [reflexivity|]. apply add_mid_in. left. reflexivity.
        -- apply H3 in G. destruct G as [ms [G1 G2]]. rewrite G1. eexists. split; [reflexivity|].
           apply add_mid_in. right. exact G2.
    + rewrite s_get_set_other by exact E. rewrite H3. split.
      * intro G. right. exact G.
      * intros [G|G]; [inversion G; subst; contradiction|exact G].
Qed.

(* deleting message m from byMessage and from its session row *)
Lemma si_del bm bs u s m :
  session_index_ok bm bs ->
  session_index_ok (al_del key_eqb (u, s, m) bm) (deleteSessionMessageLocked bs (u, s) m).
Proof.
  intros [H1 H2 H3]. unfold deleteSessionMessageLocked.
  destruct (sget (u, s) bs) as [ms|] eqn:G.
  - assert (D : forall x, In x (del_mid m ms) <-> x <> m /\ In x ms) by (intro; apply del_mid_in).
    destruct (del_mid m ms) as [|d0 dl] eqn:DM.
    + (* the row disappears *)
      constructor.
      * apply s_del_nodup. exact H1.
      * intros sk ms'. destruct (skey_eq_dec (u, s) sk) as [E|E].
        -- subst. rewrite s_get_del_same. discriminate.
        -- rewrite s_get_del_other by exact E. apply H2.
      * intros u' s' m'. rewrite has_key_del. destruct (skey_eq_dec (u, s) (u', s')) as [E|E].
        -- inversion E. subst u' s'. rewrite s_get_del_same. split.
           ++ intros [ms' [G1 _]]. discriminate.
           ++ intros [N1 K]. apply H3 in K. destruct K as [ms' [K1 K2]]. rewrite G in K1. inversion K1. subst ms'.
              exfalso. apply (D m'). split; [intro; subst; apply N1; reflexivity|exact K2].
        -- rewrite s_get_del_other by exact E. rewrite H3. split.
           ++ intro K. split; [intro X; inversion X; subst; apply E; reflexivity|exact K].
           ++ intros [_ K]. exact K.
    + rewrite <- DM in *. constructor.
      * apply s_set_nodup. exact H1.
      * intros sk ms'. destruct (skey_eq_dec (u, s) sk) as [E|E].
        -- subst. rewrite s_get_set_same. intro X. inversion X. subst ms'. split.
           ++ rewrite DM. discriminate.
           ++ apply del_mid_nodup. apply (H2 _ _ G).
        -- rewrite s_get_set_other by exact E. apply H2.
      * intros u' s' m'. rewrite has_key_del. destruct (skey_eq_dec (u, s) (u', s')) as [E|E].
        -- inversion E. subst u' s'. rewrite s_get_set_same. split.
           ++ intros [ms' [G1 G2]]. inversion G1. subst ms'. apply D in G2. destruct G2 as [G2 G3]. split.
              ** intro X. inversion X. contradiction.
              ** apply H3. exists ms. split; assumption.
           ++ intros [N1 K]. apply H3 in K. destruct K as [ms' [K1 K2]]. rewrite G in K1. inversion K1. subst ms'.
              eexists. split; [reflexivity|]. apply D. split; [intro; subst; apply N1; reflexivity|exact K2].
        -- rewrite s_get_set_other by exact E. rewrite H3. split.
           ++ intro K. split; [intro X; inversion X; subst; apply E; reflexivity|exact K].
           ++ intros [_ K]. exact K.
  - (* no row: the message was not indexed, hence not stored *)
    apply (si_dom bm); [|constructor; assumption].
    intro k. rewrite has_key_del. split.
    + intro K. split; [|exact K]. intro X. subst k. apply H3 in K. destruct K as [ms [K1 _]]. congruence.
    + intros [_ K]. exact K.
Qed.

(* row lengths never grow on deletion: used for the per-session limit *)
Lemma deleteSession_rows bs sk m sk' ms' :
  NoDup (al_keys bs) ->
  sget sk' (deleteSessionMessageLocked bs sk m) = Some ms' ->
  exists ms, sget sk' bs = Some ms /\ (length ms' <= length ms)%nat.
Proof.
  intros ND. unfold deleteSessionMessageLocked. destruct (sget sk bs) as [ms|] eqn:G.
  - destruct (del_mid m ms) as [|d0 dl] eqn:DM.
    + destruct (skey_eq_dec sk sk') as [E|E].
      * subst. rewrite s_get_del_same. discriminate.
      * rewrite s_get_del_other by exact E. intro H. exists ms'. split; [exact H|lia].
    + destruct (skey_eq_dec sk sk') as [E|E].
      * subst. rewrite s_get_set_same. intro H. inversion H. subst ms'.
        exists ms. split; [exact G|]. rewrite <- DM. apply del_mid_length.
      * rewrite s_get_set_other by exact E. intro H. exists ms'. split; [exact H|lia].
  - intro H. exists ms'. split; [exact H|lia].
Qed.

Lemma deleteSession_nodup bs sk m : NoDup (al_keys bs) -> NoDup (al_keys (deleteSessionMessageLocked bs sk m)).
Proof.
  intro ND. unfold deleteSessionMessageLocked. destruct (sget sk bs) as [ms|]; [|exact ND].
  destruct (del_mid m ms).
  - apply s_del_nodup. exact ND.
  - apply s_set_nodup. exact ND.
Qed.
