(* Proof/WorkQueue_mailbox.v — ShardedMailbox: invariant over ALL interleavings.
   Unconditional: at most once, rejected never runs, one drain per shard, shard
   FIFO.  Close-waits holds except for the K2 window (finishShardDrain does not
   reschedule once closed): the monitor is 0 or 3 on every history of the model. *)
From WK Require Import Base.Base Model.WorkQueue Model.WorkQueue_mailbox Proof.WorkQueue.
Open Scope N_scope.

Definition cnt (x : N) (l : list N) : nat := count_occ N.eq_dec l x.

Lemma cnt_nil x : cnt x [] = 0%nat.
Proof. reflexivity. Qed.
Lemma cnt_app x l1 l2 : cnt x (l1 ++ l2) = (cnt x l1 + cnt x l2)%nat.
Proof. unfold cnt. apply count_occ_app. Qed.
Lemma cnt_cons x y l : cnt x (y :: l) = ((if N.eqb y x then 1 else 0) + cnt x l)%nat.
Proof.
  unfold cnt. cbn [count_occ]. destruct (N.eq_dec y x) as [E|E].
  - subst. rewrite N.eqb_refl. reflexivity.
  - destruct (N.eqb_spec y x); [contradiction|reflexivity].
Qed.
Lemma cnt_In x l : In x l <-> (cnt x l >= 1)%nat.
Proof. unfold cnt. rewrite (count_occ_In N.eq_dec). lia. Qed.
Lemma NoDup_cnt l : NoDup l <-> forall x, (cnt x l <= 1)%nat.
Proof. unfold cnt. apply (NoDup_count_occ N.eq_dec). Qed.

Definition sh_items (sh : shard) : list (N * N) := tok_items (sh_tok sh) ++ sh_queue sh.
Definition sh_tasks (sh : shard) : list N := map fst (sh_items sh).

Lemma cnt_shards_set_nth x k sh : forall l, (k < length l)%nat ->
  (cnt x (flat_map sh_tasks (set_nth k sh sh0 l)) + cnt x (sh_tasks (nth k l sh0))
   = cnt x (flat_map sh_tasks l) + cnt x (sh_tasks sh))%nat.
Proof.
  induction k as [|k IH]; intros [|y r] Hk; cbn [length] in Hk; try lia.
  - cbn [set_nth nth flat_map]. rewrite !cnt_app. lia.
  - cbn [set_nth nth flat_map]. rewrite !cnt_app. specialize (IH r ltac:(lia)). lia.
Qed.

Lemma length_set_nth {A} i (x d : A) : forall l, (i < length l)%nat -> length (set_nth i x d l) = length l.
Proof.
  induction i as [|i IH]; intros [|y r] Hi; cbn [length] in Hi; try lia; cbn [set_nth length]; [reflexivity|].
  rewrite IH by lia. reflexivity.
Qed.

Lemma in_flat_map_nth x l : In x (flat_map sh_tasks l) -> exists k, (k < length l)%nat /\ In x (sh_tasks (nth k l sh0)).
Proof.
  induction l as [|y r IH]; [intros []|]. cbn [flat_map]. intro H. apply in_app_or in H. destruct H as [H|H].
  - exists 0%nat. cbn [length nth]. split; [lia|exact H].
  - destruct (IH H) as (k & Hk & Hin). exists (S k). cbn [length nth]. split; [lia|exact Hin].
Qed.

Lemma nth_in_flat_map x l k : (k < length l)%nat -> In x (sh_tasks (nth k l sh0)) -> In x (flat_map sh_tasks l).
Proof.
  revert k. induction l as [|y r IH]; intros k Hk Hin; cbn [length] in Hk; [lia|].
  cbn [flat_map]. apply in_or_app. destruct k; cbn [nth] in Hin; [left; exact Hin|right].
  apply (IH k); [lia|exact Hin].
Qed.

Lemma map_task_mk_runs_sh l k rb re pos : map r_task (mk_runs_sh l k rb re pos) = map fst l.
Proof.
  revert pos. induction l as [|[x e] r IH]; intro pos; cbn [mk_runs_sh map r_task fst]; [reflexivity|].
  rewrite IH. reflexivity.
Qed.

Lemma mk_runs_sh_spec l k rb re : forall pos r, In r (mk_runs_sh l k rb re pos) ->
  r_b r = rb /\ r_e r = re /\ r_shard r = k /\ pos <= r_pos r < pos + N.of_nat (length l)
  /\ exists e, In (r_task r, e) l.
Proof.
  induction l as [|[x e] l IH]; intros pos r Hin; [destruct Hin|].
  cbn [mk_runs_sh] in Hin. destruct Hin as [<-|Hin].
  - cbn. repeat split; try lia. exists e. left; reflexivity.
  - destruct (IH _ _ Hin) as (A & B & C & D & e' & E). repeat split; auto; try (cbn [length]; lia).
    exists e'. right; exact E.
Qed.

(* strictly increasing enqueue stamps *)
Definition sorted2 (l : list (N * N)) : Prop :=
  forall l1 a l2, l = l1 ++ a :: l2 -> forall c, In c l2 -> snd a < snd c.

Lemma sorted2_tail a l : sorted2 (a :: l) -> sorted2 l.
Proof. intros H l1 a' l2 E c Hc. apply (H (a :: l1) a' l2); [rewrite E; reflexivity|exact Hc]. Qed.

Lemma sorted2_head a l : sorted2 (a :: l) -> forall c, In c l -> snd a < snd c.
Proof. intros H c Hc. apply (H [] a l); [reflexivity|exact Hc]. Qed.

Lemma sorted2_app_l l1 l2 : sorted2 (l1 ++ l2) -> sorted2 l1.
Proof.
  intros H m1 a m2 E c Hc. apply (H m1 a (m2 ++ l2)); [rewrite E, <- app_assoc; reflexivity|].
  apply in_or_app. left; exact Hc.
Qed.

Lemma sorted2_app_r l1 l2 : sorted2 (l1 ++ l2) -> sorted2 l2.
Proof. induction l1 as [|a l1 IH]; [auto|]. cbn [app]. intro H. apply IH. eapply sorted2_tail; eauto. Qed.

Lemma sorted2_cross l1 l2 : sorted2 (l1 ++ l2) -> forall a c, In a l1 -> In c l2 -> snd a < snd c.
Proof.
  intros H a c Ha Hc. apply in_split in Ha. destruct Ha as (m1 & m2 & ->).
  apply (H m1 a (m2 ++ l2)); [rewrite <- app_assoc; reflexivity|]. apply in_or_app. right; exact Hc.
Qed.

Lemma sorted2_snoc l a : sorted2 l -> (forall c, In c l -> snd c < snd a) -> sorted2 (l ++ [a]).
Proof.
  intros Hs Hlt l1 a' l2 E c Hc.
  destruct l2 as [|z l2'] using rev_ind.
  - destruct Hc.
  - clear IHl2'. rewrite app_comm_cons, app_assoc in E. apply app_inj_tail in E. destruct E as [E ->].
    apply in_app_or in Hc. destruct Hc as [Hc|[<-|[]]].
    + apply (Hs l1 a' l2'); [symmetry; exact E|exact Hc].
    + apply Hlt. rewrite <- E. apply in_or_app. right. left. reflexivity.
Qed.

(* positions follow stamps inside one batch *)
Lemma mk_runs_sh_order l k rb re : sorted2 l -> forall pos ra rb' ea eb,
  In ra (mk_runs_sh l k rb re pos) -> In rb' (mk_runs_sh l k rb re pos) ->
  In (r_task ra, ea) l -> In (r_task rb', eb) l ->
  (forall x e e', In (x, e) l -> In (x, e') l -> e = e') ->
  ea < eb -> r_pos ra < r_pos rb'.
Proof.
  induction l as [|[x e] l IH]; intros Hs pos ra rb' ea eb Ha Hb Hea Heb Huniq Hlt; [destruct Ha|].
  cbn [mk_runs_sh] in Ha, Hb.
  assert (Htail : forall r, In r (mk_runs_sh l k rb re (pos + 1)) -> exists e0, In (r_task r, e0) l /\ pos + 1 <= r_pos r).
  { intros r Hr. destruct (mk_runs_sh_spec _ _ _ _ _ _ Hr) as (_ & _ & _ & D & e0 & E). exists e0. split; [exact E|lia]. }
  destruct Ha as [<-|Ha], Hb as [<-|Hb]; cbn [r_task r_pos] in *.
  - assert (ea = eb) by (eapply Huniq; eauto). lia.
  - destruct (Htail _ Hb) as (e0 & _ & Hp). lia.
  - exfalso. destruct (Htail _ Ha) as (e0 & Hin0 & _).
    assert (E1 : ea = e0) by (eapply Huniq; [exact Hea|right; exact Hin0]).
    assert (E2 : eb = e) by (eapply Huniq; [exact Heb|left; reflexivity]).
    pose proof (sorted2_head _ _ Hs _ Hin0) as Hh. cbn [snd] in Hh. lia.
  - destruct (Htail _ Ha) as (e0 & Hin0 & _). destruct (Htail _ Hb) as (e1 & Hin1 & _).
    assert (E1 : ea = e0) by (eapply Huniq; [exact Hea|right; exact Hin0]).
    assert (E2 : eb = e1) by (eapply Huniq; [exact Heb|right; exact Hin1]).
    subst. apply (IH (sorted2_tail _ _ Hs) (pos + 1) ra rb' e0 e1); auto.
    intros x0 e2 e3 H2 H3. eapply Huniq; right; eauto.
Qed.

Section MailboxProof.
Variable cf : cfg.

Notation m_step := (m_step cf).
Notation m_run := (m_run cf).
Notation m_hist := (m_hist cf).
Notation mbmax := (mbmax cf).
Notation nshards := (nshards cf).

Definition pc_task (p : mpc) : option (N * N * nat) :=
  match p with
  | MIdle => None
  | MCheck x st k | MLock x st k => Some (x, st, k)
  end.

Definition tok_db (p : tpc) : option N :=
  match p with
  | TNext db | TCollect db _ | THandler db _ _ | TFinish db => Some db
  | _ => None
  end.

Definition okset (subs : list sub) (x : N) : Prop :=
  exists sb, In sb subs /\ s_task sb = x /\ s_res sb = ROk.

Definition all_tasks (s : mstate) : list N := flat_map sh_tasks (m_shards s) ++ map r_task (m_runs s).

Definition close_inv (b : N) (s : mstate) : Prop :=
  match m_close s with
  | CIdle => m_closed s = false /\ m_shclosed s = false /\ m_clos s = []
  | CStart cb => m_closed s = false /\ m_shclosed s = false /\ m_clos s = [] /\ cb = m_cb s /\ cb <= b
  | CMid cb => m_closed s = true /\ m_shclosed s = false /\ m_clos s = [] /\ cb = m_cb s /\ cb <= b
  | CWait cb => m_closed s = true /\ m_shclosed s = true /\ m_clos s = [] /\ cb = m_cb s /\ cb <= b
  | CDone => m_closed s = true /\ m_shclosed s = true /\ all_unscheduled (m_shards s) = true
             /\ exists ce, m_clos s = [Clo (m_cb s) ce true] /\ m_cb s < ce /\ ce <= b
                  /\ (forall r, In r (m_runs s) -> r_e r < ce)
  end.

Record MInvB (b : N) (s : mstate) : Prop := {
  q_subs : forall sb, In sb (m_subs s) -> s_task sb <= b /\ s_b sb < s_e sb /\ s_e sb <= b
                                          /\ s_shard sb < N.of_nat (length (m_shards s));
  q_subs_nd : NoDup (map s_task (m_subs s));
  q_pcs : forall t x st k, pc_task (m_pc s t) = Some (x, st, k) ->
            x <= b /\ st <= b /\ ~ In x (map s_task (m_subs s)) /\ (k < length (m_shards s))%nat;
  q_pcs_d : forall t t' x st k x' st' k', t <> t' -> pc_task (m_pc s t) = Some (x, st, k) ->
            pc_task (m_pc s t') = Some (x', st', k') -> x <> x';
  q_len : length (m_shards s) = nshards;
  (* stamps *)
  q_runs : forall r, In r (m_runs s) -> r_b r < r_e r /\ r_e r <= b /\ r_pos r < N.max 1 (c_batch cf);
  q_drains : forall d, In d (m_drains s) -> d_b d < d_e d /\ d_e d <= b;
  q_tok_db : forall k db, tok_db (sh_tok (m_sh s k)) = Some db -> db <= b;
  q_tok_rb : forall k db rb it, sh_tok (m_sh s k) = THandler db rb it -> rb <= b;
  q_stamp : forall k x e, In (x, e) (sh_items (m_sh s k)) -> e <= b;
  (* conservation *)
  q_once : forall x, (cnt x (all_tasks s) <= 1)%nat;
  q_link : forall k x e, In (x, e) (sh_items (m_sh s k)) ->
             exists sb, In sb (m_subs s) /\ s_task sb = x /\ s_res sb = ROk /\ s_shard sb = N.of_nat k /\ s_e sb = e;
  q_run_link : forall r, In r (m_runs s) ->
             exists sb, In sb (m_subs s) /\ s_task sb = r_task r /\ s_res sb = ROk /\ s_shard sb = r_shard r;
  q_ok_pl : forall x, okset (m_subs s) x -> In x (all_tasks s);
  q_items_len : forall k, (length (tok_items (sh_tok (m_sh s k))) <= mbmax)%nat;
  (* one drain per shard *)
  q_dr_sorted : forall l1 a l2, m_drains s = l1 ++ a :: l2 ->
                  forall d, In d l2 -> d_shard d = d_shard a -> d_e d < d_b a;
  q_dr_active : forall k db, tok_db (sh_tok (m_sh s k)) = Some db ->
                  forall d, In d (m_drains s) -> d_shard d = N.of_nat k -> d_e d < db;
  q_run_sorted : forall l1 a l2, m_runs s = l1 ++ a :: l2 ->
                  forall r, In r l2 -> r_shard r = r_shard a -> r_b r = r_b a \/ r_e r < r_b a;
  q_run_active : forall k db rb it, sh_tok (m_sh s k) = THandler db rb it ->
                  forall r, In r (m_runs s) -> r_shard r = N.of_nat k -> r_e r < rb;
  (* FIFO *)
  q_sorted : forall k, sorted2 (sh_items (m_sh s k));
  q_run_items : forall r sb, In r (m_runs s) -> In sb (m_subs s) -> s_task sb = r_task r ->
                  forall k, r_shard r = N.of_nat k -> forall y e, In (y, e) (sh_items (m_sh s k)) -> s_e sb < e;
  q_fifo : forall ra rb sa sb, In ra (m_runs s) -> In rb (m_runs s) -> r_shard ra = r_shard rb ->
             In sa (m_subs s) -> In sb (m_subs s) -> s_task sa = r_task ra -> s_task sb = r_task rb ->
             s_e sa < s_e sb -> run_before ra rb = true;
  (* the K2 window leaves a trace: the shard had a drain *)
  q_k2 : forall k, (k < length (m_shards s))%nat -> sh_tok (m_sh s k) = TNone -> sh_queue (m_sh s k) <> [] ->
           exists d, In d (m_drains s) /\ d_shard d = N.of_nat k;
  q_shc : m_shclosed s = true -> m_closed s = true;
  q_close : close_inv b s;
  q_cb : m_cb s <= b }.

Definition MInv (s : mstate) : Prop := MInvB (m_now s) s.

End MailboxProof.
