(* Proof/WorkQueue_mailbox.v — ShardedMailbox: invariant over ALL interleavings.
   Unconditional: at most once, rejected never runs, one drain per shard, shard
   FIFO.  Close-waits holds except for the K2 window (finishShardDrain does not
   reschedule once closed): the monitor is 0 or 3 on every history of the model. *)
From WK Require Import Base.Base Model.WorkQueue Model.WorkQueue_mailbox Proof.WorkQueue.
Open Scope N_scope.

Definition cnt (x : N) (l : list N) : nat := count_occ N.eq_dec l x.

Lemma cnt_nil x : cnt x [] = 0%nat.
Proof. reflexivity. Qed.
Lemma cnt_app x l1 l2 : cnt x (l1 ++ l2) = (cnt x l1 + cnt x l2)%nat.
Proof. unfold cnt. apply count_occ_app. Qed.
Lemma cnt_cons x y l : cnt x (y :: l) = ((if N.eqb y x then 1 else 0) + cnt x l)%nat.
Proof.
  unfold cnt. cbn [count_occ]. destruct (N.eq_dec y x) as [E|E].
  - subst. rewrite N.eqb_refl. reflexivity.
  - destruct (N.eqb_spec y x); [contradiction|reflexivity].
Qed.
Lemma cnt_In x l : In x l <-> (cnt x l >= 1)%nat.
Proof. unfold cnt. rewrite (count_occ_In N.eq_dec). lia. Qed.
Lemma NoDup_cnt l : NoDup l <-> forall x, (cnt x l <= 1)%nat.
Proof. unfold cnt. apply (NoDup_count_occ N.eq_dec). Qed.

Definition sh_items (sh : shard) : list (N * N) := tok_items (sh_tok sh) ++ sh_queue sh.
Definition sh_tasks (sh : shard) : list N := map fst (sh_items sh).

Lemma cnt_shards_set_nth x k sh : forall l, (k < length l)%nat ->
  (cnt x (flat_map sh_tasks (set_nth k sh sh0 l)) + cnt x (sh_tasks (nth k l sh0))
   = cnt x (flat_map sh_tasks l) + cnt x (sh_tasks sh))%nat.
Proof.
  induction k as [|k IH]; intros [|y r] Hk; cbn [length] in Hk; try lia.
  - cbn [set_nth nth flat_map]. rewrite !cnt_app. lia.
  - cbn [set_nth nth flat_map]. rewrite !cnt_app. specialize (IH r ltac:(lia)). lia.
Qed.

Lemma length_set_nth {A} i (x d : A) : forall l, (i < length l)%nat -> length (set_nth i x d l) = length l.
Proof.
  induction i as [|i IH]; intros [|y r] Hi; cbn [length] in Hi; try lia; cbn [set_nth length]; [reflexivity|].
  rewrite IH by lia. reflexivity.
Qed.

Lemma in_flat_map_nth x l : In x (flat_map sh_tasks l) -> exists k, (k < length l)%nat /\ In x (sh_tasks (nth k l sh0)).
Proof.
  induction l as [|y r IH]; [intros []|]. cbn [flat_map]. intro H. apply in_app_or in H. destruct H as [H|H].
  - exists 0%nat. cbn [length nth]. split; [lia|exact H].
  - destruct (IH H) as (k & Hk & Hin). exists (S k). cbn [length nth]. split; [lia|exact Hin].
Qed.

Lemma nth_in_flat_map x l k : (k < length l)%nat -> In x (sh_tasks (nth k l sh0)) -> In x (flat_map sh_tasks l).
Proof.
  revert k. induction l as [|y r IH]; intros k Hk Hin; cbn [length] in Hk; [lia|].
  cbn [flat_map]. apply in_or_app. destruct k; cbn [nth] in Hin; [left; exact Hin|right].
  apply (IH k); [lia|exact Hin].
Qed.

Lemma map_task_mk_runs_sh l k rb re pos : map r_task (mk_runs_sh l k rb re pos) = map fst l.
Proof.
  revert pos. induction l as [|[x e] r IH]; intro pos; cbn [mk_runs_sh map r_task fst]; [reflexivity|].
  rewrite IH. reflexivity.
Qed.

Lemma mk_runs_sh_spec l k rb re : forall pos r, In r (mk_runs_sh l k rb re pos) ->
  r_b r = rb /\ r_e r = re /\ r_shard r = k /\ pos <= r_pos r < pos + N.of_nat (length l)
  /\ exists e, In (r_task r, e) l.
Proof.
  induction l as [|[x e] l IH]; intros pos r Hin; [destruct Hin|].
  cbn [mk_runs_sh] in Hin. destruct Hin as [<-|Hin].
  - cbn. repeat split; try lia. exists e. left; reflexivity.
  - destruct (IH _ _ Hin) as (A & B & C & D & e' & E). repeat split; auto; try (cbn [length]; lia).
    exists e'. right; exact E.
Qed.

(* strictly increasing enqueue stamps *)
Definition sorted2 (l : list (N * N)) : Prop :=
  forall l1 a l2, l = l1 ++ a :: l2 -> forall c, In c l2 -> snd a < snd c.

Lemma sorted2_tail a l : sorted2 (a :: l) -> sorted2 l.
Proof. intros H l1 a' l2 E c Hc. apply (H (a :: l1) a' l2); [rewrite E; reflexivity|exact Hc]. Qed.

Lemma sorted2_head a l : sorted2 (a :: l) -> forall c, In c l -> snd a < snd c.
Proof. intros H c Hc. apply (H [] a l); [reflexivity|exact Hc]. Qed.

Lemma sorted2_app_l l1 l2 : sorted2 (l1 ++ l2) -> sorted2 l1.
Proof.
  intros H m1 a m2 E c Hc. apply (H m1 a (m2 ++ l2)); [rewrite E, <- app_assoc; reflexivity|].
  apply in_or_app. left; exact Hc.
Qed.

Lemma sorted2_app_r l1 l2 : sorted2 (l1 ++ l2) -> sorted2 l2.
Proof. induction l1 as [|a l1 IH]; [auto|]. cbn [app]. intro H. apply IH. eapply sorted2_tail; eauto. Qed.

Lemma sorted2_cross l1 l2 : sorted2 (l1 ++ l2) -> forall a c, In a l1 -> In c l2 -> snd a < snd c.
Proof.
  intros H a c Ha Hc. apply in_split in Ha. destruct Ha as (m1 & m2 & ->).
  apply (H m1 a (m2 ++ l2)); [rewrite <- app_assoc; reflexivity|]. apply in_or_app. right; exact Hc.
Qed.

Lemma sorted2_snoc l a : sorted2 l -> (forall c, In c l -> snd c < snd a) -> sorted2 (l ++ [a]).
Proof.
  intros Hs Hlt l1 a' l2 E c Hc.
  destruct l2 as [|z l2'] using rev_ind.
  - destruct Hc.
  - clear IHl2'. rewrite app_comm_cons, app_assoc in E. apply app_inj_tail in E. destruct E as [E ->].
    apply in_app_or in Hc. destruct Hc as [Hc|[<-|[]]].
    + apply (Hs l1 a' l2'); [exact E|exact Hc].
    + apply Hlt. rewrite E. apply in_or_app. right. left. reflexivity.
Qed.

(* positions follow stamps inside one batch *)
Lemma mk_runs_sh_order l k rb re : sorted2 l -> forall pos ra rb' ea eb,
  In ra (mk_runs_sh l k rb re pos) -> In rb' (mk_runs_sh l k rb re pos) ->
  In (r_task ra, ea) l -> In (r_task rb', eb) l ->
  (forall x e e', In (x, e) l -> In (x, e') l -> e = e') ->
  ea < eb -> r_pos ra < r_pos rb'.
Proof.
  induction l as [|[x e] l IH]; intros Hs pos ra rb' ea eb Ha Hb Hea Heb Huniq Hlt; [destruct Ha|].
  cbn [mk_runs_sh] in Ha, Hb.
  assert (Htail : forall r, In r (mk_runs_sh l k rb re (pos + 1)) -> exists e0, In (r_task r, e0) l /\ pos + 1 <= r_pos r).
  { intros r Hr. destruct (mk_runs_sh_spec _ _ _ _ _ _ Hr) as (_ & _ & _ & D & e0 & E). exists e0. split; [exact E|lia]. }
  destruct Ha as [<-|Ha], Hb as [<-|Hb]; cbn [r_task r_pos] in *.
  - assert (ea = eb) by (eapply Huniq; eauto). lia.
  - destruct (Htail _ Hb) as (e0 & _ & Hp). lia.
  - exfalso. destruct (Htail _ Ha) as (e0 & Hin0 & _).
    assert (E1 : ea = e0) by (eapply Huniq; [exact Hea|right; exact Hin0]).
    assert (E2 : eb = e) by (eapply Huniq; [exact Heb|left; reflexivity]).
    pose proof (sorted2_head _ _ Hs _ Hin0) as Hh. cbn [snd] in Hh. lia.
  - destruct (Htail _ Ha) as (e0 & Hin0 & _). destruct (Htail _ Hb) as (e1 & Hin1 & _).
    assert (E1 : ea = e0) by (eapply Huniq; [exact Hea|right; exact Hin0]).
    assert (E2 : eb = e1) by (eapply Huniq; [exact Heb|right; exact Hin1]).
    subst. apply (IH (sorted2_tail _ _ Hs) (pos + 1) ra rb' e0 e1); auto.
    intros x0 e2 e3 H2 H3. eapply Huniq; right; eauto.
Qed.

Section MailboxProof.
Variable cf : cfg.

Notation m_step := (m_step cf).
Notation m_run := (m_run cf).
Notation m_hist := (m_hist cf).
Notation mbmax := (mbmax cf).
Notation nshards := (nshards cf).

Definition pc_task (p : mpc) : option (N * N * nat) :=
  match p with
  | MIdle => None
  | MCheck x st k | MLock x st k => Some (x, st, k)
  end.

Definition tok_db (p : tpc) : option N :=
  match p with
  | TNext db | TCollect db _ | THandler db _ _ | TFinish db _ => Some db
  | _ => None
  end.

Definition okset (subs : list sub) (x : N) : Prop :=
  exists sb, In sb subs /\ s_task sb = x /\ s_res sb = ROk.

Definition all_tasks (s : mstate) : list N := flat_map sh_tasks (m_shards s) ++ map r_task (m_runs s).

Definition close_inv (b : N) (s : mstate) : Prop :=
  match m_close s with
  | CIdle => m_closed s = false /\ m_shclosed s = false /\ m_clos s = []
  | CStart cb => m_closed s = false /\ m_shclosed s = false /\ m_clos s = [] /\ cb = m_cb s /\ cb <= b
  | CMid cb => m_closed s = true /\ m_shclosed s = false /\ m_clos s = [] /\ cb = m_cb s /\ cb <= b
  | CWait cb => m_closed s = true /\ m_shclosed s = true /\ m_clos s = [] /\ cb = m_cb s /\ cb <= b
  | CDone => m_closed s = true /\ m_shclosed s = true /\ all_unscheduled (m_shards s) = true
             /\ exists ce, m_clos s = [Clo (m_cb s) ce true] /\ m_cb s < ce /\ ce <= b
                  /\ (forall r, In r (m_runs s) -> r_e r < ce)
  end.

Record MInvB (b : N) (s : mstate) : Prop := {
  q_subs : forall sb, In sb (m_subs s) -> s_task sb <= b /\ s_b sb < s_e sb /\ s_e sb <= b
                                          /\ s_shard sb < N.of_nat (length (m_shards s));
  q_subs_nd : NoDup (map s_task (m_subs s));
  q_pcs : forall t x st k, pc_task (m_pc s t) = Some (x, st, k) ->
            x <= b /\ st <= b /\ ~ In x (map s_task (m_subs s)) /\ (k < length (m_shards s))%nat;
  q_pcs_d : forall t t' x st k x' st' k', t <> t' -> pc_task (m_pc s t) = Some (x, st, k) ->
            pc_task (m_pc s t') = Some (x', st', k') -> x <> x';
  q_len : length (m_shards s) = nshards;
  (* stamps *)
  q_runs : forall r, In r (m_runs s) -> r_b r < r_e r /\ r_e r <= b /\ r_pos r < N.max 1 (c_batch cf);
  q_drains : forall d, In d (m_drains s) -> d_b d < d_e d /\ d_e d <= b;
  q_tok_db : forall k db, tok_db (sh_tok (m_sh s k)) = Some db -> db <= b;
  q_tok_rb : forall k db rb it, sh_tok (m_sh s k) = THandler db rb it -> rb <= b;
  q_stamp : forall k x e, In (x, e) (sh_items (m_sh s k)) -> e <= b;
  (* conservation *)
  q_once : forall x, (cnt x (all_tasks s) <= 1)%nat;
  q_link : forall k x e, In (x, e) (sh_items (m_sh s k)) ->
             exists sb, In sb (m_subs s) /\ s_task sb = x /\ s_res sb = ROk /\ s_shard sb = N.of_nat k /\ s_e sb = e;
  q_run_link : forall r, In r (m_runs s) ->
             exists sb, In sb (m_subs s) /\ s_task sb = r_task r /\ s_res sb = ROk /\ s_shard sb = r_shard r;
  q_ok_pl : forall x, okset (m_subs s) x -> In x (all_tasks s);
  q_items_len : forall k, (length (tok_items (sh_tok (m_sh s k))) <= mbmax)%nat;
  (* one drain per shard *)
  q_dr_sorted : forall l1 a l2, m_drains s = l1 ++ a :: l2 ->
                  forall d, In d l2 -> d_shard d = d_shard a -> d_e d < d_b a;
  q_dr_active : forall k db, tok_db (sh_tok (m_sh s k)) = Some db ->
                  forall d, In d (m_drains s) -> d_shard d = N.of_nat k -> d_e d < db;
  q_run_sorted : forall l1 a l2, m_runs s = l1 ++ a :: l2 ->
                  forall r, In r l2 -> r_shard r = r_shard a -> r_b r = r_b a \/ r_e r < r_b a;
  q_run_active : forall k db rb it, sh_tok (m_sh s k) = THandler db rb it ->
                  forall r, In r (m_runs s) -> r_shard r = N.of_nat k -> r_e r < rb;
  (* FIFO *)
  q_sorted : forall k, sorted2 (sh_items (m_sh s k));
  q_run_items : forall r sb, In r (m_runs s) -> In sb (m_subs s) -> s_task sb = r_task r ->
                  forall k, r_shard r = N.of_nat k -> forall y e, In (y, e) (sh_items (m_sh s k)) -> s_e sb < e;
  q_fifo : forall ra rb sa sb, In ra (m_runs s) -> In rb (m_runs s) -> r_shard ra = r_shard rb ->
             In sa (m_subs s) -> In sb (m_subs s) -> s_task sa = r_task ra -> s_task sb = r_task rb ->
             s_e sa < s_e sb -> run_before ra rb = true;
  (* the K2 window leaves a trace: the shard had a drain *)
  q_ktwo : forall k, (k < length (m_shards s))%nat -> sh_tok (m_sh s k) = TNone -> sh_queue (m_sh s k) <> [] ->
           exists d, In d (m_drains s) /\ d_shard d = N.of_nat k;
  q_shc : m_shclosed s = true -> m_closed s = true;
  q_close : close_inv b s;
  q_cb : m_cb s <= b;
  (* after the drain's last empty check nothing of the shard runs any more, and what is queued arrived later *)
  q_fin : forall k db te, sh_tok (m_sh s k) = TFinish db te ->
            te <= b /\ (forall r, In r (m_runs s) -> r_shard r = N.of_nat k -> r_b r < te)
            /\ (forall x e, In (x, e) (sh_queue (m_sh s k)) -> te < e);
  q_none : forall k, sh_tok (m_sh s k) = TNone -> forall x e, In (x, e) (sh_queue (m_sh s k)) ->
            forall r, In r (m_runs s) -> r_shard r = N.of_nat k -> r_b r < e }.

Definition MInv (s : mstate) : Prop := MInvB (m_now s) s.

(* ---- small facts ----------------------------------------------------------------------------- *)

Lemma okset_cons_notok sb subs x : s_res sb <> ROk -> (okset (sb :: subs) x <-> okset subs x).
Proof.
  intro H. split.
  - intros (s0 & [<-|Hin] & E1 & E2); [contradiction|]. exists s0. auto.
  - intros (s0 & Hin & E). exists s0. split; [right; exact Hin|exact E].
Qed.

Lemma okset_cons_ok x0 sh st e subs x :
  okset (Sub x0 sh st e ROk :: subs) x <-> x = x0 \/ okset subs x.
Proof.
  split.
  - intros (s0 & [<-|Hin] & E1 & E2); [left; symmetry; exact E1|right; exists s0; auto].
  - intros [->|(s0 & Hin & E)].
    + eexists. split; [left; reflexivity|split; reflexivity].
    + exists s0. split; [right; exact Hin|exact E].
Qed.

Lemma mbmax_pos : (1 <= mbmax)%nat.
Proof. unfold Model.WorkQueue_mailbox.mbmax. lia. Qed.

Lemma all_unscheduled_nth l k : all_unscheduled l = true -> sh_tok (nth k l sh0) = TNone.
Proof.
  intro H. destruct (nth_In_or_default k l sh0) as [Hin|E]; [|rewrite E; reflexivity].
  unfold all_unscheduled in H. rewrite forallb_forall in H. specialize (H _ Hin).
  destruct (sh_tok (nth k l sh0)); try discriminate. reflexivity.
Qed.

Ltac prj := cbn [m_now m_closed m_shclosed m_shards m_pcs m_close m_cb m_subs m_runs m_drains m_clos
                 s_task s_shard s_b s_e s_res r_task r_shard r_b r_e r_pos d_shard d_b d_e map] in *.

Ltac unf := unfold MInv, all_tasks, close_inv in *;
            unfold m_set_pc, m_ret, m_set_sh, m_upd, m_set_close, m_tick in *;
            unfold m_pc, m_sh in *; prj.

(* ---- preservation ---------------------------------------------------------------------------- *)

Lemma inv_mono b b' s : b <= b' -> MInvB b s -> MInvB b' s.
Proof.
  intros Hb [ ]. constructor; auto.
  - intros sb Hsb. destruct (q_subs0 sb Hsb) as (A & B & C & D). repeat split; auto; lia.
  - intros t x st k E. destruct (q_pcs0 t x st k E) as (A & B & C & D). repeat split; auto; lia.
  - intros r Hr. destruct (q_runs0 r Hr) as (A & B & C). repeat split; auto; lia.
  - intros d Hd. destruct (q_drains0 d Hd) as (A & B). split; auto; lia.
  - intros k db E. specialize (q_tok_db0 k db E). lia.
  - intros k db rb it E. specialize (q_tok_rb0 k db rb it E). lia.
  - intros k x e E. specialize (q_stamp0 k x e E). lia.
  - unfold close_inv in *. destruct (m_close s); auto.
    + destruct q_close0 as (A & B & C & D & E). repeat split; auto; lia.
    + destruct q_close0 as (A & B & C & D & E). repeat split; auto; lia.
    + destruct q_close0 as (A & B & C & D & E). repeat split; auto; lia.
    + destruct q_close0 as (A & B & C & ce & D & E & F & G). repeat split; auto.
      exists ce. repeat split; auto; lia.
  - lia.
  - intros k db te E. destruct (q_fin0 k db te E) as (A & B & C). repeat split; auto; lia.
Qed.

Lemma inv_tick s : MInv s -> MInvB (m_now s) (m_tick s).
Proof. intros [ ]. constructor; auto. Qed.

Lemma inv_call b s t k : MInvB b s -> b < m_now s -> m_pc s t = MIdle -> (k < length (m_shards s))%nat ->
  MInv (m_set_pc s t (MCheck (m_now s) (m_now s) k)).
Proof.
  intros HI Hb Hpc Hk. pose proof (inv_mono b (m_now s) s ltac:(lia) HI) as HM.
  pose proof (q_subs _ _ HI) as H1. pose proof (q_pcs _ _ HI) as H3. destruct HM as [ ].
  destruct s as [now closed shclosed shards pcs close cb subs runs drains clos]. unf.
  constructor; unf; auto.
  - intros t0 x st k0. rewrite nth_set_nth. destruct (Nat.eqb_spec t t0) as [E|Hne]; [|apply q_pcs0].
    cbn [pc_task]. intro E'. inversion E'; subst. repeat split; try lia.
    intro Hin. apply in_map_iff in Hin. destruct Hin as (sb & Es & Hin).
    destruct (H1 sb Hin) as (A & _). lia.
  - intros t0 t' x st k0 x' st' k' Hne. rewrite !nth_set_nth.
    destruct (Nat.eqb_spec t t0) as [E0|N0]; destruct (Nat.eqb_spec t t') as [E1|N1]; try congruence.
    + cbn [pc_task]. intros E E'. inversion E; subst. destruct (H3 _ _ _ _ E') as (A & _). lia.
    + cbn [pc_task]. intros E E'. inversion E'; subst. destruct (H3 _ _ _ _ E) as (A & _). lia.
    + apply q_pcs_d0. exact Hne.
Qed.

Lemma inv_pc_move b s t p : MInvB b s -> pc_task p = pc_task (m_pc s t) -> MInvB b (m_set_pc s t p).
Proof.
  intros [ ] Hp.
  destruct s as [now closed shclosed shards pcs close cb subs runs drains clos]. unf.
  constructor; unf; auto.
  - intros t0 x st k0. rewrite nth_set_nth. destruct (Nat.eqb_spec t t0) as [E|Hne]; [|apply q_pcs0].
    rewrite Hp. apply q_pcs0.
  - intros t0 t' x st k0 x' st' k' Hne. rewrite !nth_set_nth.
    destruct (Nat.eqb_spec t t0) as [E0|N0]; destruct (Nat.eqb_spec t t') as [E1|N1]; try congruence;
      try subst t0; try subst t'; rewrite ?Hp; apply q_pcs_d0; exact Hne.
Qed.

(* facts about a fresh Submit record, shared by rejection and admission *)
Lemma run_task_in_subs b s r : MInvB b s -> In r (m_runs s) -> In (r_task r) (map s_task (m_subs s)).
Proof.
  intros HI Hr. destruct (q_run_link _ _ HI r Hr) as (sb & Hin & E & _). rewrite <- E. apply in_map. exact Hin.
Qed.

Lemma inv_ret_rej b s t x st k r : MInvB b s -> b < m_now s -> pc_task (m_pc s t) = Some (x, st, k) ->
  r <> ROk -> MInv (m_ret s t x st k r (m_shards s)).
Proof.
  intros HI Hb Hpc Hr. pose proof (inv_mono b (m_now s) s ltac:(lia) HI) as HM.
  pose proof (q_pcs _ _ HI) as H3. assert (Hrt : forall r0, In r0 (m_runs s) -> In (r_task r0) (map s_task (m_subs s))) by (intros r0; apply (run_task_in_subs b s r0 HI)).
  destruct HM as [ ].
  destruct s as [now closed shclosed shards pcs close cb subs runs drains clos]. unf.
  destruct (H3 _ _ _ _ Hpc) as (Hx & Hst & Hfresh & Hk).
  constructor; unf; auto.
  - intros sb [<-|Hin]; [|apply q_subs0; exact Hin]. prj. repeat split; try lia.
  - constructor; [exact Hfresh|exact q_subs_nd0].
  - intros t0 x0 st0 k0. rewrite nth_set_nth. destruct (Nat.eqb_spec t t0) as [E|Hne]; [discriminate|].
    intro E. destruct (q_pcs0 _ _ _ _ E) as (A & B & C & D). repeat split; auto.
    intros [E0|Hin]; [|apply C; exact Hin]. subst x0. apply (q_pcs_d0 t t0 x st k x st0 k0 Hne Hpc E). reflexivity.
  - intros t0 t' x0 st0 k0 x' st' k' Hne. rewrite !nth_set_nth.
    destruct (Nat.eqb_spec t t0) as [E0|N0]; destruct (Nat.eqb_spec t t') as [E1|N1]; try discriminate.
    apply q_pcs_d0. exact Hne.
  - intros k0 x0 e Hin. destruct (q_link0 k0 x0 e Hin) as (sb & A & B). exists sb. split; [right; exact A|exact B].
  - intros r0 Hr0. destruct (q_run_link0 r0 Hr0) as (sb & A & B). exists sb. split; [right; exact A|exact B].
  - intros x0 Hx0. apply okset_cons_notok in Hx0; [|exact Hr]. apply q_ok_pl0. exact Hx0.
  - intros r0 sb Hr0 [<-|Hsb] Et; [prj; exfalso; apply Hfresh; rewrite Et; apply Hrt; exact Hr0|].
    apply (q_run_items0 r0 sb Hr0 Hsb Et).
  - intros ra rb sa sb Hra Hrb Hs [<-|Hsa] [<-|Hsb] Ea Eb; prj;
      try (exfalso; apply Hfresh; rewrite Ea; apply Hrt; assumption);
      try (exfalso; apply Hfresh; rewrite Eb; apply Hrt; assumption).
    apply (q_fifo0 ra rb sa sb); assumption.
Qed.

Lemma tok_sched_items sh : tok_items (match sh_tok sh with TNone => TSched | q => q end) = tok_items (sh_tok sh).
Proof. destruct (sh_tok sh); reflexivity. Qed.

(* the shard.mu critical section admits the item *)
Lemma inv_ret_ok b s t x st k : MInvB b s -> b < m_now s -> pc_task (m_pc s t) = Some (x, st, k) ->
  m_closed s = false ->
  MInv (m_ret s t x st k ROk
          (set_nth k (Sh (sh_queue (m_sh s k) ++ [(x, m_now s)])
                         (match sh_tok (m_sh s k) with TNone => TSched | p => p end)) sh0 (m_shards s))).
Proof.
  intros HI Hb Hpc Hcl. pose proof (inv_mono b (m_now s) s ltac:(lia) HI) as HM.
  pose proof (q_pcs _ _ HI) as H3. pose proof (q_subs _ _ HI) as H1. pose proof (q_stamp _ _ HI) as Hstamp.
  assert (Hrt : forall r0, In r0 (m_runs s) -> In (r_task r0) (map s_task (m_subs s))) by (intros r0; apply (run_task_in_subs b s r0 HI)).
  destruct HM as [ ].
  destruct s as [now closed shclosed shards pcs close cb subs runs drains clos]. unf. subst closed.
  destruct (H3 _ _ _ _ Hpc) as (Hx & Hst & Hfresh & Hk).
  set (old := nth k shards sh0) in *.
  set (new := Sh (sh_queue old ++ [(x, now)]) (match sh_tok old with TNone => TSched | p => p end)).
  assert (Hit : sh_items new = sh_items old ++ [(x, now)]).
  { unfold sh_items, new. cbn [sh_tok sh_queue]. rewrite tok_sched_items, app_assoc. reflexivity. }
  assert (Htk : sh_tasks new = sh_tasks old ++ [x]).
  { unfold sh_tasks. rewrite Hit, map_app. reflexivity. }
  assert (Hlen : length (set_nth k new sh0 shards) = length shards) by (apply length_set_nth; exact Hk).
  assert (Hnth : forall k0, nth k0 (set_nth k new sh0 shards) sh0 = if Nat.eqb k k0 then new else nth k0 shards sh0)
    by (intro k0; apply nth_set_nth).
  assert (Hnotin : ~ In x (flat_map sh_tasks shards ++ map r_task runs)).
  { intro Hin. apply in_app_or in Hin. destruct Hin as [Hin|Hin].
    - apply in_flat_map_nth in Hin. destruct Hin as (k0 & _ & Hin). unfold sh_tasks in Hin.
      apply in_map_iff in Hin. destruct Hin as ([x0 e0] & E & Hin). cbn [fst] in E. subst x0.
      destruct (q_link0 k0 x e0 Hin) as (sb & A & B & _). apply Hfresh. rewrite <- B. apply in_map. exact A.
    - apply in_map_iff in Hin. destruct Hin as (r0 & E & Hr0). apply Hfresh. rewrite <- E. apply Hrt. exact Hr0. }
  assert (Hcnt : forall y, cnt y (flat_map sh_tasks (set_nth k new sh0 shards) ++ map r_task runs)
                  = ((if N.eqb x y then 1 else 0) + cnt y (flat_map sh_tasks shards ++ map r_task runs))%nat).
  { intro y. pose proof (cnt_shards_set_nth y k new shards Hk) as E. fold old in E. rewrite Htk in E.
    rewrite !cnt_app in *. rewrite cnt_cons, cnt_nil in E. lia. }
  constructor; unf; rewrite ?Hlen; auto.
  - intros sb [<-|Hin]; [|apply q_subs0; exact Hin]. prj. repeat split; try lia.
  - constructor; [exact Hfresh|exact q_subs_nd0].
  - intros t0 x0 st0 k0. rewrite nth_set_nth. destruct (Nat.eqb_spec t t0) as [E|Hne]; [discriminate|].
    intro E. destruct (q_pcs0 _ _ _ _ E) as (A & B & C & D). repeat split; auto.
    intros [E0|Hin]; [|apply C; exact Hin]. subst x0. apply (q_pcs_d0 t t0 x st k x st0 k0 Hne Hpc E). reflexivity.
  - intros t0 t' x0 st0 k0 x' st' k' Hne. rewrite !nth_set_nth.
    destruct (Nat.eqb_spec t t0) as [E0|N0]; destruct (Nat.eqb_spec t t') as [E1|N1]; try discriminate.
    apply q_pcs_d0. exact Hne.
  - intros k0 db. rewrite Hnth. destruct (Nat.eqb_spec k k0) as [E|N0]; [|apply q_tok_db0].
    unfold new. cbn [sh_tok]. intro E0. apply (q_tok_db0 k db). fold old. destruct (sh_tok old); try discriminate; exact E0.
  - intros k0 db rb it. rewrite Hnth. destruct (Nat.eqb_spec k k0) as [E|N0]; [|apply q_tok_rb0].
    unfold new. cbn [sh_tok]. intro E0. apply (q_tok_rb0 k db rb it). fold old. destruct (sh_tok old); try discriminate; exact E0.
  - intros k0 x0 e. rewrite Hnth. destruct (Nat.eqb_spec k k0) as [E|N0]; [|apply q_stamp0].
    rewrite Hit. intro Hin. apply in_app_or in Hin. destruct Hin as [Hin|[E0|[]]].
    + apply (q_stamp0 k x0 e). exact Hin.
    + inversion E0; subst. lia.
  - intro y. rewrite Hcnt. destruct (N.eqb_spec x y) as [E|E]; [|apply q_once0].
    subst y. assert (cnt x (flat_map sh_tasks shards ++ map r_task runs) = 0%nat).
    { pose proof (cnt_In x (flat_map sh_tasks shards ++ map r_task runs)) as X.
      destruct (cnt x (flat_map sh_tasks shards ++ map r_task runs)); [reflexivity|]. exfalso. apply Hnotin. apply X. lia. }
    lia.
  - intros k0 x0 e. rewrite Hnth. destruct (Nat.eqb_spec k k0) as [E|N0].
    + rewrite Hit. intro Hin. apply in_app_or in Hin. destruct Hin as [Hin|[E0|[]]].
      * subst k0. destruct (q_link0 k x0 e Hin) as (sb & A & B). exists sb. split; [right; exact A|exact B].
      * inversion E0; subst. eexists. split; [left; reflexivity|]. prj. repeat split; reflexivity.
    + intro Hin. destruct (q_link0 k0 x0 e Hin) as (sb & A & B). exists sb. split; [right; exact A|exact B].
  - intros r0 Hr0. destruct (q_run_link0 r0 Hr0) as (sb & A & B). exists sb. split; [right; exact A|exact B].
  - intros y Hy. apply okset_cons_ok in Hy. apply cnt_In. rewrite Hcnt. destruct Hy as [->|Hy].
    + rewrite N.eqb_refl. lia.
    + apply q_ok_pl0 in Hy. apply cnt_In in Hy. lia.
  - intros k0. rewrite Hnth. destruct (Nat.eqb_spec k k0) as [E|N0]; [|apply q_items_len0].
    unfold new. cbn [sh_tok]. rewrite tok_sched_items. apply q_items_len0.
  - intros k0 db. rewrite Hnth. destruct (Nat.eqb_spec k k0) as [E|N0]; [|apply q_dr_active0].
    unfold new. cbn [sh_tok]. intro E0. subst k0. apply (q_dr_active0 k db). fold old. destruct (sh_tok old); try discriminate; exact E0.
  - intros k0 db rb it. rewrite Hnth. destruct (Nat.eqb_spec k k0) as [E|N0]; [|apply q_run_active0].
    unfold new. cbn [sh_tok]. intro E0. subst k0. apply (q_run_active0 k db rb it). fold old. destruct (sh_tok old); try discriminate; exact E0.
  - intros k0. rewrite Hnth. destruct (Nat.eqb_spec k k0) as [E|N0]; [|apply q_sorted0].
    rewrite Hit. apply sorted2_snoc; [apply q_sorted0|]. intros [y e] Hc. cbn [snd].
    specialize (Hstamp k y e Hc). lia.
  - intros r0 sb Hr0 [<-|Hsb] Et; [prj; exfalso; apply Hfresh; rewrite Et; apply Hrt; exact Hr0|].
    intros k0 Ek y e. rewrite Hnth. destruct (Nat.eqb_spec k k0) as [E|N0].
    + rewrite Hit. intro Hin. apply in_app_or in Hin. destruct Hin as [Hin|[E0|[]]].
      * subst k0. apply (q_run_items0 r0 sb Hr0 Hsb Et k Ek y e Hin).
      * inversion E0; subst. destruct (H1 sb Hsb) as (_ & _ & X & _). lia.
    + apply (q_run_items0 r0 sb Hr0 Hsb Et k0 Ek y e).
  - intros ra rb sa sb Hra Hrb Hs [<-|Hsa] [<-|Hsb] Ea Eb; prj;
      try (exfalso; apply Hfresh; rewrite Ea; apply Hrt; assumption);
      try (exfalso; apply Hfresh; rewrite Eb; apply Hrt; assumption).
    apply (q_fifo0 ra rb sa sb); assumption.
  - intros k0 Hk0. rewrite Hnth. destruct (Nat.eqb_spec k k0) as [E|N0]; [|apply q_ktwo0; exact Hk0].
    unfold new. cbn [sh_tok]. intro E0. destruct (sh_tok old); discriminate.
  - destruct close; auto; destruct q_close0 as (X & _); discriminate.
  - intros k0 db te. rewrite Hnth. destruct (Nat.eqb_spec k k0) as [E|N0]; [|apply q_fin0].
    unfold new. cbn [sh_tok sh_queue]. intro E0. subst k0.
    assert (Eo : sh_tok old = TFinish db te) by (destruct (sh_tok old); try discriminate; exact E0).
    destruct (q_fin _ _ HI k db te Eo) as (A & B & C). repeat split; auto; try lia.
    intros x0 e Hin. apply in_app_or in Hin. destruct Hin as [Hin|[E1|[]]]; [apply (C x0 e Hin)|].
    inversion E1; subst. lia.
  - intros k0. rewrite Hnth. destruct (Nat.eqb_spec k k0) as [E|N0]; [|apply q_none0].
    unfold new. cbn [sh_tok]. intro E0. destruct (sh_tok old); discriminate.
Qed.

(* a drain step that neither consumes nor produces items (sh_items is unchanged) *)
Lemma inv_sh_same b s k sh' : MInvB b s -> (k < length (m_shards s))%nat ->
  sh_items sh' = sh_items (m_sh s k) -> sh_tok sh' <> TNone -> sh_tok (m_sh s k) <> TNone ->
  (length (tok_items (sh_tok sh')) <= mbmax)%nat ->
  (forall db, tok_db (sh_tok sh') = Some db ->
     db <= b /\ forall d, In d (m_drains s) -> d_shard d = N.of_nat k -> d_e d < db) ->
  (forall db rb it, sh_tok sh' = THandler db rb it ->
     rb <= b /\ forall r, In r (m_runs s) -> r_shard r = N.of_nat k -> r_e r < rb) ->
  (forall db te, sh_tok sh' = TFinish db te ->
     te <= b /\ (forall r, In r (m_runs s) -> r_shard r = N.of_nat k -> r_b r < te)
     /\ (forall x e, In (x, e) (sh_queue sh') -> te < e)) ->
  MInvB b (m_set_sh s k sh').
Proof.
  intros [ ] Hk Hit Hn Ho Hl Hdb Hrb Hfin.
  destruct s as [now closed shclosed shards pcs close cb subs runs drains clos]. unf.
  set (old := nth k shards sh0) in *.
  assert (Hlen : length (set_nth k sh' sh0 shards) = length shards) by (apply length_set_nth; exact Hk).
  assert (Hnth : forall k0, nth k0 (set_nth k sh' sh0 shards) sh0 = if Nat.eqb k k0 then sh' else nth k0 shards sh0)
    by (intro k0; apply nth_set_nth).
  assert (Hcnt : forall y, cnt y (flat_map sh_tasks (set_nth k sh' sh0 shards) ++ map r_task runs)
                  = cnt y (flat_map sh_tasks shards ++ map r_task runs)).
  { intro y. pose proof (cnt_shards_set_nth y k sh' shards Hk) as E. fold old in E.
    assert (Ht : sh_tasks sh' = sh_tasks old) by (unfold sh_tasks; rewrite Hit; reflexivity).
    rewrite Ht in E. rewrite !cnt_app. lia. }
  constructor; unf; rewrite ?Hlen; auto.
  - intros k0 db. rewrite Hnth. destruct (Nat.eqb_spec k k0) as [E|N0]; [|apply q_tok_db0]. intro E0. apply (Hdb db E0).
  - intros k0 db rb it. rewrite Hnth. destruct (Nat.eqb_spec k k0) as [E|N0]; [|apply q_tok_rb0]. intro E0. apply (Hrb db rb it E0).
  - intros k0 x e. rewrite Hnth. destruct (Nat.eqb_spec k k0) as [E|N0]; [|apply q_stamp0]. rewrite Hit. apply q_stamp0.
  - intro y. rewrite Hcnt. apply q_once0.
  - intros k0 x e. rewrite Hnth. destruct (Nat.eqb_spec k k0) as [E|N0]; [|apply q_link0]. subst k0. rewrite Hit. apply q_link0.
  - intros y Hy. apply cnt_In. rewrite Hcnt. apply cnt_In. apply q_ok_pl0. exact Hy.
  - intros k0. rewrite Hnth. destruct (Nat.eqb_spec k k0) as [E|N0]; [exact Hl|apply q_items_len0].
  - intros k0 db. rewrite Hnth. destruct (Nat.eqb_spec k k0) as [E|N0]; [|apply q_dr_active0]. subst k0. intro E0. apply (Hdb db E0).
  - intros k0 db rb it. rewrite Hnth. destruct (Nat.eqb_spec k k0) as [E|N0]; [|apply q_run_active0]. subst k0. intro E0. apply (Hrb db rb it E0).
  - intros k0. rewrite Hnth. destruct (Nat.eqb_spec k k0) as [E|N0]; [|apply q_sorted0]. rewrite Hit. apply q_sorted0.
  - intros r sb Hr Hsb Et k0 Ek y e. rewrite Hnth. destruct (Nat.eqb_spec k k0) as [E|N0].
    + subst k0. rewrite Hit. apply (q_run_items0 r sb Hr Hsb Et k Ek y e).
    + apply (q_run_items0 r sb Hr Hsb Et k0 Ek y e).
  - intros k0 Hk0. rewrite Hnth. destruct (Nat.eqb_spec k k0) as [E|N0]; [|apply q_ktwo0; exact Hk0].
    intro E0. contradiction.
  - destruct close; auto. destruct q_close0 as (_ & _ & A & _).
    exfalso. apply Ho. apply all_unscheduled_nth. exact A.
  - intros k0 db te. rewrite Hnth. destruct (Nat.eqb_spec k k0) as [E|N0]; [|apply q_fin0]. subst k0. apply Hfin.
  - intros k0. rewrite Hnth. destruct (Nat.eqb_spec k k0) as [E|N0]; [|apply q_none0]. intro E0. contradiction.
Qed.

Definition run_sorted (l : list runr) : Prop :=
  forall l1 a l2, l = l1 ++ a :: l2 -> forall r, In r l2 -> r_shard r = r_shard a -> r_b r = r_b a \/ r_e r < r_b a.

Lemma run_sorted_prepend blk runs rb K : run_sorted runs ->
  (forall n, In n blk -> r_b n = rb /\ r_shard n = K) ->
  (forall r, In r runs -> r_shard r = K -> r_e r < rb) ->
  run_sorted (blk ++ runs).
Proof.
  intros Hs Hb Ho. induction blk as [|n blk IH]; [exact Hs|].
  intros l1 a l2 E r Hr Hsh. destruct l1 as [|y l1]; cbn [app] in E; inversion E; subst.
  - destruct (Hb a (or_introl eq_refl)) as (Ea & Eb). apply in_app_or in Hr. destruct Hr as [Hr|Hr].
    + left. destruct (Hb r (or_intror Hr)) as (Er & _). congruence.
    + right. rewrite Ea. apply Ho; [exact Hr|congruence].
  - apply (IH (fun n0 Hn0 => Hb n0 (or_intror Hn0)) l1 a l2 H1 r Hr Hsh).
Qed.

(* the handler returns: the batch's items become run records *)
Lemma inv_handler_end b s k db rb items : MInvB b s -> b < m_now s -> (k < length (m_shards s))%nat ->
  sh_tok (m_sh s k) = THandler db rb items ->
  let s' := m_set_sh s k (Sh (sh_queue (m_sh s k)) (TNext db)) in
  MInv (MSt (m_now s') (m_closed s') (m_shclosed s') (m_shards s') (m_pcs s') (m_close s') (m_cb s') (m_subs s')
          (mk_runs_sh items (N.of_nat k) rb (m_now s) 0 ++ m_runs s') (m_drains s') (m_clos s')).
Proof.
  intros HI Hb Hk Htok. pose proof (q_tok_rb _ _ HI k db rb items Htok) as Hrb.
  apply (inv_mono b (m_now s)) in HI; [|lia]. destruct HI as [ ].
  destruct s as [now closed shclosed shards pcs close cb subs runs drains clos]. unf.
  set (old := nth k shards sh0) in *. set (q := sh_queue old). set (new := Sh q (TNext db)).
  set (NEW := mk_runs_sh items (N.of_nat k) rb now 0).
  assert (Hold : sh_items old = items ++ q) by (unfold sh_items; rewrite Htok; reflexivity).
  assert (Hnew : sh_items new = q) by reflexivity.
  assert (Hlen : length (set_nth k new sh0 shards) = length shards) by (apply length_set_nth; exact Hk).
  assert (Hnth : forall k0, nth k0 (set_nth k new sh0 shards) sh0 = if Nat.eqb k k0 then new else nth k0 shards sh0)
    by (intro k0; apply nth_set_nth).
  assert (Hcnt : forall y, cnt y (flat_map sh_tasks (set_nth k new sh0 shards) ++ map r_task (NEW ++ runs))
                  = cnt y (flat_map sh_tasks shards ++ map r_task runs)).
  { intro y. pose proof (cnt_shards_set_nth y k new shards Hk) as E. fold old in E.
    unfold sh_tasks in E at 2 4. rewrite Hold, Hnew, map_app in E.
    unfold NEW. rewrite map_app, map_task_mk_runs_sh, !cnt_app in *. lia. }
  assert (HNEW : forall r, In r NEW -> r_b r = rb /\ r_e r = now /\ r_shard r = N.of_nat k
                              /\ r_pos r < N.of_nat (length items) /\ exists e, In (r_task r, e) items).
  { intros r Hr. destruct (mk_runs_sh_spec _ _ _ _ _ _ Hr) as (A & B & C & D & E). repeat split; auto. lia. }
  assert (Hitq : forall x e, In (x, e) items -> In (x, e) (sh_items old)) by (intros; rewrite Hold; apply in_or_app; left; assumption).
  assert (Hqq : forall x e, In (x, e) q -> In (x, e) (sh_items old)) by (intros; rewrite Hold; apply in_or_app; right; assumption).
  (* the Submit record of an item is unique *)
  assert (Hse : forall x e sb, In (x, e) (sh_items old) -> In sb subs -> s_task sb = x -> s_e sb = e).
  { intros x e sb Hin Hsb Et. destruct (q_link0 k x e Hin) as (sb0 & A & B & _ & _ & C).
    assert (sb0 = sb) by (eapply NoDup_map_inj; [exact q_subs_nd0|exact A|exact Hsb|congruence]). subst sb0. exact C. }
  assert (Hilen : (length items <= mbmax)%nat) by (specialize (q_items_len0 k); fold old in q_items_len0; rewrite Htok in q_items_len0; exact q_items_len0).
  pose proof (q_run_active0 k db rb items Htok) as Hact.
  pose proof (q_sorted0 k) as Hsort. fold old in Hsort. rewrite Hold in Hsort.
  constructor; unf; rewrite ?Hlen; auto.
  - intros r Hr. apply in_app_or in Hr. destruct Hr as [Hr|Hr]; [|apply q_runs0; exact Hr].
    destruct (HNEW r Hr) as (A & B & C & D & _). rewrite A, B. repeat split; try lia.
    unfold Model.WorkQueue_mailbox.mbmax in Hilen. lia.
  - intros k0 db0. rewrite Hnth. destruct (Nat.eqb_spec k k0) as [E|N0]; [|apply q_tok_db0].
    cbn [new sh_tok tok_db]. intro E0. assert (Edb : db0 = db) by congruence. subst db0. apply (q_tok_db0 k db). fold old. rewrite Htok. reflexivity.
  - intros k0 db0 rb0 it0. rewrite Hnth. destruct (Nat.eqb_spec k k0) as [E|N0]; [discriminate|apply q_tok_rb0].
  - intros k0 x e. rewrite Hnth. destruct (Nat.eqb_spec k k0) as [E|N0]; [|apply q_stamp0].
    rewrite Hnew. intro Hin. apply (q_stamp0 k x e). apply Hqq. exact Hin.
  - intro y. rewrite Hcnt. apply q_once0.
  - intros k0 x e. rewrite Hnth. destruct (Nat.eqb_spec k k0) as [E|N0]; [|apply q_link0].
    subst k0. rewrite Hnew. intro Hin. apply (q_link0 k x e). apply Hqq. exact Hin.
  - intros r Hr. apply in_app_or in Hr. destruct Hr as [Hr|Hr]; [|apply q_run_link0; exact Hr].
    destruct (HNEW r Hr) as (_ & _ & C & _ & e & Hin).
    destruct (q_link0 k _ e (Hitq _ _ Hin)) as (sb & A & B & D & F & _). exists sb. repeat split; auto. congruence.
  - intros y Hy. apply cnt_In. rewrite Hcnt. apply cnt_In. apply q_ok_pl0. exact Hy.
  - intros k0. rewrite Hnth. destruct (Nat.eqb_spec k k0) as [E|N0]; [cbn; lia|apply q_items_len0].
  - intros k0 db0. rewrite Hnth. destruct (Nat.eqb_spec k k0) as [E|N0]; [|apply q_dr_active0].
    subst k0. cbn [new sh_tok tok_db]. intro E0. assert (Edb : db0 = db) by congruence. subst db0. apply (q_dr_active0 k db). fold old. rewrite Htok. reflexivity.
  - apply (run_sorted_prepend NEW runs rb (N.of_nat k)); [exact q_run_sorted0| |exact Hact].
    intros n Hn. destruct (HNEW n Hn) as (A & _ & C & _). split; assumption.
  - intros k0 db0 rb0 it0. rewrite Hnth. destruct (Nat.eqb_spec k k0) as [E|N0]; [discriminate|].
    intros E0 r Hr Hs. apply in_app_or in Hr. destruct Hr as [Hr|Hr]; [|apply (q_run_active0 k0 db0 rb0 it0 E0 r Hr Hs)].
    destruct (HNEW r Hr) as (_ & _ & C & _). rewrite C in Hs. apply Nat2N.inj in Hs. contradiction.
  - intros k0. rewrite Hnth. destruct (Nat.eqb_spec k k0) as [E|N0]; [|apply q_sorted0].
    rewrite Hnew. eapply sorted2_app_r. exact Hsort.
  - intros r sb Hr Hsb Et k0 Ek y e. rewrite Hnth. apply in_app_or in Hr. destruct Hr as [Hr|Hr].
    + destruct (HNEW r Hr) as (_ & _ & C & _ & er & Hin). rewrite C in Ek. apply Nat2N.inj in Ek. subst k0.
      rewrite Nat.eqb_refl, Hnew. intro Hy.
      rewrite (Hse _ er sb (Hitq _ _ Hin) Hsb Et).
      apply (sorted2_cross _ _ Hsort (r_task r, er) (y, e) Hin Hy).
    + destruct (Nat.eqb_spec k k0) as [E|N0].
      * subst k0. rewrite Hnew. intro Hy. apply (q_run_items0 r sb Hr Hsb Et k Ek y e). apply Hqq. exact Hy.
      * apply (q_run_items0 r sb Hr Hsb Et k0 Ek y e).
  - intros ra rb' sa sb Hra Hrb' Hs Hsa Hsb Ea Eb Hlt.
    apply in_app_or in Hra. apply in_app_or in Hrb'. destruct Hra as [Hra|Hra], Hrb' as [Hrb'|Hrb'].
    + destruct (HNEW ra Hra) as (A1 & _ & _ & _ & ea & Hia). destruct (HNEW rb' Hrb') as (A2 & _ & _ & _ & eb & Hib).
      unfold run_before. rewrite A1, A2, N.eqb_refl. cbn [andb]. apply orb_true_iff. right. apply N.ltb_lt.
      apply (mk_runs_sh_order items (N.of_nat k) rb now (sorted2_app_l _ _ Hsort) 0 ra rb' (s_e sa) (s_e sb)); auto.
      * rewrite (Hse _ ea sa (Hitq _ _ Hia) Hsa Ea). exact Hia.
      * rewrite (Hse _ eb sb (Hitq _ _ Hib) Hsb Eb). exact Hib.
      * intros x e e' H1 H2. destruct (q_link0 k x e (Hitq _ _ H1)) as (s1 & P1 & P2 & _ & _ & P3).
        rewrite <- P3. apply (Hse x e' s1 (Hitq _ _ H2) P1 P2).
    + exfalso. destruct (HNEW ra Hra) as (_ & _ & C & _ & ea & Hia).
      pose proof (q_run_items0 rb' sb Hrb' Hsb Eb k ltac:(congruence) _ ea (Hitq _ _ Hia)) as X.
      rewrite (Hse _ ea sa (Hitq _ _ Hia) Hsa Ea) in Hlt. lia.
    + destruct (HNEW rb' Hrb') as (A2 & _ & C & _). unfold run_before. apply orb_true_iff. left. apply N.ltb_lt.
      rewrite A2. pose proof (Hact ra Hra ltac:(congruence)) as X. destruct (q_runs0 ra Hra) as (Y & _). lia.
    + apply (q_fifo0 ra rb' sa sb); assumption.
  - intros k0 Hk0. rewrite Hnth. destruct (Nat.eqb_spec k k0) as [E|N0]; [discriminate|apply q_ktwo0; exact Hk0].
  - destruct close; auto. destruct q_close0 as (_ & _ & A & _).
    pose proof (all_unscheduled_nth shards k A) as X. fold old in X. rewrite Htok in X. discriminate.
  - intros k0 db0 te. rewrite Hnth. destruct (Nat.eqb_spec k k0) as [E|N0]; [discriminate|].
    intro E0. destruct (q_fin0 k0 db0 te E0) as (A & B & C). repeat split; auto.
    intros r Hr Hs. apply in_app_or in Hr. destruct Hr as [Hr|Hr]; [|apply B; assumption].
    destruct (HNEW r Hr) as (_ & _ & C' & _). rewrite C' in Hs. apply Nat2N.inj in Hs. contradiction.
  - intros k0. rewrite Hnth. destruct (Nat.eqb_spec k k0) as [E|N0]; [discriminate|].
    intros E0 x e Hin r Hr Hs. apply in_app_or in Hr. destruct Hr as [Hr|Hr]; [|apply (q_none0 k0 E0 x e Hin r Hr Hs)].
    destruct (HNEW r Hr) as (_ & _ & C' & _). rewrite C' in Hs. apply Nat2N.inj in Hs. contradiction.
Qed.

(* finishShardDrain *)
Lemma inv_finish b s k db te tok' : MInvB b s -> b < m_now s -> (k < length (m_shards s))%nat ->
  sh_tok (m_sh s k) = TFinish db te -> (tok' = TSched \/ tok' = TNone) ->
  let s' := m_set_sh s k (Sh (sh_queue (m_sh s k)) tok') in
  MInv (MSt (m_now s') (m_closed s') (m_shclosed s') (m_shards s') (m_pcs s') (m_close s') (m_cb s') (m_subs s')
          (m_runs s') (Drn (N.of_nat k) db (m_now s) :: m_drains s') (m_clos s')).
Proof.
  intros HI Hb Hk Htok Ht'. pose proof (q_tok_db _ _ HI k db) as Hdb. rewrite Htok in Hdb. specialize (Hdb eq_refl).
  apply (inv_mono b (m_now s)) in HI; [|lia]. destruct HI as [ ].
  destruct s as [now closed shclosed shards pcs close cb subs runs drains clos]. unf.
  set (old := nth k shards sh0) in *. set (new := Sh (sh_queue old) tok').
  assert (Hit : sh_items new = sh_items old).
  { unfold sh_items, new. cbn [sh_tok sh_queue]. rewrite Htok. destruct Ht' as [-> | ->]; reflexivity. }
  assert (Hti : tok_items tok' = []) by (destruct Ht' as [-> | ->]; reflexivity).
  assert (Htd : tok_db tok' = None) by (destruct Ht' as [-> | ->]; reflexivity).
  assert (Hlen : length (set_nth k new sh0 shards) = length shards) by (apply length_set_nth; exact Hk).
  assert (Hnth : forall k0, nth k0 (set_nth k new sh0 shards) sh0 = if Nat.eqb k k0 then new else nth k0 shards sh0)
    by (intro k0; apply nth_set_nth).
  assert (Hcnt : forall y, cnt y (flat_map sh_tasks (set_nth k new sh0 shards) ++ map r_task runs)
                  = cnt y (flat_map sh_tasks shards ++ map r_task runs)).
  { intro y. pose proof (cnt_shards_set_nth y k new shards Hk) as E. fold old in E.
    assert (Ht : sh_tasks new = sh_tasks old) by (unfold sh_tasks; rewrite Hit; reflexivity).
    rewrite Ht in E. rewrite !cnt_app. lia. }
  pose proof (q_dr_active0 k db) as Hact. fold old in Hact. rewrite Htok in Hact. specialize (Hact eq_refl).
  constructor; unf; rewrite ?Hlen; auto.
  - intros d [<-|Hd]; [prj; split; lia|apply q_drains0; exact Hd].
  - intros k0 db0. rewrite Hnth. destruct (Nat.eqb_spec k k0) as [E|N0]; [|apply q_tok_db0].
    cbn [new sh_tok]. rewrite Htd. discriminate.
  - intros k0 db0 rb0 it0. rewrite Hnth. destruct (Nat.eqb_spec k k0) as [E|N0]; [|apply q_tok_rb0].
    cbn [new sh_tok]. destruct Ht' as [-> | ->]; discriminate.
  - intros k0 x e. rewrite Hnth. destruct (Nat.eqb_spec k k0) as [E|N0]; [|apply q_stamp0]. rewrite Hit. apply q_stamp0.
  - intro y. rewrite Hcnt. apply q_once0.
  - intros k0 x e. rewrite Hnth. destruct (Nat.eqb_spec k k0) as [E|N0]; [|apply q_link0]. subst k0. rewrite Hit. apply q_link0.
  - intros y Hy. apply cnt_In. rewrite Hcnt. apply cnt_In. apply q_ok_pl0. exact Hy.
  - intros k0. rewrite Hnth. destruct (Nat.eqb_spec k k0) as [E|N0]; [|apply q_items_len0].
    cbn [new sh_tok]. rewrite Hti. cbn. lia.
  - intros l1 a l2 E d Hd Hs. destruct l1 as [|y l1]; cbn [app] in E; inversion E; subst.
    + cbn [d_shard d_b] in *. apply Hact; assumption.
    + apply (q_dr_sorted0 l1 a l2 eq_refl d Hd Hs).
  - intros k0 db0. rewrite Hnth. destruct (Nat.eqb_spec k k0) as [E|N0].
    + cbn [new sh_tok]. rewrite Htd. discriminate.
    + intros E0 d [<-|Hd] Hs; [cbn [d_shard] in Hs; apply Nat2N.inj in Hs; contradiction|].
      apply (q_dr_active0 k0 db0 E0 d Hd Hs).
  - intros k0 db0 rb0 it0. rewrite Hnth. destruct (Nat.eqb_spec k k0) as [E|N0]; [|apply q_run_active0].
    cbn [new sh_tok]. destruct Ht' as [-> | ->]; discriminate.
  - intros k0. rewrite Hnth. destruct (Nat.eqb_spec k k0) as [E|N0]; [|apply q_sorted0]. rewrite Hit. apply q_sorted0.
  - intros r sb Hr Hsb Et k0 Ek y e. rewrite Hnth. destruct (Nat.eqb_spec k k0) as [E|N0].
    + subst k0. rewrite Hit. apply (q_run_items0 r sb Hr Hsb Et k Ek y e).
    + apply (q_run_items0 r sb Hr Hsb Et k0 Ek y e).
  - intros k0 Hk0. rewrite Hnth. destruct (Nat.eqb_spec k k0) as [E|N0].
    + intros _ _. subst k0. eexists. split; [left; reflexivity|reflexivity].
    + intros E0 Hq. destruct (q_ktwo0 k0 Hk0 E0 Hq) as (d & A & B). exists d. split; [right; exact A|exact B].
  - destruct close; auto. destruct q_close0 as (_ & _ & A & _).
    pose proof (all_unscheduled_nth shards k A) as X. fold old in X. rewrite Htok in X. discriminate.
  - intros k0 db0 te0. rewrite Hnth. destruct (Nat.eqb_spec k k0) as [E|N0]; [|apply q_fin0].
    cbn [new sh_tok]. destruct Ht' as [-> | ->]; discriminate.
  - intros k0. rewrite Hnth. destruct (Nat.eqb_spec k k0) as [E|N0]; [|apply q_none0].
    subst k0. cbn [new sh_tok sh_queue]. intros _ x e Hin r Hr Hs.
    destruct (q_fin0 k db te Htok) as (_ & B & C). specialize (B r Hr Hs). specialize (C x e Hin). lia.
Qed.

(* Close *)
Lemma inv_close_call b s : MInvB b s -> b < m_now s -> m_close s = CIdle ->
  MInv (m_set_close s (m_closed s) (m_shclosed s) (CStart (m_now s)) (m_now s) (m_clos s)).
Proof.
  intros HI Hb Hc. apply (inv_mono b (m_now s)) in HI; [|lia]. destruct HI as [ ].
  destruct s as [now closed shclosed shards pcs close cb subs runs drains clos]. unf. subst close.
  destruct q_close0 as (A & B & C). subst.
  constructor; unf; auto.
  - repeat split; auto. lia.
  - lia.
Qed.

Lemma inv_close_store b s cb : MInvB b s -> m_close s = CStart cb ->
  MInvB b (m_set_close s true (m_shclosed s) (CMid cb) (m_cb s) (m_clos s)).
Proof.
  intros [ ] Hc.
  destruct s as [now closed shclosed shards pcs close cb0 subs runs drains clos]. unf. subst close.
  destruct q_close0 as (A & B & C & D & E). subst.
  constructor; unf; auto; repeat split; auto.
Qed.

Lemma inv_close_mid b s cb : MInvB b s -> m_close s = CMid cb ->
  MInvB b (m_set_close s (m_closed s) true (CWait cb) (m_cb s) (m_clos s)).
Proof.
  intros [ ] Hc.
  destruct s as [now closed shclosed shards pcs close cb0 subs runs drains clos]. unf. subst close.
  destruct q_close0 as (A & B & C & D & E). subst.
  constructor; unf; auto; repeat split; auto.
Qed.

Lemma inv_close_done b s cb : MInvB b s -> b < m_now s -> m_close s = CWait cb ->
  all_unscheduled (m_shards s) = true ->
  MInv (m_set_close s (m_closed s) (m_shclosed s) CDone (m_cb s) (Clo cb (m_now s) true :: m_clos s)).
Proof.
  intros HI Hb Hc Hall. pose proof (q_runs _ _ HI) as Hruns. pose proof (q_cb _ _ HI) as Hcb.
  apply (inv_mono b (m_now s)) in HI; [|lia]. destruct HI as [ ].
  destruct s as [now closed shclosed shards pcs close cb0 subs runs drains clos]. unf. subst close.
  destruct q_close0 as (A & B & C & D & E). subst.
  constructor; unf; auto.
  repeat split; auto. exists now. repeat split; auto; try lia.
  intros r Hr. destruct (Hruns r Hr) as (_ & X & _). lia.
Qed.

Ltac bnd := unfold MInv; cbn [m_now m_set_pc m_upd m_set_sh m_set_close m_ret]; lia.

Lemma inv_tok_step s k c : MInv s -> let s1 := m_tick s in MInv (m_tok_step cf s1 k c).
Proof.
  intros HI0 s1. pose proof (inv_tick s HI0) as HB.
  assert (Hb : m_now s < m_now s1) by (unfold s1; cbn; lia).
  assert (HM : MInv s1) by (apply (inv_mono (m_now s)); [lia|exact HB]).
  fold s1 in HB. unfold m_tok_step.
  destruct (Nat.ltb_spec k (length (m_shards s1))) as [Hk|Hk]; cbn [negb]; [|exact HM].
  destruct (sh_tok (m_sh s1 k)) as [| |db|db items|db rb items|db te] eqn:Htok; [exact HM| | | | |].
  - (* drain starts *)
    apply inv_sh_same; auto; cbn [sh_tok tok_items tok_db length]; try discriminate; try lia.
    + unfold sh_items. cbn [sh_tok sh_queue]. rewrite Htok. reflexivity.
    + rewrite Htok. discriminate.
    + intros db E. inversion E; subst. split; [unfold MInv; cbn [m_now m_set_sh m_upd]; lia|].
      intros d Hd _. destruct (q_drains _ _ HB d Hd) as (_ & X). lia.
  - (* nextItem *)
    pose proof (q_tok_db _ _ HB k db) as Hdb. rewrite Htok in Hdb. specialize (Hdb eq_refl).
    pose proof (q_dr_active _ _ HB k db) as Hact. rewrite Htok in Hact. specialize (Hact eq_refl).
    destruct (sh_queue (m_sh s1 k)) as [|it r] eqn:Hq.
    + apply inv_sh_same; auto; cbn [sh_tok tok_items tok_db length sh_queue]; try discriminate; try lia.
      * unfold sh_items. cbn [sh_tok sh_queue tok_items]. rewrite Htok, Hq. reflexivity.
      * rewrite Htok. discriminate.
      * intros db0 E. inversion E; subst. split; [unfold MInv; cbn [m_now m_set_sh m_upd]; lia|exact Hact].
      * intros db0 te E. inversion E; subst. repeat split.
        -- unfold MInv. cbn [m_now m_set_sh m_upd]. lia.
        -- intros r0 Hr0 _. destruct (q_runs _ _ HB r0 Hr0) as (X & Y & _). lia.
        -- intros x e [].
    + apply (inv_mono (m_now s)); [bnd|].
      apply inv_sh_same; auto; cbn [sh_tok tok_items tok_db length]; try discriminate; try lia.
      * unfold sh_items. cbn [sh_tok sh_queue tok_items]. rewrite Htok, Hq. reflexivity.
      * rewrite Htok. discriminate.
      * pose proof (mbmax_pos) as X. lia.
      * intros db0 E; inversion E; subst; split; assumption.
  - (* collectBatch *)
    pose proof (q_tok_db _ _ HB k db) as Hdb. rewrite Htok in Hdb. specialize (Hdb eq_refl).
    pose proof (q_dr_active _ _ HB k db) as Hact. rewrite Htok in Hact. specialize (Hact eq_refl).
    pose proof (q_items_len _ _ HB k) as Hil. rewrite Htok in Hil. cbn [tok_items] in Hil.
    destruct c; try exact HM.
    + destruct (sh_queue (m_sh s1 k)) as [|it r] eqn:Hq; [exact HM|].
      destruct (Nat.ltb_spec (length items) mbmax) as [Hlt|Hge]; [|exact HM].
      apply (inv_mono (m_now s)); [bnd|].
      apply inv_sh_same; auto; cbn [sh_tok tok_items tok_db]; try discriminate.
      * unfold sh_items. cbn [sh_tok sh_queue tok_items]. rewrite Htok, Hq. cbn [tok_items]. rewrite <- app_assoc. reflexivity.
      * rewrite Htok. discriminate.
      * rewrite app_length. cbn [length]. lia.
      * intros db0 E; inversion E; subst; split; assumption.
    + apply inv_sh_same; auto; cbn [sh_tok tok_items tok_db]; try discriminate.
      * unfold sh_items. cbn [sh_tok sh_queue tok_items]. rewrite Htok. reflexivity.
      * rewrite Htok. discriminate.
      * intros db0 E; inversion E; subst. split; [unfold MInv; cbn [m_now m_set_sh m_upd]; lia|]. intros d Hd Hs. apply Hact; assumption.
      * intros db0 rb0 it0 E. inversion E; subst. split; [unfold MInv; cbn [m_now m_set_sh m_upd]; lia|].
        intros r Hr _. destruct (q_runs _ _ HB r Hr) as (_ & X & _). lia.
  - apply (inv_handler_end (m_now s)); auto.
  - apply (inv_finish (m_now s) _ _ db te); auto.
    destruct (negb match sh_queue (m_sh s1 k) with [] => true | _ :: _ => false end && negb (m_shclosed s1) && negb (m_closed s1)); auto.
Qed.

Lemma inv_step s e : MInv s -> MInv (m_step s e).
Proof.
  intro HI0. pose proof (inv_tick s HI0) as HB. unfold Model.WorkQueue_mailbox.m_step.
  destruct e as [t k|t|k c| |]; [| |apply inv_tok_step; exact HI0| |].
  all: set (s1 := m_tick s) in *; assert (Hb : m_now s < m_now s1) by (unfold s1; cbn; lia);
       assert (HM : MInv s1) by (apply (inv_mono (m_now s)); [lia|exact HB]).
  - destruct (m_pc s1 t) eqn:Hpc; try exact HM.
    destruct (Nat.ltb_spec k (length (m_shards s1))) as [Hk|Hk]; [|exact HM].
    apply (inv_call (m_now s)); auto.
  - unfold m_thread_step. destruct (m_pc s1 t) as [|x st k|x st k] eqn:Hpc; [exact HM| |].
    + destruct (m_closed s1) eqn:Hcl.
      * apply (inv_ret_rej (m_now s)); auto; [rewrite Hpc; reflexivity|discriminate].
      * apply (inv_mono (m_now s)); [bnd|]. apply inv_pc_move; auto. rewrite Hpc. reflexivity.
    + destruct (m_shclosed s1 || m_closed s1) eqn:Hcl.
      * apply (inv_ret_rej (m_now s)); auto; [rewrite Hpc; reflexivity|discriminate].
      * destruct (mcap cf <=? N.of_nat (length (sh_queue (m_sh s1 k)))).
        -- apply (inv_ret_rej (m_now s)); auto; [rewrite Hpc; reflexivity|discriminate].
        -- apply orb_false_iff in Hcl. destruct Hcl as (_ & Hcl).
           apply (inv_ret_ok (m_now s)); auto. rewrite Hpc; reflexivity.
  - destruct (m_close s1) eqn:Hc; try exact HM. apply (inv_close_call (m_now s)); auto.
  - destruct (m_close s1) as [|cb|cb|cb|] eqn:Hc; try exact HM.
    + apply (inv_mono (m_now s)); [bnd|]. apply inv_close_store; auto.
    + apply (inv_mono (m_now s)); [bnd|]. apply inv_close_mid; auto.
    + destruct (all_unscheduled (m_shards s1)) eqn:Hall; [|exact HM]. apply (inv_close_done (m_now s)); auto.
Qed.

Lemma nth_repeat_sh0 i n : nth i (repeat sh0 n) sh0 = sh0.
Proof.
  destruct (nth_In_or_default i (repeat sh0 n) sh0) as [H|H]; [apply repeat_spec in H|]; exact H.
Qed.

Lemma flat_repeat_sh0 n : flat_map sh_tasks (repeat sh0 n) = [].
Proof. induction n; cbn; auto. Qed.

Lemma inv_init : MInv (m_init cf).
Proof.
  unfold MInv, m_init. constructor; unf; rewrite ?flat_repeat_sh0, ?repeat_length; cbn [app]; intros;
    repeat match goal with
           | H : context [nth _ (repeat sh0 _) sh0] |- _ => rewrite nth_repeat_sh0 in H; cbn in H
           | H : context [nth ?t [] MIdle] |- _ => destruct t; cbn [nth pc_task] in H
           | |- context [nth _ (repeat sh0 _) sh0] => rewrite nth_repeat_sh0; cbn
           end;
    try discriminate; try contradiction; try (constructor; fail); try (cbn; lia); auto.
  all: try match goal with H : okset [] _ |- _ => destruct H as (sb & [] & _) end.
  all: try (exfalso; congruence).
  all: try (repeat split; reflexivity).
  all: try match goal with H : _ = _ ++ _ :: _ |- _ => destruct l1; discriminate end.
  all: try (intros l1 a l2 E; destruct l1; discriminate).
Qed.

Lemma inv_fold evs : forall s, MInv s -> MInv (fold_left m_step evs s).
Proof. induction evs as [|e evs IH]; intros s H; [exact H|]. cbn [fold_left]. apply IH. apply inv_step. exact H. Qed.

Theorem inv_run evs : MInv (m_run evs).
Proof. apply inv_fold. exact inv_init. Qed.

(* ---- consequences --------------------------------------------------------------------------- *)

Lemma m_at_most_once evs : NoDup (map r_task (m_runs (m_run evs))).
Proof.
  pose proof (inv_run evs) as HI. apply NoDup_cnt. intro x. pose proof (q_once _ _ HI x) as H.
  unfold all_tasks in H. rewrite cnt_app in H. lia.
Qed.

Lemma m_sub_unique evs sa sb : In sa (m_subs (m_run evs)) -> In sb (m_subs (m_run evs)) -> s_task sa = s_task sb -> sa = sb.
Proof. intros. eapply NoDup_map_inj; eauto. apply (q_subs_nd _ _ (inv_run evs)). Qed.

Lemma m_rejected_never_runs evs sb :
  In sb (m_subs (m_run evs)) -> s_res sb <> ROk -> ~ In (s_task sb) (map r_task (m_runs (m_run evs))).
Proof.
  intros Hin Hr Hran. pose proof (inv_run evs) as HI. apply in_map_iff in Hran. destruct Hran as (r & Et & Hr0).
  destruct (q_run_link _ _ HI r Hr0) as (sb' & Hin' & Et' & Er & _).
  assert (sb' = sb) by (apply (m_sub_unique evs); auto; congruence). subst sb'. contradiction.
Qed.

Lemma m_single_drain evs :
  all_pairs drains_disjoint (m_drains (m_run evs)) = true /\ all_pairs runs_disjoint (m_runs (m_run evs)) = true.
Proof.
  pose proof (inv_run evs) as HI. split; apply all_pairs_intro; intros l1 a l2 b l3 E.
  - pose proof (q_dr_sorted _ _ HI l1 a (l2 ++ b :: l3) E b) as H.
    assert (Hin : In b (l2 ++ b :: l3)) by (apply in_or_app; right; left; reflexivity). specialize (H Hin).
    unfold drains_disjoint. destruct (N.eqb_spec (d_shard a) (d_shard b)) as [Es|Ns].
    + specialize (H (eq_sym Es)). apply N.ltb_lt in H. rewrite H. rewrite (proj2 (N.eqb_eq _ _) (eq_sym Es)).
      cbn [negb orb]. rewrite !orb_true_r. split; reflexivity.
    + cbn [negb orb]. destruct (N.eqb_spec (d_shard b) (d_shard a)); [congruence|]. split; reflexivity.
  - pose proof (q_run_sorted _ _ HI l1 a (l2 ++ b :: l3) E b) as H.
    assert (Hin : In b (l2 ++ b :: l3)) by (apply in_or_app; right; left; reflexivity). specialize (H Hin).
    unfold runs_disjoint. destruct (N.eqb_spec (r_shard a) (r_shard b)) as [Es|Ns].
    + specialize (H (eq_sym Es)). rewrite (proj2 (N.eqb_eq _ _) (eq_sym Es)). cbn [negb orb].
      destruct H as [H|H].
      * rewrite H, N.eqb_refl. cbn [orb]. split; reflexivity.
      * apply N.ltb_lt in H. rewrite H, !orb_true_r. split; reflexivity.
    + cbn [negb orb]. destruct (N.eqb_spec (r_shard b) (r_shard a)); [congruence|]. split; reflexivity.
Qed.

(* shard FIFO on caller-observable order *)
Lemma m_fifo_pair evs a b : In a (m_subs (m_run evs)) -> In b (m_subs (m_run evs)) ->
  fifo_pair (m_hist (m_run evs)) a b = true.
Proof.
  intros Ha Hb. pose proof (inv_run evs) as HI. unfold fifo_pair.
  destruct (is_ok (s_res a) && is_ok (s_res b) && (s_shard a =? s_shard b) && (s_e a <? s_b b)) eqn:Hc; [|reflexivity].
  repeat (apply andb_true_iff in Hc; destruct Hc as [Hc ?]).
  apply N.eqb_eq in H0. apply N.ltb_lt in H.
  unfold run_of. destruct (find (fun r => r_task r =? s_task a) (h_runs (m_hist (m_run evs)))) as [ra|] eqn:Fa; [|reflexivity].
  destruct (find (fun r => r_task r =? s_task b) (h_runs (m_hist (m_run evs)))) as [rb|] eqn:Fb; [|reflexivity].
  apply find_some in Fa. apply find_some in Fb. destruct Fa as (Hra & Ea). destruct Fb as (Hrb & Eb).
  apply N.eqb_eq in Ea. apply N.eqb_eq in Eb. cbn [m_hist h_runs] in Hra, Hrb.
  destruct (q_run_link _ _ HI ra Hra) as (sa' & A1 & A2 & _ & A3).
  destruct (q_run_link _ _ HI rb Hrb) as (sb' & B1 & B2 & _ & B3).
  assert (sa' = a) by (apply (m_sub_unique evs); auto; congruence).
  assert (sb' = b) by (apply (m_sub_unique evs); auto; congruence). subst sa' sb'.
  apply (q_fifo _ _ HI ra rb a b); auto; try congruence.
  destruct (q_subs _ _ HI b Hb) as (_ & X & _). lia.
Qed.

Lemma m_fifo evs : all_pairs (fifo_pair (m_hist (m_run evs))) (m_subs (m_run evs)) = true.
Proof.
  apply all_pairs_intro. intros l1 a l2 b l3 E.
  assert (Ha : In a (m_subs (m_run evs))) by (rewrite E; apply in_or_app; right; left; reflexivity).
  assert (Hb : In b (m_subs (m_run evs))) by (rewrite E; apply in_or_app; right; right; apply in_or_app; right; left; reflexivity).
  split; apply m_fifo_pair; assumption.
Qed.

(* the same two facts on the records themselves *)
Lemma m_drains_ordered evs l1 a l2 d :
  m_drains (m_run evs) = l1 ++ a :: l2 -> In d l2 -> d_shard d = d_shard a -> d_e d < d_b a.
Proof. intros E Hd Hs. exact (q_dr_sorted _ _ (inv_run evs) l1 a l2 E d Hd Hs). Qed.

Lemma m_batches_ordered evs l1 a l2 r :
  m_runs (m_run evs) = l1 ++ a :: l2 -> In r l2 -> r_shard r = r_shard a -> r_b r = r_b a \/ r_e r < r_b a.
Proof. intros E Hr Hs. exact (q_run_sorted _ _ (inv_run evs) l1 a l2 E r Hr Hs). Qed.

Lemma m_fifo_spec evs a b ra rb :
  In a (m_subs (m_run evs)) -> In b (m_subs (m_run evs)) -> s_res a = ROk -> s_res b = ROk ->
  s_shard a = s_shard b -> s_e a < s_b b ->
  In ra (m_runs (m_run evs)) -> In rb (m_runs (m_run evs)) -> r_task ra = s_task a -> r_task rb = s_task b ->
  r_b ra < r_b rb \/ (r_b ra = r_b rb /\ r_pos ra < r_pos rb).
Proof.
  intros Ha Hb Oa Ob Hs Hlt Hra Hrb Ea Eb. pose proof (inv_run evs) as HI.
  destruct (q_run_link _ _ HI ra Hra) as (sa' & A1 & A2 & _ & A3).
  destruct (q_run_link _ _ HI rb Hrb) as (sb' & B1 & B2 & _ & B3).
  assert (sa' = a) by (apply (m_sub_unique evs); auto; congruence).
  assert (sb' = b) by (apply (m_sub_unique evs); auto; congruence). subst sa' sb'.
  assert (X : run_before ra rb = true).
  { apply (q_fifo _ _ HI ra rb a b); auto; try congruence. destruct (q_subs _ _ HI b Hb) as (_ & X & _). lia. }
  unfold run_before in X. apply orb_true_iff in X. destruct X as [X|X].
  - left. apply N.ltb_lt. exact X.
  - right. apply andb_true_iff in X. destruct X as (X1 & X2). split; [apply N.eqb_eq; exact X1|apply N.ltb_lt; exact X2].
Qed.

(* what Close's return guarantees for an admitted item *)
Lemma m_close_waits evs c sb :
  In c (m_clos (m_run evs)) -> In sb (m_subs (m_run evs)) -> s_res sb = ROk ->
  let s := m_run evs in
  (exists r, In r (m_runs s) /\ r_task r = s_task sb /\ r_e r < l_e c)
  \/ (~ In (s_task sb) (map r_task (m_runs s))
      /\ (exists d, In d (m_drains s) /\ d_shard d = s_shard sb)
      /\ (forall r, In r (m_runs s) -> r_shard r = s_shard sb -> r_b r < s_e sb)).
Proof.
  intros Hc Hin Hr s. pose proof (inv_run evs) as HI. fold s in HI, Hc, Hin. pose proof (q_close _ _ HI) as HC.
  unfold close_inv in HC. destruct (m_close s).
  - destruct HC as (_ & _ & E). rewrite E in Hc. destruct Hc.
  - destruct HC as (_ & _ & E & _). rewrite E in Hc. destruct Hc.
  - destruct HC as (_ & _ & E & _). rewrite E in Hc. destruct Hc.
  - destruct HC as (_ & _ & E & _). rewrite E in Hc. destruct Hc.
  - destruct HC as (_ & _ & Hall & ce & E & _ & _ & Hruns). rewrite E in Hc. destruct Hc as [<-|[]]. cbn [l_e].
    assert (Hpl : In (s_task sb) (all_tasks s)) by (apply (q_ok_pl _ _ HI); exists sb; auto).
    pose proof (q_once _ _ HI (s_task sb)) as Honce. unfold all_tasks in Hpl, Honce. rewrite cnt_app in Honce.
    apply in_app_or in Hpl. destruct Hpl as [Hsh|Hran].
    + right. split.
      * intro Ht. apply cnt_In in Ht. apply cnt_In in Hsh. lia.
      * apply in_flat_map_nth in Hsh. destruct Hsh as (k & Hk & Hin').
        unfold sh_tasks in Hin'. apply in_map_iff in Hin'. destruct Hin' as ([x e] & Ex & Hit). cbn [fst] in Ex. subst x.
        destruct (q_link _ _ HI k _ e Hit) as (sb' & A & B & _ & D & F).
        assert (sb' = sb) by (apply (m_sub_unique evs); auto). subst sb'.
        pose proof (all_unscheduled_nth _ k Hall) as Htok.
        unfold sh_items in Hit. unfold m_sh in *. rewrite Htok in Hit. cbn [tok_items app] in Hit.
        split.
        -- destruct (q_ktwo _ _ HI k Hk Htok) as (d & Hd & Ed).
           { intro E0. unfold m_sh in E0. rewrite E0 in Hit. destruct Hit. }
           exists d. split; [exact Hd|congruence].
        -- intros r Hr0 Hs. rewrite F. apply (q_none _ _ HI k Htok _ e Hit r Hr0). congruence.
    + left. apply in_map_iff in Hran. destruct Hran as (r & Er & Hr'). exists r. repeat split; auto.
Qed.

Hypothesis kind_mb : c_kind cf = KMailbox.

Theorem m_monitor evs : allowed 3 (C37_monitor (m_hist (m_run evs))).
Proof.
  pose proof (inv_run evs) as HI.
  apply monitor_allowed; [discriminate| | | | |].
  - apply ok_once_intro. unfold terminal_ids, m_hist. cbn [h_runs h_cans map]. rewrite app_nil_r. apply m_at_most_once.
  - apply ok_rejected_intro. intros sb Hin Hr. unfold terminal_ids, m_hist. cbn [h_runs h_cans map]. rewrite app_nil_r.
    apply m_rejected_never_runs; [exact Hin|]. intro E. rewrite E in Hr. discriminate.
  - reflexivity.
  - unfold ok_mailbox.
    replace (c_kind (h_cfg (m_hist (m_run evs)))) with KMailbox by (symmetry; exact kind_mb). cbn [kind_eqb].
    destruct (m_single_drain evs) as (A & B).
    apply andb_true_iff; split; [apply andb_true_iff; split|]; [exact A|exact B|exact (m_fifo evs)].
  - intros c Hc _ sb Hin Hr.
    assert (Er : s_res sb = ROk) by (destruct (s_res sb); try discriminate; reflexivity).
    destruct (m_close_waits evs c sb Hc Hin Er) as [(r & A & B & C)|(Hnt & (d & Hd & Ed) & Hlate)].
    + left. apply task_code_zero. eapply terminal_before_run; eauto.
    + right. unfold task_code.
      assert (Hnt' : ~ In (s_task sb) (terminal_ids (m_hist (m_run evs)))).
      { unfold terminal_ids, m_hist. cbn [h_runs h_cans map]. rewrite app_nil_r. exact Hnt. }
      rewrite (terminal_before_false _ _ _ Hnt'), (has_terminal_false _ _ Hnt').
      replace (c_kind (h_cfg (m_hist (m_run evs)))) with KMailbox by (symmetry; exact kind_mb).
      replace (existsb (fun d0 => d_shard d0 =? s_shard sb) (h_drains (m_hist (m_run evs)))) with true.
      * replace (no_later_run_on_shard (m_hist (m_run evs)) sb) with true; [reflexivity|].
        symmetry. unfold no_later_run_on_shard. apply forallb_forall. intros r Hr0.
        destruct (N.eqb_spec (r_shard r) (s_shard sb)) as [Es|Ns]; [|reflexivity]. cbn [negb orb].
        apply N.ltb_lt. apply Hlate; assumption.
      * symmetry. apply existsb_exists. exists d. split; [exact Hd|apply N.eqb_eq; exact Ed].
Qed.

Theorem m_accepts evs : C37_mismatch (m_hist (m_run evs)) = false.
Proof.
  pose proof (inv_run evs) as HI. unfold C37_mismatch. apply negb_false_iff.
  repeat (apply andb_true_iff; split).
  - apply nodupb_NoDup. apply (q_subs_nd _ _ HI).
  - apply forallb_forall. intros sb Hin. apply N.ltb_lt. apply (q_subs _ _ HI sb Hin).
  - apply forallb_forall. intros r Hin. apply N.ltb_lt. apply (q_runs _ _ HI r Hin).
  - apply forallb_forall. intros c Hc. apply N.ltb_lt. cbn [m_hist h_clos] in Hc.
    pose proof (q_close _ _ HI) as HC. unfold close_inv in HC. destruct (m_close (m_run evs)).
    + destruct HC as (_ & _ & E). rewrite E in Hc. destruct Hc.
    + destruct HC as (_ & _ & E & _). rewrite E in Hc. destruct Hc.
    + destruct HC as (_ & _ & E & _). rewrite E in Hc. destruct Hc.
    + destruct HC as (_ & _ & E & _). rewrite E in Hc. destruct Hc.
    + destruct HC as (_ & _ & _ & ce & E & Hlt & _). rewrite E in Hc. destruct Hc as [<-|[]]. exact Hlt.
  - apply forallb_forall. intros d Hd. apply N.ltb_lt. apply (q_drains _ _ HI d Hd).
  - unfold batch_size_ok. apply forallb_forall. intros r Hin. apply N.ltb_lt. apply (q_runs _ _ HI r Hin).
  - unfold shards_ok. apply forallb_forall. intros sb Hin. apply N.ltb_lt.
    destruct (q_subs _ _ HI sb Hin) as (_ & _ & _ & E). rewrite (q_len _ _ HI) in E.
    unfold Model.WorkQueue_mailbox.nshards in E. cbn [m_hist h_cfg]. lia.
Qed.

End MailboxProof.
