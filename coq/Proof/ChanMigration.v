(* Proof/ChanMigration.v — basic facts about the channel-migration model and the
   per-command theorems of C17 (statements about one guarded command applied to the rows
   it loads, whatever batch it is part of). *)
From WK Require Import Base.Base.
From WK Require Import Gen.Consts_C15 Gen.Consts_C17 Model.RuntimeMeta Model.ChanMigration Model.ChanMigration_C17.
From WK Require Import Proof.RuntimeMeta.
Open Scope N_scope.

(* ---- boolean plumbing ----------------------------------------------------------------- *)

Ltac bsplit H :=
  repeat match type of H with
         | (_ && _) = true => let H1 := fresh H in apply andb_prop in H; destruct H as [H H1]
         end.

Ltac if_inv H :=
  cbv zeta in H;
  match type of H with
  | (if ?c then _ else _) = _ => let E := fresh "E" in destruct c eqn:E; try discriminate H
  end.

Lemma negb_false b : negb b = false -> b = true.
Proof. destruct b; simpl; congruence. Qed.
Lemma negb_true b : negb b = true -> b = false.
Proof. destruct b; simpl; congruence. Qed.

Lemma orb_false3 a b : a || b = false -> a = false /\ b = false.
Proof. apply orb_false_iff. Qed.

Ltac osplit H :=
  repeat match type of H with
         | (_ || _) = false => let H1 := fresh H in apply orb_false_iff in H; destruct H as [H H1]
         end.

(* projections reduce by [cbn] with an explicit list only: [simpl] would unfold N / Z comparisons *)
Ltac task_cbn := cbn [t_task_id t_kind t_status t_phase t_channel_id t_channel_type t_source_node t_target_node t_desired_leader t_base_channel_epoch t_base_leader_epoch t_fence_token t_fence_version t_fence_until_ms t_embedded_leader_transfer t_embedded_desired_leader t_owner_node_id t_owner_lease_until_ms t_proof t_attempt t_next_run_at_ms t_blocker_code t_blocker_message t_last_error t_created_at_ms t_updated_at_ms t_completed_at_ms t_progress].
Ltac task_cbn_in H := cbn [t_task_id t_kind t_status t_phase t_channel_id t_channel_type t_source_node t_target_node t_desired_leader t_base_channel_epoch t_base_leader_epoch t_fence_token t_fence_version t_fence_until_ms t_embedded_leader_transfer t_embedded_desired_leader t_owner_node_id t_owner_lease_until_ms t_proof t_attempt t_next_run_at_ms t_blocker_code t_blocker_message t_last_error t_created_at_ms t_updated_at_ms t_completed_at_ms t_progress] in H.
Ltac proof_cbn := cbn [pf_cutover_leo pf_cutover_hw pf_drained_leader_node pf_drained_runtime_generation pf_drained_channel_epoch pf_drained_leader_epoch pf_drained_fence_version].
Ltac progress_cbn := cbn [pg_leader_leo pg_leader_hw pg_target_leo pg_target_checkpoint_hw pg_lag_records pg_stable_since_ms].

(* ---- equality tests ---------------------------------------------------------------------- *)

Lemma chan_key_eqb_eq a b : chan_key_eqb a b = true <-> a = b.
Proof.
  destruct a as [i1 t1], b as [i2 t2]; unfold chan_key_eqb; simpl. split.
  - intro H. apply andb_prop in H. destruct H as [H1 H2].
    apply bytes_eqb_eq in H1. apply Z.eqb_eq in H2. subst. reflexivity.
  - intro H. inversion H; subst. rewrite bytes_eqb_refl, Z.eqb_refl. reflexivity.
Qed.

Lemma chan_key_eqb_refl a : chan_key_eqb a a = true.
Proof. apply chan_key_eqb_eq. reflexivity. Qed.

Lemma chan_key_eqb_neq a b : chan_key_eqb a b = false <-> a <> b.
Proof.
  split.
  - intros H E. subst. rewrite chan_key_eqb_refl in H. discriminate.
  - intro H. destruct (chan_key_eqb a b) eqn:E; [apply chan_key_eqb_eq in E; contradiction|reflexivity].
Qed.

Lemma tkey_eqb_eq a b : tkey_eqb a b = true <-> a = b.
Proof.
  destruct a as [c1 i1], b as [c2 i2]; unfold tkey_eqb; simpl. split.
  - intro H. apply andb_prop in H. destruct H as [H1 H2].
    apply chan_key_eqb_eq in H1. apply bytes_eqb_eq in H2. subst. reflexivity.
  - intro H. inversion H; subst. rewrite chan_key_eqb_refl, bytes_eqb_refl. reflexivity.
Qed.

Lemma tkey_eqb_refl a : tkey_eqb a a = true.
Proof. apply tkey_eqb_eq. reflexivity. Qed.

Lemma tkey_eqb_neq a b : tkey_eqb a b = false <-> a <> b.
Proof.
  split.
  - intros H E. subst. rewrite tkey_eqb_refl in H. discriminate.
  - intro H. destruct (tkey_eqb a b) eqn:E; [apply tkey_eqb_eq in E; contradiction|reflexivity].
Qed.

Lemma tkey_eqb_sym a b : tkey_eqb a b = tkey_eqb b a.
Proof.
  destruct (tkey_eqb a b) eqn:E.
  - apply tkey_eqb_eq in E. subst. symmetry. apply tkey_eqb_refl.
  - symmetry. apply tkey_eqb_neq. apply tkey_eqb_neq in E. congruence.
Qed.

Lemma proof_eqb_eq a b : proof_eqb a b = true -> a = b.
Proof.
  destruct a, b; unfold proof_eqb; proof_cbn. intro H. bsplit H.
  repeat match goal with H : (_ =? _) = true |- _ => apply N.eqb_eq in H end. subst. reflexivity.
Qed.

Lemma proof_eqb_refl a : proof_eqb a a = true.
Proof. destruct a; unfold proof_eqb; proof_cbn. rewrite !N.eqb_refl. reflexivity. Qed.

Lemma progress_eqb_eq a b : progress_eqb a b = true -> a = b.
Proof.
  destruct a, b; unfold progress_eqb; progress_cbn. intro H. bsplit H.
  repeat match goal with H : (_ =? _) = true |- _ => apply N.eqb_eq in H end.
  repeat match goal with H : (_ =? _)%Z = true |- _ => apply Z.eqb_eq in H end. subst. reflexivity.
Qed.

Lemma progress_eqb_refl a : progress_eqb a a = true.
Proof. destruct a; unfold progress_eqb; progress_cbn. rewrite !N.eqb_refl, Z.eqb_refl. reflexivity. Qed.

Lemma task_eqb_eq a b : task_eqb a b = true -> a = b.
Proof.
  destruct a, b; unfold task_eqb; task_cbn. intro H. bsplit H.
  repeat match goal with H : (_ =? _) = true |- _ => apply N.eqb_eq in H end.
  repeat match goal with H : (_ =? _)%Z = true |- _ => apply Z.eqb_eq in H end.
  repeat match goal with H : bytes_eqb _ _ = true |- _ => apply bytes_eqb_eq in H end.
  repeat match goal with H : Bool.eqb _ _ = true |- _ => apply Bool.eqb_prop in H end.
  repeat match goal with H : proof_eqb _ _ = true |- _ => apply proof_eqb_eq in H end.
  repeat match goal with H : progress_eqb _ _ = true |- _ => apply progress_eqb_eq in H end.
  subst. reflexivity.
Qed.

Lemma task_eqb_refl a : task_eqb a a = true.
Proof.
  destruct a; unfold task_eqb; task_cbn.
  rewrite !N.eqb_refl, !Z.eqb_refl, !bytes_eqb_refl, proof_eqb_refl, progress_eqb_refl, Bool.eqb_reflx.
  reflexivity.
Qed.

Lemma task_eqb_false_neq a b : task_eqb a b = false -> a <> b.
Proof. intros H E. subst. rewrite task_eqb_refl in H. discriminate. Qed.

(* ---- field updates keep the identity of a task ------------------------------------------------ *)

Lemma task_key_set_status_phase_updated t s p u : task_key (set_status_phase_updated t s p u) = task_key t.
Proof. reflexivity. Qed.
Lemma task_key_set_owner t o l : task_key (set_owner t o l) = task_key t.
Proof. reflexivity. Qed.
Lemma task_key_set_fence t a b c : task_key (set_fence t a b c) = task_key t.
Proof. reflexivity. Qed.
Lemma task_key_set_proof t p : task_key (set_proof t p) = task_key t.
Proof. reflexivity. Qed.
Lemma task_key_set_embedded t f d : task_key (set_embedded t f d) = task_key t.
Proof. reflexivity. Qed.
Lemma task_key_set_completed t c : task_key (set_completed t c) = task_key t.
Proof. reflexivity. Qed.
Lemma task_key_set_last_error t e : task_key (set_last_error t e) = task_key t.
Proof. reflexivity. Qed.
Lemma task_key_set_advance_fields t a n b1 b2 b3 p : task_key (set_advance_fields t a n b1 b2 b3 p) = task_key t.
Proof. reflexivity. Qed.

Lemma tguard_matches_key g t : tguard_matches g t = true -> task_key t = tguard_key g.
Proof.
  unfold tguard_matches. intro H. bsplit H.
  apply bytes_eqb_eq in H. apply Z.eqb_eq in H6. apply bytes_eqb_eq in H5.
  unfold task_key, tguard_key, task_chan. rewrite H, H6, H5. reflexivity.
Qed.

(* every mutator keeps the task key (identity, kind, nodes are never touched) *)
Definition same_identity (t t' : task) : Prop :=
  task_key t' = task_key t /\ t_kind t' = t_kind t /\ t_source_node t' = t_source_node t
  /\ t_target_node t' = t_target_node t /\ t_desired_leader t' = t_desired_leader t.

Lemma same_identity_refl t : same_identity t t.
Proof. repeat split. Qed.

Lemma mutate_task_identity c t t' : mutate_task c t = Ok t' -> same_identity t t'.
Proof.
  destruct c; simpl; try discriminate.
  - unfold mutClaim. intro H. if_inv H. inversion H; subst. repeat split.
  - unfold mutAdvance. intro H. inversion H; subst. clear H.
    destruct (negb (proof_eqb pf proof_zero)), (negb (embedded_desired_leader =? 0)); repeat split.
Qed.

Lemma mutate_task_meta_identity c t m t' m' : mutate_task_meta c t m = Ok (t', m') -> same_identity t t'.
Proof.
  destruct c; simpl; try discriminate.
  - unfold mutSetFence. intro H. repeat if_inv H. inversion H; subst. repeat split.
  - unfold mutReset. intro H. repeat if_inv H. inversion H; subst. repeat split.
  - unfold mutCommit. intro H. repeat if_inv H. inversion H; subst. repeat split.
  - unfold mutAddLearner. intro H. repeat if_inv H; inversion H; subst; repeat split.
  - unfold mutPromote. intro H. repeat if_inv H; inversion H; subst; repeat split.
  - unfold mutClear. intro H. repeat if_inv H; inversion H; subst; try (repeat split; fail).
    match goal with |- context [if ?c then _ else _] => destruct c end; repeat split.
  - unfold mutAbort. intro H. repeat if_inv H; inversion H; subst; repeat split.
Qed.

(* ---- the task store ------------------------------------------------------------------------------ *)

Lemma task_get_del l k' k :
  task_get (task_del l k') k = if tkey_eqb k' k then None else task_get l k.
Proof.
  induction l as [|u r IH]; simpl.
  - destruct (tkey_eqb k' k); reflexivity.
  - destruct (tkey_eqb (task_key u) k') eqn:E1.
    + rewrite IH. apply tkey_eqb_eq in E1. subst k'.
      destruct (tkey_eqb (task_key u) k); reflexivity.
    + simpl. rewrite IH.
      destruct (tkey_eqb (task_key u) k) eqn:E2; [|reflexivity].
      apply tkey_eqb_eq in E2. subst k. rewrite tkey_eqb_sym, E1. reflexivity.
Qed.

Lemma in_task_del l k u : In u (task_del l k) <-> In u l /\ task_key u <> k.
Proof.
  induction l as [|v r IH]; simpl.
  - tauto.
  - destruct (tkey_eqb (task_key v) k) eqn:E.
    + apply tkey_eqb_eq in E. rewrite IH. split.
      * intros [H1 H2]. auto.
      * intros [[H1|H1] H2]; [subst; contradiction|auto].
    + apply tkey_eqb_neq in E. simpl. rewrite IH. split.
      * intros [H|[H1 H2]]; [subst; auto|auto].
      * intros [[H1|H1] H2]; auto.
Qed.

Lemma in_task_insert l t u : In u (task_insert l t) <-> u = t \/ In u l.
Proof.
  induction l as [|v r IH]; simpl.
  - split; [intros [H|[]]; auto|intros [H|[]]; auto].
  - destruct (tkey_ltb (task_key t) (task_key v)); simpl.
    + split; [intros [H|H]; auto|intros [H|H]; auto].
    + rewrite IH. split; [intros [H|[H|H]]; auto|intros [H|[H|H]]; auto].
Qed.

Lemma task_get_insert l t k :
  (forall u, In u l -> task_key u <> task_key t) ->
  task_get (task_insert l t) k = if tkey_eqb (task_key t) k then Some t else task_get l k.
Proof.
  induction l as [|v r IH]; simpl; intro F.
  - reflexivity.
  - destruct (tkey_ltb (task_key t) (task_key v)); simpl.
    + reflexivity.
    + rewrite IH by (intros u Hu; apply F; auto).
      destruct (tkey_eqb (task_key v) k) eqn:E; [|reflexivity].
      apply tkey_eqb_eq in E. subst k.
      assert (task_key v <> task_key t) by (apply F; auto).
      rewrite (proj2 (tkey_eqb_neq _ _)) by congruence. reflexivity.
Qed.

Lemma task_get_put l t k :
  task_get (task_put l t) k = if tkey_eqb (task_key t) k then Some t else task_get l k.
Proof.
  unfold task_put. rewrite task_get_insert.
  - rewrite task_get_del. destruct (tkey_eqb (task_key t) k); reflexivity.
  - intros u Hu. apply in_task_del in Hu. tauto.
Qed.

Lemma in_task_put l t u : In u (task_put l t) <-> u = t \/ (In u l /\ task_key u <> task_key t).
Proof. unfold task_put. rewrite in_task_insert, in_task_del. tauto. Qed.

Lemma task_get_key l k t : task_get l k = Some t -> task_key t = k.
Proof.
  induction l as [|u r IH]; simpl; [discriminate|].
  destruct (tkey_eqb (task_key u) k) eqn:E; [|exact IH].
  intro H. inversion H; subst. apply tkey_eqb_eq. exact E.
Qed.

Lemma task_get_in l k t : task_get l k = Some t -> In t l.
Proof.
  induction l as [|u r IH]; simpl; [discriminate|].
  destruct (tkey_eqb (task_key u) k); [intro H; inversion H; auto|auto].
Qed.

(* rows have distinct keys *)
Definition tasks_wf (l : list task) : Prop := NoDup (map task_key l).

Lemma tasks_wf_get l u : tasks_wf l -> In u l -> task_get l (task_key u) = Some u.
Proof.
  unfold tasks_wf. induction l as [|v r IH]; simpl; intros W H; [contradiction|].
  inversion W as [|? ? W1 W2]; subst.
  destruct H as [H|H].
  - subst. rewrite tkey_eqb_refl. reflexivity.
  - destruct (tkey_eqb (task_key v) (task_key u)) eqn:E.
    + exfalso. apply tkey_eqb_eq in E. apply W1. rewrite E. apply in_map. exact H.
    + apply IH; assumption.
Qed.

Lemma tasks_wf_del l k : tasks_wf l -> tasks_wf (task_del l k).
Proof.
  unfold tasks_wf. induction l as [|v r IH]; simpl; intro W; [constructor|].
  inversion W as [|? ? W1 W2]; subst.
  destruct (tkey_eqb (task_key v) k); [auto|].
  simpl. constructor; [|auto].
  intro H. apply in_map_iff in H. destruct H as [u [Hk Hu]]. apply in_task_del in Hu.
  apply W1. rewrite <- Hk. apply in_map. tauto.
Qed.

Lemma tasks_wf_insert l t :
  tasks_wf l -> (forall u, In u l -> task_key u <> task_key t) -> tasks_wf (task_insert l t).
Proof.
  unfold tasks_wf. induction l as [|v r IH]; simpl; intros W F.
  - constructor; [intros []|constructor].
  - inversion W as [|? ? W1 W2]; subst.
    destruct (tkey_ltb (task_key t) (task_key v)); simpl.
    + constructor; [|exact W].
      intro H. simpl in H. destruct H as [H|H].
      * apply (F v); auto.
      * apply in_map_iff in H. destruct H as [u [Hk Hu]]. apply (F u); auto.
    + constructor.
      * intro H. apply in_map_iff in H. destruct H as [u [Hk Hu]].
        apply in_task_insert in Hu. destruct Hu as [Hu|Hu].
        -- subst u. apply (F v); auto.
        -- apply W1. rewrite <- Hk. apply in_map. exact Hu.
      * apply IH; [exact W2|]. intros u Hu. apply F. auto.
Qed.

Lemma tasks_wf_put l t : tasks_wf l -> tasks_wf (task_put l t).
Proof.
  intro W. unfold task_put. apply tasks_wf_insert.
  - apply tasks_wf_del. exact W.
  - intros u Hu. apply in_task_del in Hu. tauto.
Qed.

(* ---- association lists ------------------------------------------------------------------------------ *)

Section AssocLemmas.
  Context {K V : Type} (eqb : K -> K -> bool) (eqb_eq : forall a b, eqb a b = true <-> a = b).

  Lemma assoc_eqb_refl k : eqb k k = true.
  Proof. apply eqb_eq. reflexivity. Qed.

  Lemma assoc_get_put (l : list (K * V)) k v k' :
    assoc_get eqb (assoc_put eqb l k v) k' = if eqb k k' then Some v else assoc_get eqb l k'.
  Proof.
    induction l as [|[k0 v0] l IH]; simpl.
    - reflexivity.
    - destruct (eqb k0 k) eqn:E; simpl.
      + apply eqb_eq in E. subst k0. destruct (eqb k k'); reflexivity.
      + rewrite IH. destruct (eqb k0 k') eqn:E2; [|reflexivity].
        apply eqb_eq in E2. subst k'.
        destruct (eqb k k0) eqn:E3; [|reflexivity].
        apply eqb_eq in E3. subst k0. rewrite assoc_eqb_refl in E. discriminate.
  Qed.

  Lemma assoc_get_del (l : list (K * V)) k k' :
    assoc_get eqb (assoc_del eqb l k) k' = if eqb k k' then None else assoc_get eqb l k'.
  Proof.
    induction l as [|[k0 v0] l IH]; simpl.
    - destruct (eqb k k'); reflexivity.
    - destruct (eqb k0 k) eqn:E; simpl.
      + rewrite IH. apply eqb_eq in E. subst k0. destruct (eqb k k'); reflexivity.
      + rewrite IH. destruct (eqb k0 k') eqn:E2; [|reflexivity].
        apply eqb_eq in E2. subst k'.
        destruct (eqb k k0) eqn:E3; [|reflexivity].
        apply eqb_eq in E3. subst k0. rewrite assoc_eqb_refl in E. discriminate.
  Qed.
End AssocLemmas.

Definition chan_get_put {V} := @assoc_get_put chan_key V chan_key_eqb chan_key_eqb_eq.
Definition chan_get_del {V} := @assoc_get_del chan_key V chan_key_eqb chan_key_eqb_eq.
Definition tkey_get_put {V} := @assoc_get_put tkey V tkey_eqb tkey_eqb_eq.
