(* Proof/Delivery_props.v — statements used by Properties/C31.v that are not
   about the monitor: exactness of retries, coverage, offline-once. *)
From WK Require Import Base.Base Gen.Consts_C31 Model.Delivery Model.Delivery_C31
     Proof.Delivery_local Proof.Delivery_retry Proof.Delivery_cover Proof.Delivery_monitor Proof.Delivery_accept.
From Coq Require Import Permutation.
Open Scope N_scope.

(* ------------------------------------------------------- retry exactness ---- *)

(* the attempts of one batch: the first pushes rs, each further one pushes
   exactly what the previous one left (its Retryable set; after an error or a
   recovered panic of the owner port the same routes again) *)
Fixpoint chain_exact (rs : list route) (l : list attempt) : Prop :=
  match l with
  | [] => True
  | a :: l' => a_routes a = rs /\ chain_exact (next_routes a rs) l'
  end.

Lemma do_attempt_routes c ev o rs oo cx a cx1 :
  do_attempt c ev o rs oo cx = (a, cx1) -> a_routes a = rs.
Proof.
  unfold do_attempt, local_attempt. intros E.
  destruct (o =? c_local c).
  - destruct (pushOwnerLocal c ev o rs (oracle_local oo) cx) as [err lr]. inversion E; reflexivity.
  - destruct (negb (c_has_remote c)); [inversion E; reflexivity|].
    destruct oo as [l|acc retry drop err]; [inversion E; reflexivity|].
    destruct (err =? 2); inversion E; reflexivity.
Qed.

Theorem retry_exact c ev o : forall n rs orc cx l st orc' cx',
  pushWithRetry c ev o n rs orc cx = (l, st, orc', cx') ->
  chain_exact rs l /\ (length l <= n)%nat.
Proof.
  induction n as [|n IH]; intros rs orc cx l st orc' cx' E; cbn [pushWithRetry] in E.
  { inversion E; subst. simpl. auto. }
  destruct cx; [inversion E; subst; simpl; split; [exact I| lia]|].
  destruct (do_attempt c ev o rs (orc_hd orc) false) as [a cx1] eqn:Ea.
  pose proof (do_attempt_routes _ _ _ _ _ _ _ _ Ea) as Hr.
  destruct ((a_err a =? 0) && is_nil (a_retry a)); [inversion E; subst; simpl; split; [auto| lia]|].
  destruct n as [|n']; [inversion E; subst; simpl; split; [auto| lia]|].
  destruct cx1; [inversion E; subst; simpl; split; [auto| lia]|].
  destruct (pushWithRetry c ev o (S n') (if a_err a =? 0 then a_retry a else rs) (orc_tl orc) false)
    as [[[l2 st2] orc2] cx2] eqn:E2.
  inversion E; subst l st orc' cx'. clear E.
  destruct (IH _ _ _ _ _ _ _ E2) as [A B]. simpl. split; [split; [exact Hr| exact A]| lia].
Qed.

(* under the port contract no attempt ever touches a route outside the batch *)
Theorem retry_within c ev o R (Ho : o <> 0) : forall n rs orc cx l st orc' cx',
  pushWithRetry c ev o n rs orc cx = (l, st, orc', cx') ->
  orc_ok orc -> remote_contract R orc -> incl rs R ->
  Forall (fun a => incl (att_routes a) R /\ a_owner a = o) l.
Proof.
  intros n rs orc cx l st orc' cx' E OK RC Hin.
  exact (proj1 (pwr_incl c ev o R Ho _ _ _ _ _ _ _ _ E OK RC Hin)).
Qed.

(* ------------------------------------------------------------- coverage ---- *)

Section Plan.
Variables (c : cfg) (p : plan) (ans : list answer).
Let ev := p_event p.
Let pairs := resolved_pairs (p_targets p) ans.
Let expected := expected_routes ev pairs.
Let g := rs_groups (resolve_plan c p ans).

Lemma plan_groups_inv : g_inv ev g expected.
Proof.
  unfold g, resolve_plan.
  destruct (resolve_targets_spec (track_offline c p) ev (p_targets p) ans (Res 0 [] []) [] (g_inv_nil ev)) as [GI _].
  exact GI.
Qed.

Lemma plan_offline :
  rs_offline (resolve_plan c p ans) = (if track_offline c p then offline_of pairs [] else []).
Proof.
  unfold resolve_plan.
  destruct (resolve_targets_spec (track_offline c p) ev (p_targets p) ans (Res 0 [] []) [] (g_inv_nil ev)) as [_ OFF].
  exact OFF.
Qed.

Lemma plan_keys_ok : keys_ok g.
Proof.
  pose proof plan_groups_inv as GI.
  split; [exact (gi_nodup _ _ _ GI)|]. intros o Ho.
  pose proof (gi_keys _ _ _ GI o Ho) as Hne. split; [|exact Hne].
  rewrite (gi_get _ _ _ GI) in Hne.
  destruct (filter (fun r => r_owner r =? o) expected) as [|r l] eqn:Ef; [congruence|].
  assert (Hr : In r (filter (fun r => r_owner r =? o) expected)) by (rewrite Ef; left; reflexivity).
  apply filter_In in Hr. destruct Hr as [Hr1 Hr2]. apply N.eqb_eq in Hr2.
  unfold expected, expected_routes in Hr1. apply filter_In in Hr1. destruct Hr1 as [_ Hk].
  unfold keep_route in Hk. apply andb_true_iff in Hk. destruct Hk as [Hk _].
  apply negb_true_iff in Hk. apply N.eqb_neq in Hk. congruence.
Qed.

(* c31_coverage (grouping and batching): one group per owner; the group of owner
   o holds exactly the non-suppressed routes of the resolved targets owned by o,
   in order and with multiplicity; cutting it into batches loses and repeats nothing *)
Theorem coverage_batches :
  NoDup (g_keys g)
  /\ (forall o, g_get o g = filter (fun r => r_owner r =? o) expected)
  /\ (forall o, concat (chunks (c_batch c) (g_get o g)) = g_get o g)
  /\ (forall o b, In b (chunks (c_batch c) (g_get o g)) -> b <> [] /\ (length b <= c_batch c)%nat).
Proof.
  pose proof plan_groups_inv as GI.
  split; [exact (gi_nodup _ _ _ GI)|]. split; [exact (gi_get _ _ _ GI)|]. split.
  - intros o. apply chunks_concat. apply c_batch_pos.
  - intros o b Hb. split; [eapply chunks_nonempty; [apply c_batch_pos| exact Hb]|
                           eapply chunks_bounded; [apply c_batch_pos| exact Hb]].
Qed.

(* c31_coverage (pushes): when the context never ends, the attempts of every
   owner are accepted by the monitor's walk, and the first attempt of the i-th
   batch pushes the i-th batch (remote: push.Routes; local: one write per valid route) *)
Theorem coverage_pushed orc res cx :
  c_has_presence c = true -> (forall o, orc_ok (orc o)) ->
  processPlan c p ans false orc false = (res, cx) -> cx = false ->
  forall o, exists firsts,
    walk (c_retry c) 0 None (by_owner o (po_atts res)) = (true, firsts)
    /\ Forall2 (first_of c ev o) (chunks (c_batch c) (filter (fun r => r_owner r =? o) expected)) firsts.
Proof.
  intros Hp OK E Hcx o. unfold processPlan in E. rewrite Hp in E. cbn [negb] in E.
  fold ev in E. fold g in E.
  destruct (run_owners c ev g orc false) as [[atts st] cx0] eqn:ER.
  inversion E; subst res cx. clear E. cbn [po_atts].
  destruct (run_owners_facts c ev _ _ _ _ _ ER plan_keys_ok OK) as (_ & _ & F).
  destruct (F o) as (firsts & W & Wf). exists firsts. split; [exact W|].
  rewrite <- (gi_get _ _ _ plan_groups_inv). apply Wf. assumption.
Qed.

(* c31_offline_once: the recipients reported offline are listed without
   repetition and are exactly those of a resolved target without a route there *)
Theorem offline_once :
  let off := offline_of pairs [] in
  nodup_bytes off = true /\ (forall u, In u off <-> offline_spec pairs u = true).
Proof.
  cbn zeta. destruct (offline_of_spec pairs [] eq_refl) as [A B]. split; [exact A|].
  intros u. rewrite (B u). simpl. tauto.
Qed.

(* a recipient is never both reported offline and pushed, provided it is listed
   under one target only and the presence answers are scoped to their target *)
Theorem offline_never_pushed u :
  offline_spec pairs u = true ->
  (forall tr tr', In tr pairs -> In tr' pairs ->
      In u (t_recips (fst tr)) -> In u (t_recips (fst tr')) -> tr = tr') ->
  (forall tr, In tr pairs -> has_route_for u (snd tr) = true -> In u (t_recips (fst tr))) ->
  forall r, In r expected -> r_uid r <> u.
Proof.
  intros Hoff Huniq Hscoped r Hr Eu.
  unfold offline_spec in Hoff. apply existsb_exists in Hoff. destruct Hoff as (tr0 & Hin0 & H0).
  apply andb_true_iff in H0. destruct H0 as [Hm0 Hn0]. apply mem_bytes_in in Hm0. apply negb_true_iff in Hn0.
  unfold expected, expected_routes in Hr. apply filter_In in Hr. destruct Hr as [Hr _].
  apply in_concat in Hr. destruct Hr as (rs & Hrs & Hr). apply in_map_iff in Hrs.
  destruct Hrs as (tr & <- & Hin).
  assert (Hhas : has_route_for u (snd tr) = true).
  { unfold has_route_for. apply existsb_exists. exists r. split; [exact Hr|]. apply bytes_eqb_eq. exact Eu. }
  pose proof (Hscoped tr Hin Hhas) as Hrec.
  pose proof (Huniq tr tr0 Hin Hin0 Hrec Hm0) as ->. congruence.
Qed.

End Plan.
