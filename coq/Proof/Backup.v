(* Proof/Backup.v — C11, part 1: the framing primitives of the portable streams.
   binary.Uvarint round trip, and the two structural facts everything else rests on:
   a successful read only looks at the bytes it consumes (extension), and consumes at
   least one byte per item. *)
From WK Require Import Base.Base Base.Bytes Gen.Consts_C11 Model.Backup.
From Coq Require Import ZifyBool ZifyN ZifyNat.
Open Scope N_scope.

Ltac Zify.zify_post_hook ::= Z.div_mod_to_equations.

(* ---- take / get_be ------------------------------------------------------------------------ *)
Lemma take_ext n bs h r t : take n bs = Some (h, r) -> take n (bs ++ t) = Some (h, r ++ t).
Proof.
  unfold take. destruct (Nat.leb n (length bs)) eqn:E; [|discriminate].
  apply Nat.leb_le in E. intro H. inversion H; subst.
  rewrite app_length. assert (E2 : Nat.leb n (length bs + length t) = true) by (apply Nat.leb_le; lia).
  rewrite E2. rewrite firstn_app, skipn_app.
  replace (n - length bs)%nat with 0%nat by lia. cbn [firstn skipn]. rewrite app_nil_r. reflexivity.
Qed.

Lemma take_length n bs h r : take n bs = Some (h, r) -> (length bs = n + length r)%nat /\ length h = n.
Proof.
  intro H. apply take_spec in H. destruct H as [E L]. subst bs. rewrite app_length. lia.
Qed.

Lemma get_be_ext w bs x r t : get_be w bs = Some (x, r) -> get_be w (bs ++ t) = Some (x, r ++ t).
Proof.
  unfold get_be. destruct (take w bs) as [[h r0]|] eqn:E; [|discriminate].
  intro H. inversion H; subst. rewrite (take_ext _ _ _ _ t E). reflexivity.
Qed.

Lemma get_be_length w bs x r : get_be w bs = Some (x, r) -> (length bs = w + length r)%nat.
Proof.
  unfold get_be. destruct (take w bs) as [[h r0]|] eqn:E; [|discriminate].
  intro H. inversion H; subst. apply take_length in E. lia.
Qed.

(* ---- uvarint --------------------------------------------------------------------------------- *)
Lemma get_uvarint_loop_ext : forall fuel i x s bs v r t,
  get_uvarint_loop fuel i x s bs = Some (v, r) -> get_uvarint_loop fuel i x s (bs ++ t) = Some (v, r ++ t).
Proof.
  induction fuel as [|f IH]; intros i x s bs v r t H; [discriminate|].
  cbn [get_uvarint_loop] in *. destruct bs as [|b bs]; [discriminate|]. cbn [app].
  destruct (b <? 128).
  - destruct ((i =? 9) && (1 <? b)); [discriminate|]. inversion H; subst. reflexivity.
  - apply IH. exact H.
Qed.

Lemma get_uvarint_ext bs v r t : get_uvarint bs = Some (v, r) -> get_uvarint (bs ++ t) = Some (v, r ++ t).
Proof. apply get_uvarint_loop_ext. Qed.

Lemma get_uvarint_loop_length : forall fuel i x s bs v r,
  get_uvarint_loop fuel i x s bs = Some (v, r) -> (length r < length bs)%nat.
Proof.
  induction fuel as [|f IH]; intros i x s bs v r H; [discriminate|].
  cbn [get_uvarint_loop] in H. destruct bs as [|b bs]; [discriminate|]. cbn [length].
  destruct (b <? 128).
  - destruct ((i =? 9) && (1 <? b)); [discriminate|]. inversion H; subst. lia.
  - apply IH in H. lia.
Qed.

Lemma get_uvarint_length bs v r : get_uvarint bs = Some (v, r) -> (length r < length bs)%nat.
Proof. apply get_uvarint_loop_length. Qed.

(* round trip: the encoder of a value below 2^64 is read back, whatever follows *)
Lemma uvarint_loop_roundtrip : forall f i x acc rest,
  i + N.of_nat f = 10 -> (1 <= f)%nat -> x < 2 ^ (64 - 7 * i) ->
  get_uvarint_loop f i acc (7 * i) (put_uvarint_fuel f x ++ rest) = Some (acc + x * 2 ^ (7 * i), rest).
Proof.
  induction f as [|f IH]; intros i x acc rest Hi Hf Hx; [lia|].
  cbn [put_uvarint_fuel]. destruct (x <? 128) eqn:E.
  - apply N.ltb_lt in E. cbn [app get_uvarint_loop]. rewrite (proj2 (N.ltb_lt x 128) E).
    destruct (i =? 9) eqn:E9; cbn [andb].
    + apply N.eqb_eq in E9. subst i. assert (x < 2) by (change (64 - 7 * 9) with 1 in Hx; exact Hx).
      assert (Hb : (1 <? x) = false) by (apply N.ltb_ge; lia). rewrite Hb. reflexivity.
    + reflexivity.
  - apply N.ltb_ge in E. cbn [app get_uvarint_loop].
    assert (Hb : (128 + x mod 128 <? 128) = false) by (apply N.ltb_ge; lia). rewrite Hb.
    assert (Hi9 : i < 9).
    { destruct (N.lt_ge_cases i 9) as [L|G]; [exact L|].
      assert (i = 9) by lia. subst i. change (64 - 7 * 9) with 1 in Hx. change (2 ^ 1) with 2 in Hx. lia. }
    assert (Hm : (128 + x mod 128) mod 128 = x mod 128).
    { rewrite N.add_mod by discriminate. rewrite N.mod_same by discriminate. rewrite N.add_0_l.
      rewrite N.mod_mod by discriminate. apply N.mod_mod. discriminate. }
    rewrite Hm.
    replace (7 * i + 7) with (7 * (i + 1)) by lia.
    rewrite IH.
    + f_equal. f_equal.
      replace (7 * (i + 1)) with (7 * i + 7) by lia. rewrite N.pow_add_r.
      change (2 ^ 7) with 128.
      pose proof (N.div_mod x 128) as D. specialize (D ltac:(discriminate)).
      rewrite D at 3. lia.
    + lia.
    + lia.
    + replace (64 - 7 * (i + 1)) with (64 - 7 * i - 7) by lia.
      assert (Hp : 2 ^ (64 - 7 * i) = 2 ^ (64 - 7 * i - 7) * 128).
      { replace (64 - 7 * i) with ((64 - 7 * i - 7) + 7) at 1 by lia. rewrite N.pow_add_r. reflexivity. }
      rewrite Hp in Hx. apply N.div_lt_upper_bound; [discriminate|]. lia.
Qed.

Theorem uvarint_roundtrip x rest : x < 2 ^ 64 -> get_uvarint (put_uvarint x ++ rest) = Some (x, rest).
Proof.
  intro Hx. unfold get_uvarint, put_uvarint.
  pose proof (uvarint_loop_roundtrip 10 0 x 0 rest) as H.
  change (7 * 0) with 0 in H. rewrite N.mul_1_r in H. apply H; [reflexivity|lia|exact Hx].
Qed.

(* ---- fields ------------------------------------------------------------------------------------ *)
Lemma get_field_ext cap bs f r t : get_field cap bs = Some (f, r) -> get_field cap (bs ++ t) = Some (f, r ++ t).
Proof.
  unfold get_field. destruct (get_uvarint bs) as [[n r0]|] eqn:E; [|discriminate].
  rewrite (get_uvarint_ext _ _ _ t E).
  destruct (cap <? n); cbn [orb]; [discriminate|].
  destruct (N.of_nat (length r0) <? n) eqn:El; [discriminate|].
  assert (El2 : (N.of_nat (length (r0 ++ t)) <? n) = false).
  { apply N.ltb_ge in El. apply N.ltb_ge. rewrite app_length. lia. }
  rewrite El2. apply take_ext.
Qed.

Lemma get_field_length cap bs f r : get_field cap bs = Some (f, r) -> (length r < length bs)%nat.
Proof.
  unfold get_field. destruct (get_uvarint bs) as [[n r0]|] eqn:E; [|discriminate].
  destruct ((cap <? n) || (N.of_nat (length r0) <? n)); [discriminate|].
  intro H. apply take_length in H. apply get_uvarint_length in E. lia.
Qed.

Theorem field_roundtrip cap b rest :
  N.of_nat (length b) <= cap -> N.of_nat (length b) < 2 ^ 64 ->
  get_field cap (put_field b ++ rest) = Some (b, rest).
Proof.
  intros Hc Hl. unfold get_field, put_field. rewrite <- app_assoc.
  rewrite uvarint_roundtrip by exact Hl.
  assert (E1 : (cap <? N.of_nat (length b)) = false) by (apply N.ltb_ge; exact Hc). rewrite E1. cbn [orb].
  assert (E2 : (N.of_nat (length (b ++ rest)) <? N.of_nat (length b)) = false).
  { apply N.ltb_ge. rewrite app_length. lia. }
  rewrite E2. rewrite Nat2N.id. apply take_app. reflexivity.
Qed.

(* ---- the declared-count bound never cuts a successful read short --------------------------- *)
Lemma bounded_ok cnt bs n : bounded cnt bs = n -> (n <= length bs)%nat -> N.of_nat n = cnt.
Proof.
  unfold bounded. intros E L.
  destruct (N.le_gt_cases cnt (N.of_nat (length bs) + 1)) as [H|H].
  - rewrite N.min_l in E by exact H. rewrite <- E. apply N2Nat.id.
  - rewrite N.min_r in E by lia. lia.
Qed.

Lemma bounded_ext cnt bs t n : bounded cnt bs = n -> (n <= length bs)%nat -> bounded cnt (bs ++ t) = n.
Proof.
  intros E L. pose proof (bounded_ok _ _ _ E L) as Hc. unfold bounded. rewrite app_length.
  rewrite N.min_l by lia. rewrite <- Hc. apply Nat2N.id.
Qed.

(* ---- lists of items -------------------------------------------------------------------------- *)
Lemma dec_sys_list_ext : forall n bs l r t,
  dec_sys_list n bs = Some (l, r) -> dec_sys_list n (bs ++ t) = Some (l, r ++ t).
Proof.
  induction n as [|n IH]; intros bs l r t H; cbn [dec_sys_list] in *; [inversion H; reflexivity|].
  destruct (get_field _ bs) as [[k r1]|] eqn:E1; [|discriminate]. rewrite (get_field_ext _ _ _ _ t E1).
  destruct (get_field _ r1) as [[v r2]|] eqn:E2; [|discriminate]. rewrite (get_field_ext _ _ _ _ t E2).
  destruct (dec_sys_list n r2) as [[l0 r3]|] eqn:E3; [|discriminate]. rewrite (IH _ _ _ t E3).
  inversion H; subst. reflexivity.
Qed.

Lemma dec_sys_list_length : forall n bs l r,
  dec_sys_list n bs = Some (l, r) -> length l = n /\ (length r + n <= length bs)%nat.
Proof.
  induction n as [|n IH]; intros bs l r H; cbn [dec_sys_list] in *; [inversion H; subst; cbn; lia|].
  destruct (get_field _ bs) as [[k r1]|] eqn:E1; [|discriminate].
  destruct (get_field _ r1) as [[v r2]|] eqn:E2; [|discriminate].
  destruct (dec_sys_list n r2) as [[l0 r3]|] eqn:E3; [|discriminate].
  inversion H; subst. apply IH in E3. apply get_field_length in E1. apply get_field_length in E2.
  cbn [length]. lia.
Qed.

Lemma dec_row_list_ext : forall n bs l r t,
  dec_row_list n bs = Some (l, r) -> dec_row_list n (bs ++ t) = Some (l, r ++ t).
Proof.
  induction n as [|n IH]; intros bs l r t H; cbn [dec_row_list] in *; [inversion H; reflexivity|].
  destruct (get_be 8 bs) as [[sq r0]|] eqn:E0; [|discriminate]. rewrite (get_be_ext _ _ _ _ t E0).
  destruct (get_field _ r0) as [[h r1]|] eqn:E1; [|discriminate]. rewrite (get_field_ext _ _ _ _ t E1).
  destruct (get_field _ r1) as [[p r2]|] eqn:E2; [|discriminate]. rewrite (get_field_ext _ _ _ _ t E2).
  destruct (dec_row_list n r2) as [[l0 r3]|] eqn:E3; [|discriminate]. rewrite (IH _ _ _ t E3).
  inversion H; subst. reflexivity.
Qed.

Lemma dec_row_list_length : forall n bs l r,
  dec_row_list n bs = Some (l, r) -> length l = n /\ (length r + n <= length bs)%nat.
Proof.
  induction n as [|n IH]; intros bs l r H; cbn [dec_row_list] in *; [inversion H; subst; cbn; lia|].
  destruct (get_be 8 bs) as [[sq r0]|] eqn:E0; [|discriminate].
  destruct (get_field _ r0) as [[h r1]|] eqn:E1; [|discriminate].
  destruct (get_field _ r1) as [[p r2]|] eqn:E2; [|discriminate].
  destruct (dec_row_list n r2) as [[l0 r3]|] eqn:E3; [|discriminate].
  inversion H; subst. apply IH in E3. apply get_be_length in E0. apply get_field_length in E1.
  apply get_field_length in E2. cbn [length]. lia.
Qed.

Lemma dec_chan_header_ext bs h r t : dec_chan_header bs = Some (h, r) -> dec_chan_header (bs ++ t) = Some (h, r ++ t).
Proof.
  unfold dec_chan_header.
  destruct (get_field _ bs) as [[key r1]|] eqn:E1; [|discriminate]. rewrite (get_field_ext _ _ _ _ t E1).
  destruct (get_field _ r1) as [[id r2]|] eqn:E2; [|discriminate]. rewrite (get_field_ext _ _ _ _ t E2).
  destruct r2 as [|ty r3]; [discriminate|]. cbn [app].
  destruct (take 24 r3) as [[ckp r4]|] eqn:E4; [|discriminate]. rewrite (take_ext _ _ _ _ t E4).
  destruct (get_uvarint r4) as [[nsys r5]|] eqn:E5; [|discriminate]. rewrite (get_uvarint_ext _ _ _ t E5).
  destruct (dec_sys_list (bounded nsys r5) r5) as [[sys r6]|] eqn:E6; [|discriminate].
  pose proof (dec_sys_list_length _ _ _ _ E6) as [_ L6].
  rewrite (bounded_ext nsys r5 t (bounded nsys r5) eq_refl) by lia.
  rewrite (dec_sys_list_ext _ _ _ _ t E6).
  destruct (get_uvarint r6) as [[cnt r7]|] eqn:E7; [|discriminate]. rewrite (get_uvarint_ext _ _ _ t E7).
  intro H. inversion H; subst. reflexivity.
Qed.

Lemma dec_chan_header_length bs h r : dec_chan_header bs = Some (h, r) -> (length r < length bs)%nat.
Proof.
  unfold dec_chan_header.
  destruct (get_field _ bs) as [[key r1]|] eqn:E1; [|discriminate].
  destruct (get_field _ r1) as [[id r2]|] eqn:E2; [|discriminate].
  destruct r2 as [|ty r3]; [discriminate|].
  destruct (take 24 r3) as [[ckp r4]|] eqn:E4; [|discriminate].
  destruct (get_uvarint r4) as [[nsys r5]|] eqn:E5; [|discriminate].
  destruct (dec_sys_list (bounded nsys r5) r5) as [[sys r6]|] eqn:E6; [|discriminate].
  destruct (get_uvarint r6) as [[cnt r7]|] eqn:E7; [|discriminate].
  intro H. inversion H; subst.
  apply get_field_length in E1. apply get_field_length in E2. apply take_length in E4.
  apply get_uvarint_length in E5. apply get_uvarint_length in E7.
  apply dec_sys_list_length in E6. cbn [length] in *. lia.
Qed.

Lemma dec_chan_ext bs c r t : dec_chan bs = Some (c, r) -> dec_chan (bs ++ t) = Some (c, r ++ t).
Proof.
  unfold dec_chan.
  destruct (dec_chan_header bs) as [[h r7]|] eqn:E1; [|discriminate]. rewrite (dec_chan_header_ext _ _ _ t E1).
  destruct (dec_row_list (bounded (rc_count h) r7) r7) as [[rows r8]|] eqn:E8; [|discriminate].
  pose proof (dec_row_list_length _ _ _ _ E8) as [_ L8].
  rewrite (bounded_ext (rc_count h) r7 t (bounded (rc_count h) r7) eq_refl) by lia.
  rewrite (dec_row_list_ext _ _ _ _ t E8).
  intro H. inversion H; subst. reflexivity.
Qed.

Lemma dec_chan_length bs c r : dec_chan bs = Some (c, r) -> (length r < length bs)%nat.
Proof.
  unfold dec_chan.
  destruct (dec_chan_header bs) as [[h r7]|] eqn:E1; [|discriminate].
  destruct (dec_row_list (bounded (rc_count h) r7) r7) as [[rows r8]|] eqn:E8; [|discriminate].
  intro H. inversion H; subst.
  apply dec_chan_header_length in E1. apply dec_row_list_length in E8. lia.
Qed.

Lemma dec_chan_list_ext : forall n bs l r t,
  dec_chan_list n bs = Some (l, r) -> dec_chan_list n (bs ++ t) = Some (l, r ++ t).
Proof.
  induction n as [|n IH]; intros bs l r t H; cbn [dec_chan_list] in *; [inversion H; reflexivity|].
  destruct (dec_chan bs) as [[c r1]|] eqn:E1; [|discriminate]. rewrite (dec_chan_ext _ _ _ t E1).
  destruct (dec_chan_list n r1) as [[l0 r2]|] eqn:E2; [|discriminate]. rewrite (IH _ _ _ t E2).
  inversion H; subst. reflexivity.
Qed.

Lemma dec_chan_list_length : forall n bs l r,
  dec_chan_list n bs = Some (l, r) -> length l = n /\ (length r + n <= length bs)%nat.
Proof.
  induction n as [|n IH]; intros bs l r H; cbn [dec_chan_list] in *; [inversion H; subst; cbn; lia|].
  destruct (dec_chan bs) as [[c r1]|] eqn:E1; [|discriminate].
  destruct (dec_chan_list n r1) as [[l0 r2]|] eqn:E2; [|discriminate].
  inversion H; subst. apply IH in E2. apply dec_chan_length in E1. cbn [length]. lia.
Qed.

(* the framing decoder of a whole payload only looks at what it consumes *)
Theorem dec_msg_payload_ext bs s r t : dec_msg_payload bs = Some (s, r) -> dec_msg_payload (bs ++ t) = Some (s, r ++ t).
Proof.
  unfold dec_msg_payload.
  destruct (take 4 bs) as [[mg r0]|] eqn:E0; [|discriminate]. rewrite (take_ext _ _ _ _ t E0).
  destruct (negb (bytes_eqb mg msgMagic)); [discriminate|].
  destruct (get_be 2 r0) as [[ver r1]|] eqn:E1; [|discriminate]. rewrite (get_be_ext _ _ _ _ t E1).
  destruct (negb (ver =? msgVersion)); [discriminate|].
  destruct (get_be 2 r1) as [[hs r2]|] eqn:E2; [|discriminate]. rewrite (get_be_ext _ _ _ _ t E2).
  destruct (get_be 4 r2) as [[n r3]|] eqn:E3; [|discriminate]. rewrite (get_be_ext _ _ _ _ t E3).
  destruct (dec_chan_list (bounded n r3) r3) as [[cs r4]|] eqn:E4; [|discriminate].
  pose proof (dec_chan_list_length _ _ _ _ E4) as [_ L4].
  rewrite (bounded_ext n r3 t (bounded n r3) eq_refl) by lia.
  rewrite (dec_chan_list_ext _ _ _ _ t E4).
  intro H. inversion H; subst. reflexivity.
Qed.

(* a strict prefix of a completely consumed payload is not a complete payload *)
Theorem dec_msg_payload_prefix_free p s q t :
  dec_msg_payload p = Some (s, []) -> p = q ++ t -> t <> [] -> forall s', dec_msg_payload q <> Some (s', []).
Proof.
  intros Hp Eq Ht s' Hq. apply (dec_msg_payload_ext _ _ _ t) in Hq. rewrite <- Eq in Hq. rewrite Hp in Hq.
  injection Hq as _ E. cbn in E. apply Ht. symmetry. exact E.
Qed.

(* ---- metadata stream ---------------------------------------------------------------------------- *)
Lemma dec_u16_list_ext : forall n bs l r t,
  dec_u16_list n bs = Some (l, r) -> dec_u16_list n (bs ++ t) = Some (l, r ++ t).
Proof.
  induction n as [|n IH]; intros bs l r t H; cbn [dec_u16_list] in *; [inversion H; reflexivity|].
  destruct (get_be 2 bs) as [[x r1]|] eqn:E1; [|discriminate]. rewrite (get_be_ext _ _ _ _ t E1).
  destruct (dec_u16_list n r1) as [[l0 r2]|] eqn:E2; [|discriminate]. rewrite (IH _ _ _ t E2).
  inversion H; subst. reflexivity.
Qed.

Lemma dec_entry_ext bs e r t : dec_entry bs = Some (e, r) -> dec_entry (bs ++ t) = Some (e, r ++ t).
Proof.
  unfold dec_entry.
  destruct (get_uvarint bs) as [[kl r1]|] eqn:E1; [|discriminate]. rewrite (get_uvarint_ext _ _ _ t E1).
  destruct (maxSlotSnapshotStreamEntryBytes <? kl); [discriminate|].
  destruct (get_uvarint r1) as [[vl r2]|] eqn:E2; [|discriminate]. rewrite (get_uvarint_ext _ _ _ t E2).
  destruct (maxSlotSnapshotStreamEntryBytes <? vl); [discriminate|].
  destruct (N.of_nat (length r2) <? kl) eqn:L1; [discriminate|].
  assert (L1' : (N.of_nat (length (r2 ++ t)) <? kl) = false).
  { apply N.ltb_ge in L1. apply N.ltb_ge. rewrite app_length. lia. }
  rewrite L1'.
  destruct (take (N.to_nat kl) r2) as [[k r3]|] eqn:E3; [|discriminate]. rewrite (take_ext _ _ _ _ t E3).
  destruct (N.of_nat (length r3) <? vl) eqn:L2; [discriminate|].
  assert (L2' : (N.of_nat (length (r3 ++ t)) <? vl) = false).
  { apply N.ltb_ge in L2. apply N.ltb_ge. rewrite app_length. lia. }
  rewrite L2'.
  destruct (take (N.to_nat vl) r3) as [[v r4]|] eqn:E4; [|discriminate]. rewrite (take_ext _ _ _ _ t E4).
  intro H. inversion H; subst. reflexivity.
Qed.

Lemma dec_entry_length bs e r : dec_entry bs = Some (e, r) -> (length r < length bs)%nat.
Proof.
  unfold dec_entry.
  destruct (get_uvarint bs) as [[kl r1]|] eqn:E1; [|discriminate].
  destruct (maxSlotSnapshotStreamEntryBytes <? kl); [discriminate|].
  destruct (get_uvarint r1) as [[vl r2]|] eqn:E2; [|discriminate].
  destruct (maxSlotSnapshotStreamEntryBytes <? vl); [discriminate|].
  destruct (N.of_nat (length r2) <? kl); [discriminate|].
  destruct (take (N.to_nat kl) r2) as [[k r3]|] eqn:E3; [|discriminate].
  destruct (N.of_nat (length r3) <? vl); [discriminate|].
  destruct (take (N.to_nat vl) r3) as [[v r4]|] eqn:E4; [|discriminate].
  intro H. inversion H; subst.
  apply get_uvarint_length in E1. apply get_uvarint_length in E2. apply take_length in E3. apply take_length in E4. lia.
Qed.

Lemma dec_entry_list_ext : forall n bs l r t,
  dec_entry_list n bs = Some (l, r) -> dec_entry_list n (bs ++ t) = Some (l, r ++ t).
Proof.
  induction n as [|n IH]; intros bs l r t H; cbn [dec_entry_list] in *; [inversion H; reflexivity|].
  destruct (dec_entry bs) as [[e r1]|] eqn:E1; [|discriminate]. rewrite (dec_entry_ext _ _ _ t E1).
  destruct (dec_entry_list n r1) as [[l0 r2]|] eqn:E2; [|discriminate]. rewrite (IH _ _ _ t E2).
  inversion H; subst. reflexivity.
Qed.

Lemma dec_entry_list_length : forall n bs l r,
  dec_entry_list n bs = Some (l, r) -> length l = n /\ (length r + n <= length bs)%nat.
Proof.
  induction n as [|n IH]; intros bs l r H; cbn [dec_entry_list] in *; [inversion H; subst; cbn; lia|].
  destruct (dec_entry bs) as [[e r1]|] eqn:E1; [|discriminate].
  destruct (dec_entry_list n r1) as [[l0 r2]|] eqn:E2; [|discriminate].
  inversion H; subst. apply IH in E2. apply dec_entry_length in E1. cbn [length]. lia.
Qed.

Theorem dec_meta_payload_ext bs s r t : dec_meta_payload bs = Some (s, r) -> dec_meta_payload (bs ++ t) = Some (s, r ++ t).
Proof.
  unfold dec_meta_payload.
  destruct (take 4 bs) as [[mg r0]|] eqn:E0; [|discriminate]. rewrite (take_ext _ _ _ _ t E0).
  destruct (negb (bytes_eqb mg metaMagic)); [discriminate|].
  destruct (get_be 2 r0) as [[ver r1]|] eqn:E1; [|discriminate]. rewrite (get_be_ext _ _ _ _ t E1).
  destruct (negb (ver =? metaVersion)); [discriminate|].
  destruct (get_be 2 r1) as [[ns r2]|] eqn:E2; [|discriminate]. rewrite (get_be_ext _ _ _ _ t E2).
  destruct (ns =? 0); [discriminate|].
  destruct (dec_u16_list (N.to_nat ns) r2) as [[slots r3]|] eqn:E3; [|discriminate]. rewrite (dec_u16_list_ext _ _ _ _ t E3).
  destruct (get_be 8 r3) as [[cnt r4]|] eqn:E4; [|discriminate]. rewrite (get_be_ext _ _ _ _ t E4).
  destruct (9223372036854775807 <? cnt); [discriminate|].
  destruct (dec_entry_list (bounded cnt r4) r4) as [[es r5]|] eqn:E5; [|discriminate].
  pose proof (dec_entry_list_length _ _ _ _ E5) as [_ L5].
  rewrite (bounded_ext cnt r4 t (bounded cnt r4) eq_refl) by lia.
  rewrite (dec_entry_list_ext _ _ _ _ t E5).
  intro H. inversion H; subst. reflexivity.
Qed.

Theorem dec_meta_payload_prefix_free p s q t :
  dec_meta_payload p = Some (s, []) -> p = q ++ t -> t <> [] -> forall s', dec_meta_payload q <> Some (s', []).
Proof.
  intros Hp Eq Ht s' Hq. apply (dec_meta_payload_ext _ _ _ t) in Hq. rewrite <- Eq in Hq. rewrite Hp in Hq.
  injection Hq as _ E. cbn in E. apply Ht. symmetry. exact E.
Qed.
