(* Proof/QuorumLog_C03.v — receipts are exact, contiguous and retry-stable: lemmas about
   Commit (Model/QuorumLog.v) and the exact append of both stores (Model/ReplicaLog.v). *)
From WK Require Import Base.Base.
From WK Require Import Model.ReplicaLog Model.QuorumLog Model.Cluster Model.Monitor_C03.
From WK Require Import Proof.ReplicaLog Proof.QuorumLog_Commit Proof.QuorumLog_C04.
From Coq Require Import ZifyBool ZifyN.
Open Scope N_scope.

(* ---- sealed proposals ------------------------------------------------------------------------------- *)

Definition well_sealed (d : dproposal) : Prop :=
  exists es, SealProposalManifest (dp_manifest d) (dp_records d) = Some (dp_manifest d, es).

Lemma set_m_dg_twice m d d' : set_m_dg (set_m_dg m d) d' = set_m_dg m d'.
Proof. destruct m. reflexivity. Qed.

(* the entry chain does not read the manifest's own digest *)
Lemma derive_set_dg m d recs : DeriveProposalEntries (set_m_dg m d) recs = DeriveProposalEntries m recs.
Proof.
  unfold DeriveProposalEntries. destruct m as [e t f c b l pt pi pd dg]. cbn.
  destruct (_ || _ || _ || _ || _ || _ || _); [reflexivity|].
  destruct (if b =? 0 then _ else _); [reflexivity|].
  apply derive_loop_ext; reflexivity.
Qed.

(* sealing is idempotent: the sealed manifest reseals to itself *)
Lemma seal_idem m0 recs m es :
  SealProposalManifest m0 recs = Some (m, es) -> SealProposalManifest m recs = Some (m, es).
Proof.
  unfold SealProposalManifest. destruct (DeriveProposalEntries (set_m_dg m0 D0) recs) as [es0|] eqn:E; [|discriminate].
  intro H. inversion H; subst. rewrite set_m_dg_twice, E, set_m_dg_twice. reflexivity.
Qed.

Lemma seal_keeps_header m0 recs m es :
  SealProposalManifest m0 recs = Some (m, es) ->
  m_e m = m_e m0 /\ m_t m = m_t m0 /\ m_f m = m_f m0 /\ m_cmd m = m_cmd m0 /\ m_base m = m_base m0 /\
  m_last m = m_last m0 /\ lenN es = lenN recs /\ m_last m0 = m_base m0 + lenN recs.
Proof.
  unfold SealProposalManifest. destruct (DeriveProposalEntries (set_m_dg m0 D0) recs) as [es0|] eqn:E; [|discriminate].
  intro H. inversion H; subst. destruct m0; cbn. repeat split.
  - unfold DeriveProposalEntries in E. cbn in E.
    destruct (_ || _ || _ || _ || _ || _ || _) in E; [discriminate|].
    destruct (if _ =? 0 then _ else _) in E; [discriminate|].
    apply derive_loop_length in E. unfold lenN. rewrite E. reflexivity.
  - unfold DeriveProposalEntries in E. cbn in E.
    destruct (_ || _ || _ || _ || _ || _ || _) eqn:C in E; [discriminate|]. lia.
Qed.

Lemma sealBusinessProposal_fields a frontier hw cmd recs sa d :
  sealBusinessProposal a frontier hw cmd recs sa = Some d ->
  dp_first d = rs_leo frontier + 1 /\ dp_last d = rs_leo frontier + lenN recs /\
  m_cmd (dp_manifest d) = cmd /\ m_base (dp_manifest d) = rs_leo frontier /\
  m_last (dp_manifest d) = rs_leo frontier + lenN recs /\
  dp_records d = recs /\ dp_committed d = hw /\ dp_sa d = sa /\ dp_leader d = a_leader a /\ well_sealed d.
Proof.
  unfold sealBusinessProposal.
  match goal with |- context[SealProposalManifest ?m0 recs] => destruct (SealProposalManifest m0 recs) as [[m es]|] eqn:E; [|discriminate];
    pose proof (seal_keeps_header _ _ _ _ E) as K; pose proof (seal_idem _ _ _ _ E) as I end.
  destruct (lenN es =? lenN recs); [|discriminate]. intro H. inversion H; subst. cbn in *.
  destruct K as (_ & _ & _ & Kc & Kb & Kl & _ & _).
  repeat split; try assumption; try lia. exists es. exact I.
Qed.

(* sameProposalContent on a sealed proposal holds exactly for its own records *)
Lemma sameProposalContent_records d recs :
  well_sealed d -> sameProposalContent d recs = true -> recs = dp_records d.
Proof.
  intros [es Hs]. unfold sameProposalContent. rewrite andb_true_iff. intros [Hl Hm].
  destruct (SealProposalManifest (dp_manifest d) recs) as [[m es']|] eqn:E; [|discriminate].
  apply manifest_eqb_eq in Hm. subst m.
  eapply seal_same_manifest_same_records; eauto. unfold lenN in Hl. lia.
Qed.

(* ---- retries answered from the retained cache ------------------------------------------------------------ *)

(* a command still retained: identical content gives back the stored receipt, different content is
   ErrLogConflict; in both cases no replica and no owner field changes *)
Lemma Commit_retained cfg n st local p a rt n' st' r :
  commit_admitted cfg st a p ->
  get_retained (qc_retained st) (pr_cmd p) = Some rt -> rt_durable rt = true ->
  Commit cfg n st local p = (n', st', r) ->
  n' = n /\ st' = st /\
  ((sameProposalContent (rt_prop rt) (pr_records p) = true /\ r = COk (rt_receipt rt)) \/
   (sameProposalContent (rt_prop rt) (pr_records p) = false /\ r = CErr EConflict)).
Proof.
  intros Hadm Hget Hd H. apply (Commit_shape _ _ _ _ _ _ _ _ _ Hadm) in H.
  destruct H; try congruence.
  - rewrite Hget in H. inversion H; subst. auto.
  - rewrite Hget in H. inversion H; subst. auto.
Qed.

(* a command that is the pending (ambiguous) proposal: different content is ErrLogConflict and
   nothing changes *)
Lemma Commit_pending_conflict cfg n st local p a pend n' st' r :
  commit_admitted cfg st a p ->
  get_retained (qc_retained st) (pr_cmd p) = None -> qc_pending st = Some pend ->
  tag_eqb (m_cmd (dp_manifest (rt_prop pend))) (pr_cmd p) = true ->
  sameProposalContent (rt_prop pend) (pr_records p) = false ->
  Commit cfg n st local p = (n', st', r) -> n' = n /\ st' = st /\ r = CErr EConflict.
Proof.
  intros Hadm Hget Hp Ht Hs H. apply (Commit_shape _ _ _ _ _ _ _ _ _ Hadm) in H.
  destruct H; try congruence; auto.
Qed.

(* ---- a fresh command ----------------------------------------------------------------------------------- *)

Lemma finishCommit_ok cfg st a r res st' rc :
  finishCommit cfg st a r res = (st', COk rc) ->
  rr_local res = true /\ a_q a <=? rr_votes res = true /\
  rc = Receipt (a_id a) (m_cmd (dp_manifest (rt_prop r))) (dp_first (rt_prop r)) (dp_last (rt_prop r)) (dp_last (rt_prop r)) /\
  rs_leo (qc_frontier st') = dp_last (rt_prop r) /\ qc_hw st' = dp_last (rt_prop r) /\ qc_pending st' = None.
Proof.
  unfold finishCommit.
  destruct (negb (rr_local res) || (rr_votes res <? a_q a) || negb (outcome_durable (rr_outcome res))) eqn:C; [discriminate|].
  destruct (SealProposalManifest _ _) as [[m es]|]; [|discriminate].
  intro H. inversion H; subst. clear H.
  match goal with |- context[remember cfg ?s ?x] => destruct (remember_fields cfg s x) as (_ & _ & Hp & Hf & Hh) end.
  rewrite Hp, Hf, Hh. cbn.
  split; [destruct (rr_local res); [reflexivity | discriminate]|].
  split; [lia|]. repeat split.
Qed.

(* the receipt of a fresh command (not retained, nothing pending) that went through the
   durability round: First is the owner's frontier + 1, the range has exactly one sequence per
   record, HW = Last, the owner's frontier moves to Last; and on the local replica the proposal
   was either appended exactly at the log end or was already present unchanged *)
Lemma Commit_fresh_exact cfg n st local p a d n1 res st2 rc :
  commit_admitted cfg st a p ->
  sealBusinessProposal a (qc_frontier st) (qc_hw st) (pr_cmd p) (pr_records p) (pr_sa p) = Some d ->
  runDurableRound n local (a_voters a) (a_q a) (cf_rot cfg) d = (n1, res) ->
  finishCommit cfg (set_pending st (Some (Retained d receipt_zero false))) a (Retained d receipt_zero false) res = (st2, COk rc) ->
  rc = Receipt (a_id a) (pr_cmd p) (rs_leo (qc_frontier st) + 1) (rs_leo (qc_frontier st) + lenN (pr_records p))
               (rs_leo (qc_frontier st) + lenN (pr_records p)) /\
  rs_leo (qc_frontier st2) = rc_last rc /\ qc_hw st2 = rc_last rc /\ qc_pending st2 = None /\
  (exists es, DeriveProposalEntries (dp_manifest d) (pr_records p) = Some es /\
     ((rp_leo (net_rep n local) = rs_leo (qc_frontier st) /\
       rp_log (net_rep n1 local) = rp_log (net_rep n local) ++ combine es (pr_records p)) \/
      (rp_log (net_rep n1 local) = rp_log (net_rep n local) /\
       by_cmd (rp_bycmd (net_rep n local)) (pr_cmd p) = Some (dp_manifest d)))).
Proof.
  intros Hadm Hseal Hround Hfin.
  destruct (sealBusinessProposal_fields _ _ _ _ _ _ _ Hseal) as (F1 & F2 & F3 & F4 & F5 & F6 & F7 & F8 & F9 & [es0 Hws]).
  destruct (finishCommit_ok _ _ _ _ _ _ _ Hfin) as (Hl & Hq & Hrc & Hfr & Hhw & Hp). cbn [rt_prop] in *.
  rewrite F1, F2, F3 in Hrc.
  split; [exact Hrc|]. subst rc. cbn [rc_last]. rewrite <- F2.
  split; [exact Hfr|]. split; [exact Hhw|]. split; [exact Hp|].
  destruct (runDurableRound_local _ _ _ _ _ _ _ _ Hround) as (n0 & o1 & Hsl & Hrep & _ & Hdur).
  specialize (Hdur Hl).
  destruct (submitLocal_effect _ _ _ _ _ Hsl) as [[_ Hnd] | (rp & o & nf & Hsync & Hrp & Ho)]; [congruence|].
  specialize (Ho Hdur). subst o1.
  pose proof (sync_effect_holds _ _ _ _ _ _ Hsync) as He. unfold sync_effect in He.
  unfold dp_mutation in He. cbn [mu_manifest mu_records] in He. rewrite F6 in He.
  rewrite Hrep, Hrp.
  destruct o; try discriminate.
  - destruct He as (Hleo & es & Hes & Hlog & _). exists es. split; [exact Hes|]. left.
    rewrite F4 in Hleo. auto.
  - destruct He as (Hlog & _ & _ & Hbc). rewrite F3 in Hbc.
    (* the derived entries exist because the proposal is well sealed *)
    unfold SealProposalManifest in Hws. rewrite F6 in Hws.
    destruct (DeriveProposalEntries (set_m_dg (dp_manifest d) D0) (pr_records p)) as [es|] eqn:E; [|discriminate].
    assert (Hd : DeriveProposalEntries (dp_manifest d) (pr_records p) = Some es)
      by (rewrite <- E; symmetry; apply derive_set_dg).
    exists es. split; [exact Hd|]. right. auto.
Qed.

(* within one authority generation the owner's frontier only moves forward, so the ranges of
   successive fresh receipts are disjoint and increasing *)
Lemma finishCommit_frontier cfg st a r res st' out :
  finishCommit cfg st a r res = (st', out) ->
  qc_frontier st' = qc_frontier st \/ rs_leo (qc_frontier st') = dp_last (rt_prop r).
Proof.
  unfold finishCommit.
  destruct (negb (rr_local res) || (rr_votes res <? a_q a) || negb (outcome_durable (rr_outcome res))).
  { intro H. inversion H; subst. left. reflexivity. }
  destruct (SealProposalManifest _ _) as [[m es]|].
  2:{ intro H. inversion H; subst. left. reflexivity. }
  intro H. inversion H; subst.
  match goal with |- context[remember cfg ?s ?x] => destruct (remember_fields cfg s x) as (_ & _ & _ & Hf & _) end.
  right. rewrite Hf. reflexivity.
Qed.

(* ---- a command the local store already knows under another manifest (evicted / restarted retry) ---------- *)

(* slow path: the store consults its command index.  True for the memory store, and for the
   Pebble store unless the proposal claims server allocated ids and extends the log end *)
Definition slow_path (k : store_kind) (rp : replica) (mu : mutation) : Prop :=
  k = SMem \/ mu_sa mu = false \/ m_base (mu_manifest mu) <> rp_leo rp.

Lemma sync_known_command_rejected k rp mu m0 rp' o nf :
  by_cmd (rp_bycmd rp) (m_cmd (mu_manifest mu)) = Some m0 -> m0 <> mu_manifest mu ->
  slow_path k rp mu ->
  sync k rp mu = (rp', o, nf) -> outcome_durable o = false /\ rp' = rp.
Proof.
  intros Hbc Hne Hslow H.
  assert (Hnd : outcome_durable o = false).
  { unfold sync in H. destruct (negb (validMutation mu)); [inversion H; reflexivity|].
    destruct k.
    - destruct (appendLeaderExactLocked rp (mu_manifest mu) (mu_records mu)) as [[rp1 o1] nf1] eqn:E.
      assert (Ho1 : outcome_durable o1 = false).
      { unfold appendLeaderExactLocked in E. rewrite Hbc in E.
        repeat (first [break_if E | break_match E]; try (finish3 E; try reflexivity)).
        exfalso. apply Hne.
        match goal with Hm : manifest_eqb _ _ && _ && _ && _ = true |- _ =>
          rewrite !andb_true_iff in Hm; destruct Hm as [[[Hm _] _] _]; apply manifest_eqb_eq in Hm; exact Hm end. }
      rewrite Ho1 in H. inversion H; subst. exact Ho1.
    - unfold prepareExactAppendRecordsLocked in H. cbv zeta in H. rewrite Hbc in H.
      assert (Hsf : mu_sa mu && (m_base (mu_manifest mu) =? rp_leo rp) = false).
      { destruct Hslow as [X | [X | X]]; [discriminate | rewrite X; reflexivity |].
        destruct (m_base (mu_manifest mu) =? rp_leo rp) eqn:E; [apply N.eqb_eq in E; contradiction|].
        apply andb_false_r. }
      rewrite Hsf in H.
      repeat (first [break_if H | break_match H]; try (finish3 H; try reflexivity)).
      all: exfalso; apply Hne;
        match goal with Hm : negb (match by_last _ _ with Some _ => _ | None => false end) = false |- _ =>
          apply negb_false_iff in Hm; destruct (by_last (rp_bylast rp) (m_last (mu_manifest mu))); [|discriminate];
          rewrite !andb_true_iff in Hm; destruct Hm as [[Hm _] _];
          apply manifest_eqb_eq in Hm; exact Hm end. }
  split; [exact Hnd|]. eapply sync_not_durable_unchanged; eauto.
Qed.

(* the receipt built by reconcileCommandConflict is the range stored under the command *)
Lemma reconcile_ok cfg n st a local p st' rc :
  reconcileCommandConflict cfg n st a local p = (st', COk rc) ->
  exists m recs, lookupCommand (nt_kind n) (net_rep n local) (pr_cmd p) (cf_maxrecs cfg) = inr (Some (m, recs)) /\
    rc = Receipt (a_id a) (pr_cmd p) (m_base m + 1) (m_last m) (m_last m) /\
    pr_records p = recs /\ m_last m <= qc_hw st.
Proof.
  unfold reconcileCommandConflict, loadRetainedProposal.
  destruct (lookupCommand (nt_kind n) (net_rep n local) (pr_cmd p) (cf_maxrecs cfg)) as [e | [[m recs] |]]; try discriminate.
  destruct (negb (StructurallyValid m) || negb (tag_eqb (m_cmd m) (pr_cmd p)) || (qc_hw st <? m_last m) ||
            negb (m_e m =? aid_e (a_id a)) || negb (m_t m =? aid_t (a_id a)) || negb (m_f m =? aid_f (a_id a))) eqn:C;
    [discriminate|].
  destruct (SealProposalManifest m recs) as [[sealed es]|] eqn:Hs; [|discriminate].
  destruct (negb (manifest_eqb sealed m) || (lenN es =? 0)) eqn:C2; [discriminate|].
  match goal with |- context[sameProposalContent ?d (pr_records p)] => destruct (sameProposalContent d (pr_records p)) eqn:Hsame end;
    cbn [negb]; [|discriminate].
  intro H. inversion H; subst. exists m, recs. split; [reflexivity|]. split; [reflexivity|].
  split; [|lia].
  apply sameProposalContent_records in Hsame; [exact Hsame|].
  exists es. cbn. apply orb_false_iff in C2. destruct C2 as [C2 _]. apply negb_false_iff in C2.
  apply manifest_eqb_eq in C2. subst sealed. exact Hs.
Qed.

(* evicted / restarted retry on the slow path: the local replica is not written; the only
   possible success is the receipt of the range stored under the command, and then the proposal's
   records are exactly the stored ones (a conflicting reuse is never acknowledged) *)
Lemma Commit_known_command_slow_path cfg n st local p a m0 n' st' r :
  commit_admitted cfg st a p ->
  get_retained (qc_retained st) (pr_cmd p) = None -> qc_pending st = None ->
  by_cmd (rp_bycmd (net_rep n local)) (pr_cmd p) = Some m0 ->
  (forall d, sealBusinessProposal a (qc_frontier st) (qc_hw st) (pr_cmd p) (pr_records p) (pr_sa p) = Some d ->
             m0 <> dp_manifest d /\ slow_path (nt_kind n) (net_rep n local) (dp_mutation d)) ->
  Commit cfg n st local p = (n', st', r) ->
  net_rep n' local = net_rep n local /\
  (forall rc, r = COk rc ->
     exists recs, lookupCommand (nt_kind n) (net_rep n local) (pr_cmd p) (cf_maxrecs cfg) = inr (Some (m0, recs)) /\
                  rc = Receipt (a_id a) (pr_cmd p) (m_base m0 + 1) (m_last m0) (m_last m0) /\ pr_records p = recs).
Proof.
  intros Hadm Hget Hp Hbc Hslow H. apply (Commit_shape _ _ _ _ _ _ _ _ _ Hadm) in H.
  assert (Hround : forall d n1 res,
            sealBusinessProposal a (qc_frontier st) (qc_hw st) (pr_cmd p) (pr_records p) (pr_sa p) = Some d ->
            runDurableRound n local (a_voters a) (a_q a) (cf_rot cfg) d = (n1, res) ->
            net_rep n1 local = net_rep n local /\ rr_ok res = false /\ nt_kind n1 = nt_kind n).
  { intros d n1 res Hseal Hr. destruct (Hslow _ Hseal) as [Hne Hsl].
    destruct (sealBusinessProposal_fields _ _ _ _ _ _ _ Hseal) as (_ & _ & F3 & _).
    destruct (runDurableRound_local _ _ _ _ _ _ _ _ Hr) as (n0 & o1 & Hsub & Hrep & Hok & Hdur).
    assert (Hloc : net_rep n0 local = net_rep n local /\ outcome_durable o1 = false).
    { destruct (submitLocal_effect _ _ _ _ _ Hsub) as [X | (rp & o & nf & Hsync & Hrp & Ho)]; [exact X|].
      assert (Hbc' : by_cmd (rp_bycmd (net_rep n local)) (m_cmd (mu_manifest (dp_mutation d))) = Some m0)
        by (cbn; rewrite F3; exact Hbc).
      destruct (sync_known_command_rejected _ _ _ _ _ _ _ Hbc' Hne Hsl Hsync) as [Hnd ->].
      split; [exact Hrp|]. destruct (outcome_durable o1) eqn:E; [|reflexivity].
      rewrite (Ho eq_refl) in E. congruence. }
    destruct Hloc as [Hl1 Hl2]. split; [rewrite Hrep; exact Hl1|]. split.
    - destruct (rr_ok res) eqn:E; [|reflexivity]. destruct (Hok eq_refl) as (X & _). rewrite (Hdur X) in Hl2. discriminate.
    - (* the store kind never changes *)
      clear - Hr. unfold runDurableRound in Hr. cbv zeta in Hr.
      assert (K1 : forall n x y z, submitLocal n x y = z -> nt_kind (fst z) = nt_kind n).
      { intros n2 x y z <-. unfold submitLocal. destruct (memN x _); [reflexivity|].
        destruct (sync _ _ _) as [[rp o] nf]. destruct (memN x _); reflexivity. }
      assert (K2 : forall n x v y z, submitReplica n x v y = z -> nt_kind (fst z) = nt_kind n).
      { intros n2 x v y z <-. unfold submitReplica. destruct (unreachable n2 x v); [reflexivity|].
        destruct (_ || _); [reflexivity|]. destruct (sync _ _ _) as [[rp o] nf].
        destruct (memN v _); [reflexivity|]. destruct o; try reflexivity. destruct (0 <? nf); reflexivity. }
      assert (K3 : forall vs n x y q z, submit_all n x y vs q = z -> nt_kind (fst z) = nt_kind n).
      { induction vs as [|v vs IH]; intros n2 x y q z <-; cbn; [reflexivity|].
        destruct (submitReplica n2 x v y) as [n3 o] eqn:E. rewrite (IH _ _ _ _ _ eq_refl).
        exact (K2 _ _ _ _ _ E). }
      assert (K4 : forall fuel n x wq y q nx ld vo ou cf lf z,
                 round_loop fuel n x wq y q nx ld vo ou cf lf = z -> nt_kind (fst z) = nt_kind n).
      { induction fuel as [|fuel IH]; intros n2 x wq y q nx ld vo ou cf lf z <-; cbn; [reflexivity|].
        destruct q as [|[il o] q']; [reflexivity|].
        destruct (_ && _).
        - destruct (submit_all n2 x y nx []) as [n3 q3] eqn:E. cbn. exact (K3 _ _ _ _ _ _ E).
        - destruct (il && negb (outcome_durable o)).
          + destruct (submit_all n2 x y nx q') as [n3 q3] eqn:E. rewrite (IH _ _ _ _ _ _ _ _ _ _ _ _ eq_refl).
            exact (K3 _ _ _ _ _ _ E).
          + destruct (_ && _ && _).
            * destruct nx as [|v nx']; [apply (IH _ _ _ _ _ _ _ _ _ _ _ _ eq_refl)|].
              destruct (submitReplica n2 x v y) as [n3 o3] eqn:E. rewrite (IH _ _ _ _ _ _ _ _ _ _ _ _ eq_refl).
              exact (K2 _ _ _ _ _ E).
            * apply (IH _ _ _ _ _ _ _ _ _ _ _ _ eq_refl). }
      destruct (submitLocal n local d) as [na oa] eqn:Ea.
      destruct (submit_all na local d _ _) as [nb qb] eqn:Eb.
      pose proof (K4 _ _ _ _ _ _ _ _ _ _ _ _ _ Hr) as A. pose proof (K3 _ _ _ _ _ _ Eb) as B.
      pose proof (K1 _ _ _ _ Ea) as C. cbn in A, B, C. congruence. }
  destruct H; try congruence.
  - (* seal failed *) split; [reflexivity|]. intros rc Hrc. discriminate.
  - (* round failed *)
    destruct (Hround _ _ _ H1 H2) as (X & _). split; [exact X|]. intros rc Hrc. discriminate.
  - (* reconcile *)
    destruct (Hround _ _ _ H1 H2) as (X & _ & Xk). split; [exact X|]. intros rc Hrc. subst out.
    destruct (reconcile_ok _ _ _ _ _ _ _ _ H5) as (m & recs & Hl & Hrc & Hrecs & _).
    rewrite X, Xk in Hl.
    assert (Hm : m = m0).
    { unfold lookupCommand in Hl. rewrite Hbc in Hl.
      destruct (cf_maxrecs cfg <? m_last m0 - m_base m0); [discriminate|].
      destruct (rows_range _ _ _); [|discriminate].
      destruct (match nt_kind n with SMem => true | SPebble => _ end); [|discriminate].
      inversion Hl. reflexivity. }
    subst m. exists recs. auto.
  - (* finish: impossible, the round cannot succeed *)
    destruct (Hround _ _ _ H1 H2) as (_ & X & _). congruence.
Qed.

(* memory store: always the slow path *)
Lemma slow_path_memory rp mu : slow_path SMem rp mu.
Proof. left. reflexivity. Qed.

(* ---- the F4 witnesses (DESIGN §0 F4, corpus/C03/f4_*.json) --------------------------------------------- *)

Definition f4_cfg (k : store_kind) : qconfig := QCfg k 3 2 1 3 65536 0.
Definition f4_r1 : record := Rec (TUser 1) 0 0 11 1 false 1.
Definition f4_r2 : record := Rec (TUser 2) 0 0 22 1 false 1.
Definition f4_r3 : record := Rec (TUser 3) 1 3 33 1 false 1.
(* commit 1, commit 2 (evicts 1 from the cache of capacity 1), then command 1 again *)
Definition f4_ops (again : record) : list qop :=
  [ OInstall 1 (1, 1, 1) false 2 no_faults;
    OCommit 1 (1, 1, 1) (TUser 1) [f4_r1] true no_faults;
    OCommit 1 (1, 1, 1) (TUser 2) [f4_r2] true no_faults;
    OCommit 1 (1, 1, 1) (TUser 1) [again] true no_faults ].

Lemma f4_identical_retry_stored_again :
  fst (run_model (f4_cfg SPebble) (cluster_init (f4_cfg SPebble)) (f4_ops f4_r1)) =
    [ RInstalled (1, 1, 1) 0 0; RReceipt (1, 1, 1) (TUser 1) 1 1 1; RReceipt (1, 1, 1) (TUser 2) 2 2 2;
      RReceipt (1, 1, 1) (TUser 1) 3 3 3 ] /\
  C03_monitor (model_case (f4_cfg SPebble) (f4_ops f4_r1)) = 2.
Proof. split; vm_compute; reflexivity. Qed.

Lemma f4_conflicting_reuse_accepted :
  fst (run_model (f4_cfg SPebble) (cluster_init (f4_cfg SPebble)) (f4_ops f4_r3)) =
    [ RInstalled (1, 1, 1) 0 0; RReceipt (1, 1, 1) (TUser 1) 1 1 1; RReceipt (1, 1, 1) (TUser 2) 2 2 2;
      RReceipt (1, 1, 1) (TUser 1) 3 3 3 ] /\
  C03_monitor (model_case (f4_cfg SPebble) (f4_ops f4_r3)) = 2.
Proof. split; vm_compute; reflexivity. Qed.

Lemma f4_memory_is_stable :
  fst (run_model (f4_cfg SMem) (cluster_init (f4_cfg SMem)) (f4_ops f4_r1)) =
    [ RInstalled (1, 1, 1) 0 0; RReceipt (1, 1, 1) (TUser 1) 1 1 1; RReceipt (1, 1, 1) (TUser 2) 2 2 2;
      RReceipt (1, 1, 1) (TUser 1) 1 1 1 ] /\
  fst (run_model (f4_cfg SMem) (cluster_init (f4_cfg SMem)) (f4_ops f4_r3)) =
    [ RInstalled (1, 1, 1) 0 0; RReceipt (1, 1, 1) (TUser 1) 1 1 1; RReceipt (1, 1, 1) (TUser 2) 2 2 2;
      RErr EConflict ] /\
  C03_monitor (model_case (f4_cfg SMem) (f4_ops f4_r1)) = 0 /\
  C03_monitor (model_case (f4_cfg SMem) (f4_ops f4_r3)) = 0.
Proof. repeat split; vm_compute; reflexivity. Qed.

(* ---- bounded exhaustive check of the monitor on the model's own traces ------------------------------------ *)

(* alphabet: two commands, each with two contents (with and without an idempotency key pair),
   a commit whose every response is lost, an owner restart and a reinstall *)
Definition c03_alphabet (sa : bool) : list qop :=
  [ OCommit 1 (1, 1, 1) (TUser 1) [f4_r1] sa no_faults;
    OCommit 1 (1, 1, 1) (TUser 1) [f4_r3] sa no_faults;
    OCommit 1 (1, 1, 1) (TUser 2) [f4_r2] sa no_faults;
    OCommit 1 (1, 1, 1) (TUser 2) [f4_r2; f4_r3] sa no_faults;
    OCommit 1 (1, 1, 1) (TUser 3) [Rec (TUser 9) 2 2 99 1 false 1] sa (Flt [1; 2; 3] [] None []);
    ORestart 1;
    OInstall 1 (1, 1, 1) false 2 no_faults ].

Fixpoint schedules (alphabet : list qop) (len : nat) : list (list qop) :=
  match len with
  | O => [[]]
  | S k => [] :: flat_map (fun s => map (fun op => op :: s) alphabet) (schedules alphabet k)
  end.

Definition all_codes_in (allowed : list N) (cfg : qconfig) (alphabet : list qop) (len : nat) : bool :=
  forallb (fun s => existsb (N.eqb (C03_monitor (model_case cfg (OInstall 1 (1, 1, 1) false 2 no_faults :: s)))) allowed)
          (schedules alphabet len).

Lemma c03_bounded_memory : all_codes_in [0] (f4_cfg SMem) (c03_alphabet true) 4 = true.
Proof. vm_compute. reflexivity. Qed.

Lemma c03_bounded_pebble_client_ids : all_codes_in [0] (f4_cfg SPebble) (c03_alphabet false) 4 = true.
Proof. vm_compute. reflexivity. Qed.

Lemma c03_bounded_pebble_server_ids : all_codes_in [0; 2] (f4_cfg SPebble) (c03_alphabet true) 4 = true.
Proof. vm_compute. reflexivity. Qed.
