(* Proof/Membership_monitor.v — every step of the model satisfies the clauses of
   C16_monitor; the theorems over arbitrary histories. *)
From WK Require Import Base.Base.
From Coq Require Import Sorting.Sorted.
From WK Require Import Gen.Consts_C16 Model.Membership Model.Membership_C16
  Proof.Membership Proof.Membership_C16 Proof.Membership_order Proof.Membership_scan.
Open Scope N_scope.

(* ---- coverage of the key alphabet ---------------------------------------------------- *)

(* every membership key a valid mutation addresses is in the alphabet *)
Definition mut_covered (mkeys : list mkey) (u : mut) : Prop :=
  forall k, mut_mkey u = Some k -> mut_valid u = true -> In k mkeys.

Definition op_covered (mkeys : list mkey) (op : c16_op) : Prop :=
  forall u, In u (op_muts op) -> mut_covered mkeys u.

Lemma mut_apply_covered mkeys st u :
  rows_covered mkeys st -> mut_valid u = true -> mut_covered mkeys u ->
  rows_covered mkeys (snd (mut_apply st u)).
Proof.
  intros Hcov V Hu. destruct (mut_apply_shape st u) as [[Er Ei] | [(k & next & Hk & Est) | (k & Hk & Est)]].
  - intros k row H. unfold get_row in H. rewrite Er in H. exact (Hcov k row H).
  - intros k' row H. rewrite Est, get_row_stage in H.
    destruct (mkey_eqb k k') eqn:E; [|exact (Hcov k' row H)].
    apply mkey_eqb_eq in E. subst k'. exact (Hu k Hk V).
  - intros k' row H. rewrite Est, get_row_delete in H.
    destruct (mkey_eqb k k'); [discriminate|exact (Hcov k' row H)].
Qed.

Lemma direct_apply_covered mkeys st u :
  rows_covered mkeys st -> mut_covered mkeys u -> rows_covered mkeys (snd (direct_apply st u)).
Proof.
  intros Hcov Hu. unfold direct_apply. destruct (mut_valid u) eqn:V; [|exact Hcov].
  apply mut_apply_covered; assumption.
Qed.

Lemma batch_build_covered mkeys : forall ops w e w',
  rows_covered mkeys w -> (forall u, In u ops -> mut_covered mkeys u) ->
  batch_build w ops = (e, w') -> rows_covered mkeys w'.
Proof.
  induction ops as [|u r IH]; intros w e w' Hcov Hops; cbn [batch_build].
  - intro H. inversion H; subst. exact Hcov.
  - destruct (negb (mut_valid u)) eqn:V.
    + apply IH; [exact Hcov|]. intros x Hx. apply Hops. right. exact Hx.
    + apply negb_false_iff in V. destruct (mut_apply w u) as [e1 w1] eqn:Hu.
      destruct (db_err_eqb e1 ENone).
      * apply IH.
        -- pose proof (mut_apply_covered mkeys w u Hcov V (Hops u (or_introl eq_refl))) as H1.
           rewrite Hu in H1. exact H1.
        -- intros x Hx. apply Hops. right. exact Hx.
      * intro H. inversion H; subst. exact Hcov.
Qed.

Lemma scan_pass_inv_reach slot uid limits : forall fuel st between i cursor ps es st',
  st_inv st ->
  scan_pass fuel st slot uid limits between i cursor = (ps, es, st') ->
  st_inv st' /\ reach st between st'.
Proof.
  induction fuel as [|fuel IH]; intros st between i cursor ps es st' Hinv; cbn [scan_pass].
  - intro H. inversion H; subst. split; [exact Hinv|apply reach_all_skipped].
  - destruct (listUserChannelMembershipPage st slot uid cursor (nth_limit limits i)) as [[[rows next] done] err].
    destruct err.
    2:{ intro H. inversion H; subst. split; [exact Hinv|apply reach_all_skipped]. }
    destruct done.
    { intro H. inversion H; subst. split; [exact Hinv|apply reach_all_skipped]. }
    destruct between as [|u between'].
    + destruct (scan_pass fuel st slot uid limits [] (S i) next) as [[ps' es'] st1] eqn:Hrec.
      intro H. inversion H; subst. eapply IH; eauto.
    + destruct (direct_apply st u) as [eu st1] eqn:Hdir.
      destruct (scan_pass fuel st1 slot uid limits between' (S i) next) as [[ps' es'] st2] eqn:Hrec.
      intro H. inversion H; subst.
      assert (Hinv1 : st_inv st1).
      { pose proof (direct_apply_inv st u Hinv) as H1. rewrite Hdir in H1. exact H1. }
      destruct (IH st1 between' (S i) next ps' es' st' Hinv1 Hrec) as (I & R).
      split; [exact I|].
      pose proof (direct_apply_reach st u) as R1. rewrite Hdir in R1. cbn [snd] in R1.
      inversion R1; subst.
      * match goal with H : reach _ [] _ |- _ => inversion H; subst end. apply reach_skip. exact R.
      * match goal with H : reach _ [] _ |- _ => inversion H; subst end. apply reach_apply. exact R.
Qed.

Lemma scan_pass_covered slot uid limits mkeys : forall fuel st between i cursor ps es st',
  rows_covered mkeys st -> (forall u, In u between -> mut_covered mkeys u) ->
  scan_pass fuel st slot uid limits between i cursor = (ps, es, st') ->
  rows_covered mkeys st'.
Proof.
  induction fuel as [|fuel IH]; intros st between i cursor ps es st' Hcov Hb; cbn [scan_pass].
  - intro H. inversion H; subst. exact Hcov.
  - destruct (listUserChannelMembershipPage st slot uid cursor (nth_limit limits i)) as [[[rows next] done] err].
    destruct err.
    2:{ intro H. inversion H; subst. exact Hcov. }
    destruct done.
    { intro H. inversion H; subst. exact Hcov. }
    destruct between as [|u between'].
    + destruct (scan_pass fuel st slot uid limits [] (S i) next) as [[ps' es'] st1] eqn:Hrec.
      intro H. inversion H; subst. eapply IH; eauto.
    + destruct (direct_apply st u) as [eu st1] eqn:Hdir.
      destruct (scan_pass fuel st1 slot uid limits between' (S i) next) as [[ps' es'] st2] eqn:Hrec.
      intro H. inversion H; subst.
      assert (Hcov1 : rows_covered mkeys st1).
      { pose proof (direct_apply_covered mkeys st u Hcov (Hb u (or_introl eq_refl))) as H1.
        rewrite Hdir in H1. exact H1. }
      exact (IH st1 between' (S i) next ps' es' st' Hcov1 (fun x Hx => Hb x (or_intror Hx)) Hrec).
Qed.

Lemma scan_pass_facts slot uid limits mkeys fuel st between i cursor ps es st' :
  st_inv st -> rows_covered mkeys st -> (forall u, In u between -> mut_covered mkeys u) ->
  scan_pass fuel st slot uid limits between i cursor = (ps, es, st') ->
  st_inv st' /\ rows_covered mkeys st' /\ reach st between st'.
Proof.
  intros Hinv Hcov Hb Hpass.
  destruct (scan_pass_inv_reach slot uid limits fuel st between i cursor ps es st' Hinv Hpass) as [I R].
  split; [exact I|]. split; [|exact R].
  eapply scan_pass_covered; eauto.
Qed.

(* ---- reflecting the relations ------------------------------------------------------------ *)

Lemma membership_advances_iff a b : membership_advances a b = true <-> m_advances a b.
Proof.
  unfold membership_advances. rewrite !andb_true_iff, !N.leb_le. split.
  - intros [[H1 H2] H3]. constructor; assumption.
  - intros [H1 H2 H3]. repeat split; assumption.
Qed.

Lemma list_eqb_refl {A} (eqb : A -> A -> bool) : (forall x, eqb x x = true) -> forall l, list_eqb eqb l l = true.
Proof. intros H. induction l as [|x l IH]; [reflexivity|]. cbn [list_eqb]. rewrite H, IH. reflexivity. Qed.

Lemma snapshot_eqb_refl s : snapshot_eqb s s = true.
Proof.
  unfold snapshot_eqb. rewrite !list_eqb_refl; [reflexivity| |].
  - intros [c|]; cbn [option_eqb]; [apply cmd_membership_eqb_refl|reflexivity].
  - intros [m|]; cbn [option_eqb]; [apply membership_eqb_refl|reflexivity].
Qed.

Lemma snapshot_get_map {V} (f : mkey -> option V) k a : forall keys,
  snapshot_get keys (map f keys) k = Some a ->
  f k = Some a /\ forall g : mkey -> option V, snapshot_get keys (map g keys) k = g k.
Proof.
  induction keys as [|k' keys IH]; cbn [map snapshot_get]; [discriminate|].
  destruct (mkey_eqb k' k) eqn:E.
  - apply mkey_eqb_eq in E. subst k'. intro H. split; [exact H|]. intro g. reflexivity.
  - exact IH.
Qed.

(* ---- what one step guarantees --------------------------------------------------------------- *)

Record step_facts (mkeys : list mkey) (st : mstate) (op : c16_op) (o : c16_obs) (st' : mstate) : Prop := {
  sf_inv : st_inv st';
  sf_cov : rows_covered mkeys st';
  sf_reach : reach st (op_muts op) st';
  sf_failed : obs_failed o = true -> st' = st;
  sf_scan : scan_ok mkeys (map (get_row st) mkeys) op o = true }.

Lemma c16_step_facts mkeys st op o st' :
  NoDup mkeys -> st_inv st -> rows_covered mkeys st -> op_covered mkeys op ->
  c16_step st op = (o, st') -> step_facts mkeys st op o st'.
Proof.
  intros Hnd Hinv Hcov Hop. destruct op as [u|ops|slot uid limits between]; cbn [c16_step].
  - (* direct call *)
    destruct (direct_apply st u) as [e st1] eqn:Hdir. intro H. inversion H; subst.
    constructor.
    + pose proof (direct_apply_inv st u Hinv) as H1. rewrite Hdir in H1. exact H1.
    + pose proof (direct_apply_covered mkeys st u Hcov (Hop u (or_introl eq_refl))) as H1.
      rewrite Hdir in H1. exact H1.
    + pose proof (direct_apply_reach st u) as H1. rewrite Hdir in H1. exact H1.
    + cbn [obs_failed]. intro C. unfold direct_apply in Hdir. destruct (mut_valid u).
      * eapply mut_apply_error; [exact Hdir|]. intro E. subst e. discriminate.
      * inversion Hdir. reflexivity.
    + reflexivity.
  - (* batch *)
    destruct (batch_build st ops) as [e w] eqn:Hb.
    destruct (db_err_eqb e ENone) eqn:He; intro H; inversion H; subst.
    + destruct e; try discriminate. constructor.
      * eapply batch_build_inv; eauto.
      * eapply batch_build_covered; eauto.
      * apply batch_build_reach. exact Hb.
      * cbn. discriminate.
      * reflexivity.
    + constructor; [exact Hinv|exact Hcov|apply reach_all_skipped|intros _; reflexivity|reflexivity].
  - (* directory pass *)
    destruct (scan_pass scan_fuel st slot uid limits between 0 page_cursor_zero) as [[ps es] st1] eqn:Hpass.
    intro H. inversion H; subst.
    destruct (scan_pass_facts slot uid limits mkeys scan_fuel st between 0 page_cursor_zero ps es st'
                Hinv Hcov Hop Hpass) as (I & C & R).
    constructor; [exact I|exact C|exact R|cbn; discriminate|].
    cbn [scan_ok].
    {
      destruct (validateKeyString uid && forallb (fun l => (0 <? l)%Z) limits
                && forallb (fun u => negb (bytes_eqb (mut_uid u) uid)) between
                && Nat.ltb (length (present_rows slot uid mkeys (map (get_row st) mkeys))) scan_fuel
                && forallb (fun m => (0 <=? m_activated_at m)%Z)
                     (present_rows slot uid mkeys (map (get_row st) mkeys))) eqn:G; [|reflexivity].
      repeat (apply andb_true_iff in G; let G' := fresh "G" in destruct G as [G G']).
      assert (Hlimits : Forall (fun l => (0 < l)%Z) limits).
      { apply Forall_forall. intros l Hl. rewrite forallb_forall in G3. apply Z.ltb_lt. apply G3. exact Hl. }
      assert (Hbetween : Forall (fun u => bytes_eqb (mut_uid u) uid = false) between).
      { apply Forall_forall. intros u Hu. rewrite forallb_forall in G2. apply negb_true_iff. apply G2. exact Hu. }
      apply Nat.ltb_lt in G1. rewrite (present_length st slot uid mkeys Hinv Hcov Hnd) in G1.
      destruct (scan_pass_spec slot uid limits G Hlimits scan_fuel st between 0 page_cursor_zero []
                  (uid_entries st slot uid) ps es st' Hinv Hbetween eq_refl
                  (or_introl (conj eq_refl eq_refl))
                  (present_activation_nonneg st slot uid mkeys Hinv Hcov Hnd G0) G1 Hpass) as (Hwf & Hrows & _).
      rewrite Hwf, Hrows. cbn [andb].
      rewrite (expected_listing_model st slot uid mkeys Hinv Hcov Hnd).
      apply list_eqb_refl. apply membership_eqb_refl. }
Qed.

(* ---- the monitor's clauses from the facts ------------------------------------------------------ *)

Lemma rows_step_ok_model us st st' : reach st us st' ->
  forall keys, rows_step_ok us keys (map (get_row st) keys) (map (get_row st') keys) = true.
Proof.
  intros Hreach. induction keys as [|k keys IH]; [reflexivity|].
  cbn [map rows_step_ok]. rewrite IH, andb_true_r.
  unfold row_step_ok. destruct (get_row st k) as [a|] eqn:Ha; [|reflexivity].
  destruct (membership_boundary k a us) eqn:Hb; [reflexivity|].
  destruct (membership_boundary_sound k a us st st' Hreach Ha Hb) as (b & Hgb & Hadv).
  rewrite Hgb. apply membership_advances_iff. exact Hadv.
Qed.

Lemma cmds_step_ok_model us st st' : reach st us st' ->
  forall keys, cmds_step_ok us keys (map (get_cmd st) keys) (map (get_cmd st') keys) = true.
Proof.
  intros Hreach. induction keys as [|k keys IH]; [reflexivity|].
  cbn [map cmds_step_ok]. rewrite IH, andb_true_r.
  unfold cmd_step_ok. destruct (get_cmd st k) as [a|] eqn:Ha; [|reflexivity].
  destruct (cmd_boundary k a us) eqn:Hb; [reflexivity|].
  destruct (cmd_boundary_sound k a us st st' Hreach Ha Hb) as (b & Hgb & Hack).
  rewrite Hgb. unfold cmd_advances. apply N.leb_le. exact Hack.
Qed.

(* stale source versions are refused: any state *)
Lemma upsert_stale_row st slot m a :
  get_row st (membership_key slot m) = Some a -> m_source_version m < m_source_version a ->
  get_row (snd (direct_apply st (MUpsert slot m))) (membership_key slot m) = Some a.
Proof.
  intros Hg Hlt. unfold direct_apply. destruct (mut_valid (MUpsert slot m)); [|exact Hg].
  cbn [mut_apply]. rewrite upsertWith_row, mkey_eqb_refl, Hg, resolve_upsert_stale by exact Hlt. reflexivity.
Qed.

Lemma ensure_stale_row st slot m a :
  get_row st (membership_key slot m) = Some a -> m_source_version m <= m_source_version a ->
  get_row (snd (direct_apply st (MEnsure slot m))) (membership_key slot m) = Some a.
Proof.
  intros Hg Hle. unfold direct_apply. destruct (mut_valid (MEnsure slot m)); [|exact Hg].
  cbn [mut_apply]. rewrite upsertWith_row, mkey_eqb_refl, Hg, resolve_ensure_stale by exact Hle. reflexivity.
Qed.

Lemma stale_source_ok_model mkeys st op o st' :
  c16_step st op = (o, st') ->
  stale_source_ok mkeys (map (get_row st) mkeys) (map (get_row st') mkeys) op = true.
Proof.
  intro Hstep. destruct op as [u| |]; try reflexivity. destruct u; try reflexivity; cbn [stale_source_ok].
  - destruct (snapshot_get mkeys (map (get_row st) mkeys) (membership_key slot m)) as [a|] eqn:Hs; [|reflexivity].
    destruct (snapshot_get_map (get_row st) _ a mkeys Hs) as [Hg Hall].
    destruct (m_source_version m <? m_source_version a) eqn:Hlt; [|reflexivity].
    apply N.ltb_lt in Hlt. rewrite (Hall (get_row st')).
    cbn [c16_step] in Hstep. destruct (direct_apply st (MUpsert slot m)) as [e st1] eqn:Hd.
    inversion Hstep; subst. pose proof (upsert_stale_row st slot m a Hg Hlt) as H1. rewrite Hd in H1. cbn [snd] in H1.
    rewrite H1. cbn [option_eqb]. apply membership_eqb_refl.
  - destruct (snapshot_get mkeys (map (get_row st) mkeys) (membership_key slot m)) as [a|] eqn:Hs; [|reflexivity].
    destruct (snapshot_get_map (get_row st) _ a mkeys Hs) as [Hg Hall].
    destruct (m_source_version m <=? m_source_version a) eqn:Hle; [|reflexivity].
    apply N.leb_le in Hle. rewrite (Hall (get_row st')).
    cbn [c16_step] in Hstep. destruct (direct_apply st (MEnsure slot m)) as [e st1] eqn:Hd.
    inversion Hstep; subst. pose proof (ensure_stale_row st slot m a Hg Hle) as H1. rewrite Hd in H1. cbn [snd] in H1.
    rewrite H1. cbn [option_eqb]. apply membership_eqb_refl.
Qed.

Lemma step_ok_model mkeys ckeys st op o st' :
  c16_step st op = (o, st') -> step_facts mkeys st op o st' ->
  step_ok mkeys ckeys (snapshot mkeys ckeys st) (op, o, snapshot mkeys ckeys st') = true.
Proof.
  intros Hstep [Hinv Hcov Hreach Hfail Hscan]. unfold step_ok, snapshot. cbn [fst snd].
  rewrite (rows_step_ok_model _ _ _ Hreach), (cmds_step_ok_model _ _ _ Hreach),
    (stale_source_ok_model mkeys st op o st' Hstep), Hscan. cbn [andb]. rewrite andb_true_r.
  destruct (obs_failed o) eqn:Hf; [|reflexivity]. cbn [negb orb].
  rewrite (Hfail eq_refl). apply snapshot_eqb_refl.
Qed.

(* ---- histories ---------------------------------------------------------------------------------- *)

Definition ops_covered (mkeys : list mkey) (ops : list c16_op) : Prop :=
  forall op, In op ops -> op_covered mkeys op.

Lemma history_ok_model mkeys ckeys : NoDup mkeys -> forall ops st,
  st_inv st -> rows_covered mkeys st -> ops_covered mkeys ops ->
  history_ok mkeys ckeys (snapshot mkeys ckeys st) (c16_run mkeys ckeys st ops) = true.
Proof.
  intros Hnd. induction ops as [|op r IH]; intros st Hinv Hcov Hops; [reflexivity|].
  cbn [c16_run]. destruct (c16_step st op) as [o st'] eqn:Hstep.
  pose proof (c16_step_facts mkeys st op o st' Hnd Hinv Hcov (Hops op (or_introl eq_refl)) Hstep) as Hf.
  cbn [history_ok snd]. rewrite (step_ok_model mkeys ckeys st op o st' Hstep Hf). cbn [andb].
  apply IH; [exact (sf_inv _ _ _ _ _ Hf)|exact (sf_cov _ _ _ _ _ Hf)|].
  intros op' Hin. apply Hops. right. exact Hin.
Qed.

Lemma rows_covered_empty mkeys : rows_covered mkeys mstate_empty.
Proof. intros k row H. discriminate. Qed.

Lemma history_model_satisfies_monitor mkeys ckeys ops :
  NoDup mkeys -> ops_covered mkeys ops ->
  C16_monitor (C16History mkeys ckeys (c16_run mkeys ckeys mstate_empty ops)) = 0.
Proof.
  intros Hnd Hops. cbn [C16_monitor].
  assert (E : (map (fun _ : mkey => @None membership) mkeys, map (fun _ : mkey => @None cmd_membership) ckeys)
              = snapshot mkeys ckeys mstate_empty).
  { unfold snapshot. f_equal; apply map_ext; intro k; reflexivity. }
  rewrite E, (history_ok_model mkeys ckeys Hnd ops mstate_empty st_inv_empty (rows_covered_empty mkeys) Hops).
  reflexivity.
Qed.

Lemma membership_boundary_single k a u :
  membership_boundary k a [u]
  = head_boundary k (m_source_version a) (m_tombstone a) (negb (m_source_version a =? 0)) u.
Proof. unfold membership_boundary. rewrite boundary_fold_cons. cbn [boundary_fold]. apply orb_false_r. Qed.

(* ---- the pure resolvers ------------------------------------------------------------------------------ *)

Lemma resolve_model_satisfies_monitor ex exists_ inc :
  C16_monitor (C16Resolve ex exists_ inc (resolveUserChannelMembership ex exists_ inc)
                 (resolveEnsuredUserChannelMembership ex exists_ inc)) = 0.
Proof.
  cbn [C16_monitor].
  destruct (bytes_eqb (m_uid ex) (m_uid inc) && bytes_eqb (m_channel_id ex) (m_channel_id inc)
            && (m_channel_type ex =? m_channel_type inc)%Z) eqn:Hid; [|reflexivity].
  apply andb_true_iff in Hid. destruct Hid as [Hid H3]. apply andb_true_iff in Hid. destruct Hid as [H1 H2].
  apply bytes_eqb_eq in H1. apply bytes_eqb_eq in H2. apply Z.eqb_eq in H3.
  unfold resolve_ok. destruct exists_; cbn [negb]; [|reflexivity].
  assert (Hk : mkey_eqb (membership_key 0 inc) (membership_key 0 ex) = true).
  { apply mkey_eqb_eq. unfold membership_key. rewrite H1, H2, H3. reflexivity. }
  rewrite !membership_boundary_single. cbn [head_boundary]. rewrite Hk. cbn [andb].
  assert (U : negb (m_tombstone inc) && (m_source_version ex <? m_source_version inc) && m_tombstone ex
              || membership_advances ex (resolveUserChannelMembership ex true inc) = true).
  { pose proof (resolve_upsert_spec ex inc) as S. cbv zeta in S.
    destruct S as [(T1 & T2 & Hlt & _) | (A & _)].
    - rewrite T1, T2. apply N.ltb_lt in Hlt. rewrite Hlt. reflexivity.
    - apply membership_advances_iff in A. rewrite A. apply orb_true_r. }
  assert (E : (m_source_version ex <? m_source_version inc) && negb (m_source_version ex =? 0)
              || membership_advances ex (resolveEnsuredUserChannelMembership ex true inc) = true).
  { pose proof (resolve_ensure_spec ex inc) as S. cbv zeta in S.
    destruct S as [(Hlt & Hnz) | (A & _)].
    - apply N.ltb_lt in Hlt. apply N.eqb_neq in Hnz. rewrite Hlt, Hnz. reflexivity.
    - apply membership_advances_iff in A. rewrite A. apply orb_true_r. }
  rewrite U, E. cbn [andb].
  assert (S1 : negb (m_source_version inc <? m_source_version ex)
               || membership_eqb (resolveUserChannelMembership ex true inc) ex = true).
  { destruct (m_source_version inc <? m_source_version ex) eqn:L; [|reflexivity].
    apply N.ltb_lt in L. rewrite (resolve_upsert_stale ex inc L). cbn [negb orb]. apply membership_eqb_refl. }
  assert (S2 : negb (m_source_version inc <=? m_source_version ex)
               || membership_eqb (resolveEnsuredUserChannelMembership ex true inc) ex = true).
  { destruct (m_source_version inc <=? m_source_version ex) eqn:L; [|reflexivity].
    apply N.leb_le in L. rewrite (resolve_ensure_stale ex inc L). cbn [negb orb]. apply membership_eqb_refl. }
  rewrite S1, S2. reflexivity.
Qed.

Lemma resolve_cmd_model_satisfies_monitor ex exists_ inc :
  C16_monitor (C16ResolveCmd ex exists_ inc (resolveUserCMDChannelMembership ex exists_ inc)) = 0.
Proof.
  cbn [C16_monitor]. unfold resolve_cmd_ok. destruct exists_; cbn [negb]; [|reflexivity].
  pose proof (resolve_cmd_spec ex inc) as S. cbv zeta in S.
  destruct S as [(T1 & T2) | (A & _)].
  - rewrite T1, T2. reflexivity.
  - unfold cmd_advances. apply N.leb_le in A. rewrite A, orb_true_r. reflexivity.
Qed.

(* ---- arbitrary histories --------------------------------------------------------------------------------- *)

Lemma reach_app : forall us1 st st1 us2 st2, reach st us1 st1 -> reach st1 us2 st2 -> reach st (us1 ++ us2) st2.
Proof.
  induction us1 as [|u r IH]; intros st st1 us2 st2 H1 H2.
  - inversion H1; subst. exact H2.
  - inversion H1; subst; cbn [app]; [apply reach_skip|apply reach_apply]; eapply IH; eauto.
Qed.

(* reachable states: invariant and the mutations that led from one to the other *)
Lemma exec_reach : forall ops st,
  st_inv st -> st_inv (c16_exec st ops) /\ reach st (flat_map op_muts ops) (c16_exec st ops).
Proof.
  induction ops as [|op r IH]; intros st Hinv; [split; [exact Hinv|constructor]|].
  cbn [c16_exec flat_map]. destruct (c16_step st op) as [o st'] eqn:Hstep. cbn [snd].
  (* the facts that do not need the alphabet: take the alphabet of all keys vacuously *)
  assert (F : st_inv st' /\ reach st (op_muts op) st').
  { destruct op as [u|ops|slot uid limits between]; cbn [c16_step] in Hstep.
    - destruct (direct_apply st u) as [e st1] eqn:Hd. inversion Hstep; subst. split.
      + pose proof (direct_apply_inv st u Hinv) as H1. rewrite Hd in H1. exact H1.
      + pose proof (direct_apply_reach st u) as H1. rewrite Hd in H1. exact H1.
    - destruct (batch_build st ops) as [e w] eqn:Hb.
      destruct (db_err_eqb e ENone) eqn:He; inversion Hstep; subst.
      + destruct e; try discriminate. split; [eapply batch_build_inv; eauto|apply batch_build_reach; exact Hb].
      + split; [exact Hinv|apply reach_all_skipped].
    - destruct (scan_pass scan_fuel st slot uid limits between 0 page_cursor_zero) as [[ps es] st1] eqn:Hp.
      inversion Hstep; subst.
      exact (scan_pass_inv_reach slot uid limits scan_fuel st between 0 page_cursor_zero ps es st' Hinv Hp). }
  destruct F as [Hinv' Hreach]. destruct (IH st' Hinv') as [I R].
  split; [exact I|]. eapply reach_app; eassumption.
Qed.

Lemma c16_exec_app : forall a b st, c16_exec st (a ++ b) = c16_exec (c16_exec st a) b.
Proof. induction a as [|op r IH]; intros b st; [reflexivity|]. cbn [app c16_exec]. apply IH. Qed.

Lemma reachable_inv ops : st_inv (c16_exec mstate_empty ops).
Proof. exact (proj1 (exec_reach ops mstate_empty st_inv_empty)). Qed.

(* cursors between two points of a history *)
Lemma history_cursor_monotone pre ops k a :
  get_row (c16_exec mstate_empty pre) k = Some a ->
  membership_boundary k a (flat_map op_muts ops) = false ->
  exists b, get_row (c16_exec mstate_empty (pre ++ ops)) k = Some b /\ m_advances a b.
Proof.
  intros Ha Hb. rewrite c16_exec_app.
  destruct (exec_reach ops (c16_exec mstate_empty pre) (reachable_inv pre)) as [_ R].
  exact (membership_boundary_sound k a _ _ _ R Ha Hb).
Qed.

Lemma history_ack_monotone pre ops k a :
  get_cmd (c16_exec mstate_empty pre) k = Some a ->
  cmd_boundary k a (flat_map op_muts ops) = false ->
  exists b, get_cmd (c16_exec mstate_empty (pre ++ ops)) k = Some b /\ c_ack_seq a <= c_ack_seq b.
Proof.
  intros Ha Hb. rewrite c16_exec_app.
  destruct (exec_reach ops (c16_exec mstate_empty pre) (reachable_inv pre)) as [_ R].
  exact (cmd_boundary_sound k a _ _ _ R Ha Hb).
Qed.

(* a boundary needs a delete of the key, or an Upsert / Ensure of the key with a
   source version strictly newer than the one the row had *)
Lemma boundary_needs_newer_source k asv : forall us mt ms,
  boundary_fold k asv mt ms us = true ->
  exists u, In u us /\
    (u = MDelete k
     \/ exists slot m, (u = MUpsert slot m \/ u = MEnsure slot m)
                       /\ membership_key slot m = k /\ asv < m_source_version m).
Proof.
  induction us as [|u r IH]; intros mt ms H; [discriminate|].
  rewrite boundary_fold_cons in H. apply orb_true_iff in H. destruct H as [H|H].
  - exists u. split; [left; reflexivity|]. destruct u; cbn [head_boundary] in H; try discriminate.
    + apply andb_true_iff in H. destruct H as [Hk H]. apply andb_true_iff in H. destruct H as [H _].
      apply andb_true_iff in H. destruct H as [_ H]. apply mkey_eqb_eq in Hk. apply N.ltb_lt in H.
      right. exists slot, m. split; [left; reflexivity|]. split; assumption.
    + apply andb_true_iff in H. destruct H as [Hk H]. apply andb_true_iff in H. destruct H as [H _].
      apply mkey_eqb_eq in Hk. apply N.ltb_lt in H.
      right. exists slot, m. split; [right; reflexivity|]. split; assumption.
    + apply mkey_eqb_eq in H. subst. left. reflexivity.
  - destruct (IH _ _ H) as (u' & Hin & Hu'). exists u'. split; [right; exact Hin|exact Hu'].
Qed.

Lemma cmd_boundary_needs_rebind k : forall us mt,
  cmd_boundary_fold k mt us = true ->
  exists slot c, In (MCmdUpsert slot c) us /\ cmd_membership_key slot c = k /\ c_tombstone c = false.
Proof.
  induction us as [|u r IH]; intros mt H; [discriminate|].
  rewrite cmd_boundary_fold_cons in H. apply orb_true_iff in H. destruct H as [H|H].
  - destruct u; cbn [cmd_head_boundary] in H; try discriminate.
    apply andb_true_iff in H. destruct H as [H _]. apply andb_true_iff in H. destruct H as [Hk Ht].
    apply mkey_eqb_eq in Hk. apply negb_true_iff in Ht.
    exists slot, c. split; [left; reflexivity|]. split; assumption.
  - destruct (IH _ H) as (slot & c & Hin & Hc). exists slot, c. split; [right; exact Hin|exact Hc].
Qed.

(* personal-state calls on a tombstone change nothing *)
Definition personal_call (u : mut) (k : mkey) : Prop :=
  (exists r upd, u = MAdvanceRead k r upd) \/ (exists a upd, u = MSetActivated k a upd)
  \/ (exists a upd, u = MActivate k a upd) \/ (exists d upd, u = MHide k d upd).

Lemma tombstone_ignores_personal st u k a :
  get_row st k = Some a -> m_tombstone a = true -> personal_call u k ->
  snd (direct_apply st u) = st.
Proof.
  intros Hg Ht Hu. unfold direct_apply. destruct (mut_valid u); [|reflexivity].
  destruct Hu as [(r & upd & ->) | [(x & upd & ->) | [(x & upd & ->) | (d & upd & ->)]]];
    cbn [mut_apply]; unfold mutateUserChannelMembership; rewrite Hg, Ht; reflexivity.
Qed.

(* the index of a reachable state: exactly one entry per row, keyed by its current ActivatedAt *)
Lemma index_consistent ops e :
  let st := c16_exec mstate_empty ops in
  In e (st_index st) <-> exists k row, get_row st k = Some row /\ e = activation_entry (k_slot k) row.
Proof.
  cbv zeta. pose proof (reachable_inv ops) as Hinv. split.
  - intro He. destruct (inv_entry_row _ Hinv e He) as (row & Hrow & Hent).
    exists (entry_primary e), row. split; [exact Hrow|]. symmetry. exact Hent.
  - intros (k & row & Hrow & ->). exact (proj1 (inv_row_entry _ Hinv k row Hrow)).
Qed.

Lemma index_nodup ops : NoDup (st_index (c16_exec mstate_empty ops)).
Proof. exact (inv_nodup _ (reachable_inv ops)). Qed.

(* a complete pass *)
Lemma pagination_exact pre slot uid limits between fuel :
  let st := c16_exec mstate_empty pre in
  validateKeyString uid = true ->
  Forall (fun l => (0 < l)%Z) limits ->
  Forall (fun u => bytes_eqb (mut_uid u) uid = false) between ->
  (forall m, In m (directory_listing st slot uid) -> (0 <= m_activated_at m)%Z) ->
  (length (directory_listing st slot uid) < fuel)%nat ->
  let '(ps, _, _) := scan_pass fuel st slot uid limits between 0 page_cursor_zero in
  pages_well_formed ps = true /\ pages_rows ps = directory_listing st slot uid.
Proof.
  cbv zeta. intros Huid Hlimits Hbetween Hact Hlen.
  pose proof (reachable_inv pre) as Hinv.
  set (st := c16_exec mstate_empty pre) in *.
  destruct (scan_pass fuel st slot uid limits between 0 page_cursor_zero) as [[ps es] st'] eqn:Hpass.
  assert (Hact' : forall e, In e (uid_entries st slot uid) -> (0 <= ie_activated_at e)%Z).
  { intros e He. rewrite <- (directory_listing_entries st slot uid Hinv) in He.
    apply in_map_iff in He. destruct He as (m & <- & Hm). exact (Hact m Hm). }
  assert (Hlen' : (length (uid_entries st slot uid) < fuel)%nat).
  { rewrite <- (directory_listing_entries st slot uid Hinv), map_length. exact Hlen. }
  destruct (scan_pass_spec slot uid limits Huid Hlimits fuel st between 0 page_cursor_zero []
              (uid_entries st slot uid) ps es st' Hinv Hbetween eq_refl
              (or_introl (conj eq_refl eq_refl)) Hact' Hlen' Hpass) as (Hwf & Hrows & _).
  split; [exact Hwf|exact Hrows].
Qed.

(* the listing: the rows of (slot, uid), once each, in key order *)
Lemma listing_exact pre slot uid :
  let st := c16_exec mstate_empty pre in
  (forall m, In m (directory_listing st slot uid) <->
             exists k, k_slot k = slot /\ k_uid k = uid /\ get_row st k = Some m)
  /\ NoDup (directory_listing st slot uid)
  /\ StronglySorted (fun a b => entry_compare (activation_entry slot a) (activation_entry slot b) = Lt)
       (directory_listing st slot uid).
Proof.
  cbv zeta. pose proof (reachable_inv pre) as Hinv. set (st := c16_exec mstate_empty pre) in *.
  split; [intro m; apply directory_listing_In; exact Hinv|].
  pose proof (directory_listing_entries st slot uid Hinv) as Hmap.
  pose proof (uid_entries_sorted st slot uid Hinv) as Hs. rewrite <- Hmap in Hs.
  assert (G : forall l, StronglySorted elt (map (activation_entry slot) l) ->
              NoDup l /\ StronglySorted (fun a b => entry_compare (activation_entry slot a) (activation_entry slot b) = Lt) l).
  { induction l as [|x l IH]; intro H; [split; constructor|].
    cbn [map] in H. inversion H as [|? ? Hl Hall]; subst. destruct (IH Hl) as [N S].
    rewrite Forall_forall in Hall. split.
    - constructor; [|exact N]. intro C. apply (elt_irrefl (activation_entry slot x)).
      apply Hall. apply in_map. exact C.
    - constructor; [exact S|]. apply Forall_forall. intros y Hy. apply Hall. apply in_map. exact Hy. }
  exact (G _ Hs).
Qed.

(* ---- concrete rows for the Examples of Properties/C16.v --------------------------------------------------- *)

(* user "u1", channel [ch] of type 2, in hash slot 5 *)
Definition example_row (ch : bytes) (read del : N) (act : Z) (tomb : bool) (sv : N) : membership :=
  Membership (hx "7531") ch 2%Z 1 read del act tomb 0%Z sv 100%Z.
Definition example_key (ch : bytes) : mkey := MKey 5 (hx "7531") ch 2%Z.

(* ---- statements in the exact shape of Properties/C16.v --------------------------------------------------- *)

Lemma cursor_monotone_fields pre ops k a :
  get_row (c16_exec mstate_empty pre) k = Some a ->
  membership_boundary k a (flat_map op_muts ops) = false ->
  exists b, get_row (c16_exec mstate_empty (pre ++ ops)) k = Some b
            /\ m_read_seq a <= m_read_seq b /\ m_deleted_to_seq a <= m_deleted_to_seq b
            /\ m_source_version a <= m_source_version b.
Proof.
  intros Ha Hb.
  destruct (history_cursor_monotone pre ops k a Ha Hb) as (b & Hg & [H1 H2 H3]).
  exists b. repeat split; assumption.
Qed.

Lemma recreate_needs_newer_source k a us :
  membership_boundary k a us = true ->
  exists u, In u us /\
    (u = MDelete k
     \/ exists slot m, (u = MUpsert slot m \/ u = MEnsure slot m)
                       /\ membership_key slot m = k /\ m_source_version a < m_source_version m).
Proof. exact (boundary_needs_newer_source k _ us _ _). Qed.

Lemma ack_reset_needs_rebind k a us :
  cmd_boundary k a us = true ->
  exists slot c, In (MCmdUpsert slot c) us /\ cmd_membership_key slot c = k /\ c_tombstone c = false.
Proof. exact (cmd_boundary_needs_rebind k us _). Qed.

Lemma stale_source_refused st slot m a :
  get_row st (membership_key slot m) = Some a ->
  (m_source_version m < m_source_version a ->
   get_row (snd (direct_apply st (MUpsert slot m))) (membership_key slot m) = Some a)
  /\ (m_source_version m <= m_source_version a ->
      get_row (snd (direct_apply st (MEnsure slot m))) (membership_key slot m) = Some a).
Proof. intro Hg. split; [apply upsert_stale_row|apply ensure_stale_row]; exact Hg. Qed.

Lemma index_consistent_full ops e :
  let st := c16_exec mstate_empty ops in
  (In e (st_index st) <-> exists k row, get_row st k = Some row /\ e = activation_entry (k_slot k) row)
  /\ NoDup (st_index st).
Proof. split; [exact (index_consistent ops e)|exact (index_nodup ops)]. Qed.
