(* Proof/MsgStore_mut.v — the relation [Rkv] is preserved by the staged writes of
   the mutations: framing, appending one row, deleting a set of rows. *)
From WK Require Import Base.Base Model.KV Gen.Consts_C07 Model.MsgStore Model.MsgStore_C07
     Proof.KV Proof.MsgStore_base Proof.MsgStore_rel Proof.MsgStore_reads Proof.MsgStore_frame.
From Coq Require Import Sorting.Permutation Sorting.Sorted.

(* ---- framing ------------------------------------------------------------------------------------- *)

Definition key_of_chan (k : key) (c : N) : bool :=
  match k with
  | KyRow c' _ | KyCidx c' _ _ | KyIdem c' _ _ | KySseq c' _ _ | KyCkpt c' | KyRet c' | KyHist c' _ _ => c' =? c
  | _ => false
  end.

Lemma loadRet_ext (kv kv' : kvs) c : kget (KyRet c) kv' = kget (KyRet c) kv ->
  loadRetentionState kv' c = loadRetentionState kv c.
Proof. intro H. unfold loadRetentionState. rewrite H. reflexivity. Qed.

Lemma loadCk_ext (kv kv' : kvs) c : kget (KyCkpt c) kv' = kget (KyCkpt c) kv ->
  loadCheckpoint kv' c = loadCheckpoint kv c.
Proof. intro H. unfold loadCheckpoint. rewrite H. reflexivity. Qed.

Lemma Rchan_frame kv kv' s s' c rows :
  swf kv -> swf kv' ->
  (forall k, key_of_chan k c = true -> kget k kv' = kget k kv) ->
  as_log s' c = as_log s c ->
  Rchan kv s c rows -> Rchan kv' s' c rows.
Proof.
  intros W W' Hk Hl Rc.
  assert (Hrow : forall q, kget (KyRow c q) kv' = kget (KyRow c q) kv) by (intro; apply Hk; cbn; apply N.eqb_refl).
  assert (Hret : loadRetentionState kv' c = loadRetentionState kv c) by (apply loadRet_ext; apply Hk; cbn; apply N.eqb_refl).
  assert (Hget : forall q r, kget (KyRow c q) kv' = Some (VRow r) <-> In r rows /\ r_seq r = q)
    by (intros; rewrite Hrow; apply Rc).
  constructor; rewrite ?Hl.
  - apply Rc.
  - apply Rc.
  - exact Hget.
  - apply Rc.
  - rewrite (recoverLEO_char _ _ _ W' Hget), Hret, <- (recoverLEO_char _ _ _ W (rc_get _ _ _ _ Rc)). apply Rc.
  - apply Rc.
  - rewrite Hret. apply Rc.
  - unfold local_of. rewrite Hret. apply Rc.
  - intros n q. unfold has. rewrite Hk by (cbn; apply N.eqb_refl). apply Rc.
  - intros u q. unfold has. rewrite Hk by (cbn; apply N.eqb_refl). apply Rc.
  - intros n u q i h. rewrite Hk by (cbn; apply N.eqb_refl). apply Rc.
  - intros r Hin Hu Hn Ht. rewrite Hk by (cbn; apply N.eqb_refl). apply Rc; assumption.
  - rewrite (loadCk_ext kv kv') by (apply Hk; cbn; apply N.eqb_refl). apply Rc.
  - rewrite (loadHistory_ext kv kv' c W W') by (intros; apply Hk; cbn; apply N.eqb_refl). apply Rc.
Qed.

(* keys no clause of the relation looks at *)
Definition irrelevant (k : key) : bool := match k with KyCat _ | KyIdent _ _ => true | _ => false end.

Lemma Rkv_frame kv kv' s :
  swf kv' -> (forall k, irrelevant k = false -> kget k kv' = kget k kv) -> Rkv kv s -> Rkv kv' s.
Proof.
  intros W' Hk R. constructor.
  - exact W'.
  - intro c. destruct (rk_chan _ _ R c) as [rows Rc]. exists rows.
    apply (Rchan_frame kv kv' s s c rows (rk_wf _ _ R) W'); [|reflexivity|exact Rc].
    intros k Hc. apply Hk. destruct k; cbn in Hc |- *; try reflexivity; discriminate.
  - intros i c q G. rewrite Hk in G by reflexivity. destruct (rk_gs _ _ R _ _ _ G) as [r [Gr Hi]].
    exists r. split; [rewrite Hk by reflexivity; exact Gr|exact Hi].
  - intros c q r G Ht. rewrite Hk in G by reflexivity. rewrite Hk by reflexivity. apply (rk_gc _ _ R); assumption.
  - intros c q v G. rewrite Hk in G by reflexivity. eapply (rk_co _ _ R). exact G.
Qed.

Lemma sorted_lt_snoc {A} (f : A -> N) l x :
  sorted_lt f l -> Forall (fun y => f y < f x) l -> sorted_lt f (l ++ [x]).
Proof.
  unfold sorted_lt. induction 1 as [|y l Hs IH Ha]; intro Hlt; cbn [app]; [constructor; constructor|].
  inversion Hlt as [|? ? Hy Hl]; subst.
  constructor; [apply IH; exact Hl|]. apply Forall_app. split; [exact Ha|constructor; [exact Hy|constructor]].
Qed.

(* ---- appending one row ------------------------------------------------------------------------------ *)

Lemma spec_append_one s c a :
  spec_append s c [a] =
  AS (fun c' => if c' =? c
                then AL (al_rows (as_log s c) ++ [a]) (m_seq (a_msg a)) (al_ck (as_log s c)) (al_hist (as_log s c))
                        (if both_nonempty (m_uid (a_msg a)) (m_cno (a_msg a))
                            && pair_stored (as_log s c) (m_uid (a_msg a)) (m_cno (a_msg a))
                         then (m_uid (a_msg a), m_cno (a_msg a)) :: al_tpairs (as_log s c) else al_tpairs (as_log s c))
                else as_log s c')
     (if id_stored s (m_id (a_msg a)) then m_id (a_msg a) :: as_tids s else as_tids s).
Proof. reflexivity. Qed.

Lemma spec_append_cons s c a rest :
  spec_append s c (a :: rest) = spec_append (spec_append s c [a]) c rest.
Proof. reflexivity. Qed.

Lemma id_stored_row kv s c q r :
  Rkv kv s -> kget (KyRow c q) kv = Some (VRow r) -> id_stored s (r_id r) = true.
Proof.
  intros R G. unfold id_stored. apply existsb_exists. exists c. split; [eapply (rk_co _ _ R); exact G|].
  destruct (rk_chan _ _ R c) as [rows Rc]. apply Rc in G. destruct G as [Hin _].
  apply existsb_exists. exists (arow_of r). split; [rewrite (rc_rows _ _ _ _ Rc); apply in_map; exact Hin|].
  cbn. apply N.eqb_refl.
Qed.

Lemma pair_stored_row kv s c rows r :
  Rchan kv s c rows -> In r rows -> pair_stored (as_log s c) (r_uid r) (r_cno r) = true.
Proof.
  intros Rc Hin. unfold pair_stored. apply existsb_exists. exists (arow_of r).
  split; [rewrite (rc_rows _ _ _ _ Rc); apply in_map; exact Hin|]. cbn. rewrite !bytes_eqb_refl. reflexivity.
Qed.

Lemma pair_tainted_mono l (x : bytes * bytes) u n :
  pair_tainted (AL (al_rows l) (al_leo l) (al_ck l) (al_hist l) (x :: al_tpairs l)) u n = false ->
  pair_tainted l u n = false.
Proof.
  unfold pair_tainted. cbn [al_tpairs existsb]. intro H. apply orb_false_iff in H. apply H.
Qed.

Lemma add_row_Rkv kv s c r :
  Rkv kv s -> In c all_chans -> row_ok c r -> r_seq r = al_leo (as_log s c) + 1 ->
  Rkv (kapply kv (stageMessageRow c r)) (spec_append s c [arow_of r]).
Proof.
  intros R Hc Hok Hseq.
  set (kv' := kapply kv (stageMessageRow c r)).
  assert (W' : swf kv') by (apply swf_apply; apply R).
  assert (G : forall k, kget k kv' = keff k (stageMessageRow c r) (kget k kv)) by (intro; apply kget_apply).
  destruct (rk_chan _ _ R c) as [rows Rc].
  assert (Hlt : Forall (fun r0 => r_seq r0 < r_seq r) rows).
  { eapply Forall_impl; [|apply (rc_le_leo _ _ _ _ Rc)]. cbn. intros; lia. }
  assert (Hnew : forall q r0, kget (KyRow c q) kv' = Some (VRow r0) <-> In r0 (rows ++ [r]) /\ r_seq r0 = q).
  { intros q r0. rewrite G, keff_stage_row, N.eqb_refl. cbn [andb]. rewrite in_app_iff. cbn [In].
    destruct (q =? r_seq r) eqn:Eq.
    - apply N.eqb_eq in Eq. subst q. split.
      + intro H. injection H as <-. split; [right; left; reflexivity|reflexivity].
      + intros [[Hin|[<-|[]]] Hs]; [|reflexivity].
        eapply Forall_forall in Hlt; [|exact Hin]. lia.
    - apply N.eqb_neq in Eq. rewrite (rc_get _ _ _ _ Rc). split.
      + intros [H1 H2]. split; [left; exact H1|exact H2].
      + intros [[Hin|[<-|[]]] Hs]; [split; assumption|congruence]. }
  rewrite spec_append_one. cbn [arow_of a_msg m_seq m_uid m_cno m_id messageFromRow].
  set (tp' := if both_nonempty (r_uid r) (r_cno r) && pair_stored (as_log s c) (r_uid r) (r_cno r)
              then (r_uid r, r_cno r) :: al_tpairs (as_log s c) else al_tpairs (as_log s c)).
  set (tids' := if id_stored s (r_id r) then r_id r :: as_tids s else as_tids s).
  constructor.
  - exact W'.
  - intro c0. cbn [as_log]. destruct (c0 =? c) eqn:Ec.
    + apply N.eqb_eq in Ec. subst c0. exists (rows ++ [r]).
      assert (Hret : loadRetentionState kv' c = loadRetentionState kv c).
      { apply loadRet_ext. rewrite G, keff_stage_row. reflexivity. }
      constructor; cbn [as_log al_rows al_leo al_ck al_hist al_tpairs]; rewrite ?N.eqb_refl;
        cbn [al_rows al_leo al_ck al_hist al_tpairs].
      * rewrite map_app, (rc_rows _ _ _ _ Rc). reflexivity.
      * (* sorted *)
        apply sorted_lt_snoc; [apply Rc|exact Hlt].
      * exact Hnew.
      * apply Forall_app. split; [apply Rc|constructor; [exact Hok|constructor]].
      * rewrite (recoverLEO_char _ _ _ W' Hnew), Hret, max_seq_app.
        assert (Hm : max_seq rows <= al_leo (as_log s c)) by (apply max_seq_le; apply Rc).
        assert (Hr : max_seq [r] = r_seq r) by (cbn; lia). rewrite Hr.
        pose proof (rc_ret _ _ _ _ Rc) as Hrt.
        destruct (loadRetentionState kv c) as [[[l p] rm]|].
        -- destruct Hrt as [_ [_ [Hrm _]]].
           destruct (N.max (max_seq rows) (r_seq r) <? rm) eqn:E; [apply N.ltb_lt in E; lia|lia].
        -- lia.
      * apply Forall_app. split; [|constructor; [lia|constructor]].
        eapply Forall_impl; [|apply (rc_le_leo _ _ _ _ Rc)]. cbn. intros; lia.
      * rewrite Hret. pose proof (rc_ret _ _ _ _ Rc) as Hrt.
        destruct (loadRetentionState kv c) as [[[l p] rm]|]; [|exact I].
        destruct Hrt as [H1 [H2 [H3 [H4 H5]]]]. repeat split; try assumption; try lia.
        apply Forall_app. split; [exact H5|constructor; [lia|constructor]].
      * unfold local_of. rewrite Hret. intros q Hq.
        destruct (N.eq_dec q (r_seq r)) as [->|Hne].
        -- exists r. split; [apply in_or_app; right; left; reflexivity|reflexivity].
        -- destruct (rc_contig _ _ _ _ Rc q) as [r0 [Hin Hs]]; [unfold local_of; lia|].
           exists r0. split; [apply in_or_app; left; exact Hin|exact Hs].
      * (* cidx *)
        intros n q. unfold has. rewrite G, keff_stage_row, N.eqb_refl. cbn [andb].
        destruct (cidx_cond r && (bytes_eqb n (r_cno r) && (q =? r_seq r))) eqn:E.
        -- apply andb_true_iff in E. destruct E as [E1 E2]. beq. subst n q.
           unfold cidx_cond in E1. apply andb_true_iff in E1. destruct E1 as [E1 E3].
           apply negb_true_iff, is_nil_false in E1. apply is_nil_true in E3.
           split; [intros _|discriminate].
           exists r. split; [apply in_or_app; right; left; reflexivity|]. repeat split; assumption.
        -- change (kget (KyCidx c n q) kv <> None) with (has kv (KyCidx c n q)). rewrite (rc_cidx _ _ _ _ Rc). split.
           ++ intros [r0 [Hin H]]. exists r0. split; [apply in_or_app; left; exact Hin|exact H].
           ++ intros [r0 [Hin [Hs [Hn [Hne Hu]]]]]. apply in_app_or in Hin. destruct Hin as [Hin|[<-|[]]].
              ** exists r0. repeat split; assumption.
              ** exfalso. subst n q. unfold cidx_cond in E.
                 rewrite bytes_eqb_refl, N.eqb_refl, Hu in E. cbn [is_nil andb] in E.
                 apply is_nil_false in Hne. rewrite Hne in E. discriminate.
      * (* sseq *)
        intros u q. unfold has. rewrite G, keff_stage_row, N.eqb_refl. cbn [andb].
        destruct (sseq_cond r && (bytes_eqb u (r_uid r) && (q =? r_seq r))) eqn:E.
        -- apply andb_true_iff in E. destruct E as [E1 E2]. beq. subst u q.
           unfold sseq_cond in E1. apply andb_true_iff in E1. destruct E1 as [E1 E3].
           apply negb_true_iff, is_nil_false in E1. apply N.eqb_eq in E3.
           split; [intros _|discriminate].
           exists r. split; [apply in_or_app; right; left; reflexivity|]. repeat split; assumption.
        -- change (kget (KySseq c u q) kv <> None) with (has kv (KySseq c u q)). rewrite (rc_sseq _ _ _ _ Rc). split.
           ++ intros [r0 [Hin H]]. exists r0. split; [apply in_or_app; left; exact Hin|exact H].
           ++ intros [r0 [Hin [Hs [Hu [Hne Hf]]]]]. apply in_app_or in Hin. destruct Hin as [Hin|[<-|[]]].
              ** exists r0. repeat split; assumption.
              ** exfalso. subst u q. unfold sseq_cond in E.
                 rewrite bytes_eqb_refl, N.eqb_refl, Hf in E. cbn [andb] in E.
                 apply is_nil_false in Hne. rewrite Hne in E. discriminate.
      * (* idem sound *)
        intros n u q i h. rewrite G, keff_stage_row, N.eqb_refl. cbn [andb].
        destruct (idem_cond r && (bytes_eqb n (r_cno r) && bytes_eqb u (r_uid r))) eqn:E.
        -- intro H. injection H as <- <- <-. apply andb_true_iff in E. destruct E as [E1 E2]. beq. subst n u.
           unfold idem_cond in E1. apply andb_true_iff in E1. destruct E1 as [E1 E3].
           apply negb_true_iff, is_nil_false in E1, E3.
           exists r. split; [apply in_or_app; right; left; reflexivity|]. repeat split; assumption.
        -- intro H. destruct (rc_idem_sound _ _ _ _ Rc _ _ _ _ _ H) as [r0 [Hin H0]].
           exists r0. split; [apply in_or_app; left; exact Hin|exact H0].
      * (* idem complete *)
        intros r0 Hin Hu Hn Ht. rewrite G, keff_stage_row, N.eqb_refl. cbn [andb].
        apply in_app_or in Hin. destruct Hin as [Hin|[<-|[]]].
        -- destruct (idem_cond r && (bytes_eqb (r_cno r0) (r_cno r) && bytes_eqb (r_uid r0) (r_uid r))) eqn:E.
           ++ exfalso. apply andb_true_iff in E. destruct E as [E1 E2]. beq.
              unfold tp' in Ht. unfold both_nonempty in Ht.
              unfold idem_cond in E1. rewrite E1 in Ht. cbn [andb] in Ht.
              rewrite <- H, <- H0, (pair_stored_row _ _ _ _ _ Rc Hin) in Ht.
              unfold pair_tainted in Ht. cbn [al_tpairs existsb fst snd] in Ht.
              rewrite !bytes_eqb_refl in Ht. discriminate.
           ++ apply (rc_idem_complete _ _ _ _ Rc r0 Hin Hu Hn).
              unfold tp' in Ht. destruct (_ && _) in Ht; [|exact Ht].
              unfold pair_tainted in Ht |- *. cbn [al_tpairs existsb] in Ht. apply orb_false_iff in Ht. apply Ht.
        -- unfold idem_cond. apply is_nil_false in Hu, Hn. rewrite Hu, Hn, !bytes_eqb_refl. reflexivity.
      * rewrite (loadCk_ext kv kv') by (rewrite G, keff_stage_row; reflexivity). apply Rc.
      * rewrite (loadHistory_ext kv kv' c (rk_wf _ _ R) W') by (intros; rewrite G, keff_stage_row; reflexivity). apply Rc.
    + (* another channel *)
      destruct (rk_chan _ _ R c0) as [rows0 Rc0]. exists rows0.
      apply N.eqb_neq in Ec.
      apply (Rchan_frame kv kv' s _ c0 rows0 (rk_wf _ _ R) W'); [| |exact Rc0].
      * intros k Hk. rewrite G, keff_stage_row.
        destruct k; cbn [key_of_chan] in Hk; try discriminate; apply N.eqb_eq in Hk; subst;
          try reflexivity;
          (assert (Ef : (c0 =? c) = false) by (apply N.eqb_neq; exact Ec)); rewrite Ef; cbn [andb];
          rewrite ?andb_false_r; reflexivity.
      * cbn [as_log]. apply N.eqb_neq in Ec. rewrite Ec. reflexivity.
  - (* gid sound *)
    intros i c0 q0. rewrite G, keff_stage_row. destruct (i =? r_id r) eqn:Ei.
    + intro H. injection H as <- <-. apply N.eqb_eq in Ei. exists r. split; [|symmetry; exact Ei].
      apply Hnew. split; [apply in_or_app; right; left; reflexivity|reflexivity].
    + intro H. destruct (rk_gs _ _ R _ _ _ H) as [r0 [Gr Hi]]. exists r0. split; [|exact Hi].
      rewrite G, keff_stage_row.
      destruct ((c0 =? c) && (q0 =? r_seq r)) eqn:E; [|exact Gr].
      exfalso. beq. subst. apply Rc in Gr. destruct Gr as [Hin Hs].
      eapply Forall_forall in Hlt; [|exact Hin]. lia.
  - (* gid complete *)
    intros c0 q0 r0. cbn [as_tids]. rewrite G, keff_stage_row. intros Hrow Ht.
    rewrite G, keff_stage_row.
    destruct ((c0 =? c) && (q0 =? r_seq r)) eqn:E.
    + injection Hrow as <-. beq. subst. rewrite N.eqb_refl. reflexivity.
    + destruct (r_id r0 =? r_id r) eqn:Ei.
      * exfalso. apply N.eqb_eq in Ei. apply Ht. unfold tids'.
        rewrite <- Ei, (id_stored_row _ _ _ _ _ R Hrow). left. reflexivity.
      * apply (rk_gc _ _ R); [exact Hrow|]. intro Hin. apply Ht. unfold tids'.
        destruct (id_stored s (r_id r)); [right; exact Hin|exact Hin].
  - (* channels *)
    intros c0 q0 v. rewrite G, keff_stage_row.
    destruct ((c0 =? c) && (q0 =? r_seq r)) eqn:E.
    + intros _. beq. subst. exact Hc.
    + intro H. eapply (rk_co _ _ R). exact H.
Qed.

(* ---- appending a run of rows ------------------------------------------------------------------------- *)

Fixpoint consec (start : N) (rows : list row) : Prop :=
  match rows with
  | [] => True
  | r :: rest => r_seq r = start /\ consec (start + 1) rest
  end.

Lemma spec_append_other s c l c' : c' <> c -> as_log (spec_append s c l) c' = as_log s c'.
Proof.
  revert s. induction l as [|a l IH]; intros s Hne; [reflexivity|].
  rewrite spec_append_cons, IH by exact Hne. rewrite spec_append_one. cbn [as_log].
  apply N.eqb_neq in Hne. rewrite Hne. reflexivity.
Qed.

Lemma spec_append_leo s c rows : rows <> [] ->
  al_leo (as_log (spec_append s c (map arow_of rows)) c) = last_seq rows.
Proof.
  revert s. induction rows as [|r rows IH]; intros s Hne; [contradiction|].
  cbn [map]. rewrite spec_append_cons. destruct rows as [|r2 rows].
  - cbn [map]. change (spec_append (spec_append s c [arow_of r]) c []) with (spec_append s c [arow_of r]).
    rewrite spec_append_one. cbn [as_log]. rewrite N.eqb_refl. reflexivity.
  - rewrite IH by discriminate. unfold last_seq. cbn [rev]. 
    destruct (rev rows ++ [r2]) eqn:E; [destruct (rev rows); discriminate|].
    cbn [app]. reflexivity.
Qed.

Lemma kapply_app (kv : kvs) b1 b2 : kapply kv (b1 ++ b2) = kapply (kapply kv b1) b2.
Proof. unfold kapply. apply apply_batch_app. Qed.

Lemma add_rows_Rkv c rows : forall kv s,
  Rkv kv s -> In c all_chans -> Forall (row_ok c) rows -> consec (al_leo (as_log s c) + 1) rows ->
  Rkv (kapply kv (stageMessageRows c rows)) (spec_append s c (map arow_of rows)).
Proof.
  induction rows as [|r rows IH]; intros kv s R Hc Hok Hcs.
  - exact R.
  - unfold stageMessageRows. cbn [flat_map map]. fold (stageMessageRows c rows).
    rewrite kapply_app, spec_append_cons.
    inversion Hok as [|? ? Hr Hrest]; subst. destruct Hcs as [Hs Hcs].
    apply IH; [apply add_row_Rkv; assumption|exact Hc|exact Hrest|].
    rewrite spec_append_one. cbn [as_log]. rewrite N.eqb_refl. cbn [al_leo arow_of a_msg m_seq messageFromRow].
    rewrite Hs. exact Hcs.
Qed.

(* ---- writes to keys nothing looks at -------------------------------------------------------------------- *)

Definition irrelevant_batch (b : kbatch) : Prop :=
  forall k, irrelevant k = false -> forallb (fun o => negb (op_touches key_eqb k o)) b = true.

Lemma keff_irrelevant k b cur : irrelevant_batch b -> irrelevant k = false -> keff k b cur = cur.
Proof. intros Hb Hk. apply batch_effect_untouched. apply Hb. exact Hk. Qed.

Lemma irrelevant_catalog c : irrelevant_batch (stageCatalog c).
Proof. intros k Hk. destruct k; cbn in Hk |- *; try reflexivity; discriminate. Qed.

Lemma irrelevant_catalog_app c b : irrelevant_batch (stageCatalogForAppend c b).
Proof. unfold stageCatalogForAppend. destruct (1 <? b); [intros k _; reflexivity|apply irrelevant_catalog]. Qed.

Lemma irrelevant_proposals c t : irrelevant_batch (stageTruncateDurableProposals c t).
Proof. intros k Hk. destruct k; cbn in Hk |- *; try reflexivity; discriminate. Qed.

Lemma Rkv_irrelevant kv s b : irrelevant_batch b -> Rkv kv s -> Rkv (kapply kv b) s.
Proof.
  intros Hb R. apply (Rkv_frame kv); [apply swf_apply; apply R| |exact R].
  intros k Hk. rewrite kget_apply. apply keff_irrelevant; assumption.
Qed.

(* ---- deleting rows ----------------------------------------------------------------------------------------- *)

Section DeleteRows.
  Variables (kv : kvs) (s s1 : aspec) (c : N) (rows : list row) (keep : row -> bool).
  Hypothesis R : Rkv kv s.
  Hypothesis Rc : Rchan kv s c rows.
  Let D := filter (fun r => negb (keep r)) rows.
  Let rows' := filter keep rows.
  Let kv1 := kapply kv (flat_map (stageDeleteMessage c) D).
  Hypothesis Hs1_tids : as_tids s1 = as_tids s.
  Hypothesis Hs1_other : forall c', c' <> c -> as_log s1 c' = as_log s c'.
  Hypothesis Hs1_tp : al_tpairs (as_log s1 c) = al_tpairs (as_log s c).

  Lemma del_get k : kget k kv1 = if existsb (key_eqb k) (deleted_keys c D) then None else kget k kv.
  Proof. unfold kv1. rewrite kget_apply. apply keff_delete_rows. Qed.

  Lemma del_wf : swf kv1.
  Proof. apply swf_apply. apply R. Qed.

  Lemma in_D r : In r D <-> In r rows /\ keep r = false.
  Proof. unfold D. rewrite filter_In, negb_true_iff. tauto. Qed.

  Lemma in_rows' r : In r rows' <-> In r rows /\ keep r = true.
  Proof. unfold rows'. apply filter_In. Qed.

  Lemma row_inj r r' : In r rows -> In r' rows -> r_seq r = r_seq r' -> r = r'.
  Proof. apply sorted_lt_inj. apply Rc. Qed.

  Lemma del_not k : ~ In k (deleted_keys c D) -> kget k kv1 = kget k kv.
  Proof. intro H. rewrite del_get. apply existsb_key_notin in H. rewrite H. reflexivity. Qed.

  Lemma del_yes k : In k (deleted_keys c D) -> kget k kv1 = None.
  Proof. intro H. rewrite del_get. apply existsb_key_in in H. rewrite H. reflexivity. Qed.

  Lemma key_dec k : In k (deleted_keys c D) \/ ~ In k (deleted_keys c D).
  Proof. destruct (existsb (key_eqb k) (deleted_keys c D)) eqn:E; [left; apply existsb_key_in; exact E|right; apply existsb_key_notin; exact E]. Qed.

  Lemma del_rc_get q r : kget (KyRow c q) kv1 = Some (VRow r) <-> In r rows' /\ r_seq r = q.
  Proof.
    destruct (key_dec (KyRow c q)) as [Hd|Hd].
    - rewrite (del_yes _ Hd). apply in_deleted_keys in Hd. destruct Hd as [d [HdD Hk]].
      apply in_row_del_keys in Hk. destruct Hk as [_ Hq]. apply in_D in HdD. destruct HdD as [Hdr Hdk].
      split; [discriminate|]. intros [Hr Hs]. apply in_rows' in Hr. destruct Hr as [Hr Hk].
      assert (r = d) by (apply row_inj; [assumption|assumption|congruence]). subst. congruence.
    - rewrite (del_not _ Hd), (rc_get _ _ _ _ Rc), in_rows'. split; [|tauto].
      intros [Hr Hs]. split; [|exact Hs]. split; [exact Hr|].
      destruct (keep r) eqn:Ek; [reflexivity|]. exfalso. apply Hd. apply in_deleted_keys.
      exists r. split; [apply in_D; split; assumption|]. apply in_row_del_keys. split; [reflexivity|symmetry; exact Hs].
  Qed.

  Lemma del_cidx n q : has kv1 (KyCidx c n q) <-> exists r, In r rows' /\ r_seq r = q /\ r_cno r = n /\ n <> [] /\ r_uid r = [].
  Proof.
    unfold has. destruct (key_dec (KyCidx c n q)) as [Hd|Hd].
    - rewrite (del_yes _ Hd). apply in_deleted_keys in Hd. destruct Hd as [d [HdD Hk]].
      apply in_row_del_keys in Hk. destruct Hk as [_ [Hn [Hq _]]]. apply in_D in HdD. destruct HdD as [Hdr Hdk].
      split; [intro X; contradiction|]. intros [r [Hr [Hs _]]]. apply in_rows' in Hr. destruct Hr as [Hr Hk].
      assert (r = d) by (apply row_inj; [assumption|assumption|congruence]). subst. congruence.
    - rewrite (del_not _ Hd). change (kget (KyCidx c n q) kv <> None) with (has kv (KyCidx c n q)).
      rewrite (rc_cidx _ _ _ _ Rc). split.
      + intros [r [Hr [Hs [Hn [Hne Hu]]]]]. exists r. split; [|repeat split; assumption].
        apply in_rows'. split; [exact Hr|]. destruct (keep r) eqn:Ek; [reflexivity|]. exfalso. apply Hd.
        apply in_deleted_keys. exists r. split; [apply in_D; split; assumption|]. apply in_row_del_keys.
        subst. repeat split; try reflexivity; assumption.
      + intros [r [Hr H]]. exists r. split; [apply in_rows' in Hr; apply Hr|exact H].
  Qed.

  Lemma del_sseq u q : has kv1 (KySseq c u q) <-> exists r, In r rows' /\ r_seq r = q /\ r_uid r = u /\ u <> []
                                                        /\ N.land (r_flags r) syncOnceFlag = 0.
  Proof.
    unfold has. destruct (key_dec (KySseq c u q)) as [Hd|Hd].
    - rewrite (del_yes _ Hd). apply in_deleted_keys in Hd. destruct Hd as [d [HdD Hk]].
      apply in_row_del_keys in Hk. destruct Hk as [_ [Hu [Hq _]]]. apply in_D in HdD. destruct HdD as [Hdr Hdk].
      split; [intro X; contradiction|]. intros [r [Hr [Hs _]]]. apply in_rows' in Hr. destruct Hr as [Hr Hk].
      assert (r = d) by (apply row_inj; [assumption|assumption|congruence]). subst. congruence.
    - rewrite (del_not _ Hd). change (kget (KySseq c u q) kv <> None) with (has kv (KySseq c u q)).
      rewrite (rc_sseq _ _ _ _ Rc). split.
      + intros [r [Hr [Hs [Hu [Hne Hf]]]]]. exists r. split; [|repeat split; assumption].
        apply in_rows'. split; [exact Hr|]. destruct (keep r) eqn:Ek; [reflexivity|]. exfalso. apply Hd.
        apply in_deleted_keys. exists r. split; [apply in_D; split; assumption|]. apply in_row_del_keys.
        subst. repeat split; try reflexivity; assumption.
      + intros [r [Hr H]]. exists r. split; [apply in_rows' in Hr; apply Hr|exact H].
  Qed.

  Lemma del_idem_sound n u q i h : kget (KyIdem c n u) kv1 = Some (VIdem q i h) ->
    exists r, In r rows' /\ r_seq r = q /\ r_cno r = n /\ r_uid r = u /\ r_id r = i /\ r_hash r = h /\ n <> [] /\ u <> [].
  Proof.
    destruct (key_dec (KyIdem c n u)) as [Hd|Hd]; [rewrite (del_yes _ Hd); discriminate|].
    rewrite (del_not _ Hd). intro G. destruct (rc_idem_sound _ _ _ _ Rc _ _ _ _ _ G) as [r [Hr H]].
    exists r. split; [|exact H]. apply in_rows'. split; [exact Hr|].
    destruct (keep r) eqn:Ek; [reflexivity|]. exfalso. apply Hd. apply in_deleted_keys.
    exists r. split; [apply in_D; split; assumption|]. apply in_row_del_keys.
    destruct H as [_ [Hn [Hu [_ [_ [Hne Hue]]]]]]. subst. repeat split; try reflexivity; assumption.
  Qed.

  Lemma del_idem_complete r : In r rows' -> r_uid r <> [] -> r_cno r <> [] ->
    pair_tainted (as_log s1 c) (r_uid r) (r_cno r) = false ->
    kget (KyIdem c (r_cno r) (r_uid r)) kv1 = Some (VIdem (r_seq r) (r_id r) (r_hash r)).
  Proof.
    intros Hr Hu Hn Ht. apply in_rows' in Hr. destruct Hr as [Hr Hk].
    assert (Ht0 : pair_tainted (as_log s c) (r_uid r) (r_cno r) = false).
    { unfold pair_tainted in *. rewrite <- Hs1_tp. exact Ht. }
    pose proof (rc_idem_complete _ _ _ _ Rc r Hr Hu Hn Ht0) as G.
    destruct (key_dec (KyIdem c (r_cno r) (r_uid r))) as [Hd|Hd]; [|rewrite (del_not _ Hd); exact G].
    exfalso. apply in_deleted_keys in Hd. destruct Hd as [d [HdD Hkd]].
    apply in_row_del_keys in Hkd. destruct Hkd as [_ [Hn2 [Hu2 _]]]. apply in_D in HdD. destruct HdD as [Hdr Hdk].
    assert (Gd : kget (KyIdem c (r_cno d) (r_uid d)) kv = Some (VIdem (r_seq d) (r_id d) (r_hash d))).
    { apply (rc_idem_complete _ _ _ _ Rc d Hdr); rewrite <- ?Hu2, <- ?Hn2; assumption. }
    rewrite <- Hn2, <- Hu2, G in Gd. injection Gd as Hq _ _.
    assert (r = d) by (apply row_inj; assumption). subst. congruence.
  Qed.

  Lemma del_gid_sound : gid_sound kv1.
  Proof.
    intros i c0 q0 G.
    destruct (key_dec (KyGid i)) as [Hd|Hd]; [rewrite (del_yes _ Hd) in G; discriminate|].
    rewrite (del_not _ Hd) in G. destruct (rk_gs _ _ R _ _ _ G) as [r0 [Gr Hi]].
    exists r0. split; [|exact Hi].
    destruct (key_dec (KyRow c0 q0)) as [Hd2|Hd2]; [|rewrite (del_not _ Hd2); exact Gr].
    exfalso. apply in_deleted_keys in Hd2. destruct Hd2 as [d [HdD Hk]].
    apply in_row_del_keys in Hk. destruct Hk as [-> ->].
    pose proof HdD as HdD'. apply in_D in HdD. destruct HdD as [Hdr Hdk].
    apply Rc in Gr. destruct Gr as [Hr0 Hs0].
    assert (r0 = d) by (apply row_inj; assumption). subst r0.
    apply Hd. apply in_deleted_keys. exists d. split; [exact HdD'|]. apply in_row_del_keys.
    split; [symmetry; exact Hi|].
    assert (Hok : row_ok c d) by (eapply Forall_forall; [apply Rc|exact Hdr]). apply Hok.
  Qed.

  Lemma del_gid_complete : gid_complete kv1 s1.
  Proof.
    intros c0 q0 r0 G Ht. rewrite Hs1_tids in Ht.
    destruct (key_dec (KyRow c0 q0)) as [Hd|Hd]; [rewrite (del_yes _ Hd) in G; discriminate|].
    rewrite (del_not _ Hd) in G. pose proof (rk_gc _ _ R _ _ _ G Ht) as Gg.
    destruct (key_dec (KyGid (r_id r0))) as [Hd2|Hd2]; [|rewrite (del_not _ Hd2); exact Gg].
    exfalso. apply in_deleted_keys in Hd2. destruct Hd2 as [d [HdD Hk]].
    apply in_row_del_keys in Hk. destruct Hk as [Hid _].
    pose proof HdD as HdD'. apply in_D in HdD. destruct HdD as [Hdr Hdk].
    assert (Gd : kget (KyRow c (r_seq d)) kv = Some (VRow d)) by (apply Rc; split; [exact Hdr|reflexivity]).
    assert (Gg2 : kget (KyGid (r_id d)) kv = Some (VGid c (r_seq d))) by (apply (rk_gc _ _ R _ _ _ Gd); rewrite <- Hid; exact Ht).
    rewrite <- Hid, Gg in Gg2. injection Gg2 as -> ->.
    apply Hd. apply in_deleted_keys. exists d. split; [exact HdD'|]. apply in_row_del_keys. split; reflexivity.
  Qed.

  Lemma del_chans_only : chans_only kv1.
  Proof.
    intros c0 q0 v G.
    destruct (key_dec (KyRow c0 q0)) as [Hd|Hd]; [rewrite (del_yes _ Hd) in G; discriminate|].
    rewrite (del_not _ Hd) in G. eapply (rk_co _ _ R). exact G.
  Qed.

  Lemma del_other c' : c' <> c -> forall k, key_of_chan k c' = true -> kget k kv1 = kget k kv.
  Proof.
    intros Hne k Hk. apply del_not. intro Hd. apply in_deleted_keys in Hd. destruct Hd as [d [_ Hkd]].
    apply in_row_del_keys in Hkd.
    destruct k; cbn [key_of_chan] in Hk; try discriminate; apply N.eqb_eq in Hk; subst;
      try contradiction; destruct Hkd as [Hc _]; congruence.
  Qed.

  Lemma del_sys k : (match k with KyCkpt _ | KyRet _ | KyHist _ _ _ | KyCat _ | KyIdent _ _ => true | _ => false end) = true ->
    kget k kv1 = kget k kv.
  Proof.
    intro Hk. apply del_not. intro Hd. apply in_deleted_keys in Hd. destruct Hd as [d [_ Hkd]].
    apply in_row_del_keys in Hkd. destruct k; try discriminate; contradiction.
  Qed.

  Lemma del_Rchan_other c' : c' <> c -> exists rows0, Rchan kv1 s1 c' rows0.
  Proof.
    intro Hne. destruct (rk_chan _ _ R c') as [rows0 Rc0]. exists rows0.
    apply (Rchan_frame kv kv1 s s1 c' rows0 (rk_wf _ _ R) del_wf); [apply del_other; exact Hne|apply Hs1_other; exact Hne|exact Rc0].
  Qed.
End DeleteRows.

(* ---- writes to the system keys of a channel -------------------------------------------------------------- *)

Definition idx_key (k : key) (c : N) : bool :=
  match k with
  | KyRow c' _ | KyCidx c' _ _ | KyIdem c' _ _ | KySseq c' _ _ | KyRet c' => c' =? c
  | _ => false
  end.

Lemma Rchan_frame_gen kv kv' s s' c rows :
  swf kv -> swf kv' ->
  (forall k, idx_key k c = true -> kget k kv' = kget k kv) ->
  al_rows (as_log s' c) = al_rows (as_log s c) ->
  al_leo (as_log s' c) = al_leo (as_log s c) ->
  al_tpairs (as_log s' c) = al_tpairs (as_log s c) ->
  loadCheckpoint kv' c = al_ck (as_log s' c) ->
  loadHistory kv' c = al_hist (as_log s' c) ->
  Rchan kv s c rows -> Rchan kv' s' c rows.
Proof.
  intros W W' Hk Hr Hl Ht Hck Hh Rc.
  assert (Hrow : forall q, kget (KyRow c q) kv' = kget (KyRow c q) kv) by (intro; apply Hk; cbn; apply N.eqb_refl).
  assert (Hret : loadRetentionState kv' c = loadRetentionState kv c) by (apply loadRet_ext; apply Hk; cbn; apply N.eqb_refl).
  assert (Hget : forall q r, kget (KyRow c q) kv' = Some (VRow r) <-> In r rows /\ r_seq r = q)
    by (intros; rewrite Hrow; apply Rc).
  constructor; rewrite ?Hr, ?Hl.
  - apply Rc.
  - apply Rc.
  - exact Hget.
  - apply Rc.
  - rewrite (recoverLEO_char _ _ _ W' Hget), Hret, <- (recoverLEO_char _ _ _ W (rc_get _ _ _ _ Rc)). apply Rc.
  - apply Rc.
  - rewrite Hret. apply Rc.
  - unfold local_of. rewrite Hret. apply Rc.
  - intros n q. unfold has. rewrite Hk by (cbn; apply N.eqb_refl). apply Rc.
  - intros u q. unfold has. rewrite Hk by (cbn; apply N.eqb_refl). apply Rc.
  - intros n u q i h. rewrite Hk by (cbn; apply N.eqb_refl). apply Rc.
  - intros r Hin Hu Hn Htt. rewrite Hk by (cbn; apply N.eqb_refl). apply Rc; try assumption.
    unfold pair_tainted in *. rewrite <- Ht. exact Htt.
  - exact Hck.
  - exact Hh.
Qed.

(* a batch that writes only checkpoint / history / catalog / identity keys *)
Definition sys_batch (b : kbatch) : Prop :=
  forall k, (match k with KyCkpt _ | KyHist _ _ _ | KyCat _ | KyIdent _ _ => false | _ => true end) = true ->
            forallb (fun o => negb (op_touches key_eqb k o)) b = true.

Lemma keff_sys k b cur : sys_batch b ->
  (match k with KyCkpt _ | KyHist _ _ _ | KyCat _ | KyIdent _ _ => false | _ => true end) = true -> keff k b cur = cur.
Proof. intros Hb Hk. apply batch_effect_untouched. apply Hb. exact Hk. Qed.

Lemma Rkv_sys kv s s' b :
  sys_batch b -> Rkv kv s ->
  as_tids s' = as_tids s ->
  (forall c, al_rows (as_log s' c) = al_rows (as_log s c) /\ al_leo (as_log s' c) = al_leo (as_log s c)
             /\ al_tpairs (as_log s' c) = al_tpairs (as_log s c)
             /\ loadCheckpoint (kapply kv b) c = al_ck (as_log s' c)
             /\ loadHistory (kapply kv b) c = al_hist (as_log s' c)) ->
  Rkv (kapply kv b) s'.
Proof.
  intros Hb R Ht Hc.
  assert (W' : swf (kapply kv b)) by (apply swf_apply; apply R).
  assert (G : forall k, (match k with KyCkpt _ | KyHist _ _ _ | KyCat _ | KyIdent _ _ => false | _ => true end) = true ->
                        kget k (kapply kv b) = kget k kv).
  { intros k Hk. rewrite kget_apply. apply keff_sys; assumption. }
  constructor.
  - exact W'.
  - intro c. destruct (rk_chan _ _ R c) as [rows Rc]. exists rows. destruct (Hc c) as [H1 [H2 [H3 [H4 H5]]]].
    apply (Rchan_frame_gen kv _ s s' c rows (rk_wf _ _ R) W'); try assumption.
    intros k Hk. apply G. destruct k; cbn in Hk |- *; try reflexivity; discriminate.
  - intros i c q Gg. rewrite G in Gg by reflexivity. destruct (rk_gs _ _ R _ _ _ Gg) as [r [Gr Hi]].
    exists r. split; [rewrite G by reflexivity; exact Gr|exact Hi].
  - intros c q r Gr Hnt. rewrite G in Gr by reflexivity. rewrite G by reflexivity. rewrite Ht in Hnt.
    apply (rk_gc _ _ R); assumption.
  - intros c q v Gr. rewrite G in Gr by reflexivity. eapply (rk_co _ _ R). exact Gr.
Qed.
