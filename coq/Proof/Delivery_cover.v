(* Proof/Delivery_cover.v — recipient coverage: owner grouping and batching hand
   every non-suppressed route of a resolved target to exactly one owner batch;
   recipients without a route are reported offline exactly once. *)
From WK Require Import Base.Base Gen.Consts_C31 Model.Delivery Model.Delivery_C31
     Proof.Delivery_local Proof.Delivery_retry.
From Coq Require Import Permutation.
Open Scope N_scope.

(* ------------------------------------------------------------- chunks ---- *)

Lemma chunks_fuel_concat b : (0 < b)%nat -> forall fuel l,
  (length l <= fuel)%nat -> concat (chunks_fuel fuel b l) = l.
Proof.
  intros Hb. induction fuel as [|f IH]; intros l Hl.
  - destruct l; [reflexivity| simpl in Hl; lia].
  - destruct l as [|x l]; [reflexivity|].
    cbn [chunks_fuel concat]. rewrite IH.
    + apply firstn_skipn.
    + rewrite skipn_length. simpl in *. destruct b; [lia|]. simpl. lia.
Qed.

Lemma chunks_concat b l : (0 < b)%nat -> concat (chunks b l) = l.
Proof. intros Hb. unfold chunks. apply chunks_fuel_concat; [exact Hb| lia]. Qed.

Lemma chunks_fuel_nonempty b : (0 < b)%nat -> forall fuel l x,
  In x (chunks_fuel fuel b l) -> x <> [] /\ (length x <= b)%nat.
Proof.
  intros Hb. induction fuel as [|f IH]; intros l x Hx; [contradiction|].
  destruct l as [|y l]; [contradiction|].
  cbn [chunks_fuel] in Hx. destruct Hx as [<-|Hx].
  - split.
    + destruct b; [lia|]. simpl. discriminate.
    + apply firstn_le_length.
  - eapply IH. exact Hx.
Qed.

Lemma chunks_nonempty b l x : (0 < b)%nat -> In x (chunks b l) -> x <> [].
Proof. intros Hb Hx. exact (proj1 (chunks_fuel_nonempty b Hb _ _ _ Hx)). Qed.

Lemma chunks_bounded b l x : (0 < b)%nat -> In x (chunks b l) -> (length x <= b)%nat.
Proof. intros Hb Hx. exact (proj2 (chunks_fuel_nonempty b Hb _ _ _ Hx)). Qed.

Lemma concat_map_filter {A} (f : A -> bool) (ls : list (list A)) :
  concat (map (filter f) ls) = filter f (concat ls).
Proof.
  induction ls as [|l ls IH]; simpl; [reflexivity|]. rewrite filter_app, IH. reflexivity.
Qed.

(* ------------------------------------------------------------- groups ---- *)

Fixpoint g_get (o : N) (g : groups) : list route :=
  match g with
  | [] => []
  | (k, l) :: g' => if k =? o then l else g_get o g'
  end.

Definition g_keys (g : groups) : list N := map fst g.

Lemma g_get_add g r o :
  g_get o (group_add g r) = if r_owner r =? o then g_get o g ++ [r] else g_get o g.
Proof.
  induction g as [|[k l] g IH]; cbn [group_add g_get].
  - destruct (r_owner r =? o); reflexivity.
  - destruct (k =? r_owner r) eqn:Ek.
    + apply N.eqb_eq in Ek. subst k. cbn [g_get]. destruct (r_owner r =? o); reflexivity.
    + cbn [g_get]. destruct (k =? o) eqn:Eo.
      * apply N.eqb_eq in Eo. subst k. rewrite N.eqb_sym in Ek. rewrite Ek. reflexivity.
      * exact IH.
Qed.

Lemma g_keys_add g r o :
  In o (g_keys (group_add g r)) <-> In o (g_keys g) \/ o = r_owner r.
Proof.
  induction g as [|[k l] g IH]; cbn [group_add g_keys map fst].
  - simpl. intuition.
  - destruct (k =? r_owner r) eqn:Ek.
    + apply N.eqb_eq in Ek. subst k. simpl. intuition.
    + simpl. unfold g_keys in IH. rewrite IH. intuition.
Qed.

Lemma g_keys_add_nodup g r : NoDup (g_keys g) -> NoDup (g_keys (group_add g r)).
Proof.
  induction g as [|[k l] g IH]; cbn [group_add g_keys map fst]; intros ND.
  - constructor; [intros []| constructor].
  - destruct (k =? r_owner r) eqn:Ek.
    + exact ND.
    + inversion ND as [|? ? Hn ND']; subst. simpl. constructor.
      * intro H. apply (g_keys_add g r k) in H. destruct H as [H|H]; [exact (Hn H)|].
        subst k. rewrite N.eqb_refl in Ek. discriminate.
      * apply IH. exact ND'.
Qed.

Lemma g_get_notin o g : ~ In o (g_keys g) -> g_get o g = [].
Proof.
  induction g as [|[k l] g IH]; simpl; intros H; [reflexivity|].
  destruct (k =? o) eqn:E; [apply N.eqb_eq in E; subst; exfalso; apply H; left; reflexivity|].
  apply IH. intro H'. apply H. right. exact H'.
Qed.

(* invariant of the grouping loop *)
Record g_inv (ev : event) (g : groups) (seen : list route) : Prop := {
  gi_nodup : NoDup (g_keys g);
  gi_get : forall o, g_get o g = filter (fun r => r_owner r =? o) seen;
  gi_keys : forall o, In o (g_keys g) -> g_get o g <> [] }.

Lemma g_inv_add ev g seen r : g_inv ev g seen -> g_inv ev (group_add g r) (seen ++ [r]).
Proof.
  intros I. constructor.
  - apply g_keys_add_nodup. exact (gi_nodup _ _ _ I).
  - intros o. rewrite g_get_add, filter_app, (gi_get _ _ _ I). simpl.
    destruct (r_owner r =? o); [reflexivity| rewrite app_nil_r; reflexivity].
  - intros o Ho. rewrite g_get_add. apply g_keys_add in Ho.
    destruct (r_owner r =? o) eqn:E.
    + destruct (g_get o g); discriminate.
    + destruct Ho as [Ho|Ho]; [exact (gi_keys _ _ _ I o Ho)|].
      subst o. rewrite N.eqb_refl in E. discriminate.
Qed.

Lemma g_inv_fold ev rs : forall g seen,
  g_inv ev g seen -> g_inv ev (fold_left group_add rs g) (seen ++ rs).
Proof.
  induction rs as [|r rs IH]; intros g seen I; simpl.
  - rewrite app_nil_r. exact I.
  - replace (seen ++ r :: rs) with ((seen ++ [r]) ++ rs) by (rewrite <- app_assoc; reflexivity).
    apply IH. apply g_inv_add. exact I.
Qed.

(* ------------------------------------------- resolve_targets = the pairs ---- *)

Definition offline_of (pairs : list (target * list route)) (out : list bytes) : list bytes :=
  fold_left (fun o tr => appendOfflineUIDs o (t_recips (fst tr)) (snd tr)) pairs out.

Lemma resolve_targets_spec track ev : forall ts ans a seen,
  g_inv ev (rs_groups a) seen ->
  let r := resolve_targets track ev ts ans a in
  g_inv ev (rs_groups r) (seen ++ expected_routes ev (resolved_pairs ts ans))
  /\ rs_offline r = (if track then offline_of (resolved_pairs ts ans) (rs_offline a) else rs_offline a).
Proof.
  induction ts as [|t ts IH]; intros ans a seen I; cbn [resolve_targets resolved_pairs].
  - unfold expected_routes. simpl. rewrite app_nil_r. split; [exact I|]. destruct track; reflexivity.
  - destruct ans as [|[|rs] ans].
    + (* every later target misses its result too *)
      assert (G : forall ts a, rs_groups (resolve_targets track ev ts [] a) = rs_groups a
                               /\ rs_offline (resolve_targets track ev ts [] a) = rs_offline a).
      { clear. induction ts as [|t ts IH]; intros a; cbn [resolve_targets]; [auto|].
        destruct (IH (set_err a 2)) as [A B]. rewrite A, B. auto. }
      destruct (G ts (set_err a 2)) as [A B]. cbn zeta. rewrite A, B.
      unfold expected_routes. simpl. rewrite app_nil_r. split; [exact I|]. destruct track; reflexivity.
    + apply (IH ans (set_err a 3) seen). exact I.
    + cbn zeta.
      set (a' := Res (rs_err a) (if track then appendOfflineUIDs (rs_offline a) (t_recips t) rs else rs_offline a)
                     (fold_left group_add (filter (keep_route ev) rs) (rs_groups a))).
      destruct (IH ans a' (seen ++ filter (keep_route ev) rs)) as [A B].
      { unfold a'. cbn [rs_groups]. apply g_inv_fold. exact I. }
      cbn zeta in A, B. split.
      * unfold expected_routes in *. cbn [map snd concat]. rewrite filter_app, app_assoc. exact A.
      * rewrite B. unfold a'. cbn [rs_offline]. destruct track; reflexivity.
Qed.

(* ------------------------------------------------------------ offline ---- *)

Lemma mem_bytes_in u l : mem_bytes u l = true <-> In u l.
Proof.
  unfold mem_bytes. rewrite existsb_exists. split.
  - intros (x & Hx & E). apply bytes_eqb_eq in E. subst. exact Hx.
  - intros H. exists u. split; [exact H| apply bytes_eqb_eq; reflexivity].
Qed.

Lemma mem_bytes_app u a b : mem_bytes u (a ++ b) = mem_bytes u a || mem_bytes u b.
Proof. unfold mem_bytes. apply existsb_app. Qed.

Lemma nodup_bytes_snoc l u : nodup_bytes l = true -> mem_bytes u l = false -> nodup_bytes (l ++ [u]) = true.
Proof.
  induction l as [|x l IH]; simpl; intros ND Hm; [reflexivity|].
  apply andb_true_iff in ND. destruct ND as [N1 N2].
  apply orb_false_iff in Hm. destruct Hm as [M1 M2].
  rewrite mem_bytes_app, IH by assumption. apply negb_true_iff in N1. rewrite N1. simpl.
  assert (E : bytes_eqb x u = false).
  { destruct (bytes_eqb x u) eqn:E; [|reflexivity]. apply bytes_eqb_eq in E. subst.
    assert (bytes_eqb u u = true) by (apply bytes_eqb_eq; reflexivity). congruence. }
  rewrite E. reflexivity.
Qed.

Lemma append_offline_spec recips rs : forall out,
  nodup_bytes out = true ->
  let r := appendOfflineUIDs out recips rs in
  nodup_bytes r = true
  /\ (forall u, In u r <-> In u out \/ (In u recips /\ has_route_for u rs = false)).
Proof.
  induction recips as [|x recips IH]; intros out ND; cbn [appendOfflineUIDs].
  - split; [exact ND|]. intros u. simpl. tauto.
  - destruct (has_route_for x rs) eqn:Hr.
    + destruct (IH out ND) as [A B]. split; [exact A|]. intros u. rewrite (B u). simpl.
      split; [tauto|]. intros [H|[[->|H] H2]]; [tauto| congruence| tauto].
    + destruct (mem_bytes x out) eqn:Hm.
      * destruct (IH out ND) as [A B]. split; [exact A|]. intros u. rewrite (B u). simpl.
        apply mem_bytes_in in Hm. split; [tauto|]. intros [H|[[->|H] H2]]; tauto.
      * destruct (IH (out ++ [x]) (nodup_bytes_snoc _ _ ND Hm)) as [A B]. split; [exact A|].
        intros u. rewrite (B u), in_app_iff. simpl. split.
        -- intros [[H|[->|[]]]|H]; tauto.
        -- intros [H|[[->|H] H2]]; tauto.
Qed.

Lemma offline_of_spec pairs : forall out,
  nodup_bytes out = true ->
  nodup_bytes (offline_of pairs out) = true
  /\ (forall u, In u (offline_of pairs out) <-> In u out \/ offline_spec pairs u = true).
Proof.
  induction pairs as [|[t rs] pairs IH]; intros out ND; cbn [offline_of fold_left].
  - split; [exact ND|]. intros u. unfold offline_spec. simpl. intuition discriminate.
  - destruct (append_offline_spec (t_recips t) rs out ND) as [A B]. cbn zeta in A, B.
    destruct (IH _ A) as [C D]. split; [exact C|]. intros u.
    unfold offline_of in D. cbn [fst snd]. rewrite (D u), (B u).
    unfold offline_spec. cbn [existsb fst snd]. rewrite orb_true_iff, andb_true_iff, negb_true_iff, mem_bytes_in.
    tauto.
Qed.

Lemma offline_spec_recip pairs u : offline_spec pairs u = true -> In u (all_recips pairs).
Proof.
  unfold offline_spec, all_recips. rewrite existsb_exists. intros ([t rs] & Hin & H).
  apply andb_true_iff in H. destruct H as [H _]. apply mem_bytes_in in H.
  apply in_concat. exists (t_recips t). split; [|exact H].
  apply in_map_iff. exists (t, rs). auto.
Qed.

(* c31_offline_once *)
Lemma offline_ok_model track pairs :
  offline_ok track pairs
    (let l := (if track then offline_of pairs [] else []) in
     if track && negb (is_nil l) then [l] else []) = true.
Proof.
  destruct track; cbn [andb].
  2:{ reflexivity. }
  destruct (offline_of_spec pairs [] eq_refl) as [ND Hin].
  destruct (offline_of pairs []) as [|x l] eqn:E; cbn [is_nil negb offline_ok].
  - cbn [negb orb]. apply negb_true_iff. apply not_true_iff_false. intro H.
    apply existsb_exists in H. destruct H as (u & _ & Hu).
    destruct (proj2 (Hin u) (or_intror Hu)).
  - cbn [andb]. rewrite ND. cbn [andb].
    apply andb_true_iff. split.
    + apply forallb_forall. intros u Hu. apply Hin in Hu. destruct Hu as [[]|Hu]. exact Hu.
    + apply forallb_forall. intros u _. destruct (offline_spec pairs u) eqn:Hs; [|reflexivity].
      cbn [negb orb]. apply mem_bytes_in. apply Hin. right. exact Hs.
Qed.
