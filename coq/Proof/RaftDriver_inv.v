(* Proof/RaftDriver_inv.v — C12: the invariant of the driver model and its
   preservation by every micro-operation that is "valid" in its state.  The
   validity conditions are discharged for the op lists of every step in
   Proof/RaftDriver_steps.v from the library hypotheses (SMS). *)
From WK Require Import Base.Base Model.RaftDriver Proof.RaftDriver_lists Proof.RaftDriver_exec.
From Coq Require Import Sorted ZifyBool ZifyN ZifyNat.
Open Scope N_scope.

Definition applied_tr (tr : list event) : list entry := flat_map applied_of_event tr.

Lemma applied_tr_app a b : applied_tr (a ++ b) = applied_tr a ++ applied_tr b.
Proof. unfold applied_tr. apply flat_map_app. Qed.

Definition dur_of (s : node) : dur := mkDur (d_log s) (d_hs s) (d_snap s).

Section Inv.

Variable clog : N -> entry.
Hypothesis clog_idx : forall i, e_idx (clog i) = i.

(* the entries applied "elsewhere" (by the replicas that produced the snapshots this node receives) *)
Variable GS : entry -> Prop.
(* what is assumed about the entries a Ready asks to persist when futures are waiting (used by the
   future theorems only; True for the others) *)
Variable TrackHyp : node -> list entry -> Prop.

Notation centries := (centries clog).
Notation clean := (clean clog).
Notation sound := (sound clog).
Notation complete := (complete clog).
Notation call_ok := (call_ok clog).
Notation calls_ok := (calls_ok clog).

Definition snap_good (i : N) (c : list entry) : Prop :=
  0 < i /\ sorted c /\ sound c 0 i /\ complete c 0 i.

Definition known (s : node) (e : entry) : Prop := In e (applied_tr (n_tr s)) \/ GS e.

(* the library never rewrites what it has declared committed, and the commit index never goes back *)
Definition save_stable (s : node) (hs : option hardstate) (ents : list entry) : Prop :=
  (forall h, hs = Some h -> hs_commit (d_hs s) <= hs_commit h)
  /\ (forall e, In e ents -> hs_commit (d_hs s) < e_idx e).

Definition mop_valid (o : mop) (s : node) : Prop :=
  match o with
  | OSave hs ents snap =>
      save_stable s hs ents
      /\ match snap with
         | Some (i, _, c) => snap_good i c /\ (forall e, In e c -> GS e)
         | None => True
         end
  | OTrack ents => TrackHyp s ents
  | OSend ms => forallb (msg_ok (dur_of s)) ms = true
  | ORestore i c =>
      snap_good i c /\ (d_snap s = 0 -> d_applied s <= i) /\ v_applied s <= i
      /\ (forall e, In e c -> known s e)
  | OCall ents => call_ok (g_pos s) ents /\ forallb (applied_ok (dur_of s)) ents = true
  | OMarkApplied index => clean (g_pos s) index /\ (v_applied s < index -> sm_idx s <= index)
  | OResolve ents => forall e, In e ents -> e = clog (e_idx e) /\ In e (applied_tr (n_tr s))
  | OCompactMark i => i <= g_pos s
  | OCompactSave i => i = g_pos s /\ 0 < i
  | _ => True
  end.

Fixpoint valid_seq (ops : list mop) (s : node) : Prop :=
  match ops with
  | [] => True
  | o :: r => (live s -> mop_valid o s) /\ valid_seq r (exec o s)
  end.

Lemma valid_seq_app a b s : valid_seq (a ++ b) s <-> valid_seq a s /\ valid_seq b (exec_all a s).
Proof.
  revert s. induction a as [|o a IH]; intro s; cbn [app valid_seq].
  - rewrite exec_all_nil. tauto.
  - rewrite exec_all_cons, IH. tauto.
Qed.

Lemma valid_seq_firstn k ops s : valid_seq ops s -> valid_seq (firstn k ops) s.
Proof.
  revert ops s. induction k as [|k IH]; intros ops s H; [exact I|].
  destruct ops as [|o r]; [exact I|]. cbn [firstn valid_seq] in *. split; [apply H | apply IH, H].
Qed.

Lemma valid_seq_dead ops s : ~ live s -> valid_seq ops s.
Proof.
  revert s. induction ops as [|o r IH]; intros s H; [exact I|]. cbn [valid_seq]. split.
  - intro L. contradiction.
  - rewrite exec_dead by exact H. apply IH, H.
Qed.

(* ---- the invariant ------------------------------------------------------------------------- *)

Record INV (s : node) : Prop := mkINV {
  i_durable : durable_sm s = true;
  i_sorted : sorted (sm_hist s);
  i_sound : sound (sm_hist s) 0 (sm_idx s);
  i_complete : complete (sm_hist s) 0 (g_pos s);
  i_smpos : sm_idx s <= g_pos s;
  i_dapplied : d_snap s = 0 -> d_applied s <= g_pos s;
  i_vapplied : v_applied s <= g_pos s;
  i_snap : d_snap s <> 0 -> snap_good (d_snap s) (d_snapc s);
  (* every command the state machine holds, and every command its stored snapshot holds, has been
     handed to a state machine by this replica or by the ones that produced the snapshots it received *)
  i_hist_known : forall e, In e (sm_hist s) -> known s e;
  i_snap_known : forall e, In e (d_snapc s) -> known s e;
  (* everything this replica handed to its state machine is the committed entry of its index, a command *)
  i_applied_sound : forall e, In e (applied_tr (n_tr s)) -> e = clog (e_idx e) /\ is_normal e = true /\ 0 < e_idx e
}.

Lemma known_mono s s' e :
  (forall x, In x (applied_tr (n_tr s)) -> In x (applied_tr (n_tr s'))) -> known s e -> known s' e.
Proof. intros H [A|B]; [left; apply H, A | right; exact B]. Qed.

Lemma INV_same_core s s' : same_core s s' -> INV s -> INV s'.
Proof.
  unfold same_core.
  intros (Edur & Elog & Ehs & Esnap & Esnapc & Eapp & Esmi & Esmh & Eup & Efail & Eapplying & Evapp & Eq & Epos & Etr) I.
  destruct I. constructor; unfold known in *.
  - rewrite Edur. assumption.
  - rewrite Esmh. assumption.
  - rewrite Esmh, Esmi. assumption.
  - rewrite Esmh, Epos. assumption.
  - rewrite Esmi, Epos. assumption.
  - rewrite Esnap, Eapp, Epos. assumption.
  - rewrite Evapp, Epos. assumption.
  - rewrite Esnap, Esnapc. assumption.
  - rewrite Esmh, Etr. assumption.
  - rewrite Esnapc, Etr. assumption.
  - rewrite Etr. assumption.
Qed.

Lemma call_ok_first_gt p c e : call_ok p c -> In e c -> p < e_idx e.
Proof. intros (_ & _ & Hsd & _) He. destruct (Hsd e He) as (_ & _ & H). lia. Qed.

Lemma INV_exec o s : INV s -> live s -> mop_valid o s -> INV (exec o s) /\ live (exec o s).
Proof.
  intros I L V. destruct o as [hs ents snap| | | | | | | | | | | |].
  { (* OSave *)
    destruct (exec_save_live hs ents snap s L) as [(_ & _ & _ & E)|E]; rewrite E; [split; assumption|].
    destruct I. cbn [mop_valid] in V. destruct V as [_ V]. unfold save_body.
    destruct snap as [[[i t] c]|]; cbn zeta.
    + destruct V as [Vg Vk]. split; [|exact L]. constructor; nsimpl; unfold known in *; nsimpl; try assumption.
      * intro. destruct Vg as [G0 _]. lia.
      * intros _. exact Vg.
      * intros e He. rewrite applied_tr_app. cbn. rewrite app_nil_r.
        destruct (i_hist_known0 e He) as [A|B]; [left; exact A | right; exact B].
      * intros e He. right. apply Vk, He.
      * intros e He. rewrite applied_tr_app in He. cbn in He. rewrite app_nil_r in He. apply i_applied_sound0, He.
    + split; [|exact L]. constructor; nsimpl; unfold known in *; nsimpl; try assumption.
      * intros e He. rewrite applied_tr_app. cbn. rewrite app_nil_r. apply i_hist_known0, He.
      * intros e He. rewrite applied_tr_app. cbn. rewrite app_nil_r. apply i_snap_known0, He.
      * intros e He. rewrite applied_tr_app in He. cbn in He. rewrite app_nil_r in He. apply i_applied_sound0, He. }
  all: rewrite (exec_live _ s L); destruct I; cbn [mop_valid] in V.
  - (* OTrack *)
    pose proof (track_core ents s) as C.
    split; [eapply INV_same_core; [exact C | constructor; assumption] | eapply same_core_live; [exact C | exact L]].
  - (* OSend *)
    destruct ms as [|m ms]; [split; [constructor; assumption | exact L]|].
    split; [|exact L]. constructor; nsimpl; unfold known in *; nsimpl; try assumption.
    + intros e He. rewrite applied_tr_app. cbn. rewrite app_nil_r. apply i_hist_known0, He.
    + intros e He. rewrite applied_tr_app. cbn. rewrite app_nil_r. apply i_snap_known0, He.
    + intros e He. rewrite applied_tr_app in He. cbn in He. rewrite app_nil_r in He. apply i_applied_sound0, He.
  - (* ORestore *)
    destruct V as ((G0 & Gs & Gsd & Gc) & Vd & Va & Vk).
    split; [|exact L]. constructor; nsimpl; unfold known in *; nsimpl; try assumption; try lia.
    + intros e He. rewrite applied_tr_app. cbn. rewrite app_nil_r. apply Vk, He.
    + intros e He. rewrite applied_tr_app. cbn. rewrite app_nil_r. apply i_snap_known0, He.
    + intros e He. rewrite applied_tr_app in He. cbn in He. rewrite app_nil_r in He. apply i_applied_sound0, He.
  - (* OCall *)
    destruct V as [V _].
    pose proof (call_ok_last_gt clog clog_idx _ _ V) as Hgt.
    destruct V as (Hne & Hs & Hsd & Hc).
    assert (Hla : lastApplied ents (sm_idx s) = lastApplied ents (g_pos s)) by (apply lastApplied_default; exact Hne).
    split; [|exact L]. constructor; nsimpl; unfold known in *; nsimpl; try assumption; rewrite ?Hla.
    + apply sorted_app; [exact i_sorted0 | exact Hs|].
      intros a b Ha Hb. destruct (i_sound0 a Ha) as (_ & _ & A). destruct (Hsd b Hb) as (_ & _ & B). lia.
    + intros e He. apply in_app_or in He. destruct He as [He|He].
      * destruct (i_sound0 e He) as (A & B & C). split; [exact A|]. split; [exact B|]. lia.
      * destruct (Hsd e He) as (A & B & C). split; [exact A|]. split; [exact B|]. lia.
    + replace (N.max (g_pos s) (lastApplied ents (g_pos s))) with (lastApplied ents (g_pos s)) by lia.
      intros i Hi Hn. apply in_or_app. destruct (N.le_gt_cases i (g_pos s)).
      * left. apply i_complete0; [lia | exact Hn].
      * right. apply Hc; [lia | exact Hn].
    + lia.
    + intro Z. specialize (i_dapplied0 Z). lia.
    + lia.
    + intros e He. rewrite applied_tr_app. cbn. rewrite app_nil_r.
      apply in_app_or in He. destruct He as [He|He].
      * destruct (i_hist_known0 e He) as [A|B]; [left; apply in_or_app; left; exact A | right; exact B].
      * left. apply in_or_app. right. exact He.
    + intros e He. rewrite applied_tr_app. cbn. rewrite app_nil_r.
      destruct (i_snap_known0 e He) as [A|B]; [left; apply in_or_app; left; exact A | right; exact B].
    + intros e He. rewrite applied_tr_app in He. cbn in He. rewrite app_nil_r in He.
      apply in_app_or in He. destruct He as [He|He]; [apply i_applied_sound0, He|].
      destruct (Hsd e He) as (A & B & C). split; [exact A|]. split; [exact B | lia].
  - (* OMarkApplied *)
    destruct V as [Vc Vs].
    destruct (index <=? v_applied s) eqn:Eg; [split; [constructor; assumption | exact L]|].
    apply N.leb_gt in Eg. specialize (Vs Eg).
    unfold markApplied. rewrite i_durable0.
    replace (index <? sm_idx s) with false by (symmetry; apply N.ltb_ge; exact Vs).
    assert (Hcomp : complete (sm_hist s) 0 (N.max (g_pos s) index)).
    { destruct (N.le_gt_cases index (g_pos s)).
      - replace (N.max (g_pos s) index) with (g_pos s) by lia. exact i_complete0.
      - replace (N.max (g_pos s) index) with index by lia.
        eapply (complete_extend clog clog_idx); [exact i_complete0 | exact Vc]. }
    destruct (sm_idx s =? index) eqn:Es.
    + split; [|destruct L as [A B]; split; nsimpl; assumption].
      constructor; nsimpl; unfold known in *; nsimpl; try assumption; try lia.
    + split; [|destruct L as [A B]; split; nsimpl; assumption].
      constructor; nsimpl; unfold known in *; nsimpl; try assumption; try lia.
      * intros e He. rewrite applied_tr_app. cbn. rewrite app_nil_r. apply i_hist_known0, He.
      * intros e He. rewrite applied_tr_app. cbn. rewrite app_nil_r. apply i_snap_known0, He.
      * intros e He. rewrite applied_tr_app in He. cbn in He. rewrite app_nil_r in He. apply i_applied_sound0, He.
  - (* OResolve *)
    pose proof (completeResolutions_core ents s) as C.
    split; [eapply INV_same_core; [exact C | constructor; assumption] | eapply same_core_live; [exact C | exact L]].
  - (* OEnqueue *)
    split; [|destruct L as [A B]; split; nsimpl; assumption].
    constructor; nsimpl; unfold known in *; nsimpl; assumption.
  - (* ODequeue *)
    split; [|destruct L as [A B]; split; nsimpl; assumption].
    constructor; nsimpl; unfold known in *; nsimpl; assumption.
  - (* OAccept *)
    split; [|destruct L as [A B]; split; nsimpl; assumption].
    constructor; nsimpl; unfold known in *; nsimpl; assumption.
  - (* ORefresh *)
    pose proof (refreshStatus_core leader s) as C.
    split; [eapply INV_same_core; [exact C | constructor; assumption] | eapply same_core_live; [exact C | exact L]].
  - (* OCompactMark *)
    rewrite i_durable0. split; [|exact L].
    constructor; nsimpl; unfold known in *; nsimpl; try assumption.
    + intros _. exact V.
    + intros e He. rewrite applied_tr_app. cbn. rewrite app_nil_r. apply i_hist_known0, He.
    + intros e He. rewrite applied_tr_app. cbn. rewrite app_nil_r. apply i_snap_known0, He.
    + intros e He. rewrite applied_tr_app in He. cbn in He. rewrite app_nil_r in He. apply i_applied_sound0, He.
  - (* OCompactSave *)
    destruct V as [-> V0]. split; [|exact L].
    constructor; nsimpl; unfold known in *; nsimpl; try assumption.
    + intro. lia.
    + intros _. split; [exact V0|]. split; [exact i_sorted0|]. split; [|exact i_complete0].
      intros e He. destruct (i_sound0 e He) as (A & B & C). split; [exact A|]. split; [exact B|]. lia.
    + intros e He. rewrite applied_tr_app. cbn. rewrite app_nil_r. apply i_hist_known0, He.
    + intros e He. rewrite applied_tr_app. cbn. rewrite app_nil_r. apply i_hist_known0, He.
    + intros e He. rewrite applied_tr_app in He. cbn in He. rewrite app_nil_r in He. apply i_applied_sound0, He.
Qed.

Lemma INV_exec_any o s : INV s -> (live s -> mop_valid o s) -> INV (exec o s).
Proof.
  intros I V. destruct (live_dec s) as [L|D].
  - apply INV_exec; [exact I | exact L | apply V, L].
  - rewrite exec_dead by exact D. exact I.
Qed.

Lemma INV_exec_all ops : forall s, INV s -> valid_seq ops s -> INV (exec_all ops s).
Proof.
  induction ops as [|o r IH]; intros s I V; [exact I|].
  cbn [valid_seq] in V. destruct V as [V1 V2]. rewrite exec_all_cons. apply IH; [|exact V2].
  apply INV_exec_any; assumption.
Qed.

Lemma live_exec_all ops : forall s, INV s -> live s -> valid_seq ops s -> live (exec_all ops s).
Proof.
  induction ops as [|o r IH]; intros s I L V; [exact L|].
  cbn [valid_seq] in V. destruct V as [V1 V2]. rewrite exec_all_cons.
  destruct (INV_exec o s I L (V1 L)) as [I' L']. apply IH; assumption.
Qed.

End Inv.
