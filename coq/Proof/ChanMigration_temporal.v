(* Proof/ChanMigration_temporal.v — the temporal reading of "a committed or promoted task can no
   longer be aborted", under executor discipline, over histories of one-command batches. *)
From WK Require Import Base.Base.
From WK Require Import Gen.Consts_C15 Gen.Consts_C17 Model.RuntimeMeta Model.ChanMigration Model.ChanMigration_C17.
From WK Require Import Proof.RuntimeMeta Proof.ChanMigration Proof.ChanMigration_cmds Proof.ChanMigration_inv
                       Proof.ChanMigration_step Proof.ChanMigration_meta Proof.ChanMigration_trace
                       Proof.ChanMigration_monitor Proof.ChanMigration_link.
Open Scope N_scope.

(* the cutover of the task is done: it is in a post-commit / post-promote phase, and it is not the
   embedded leader-transfer leg of a replica replacement (which legitimately continues with
   AddLearner and may then still be aborted) *)
Definition cutover_locked (t : task) : bool :=
  post_commit_phase (t_phase t)
  && negb ((t_kind t =? KindReplicaReplace) && t_embedded_leader_transfer t && (t_phase t =? PhaseVerifyNewLeader)).

Lemma locked_post t : cutover_locked t = true -> post_commit_phase (t_phase t) = true.
Proof. unfold cutover_locked. intro H. apply andb_prop in H. tauto. Qed.

Lemma locked_same t t' :
  t_kind t' = t_kind t -> t_phase t' = t_phase t -> t_embedded_leader_transfer t' = t_embedded_leader_transfer t ->
  cutover_locked t' = cutover_locked t.
Proof. intros A B C. unfold cutover_locked. rewrite A, B, C. reflexivity. Qed.

(* one disciplined step keeps a locked task locked (or garbage-collects a terminal row) *)
Theorem locked_step d c k t :
  db_inv d -> disciplined d c ->
  task_get (db_tasks d) k = Some t -> cutover_locked t = true ->
  match task_get (db_tasks (fst (apply_one d c))) k with
  | None => True
  | Some t' => cutover_locked t' = true
  end.
Proof.
  intros I Dz G L. pose proof (locked_post _ L) as P.
  destruct (accepted (snd (apply_one d c))) eqn:A.
  2:{ rewrite (not_accepted_same d c A), G. exact L. }
  pose proof (accepted_eq d c A) as E.
  destruct (step_row_change d c (fst (apply_one d c)) k I E)
    as [S|t0 Hc Hk Hn Hg|g t0 next Hg Hca Hk Hp Hm Hu Hn|h t0 m nt nm Hh Hk Hp Hm Hg Hr Hu Ht0 Hn|b l t0 Hc Hp Ht0 Hn].
  - rewrite S, G. exact L.
  - rewrite G in Hn. discriminate.
  - rewrite Hn. rewrite G in Hp. inversion Hp; subst t0.
    destruct (Dz k t) as [_ Dn]; [rewrite (claim_key _ _ Hca Hg), Hk; reflexivity|exact G|exact P|].
    destruct (Dn next Hca Hu) as [D1 D2].
    pose proof (mutate_task_identity _ _ _ Hu) as (_ & Kk & _).
    rewrite (locked_same t next Kk D1 D2). exact L.
  - rewrite Hn. rewrite G in Hp. inversion Hp; subst t0.
    pose proof (mutate_task_meta_identity _ _ _ _ _ Hu) as (_ & Kk & _).
    destruct (taskmeta_from_post _ _ _ _ _ Hu P) as [Rs|[(Pc & Na & [[S1 S2]|S3])|(Lc & L1 & L2 & L3 & L4 & L5)]].
    + destruct (Dz k t) as [Dr _]; [rewrite (trans_key _ _ Hh), Hk; reflexivity|exact G|exact P|].
      rewrite Rs in Dr. discriminate.
    + rewrite (locked_same t nt Kk S1 S2). exact L.
    + unfold cutover_locked. rewrite Pc, S3. cbn [andb]. rewrite andb_false_r. reflexivity.
    + unfold cutover_locked in L. rewrite L1, L2, L3 in L. rewrite andb_false_r in L. discriminate.
  - rewrite Hn. exact Logic.I.
Qed.

(* an AbortChannelMigration aimed at a task that is in a post-commit phase is never accepted *)
Theorem abort_not_accepted d c k t :
  task_get (db_tasks d) k = Some t -> post_commit_phase (t_phase t) = true ->
  is_abort c = true -> cmd_key c = Some k ->
  accepted (snd (apply_one d c)) = false.
Proof.
  intros G P Ab Ck. destruct (accepted (snd (apply_one d c))) eqn:A; [|reflexivity].
  exfalso. pose proof (accepted_eq d c A) as E.
  destruct (accepted_run _ _ _ E) as (_ & cs & R & _).
  destruct c; try discriminate Ab. cbn [ops_of run_ops run_op] in R.
  match type of R with match ?y with _ => _ end = _ => destruct y as [cs1|e] eqn:S; [|discriminate] end.
  destruct (taskmeta_accepted _ _ h _ S eq_refl) as (t1 & m & nt & nm & G1 & Gm & Mu & _).
  cbn [cmd_key cmd_tguard] in Ck. inversion Ck as [Kk]. rewrite Kk, G in G1. inversion G1; subst t1.
  cbn [mutate_task_meta] in Mu. apply mutAbort_ok in Mu. destruct Mu as [_ Q]. congruence.
Qed.

(* along the history, while the row of key [k] is there, no AbortChannelMigration on it is accepted *)
Fixpoint no_abort_while_present (d : db) (k : tkey) (cs : list cmd) : Prop :=
  match cs with
  | [] => True
  | c :: r =>
    match task_get (db_tasks d) k with
    | None => True
    | Some _ =>
      (is_abort c = true -> cmd_key c = Some k -> accepted (snd (apply_one d c)) = false)
      /\ no_abort_while_present (fst (apply_one d c)) k r
    end
  end.

(* THEOREM c17_no_abort_after_commit_partial: in a history of one-command batches that respects
   executor discipline (no Reset on, and no phase / embedded-flag change by Claim/Advance of, a task
   in a post-commit phase), once a task's cutover is done no AbortChannelMigration on it is ever
   accepted for as long as its row exists. *)
Theorem no_abort_after_commit cs : forall d k t,
  db_inv d -> history_disciplined d cs ->
  task_get (db_tasks d) k = Some t -> cutover_locked t = true ->
  no_abort_while_present d k cs.
Proof.
  induction cs as [|c r IH]; intros d k t I Dz G L; cbn [no_abort_while_present]; [exact Logic.I|].
  rewrite G. destruct Dz as [Dc Dr]. split.
  - intros Ab Ck. eapply abort_not_accepted; eauto. apply locked_post. exact L.
  - pose proof (locked_step d c k t I Dc G L) as Ls.
    destruct (task_get (db_tasks (fst (apply_one d c))) k) as [t'|] eqn:G'.
    + apply (IH _ k t'); auto.
      destruct (apply_one d c) as [d1 x1] eqn:E. cbn [fst]. eapply apply_one_inv; eauto.
    + destruct r as [|c2 r2]; cbn [no_abort_while_present]; [exact Logic.I|]. rewrite G'. exact Logic.I.
Qed.
