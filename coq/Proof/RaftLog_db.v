(* Proof/RaftLog_db.v — the whole database: all scopes at once, the group write
   worker (one Pebble batch for the requests of several scopes), refused
   commits, reopen. *)
From WK Require Import Base.Base Gen.Consts_C14 Model.RaftLog
     Proof.RaftLog_lists Proof.RaftLog_ref Proof.RaftLog_pebble Proof.RaftLog_ops.
From Coq Require Import ZifyBool ZifyN ZifyNat.
Open Scope N_scope.

(* ---- association lists *)

Lemma aget_fold_aset {A B} (key : B -> N) (val : B -> A) (l : list B) (init : list (N * A)) (k : N) :
  NoDup (map key l) ->
  aget k (fold_left (fun acc p => aset (key p) (val p) acc) l init) =
  match find (fun p => key p =? k) l with
  | Some p => Some (val p)
  | None => aget k init
  end.
Proof.
  revert init. induction l as [|p l IH]; intros init Hnd; [reflexivity|].
  cbn [map] in Hnd. inversion Hnd as [|? ? Hni Hnd']; subst.
  cbn [fold_left find]. rewrite (IH _ Hnd').
  destruct (key p =? k) eqn:E.
  - assert (Hk : key p = k) by lia. subst k.
    assert (Hf : find (fun p0 => key p0 =? key p) l = None).
    { destruct (find (fun p0 => key p0 =? key p) l) as [p0|] eqn:Ef; [|reflexivity].
      apply find_some in Ef. destruct Ef as [Hin He]. exfalso. apply Hni.
      apply in_map_iff. exists p0. split; [lia|assumption]. }
    rewrite Hf. apply aget_aset_same.
  - destruct (find (fun p0 => key p0 =? k) l); [reflexivity|].
    apply aget_aset_other. lia.
Qed.

Lemma aset_keys_nodup {A} k (v : A) l : NoDup (map fst l) -> NoDup (map fst (aset k v l)).
Proof.
  induction l as [|[k' v'] l IH]; intro H; cbn [aset].
  - constructor; [intros []|constructor].
  - cbn [map fst] in H. inversion H as [|? ? Hni Hnd]; subst.
    destruct (k' =? k) eqn:E.
    + cbn [map fst]. assert (k' = k) by lia. subst k'. constructor; assumption.
    + cbn [map fst]. constructor; [|apply IH; assumption].
      intro Hin. apply Hni. clear - Hin E.
      induction l as [|[k2 v2] l IH]; cbn [aset map fst] in *.
      * destruct Hin as [Hin|[]]. lia.
      * destruct (k2 =? k) eqn:E2; cbn [map fst] in Hin.
        -- destruct Hin as [Hin|Hin]; [lia|right; assumption].
        -- destruct Hin as [Hin|Hin]; [left; assumption|right; apply IH; assumption].
Qed.

Lemma aget_none_not_key {A} k (l : list (N * A)) : aget k l = None <-> ~ In k (map fst l).
Proof.
  induction l as [|[k' v] l IH]; cbn [aget map fst].
  - split; [intros _ []|reflexivity].
  - destruct (k' =? k) eqn:E.
    + split; [discriminate|]. intro H. exfalso. apply H. left. lia.
    + rewrite IH. split; intro H.
      * intros [Hk|Hk]; [lia|apply H; assumption].
      * intro Hk. apply H. right. assumption.
Qed.

Lemma aget_publish lc cache k :
  NoDup (map fst lc) ->
  aget k (publish_cache lc cache) = match aget k lc with Some w => Some w | None => aget k cache end.
Proof.
  intro Hnd. unfold publish_cache. rewrite (aget_fold_aset fst snd lc cache k Hnd).
  clear Hnd. induction lc as [|[k' v] lc IH]; [reflexivity|].
  cbn [find aget fst snd]. destruct (k' =? k); [reflexivity|exact IH].
Qed.

(* ---- batches and scopes *)

Lemma apply_batch_app kv b1 b2 : apply_batch kv (b1 ++ b2) = apply_batch (apply_batch kv b1) b2.
Proof. unfold apply_batch. apply fold_left_app. Qed.

Lemma apply_batch_other kv b sc :
  Forall (fun x => bop_scope x <> sc) b -> rows_of sc (apply_batch kv b) = rows_of sc kv.
Proof.
  revert kv. induction b as [|x b IH]; intros kv H; [reflexivity|].
  inversion H; subst. unfold apply_batch in *. cbn [fold_left]. rewrite IH by assumption.
  unfold apply_bop. apply rows_of_aset_other. congruence.
Qed.

Lemma apply_batch_scope kv b sc :
  Forall (fun x => bop_scope x = sc) b ->
  rows_of sc (apply_batch kv b) = fold_left apply_bop_rows b (rows_of sc kv).
Proof.
  revert kv. induction b as [|x b IH]; intros kv H; [reflexivity|].
  inversion H as [|? ? Hx Hb]; subst. unfold apply_batch in *. cbn [fold_left]. rewrite IH by assumption.
  unfold apply_bop. rewrite rows_of_aset_same. reflexivity.
Qed.

(* ---- the global invariant *)

Definition ref_of (sc : N) (rs : list (N * rstate)) : rstate :=
  match aget sc rs with Some r => r | None => rstate0 end.

Definition ScopeInv (c : cstate) (sc : N) (r : rstate) : Prop :=
  wf r
  /\ RowsInv (c_files c) (c_next c) (rows_of sc (c_kv c)) r
  /\ (forall w, aget sc (c_cache c) = Some w ->
                exists cs, ref_conf r = Some cs /\ w = canon_w (rows_of sc (c_kv c)) r cs).

Definition Inv (c : cstate) (rs : list (N * rstate)) : Prop :=
  forall sc, ScopeInv c sc (ref_of sc rs).

Lemma Inv_init : Inv cstate0 [].
Proof.
  intro sc. unfold ScopeInv, ref_of. cbn [aget cstate0 c_kv c_files c_next c_cache].
  split; [apply wf_rstate0|]. split; [apply RowsInv_rows0|]. intros w H. discriminate.
Qed.

(* published snapshot directories only accumulate *)
Definition files_mono (c c' : cstate) : Prop :=
  forall ks s, snap_rel (c_files c) (c_next c) ks s -> snap_rel (c_files c') (c_next c') ks s.

Lemma files_mono_refl c : files_mono c c.
Proof. intros ks s H. exact H. Qed.
Lemma files_mono_trans c1 c2 c3 : files_mono c1 c2 -> files_mono c2 c3 -> files_mono c1 c3.
Proof. intros H1 H2 ks s H. apply H2, H1, H. Qed.

Lemma RowsInv_mono c c' rw r :
  files_mono c c' -> RowsInv (c_files c) (c_next c) rw r -> RowsInv (c_files c') (c_next c') rw r.
Proof.
  intros Hm (Hh & Hc & He & Hs & Hmeta). repeat split; try assumption. apply Hm. assumption.
Qed.

Lemma Inv_mono c c' rs :
  c_kv c' = c_kv c -> c_cache c' = c_cache c -> files_mono c c' -> Inv c rs -> Inv c' rs.
Proof.
  intros Hkv Hca Hm H sc. destruct (H sc) as (Hwf & Hri & Hcw).
  unfold ScopeInv. rewrite Hkv, Hca. split; [assumption|]. split; [|assumption].
  eapply RowsInv_mono; eassumption.
Qed.

(* ---- planning one request *)

Definition planned (c : cstate) (rs : list (N * rstate)) (p : N * wreq * rstate * writeOp) : Prop :=
  let '(sc, q, r', o) := p in
  let r := ref_of sc rs in
  ref_req false r q = ROk r' /\ req_valid r q = true /\ not_k1 r q
  /\ match q, o with
     | WSave hs ents snap, WOSave sv =>
         plan_ok (c_files c) (c_next c) (rows_of sc (c_kv c)) r r' hs ents snap sv
     | WMark i, WOMark j => i = j
     | WCfg i, WOCfg j => i = j
     | _, _ => False
     end.

Lemma plan_ok_mono c c' rw r r' hs ents snap sv :
  files_mono c c' ->
  plan_ok (c_files c) (c_next c) rw r r' hs ents snap sv ->
  plan_ok (c_files c') (c_next c') rw r r' hs ents snap sv.
Proof.
  intros Hm H. unfold plan_ok in *. destruct snap as [s|].
  - destruct H as (mf' & Hsv & Hrel & Hsame). exists mf'. split; [assumption|]. split; [apply Hm; assumption|assumption].
  - destruct H as [Hsv Hrel]. split; [assumption|apply Hm; assumption].
Qed.

Lemma planned_mono c c' rs p :
  c_kv c' = c_kv c -> files_mono c c' -> planned c rs p -> planned c' rs p.
Proof.
  intros Hkv Hm. destruct p as [[[sc q] r'] o]. unfold planned. rewrite Hkv.
  intros (H1 & H2 & H3 & H4). repeat split; try assumption.
  destruct q, o; try assumption. eapply plan_ok_mono; eassumption.
Qed.

Lemma plan_req_sim c rs sc q :
  Inv c rs -> req_valid (ref_of sc rs) q = true -> not_k1 (ref_of sc rs) q ->
  match ref_req false (ref_of sc rs) q with
  | ROk r' => exists c' o,
      plan_req c sc q = Ok (c', o)
      /\ c_kv c' = c_kv c /\ c_cache c' = c_cache c /\ files_mono c c'
      /\ planned c' rs (sc, q, r', o)
  | RRej e => plan_req c sc q = Err e
  | RInvalid => True
  end.
Proof.
  intros HI Hv Hk. destruct (HI sc) as (Hwf & Hri & _).
  destruct q as [hs ents snap|i|i]; cbn [ref_req plan_req].
  - pose proof (plan_save_sim c sc (ref_of sc rs) hs ents snap Hwf Hri Hv Hk) as H.
    destruct (ref_save false (ref_of sc rs) hs ents snap) as [r'|e|] eqn:Href; [| |exact I].
    + destruct H as (c' & sv & Hp & Hkv & Hca & Hext & Hok). rewrite Hp.
      exists c', (WOSave sv). split; [reflexivity|]. split; [assumption|]. split; [assumption|].
      split; [intros ks s Hs; eapply snap_rel_ext; eassumption|].
      unfold planned. cbn [ref_req]. rewrite Href, Hkv. repeat split; assumption.
    + rewrite H. reflexivity.
  - exists c, (WOMark i). split; [reflexivity|]. split; [reflexivity|]. split; [reflexivity|].
    split; [apply files_mono_refl|]. unfold planned. cbn [ref_req]. repeat split; assumption.
  - exists c, (WOCfg i). split; [reflexivity|]. split; [reflexivity|]. split; [reflexivity|].
    split; [apply files_mono_refl|]. unfold planned. cbn [ref_req]. repeat split; assumption.
Qed.

(* ---- planning a group *)

Definition pre_code (rs : list (N * rstate)) (p : N * wreq) : option N :=
  match ref_req false (ref_of (fst p) rs) (snd p) with RRej e => Some e | _ => None end.

Definition valid_req (rs : list (N * rstate)) (p : N * wreq) : Prop :=
  req_valid (ref_of (fst p) rs) (snd p) = true /\ not_k1 (ref_of (fst p) rs) (snd p).

Definition pl_req (p : N * wreq * rstate * writeOp) : N * writeOp := let '(sc, _, _, o) := p in (sc, o).
Definition pl_sc (p : N * wreq * rstate * writeOp) : N := let '(sc, _, _, _) := p in sc.
Definition pl_ref (p : N * wreq * rstate * writeOp) : rstate := let '(_, _, r', _) := p in r'.

Lemma plan_group_sim rs reqs : forall c,
  Inv c rs -> Forall (valid_req rs) reqs ->
  exists c1 pl,
    plan_group c reqs = (c1, map pl_req pl, map (pre_code rs) reqs)
    /\ c_kv c1 = c_kv c /\ c_cache c1 = c_cache c /\ files_mono c c1
    /\ Forall (planned c1 rs) pl
    /\ (forall sc, In sc (map pl_sc pl) -> In sc (map fst reqs))
    /\ (NoDup (map fst reqs) -> NoDup (map pl_sc pl))
    /\ (forall sc, ~ In sc (map pl_sc pl) -> In sc (map fst reqs) ->
                   forall q, In (sc, q) reqs -> forall r', ref_req false (ref_of sc rs) q <> ROk r')
    /\ (forall p, In p pl -> In (pl_sc p, let '(_, q, _, _) := p in q) reqs).
Proof.
  induction reqs as [|[sc q] reqs IH]; intros c HI Hall.
  - exists c, []. cbn. repeat split; try reflexivity; try constructor.
    + apply files_mono_refl.
    + intros sc [].
    + intros sc _ [].
    + intros p [].
  - inversion Hall as [|? ? [Hv Hk] Hall']; subst. cbn [fst snd] in *.
    pose proof (plan_req_sim c rs sc q HI Hv Hk) as Hp.
    cbn [plan_group map]. unfold pre_code at 1. cbn [fst snd].
    destruct (ref_req false (ref_of sc rs) q) as [r'|e|] eqn:Href.
    + destruct Hp as (c' & o & Hpr & Hkv & Hca & Hm & Hpl). rewrite Hpr.
      assert (HI' : Inv c' rs) by (eapply Inv_mono; eassumption).
      destruct (IH c' HI' Hall') as (c1 & pl & Hg & Hkv1 & Hca1 & Hm1 & Hpls & Hsub & Hnd & Hrej & Hin).
      rewrite Hg. exists c1, ((sc, q, r', o) :: pl). cbn [map pl_req pl_sc].
      split; [reflexivity|]. split; [congruence|]. split; [congruence|].
      split; [eapply files_mono_trans; eassumption|].
      split; [constructor; [eapply planned_mono; [exact Hkv1|exact Hm1|exact Hpl]|exact Hpls]|].
      split; [intros s [Hs|Hs]; [left; assumption|right; apply Hsub; assumption]|].
      split.
      { intro H. inversion H as [|? ? Hni Hnd']; subst. constructor; [|apply Hnd; assumption].
        intro Hc. apply Hni. apply Hsub. assumption. }
      split.
      { intros s Hns Hs q0 Hq0 r0. destruct Hq0 as [Hq0|Hq0].
        - inversion Hq0; subst. exfalso. apply Hns. left. reflexivity.
        - apply (Hrej s); [intro Hc; apply Hns; right; assumption| |assumption].
          apply in_map_iff. exists (s, q0). split; [reflexivity|assumption]. }
      intros p [<-|Hp']; [left; reflexivity|right; apply Hin; assumption].
    + rewrite Hp.
      destruct (IH c HI Hall') as (c1 & pl & Hg & Hkv1 & Hca1 & Hm1 & Hpls & Hsub & Hnd & Hrej & Hin).
      rewrite Hg. exists c1, pl.
      split; [reflexivity|]. split; [assumption|]. split; [assumption|]. split; [assumption|].
      split; [assumption|].
      split; [intros s Hs; right; apply Hsub; assumption|].
      split; [intro H; inversion H; subst; apply Hnd; assumption|].
      split.
      { intros s Hns Hs q0 Hq0 r0. destruct Hq0 as [Hq0|Hq0].
        - inversion Hq0; subst. rewrite Href. discriminate.
        - apply (Hrej s); [assumption| |assumption].
          apply in_map_iff. exists (s, q0). split; [reflexivity|assumption]. }
      intros p Hp'. right. apply Hin. assumption.
    + unfold req_valid in Hv. destruct q as [hs ents snap|i|i]; cbn [ref_req] in Href; [|discriminate|discriminate].
      rewrite Href in Hv. rewrite !andb_false_r in Hv. discriminate.
Qed.

(* ---- staging the requests of one group into one batch *)

Lemma writeOp_sim c rs p st :
  Inv c rs -> planned c rs p ->
  let '(sc, q, r', o) := p in
  let rw := rows_of sc (c_kv c) in
  (exists cs, ref_conf (ref_of sc rs) = Some cs /\ st = canon_w rw (ref_of sc rs) cs) ->
  exists b st' cs',
    writeOp_apply sc st o = Ok (b, st')
    /\ Forall (fun x => bop_scope x = sc) b
    /\ wf r'
    /\ RowsInv (c_files c) (c_next c) (fold_left apply_bop_rows b rw) r'
    /\ ref_conf r' = Some cs'
    /\ st' = canon_w (fold_left apply_bop_rows b rw) r' cs'.
Proof.
  intros HI Hpl. destruct p as [[[sc q] r'] o]. cbn zeta. intros (cs & Hcs & ->).
  destruct (HI sc) as (Hwf & Hri & _).
  destruct Hpl as (Href & Hv & Hk & Hm).
  pose proof (ref_req_wf _ _ _ Hwf Hv Hk Href) as Hwf'.
  destruct q as [hs ents snap|i|i]; destruct o as [sv|j|j]; try contradiction; cbn [ref_req writeOp_apply] in *.
  - destruct (saveOp_sim sc _ _ _ _ _ _ cs hs ents snap sv r' Hwf Hri Hcs Hv Hk Href Hm)
      as (b & st' & cs' & H1 & H2 & H3 & H4 & H5).
    exists b, st', cs'. split; [exact H1|]. split; [exact H2|]. split; [exact Hwf'|]. split; [exact H3|]. split; [exact H4|exact H5].
  - subst j. inversion Href; subst r'.
    destruct (markApplied_sim sc _ _ _ _ cs i Hri Hcs) as (b & st' & H1 & H2 & H3 & H4 & H5).
    exists b, st', cs. rewrite H1. split; [reflexivity|]. split; [exact H2|]. split; [exact Hwf'|]. split; [exact H3|]. split; [exact H4|exact H5].
  - subst j. inversion Href; subst r'.
    destruct (markConfigApplied_sim sc _ _ _ _ cs i Hri Hcs) as (b & st' & H1 & H2 & H3 & H4 & H5).
    exists b, st', cs. rewrite H1. split; [reflexivity|]. split; [exact H2|]. split; [exact Hwf'|]. split; [exact H3|]. split; [exact H4|exact H5].
Qed.

Lemma stage_sim c rs : Inv c rs -> forall pl lc batch,
  NoDup (map pl_sc pl) -> NoDup (map fst lc) ->
  (forall sc, In sc (map pl_sc pl) -> aget sc lc = None) ->
  Forall (planned c rs) pl ->
  exists batch' lc',
    stage_requests c lc batch (map pl_req pl) = Ok (batch ++ batch', lc')
    /\ NoDup (map fst lc')
    /\ Forall (fun x => In (bop_scope x) (map pl_sc pl)) batch'
    /\ (forall sc, ~ In sc (map pl_sc pl) -> aget sc lc' = aget sc lc)
    /\ (forall kv0, (forall sc, In sc (map pl_sc pl) -> rows_of sc kv0 = rows_of sc (c_kv c)) ->
          forall p, In p pl ->
            exists cs', wf (pl_ref p) /\ ref_conf (pl_ref p) = Some cs'
              /\ RowsInv (c_files c) (c_next c) (rows_of (pl_sc p) (apply_batch kv0 batch')) (pl_ref p)
              /\ aget (pl_sc p) lc' = Some (canon_w (rows_of (pl_sc p) (apply_batch kv0 batch')) (pl_ref p) cs')).
Proof.
  intro HI. induction pl as [|p pl IH]; intros lc batch Hnd Hndl Hfree Hpl.
  - exists [], lc. cbn [map stage_requests]. rewrite app_nil_r.
    split; [reflexivity|]. split; [assumption|]. split; [constructor|]. split; [reflexivity|].
    intros kv0 _ p [].
  - inversion Hpl as [|? ? Hp Hpl']; subst.
    cbn [map] in Hnd. inversion Hnd as [|? ? Hni Hnd']; subst.
    destruct p as [[[sc q] r'] o] eqn:Ep. cbn [pl_sc pl_req pl_ref map] in *.
    destruct (HI sc) as (Hwf & Hri & Hcw).
    destruct Hwf as (? & ? & ? & ? & ? & (cs & Hcs)).
    assert (Hwf : wf (ref_of sc rs)) by (destruct (HI sc) as (Hw & _); exact Hw).
    (* loadScopeWriteState *)
    assert (Hload : loadScopeWriteState c lc sc = Ok (canon_w (rows_of sc (c_kv c)) (ref_of sc rs) cs)).
    { unfold loadScopeWriteState. rewrite (Hfree sc (or_introl eq_refl)).
      destruct (aget sc (c_cache c)) as [w|] eqn:Ec.
      - destruct (Hcw w eq_refl) as (cs0 & Hcs0 & ->). rewrite Hcs in Hcs0. inversion Hcs0. reflexivity.
      - eapply load_canon; eassumption. }
    pose proof (writeOp_sim c rs (sc, q, r', o) (canon_w (rows_of sc (c_kv c)) (ref_of sc rs) cs) HI Hp) as Hw. cbn zeta in Hw.
    destruct (Hw (ex_intro _ cs (conj Hcs eq_refl))) as (b & st' & cs' & Hap & Hbs & Hwf' & Hri' & Hcs' & Hst').
    cbn [stage_requests]. rewrite Hload, Hap.
    destruct (IH (aset sc st' lc) (batch ++ b) Hnd' (aset_keys_nodup _ _ _ Hndl)) as (batch'' & lc' & Hst & Hndl' & Hbsc & Hother & Heff).
    { intros s Hs. rewrite aget_aset_other; [apply Hfree; right; assumption|].
      intro Heq. subst s. apply Hni. assumption. }
    { assumption. }
    exists (b ++ batch''), lc'. rewrite app_assoc. split; [exact Hst|]. split; [assumption|].
    split.
    { apply Forall_app. split.
      - eapply Forall_impl; [|exact Hbs]. intros x Hx. left. symmetry. exact Hx.
      - eapply Forall_impl; [|exact Hbsc]. intros x Hx. right. exact Hx. }
    split.
    { intros s Hs. rewrite Hother by (intro Hc; apply Hs; right; assumption).
      apply aget_aset_other. intro Heq. apply Hs. left. symmetry. assumption. }
    intros kv0 Hagree p0 Hin.
    rewrite apply_batch_app.
    set (kv1 := apply_batch kv0 b).
    assert (Hkv1_sc : rows_of sc kv1 = fold_left apply_bop_rows b (rows_of sc (c_kv c))).
    { subst kv1. rewrite (apply_batch_scope kv0 b sc Hbs). f_equal. apply Hagree. left. reflexivity. }
    assert (Hkv1_other : forall s, s <> sc -> rows_of s kv1 = rows_of s kv0).
    { intros s Hs. subst kv1. apply apply_batch_other. eapply Forall_impl; [|exact Hbs].
      intros x Hx. cbn beta in Hx. congruence. }
    assert (Hagree1 : forall s, In s (map pl_sc pl) -> rows_of s kv1 = rows_of s (c_kv c)).
    { intros s Hs. rewrite Hkv1_other; [apply Hagree; right; assumption|].
      intro Heq. subst s. apply Hni. assumption. }
    destruct Hin as [<-|Hin].
    + cbn [pl_sc pl_ref].
      assert (Hrows : rows_of sc (apply_batch kv1 batch'') = rows_of sc kv1).
      { apply apply_batch_other. eapply Forall_impl; [|exact Hbsc]. intros x Hx. cbn beta in Hx.
        intro Heq. rewrite Heq in Hx. apply Hni. assumption. }
      exists cs'. split; [assumption|]. split; [assumption|].
      rewrite Hrows, Hkv1_sc. split; [assumption|].
      rewrite (Hother sc Hni). rewrite aget_aset_same. rewrite Hst'. reflexivity.
    + apply (Heff kv1 Hagree1 p0 Hin).
Qed.

(* ---- a committed group *)

Definition set_refs (rs : list (N * rstate)) (pl : list (N * wreq * rstate * writeOp)) : list (N * rstate) :=
  fold_left (fun acc p => aset (pl_sc p) (pl_ref p) acc) pl rs.

Lemma ref_of_set_refs rs pl sc :
  NoDup (map pl_sc pl) ->
  ref_of sc (set_refs rs pl) =
  match find (fun p => pl_sc p =? sc) pl with Some p => pl_ref p | None => ref_of sc rs end.
Proof.
  intro Hnd. unfold ref_of, set_refs. rewrite (aget_fold_aset pl_sc pl_ref pl rs sc Hnd).
  destruct (find (fun p => pl_sc p =? sc) pl); reflexivity.
Qed.

Lemma find_sc_in pl sc p :
  NoDup (map pl_sc pl) -> In p pl -> pl_sc p = sc -> find (fun p0 => pl_sc p0 =? sc) pl = Some p.
Proof.
  induction pl as [|x pl IH]; intros Hnd Hin Hsc; [destruct Hin|].
  cbn [map] in Hnd. inversion Hnd as [|? ? Hni Hnd']; subst.
  cbn [find]. destruct Hin as [->|Hin].
  - rewrite N.eqb_refl. reflexivity.
  - destruct (pl_sc x =? pl_sc p) eqn:E.
    + exfalso. apply Hni. apply in_map_iff. exists p. split; [lia|assumption].
    + apply IH; [assumption|assumption|reflexivity].
Qed.

Lemma find_sc_none pl sc :
  ~ In sc (map pl_sc pl) -> find (fun p0 => pl_sc p0 =? sc) pl = None.
Proof.
  intro H. destruct (find (fun p0 => pl_sc p0 =? sc) pl) as [p|] eqn:E; [|reflexivity].
  apply find_some in E. destruct E as [Hin He]. exfalso. apply H.
  apply in_map_iff. exists p. split; [lia|assumption].
Qed.

Lemma flush_sim c rs pl :
  Inv c rs -> NoDup (map pl_sc pl) -> Forall (planned c rs) pl ->
  exists c', flushWriteRequests c false (map pl_req pl) = (c', 0)
             /\ c_files c' = c_files c /\ c_next c' = c_next c
             /\ Inv c' (set_refs rs pl)
             /\ exists batch lc, stage_requests c [] [] (map pl_req pl) = Ok (batch, lc)
                                 /\ c' = CS (apply_batch (c_kv c) batch) (publish_cache lc (c_cache c)) (c_files c) (c_next c).
Proof.
  intros HI Hnd Hpl.
  destruct (stage_sim c rs HI pl [] [] Hnd (NoDup_nil _) (fun _ _ => eq_refl) Hpl)
    as (batch & lc & Hst & Hndl & Hbsc & Hother & Heff).
  unfold flushWriteRequests. rewrite Hst. cbn [app].
  eexists. split; [reflexivity|]. cbn [c_files c_next]. split; [reflexivity|]. split; [reflexivity|].
  split; [|exists batch, lc; split; reflexivity].
  intro sc. rewrite (ref_of_set_refs rs pl sc Hnd).
  unfold ScopeInv. cbn [c_kv c_files c_next c_cache].
  destruct (in_dec N.eq_dec sc (map pl_sc pl)) as [Hin|Hni].
  - apply in_map_iff in Hin. destruct Hin as (p & Hsc & Hin).
    rewrite (find_sc_in pl sc p Hnd Hin Hsc).
    destruct (Heff (c_kv c) (fun _ _ => eq_refl) p Hin) as (cs' & Hwf' & Hcs' & Hri' & Hlc).
    rewrite Hsc in *. split; [assumption|]. split; [assumption|].
    intros w Hw. rewrite (aget_publish lc (c_cache c) sc Hndl), Hlc in Hw. inversion Hw; subst w.
    exists cs'. split; [assumption|reflexivity].
  - rewrite (find_sc_none pl sc Hni).
    destruct (HI sc) as (Hwf & Hri & Hcw).
    assert (Hrows : rows_of sc (apply_batch (c_kv c) batch) = rows_of sc (c_kv c)).
    { apply apply_batch_other. eapply Forall_impl; [|exact Hbsc]. intros x Hx. cbn beta in Hx.
      intro Heq. rewrite Heq in Hx. apply Hni. assumption. }
    rewrite Hrows. split; [assumption|]. split; [assumption|].
    intros w Hw. rewrite (aget_publish lc (c_cache c) sc Hndl), (Hother sc Hni) in Hw. cbn [aget] in Hw.
    apply Hcw. assumption.
Qed.

(* stage_requests succeeds, so a refused commit reports the injected error *)
Lemma flush_refused c rs pl :
  Inv c rs -> NoDup (map pl_sc pl) -> Forall (planned c rs) pl ->
  flushWriteRequests c true (map pl_req pl) = (c, errInjected).
Proof.
  intros HI Hnd Hpl.
  destruct (stage_sim c rs HI pl [] [] Hnd (NoDup_nil _) (fun _ _ => eq_refl) Hpl)
    as (batch & lc & Hst & _).
  unfold flushWriteRequests. rewrite Hst. reflexivity.
Qed.

(* ---- run_group *)

Definition expected_codes (rs : list (N * rstate)) (reqs : list (N * wreq)) : list N :=
  map (fun p => expected_code (ref_req false (ref_of (fst p) rs) (snd p))) reqs.

Lemma scopes_distinct_nodup l : scopes_distinct l = true -> NoDup l.
Proof.
  induction l as [|x l IH]; intro H; [constructor|].
  cbn [scopes_distinct] in H. apply andb_true_iff in H. destruct H as [Hx Hl].
  constructor; [|apply IH; assumption].
  intro Hin. apply negb_true_iff in Hx.
  assert (existsb (N.eqb x) l = true) by (apply existsb_exists; exists x; split; [assumption|apply N.eqb_refl]).
  congruence.
Qed.

Lemma codes_of_pre rs reqs code :
  Forall (valid_req rs) reqs ->
  (code = 0) ->
  map (fun p => match p with Some e => e | None => code end) (map (pre_code rs) reqs) = expected_codes rs reqs.
Proof.
  intros Hall ->. unfold expected_codes. rewrite map_map. apply map_ext_in. intros [sc q] Hin.
  unfold pre_code. cbn [fst snd].
  destruct (ref_req false (ref_of sc rs) q) eqn:E; try reflexivity.
Qed.

Lemma run_group_commit c rs reqs :
  Inv c rs -> scopes_distinct (map fst reqs) = true -> Forall (valid_req rs) reqs ->
  exists c' pl,
    run_group c 0 reqs = (c', expected_codes rs reqs)
    /\ NoDup (map pl_sc pl)
    /\ Inv c' (set_refs rs pl)
    /\ (forall p, In p pl -> In (pl_sc p, let '(_, q, _, _) := p in q) reqs
                             /\ ref_req false (ref_of (pl_sc p) rs) (let '(_, q, _, _) := p in q) = ROk (pl_ref p))
    /\ (forall sc q, In (sc, q) reqs -> ~ In sc (map pl_sc pl) ->
                     forall r', ref_req false (ref_of sc rs) q <> ROk r').
Proof.
  intros HI Hd Hall. apply scopes_distinct_nodup in Hd.
  destruct (plan_group_sim rs reqs c HI Hall) as (c1 & pl & Hg & Hkv & Hca & Hm & Hpls & Hsub & Hnd & Hrej & Hin).
  specialize (Hnd Hd).
  assert (HI1 : Inv c1 rs) by (eapply Inv_mono; eassumption).
  unfold run_group. rewrite Hg. cbn [N.eqb].
  assert (Hfl : exists c', (match map pl_req pl with
                            | [] => (c1, 0)
                            | _ :: _ => flushWriteRequests c1 (negb true) (map pl_req pl)
                            end) = (c', 0) /\ Inv c' (set_refs rs pl)).
  { destruct (flush_sim c1 rs pl HI1 Hnd Hpls) as (c' & Hf & _ & _ & HI' & _).
    destruct pl as [|p pl'].
    - exists c1. split; [reflexivity|exact HI1].
    - exists c'. split; [exact Hf|exact HI']. }
  destruct Hfl as (c' & Hf & HI').
  replace (0 =? 0) with true by reflexivity. rewrite Hf.
  exists c', pl. split.
  { cbn [N.eqb]. f_equal. apply codes_of_pre; [assumption|reflexivity]. }
  split; [assumption|]. split; [assumption|].
  split.
  { intros p Hp. split; [apply Hin; assumption|].
    pose proof (proj1 (Forall_forall _ _) Hpls p Hp) as Hpp. destruct p as [[[sc q] r'] o].
    cbn [pl_sc pl_ref]. destruct Hpp as (Href & _). exact Href. }
  intros sc q Hq Hni r'. apply (Hrej sc Hni); [|assumption].
  apply in_map_iff. exists (sc, q). split; [reflexivity|assumption].
Qed.

Lemma expected_code_rej_nonzero r q e : ref_req false r q = RRej e -> e <> 0.
Proof.
  destruct q as [hs ents snap|i|i]; cbn [ref_req]; [|discriminate|discriminate].
  intro H. destruct (ref_save_rej r hs ents snap e H) as (s & _ & [[_ ->]|[_ [_ ->]]]); discriminate.
Qed.

Lemma run_group_refused c rs mode reqs :
  Inv c rs -> scopes_distinct (map fst reqs) = true -> Forall (valid_req rs) reqs -> mode <> 0 ->
  exists c' codes,
    run_group c mode reqs = (c', codes)
    /\ Inv c' rs
    /\ forallb (fun x => negb (x =? 0)) codes = true
    /\ length codes = length reqs.
Proof.
  intros HI Hd Hall Hmode. apply scopes_distinct_nodup in Hd.
  destruct (plan_group_sim rs reqs c HI Hall) as (c1 & pl & Hg & Hkv & Hca & Hm & Hpls & Hsub & Hnd & Hrej & Hin).
  specialize (Hnd Hd).
  assert (HI1 : Inv c1 rs) by (eapply Inv_mono; eassumption).
  unfold run_group. rewrite Hg.
  replace (mode =? 0) with false by lia. cbn [negb].
  assert (Hfl : exists code, (match map pl_req pl with
                              | [] => (c1, 0)
                              | _ :: _ => flushWriteRequests c1 true (map pl_req pl)
                              end) = (c1, code)
                             /\ (pl <> [] -> code = errInjected)).
  { pose proof (flush_refused c1 rs pl HI1 Hnd Hpls) as Hf.
    destruct pl as [|p pl'].
    - exists 0. split; [reflexivity|]. intro H. congruence.
    - exists errInjected. split; [exact Hf|reflexivity]. }
  destruct Hfl as (code & Hf & Hcode). rewrite Hf.
  eexists. eexists. split; [reflexivity|].
  split.
  { destruct (mode =? 2); [|exact HI1].
    intro sc. destruct (HI1 sc) as (Hwf & Hri & _). unfold ScopeInv, drop_cache. cbn [c_kv c_files c_next c_cache].
    split; [assumption|]. split; [assumption|]. intros w Hw. discriminate. }
  split; [|rewrite !map_length; reflexivity].
  apply forallb_forall. intros x Hx. apply in_map_iff in Hx. destruct Hx as (po & <- & Hpo).
  apply in_map_iff in Hpo. destruct Hpo as ([sc q] & <- & Hq).
  unfold pre_code. cbn [fst snd].
  destruct (ref_req false (ref_of sc rs) q) as [r'|e|] eqn:Href.
  - (* accepted by planning, so it was enqueued: pl is not empty *)
    assert (Hne : pl <> []).
    { intro Hnil. subst pl. apply (Hrej sc (fun H => H) (in_map fst _ _ Hq) q Hq r'). exact Href. }
    rewrite (Hcode Hne). reflexivity.
  - apply negb_true_iff. apply N.eqb_neq. eapply expected_code_rej_nonzero. eassumption.
  - exfalso. pose proof (proj1 (Forall_forall _ _) Hall (sc, q) Hq) as [Hv _]. cbn [fst snd] in Hv.
    unfold req_valid in Hv. destruct q as [hs ents snap|i|i]; cbn [ref_req] in Href; [|discriminate|discriminate].
    rewrite Href in Hv. rewrite !andb_false_r in Hv. discriminate.
Qed.

(* ---- reopen *)

Lemma reopen_Inv c rs : Inv c rs -> Inv (reopen c) rs.
Proof.
  intros HI sc. destruct (HI sc) as (Hwf & Hri & _). unfold ScopeInv, reopen, drop_cache.
  cbn [c_kv c_files c_next c_cache]. split; [assumption|]. split; [assumption|]. intros w Hw. discriminate.
Qed.

(* the cached tail dropped by a reopen is rebuilt identically from the rows *)
Lemma reopen_rebuilds_cache c rs sc w :
  Inv c rs -> aget sc (c_cache c) = Some w ->
  loadScopeWriteState (reopen c) [] sc = Ok w.
Proof.
  intros HI Hw. destruct (HI sc) as (Hwf & Hri & Hcw).
  destruct (Hcw w Hw) as (cs & Hcs & ->).
  unfold loadScopeWriteState, reopen, drop_cache. cbn [aget c_cache c_kv].
  eapply load_canon; eassumption.
Qed.

(* reads that persist a reconstructed meta row keep the invariant *)
Lemma Inv_set_rows c rs sc rw' c' :
  Inv c rs ->
  c_files c' = c_files c -> c_next c' = c_next c -> c_cache c' = c_cache c ->
  (c_kv c' = c_kv c \/ c_kv c' = aset sc rw' (c_kv c)) ->
  rows_of sc (c_kv c') = rw' ->
  RowsInv (c_files c) (c_next c) rw' (ref_of sc rs) ->
  k_snap rw' = k_snap (rows_of sc (c_kv c)) ->
  Inv c' rs.
Proof.
  intros HI Hf Hn Hca Hkv Hrw Hri' Hks s. destruct (HI s) as (Hwf & Hri & Hcw).
  unfold ScopeInv. rewrite Hf, Hn, Hca.
  destruct (N.eq_dec s sc) as [->|Hne].
  - rewrite Hrw. split; [assumption|]. split; [assumption|].
    intros w Hw. destruct (Hcw w Hw) as (cs & Hcs & ->). exists cs. split; [assumption|].
    unfold canon_w. rewrite Hks. reflexivity.
  - assert (Hsame : rows_of s (c_kv c') = rows_of s (c_kv c)).
    { destruct Hkv as [->| ->]; [reflexivity|]. apply rows_of_aset_other. assumption. }
    rewrite Hsame. split; [assumption|]. split; assumption.
Qed.
