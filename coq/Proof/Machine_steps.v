(* Proof/Machine_steps.v — specifications of the loops of Model/Machine.v and the per-transition
   facts (invariant preservation, monotonicity, reply facts, admission facts) for C06. *)
From WK Require Import Base.Base Gen.Consts_C06 Model.Machine Proof.Machine.
Open Scope N_scope.

Ltac st := cbn [s_key s_local s_gen s_id s_epoch s_lepoch s_role s_status s_leader s_replicas s_isr
                s_minisr s_leo s_hw s_cp s_ready s_progress s_pending s_order s_infl
                set_hw set_leo set_progress set_app] in *.

(* ---- waiter target invariant: once Target is set it is the index of the last record ------------- *)
Definition tgt_ok (w : waiter) : Prop :=
  w_target w <> 0 -> forall q, last_idx (w_recs w) = Some q -> q = w_target w.

Definition TG (s : state) : Prop := Forall tgt_ok (s_pending s).

Definition Inv (s : state) : Prop := WM s /\ TG s.

Lemma Forall_del_ids (P : waiter -> Prop) cs l : Forall P l -> Forall P (del_ids cs l).
Proof.
  rewrite !Forall_forall. intros H w Hw. apply del_ids_In in Hw. apply H. tauto.
Qed.

Lemma Forall_del_w (P : waiter -> Prop) op l : Forall P l -> Forall P (del_w op l).
Proof.
  rewrite !Forall_forall. intros H w Hw. apply del_w_In in Hw. apply H. tauto.
Qed.

Lemma order_remove_nil o : order_remove [] o = o.
Proof.
  unfold order_remove. induction o as [|x o IH]; cbn [filter]; [reflexivity|].
  rewrite IH. reflexivity.
Qed.

(* ---- completeAppendWaiters ------------------------------------------------------------------------ *)
Lemma complete_loop_spec hw : forall order pend rs cs p',
  complete_loop hw order pend = (rs, cs, p') ->
  map r_op rs = cs /\ p' = del_ids cs pend /\ NoDup cs /\
  (forall r, In r rs -> exists w, find_w (r_op r) pend = Some w /\ r = mk_reply w
                                  /\ w_target w <> 0
                                  /\ (w_mode w = CommitModeQuorum -> w_target w <= hw)).
Proof.
  induction order as [|op rest IH]; intros pend rs cs p' H; cbn [complete_loop] in H.
  - inversion H; subst. split; [reflexivity|]. split; [symmetry; apply del_ids_nil|].
    split; [constructor|]. intros r [].
  - destruct (find_w op pend) as [w|] eqn:F; [|apply IH; exact H].
    destruct (w_target w =? 0) eqn:T; [apply IH; exact H|].
    destruct ((w_mode w =? CommitModeQuorum) && (hw <? w_target w)) eqn:Q; [apply IH; exact H|].
    destruct (complete_loop hw rest (del_w op pend)) as [[rs1 cs1] p1] eqn:R.
    inversion H; subst rs cs p'. clear H.
    destruct (IH _ _ _ _ R) as [A [B [D C]]].
    pose proof (find_w_op _ _ _ F) as Hop.
    split; [cbn [map mk_reply r_op]; rewrite Hop, A; reflexivity|].
    split; [rewrite del_ids_cons; exact B|].
    split.
    + constructor; [|exact D]. intro Hin. rewrite <- A in Hin. apply in_map_iff in Hin.
      destruct Hin as [r [E Hr]]. destruct (C r Hr) as [w' [F' _]].
      rewrite find_del, E, N.eqb_refl in F'. discriminate.
    + intros r [Hr|Hr].
      * subst r. exists w. cbn [mk_reply r_op]. rewrite Hop. split; [exact F|].
        split; [reflexivity|]. split; [apply N.eqb_neq; exact T|].
        intro M. apply andb_false_iff in Q. destruct Q as [Q|Q].
        -- rewrite M, N.eqb_refl in Q. discriminate.
        -- apply N.ltb_ge in Q. exact Q.
      * destruct (C r Hr) as [w' [F' G]]. exists w'. split; [|exact G].
        rewrite find_del in F'. destruct (r_op r =? op); [discriminate|exact F'].
Qed.

Lemma complete_waiters_spec s order s' rs :
  complete_waiters s order = (s', rs) ->
  same_but_app s s' /\ s_infl s' = s_infl s /\
  exists cs, map r_op rs = cs /\ s_pending s' = del_ids cs (s_pending s)
             /\ s_order s' = order_remove cs (s_order s) /\ NoDup cs /\
  (forall r, In r rs -> exists w, find_w (r_op r) (s_pending s) = Some w /\ r = mk_reply w
                                  /\ w_target w <> 0
                                  /\ (w_mode w = CommitModeQuorum -> w_target w <= s_hw s)).
Proof.
  unfold complete_waiters. destruct (s_pending s) as [|w0 p0] eqn:P.
  - intro H. inversion H; subst. split; [apply same_but_app_refl|]. split; [reflexivity|].
    exists []. split; [reflexivity|]. rewrite P. split; [reflexivity|].
    split; [symmetry; apply order_remove_nil|]. split; [constructor|]. intros r [].
  - match goal with |- context [complete_loop ?h ?o ?p] =>
      destruct (complete_loop h o p) as [[rs1 cs1] p1] eqn:R end.
    intro H. inversion H; subst s' rs. clear H.
    destruct (complete_loop_spec _ _ _ _ _ _ R) as [A [B [D C]]].
    split; [apply same_but_app_set_app|]. split; [reflexivity|].
    exists cs1. st. split; [exact A|]. split; [exact B|]. split; [reflexivity|]. split; [exact D|exact C].
Qed.

(* ---- failInflightAppend --------------------------------------------------------------------------------- *)
Lemma fail_loop_spec err : forall ids pend rs cs p',
  fail_loop err ids pend = (rs, cs, p') ->
  map r_op rs = cs /\ p' = del_ids cs pend /\ NoDup cs /\
  (forall r, In r rs -> (exists w, find_w (r_op r) pend = Some w) /\ r_err r = err /\ r_items r = []).
Proof.
  induction ids as [|op rest IH]; intros pend rs cs p' H; cbn [fail_loop] in H.
  - inversion H; subst. split; [reflexivity|]. split; [symmetry; apply del_ids_nil|].
    split; [constructor|]. intros r [].
  - destruct (find_w op pend) as [w|] eqn:F; [|apply IH; exact H].
    destruct (fail_loop err rest (del_w op pend)) as [[rs1 cs1] p1] eqn:R.
    inversion H; subst rs cs p'. clear H.
    destruct (IH _ _ _ _ R) as [A [B [D C]]].
    split; [cbn [map r_op]; rewrite A; reflexivity|].
    split; [rewrite del_ids_cons; exact B|].
    split.
    + constructor; [|exact D]. intro Hin. rewrite <- A in Hin. apply in_map_iff in Hin.
      destruct Hin as [r [E Hr]]. destruct (C r Hr) as [[w' F'] _].
      rewrite find_del, E, N.eqb_refl in F'. discriminate.
    + intros r [Hr|Hr].
      * subst r. cbn [r_op r_err r_items]. split; [exists w; exact F|]. split; reflexivity.
      * destruct (C r Hr) as [[w' F'] G]. split; [|exact G]. exists w'.
        rewrite find_del in F'. destruct (r_op r =? op); [discriminate|exact F'].
Qed.

Lemma fail_inflight_spec s err s' d :
  fail_inflight s err = (s', d) ->
  same_but_app s s' /\ d_err d = 0 /\ d_task d = None /\
  exists cs, map r_op (d_replies d) = cs /\ s_pending s' = del_ids cs (s_pending s) /\ NoDup cs /\
  (forall r, In r (d_replies d) ->
     (exists w, find_w (r_op r) (s_pending s) = Some w) /\ r_err r = err /\ r_items r = []).
Proof.
  unfold fail_inflight. destruct (s_infl s) as [f|].
  - destruct (fail_loop err (f_ids f) (s_pending s)) as [[rs1 cs1] p1] eqn:R.
    intro H. inversion H; subst s' d. clear H.
    destruct (fail_loop_spec _ _ _ _ _ _ R) as [A [B [D C]]].
    split; [apply same_but_app_set_app|]. split; [reflexivity|]. split; [reflexivity|].
    exists cs1. st. cbn [dec_replies d_replies]. split; [exact A|]. split; [exact B|]. split; [exact D|exact C].
  - intro H. inversion H; subst s' d. split; [apply same_but_app_refl|].
    split; [reflexivity|]. split; [reflexivity|].
    exists []. cbn [dec_empty d_replies map]. split; [reflexivity|].
    split; [symmetry; apply del_ids_nil|]. split; [constructor|]. intros r [].
Qed.

(* ---- assignInflightRecordsToWaiters ------------------------------------------------------------------------ *)
Lemma assign_loop_spec recs : forall ids next counts pend,
  pend_ids (assign_loop recs next ids counts pend) = pend_ids pend /\
  (forall a w', find_w a (assign_loop recs next ids counts pend) = Some w' ->
                exists w, find_w a pend = Some w /\ w_mode w' = w_mode w) /\
  (Forall tgt_ok pend -> Forall tgt_ok (assign_loop recs next ids counts pend)).
Proof.
  induction ids as [|op ids IH]; intros next counts pend; cbn [assign_loop].
  - split; [reflexivity|]. split; [|auto]. intros a w' H. exists w'. split; [exact H|reflexivity].
  - destruct (find_w op pend) as [w|] eqn:F; [|apply IH].
    match goal with |- context [assign_loop recs ?n ids ?c (upd_w ?W pend)] =>
      destruct (IH n c (upd_w W pend)) as [A [B C]]; set (W0 := W) in * end.
    split; [rewrite A; apply ids_upd_w|]. split.
    + intros a w' H. destruct (B a w' H) as [w1 [F1 M1]].
      rewrite find_upd_w in F1. destruct (find_w a pend) as [x|] eqn:Fa; [|discriminate].
      destruct (a =? w_op W0) eqn:E.
      * inversion F1; subst w1. apply N.eqb_eq in E. unfold W0 in E. cbn [w_op] in E. subst a.
        rewrite F in Fa. inversion Fa; subst x. exists w. split; [reflexivity|].
        rewrite M1. reflexivity.
      * inversion F1; subst w1. exists x. split; [reflexivity|exact M1].
    + intro H. apply C. apply Forall_forall. intros v Hv. apply In_upd_w in Hv.
      destruct Hv as [Hv|Hv]; [|rewrite Forall_forall in H; apply H; exact Hv].
      subst v. unfold W0, tgt_ok. cbn [w_target w_recs].
      intros _ q Hq. rewrite Hq. reflexivity.
Qed.

(* ---- ProposeAppendBatch ----------------------------------------------------------------------------------------- *)
Lemma propose_check_ok pend : forall ws seen,
  propose_check pend seen ws = 0 ->
  NoDup (map b_op ws) /\
  (forall b, In b ws -> ~ In (b_op b) seen /\ ~ In (b_op b) (pend_ids pend)).
Proof.
  induction ws as [|b r IH]; intros seen H; cbn [propose_check] in H.
  - split; [constructor|]. intros b [].
  - destruct (b_ids b) as [|i0 ir]; [vm_compute in H; discriminate|].
    destruct (mem (b_op b) seen) eqn:M; [vm_compute in H; discriminate|].
    destruct (find_w (b_op b) pend) as [w|] eqn:F; [vm_compute in H; discriminate|].
    destruct (IH _ H) as [A B]. cbn [map]. split.
    + constructor; [|exact A]. intro Hin. apply in_map_iff in Hin. destruct Hin as [b' [E Hb']].
      destruct (B b' Hb') as [B1 _]. apply B1. left. symmetry. exact E.
    + intros b' [Hb'|Hb'].
      * subst b'. split; [apply mem_false; exact M | apply find_w_none; exact F].
      * destruct (B b' Hb') as [B1 B2]. split; [|exact B2]. intro H1. apply B1. right. exact H1.
Qed.

Lemma propose_admit_spec : forall ws pend ord pend' ord',
  propose_admit pend ord ws = (pend', ord') ->
  (forall x, In x (pend_ids pend') -> In x (pend_ids pend) \/ In x (map b_op ws)) /\
  (Forall tgt_ok pend -> Forall tgt_ok pend').
Proof.
  induction ws as [|b r IH]; intros pend ord pend' ord' H; cbn [propose_admit] in H.
  - inversion H; subst. split; [|auto]. intros x Hx. left. exact Hx.
  - destruct (IH _ _ _ _ H) as [A B]. split.
    + intros x Hx. destruct (A x Hx) as [H1|H1].
      * apply ids_ins_w in H1. destruct H1 as [H1|H1]; [|left; exact H1].
        right. cbn [map w_op] in *. left. symmetry. exact H1.
      * right. cbn [map]. right. exact H1.
    + intro T. apply B. apply Forall_forall. intros v Hv. apply In_ins_w in Hv.
      destruct Hv as [Hv|Hv]; [|rewrite Forall_forall in T; apply T; exact Hv].
      subst v. unfold tgt_ok. cbn [w_target]. intro H0. exfalso. apply H0. reflexivity.
Qed.

(* ---- facts every transition establishes ----------------------------------------------------------------------------- *)
(* a reply goes to an op that was waiting, the op is gone afterwards, and a successful reply carries
   the waiter's target (index of its last record), covered by HW for quorum-mode waiters *)
Definition reply_fact (pre post : state) (r : reply) : Prop :=
  exists w, find_w (r_op r) (s_pending pre) = Some w
  /\ ~ In (r_op r) (pend_ids (s_pending post))
  /\ (r_err r = 0 ->
      exists w', w_op w' = r_op r /\ w_mode w' = w_mode w /\ r_items r = w_recs w'
                 /\ w_target w' <> 0
                 /\ (forall q, last_idx (r_items r) = Some q -> q = w_target w')
                 /\ (w_mode w = CommitModeQuorum -> w_target w' <= s_hw post)).

Record step_facts (s : state) (e : event) (s' : state) (d : decision) : Prop := {
  sf_inv : Inv s';
  sf_hw : s_hw s <= s_hw s';
  sf_leo : s_leo s <= s_leo s';
  sf_cp : s_cp s' = s_cp s;
  sf_replies : forall r, In r (d_replies d) -> reply_fact s s' r;
  sf_nodup : NoDup (map r_op (d_replies d));
  sf_pend : forall x, In x (pend_ids (s_pending s')) ->
                      In x (pend_ids (s_pending s)) \/ In x (admitted_ids e d);
  sf_fresh : forall x, In x (admitted_ids e d) -> ~ In x (pend_ids (s_pending s));
  sf_adm_nodup : NoDup (admitted_ids e d) }.

(* a transition that answers nobody, admits nobody and only shrinks PendingAppends *)
Lemma quiet_facts s e s' d :
  Inv s' -> s_hw s <= s_hw s' -> s_leo s <= s_leo s' -> s_cp s' = s_cp s ->
  d_replies d = [] -> admitted_ids e d = [] ->
  (forall x, In x (pend_ids (s_pending s')) -> In x (pend_ids (s_pending s))) ->
  step_facts s e s' d.
Proof.
  intros H1 H2 H3 H4 H5 H6 H7. constructor; try assumption.
  - rewrite H5. intros r [].
  - rewrite H5. constructor.
  - intros x Hx. left. apply H7. exact Hx.
  - rewrite H6. intros x [].
  - rewrite H6. constructor.
Qed.

Lemma Inv_same s s' :
  same_but_app s s' -> (forall w, In w (s_pending s') -> In w (s_pending s)) -> Inv s -> Inv s'.
Proof.
  intros H1 H2 [W T]. split; [eapply WM_same; eassumption|].
  unfold TG in *. rewrite Forall_forall in *. intros w Hw. apply T. apply H2. exact Hw.
Qed.

Lemma same_hw s s' : same_but_app s s' -> s_hw s' = s_hw s /\ s_leo s' = s_leo s /\ s_cp s' = s_cp s.
Proof.
  unfold same_but_app. intro H. repeat match goal with H : _ /\ _ |- _ => destruct H end.
  repeat split; assumption.
Qed.

Lemma unchanged_facts s e d :
  Inv s -> d_replies d = [] -> admitted_ids e d = [] -> step_facts s e s d.
Proof.
  intros H1 H2 H3. apply quiet_facts; try assumption; try apply N.le_refl; try reflexivity.
  intros x Hx. exact Hx.
Qed.

(* ---- replies produced by completeAppendWaiters on an intermediate state ------------------------------------------------ *)
Lemma replies_via_complete s m order s' rs :
  (forall a w', find_w a (s_pending m) = Some w' ->
                exists w, find_w a (s_pending s) = Some w /\ w_mode w' = w_mode w) ->
  Forall tgt_ok (s_pending m) ->
  complete_waiters m order = (s', rs) ->
  (forall r, In r rs -> reply_fact s s' r) /\ NoDup (map r_op rs)
  /\ (forall w, In w (s_pending s') -> In w (s_pending m))
  /\ same_but_app m s' /\ s_infl s' = s_infl m.
Proof.
  intros Hm Ht Hc. destruct (complete_waiters_spec _ _ _ _ Hc) as [S [I [cs [A [B [O [D C]]]]]]].
  split; [|split; [rewrite A; exact D|split; [|split; assumption]]].
  - intros r Hr. destruct (C r Hr) as [w' [F' [E [T Q]]]].
    destruct (Hm _ _ F') as [w [F M]]. exists w. split; [exact F|]. split.
    + rewrite B. intro Hin. apply ids_del_ids in Hin. destruct Hin as [_ Hin]. apply Hin.
      rewrite <- A. apply in_map. exact Hr.
    + intros _. exists w'. pose proof (find_w_op _ _ _ F') as Hop.
      destruct (same_hw _ _ S) as [Hh _].
      split; [exact Hop|]. split; [exact M|]. subst r. cbn [mk_reply r_items].
      split; [reflexivity|]. split; [exact T|]. split.
      * intros q Hq. rewrite Forall_forall in Ht. apply (Ht w' (find_w_In _ _ _ F') T q Hq).
      * intro Mq. rewrite Hh. apply Q. rewrite M. exact Mq.
  - intros w Hw. rewrite B in Hw. apply del_ids_In in Hw. tauto.
Qed.
