(* Proof/Backup_findings.v — C11: the model-side twins of the known findings, each a concrete
   witness evaluated by vm_compute (checksum = the CRC-32 of case evaluation). *)
From WK Require Import Base.Base Base.Bytes Gen.Consts_C11 Model.Crc32 Model.Backup Model.Backup_C11.
Open Scope N_scope.

(* ---- C11-K1: the exported section carries a retention row whose RetainedMaxSeq is above the cut.
   Source channel "a": rows 2 and 3 (row 1 trimmed), retention row with RetainedMaxSeq = 3,
   committed cut hw = 2.  The export succeeds, ships the retention row verbatim and no row
   above 2; the log end a store derives from it, max(last row, RetainedMaxSeq), is 3. *)
Definition k1_retention : sys_entry := SE (hx "0101000161120000000100020000") (hx "01000000000000000100000000000000010000000000000003") 4 0 0 true 0.
Definition k1_src : chan_dump :=
  CHD (hx "61") (Some (hx "6361", 1)) 0 (Some (enc_checkpoint 1 1 2)) (Some (0, 3))
      [k1_retention]
      [RW 2 (hx "aa") (hx "bb") 12 0 true true; RW 3 (hx "cc") (hx "dd") 13 0 true true].
Definition k1_cut : cut := CUT (hx "61") (hx "6361") 1 1 1 2.
Definition k1_vt : valid_table := [(hx "61", 2, [se_key k1_retention], 0)].

(* the log end recoverLEO derives: greatest row sequence, raised to RetainedMaxSeq *)
Definition dump_leo (rows : list raw_row) (retained : N) : N :=
  N.max (fold_left (fun a r => N.max a (rr_seq r)) rows 0) retained.

Lemma k1_restored_leo_above_cut_refuted :
  exists s, export_chan k1_vt k1_src k1_cut = Ok s
            /\ In (se_key k1_retention, se_val k1_retention) (rc_sys s)
            /\ Forall (fun r => rr_seq r <= cu_hw k1_cut) (rc_rows s)
            /\ cu_hw k1_cut < dump_leo (rc_rows s) 3.
Proof.
  eexists. split; [vm_compute; reflexivity|]. split; [left; reflexivity|]. split.
  - repeat constructor; vm_compute; discriminate.
  - vm_compute. reflexivity.
Qed.

(* ---- C11-K4: with token invalidation a rejected stream is applied partially.
   The store holds a user row "old" in hash slot 7; the stream (hash slot 7, one user row whose
   value 0xff has no length-prefixed token) is sealed and every key lies in the slot; the restore
   importer answers ErrCorruptValue (3) and the old row is gone. *)
Definition k4_old : kv := (hx "02020007100000000100036f6c640000", hx "00046b656570").
Definition k4_bad : kv := (hx "02020007100000000100027a7a0000", hx "ff").
Definition k4_stream : bytes := seal crc (enc_meta_payload (RM [7] 1 [k4_bad])).

Lemma k4_invalidate_partial_refuted :
  exists db', import_meta crc None [7] true true k4_stream [k4_old] = (db', Err ECorruptValue)
              /\ db' <> [k4_old]
              /\ in_slots [7] (fst k4_bad) = true.
Proof.
  exists []. split; [vm_compute; reflexivity|]. split; [discriminate|vm_compute; reflexivity].
Qed.

(* the same stream without token invalidation is installed *)
Example k4_without_invalidation_installs :
  import_meta crc None [7] true false k4_stream [k4_old] = ([k4_bad], Ok 1).
Proof. vm_compute. reflexivity. Qed.
