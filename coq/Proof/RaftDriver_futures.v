(* Proof/RaftDriver_futures.v — C12: a future that reports success for (index,
   term) belongs to the entry applied there — PROVIDED the entries a Ready asks to
   persist while futures wait in submittedProposals are this node's own proposals in
   submission order (LocalAppend).  slot.trackReadyEntries does not check that, and
   etcd/raft forwards a proposal made on a follower: without LocalAppend the
   statement is false (c12_future_index_refuted, Properties/C12.v). *)
From WK Require Import Base.Base Model.RaftDriver Proof.RaftDriver_lists Proof.RaftDriver_exec
  Proof.RaftDriver_inv Proof.RaftDriver_steps.
From Coq Require Import Sorted ZifyBool ZifyN ZifyNat.
Open Scope N_scope.

(* which future slot.trackReadyEntries gives to which entry *)
Fixpoint assigned (ents : list entry) (sub : list N) : list (entry * N) :=
  match ents with
  | [] => []
  | e :: r =>
      match e_kind e, sub with
      | KNormal, f :: sub' => (e, f) :: assigned r sub'
      | _, _ => assigned r sub
      end
  end.

Section Futures.

Variable clog : N -> entry.
Hypothesis clog_idx : forall i, e_idx (clog i) = i.
Variable GS : entry -> Prop.

(* Log Matching against the committed log: an entry with the index and the term of a committed
   entry IS that entry *)
Definition LM (ents : list entry) : Prop :=
  forall e, In e ents -> e_term e = e_term (clog (e_idx e)) -> e = clog (e_idx e).

(* LocalAppend: every entry that takes a waiting future carries that future's command *)
Definition LA (sub : list N) (ents : list entry) : Prop :=
  forall e f, In (e, f) (assigned ents sub) -> e_cmd e = f.

Definition TrackFut (s : node) (ents : list entry) : Prop := LM ents /\ LA (v_submitted s) ents.

Lemma TrackFut_submitted s s' ents : v_submitted s' = v_submitted s -> TrackFut s ents -> TrackFut s' ents.
Proof. unfold TrackFut. intros ->. auto. Qed.

Notation INV := (INV clog GS).
Notation mop_valid := (mop_valid clog GS TrackFut).

Definition bound_ok (i t f : N) : Prop :=
  t = e_term (clog i) -> clog i = Entry i t KNormal f.

Record FINV (s : node) : Prop := mkFINV {
  f_pending : forall i t f, pend_get (v_pending s) i = Some (t, f) -> bound_ok i t f;
  f_done : forall f i t d, In (f, FutOk i t d) (n_futs s) ->
             clog i = Entry i t KNormal f /\ d = Some f /\ In (clog i) (applied_tr (n_tr s))
}.

(* ---- pending map ------------------------------------------------------------------------------------ *)

Lemma pend_get_del p i j : pend_get (pend_del p i) j = if i =? j then None else pend_get p j.
Proof.
  unfold pend_del. induction p as [|[k v] p IH]; cbn [filter pend_get fst].
  - destruct (i =? j); reflexivity.
  - destruct (N.eqb_spec k i) as [->|Hki]; cbn [negb].
    + rewrite IH. destruct (i =? j); reflexivity.
    + cbn [pend_get]. rewrite IH. destruct (N.eqb_spec k j) as [->|Hkj].
      * destruct (N.eqb_spec i j) as [->|_]; [congruence | reflexivity].
      * reflexivity.
Qed.

Lemma pend_get_set p i v j : pend_get (pend_set p i v) j = if i =? j then Some v else pend_get p j.
Proof.
  unfold pend_set. cbn [pend_get]. destruct (i =? j) eqn:E; [reflexivity|].
  rewrite pend_get_del, E. reflexivity.
Qed.

Lemma track_pend ents : forall sub pend i t f,
  pend_get (snd (trackReadyEntries ents sub pend)) i = Some (t, f) ->
  pend_get pend i = Some (t, f)
  \/ exists e, In (e, f) (assigned ents sub) /\ In e ents /\ e_idx e = i /\ e_term e = t /\ e_kind e = KNormal.
Proof.
  induction ents as [|e r IH]; intros sub pend i t f H; cbn [trackReadyEntries assigned] in *; [left; exact H|].
  destruct (e_kind e) eqn:K.
  - destruct sub as [|f0 sub'].
    + destruct (IH _ _ _ _ _ H) as [A|(x & A & B & C)]; [left; exact A | right; exists x; split; [exact A|split; [right; exact B|exact C]]].
    + destruct (IH _ _ _ _ _ H) as [A|(x & A & B & C)].
      * rewrite pend_get_set in A. destruct (e_idx e =? i) eqn:E.
        -- injection A as <- <-. apply N.eqb_eq in E. right. exists e.
           split; [left; reflexivity|]. split; [left; reflexivity|]. repeat split; assumption.
        -- left. exact A.
      * right. exists x. split; [right; exact A|]. split; [right; exact B | exact C].
  - destruct (IH _ _ _ _ _ H) as [A|(x & A & B & C)]; [left; exact A | right; exists x; split; [exact A|split; [right; exact B|exact C]]].
  - destruct (IH _ _ _ _ _ H) as [A|(x & A & B & C)]; [left; exact A | right; exists x; split; [exact A|split; [right; exact B|exact C]]].
Qed.

Lemma entry_eta e : e = Entry (e_idx e) (e_term e) (e_kind e) (e_cmd e).
Proof. destruct e; reflexivity. Qed.

(* ---- preservation -------------------------------------------------------------------------------------- *)

Lemma FINV_grow s s' :
  v_pending s' = v_pending s -> n_futs s' = n_futs s ->
  (forall x, In x (applied_tr (n_tr s)) -> In x (applied_tr (n_tr s'))) ->
  FINV s -> FINV s'.
Proof.
  intros Ep Ef Ht [A B]. constructor.
  - rewrite Ep. exact A.
  - rewrite Ef. intros f i t d H. destruct (B f i t d H) as (X & Y & Z). repeat split; auto.
Qed.

Lemma resolveProposal_FINV e s :
  e = clog (e_idx e) -> In e (applied_tr (n_tr s)) -> FINV s -> FINV (resolveProposal e s).
Proof.
  intros He Hin [A B]. unfold resolveProposal.
  destruct (pend_get (v_pending s) (e_idx e)) as [[t f]|] eqn:P; [|constructor; assumption].
  destruct (t =? e_term e) eqn:Et; [|constructor; assumption].
  apply N.eqb_eq in Et. constructor; nsimpl.
  - intros i t' f' H. rewrite pend_get_del in H. destruct (e_idx e =? i); [discriminate|]. apply (A _ _ _ H).
  - intros f' i t' d H. apply in_app_or in H. destruct H as [H|[H|[]]]; [apply (B _ _ _ _ H)|].
    injection H as <- <- <- <-.
    assert (Hb : clog (e_idx e) = Entry (e_idx e) t KNormal f).
    { apply (A _ _ _ P). rewrite Et. f_equal. exact He. }
    split; [rewrite <- Et; exact Hb|]. split.
    + rewrite He, Hb. reflexivity.
    + rewrite <- He. exact Hin.
Qed.

Lemma completeResolutions_FINV ents : forall s,
  (forall e, In e ents -> e = clog (e_idx e) /\ In e (applied_tr (n_tr s))) ->
  FINV s -> FINV (completeResolutions ents s).
Proof.
  unfold completeResolutions. induction ents as [|e r IH]; intros s Hv H; cbn [fold_left]; [exact H|].
  apply IH.
  - intros x Hx. destruct (Hv x (or_intror Hx)) as [A B]. split; [exact A|].
    destruct (resolveProposal_core e s) as (_ & _ & _ & _ & _ & _ & _ & _ & _ & _ & _ & _ & _ & _ & Etr).
    rewrite Etr. exact B.
  - destruct (Hv e (or_introl eq_refl)) as [A B]. apply resolveProposal_FINV; assumption.
Qed.

Lemma failLeadershipDependent_FINV s : FINV s -> FINV (failLeadershipDependent s).
Proof.
  intros [A B]. unfold failLeadershipDependent. constructor; nsimpl.
  - intros i t f H. discriminate.
  - intros f i t d H. apply in_app_or in H. destruct H as [H|H]; [apply (B _ _ _ _ H)|].
    apply in_app_or in H. destruct H as [H|H]; apply in_map_iff in H; destruct H as (x & Hx & _); discriminate.
Qed.

Lemma refreshStatus_FINV l s : FINV s -> FINV (refreshStatus l s).
Proof.
  intro H. unfold refreshStatus. destruct (v_leader s && negb l).
  - pose proof (failLeadershipDependent_FINV s H) as [A B]. constructor; nsimpl; assumption.
  - destruct H as [A B]. constructor; nsimpl; assumption.
Qed.

Lemma tr_grow_app s ev x : In x (applied_tr (n_tr s)) -> In x (applied_tr (n_tr s ++ [ev])).
Proof. intro H. rewrite applied_tr_app. apply in_or_app. left. exact H. Qed.

Lemma FINV_exec o s : INV s -> FINV s -> live s -> mop_valid o s -> FINV (exec o s).
Proof.
  intros I H L V. destruct o as [hs ents snap|ents|ms|i c|c|idx|ents|t| |upto|l|i|i].
  - destruct (exec_save_live hs ents snap s L) as [(_ & _ & _ & E)|E]; rewrite E; [exact H|].
    unfold save_body. destruct snap as [[[i t] c]|]; cbn zeta;
      (eapply FINV_grow; [nsimpl; reflexivity | nsimpl; reflexivity | nsimpl; apply tr_grow_app | exact H]).
  - (* OTrack *)
    rewrite (exec_live _ _ L). cbn [RaftDriver_inv.mop_valid] in V. destruct V as [Vlm Vla].
    destruct (trackReadyEntries ents (v_submitted s) (v_pending s)) as [sub pend] eqn:E.
    destruct H as [A B]. constructor; nsimpl; [|exact B].
    intros i t f Hg.
    assert (Hg' : pend_get (snd (trackReadyEntries ents (v_submitted s) (v_pending s))) i = Some (t, f)) by (rewrite E; exact Hg).
    destruct (track_pend _ _ _ _ _ _ Hg') as [Hold|(e & Has & Hin & Hi & Ht & Hk)]; [apply (A _ _ _ Hold)|].
    intro Hterm. subst i t.
    assert (He : e = clog (e_idx e)) by (apply Vlm; [exact Hin | exact Hterm]).
    rewrite <- He. rewrite (entry_eta e) at 1. rewrite Hk, (Vla e f Has). reflexivity.
  - rewrite (exec_live _ _ L). destruct ms as [|m ms]; [exact H|].
    eapply FINV_grow; [nsimpl; reflexivity | nsimpl; reflexivity | nsimpl; apply tr_grow_app | exact H].
  - rewrite (exec_live _ _ L).
    eapply FINV_grow; [nsimpl; reflexivity | nsimpl; reflexivity | nsimpl; apply tr_grow_app | exact H].
  - rewrite (exec_live _ _ L).
    eapply FINV_grow; [nsimpl; reflexivity | nsimpl; reflexivity | nsimpl; apply tr_grow_app | exact H].
  - rewrite (exec_live _ _ L). destruct (idx <=? v_applied s); [exact H|].
    destruct (markApplied (durable_sm s) (sm_idx s) idx).
    + eapply FINV_grow; [nsimpl; reflexivity | nsimpl; reflexivity | nsimpl; apply tr_grow_app | exact H].
    + eapply FINV_grow; [nsimpl; reflexivity | nsimpl; reflexivity | nsimpl; auto | exact H].
    + eapply FINV_grow; [nsimpl; reflexivity | nsimpl; reflexivity | nsimpl; auto | exact H].
  - rewrite (exec_live _ _ L). cbn [RaftDriver_inv.mop_valid] in V. apply completeResolutions_FINV; assumption.
  - rewrite (exec_live _ _ L). eapply FINV_grow; [nsimpl; reflexivity | nsimpl; reflexivity | nsimpl; auto | exact H].
  - rewrite (exec_live _ _ L). eapply FINV_grow; [nsimpl; reflexivity | nsimpl; reflexivity | nsimpl; auto | exact H].
  - rewrite (exec_live _ _ L). eapply FINV_grow; [nsimpl; reflexivity | nsimpl; reflexivity | nsimpl; auto | exact H].
  - rewrite (exec_live _ _ L). apply refreshStatus_FINV, H.
  - rewrite (exec_live _ _ L). destruct (durable_sm s); [|exact H].
    eapply FINV_grow; [nsimpl; reflexivity | nsimpl; reflexivity | nsimpl; apply tr_grow_app | exact H].
  - rewrite (exec_live _ _ L).
    eapply FINV_grow; [nsimpl; reflexivity | nsimpl; reflexivity | nsimpl; apply tr_grow_app | exact H].
Qed.

Lemma FINV_crash hard s : INV s -> FINV s -> FINV (crash hard s).
Proof.
  intros I H. unfold crash. destruct (v_up s); cbn [negb]; [|exact H].
  pose proof (failLeadershipDependent_FINV s H) as [A B].
  constructor; nsimpl.
  - intros i t f Hg. discriminate.
  - intros f i t d Hin. destruct (B f i t d Hin) as (X & Y & Z). split; [exact X|]. split; [exact Y|].
    apply tr_grow_app. exact Z.
Qed.

Lemma FINV_newSlot first s : INV s -> FINV s -> v_up s = false -> FINV (newSlot first s).
Proof.
  intros I H U. unfold newSlot. rewrite U.
  set (ev0 := EvBoot first (hs_term (d_hs s)) (hs_vote (d_hs s)) (hs_commit (d_hs s)) (d_applied s) (d_snap s) (sm_idx s)).
  set (start := newSlot_applied (durable_sm s) (d_snap s) (d_applied s) (sm_idx s)).
  set (s1 := set_pos start (set_volatile true false start start [] (emit ev0 s))).
  assert (H1 : FINV s1).
  { eapply FINV_grow; [unfold s1; nsimpl; reflexivity | unfold s1; nsimpl; reflexivity | unfold s1; nsimpl; apply tr_grow_app | exact H]. }
  destruct (negb (d_snap s =? 0)).
  - assert (L1 : live s1) by (split; reflexivity).
    rewrite (exec_live _ _ L1).
    set (s2 := emit (EvRestore (d_snap s)) (set_sm (d_snap s) (d_snapc s) (d_snap s) s1)).
    assert (H2 : FINV s2).
    { eapply FINV_grow; [unfold s2; nsimpl; reflexivity | unfold s2; nsimpl; reflexivity | unfold s2; nsimpl; apply tr_grow_app | exact H1]. }
    eapply FINV_grow; [nsimpl; reflexivity | nsimpl; reflexivity | nsimpl; apply tr_grow_app | exact H2].
  - eapply FINV_grow; [nsimpl; reflexivity | nsimpl; reflexivity | nsimpl; apply tr_grow_app | exact H1].
Qed.

Lemma FINV_propose cmd acc s : INV s -> FINV s -> FINV (step_node (SPropose cmd acc) s).
Proof.
  intros I [A B]. cbn [step_node]. destruct (v_up s && negb (v_failed s)); [|constructor; assumption].
  destruct acc; constructor; nsimpl; try assumption.
  intros f i t d H. apply in_app_or in H. destruct H as [H|[H|[]]]; [apply (B _ _ _ _ H) | discriminate].
Qed.

Theorem run_FINV sched :
  sched_ok clog GS TrackFut sched start_node -> FINV (run true sched).
Proof.
  intro Hok. apply (run_P clog clog_idx GS TrackFut TrackFut_submitted FINV); try assumption.
  - apply FINV_exec.
  - apply FINV_crash.
  - apply FINV_newSlot.
  - apply FINV_propose.
  - constructor; unfold init_node; nsimpl.
    + intros i t f H. discriminate.
    + intros f i t d [].
Qed.

End Futures.
