(* Proof/Backup_import.v — C11, part 2: the streaming importers.
   - what they accept is a sealed, completely framed stream;
   - every truncation of an accepted stream is rejected and leaves the target untouched;
   - a corrupted payload under the same trailer is rejected or exhibits a checksum
     collision; a corrupted trailer is rejected;
   - rejection during validation never touches the target, and on a target that does not
     hold the channels an uncancelled import that validated installs completely. *)
From WK Require Import Base.Base Base.Bytes Gen.Consts_C11 Model.Backup Proof.Backup.
From Coq Require Import ZifyBool ZifyN ZifyNat.
Open Scope N_scope.

Lemma bytes_ltb_irrefl : forall a, bytes_ltb a a = false.
Proof.
  induction a as [|x a IH]; [reflexivity|]. cbn [bytes_ltb]. rewrite N.ltb_irrefl, N.eqb_refl, IH. reflexivity.
Qed.

Lemma bytes_ltb_trans : forall a b c, bytes_ltb a b = true -> bytes_ltb b c = true -> bytes_ltb a c = true.
Proof.
  induction a as [|x a IH]; intros b c H1 H2.
  - destruct b as [|y b]; [discriminate|]. destruct c as [|z c]; [discriminate|]. reflexivity.
  - destruct b as [|y b]; [discriminate|]. destruct c as [|z c]; [discriminate|].
    cbn [bytes_ltb] in *. apply orb_true_iff in H1. apply orb_true_iff in H2. apply orb_true_iff.
    destruct H1 as [H1|H1]; destruct H2 as [H2|H2].
    + left. apply N.ltb_lt in H1. apply N.ltb_lt in H2. apply N.ltb_lt. lia.
    + apply andb_true_iff in H2. destruct H2 as [E _]. apply N.eqb_eq in E. subst. left. exact H1.
    + apply andb_true_iff in H1. destruct H1 as [E _]. apply N.eqb_eq in E. subst. left. exact H2.
    + apply andb_true_iff in H1. apply andb_true_iff in H2. destruct H1 as [E1 L1]. destruct H2 as [E2 L2].
      apply N.eqb_eq in E1. apply N.eqb_eq in E2. subst. right. rewrite N.eqb_refl. cbn [andb]. eapply IH; eassumption.
Qed.


Section Import.
  Variable ck : bytes -> N.

  (* ---- the row loop reads exactly what the framing decoder reads ------------------------- *)
  Lemma read_rows_frames : forall n c hw prev os bs acc maxid rows c' mx rest,
    read_rows n c hw prev os bs acc maxid = (rows, Ok (c', mx, rest)) ->
    exists l, dec_row_list n bs = Some (l, rest) /\ rows = rev acc ++ l.
  Proof.
    induction n as [|n IH]; intros c hw prev os bs acc maxid rows c' mx rest H.
    - cbn [read_rows] in H. inversion H; subst. exists []. rewrite app_nil_r. split; reflexivity.
    - cbn [read_rows] in H. unfold read_row in H.
      destruct (ctx_check c) as [c1|]; [|inversion H].
      cbn [dec_row_list].
      destruct (get_be 8 bs) as [[sq r0]|]; [|inversion H].
      destruct ((sq =? 0) || (hw <? sq) || (negb (prev =? 0) && (sq <=? prev))); [inversion H|].
      destruct (get_field maxMessageBackupStreamFieldBytes r0) as [[h r1]|]; [|inversion H].
      destruct (get_field maxMessageBackupStreamFieldBytes r1) as [[p r2]|]; [|inversion H].
      destruct (hd_error os) as [[[[e mid] chan_ok] ident_ok]|]; [|inversion H].
      destruct (negb (e =? 0)); [inversion H|].
      destruct (negb chan_ok); [inversion H|].
      destruct (negb ident_ok); [inversion H|].
      apply IH in H. destruct H as (l & Hd & Hr). rewrite Hd.
      exists (RR sq h p :: l). split; [reflexivity|]. rewrite Hr. cbn [rev]. rewrite <- app_assoc. reflexivity.
  Qed.

  Lemma parse_chan_header_frames prev bs h r :
    parse_chan_header prev bs = Ok (h, r) -> dec_chan_header bs = Some (h, r).
  Proof.
    unfold parse_chan_header, dec_chan_header.
    destruct (get_field _ bs) as [[key r1]|]; [|discriminate].
    destruct (get_field _ r1) as [[id r2]|]; [|discriminate].
    destruct r2 as [|ty r3]; [discriminate|].
    destruct (bytes_eqb key [] || bytes_eqb id [] || (negb (bytes_eqb prev []) && negb (bytes_ltb prev key))); [discriminate|].
    destruct (take 24 r3) as [[ckp r4]|]; [|discriminate].
    destruct (get_uvarint r4) as [[nsys r5]|]; [|discriminate].
    destruct (maxMessageBackupSystemEntries <? nsys); [discriminate|].
    destruct (dec_sys_list (bounded nsys r5) r5) as [[sys r6]|]; [|discriminate].
    destruct (negb (forallb _ sys)); [discriminate|].
    destruct (get_uvarint r6) as [[cnt r7]|]; [|discriminate].
    destruct (9223372036854775807 <? cnt); [discriminate|].
    intro H. inversion H; subst. reflexivity.
  Qed.

  Lemma parse_chans_frames : forall install n c prev orc bs tgt msgs maxid tgt' c' m mx rest,
    parse_chans install n c prev orc bs tgt msgs maxid = (tgt', Ok (c', m, mx, rest)) ->
    exists l, dec_chan_list n bs = Some (l, rest).
  Proof.
    induction n as [|n IH]; intros c prev orc bs tgt msgs maxid tgt' c' m mx rest H.
    - cbn [parse_chans] in H. inversion H; subst. exists []. reflexivity.
    - cbn [parse_chans] in H.
      destruct (ctx_check c) as [c1|]; [|inversion H].
      destruct (parse_chan_header prev bs) as [[h r7]|e] eqn:Eh; [|inversion H].
      apply parse_chan_header_frames in Eh.
      destruct orc as [|o orc']; [inversion H|].
      destruct (negb (co_valid o =? 0)); [inversion H|].
      destruct (negb (co_ident_err o =? 0)); [inversion H|].
      match type of H with (if ?cf then _ else _) = _ => destruct cf end; [inversion H|].
      destruct (read_rows (bounded (rc_count h) r7) c1 (ckpt_hw (rc_ckpt h)) 0 (co_rows o) r7 [] 0)
        as [rows [[[c2 mx2] rest2]|e]] eqn:Er; [|inversion H].
      apply read_rows_frames in Er. destruct Er as (l & Hd & _).
      destruct (18446744073709551615 - msgs <? rc_count h); [inversion H|].
      apply IH in H. destruct H as (l2 & Hd2).
      cbn [dec_chan_list]. unfold dec_chan. rewrite Eh, Hd, Hd2. eexists. reflexivity.
  Qed.

  (* one pass that succeeds has read a complete framing with nothing left over *)
  Theorem parse_stream_frames install c orc p tgt tgt' c' st :
    parse_stream install c orc p tgt = (tgt', Ok (c', st)) ->
    exists s, dec_msg_payload p = Some (s, []) /\ rs_hash_slot s = st_hash_slot st.
  Proof.
    unfold parse_stream, dec_msg_payload.
    destruct (take 4 p) as [[mg r0]|]; [|intro H; inversion H].
    destruct (negb (bytes_eqb mg msgMagic)); [intro H; inversion H|].
    destruct (get_be 2 r0) as [[ver r1]|]; [|intro H; inversion H].
    destruct (negb (ver =? msgVersion)); [intro H; inversion H|].
    destruct (get_be 2 r1) as [[hs r2]|]; [|intro H; inversion H].
    destruct (get_be 4 r2) as [[n r3]|]; [|intro H; inversion H].
    destruct (maxMessageBackupStreamChannels <? n); [intro H; inversion H|].
    destruct (parse_chans install (bounded n r3) c [] orc r3 tgt 0 0) as [tgt1 [[[[c1 m] mx] rest]|e]] eqn:Ep;
      [|intro H; inversion H].
    apply parse_chans_frames in Ep. destruct Ep as (l & Hd).
    destruct rest as [|b rest]; [|intro H; inversion H].
    intro H. inversion H; subst. rewrite Hd. eexists. split; reflexivity.
  Qed.

  (* ---- what ImportBackupSnapshotReader accepts ----------------------------------------------- *)
  Theorem import_accepts_framed c orc stream tgt tgt' st :
    import_reader ck c orc stream tgt = (tgt', Ok st) ->
    exists p s, verify_checksum ck stream = Ok p /\ dec_msg_payload p = Some (s, []).
  Proof.
    unfold import_reader.
    destruct (verify_checksum ck stream) as [p|e] eqn:Ev; [|intro H; inversion H].
    destruct (parse_stream false c orc p tgt) as [t1 [[c1 st1]|e]] eqn:E1; [|intro H; inversion H].
    intros _. apply parse_stream_frames in E1. destruct E1 as (s & Hd & _). exists p, s. split; [reflexivity|exact Hd].
  Qed.

  (* an import that fails before the install pass returns the target it was given *)
  Theorem import_validation_error_untouched c orc stream tgt tgt' e :
    import_reader ck c orc stream tgt = (tgt', Err e) ->
    (verify_checksum ck stream = Err e \/ exists p, verify_checksum ck stream = Ok p /\ snd (parse_stream false c orc p tgt) = Err e) ->
    tgt' = tgt.
  Proof.
    unfold import_reader. intros H [Hv|(p & Hv & Hp)].
    - rewrite Hv in H. inversion H. reflexivity.
    - rewrite Hv in H. destruct (parse_stream false c orc p tgt) as [t1 [[c1 st1]|e1]]; cbn [snd] in Hp; [discriminate|].
      inversion H. reflexivity.
  Qed.

  Lemma verify_checksum_payload stream p :
    verify_checksum ck stream = Ok p -> (16 <= length stream)%nat /\ p = firstn (length stream - 4) stream
                                        /\ ck p = be_get (skipn (length stream - 4) stream).
  Proof.
    unfold verify_checksum. destruct (Nat.ltb (length stream) 16) eqn:El; [discriminate|].
    apply Nat.ltb_ge in El.
    destruct (ck (firstn (length stream - 4) stream) =? be_get (skipn (length stream - 4) stream)) eqn:Ec; [|discriminate].
    intro H. inversion H; subst. apply N.eqb_eq in Ec. auto.
  Qed.

  (* every truncation of an accepted stream is rejected, whatever the context, the oracle
     tables and the target are, and the target is returned unchanged *)
  Theorem truncation_rejected c orc stream tgt tgt' st n :
    import_reader ck c orc stream tgt = (tgt', Ok st) -> (n < length stream)%nat ->
    forall c2 orc2 tgt2, exists e, import_reader ck c2 orc2 (firstn n stream) tgt2 = (tgt2, Err e).
  Proof.
    intros Hacc Hn c2 orc2 tgt2.
    apply import_accepts_framed in Hacc. destruct Hacc as (p & s & Hv & Hd).
    apply verify_checksum_payload in Hv. destruct Hv as (Hlen & Ep & _).
    unfold import_reader.
    destruct (verify_checksum ck (firstn n stream)) as [p2|e] eqn:Ev2; [|exists e; reflexivity].
    destruct (parse_stream false c2 orc2 p2 tgt2) as [t1 [[c1 st1]|e]] eqn:E1; [|exists e; reflexivity].
    exfalso.
    apply parse_stream_frames in E1. destruct E1 as (s2 & Hd2 & _).
    apply verify_checksum_payload in Ev2. destruct Ev2 as (Hlen2 & Ep2 & _).
    rewrite firstn_length in Hlen2, Ep2. rewrite Nat.min_l in Hlen2, Ep2 by lia.
    rewrite firstn_firstn in Ep2. rewrite Nat.min_l in Ep2 by lia.
    (* p2 is a strict prefix of p *)
    assert (Hp : p = p2 ++ skipn (n - 4) p).
    { subst p p2. rewrite <- (firstn_skipn (n - 4) (firstn (length stream - 4) stream)) at 1.
      rewrite firstn_firstn. rewrite Nat.min_l by lia. reflexivity. }
    refine (dec_msg_payload_prefix_free p s p2 (skipn (n - 4) p) Hd Hp _ s2 Hd2).
    intro E. apply (f_equal (@length N)) in E. rewrite skipn_length in E. subst p. rewrite firstn_length in E.
    rewrite Nat.min_l in E by lia. cbn [length] in E. lia.
  Qed.

  (* ---- corruption ---------------------------------------------------------------------------------- *)
  Definition ck_collision : Prop := exists a b : bytes, a <> b /\ ck a = ck b.

  (* two accepted streams that end in the same trailer have the same payload, or here is a collision *)
  Theorem same_trailer_same_payload s1 s2 p1 p2 :
    verify_checksum ck s1 = Ok p1 -> verify_checksum ck s2 = Ok p2 ->
    skipn (length s1 - 4) s1 = skipn (length s2 - 4) s2 ->
    p1 = p2 \/ ck_collision.
  Proof.
    intros H1 H2 Ht. apply verify_checksum_payload in H1. apply verify_checksum_payload in H2.
    destruct H1 as (_ & _ & C1). destruct H2 as (_ & _ & C2).
    destruct (list_eq_dec N.eq_dec p1 p2) as [E|N]; [left; exact E|].
    right. exists p1, p2. split; [exact N|]. rewrite C1, C2, Ht. reflexivity.
  Qed.

  Lemma be_get_inj a b : all_bytes a = true -> all_bytes b = true -> length a = length b -> be_get a = be_get b -> a = b.
  Proof.
    intros Ha Hb Hl E. rewrite <- (be_put_get a Ha), <- (be_put_get b Hb), Hl, E. reflexivity.
  Qed.

  (* the payload intact, the 4-byte trailer changed: rejected *)
  Theorem trailer_change_rejected p t t' :
    verify_checksum ck (p ++ t) = Ok p -> length t = 4%nat -> length t' = 4%nat ->
    all_bytes t = true -> all_bytes t' = true -> t' <> t ->
    verify_checksum ck (p ++ t') = Err EChecksum.
  Proof.
    intros H Lt Lt' Bt Bt' Hne. apply verify_checksum_payload in H. destruct H as (Hl & _ & C).
    assert (F : forall x, firstn (length p) (p ++ x) = p).
    { intro x. rewrite firstn_app, firstn_all, Nat.sub_diag. cbn [firstn]. apply app_nil_r. }
    assert (S : forall x, skipn (length p) (p ++ x) = x).
    { intro x. rewrite skipn_app, skipn_all, Nat.sub_diag. reflexivity. }
    rewrite app_length, Lt in Hl, C. replace (length p + 4 - 4)%nat with (length p) in C by lia.
    rewrite S in C.
    unfold verify_checksum. rewrite app_length, Lt'.
    assert (El : Nat.ltb (length p + 4) 16 = false) by (apply Nat.ltb_ge; lia). rewrite El.
    replace (length p + 4 - 4)%nat with (length p) by lia. rewrite F, S.
    destruct (ck p =? be_get t') eqn:E; [|reflexivity].
    apply N.eqb_eq in E. exfalso. apply Hne. apply be_get_inj; auto; [lia|congruence].
  Qed.

  (* ---- all-or-nothing on a target that does not hold the channels -------------------------- *)
  Definition absent (key : bytes) (tgt : list chan_dump) : Prop := find_dump key tgt = empty_dump key.

  Lemma find_dump_absent key : forall ds, existsb (fun d => bytes_eqb (ch_key d) key) ds = false -> find_dump key ds = empty_dump key.
  Proof.
    induction ds as [|d r IH]; cbn [existsb find_dump]; intro E; [reflexivity|].
    apply orb_false_iff in E. destruct E as [E1 E2]. rewrite E1. apply IH. exact E2.
  Qed.

  Lemma find_dump_insert_other key x : ch_key x <> key -> forall ds, find_dump key (insert_dump x ds) = find_dump key ds.
  Proof.
    intros Hne. induction ds as [|d r IH]; cbn [insert_dump find_dump].
    - destruct (bytes_eqb (ch_key x) key) eqn:E; [apply bytes_eqb_eq in E; contradiction|reflexivity].
    - destruct (bytes_ltb (ch_key x) (ch_key d)); cbn [find_dump].
      + destruct (bytes_eqb (ch_key x) key) eqn:E; [apply bytes_eqb_eq in E; contradiction|reflexivity].
      + destruct (bytes_eqb (ch_key d) key); [reflexivity|exact IH].
  Qed.

  Lemma find_dump_insert_same x : forall ds,
    existsb (fun d => bytes_eqb (ch_key d) (ch_key x)) ds = false -> find_dump (ch_key x) (insert_dump x ds) = x.
  Proof.
    induction ds as [|d r IH]; cbn [existsb insert_dump find_dump]; intro E.
    - rewrite (proj2 (bytes_eqb_eq _ _) eq_refl). reflexivity.
    - apply orb_false_iff in E. destruct E as [E1 E2].
      destruct (bytes_ltb (ch_key x) (ch_key d)); cbn [find_dump].
      + rewrite (proj2 (bytes_eqb_eq _ _) eq_refl). reflexivity.
      + rewrite E1. apply IH. exact E2.
  Qed.

  Lemma find_dump_update_other key k f :
    (forall d, ch_key (f d) = ch_key d) -> key <> k ->
    forall tgt, find_dump key (update_dump k f tgt) = find_dump key tgt.
  Proof.
    intros Hf Hne tgt. unfold update_dump.
    destruct (existsb (fun d => bytes_eqb (ch_key d) k) tgt).
    - induction tgt as [|d r IH]; cbn [update_in_place find_dump]; [reflexivity|].
      destruct (bytes_eqb (ch_key d) k) eqn:Ek.
      + apply bytes_eqb_eq in Ek. cbn [find_dump]. rewrite Hf.
        destruct (bytes_eqb (ch_key d) key) eqn:Ekey; [apply bytes_eqb_eq in Ekey; congruence|reflexivity].
      + cbn [find_dump]. destruct (bytes_eqb (ch_key d) key); [reflexivity|exact IH].
    - apply find_dump_insert_other. rewrite Hf. cbn [ch_key empty_dump]. congruence.
  Qed.

  Lemma find_dump_update_same k f :
    (forall d, ch_key (f d) = ch_key d) ->
    forall tgt, find_dump k (update_dump k f tgt) = f (find_dump k tgt).
  Proof.
    intros Hf tgt. unfold update_dump.
    destruct (existsb (fun d => bytes_eqb (ch_key d) k) tgt) eqn:Ex.
    - induction tgt as [|d r IH]; cbn [existsb] in Ex; [discriminate|].
      cbn [update_in_place find_dump]. destruct (bytes_eqb (ch_key d) k) eqn:Ek.
      + cbn [find_dump]. rewrite Hf, Ek. reflexivity.
      + cbn [orb] in Ex. cbn [find_dump]. rewrite Ek. apply IH. exact Ex.
    - rewrite (find_dump_absent _ _ Ex).
      assert (Hk : ch_key (f (empty_dump k)) = k) by (rewrite Hf; reflexivity).
      rewrite <- Hk at 1. apply find_dump_insert_same. rewrite Hk. exact Ex.
  Qed.

  Lemma install_meta_key h d : ch_key (install_meta h d) = ch_key d.
  Proof. reflexivity. Qed.
  Lemma install_rows_key rows d : ch_key (install_rows rows d) = ch_key d.
  Proof. reflexivity. Qed.

  (* without a context the context stays absent *)
  Lemma read_rows_none : forall n hw prev os bs acc maxid rows c' mx rest,
    read_rows n None hw prev os bs acc maxid = (rows, Ok (c', mx, rest)) -> c' = None.
  Proof.
    induction n as [|n IH]; intros hw prev os bs acc maxid rows c' mx rest H; cbn [read_rows] in H.
    - inversion H. reflexivity.
    - unfold read_row in H. cbn [ctx_check] in H.
      destruct (get_be 8 bs) as [[sq r0]|]; [|inversion H].
      destruct ((sq =? 0) || (hw <? sq) || (negb (prev =? 0) && (sq <=? prev))); [inversion H|].
      destruct (get_field maxMessageBackupStreamFieldBytes r0) as [[h r1]|]; [|inversion H].
      destruct (get_field maxMessageBackupStreamFieldBytes r1) as [[p r2]|]; [|inversion H].
      destruct (hd_error os) as [[[[e mid] chan_ok] ident_ok]|]; [|inversion H].
      destruct (negb (e =? 0)); [inversion H|]. destruct (negb chan_ok); [inversion H|]. destruct (negb ident_ok); [inversion H|].
      eapply IH. exact H.
  Qed.

  (* the validation pass never changes the target; the install pass, run on a target that
     holds none of the remaining channels, follows it step by step *)
  Lemma install_follows_validate : forall n prev orc bs tgt msgs maxid t1 m mx rest,
    parse_chans false n None prev orc bs tgt msgs maxid = (t1, Ok (None, m, mx, rest)) ->
    (forall key, prev = [] \/ bytes_ltb prev key = true -> absent key tgt) ->
    t1 = tgt /\ exists tgt', parse_chans true n None prev orc bs tgt msgs maxid = (tgt', Ok (None, m, mx, rest)).
  Proof.
    induction n as [|n IH]; intros prev orc bs tgt msgs maxid t1 m mx rest H Habs.
    - cbn [parse_chans] in *. inversion H; subst. split; [reflexivity|]. eexists. reflexivity.
    - cbn [parse_chans] in *. cbn [ctx_check] in *.
      destruct (parse_chan_header prev bs) as [[h r7]|e] eqn:Eh; [|inversion H].
      destruct orc as [|o orc']; [inversion H|].
      destruct (negb (co_valid o =? 0)); [inversion H|].
      destruct (negb (co_ident_err o =? 0)); [inversion H|].
      cbn [andb] in H.
      (* the key of this section is above the previous one, hence absent from the target *)
      assert (Hkey : prev = [] \/ bytes_ltb prev (rc_key h) = true).
      { unfold parse_chan_header in Eh.
        destruct (get_field _ bs) as [[key r1]|]; [|discriminate].
        destruct (get_field _ r1) as [[id r2]|]; [|discriminate].
        destruct r2 as [|ty r3]; [discriminate|].
        destruct (bytes_eqb key [] || bytes_eqb id [] || (negb (bytes_eqb prev []) && negb (bytes_ltb prev key))) eqn:Ec; [discriminate|].
        destruct (take 24 r3) as [[ckp r4]|]; [|discriminate].
        destruct (get_uvarint r4) as [[nsys r5]|]; [|discriminate].
        destruct (maxMessageBackupSystemEntries <? nsys); [discriminate|].
        destruct (dec_sys_list (bounded nsys r5) r5) as [[sys r6]|]; [|discriminate].
        destruct (negb (forallb _ sys)); [discriminate|].
        destruct (get_uvarint r6) as [[cnt r7']|]; [|discriminate].
        destruct (9223372036854775807 <? cnt); [discriminate|].
        inversion Eh; subst. cbn [rc_key].
        apply orb_false_iff in Ec. destruct Ec as [_ Ec]. apply andb_false_iff in Ec.
        destruct Ec as [Ec|Ec].
        - left. apply negb_false_iff in Ec. apply bytes_eqb_eq in Ec. exact Ec.
        - right. apply negb_false_iff in Ec. exact Ec. }
      pose proof (Habs (rc_key h) Hkey) as Hab. unfold absent in Hab. rewrite Hab. cbn [ch_cat ch_ckpt empty_dump orb andb].
      destruct (read_rows (bounded (rc_count h) r7) None (ckpt_hw (rc_ckpt h)) 0 (co_rows o) r7 [] 0)
        as [rows [[[c2 mx2] rest2]|e]] eqn:Er; [|inversion H].
      assert (c2 = None) by (eapply read_rows_none; exact Er). subst c2.
      destruct (18446744073709551615 - msgs <? rc_count h); [inversion H|].
      set (tgt2 := update_dump (rc_key h) (install_rows rows) (update_dump (rc_key h) (install_meta h) tgt)).
      destruct (IH (rc_key h) orc' rest2 tgt (msgs + rc_count h) (N.max maxid mx2) t1 m mx rest H) as (Et & _).
      { intros key [E|L]; apply Habs.
        - (* the key of an accepted section is not empty *)
          exfalso. unfold parse_chan_header in Eh.
          destruct (get_field _ bs) as [[key0 r1]|]; [|discriminate].
          destruct (get_field _ r1) as [[id r2]|]; [|discriminate].
          destruct r2 as [|ty r3]; [discriminate|].
          destruct (bytes_eqb key0 [] || bytes_eqb id [] || (negb (bytes_eqb prev []) && negb (bytes_ltb prev key0))) eqn:Ec; [discriminate|].
          destruct (take 24 r3) as [[ckp r4]|]; [|discriminate].
          destruct (get_uvarint r4) as [[nsys r5]|]; [|discriminate].
          destruct (maxMessageBackupSystemEntries <? nsys); [discriminate|].
          destruct (dec_sys_list (bounded nsys r5) r5) as [[sys r6]|]; [|discriminate].
          destruct (negb (forallb _ sys)); [discriminate|].
          destruct (get_uvarint r6) as [[cnt r7']|]; [|discriminate].
          destruct (9223372036854775807 <? cnt); [discriminate|].
          inversion Eh; subst. cbn [rc_key] in E. subst key0. cbn in Ec. discriminate.
        - destruct Hkey as [Hp|Hp]; [left; exact Hp|right; eapply bytes_ltb_trans; eassumption]. }
      split; [exact Et|].
      destruct (IH (rc_key h) orc' rest2 tgt2 (msgs + rc_count h) (N.max maxid mx2)) with (t1 := tgt2) (m := m) (mx := mx) (rest := rest)
        as (_ & tgt' & Hinst).
      + (* the validation pass does not depend on the target *)
        clear - H. revert H. generalize (msgs + rc_count h) (N.max maxid mx2) (rc_key h). intros a b k H.
        assert (Hgen : forall n prev orc bs ta tb msgs maxid r,
                   snd (parse_chans false n None prev orc bs ta msgs maxid) = r ->
                   parse_chans false n None prev orc bs tb msgs maxid = (tb, r)).
        { clear. induction n as [|n IHn]; intros prev orc bs ta tb msgs maxid r Hr; cbn [parse_chans] in *; cbn [ctx_check] in *.
          - subst r. reflexivity.
          - destruct (parse_chan_header prev bs) as [[h r7]|e]; [|subst r; reflexivity].
            destruct orc as [|o orc']; [subst r; reflexivity|].
            destruct (negb (co_valid o =? 0)); [subst r; reflexivity|].
            destruct (negb (co_ident_err o =? 0)); [subst r; reflexivity|].
            cbn [andb] in *.
            destruct (read_rows (bounded (rc_count h) r7) None (ckpt_hw (rc_ckpt h)) 0 (co_rows o) r7 [] 0)
              as [rows [[[c2 mx2] rest2]|e]] eqn:Er2; [|subst r; reflexivity].
            assert (c2 = None) by (eapply read_rows_none; exact Er2). subst c2.
            destruct (18446744073709551615 - msgs <? rc_count h); [subst r; reflexivity|].
            eapply IHn. exact Hr. }
        apply (Hgen _ _ _ _ tgt tgt2). rewrite H. reflexivity.
      + intros key [E|L].
        * exfalso. (* as above: the key of an accepted section is not empty *)
          unfold parse_chan_header in Eh.
          destruct (get_field _ bs) as [[key0 r1]|]; [|discriminate].
          destruct (get_field _ r1) as [[id r2]|]; [|discriminate].
          destruct r2 as [|ty r3]; [discriminate|].
          destruct (bytes_eqb key0 [] || bytes_eqb id [] || (negb (bytes_eqb prev []) && negb (bytes_ltb prev key0))) eqn:Ec; [discriminate|].
          destruct (take 24 r3) as [[ckp r4]|]; [|discriminate].
          destruct (get_uvarint r4) as [[nsys r5]|]; [|discriminate].
          destruct (maxMessageBackupSystemEntries <? nsys); [discriminate|].
          destruct (dec_sys_list (bounded nsys r5) r5) as [[sys r6]|]; [|discriminate].
          destruct (negb (forallb _ sys)); [discriminate|].
          destruct (get_uvarint r6) as [[cnt r7']|]; [|discriminate].
          destruct (9223372036854775807 <? cnt); [discriminate|].
          inversion Eh; subst. cbn [rc_key] in E. subst key0. cbn in Ec. discriminate.
        * assert (Hne : key <> rc_key h).
          { intro E. subst key. rewrite bytes_ltb_irrefl in L. discriminate. }
          unfold absent, tgt2.
          rewrite (find_dump_update_other key (rc_key h) _ (install_rows_key rows) Hne).
          rewrite (find_dump_update_other key (rc_key h) _ (install_meta_key h) Hne).
          apply Habs. destruct Hkey as [Hp|Hp]; [left; exact Hp|right; eapply bytes_ltb_trans; eassumption].
      + exists tgt'. fold tgt2. exact Hinst.
  Qed.

  Lemma parse_chans_none : forall install n prev orc bs tgt msgs maxid t c' m mx rest,
    parse_chans install n None prev orc bs tgt msgs maxid = (t, Ok (c', m, mx, rest)) -> c' = None.
  Proof.
    induction n as [|n IH]; intros prev orc bs tgt msgs maxid t c' m mx rest H; cbn [parse_chans] in H.
    - inversion H. reflexivity.
    - cbn [ctx_check] in H.
      destruct (parse_chan_header prev bs) as [[h r7]|e]; [|inversion H].
      destruct orc as [|o orc']; [inversion H|].
      destruct (negb (co_valid o =? 0)); [inversion H|].
      destruct (negb (co_ident_err o =? 0)); [inversion H|].
      match type of H with (if ?cf then _ else _) = _ => destruct cf end; [inversion H|].
      destruct (read_rows (bounded (rc_count h) r7) None (ckpt_hw (rc_ckpt h)) 0 (co_rows o) r7 [] 0)
        as [rows [[[c2 mx2] rest2]|e]] eqn:Er; [|inversion H].
      assert (c2 = None) by (eapply read_rows_none; exact Er). subst c2.
      destruct (18446744073709551615 - msgs <? rc_count h); [inversion H|].
      eapply IH. exact H.
  Qed.

  Lemma stats_eqb_refl st : stats_eqb st st = true.
  Proof. unfold stats_eqb. rewrite !N.eqb_refl. reflexivity. Qed.

  (* ImportBackupSnapshotReader without cancellation, on a target that holds none of the
     channels: either it rejects and returns the target untouched, or it succeeds *)
  Theorem import_all_or_nothing orc stream tgt tgt' r :
    (forall key, absent key tgt) ->
    import_reader ck None orc stream tgt = (tgt', r) ->
    (exists e, r = Err e /\ tgt' = tgt) \/ (exists st, r = Ok st).
  Proof.
    intros Habs. unfold import_reader.
    destruct (verify_checksum ck stream) as [p|e]; [|intro H; inversion H; left; eauto].
    destruct (parse_stream false None orc p tgt) as [t1 [[c1 st1]|e]] eqn:E1; [|intro H; inversion H; left; eauto].
    unfold parse_stream in *.
    destruct (take 4 p) as [[mg r0]|]; [|inversion E1].
    destruct (negb (bytes_eqb mg msgMagic)); [inversion E1|].
    destruct (get_be 2 r0) as [[ver r1]|]; [|inversion E1].
    destruct (negb (ver =? msgVersion)); [inversion E1|].
    destruct (get_be 2 r1) as [[hs r2]|]; [|inversion E1].
    destruct (get_be 4 r2) as [[n r3]|]; [|inversion E1].
    destruct (maxMessageBackupStreamChannels <? n); [inversion E1|].
    destruct (parse_chans false (bounded n r3) None [] orc r3 tgt 0 0) as [t2 [[[[c2 m] mx] rest]|e]] eqn:Ep; [|inversion E1].
    assert (c2 = None) by (eapply parse_chans_none; exact Ep). subst c2.
    destruct rest as [|b rest]; [|inversion E1].
    inversion E1; subst t1 c1 st1. clear E1.
    destruct (install_follows_validate _ _ _ _ _ _ _ _ _ _ _ Ep) as (_ & t3 & Hi).
    { intros key _. apply Habs. }
    rewrite Hi. rewrite stats_eqb_refl. intro H. inversion H. right. eauto.
  Qed.
End Import.

(* ====================================================================================== *)
(* The metadata importer                                                                      *)
Section MetaImport.
  Variable ck : bytes -> N.

  Lemma validate_entries_frames : forall n c slots bs c' rest,
    validate_entries n c slots bs = Ok (c', rest) ->
    exists l, dec_entry_list n bs = Some (l, rest) /\ forallb (fun e => in_slots slots (fst e)) l = true.
  Proof.
    induction n as [|n IH]; intros c slots bs c' rest H; cbn [validate_entries] in H.
    - inversion H; subst. exists []. split; reflexivity.
    - destruct (ctx_check c) as [c1|]; [|discriminate].
      cbn [dec_entry_list].
      destruct (dec_entry bs) as [[e r]|]; [|discriminate].
      destruct (in_slots slots (fst e)) eqn:Es; [|discriminate].
      apply IH in H. destruct H as (l & Hd & Hf). rewrite Hd. exists (e :: l). split; [reflexivity|].
      cbn [forallb]. rewrite Es, Hf. reflexivity.
  Qed.

  Lemma parse_meta_header_frames payload slots cnt body :
    parse_meta_header payload = Ok (slots, cnt, body) ->
    forall es rest, dec_entry_list (bounded cnt body) body = Some (es, rest) ->
    dec_meta_payload payload = Some (RM slots cnt es, rest).
  Proof.
    unfold parse_meta_header, dec_meta_payload.
    destruct (take 4 payload) as [[mg r0]|]; [|discriminate].
    destruct (negb (bytes_eqb mg metaMagic)); [discriminate|].
    destruct (get_be 2 r0) as [[ver r1]|]; [|discriminate].
    destruct (negb (ver =? metaVersion)); [discriminate|].
    destruct (get_be 2 r1) as [[ns r2]|]; [|discriminate].
    destruct (ns =? 0); [discriminate|].
    destruct (dec_u16_list (N.to_nat ns) r2) as [[sl r3]|]; [|discriminate].
    destruct (get_be 8 r3) as [[c r4]|]; [|discriminate].
    destruct (9223372036854775807 <? c); [discriminate|].
    intro H. inversion H; subst. intros es rest Hd. rewrite Hd. reflexivity.
  Qed.

  (* what importHashSlotSnapshotReader accepts is a sealed, completely framed stream whose
     entries all lie in the requested hash slots and whose slot list is the request's *)
  Theorem import_meta_accepts_framed c req preserve invalidate stream db db' cnt :
    import_meta ck c req preserve invalidate stream db = (db', Ok cnt) ->
    exists p s, verify_meta_checksum ck stream = Ok p /\ dec_meta_payload p = Some (s, [])
                /\ rm_slots s = normalize_slots req
                /\ forallb (fun e => in_slots (normalize_slots req) (fst e)) (rm_entries s) = true.
  Proof.
    unfold import_meta.
    destruct (ctx_check c) as [c0|]; [|intro H; inversion H].
    destruct req as [|r0 req']; [intro H; inversion H|].
    destruct (verify_meta_checksum ck stream) as [p|e]; [|intro H; inversion H].
    destruct (parse_meta_header p) as [[[sslots n] body]|e] eqn:Eh; [|intro H; inversion H].
    destruct (validate_entries (bounded n body) c0 (normalize_slots (r0 :: req')) body) as [[c1 rest]|e] eqn:Ev; [|intro H; inversion H].
    destruct rest as [|b rest]; [|intro H; inversion H].
    destruct (negb (list_eqb N.eqb sslots (normalize_slots (r0 :: req')))) eqn:Es; [intro H; inversion H|].
    intros _. apply validate_entries_frames in Ev. destruct Ev as (l & Hd & Hf).
    exists p, (RM sslots n l). split; [reflexivity|]. split; [eapply parse_meta_header_frames; eassumption|].
    cbn [rm_slots rm_entries]. split; [|exact Hf].
    apply negb_false_iff in Es. apply (proj1 (list_eqb_spec N.eqb N.eqb_eq _ _)) in Es. exact Es.
  Qed.

  (* an import that is rejected before the delete batch returns the store it was given:
     every error other than one raised while installing entries *)
  Theorem import_meta_rejected_untouched c req preserve stream db db' e :
    import_meta ck c req preserve false stream db = (db', Err e) -> e <> EOther -> db' = db.
  Proof.
    unfold import_meta.
    destruct (ctx_check c) as [c0|]; [|intro H; inversion H; reflexivity].
    destruct req as [|r0 req']; [intro H; inversion H; reflexivity|].
    destruct (verify_meta_checksum ck stream) as [p|e0]; [|intro H; inversion H; reflexivity].
    destruct (parse_meta_header p) as [[[sslots n] body]|e0]; [|intro H; inversion H; reflexivity].
    set (slots := normalize_slots (r0 :: req')).
    destruct (validate_entries (bounded n body) c0 slots body) as [[c1 rest]|e0] eqn:Ev; [|intro H; inversion H; reflexivity].
    destruct rest as [|b rest]; [|intro H; inversion H; reflexivity].
    destruct (negb (list_eqb N.eqb sslots slots)); [intro H; inversion H; reflexivity|].
    (* installing validated entries without token invalidation can only be interrupted *)
    assert (Hinst : forall n c bs d batch ne nb c' rest',
               validate_entries n c slots bs = Ok (c', rest') ->
               forall c2, (exists d', install_entries n c2 slots preserve false bs d batch ne nb = (d', Err EOther))
                          \/ (exists d' c3, install_entries n c2 slots preserve false bs d batch ne nb = (d', Ok (c3, rest')))).
    { clear. induction n as [|n IH]; intros c bs d batch ne nb c' rest' Hv c2; cbn [validate_entries install_entries] in *.
      - inversion Hv; subst. right. eauto.
      - destruct (ctx_check c) as [c1|]; [|discriminate].
        destruct (dec_entry bs) as [[[k v] r]|]; [|discriminate].
        cbn [fst] in Hv. destruct (in_slots slots k) eqn:Es; [|discriminate].
        destruct (ctx_check c2) as [c3|]; [|left; eauto].
        cbn [negb].
        match goal with |- context [if ?b then install_entries _ _ _ _ _ _ ?d1 _ _ _ else install_entries _ _ _ _ _ _ ?d2 ?b2 ?n2 ?m2] =>
          destruct b; [apply (IH c1 r d1 [] 0 0 c' rest' Hv c3)|apply (IH c1 r d2 b2 n2 m2 c' rest' Hv c3)] end. }
    intros H Hne.
    destruct (Hinst _ _ _ (mdb_delete_spans (flat_map (replace_spans preserve) slots) db) [] 0 0 _ _ Ev c1) as [(d' & Hi)|(d' & c3 & Hi)];
      rewrite Hi in H; inversion H; subst; contradiction.
  Qed.

  Lemma verify_meta_checksum_payload stream p :
    verify_meta_checksum ck stream = Ok p -> (20 <= length stream)%nat /\ p = firstn (length stream - 4) stream.
  Proof.
    unfold verify_meta_checksum. destruct (Nat.ltb (length stream) 20) eqn:El; [discriminate|].
    apply Nat.ltb_ge in El.
    destruct (ck (firstn (length stream - 4) stream) =? be_get (skipn (length stream - 4) stream)); [|discriminate].
    intro H. inversion H; subst. auto.
  Qed.

  (* every truncation of an accepted metadata stream is rejected *)
  Theorem meta_truncation_rejected c req preserve invalidate stream db db' cnt n :
    import_meta ck c req preserve invalidate stream db = (db', Ok cnt) -> (n < length stream)%nat ->
    forall c2 req2 pr2 inv2 db2, exists e, import_meta ck c2 req2 pr2 inv2 (firstn n stream) db2 = (db2, Err e).
  Proof.
    intros Hacc Hn c2 req2 pr2 inv2 db2.
    apply import_meta_accepts_framed in Hacc. destruct Hacc as (p & s & Hv & Hd & _ & _).
    apply verify_meta_checksum_payload in Hv. destruct Hv as (Hlen & Ep).
    unfold import_meta.
    destruct (ctx_check c2) as [c0|]; [|eexists; reflexivity].
    destruct req2 as [|r0 req']; [eexists; reflexivity|].
    destruct (verify_meta_checksum ck (firstn n stream)) as [p2|e] eqn:Ev2; [|eexists; reflexivity].
    destruct (parse_meta_header p2) as [[[sslots m] body]|e] eqn:Eh; [|eexists; reflexivity].
    destruct (validate_entries (bounded m body) c0 (normalize_slots (r0 :: req')) body) as [[c1 rest]|e] eqn:Eval; [|eexists; reflexivity].
    destruct rest as [|b rest]; [|eexists; reflexivity].
    exfalso.
    apply validate_entries_frames in Eval. destruct Eval as (l & Hd2 & _).
    pose proof (parse_meta_header_frames _ _ _ _ Eh _ _ Hd2) as Hd3.
    apply verify_meta_checksum_payload in Ev2. destruct Ev2 as (Hlen2 & Ep2).
    rewrite firstn_length in Hlen2, Ep2. rewrite Nat.min_l in Hlen2, Ep2 by lia.
    rewrite firstn_firstn in Ep2. rewrite Nat.min_l in Ep2 by lia.
    assert (Hp : p = p2 ++ skipn (n - 4) p).
    { subst p p2. rewrite <- (firstn_skipn (n - 4) (firstn (length stream - 4) stream)) at 1.
      rewrite firstn_firstn. rewrite Nat.min_l by lia. reflexivity. }
    refine (dec_meta_payload_prefix_free p s p2 (skipn (n - 4) p) Hd Hp _ _ Hd3).
    intro E. apply (f_equal (@length N)) in E. rewrite skipn_length in E. subst p. rewrite firstn_length in E.
    rewrite Nat.min_l in E by lia. cbn [length] in E. lia.
  Qed.
End MetaImport.
