(* Proof/RaftLog_ref.v — the reference Raft storage on Raft-valid requests:
   well-formedness is preserved and an accepted save has a closed form
   ([save_spec]) that the two implementations are compared against. *)
From WK Require Import Base.Base Gen.Consts_C14 Model.RaftLog Proof.RaftLog_lists.
From Coq Require Import ZifyBool ZifyN ZifyNat.
Open Scope N_scope.

(* ---- well-formed reference states *)

Definition wf (r : rstate) : Prop :=
  contiguous_from (r_sidx r + 1) (r_ents r) = true
  /\ forallb (fun e => e_idx e <? c14_MaxUint64) (r_ents r) = true
  /\ r_sidx r < c14_MaxUint64
  /\ (r_sidx r = 0 -> r_snap r = snap0)
  /\ (0 < r_sidx r -> conf_ok (s_conf (r_snap r)) = true /\ 0 < s_term (r_snap r))
  /\ (exists cs, ref_conf r = Some cs).

Lemma wf_rstate0 : wf rstate0.
Proof.
  unfold wf. split; [reflexivity|]. split; [reflexivity|].
  split; [unfold r_sidx; cbn; unfold c14_MaxUint64; lia|].
  split; [intros _; reflexivity|].
  split; [unfold r_sidx; cbn; intro H; exfalso; lia|].
  exists []. reflexivity.
Qed.

Lemma r_last_len r : r_last r = r_sidx r + len (r_ents r).
Proof. reflexivity. Qed.

(* ---- closed form of an accepted save *)

Definition append_spec (sidx : N) (base ents : list entry) : list entry :=
  match filterEntriesAfterSnapshot ents sidx with
  | [] => base
  | e0 :: es => firstn (N.to_nat (e_idx e0 - sidx - 1)) base ++ e0 :: es
  end.

(* what the code relies on: the retained entries continue the log without a hole *)
Definition append_ok (sidx : N) (base ents : list entry) : Prop :=
  match filterEntriesAfterSnapshot ents sidx with
  | [] => True
  | e0 :: es => contiguous_from (e_idx e0) (e0 :: es) = true
                /\ sidx + 1 <= e_idx e0 /\ e_idx e0 <= sidx + 1 + len base
  end.

Definition raise (h : hardstate) (snap : option snapshot) : hardstate :=
  match snap with
  | Some s => if hs_commit h <? s_idx s then set_commit h (s_idx s) else h
  | None => h
  end.

Definition spec_snap (r : rstate) (snap : option snapshot) : snapshot * list entry :=
  match snap with
  | Some s => if r_sidx r <? s_idx s
              then (s, skipn (N.to_nat (s_idx s - r_sidx r)) (r_ents r))
              else (r_snap r, r_ents r)
  | None => (r_snap r, r_ents r)
  end.

Definition save_spec (r : rstate) (hs : option hardstate) (ents : list entry) (snap : option snapshot) : rstate :=
  let h := raise (match hs with Some h => h | None => r_hs r end) snap in
  let p := spec_snap r snap in
  RS h (r_applied r) (r_cfg r) (fst p) (append_spec (s_idx (fst p)) (snd p) ents).

(* ---- MemoryStorage.Append against the closed form *)

Lemma ms_Append_spec r ents r2 :
  contiguous_from (r_sidx r + 1) (r_ents r) = true ->
  match ents with [] => true | e0 :: _ => contiguous_from (e_idx e0) ents end = true ->
  ms_Append r ents = Some r2 ->
  r2 = RS (r_hs r) (r_applied r) (r_cfg r) (r_snap r) (append_spec (r_sidx r) (r_ents r) ents)
  /\ append_ok (r_sidx r) (r_ents r) ents.
Proof.
  intros Hc He H. unfold ms_Append in H. unfold append_spec, append_ok, filterEntriesAfterSnapshot.
  destruct ents as [|e0 ents0].
  - assert (r2 = r) by congruence. subst r2. cbn [filter]. destruct r; split; [reflexivity|exact I].
  - set (ents := e0 :: ents0) in *.
    rewrite (filter_gt_skipn (e_idx e0) ents (r_sidx r) He).
    unfold r_first in H.
    destruct (e_idx e0 + N.of_nat (length ents) - 1 <? r_sidx r + 1) eqn:Hl.
    + assert (r2 = r) by congruence. subst r2.
      rewrite skipn_all2 by (subst ents; cbn [length] in *; lia).
      destruct r; split; [reflexivity|exact I].
    + assert (Hsk : (if e_idx e0 <? r_sidx r + 1 then skipn (N.to_nat (r_sidx r + 1 - e_idx e0)) ents else ents)
                    = skipn (N.to_nat (r_sidx r + 1 - e_idx e0)) ents).
      { destruct (e_idx e0 <? r_sidx r + 1) eqn:E; [reflexivity|].
        replace (N.to_nat (r_sidx r + 1 - e_idx e0)) with O by lia. reflexivity. }
      rewrite Hsk in H. clear Hsk.
      pose proof (contig_skipn (e_idx e0) ents (N.to_nat (r_sidx r + 1 - e_idx e0)) He) as Hcs.
      assert (Hk : (N.to_nat (r_sidx r + 1 - e_idx e0) <= length ents)%nat) by lia.
      specialize (Hcs Hk).
      destruct (skipn (N.to_nat (r_sidx r + 1 - e_idx e0)) ents) as [|e1 es] eqn:Hs.
      * assert (r2 = r) by congruence. subst r2. destruct r; split; [reflexivity|exact I].
      * pose proof (contig_first_idx _ _ _ Hcs) as He1.
        destruct (e_idx e1 - r_sidx r <=? N.of_nat (length (r_ents r)) + 1) eqn:Ho; [|discriminate].
        injection H as H. subst r2.
        split; [reflexivity|].
        split; [|unfold len; lia].
        rewrite He1. exact Hcs.
Qed.

Lemma append_spec_contig a base ents :
  contiguous_from (a + 1) base = true -> append_ok a base ents ->
  contiguous_from (a + 1) (append_spec a base ents) = true.
Proof.
  intros Hb Ho. unfold append_spec, append_ok in *.
  destruct (filterEntriesAfterSnapshot ents a) as [|e0 es]; [assumption|].
  destruct Ho as (Hc & Hlo & Hhi).
  apply contig_app. split; [apply contig_firstn; assumption|].
  assert (Hl : len (firstn (N.to_nat (e_idx e0 - a - 1)) base) = e_idx e0 - a - 1).
  { unfold len in *. rewrite firstn_length. lia. }
  rewrite Hl. replace (a + 1 + (e_idx e0 - a - 1)) with (e_idx e0) by lia. assumption.
Qed.

Lemma forallb_firstn {A} (p : A -> bool) l k : forallb p l = true -> forallb p (firstn k l) = true.
Proof.
  intro H. apply forallb_forall. intros x Hx. apply (proj1 (forallb_forall p l) H). eapply firstn_In. eassumption.
Qed.
Lemma forallb_skipn {A} (p : A -> bool) l k : forallb p l = true -> forallb p (skipn k l) = true.
Proof.
  intro H. apply forallb_forall. intros x Hx. apply (proj1 (forallb_forall p l) H). eapply skipn_In. eassumption.
Qed.
Lemma forallb_filter {A} (p q : A -> bool) l : forallb p l = true -> forallb p (filter q l) = true.
Proof.
  intro H. apply forallb_forall. intros x Hx. apply filter_In in Hx. apply (proj1 (forallb_forall p l) H). tauto.
Qed.

Lemma append_spec_bound a base ents :
  forallb (fun e => e_idx e <? c14_MaxUint64) base = true ->
  forallb entry_ok ents = true ->
  forallb (fun e => e_idx e <? c14_MaxUint64) (append_spec a base ents) = true.
Proof.
  intros Hb He. unfold append_spec.
  destruct (filterEntriesAfterSnapshot ents a) as [|e0 es] eqn:E; [assumption|].
  rewrite forallb_app. apply andb_true_iff. split; [apply forallb_firstn; assumption|].
  rewrite <- E. unfold filterEntriesAfterSnapshot. apply forallb_filter.
  apply forallb_forall. intros x Hx. pose proof (proj1 (forallb_forall _ _) He x Hx) as Hok.
  unfold entry_ok in Hok. apply andb_true_iff in Hok. tauto.
Qed.

(* ---- terms of the reference *)

Lemma r_term_in_range r i t :
  r_term r i = Some t -> r_sidx r <= i /\ i <= r_last r.
Proof.
  unfold r_term, r_last. destruct (i <? r_sidx r) eqn:E1; [discriminate|].
  destruct (i =? r_sidx r) eqn:E2; [intros _; lia|].
  destruct (nth_error (r_ents r) (N.to_nat (i - r_sidx r - 1))) eqn:En; [|discriminate].
  intros _. assert (N.to_nat (i - r_sidx r - 1) < length (r_ents r))%nat
    by (apply nth_error_Some; rewrite En; discriminate). lia.
Qed.

(* ---- the accepted / refused shapes of ref_save *)

Definition not_k1 (r : rstate) (q : wreq) : Prop := k1_signature r q = false.

Lemma spec_snap_contig r snap :
  wf r ->
  contiguous_from (s_idx (fst (spec_snap r snap)) + 1) (snd (spec_snap r snap)) = true.
Proof.
  intros (Hc & _). unfold spec_snap. destruct snap as [s|]; [|exact Hc].
  destruct (r_sidx r <? s_idx s) eqn:E; [|exact Hc]. cbn [fst snd].
  destruct (Nat.le_gt_cases (N.to_nat (s_idx s - r_sidx r)) (length (r_ents r))) as [Hle|Hgt].
  - pose proof (contig_skipn _ _ _ Hc Hle) as H.
    replace (r_sidx r + 1 + N.of_nat (N.to_nat (s_idx s - r_sidx r))) with (s_idx s + 1) in H by lia.
    exact H.
  - rewrite skipn_all2 by lia. reflexivity.
Qed.

Lemma ref_save_ok r hs ents snap r' :
  wf r ->
  req_valid r (WSave hs ents snap) = true ->
  not_k1 r (WSave hs ents snap) ->
  ref_save false r hs ents snap = ROk r' ->
  r' = save_spec r hs ents snap
  /\ append_ok (s_idx (fst (spec_snap r snap))) (snd (spec_snap r snap)) ents
  /\ wf r'.
Proof.
  intros Hwf Hv Hk H.
  pose proof Hwf as (Hc & Hb & Hmax & Hz & Hpos & Hcf).
  unfold req_valid in Hv. rewrite H in Hv. bdestr.
  rename H0 into Hok, H3 into Hcont, H2 into Hsn, H1 into Hconf.
  unfold ref_save in H.
  (* reduce to: step1 = ROk r1 with the spec'd snapshot / base, then Append *)
  assert (Hstep : exists r1,
            r1 = RS (raise (match hs with Some h => h | None => r_hs r end) snap)
                    (r_applied r) (r_cfg r) (fst (spec_snap r snap)) (snd (spec_snap r snap))
            /\ ms_Append r1 ents = Some r'
            /\ (r_sidx r1 = 0 -> r_snap r1 = snap0)
            /\ (0 < r_sidx r1 -> conf_ok (s_conf (r_snap r1)) = true /\ 0 < s_term (r_snap r1))
            /\ r_sidx r1 < c14_MaxUint64).
  { destruct snap as [s|].
    - unfold snapshot_ok in Hsn. bdestr.
      unfold spec_snap, raise.
      destruct (s_idx s <? r_sidx r) eqn:E1; [discriminate|].
      destruct (s_idx s =? r_sidx r) eqn:E2.
      + replace (r_sidx r <? s_idx s) with false by lia.
        destruct (same_snapshot s (r_snap r)); [|discriminate].
        eexists. split; [reflexivity|]. unfold r_sidx. cbn [fst snd r_snap].
        destruct (ms_Append _ ents) eqn:Ea; [|discriminate]. inversion H; subst.
        split; [reflexivity|]. split; [exact Hz|]. split; [exact Hpos|exact Hmax].
      + replace (r_sidx r <? s_idx s) with true by lia.
        assert (Hcase : r_match_term r (s_idx s) (s_term s) = true \/ r_last r <= s_idx s).
        { unfold not_k1, k1_signature in Hk.
          destruct (r_match_term r (s_idx s) (s_term s)); [left; reflexivity|right]. lia. }
        assert (Hsk : (if r_match_term r (s_idx s) (s_term s) || false
                       then ROk (ms_CreateSnapshotCompact
                                   (RS (if hs_commit (match hs with Some h => h | None => r_hs r end) <? s_idx s
                                        then set_commit (match hs with Some h => h | None => r_hs r end) (s_idx s)
                                        else match hs with Some h => h | None => r_hs r end)
                                       (r_applied r) (r_cfg r) (r_snap r) (r_ents r)) s)
                       else ROk (ms_ApplySnapshot
                                   (RS (if hs_commit (match hs with Some h => h | None => r_hs r end) <? s_idx s
                                        then set_commit (match hs with Some h => h | None => r_hs r end) (s_idx s)
                                        else match hs with Some h => h | None => r_hs r end)
                                       (r_applied r) (r_cfg r) (r_snap r) (r_ents r)) s))
                      = ROk (RS (if hs_commit (match hs with Some h => h | None => r_hs r end) <? s_idx s
                                 then set_commit (match hs with Some h => h | None => r_hs r end) (s_idx s)
                                 else match hs with Some h => h | None => r_hs r end)
                                (r_applied r) (r_cfg r) s (skipn (N.to_nat (s_idx s - r_sidx r)) (r_ents r)))).
        { rewrite orb_false_r. destruct (r_match_term r (s_idx s) (s_term s)) eqn:Em.
          - reflexivity.
          - unfold ms_ApplySnapshot. cbn [r_hs r_applied r_cfg].
            destruct Hcase as [?|Hl]; [discriminate|].
            rewrite skipn_all2; [reflexivity|]. unfold r_last in Hl. lia. }
        rewrite Hsk in H. clear Hsk.
        eexists. split; [reflexivity|]. unfold r_sidx. cbn [fst snd r_snap].
        destruct (ms_Append _ ents) eqn:Ea; [|discriminate]. inversion H; subst.
        split; [reflexivity|]. split; [intro; lia|]. split; [intros _; split; [assumption|lia]|]. unfold c14_MaxUint64 in *. lia.
    - unfold spec_snap, raise. eexists. split; [reflexivity|]. unfold r_sidx. cbn [fst snd r_snap].
      destruct (ms_Append _ ents) eqn:Ea; [|discriminate]. inversion H; subst.
      split; [reflexivity|]. split; [exact Hz|]. split; [exact Hpos|exact Hmax]. }
  destruct Hstep as (r1 & Hr1 & Happ & Hz1 & Hpos1 & Hmax1).
  pose proof (spec_snap_contig r snap Hwf) as Hc1.
  assert (Hc1' : contiguous_from (r_sidx r1 + 1) (r_ents r1) = true) by (subst r1; exact Hc1).
  destruct (ms_Append_spec r1 ents r' Hc1' Hcont Happ) as (Hr' & Hao).
  assert (Hs : r' = save_spec r hs ents snap).
  { rewrite Hr'. subst r1. unfold save_spec. reflexivity. }
  split; [exact Hs|]. split; [subst r1; exact Hao|].
  (* wf r' *)
  rewrite Hr'. unfold wf. cbn [r_sidx r_snap r_ents].
  split; [apply append_spec_contig; assumption|].
  split.
  { apply append_spec_bound; [|assumption]. subst r1. cbn [r_ents].
    unfold spec_snap. destruct snap as [s|]; [|exact Hb].
    destruct (r_sidx r <? s_idx s); [|exact Hb]. cbn [snd]. apply forallb_skipn. exact Hb. }
  split; [exact Hmax1|]. split; [exact Hz1|]. split; [exact Hpos1|].
  destruct (ref_conf r') as [cs|] eqn:Ecf; [|discriminate].
  exists cs. rewrite <- Ecf. rewrite Hr'. reflexivity.
Qed.

(* refusals are decided by the snapshot index alone *)
Lemma ref_save_rej r hs ents snap c :
  ref_save false r hs ents snap = RRej c ->
  exists s, snap = Some s /\
    ((s_idx s <? r_sidx r = true /\ c = errSnapOutOfDate)
     \/ (s_idx s = r_sidx r /\ same_snapshot s (r_snap r) = false /\ c = errOther)).
Proof.
  unfold ref_save. intro H. destruct snap as [s|].
  - exists s. split; [reflexivity|].
    destruct (s_idx s <? r_sidx r) eqn:E1.
    + inversion H. left. split; reflexivity.
    + destruct (s_idx s =? r_sidx r) eqn:E2.
      * destruct (same_snapshot s (r_snap r)) eqn:Es.
        -- destruct (ms_Append _ ents); discriminate.
        -- inversion H. right. repeat split. lia.
      * destruct (r_match_term r (s_idx s) (s_term s) || false); destruct (ms_Append _ ents); discriminate.
  - destruct (ms_Append _ ents); discriminate.
Qed.

Lemma ref_mark_wf r i : wf r -> wf (RS (r_hs r) i (r_cfg r) (r_snap r) (r_ents r)).
Proof. intro H. exact H. Qed.
Lemma ref_cfg_wf r i : wf r -> wf (RS (r_hs r) (r_applied r) i (r_snap r) (r_ents r)).
Proof. intro H. exact H. Qed.

(* every accepted valid request keeps the reference well-formed *)
Lemma ref_req_wf r q r' :
  wf r -> req_valid r q = true -> not_k1 r q -> ref_req false r q = ROk r' -> wf r'.
Proof.
  intros Hwf Hv Hk H. destruct q as [hs ents snap|i|i]; cbn [ref_req] in H.
  - destruct (ref_save_ok r hs ents snap r' Hwf Hv Hk H) as (_ & _ & Hw). exact Hw.
  - inversion H; subst. apply ref_mark_wf. assumption.
  - inversion H; subst. apply ref_cfg_wf. assumption.
Qed.
