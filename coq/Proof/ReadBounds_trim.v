(* Proof/ReadBounds_trim.v — C10, part 2: the trim gate, monotone boundaries,
   and what a step may delete. *)
From WK Require Import Base.Base Gen.Consts_C10 Model.ReadBounds Proof.ReadBounds.
Open Scope N_scope.

(* ---- minISRMatchOffset is a lower bound of every ISR member's match -------- *)

Lemma fold_min_le (f : N -> N) : forall l a,
  fold_left (fun m x => if f x <? m then f x else m) l a <= a
  /\ forall n, In n l -> fold_left (fun m x => if f x <? m then f x else m) l a <= f n.
Proof.
  induction l as [|x l IH]; intros a; cbn [fold_left].
  - split; [lia | intros n []].
  - destruct (IH (if f x <? a then f x else a)) as [H1 H2].
    destruct (f x <? a) eqn:E.
    + apply N.ltb_lt in E. split; [lia|]. intros n [Hn|Hn]; [subst; exact H1 | apply H2; exact Hn].
    + apply N.ltb_ge in E. split; [exact H1|]. intros n [Hn|Hn]; [subst; lia | apply H2; exact Hn].
Qed.

Lemma minISR_le st n : In n (r_isr st) -> minISRMatchOffset st <= isr_match st n.
Proof.
  unfold minISRMatchOffset. destruct (r_isr st) as [|a l]; [intros []|].
  destruct (fold_min_le (isr_match st) l (isr_match st a)) as [H1 H2].
  intros [Hn|Hn]; [subst; exact H1 | apply H2; exact Hn].
Qed.

Theorem trim_gated st through c :
  retentionTrimDecision st through = (true, c) ->
  through <> 0 /\ r_phys st < through
  /\ through <= r_hw st /\ through <= r_ckpt st /\ through <= r_leo st
  /\ (r_role st = RoleLeader -> forall n, In n (r_isr st) -> through <= isr_match st n).
Proof.
  unfold retentionTrimDecision.
  destruct (through =? 0) eqn:E0; [discriminate|].
  destruct (through <=? r_phys st) eqn:E1; [discriminate|].
  destruct (r_hw st <? through) eqn:E2; [discriminate|].
  destruct (r_ckpt st <? through) eqn:E3; [discriminate|].
  destruct (r_leo st <? through) eqn:E4; [discriminate|].
  destruct ((r_role st =? RoleLeader) && (minISRMatchOffset st <? through)) eqn:E5; [discriminate|].
  intros _. apply N.eqb_neq in E0. apply N.leb_gt in E1.
  apply N.ltb_ge in E2, E3, E4.
  repeat split; auto.
  intros Hr n Hn. apply andb_false_iff in E5. destruct E5 as [E5|E5].
  - rewrite Hr, N.eqb_refl in E5. discriminate.
  - apply N.ltb_ge in E5. pose proof (minISR_le st n Hn). lia.
Qed.

Lemma known_progress_match st n m : known_progress st n = Some m -> isr_match st n = m.
Proof.
  unfold known_progress, isr_match. destruct (n =? r_node st).
  - intro H; inversion H; reflexivity.
  - intro H; rewrite H; reflexivity.
Qed.

Theorem trim_gated_known_progress st through c :
  retentionTrimDecision st through = (true, c) -> r_role st = RoleLeader ->
  forall n m, In n (r_isr st) -> known_progress st n = Some m -> through <= m.
Proof.
  intros H Hr n m Hn Hk. apply trim_gated in H. destruct H as (_ & _ & _ & _ & _ & H).
  rewrite <- (known_progress_match st n m Hk). apply H; assumption.
Qed.

(* the decision does not read RetentionThroughSeq except through unknown members *)
Lemma known_progress_with_retention st v n : known_progress (with_retention st v) n = known_progress st n.
Proof. reflexivity. Qed.

Lemma trim_gated_gate_ok st v through c d :
  retentionTrimDecision (with_retention st v) through = (true, c) -> d <= through -> gate_ok st d = true.
Proof.
  intros H Hd. pose proof (trim_gated_known_progress _ _ _ H) as Hk.
  apply trim_gated in H. destruct H as (_ & _ & H1 & H2 & H3 & _). cbn in H1, H2, H3.
  unfold gate_ok. repeat (apply andb_true_iff; split); try (apply N.leb_le; lia).
  destruct (r_role st =? RoleLeader) eqn:Er; [|reflexivity]. cbn [negb orb].
  apply N.eqb_eq in Er. apply forallb_forall. intros n Hn.
  destruct (known_progress st n) as [m|] eqn:Ek; [|reflexivity].
  apply N.leb_le. specialize (Hk Er n m Hn Ek). lia.
Qed.

(* ---- store mutations: boundaries never decrease, rows only leave through trim --- *)

Lemma StoreCheckpoint_same s hw :
  s_rows (StoreCheckpoint s hw) = s_rows s /\ s_local (StoreCheckpoint s hw) = s_local s
  /\ s_phys (StoreCheckpoint s hw) = s_phys s /\ s_leo (StoreCheckpoint s hw) = s_leo s
  /\ s_rmax (StoreCheckpoint s hw) = s_rmax s /\ s_ckpt s <= s_ckpt (StoreCheckpoint s hw).
Proof.
  unfold StoreCheckpoint. destruct (hw <=? s_ckpt s) eqn:E; cbn; repeat split; try lia.
  all: apply N.leb_gt in E; lia.
Qed.

Lemma Adopt_spec s through s1 e rmax :
  AdoptRetentionBoundary s through = (s1, e, rmax) ->
  s_rows s1 = s_rows s /\ s_local s <= s_local s1 /\ s_phys s1 = s_phys s
  /\ s_leo s <= s_leo s1 /\ s_ckpt s1 = s_ckpt s /\ s_rmax s <= s_rmax s1
  /\ (e = 0 -> through <= s_local s1 /\ rmax = s_rmax s1).
Proof.
  unfold AdoptRetentionBoundary. destruct (through =? 0) eqn:E0.
  - intro H; inversion H; subst. repeat split; try lia; try (intro; discriminate).
  - intro H; inversion H; subst; clear H. cbn.
    repeat split; try lia.
    destruct (s_leo s <? N.max (s_rmax s) (N.max (s_leo s) through)) eqn:E; [apply N.ltb_lt in E|]; lia.
Qed.

Lemma last_seq_in : forall l d, l <> [] -> exists r, In r l /\ row_seq r = last_seq l d.
Proof.
  induction l as [|x l IH]; intros d Hne; [contradiction|]. cbn [last_seq].
  destruct l as [|y l'].
  - exists x. split; [left; reflexivity | reflexivity].
  - destruct (IH (row_seq x)) as (r & Hr & E); [discriminate|]. exists r. split; [right; exact Hr | exact E].
Qed.

Lemma mem_seq_true x l : mem_seq x l = true -> exists r, In r l /\ row_seq r = x.
Proof.
  unfold mem_seq. intro H. apply existsb_exists in H. destruct H as (r & Hr & E).
  apply N.eqb_eq in E. exists r. auto.
Qed.

Lemma Trim_spec s through mm mb s1 e tr :
  TrimMessagesThrough s through mm mb = (s1, e, tr) ->
  s_local s1 = s_local s /\ s_phys s <= s_phys s1 /\ s_leo s <= s_leo s1
  /\ s_ckpt s1 = s_ckpt s /\ s_rmax s <= s_rmax s1 /\ s_phys s1 <= N.max (s_phys s) through
  /\ (forall r, In r (s_rows s1) -> In r (s_rows s))
  /\ (forall r, In r (s_rows s) -> ~ In r (s_rows s1) ->
        e = 0 /\ s_phys s < row_seq r /\ row_seq r <= through /\ through <= s_local s).
Proof.
  unfold TrimMessagesThrough.
  destruct (through =? 0) eqn:E0.
  { intro H; inversion H; subst. repeat split; try lia; auto; try (intros; contradiction). }
  destruct (s_local s <? through) eqn:E1.
  { intro H; inversion H; subst. repeat split; try lia; auto; try (intros; contradiction). }
  destruct (s_phys s =? MaxUint64) eqn:E2.
  { intro H; inversion H; subst. repeat split; try lia; auto; try (intros; contradiction). }
  apply N.eqb_neq in E0. apply N.ltb_ge in E1.
  set (limit := if (0 <? mm)%Z then (mm + 1)%Z else 0%Z).
  set (rows := readRows s (s_phys s + 1) through limit mb).
  set (over := (0 <? mm)%Z && (mm <? Z.of_nat (length rows))%Z).
  set (deleteRows := if over then firstn (Z.to_nat mm) rows else rows).
  set (more := over || ((0 <? mb)%Z && negb (match deleteRows with [] => true | _ => false end)
                         && (last_seq deleteRows 0 <? through))).
  set (rmax := if s_rmax s <? s_leo s then s_leo s else s_rmax s).
  set (phys := if negb more && (s_phys s <? through) then through
               else if s_phys s <? last_seq deleteRows 0 then last_seq deleteRows 0 else s_phys s).
  assert (Hdel : forall r, In r deleteRows -> In r (s_rows s) /\ s_phys s < row_seq r /\ row_seq r <= through).
  { intros r Hr. assert (Hr' : In r rows).
    { unfold deleteRows in Hr. destruct over; [apply firstn_incl in Hr|]; exact Hr. }
    unfold rows in Hr'. apply readRows_spec in Hr'. destruct Hr' as (A & B & C).
    repeat split; auto; try lia. }
  assert (Hphys : s_phys s <= phys /\ phys <= N.max (s_phys s) through).
  { unfold phys. destruct (negb more && (s_phys s <? through)) eqn:Ea.
    - apply andb_true_iff in Ea. destruct Ea as [_ Ea]. apply N.ltb_lt in Ea. lia.
    - destruct (s_phys s <? last_seq deleteRows 0) eqn:Eb; [|lia].
      apply N.ltb_lt in Eb. destruct deleteRows as [|d0 dl] eqn:Ed; [cbn in Eb; lia|].
      destruct (last_seq_in (d0 :: dl) 0) as (r & Hr & Er); [discriminate|].
      rewrite <- Er in *. destruct (Hdel r Hr) as (_ & _ & Hle). lia. }
  assert (Hrmax : s_rmax s <= rmax).
  { unfold rmax. destruct (s_rmax s <? s_leo s) eqn:Ea; [apply N.ltb_lt in Ea|]; lia. }
  destruct (negb (validateRetentionState (s_local s) phys rmax)) eqn:Ev.
  { intro H; inversion H; subst. repeat split; try lia; auto; try (intros; contradiction). }
  intro H; inversion H; subst; clear H. cbn [s_rows s_leo s_ckpt s_local s_phys s_rmax].
  repeat split; try lia.
  - intros r Hr. apply filter_In in Hr. tauto.
  - rename H into Hr. rename H0 into Hn.
    destruct (mem_seq (row_seq r) deleteRows) eqn:Em.
    + apply mem_seq_true in Em. destruct Em as (d & Hd & Ed). destruct (Hdel d Hd) as (_ & A & _). lia.
    + exfalso. apply Hn. apply filter_In. split; [exact Hr | rewrite Em; reflexivity].
  - rename H into Hr. rename H0 into Hn.
    destruct (mem_seq (row_seq r) deleteRows) eqn:Em.
    + apply mem_seq_true in Em. destruct Em as (d & Hd & Ed). destruct (Hdel d Hd) as (_ & _ & A). lia.
    + exfalso. apply Hn. apply filter_In. split; [exact Hr | rewrite Em; reflexivity].
Qed.

(* ---- one step of the system ------------------------------------------------ *)

Definition boundaries_le (y y1 : sys) : Prop :=
  s_local (y_store y) <= s_local (y_store y1)
  /\ s_phys (y_store y) <= s_phys (y_store y1)
  /\ r_retention (y_r y) <= r_retention (y_r y1)
  /\ r_local (y_r y) <= r_local (y_r y1)
  /\ r_phys (y_r y) <= r_phys (y_r y1).

(* what a deleted row must satisfy, per kind of step *)
Definition deletion_ok (y : sys) (o : op) (r : row) : Prop :=
  match o with
  | OApply through _ _ =>
      exists c, retentionTrimDecision
                  (if r_retention (y_r y) <? through then with_retention (y_r y) through else y_r y)
                  through = (true, c)
                /\ row_seq r <= through
  | OTrim through _ _ => row_seq r <= through /\ through <= s_local (y_store y)
  | _ => False
  end.

Lemma apply_retention_spec y through mm mb y1 res :
  apply_retention y through mm mb = (y1, res) ->
  boundaries_le y y1
  /\ s_leo (y_store y) <= s_leo (y_store y1)
  /\ (forall r, In r (s_rows (y_store y1)) -> In r (s_rows (y_store y)))
  /\ (forall r, In r (s_rows (y_store y)) -> ~ In r (s_rows (y_store y1)) -> deletion_ok y (OApply through mm mb) r).
Proof.
  unfold apply_retention, boundaries_le.
  destruct (through =? 0) eqn:E0.
  { intro H; inversion H; subst. repeat split; try lia; auto; try (intros; contradiction). }
  set (st1 := if r_retention (y_r y) <? through then with_retention (y_r y) through else y_r y).
  assert (Hst1 : r_retention (y_r y) <= r_retention st1 /\ r_local st1 = r_local (y_r y) /\ r_phys st1 = r_phys (y_r y)).
  { unfold st1. destruct (r_retention (y_r y) <? through) eqn:E; [apply N.ltb_lt in E; cbn|]; repeat split; lia. }
  destruct Hst1 as (Hr1 & Hr2 & Hr3).
  destruct ((through <=? r_local st1) && (through <=? r_phys st1)) eqn:Enoop.
  { intro H; inversion H; subst. cbn. repeat split; try lia; auto; try (intros; contradiction). }
  destruct (retentionTrimDecision st1 through) as [allowed reason] eqn:Ed.
  destruct (AdoptRetentionBoundary (y_store y) through) as [[s1 e1] rmax1] eqn:Ea.
  pose proof (Adopt_spec _ _ _ _ _ Ea) as (A1 & A2 & A3 & A4 & A5 & A6 & _).
  set (ck := (reason =? 2) && (through <=? r_leo st1)).
  destruct allowed.
  - destruct (TrimMessagesThrough s1 through mm mb) as [[s2 e2] tr] eqn:Et.
    pose proof (Trim_spec _ _ _ _ _ _ _ Et) as (T1 & T2 & T3 & T4 & T5 & _ & T6 & T7).
    pose proof (StoreCheckpoint_same s2 through) as (C1 & C2 & C3 & C4 & C5 & C6).
    assert (Hs3 : forall s3, s3 = (if ck then StoreCheckpoint s2 through else s2) ->
                  s_rows s3 = s_rows s2 /\ s_local s3 = s_local s2 /\ s_phys s3 = s_phys s2 /\ s_leo s3 = s_leo s2).
    { intros s3 ->. destruct ck; auto. }
    destruct (Hs3 _ eq_refl) as (S1 & S2 & S3 & S4).
    destruct (negb (e2 =? 0)); intro H; inversion H; subst; clear H; cbn [y_store y_r r_retention r_local r_phys];
      (repeat split; try lia;
       [ intros r Hr; rewrite S1 in Hr; apply T6 in Hr; rewrite A1 in Hr; exact Hr
       | intros r Hr Hn; rewrite S1 in Hn; rewrite <- A1 in Hr;
         destruct (T7 r Hr Hn) as (_ & _ & Hle & _); cbn [deletion_ok]; exists reason; split; [exact Ed | exact Hle] ]).
  - pose proof (StoreCheckpoint_same s1 through) as (C1 & C2 & C3 & C4 & C5 & C6).
    assert (Hs3 : forall s3, s3 = (if ck then StoreCheckpoint s1 through else s1) ->
                  s_rows s3 = s_rows s1 /\ s_local s3 = s_local s1 /\ s_phys s3 = s_phys s1 /\ s_leo s3 = s_leo s1).
    { intros s3 ->. destruct ck; auto. }
    destruct (Hs3 _ eq_refl) as (S1 & S2 & S3 & S4).
    cbn [negb N.eqb]. intro H; inversion H; subst; clear H. cbn [y_store y_r r_retention r_local r_phys].
    repeat split; try lia.
    + intros r Hr. rewrite S1, A1 in Hr. exact Hr.
    + intros r Hr Hn. exfalso. apply Hn. rewrite S1, A1. exact Hr.
Qed.

Theorem step_spec y o y1 res :
  step y o = (y1, res) ->
  boundaries_le y y1
  /\ s_leo (y_store y) <= s_leo (y_store y1)
  /\ (forall r, In r (s_rows (y_store y)) -> ~ In r (s_rows (y_store y1)) -> deletion_ok y o r).
Proof.
  destruct o; cbn [step].
  - (* append *)
    unfold AppendLeader. intro H; inversion H; subst; clear H. unfold boundaries_le; cbn.
    repeat split; try lia. intros r Hr Hn. apply Hn. apply in_or_app. left; exact Hr.
  - intro H; inversion H; subst. unfold boundaries_le; cbn. repeat split; try lia; try (intros; contradiction).
  - intro H; inversion H; subst; clear H. unfold boundaries_le; cbn [y_store y_r r_retention r_local r_phys].
    pose proof (StoreCheckpoint_same (y_store y) v) as (C1 & C2 & C3 & C4 & C5 & C6).
    repeat split; try lia. intros r Hr Hn. apply Hn. rewrite C1. exact Hr.
  - intro H; inversion H; subst. unfold boundaries_le; cbn. repeat split; try lia; try (intros; contradiction).
  - intro H. apply apply_retention_spec in H. destruct H as (A & B & _ & C). auto.
  - destruct (AdoptRetentionBoundary (y_store y) through) as [[s1 e] rmax] eqn:Ea.
    pose proof (Adopt_spec _ _ _ _ _ Ea) as (A1 & A2 & A3 & A4 & A5 & A6 & _).
    intro H; inversion H; subst; clear H. unfold boundaries_le; cbn [y_store y_r].
    repeat split; try lia. intros r Hr Hn. apply Hn. rewrite A1. exact Hr.
  - destruct (TrimMessagesThrough (y_store y) through maxMessages maxBytes) as [[s1 e] tr] eqn:Et.
    pose proof (Trim_spec _ _ _ _ _ _ _ Et) as (T1 & T2 & T3 & T4 & T5 & _ & T6 & T7).
    intro H; inversion H; subst; clear H. unfold boundaries_le; cbn [y_store y_r].
    split; [repeat split; lia | split; [lia|]]. intros r Hr Hn. cbn [deletion_ok]. destruct (T7 r Hr Hn) as (_ & _ & A & B). auto.
  - destruct (readLocalCommitted (y_store y) q retention minISR) as [msgs nx].
    intro H; inversion H; subst. unfold boundaries_le. repeat split; try lia; try (intros; contradiction).
  - destruct (SyncMessages (y_store y) (mkQuery start endSeq minSeq limit mode) retention minISR) as [seqs more].
    intro H; inversion H; subst. unfold boundaries_le. repeat split; try lia; try (intros; contradiction).
Qed.

(* ---- histories --------------------------------------------------------------- *)

Fixpoint run (y : sys) (ops : list op) : sys :=
  match ops with
  | [] => y
  | o :: rest => run (fst (step y o)) rest
  end.

Theorem run_boundaries_le : forall ops y, boundaries_le y (run y ops).
Proof.
  induction ops as [|o ops IH]; intro y; cbn [run].
  - unfold boundaries_le. repeat split; lia.
  - destruct (step y o) as [y1 res] eqn:E. cbn [fst].
    apply step_spec in E. destruct E as (A & _). specialize (IH y1).
    unfold boundaries_le in *. intuition lia.
Qed.

(* a deletion by an Apply step is covered by every watermark of the runtime state it started from *)
Theorem apply_deletion_gated y through mm mb r :
  deletion_ok y (OApply through mm mb) r ->
  let st := y_r y in
  row_seq r <= r_hw st /\ row_seq r <= r_ckpt st /\ row_seq r <= r_leo st
  /\ (r_role st = RoleLeader ->
      forall n m, In n (r_isr st) -> known_progress st n = Some m -> row_seq r <= m).
Proof.
  cbn [deletion_ok]. intros (c & Hd & Hle). cbv zeta. set (st := y_r y) in *.
  assert (Hd' : exists v, retentionTrimDecision (with_retention st v) through = (true, c)).
  { destruct (r_retention st <? through).
    - exists through. exact Hd.
    - exists (r_retention st). destruct st; exact Hd. }
  destruct Hd' as (v & Hd').
  pose proof (trim_gated_known_progress _ _ _ Hd') as Hk.
  apply trim_gated in Hd'. destruct Hd' as (_ & _ & H1 & H2 & H3 & _). cbn in H1, H2, H3.
  repeat split; try lia.
  intros Hr n m Hn Hkn. specialize (Hk Hr n m Hn Hkn). lia.
Qed.

(* handleApplyRetentionBoundary publishes the logical floor: RetentionThroughSeq becomes max(old, request) *)
Theorem apply_raises_retention y through mm mb y1 res :
  apply_retention y through mm mb = (y1, res) -> through <> 0 ->
  r_retention (y_r y1) = N.max (r_retention (y_r y)) through.
Proof.
  unfold apply_retention. intros H Hne. apply N.eqb_neq in Hne. rewrite Hne in H.
  set (st1 := if r_retention (y_r y) <? through then with_retention (y_r y) through else y_r y) in *.
  assert (Hst1 : r_retention st1 = N.max (r_retention (y_r y)) through).
  { unfold st1. destruct (r_retention (y_r y) <? through) eqn:E; [apply N.ltb_lt in E | apply N.ltb_ge in E]; cbn; lia. }
  destruct ((through <=? r_local st1) && (through <=? r_phys st1)).
  { inversion H; subst. exact Hst1. }
  destruct (retentionTrimDecision st1 through) as [allowed reason].
  destruct (AdoptRetentionBoundary (y_store y) through) as [[s1 e1] rmax1].
  destruct (if allowed then TrimMessagesThrough s1 through mm mb else (s1, 0, no_trim)) as [[s2 e2] tr].
  destruct (negb (e2 =? 0)); inversion H; subst; exact Hst1.
Qed.
