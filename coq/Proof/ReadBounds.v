(* Proof/ReadBounds.v — C10, part 1: the read path.
   Every message returned by readLocalCommitted / SyncMessages is a stored row
   inside (retention boundary, committed]; SyncOnce rows never reach a sync page. *)
From WK Require Import Base.Base Gen.Consts_C10 Model.ReadBounds.
Open Scope N_scope.

(* ---- sub-list facts of the scanners -------------------------------------- *)

Lemma take_budget_incl limit maxBytes : forall l taken total r,
  In r (take_budget limit maxBytes taken total l) -> In r l.
Proof.
  induction l as [|x l IH]; intros taken total r H; cbn [take_budget] in H.
  - contradiction.
  - destruct ((0 <? maxBytes)%Z && (0 <? taken)%Z && (maxBytes <? total + Z.of_N (row_size x))%Z) eqn:E1.
    + contradiction.
    + destruct H as [H|H]; [left; exact H|].
      destruct ((0 <? limit)%Z && (limit <=? taken + 1)%Z) eqn:E2.
      * contradiction.
      * right. eapply IH. exact H.
Qed.

Lemma scan_range_spec fromSeq maxSeq : forall l r,
  In r (scan_range fromSeq maxSeq l) ->
  In r l /\ fromSeq <= row_seq r /\ (maxSeq <> 0 -> row_seq r <= maxSeq).
Proof.
  induction l as [|x l IH]; intros r H; cbn [scan_range] in H.
  - contradiction.
  - destruct (row_seq x <? fromSeq) eqn:E1.
    + destruct (IH r H) as (A & B & C). repeat split; auto. right; exact A.
    + destruct (negb (maxSeq =? 0) && (maxSeq <? row_seq x)) eqn:E2.
      * contradiction.
      * destruct H as [H|H].
        -- subst r. apply N.ltb_ge in E1. repeat split; auto.
           ++ left; reflexivity.
           ++ intro Hm. apply andb_false_iff in E2. destruct E2 as [E2|E2].
              ** apply negb_false_iff in E2. apply N.eqb_eq in E2. contradiction.
              ** apply N.ltb_ge in E2. exact E2.
        -- destruct (IH r H) as (A & B & C). repeat split; auto. right; exact A.
Qed.

Lemma readRows_spec s fromSeq maxSeq limit maxBytes r :
  In r (readRows s fromSeq maxSeq limit maxBytes) ->
  In r (s_rows s) /\ fromSeq <= row_seq r /\ (maxSeq <> 0 -> row_seq r <= maxSeq).
Proof.
  unfold readRows. intro H. apply take_budget_incl in H. apply scan_range_spec in H.
  destruct H as (A & B & C). repeat split; auto.
  destruct (fromSeq =? 0) eqn:E; [apply N.eqb_eq in E; subst; apply N.le_0_l | exact B].
Qed.

Lemma ListMessagesBySeq_incl s fromSeq limit maxBytes reverse r :
  In r (ListMessagesBySeq s fromSeq limit maxBytes reverse) -> In r (s_rows s).
Proof.
  unfold ListMessagesBySeq, readRowsReverse. destruct reverse; intro H.
  - apply take_budget_incl in H. apply in_rev in H. apply readRows_spec in H. tauto.
  - apply readRows_spec in H. tauto.
Qed.

(* ---- adapter.ReadCommitted: only messages passing both filters are emitted --- *)

Definition passes (q : req) (m : row) : Prop :=
  (q_min q <> 0 -> q_min q <= row_seq m) /\ (q_max q <> 0 -> row_seq m <= q_max q).

Lemma rc_step_inv q (P : row -> Prop) : forall msgs out next stopped,
  (forall m, In m msgs -> P m) ->
  (forall m, In m out -> P m /\ passes q m) ->
  forall m, In m (fst (fst (fold_left (rc_step q) msgs (out, next, stopped)))) -> P m /\ passes q m.
Proof.
  induction msgs as [|x msgs IH]; intros out next stopped HP Hout m Hm; cbn [fold_left] in Hm.
  - cbn in Hm. apply Hout. exact Hm.
  - revert Hm. unfold rc_step at 2.
    destruct stopped.
    { apply IH; [intros; apply HP; right; assumption | exact Hout]. }
    destruct (negb (q_min q =? 0) && (row_seq x <? q_min q)) eqn:E1.
    { destruct (q_reverse q); apply IH; try (intros; apply HP; right; assumption); exact Hout. }
    destruct (negb (q_max q =? 0) && (q_max q <? row_seq x)) eqn:E2.
    { destruct (q_reverse q); apply IH; try (intros; apply HP; right; assumption); exact Hout. }
    apply IH; [intros; apply HP; right; assumption|].
    intros m' [Hm'|Hm']; [|apply Hout; exact Hm'].
    subst m'. split; [apply HP; left; reflexivity|]. split; intro Hne.
    + apply andb_false_iff in E1. destruct E1 as [E1|E1].
      * apply negb_false_iff in E1. apply N.eqb_eq in E1. contradiction.
      * apply N.ltb_ge in E1. exact E1.
    + apply andb_false_iff in E2. destruct E2 as [E2|E2].
      * apply negb_false_iff in E2. apply N.eqb_eq in E2. contradiction.
      * apply N.ltb_ge in E2. exact E2.
Qed.

Lemma ReadCommitted_spec s q m :
  In m (fst (ReadCommitted s q)) -> In m (s_rows s) /\ passes q m.
Proof.
  unfold ReadCommitted.
  set (readFrom := if negb (q_reverse q) && negb (q_min q =? 0) && (q_from q <? q_min q) then q_min q else q_from q).
  destruct (q_reverse q && negb (q_min q =? 0) && (readFrom <? q_min q)); [cbn; contradiction|].
  destruct (negb (q_reverse q) && negb (q_max q =? 0) && negb (q_min q =? 0) && (q_max q <? q_min q)); [cbn; contradiction|].
  set (msgs := ListMessagesBySeq s readFrom (q_limit q) (q_bytes q) (q_reverse q)).
  pose proof (rc_step_inv q (fun r => In r (s_rows s)) msgs [] readFrom false) as H.
  destruct (fold_left (rc_step q) msgs ([], readFrom, false)) as [[out next] st] eqn:E.
  cbn [fst] in *. intro Hm. apply in_rev in Hm. apply H; auto.
  - intros r Hr. eapply ListMessagesBySeq_incl. exact Hr.
  - intros r [].
Qed.

(* ---- readLocalCommitted --------------------------------------------------- *)

Definition rows_below_max (s : store) : Prop := forall r, In r (s_rows s) -> row_seq r < MaxUint64.

Lemma nextSeq_gt b x : x < MaxUint64 -> nextSeq b <= x -> b < x.
Proof.
  unfold nextSeq. destruct (b =? MaxUint64) eqn:E.
  - apply N.eqb_eq in E. subst. intros H1 H2. lia.
  - intros _ H. lia.
Qed.

Lemma nextSeq_pos b : nextSeq b <> 0.
Proof.
  unfold nextSeq. destruct (b =? MaxUint64) eqn:E.
  - apply N.eqb_eq in E. subst. unfold MaxUint64. discriminate.
  - lia.
Qed.

Theorem readLocalCommitted_window s q retention minISR m :
  rows_below_max s ->
  In m (fst (readLocalCommitted s q retention minISR)) ->
  In m (s_rows s)
  /\ N.max retention (s_local s) < row_seq m
  /\ row_seq m <= committed_of s minISR.
Proof.
  intros Hwf. unfold readLocalCommitted.
  destruct (negb (q_reverse q) && (committed_of s minISR <? q_from q)); [cbn; contradiction|].
  destruct (committed_of s minISR =? 0) eqn:Ec; [cbn; contradiction|].
  apply N.eqb_neq in Ec.
  intro Hm. apply ReadCommitted_spec in Hm. destruct Hm as (Hin & Hmin & Hmax).
  split; [exact Hin|].
  unfold clamp_req in Hmin, Hmax. cbn [q_min q_max] in Hmin, Hmax.
  split.
  - apply nextSeq_gt; [apply Hwf; exact Hin|].
    pose proof (nextSeq_pos (N.max retention (s_local s))).
    assert (Hne : N.max (q_min q) (nextSeq (N.max retention (s_local s))) <> 0) by lia.
    specialize (Hmin Hne). lia.
  - destruct ((q_max q =? 0) || (committed_of s minISR <? q_max q)) eqn:E.
    + apply Hmax. exact Ec.
    + apply orb_false_iff in E. destruct E as [E1 E2].
      apply N.eqb_neq in E1. apply N.ltb_ge in E2. specialize (Hmax E1). lia.
Qed.

(* ---- SyncMessages ---------------------------------------------------------- *)

Lemma filterSynced_incl y seqs x : In x (filterSyncedMessages y seqs) -> In x seqs.
Proof.
  unfold filterSyncedMessages.
  destruct ((y_mode y =? PullModeDown) && negb (y_end y =? 0)).
  - intro H. apply filter_In in H. tauto.
  - destruct ((y_mode y =? PullModeUp) && negb (y_end y =? 0)).
    + intro H. apply filter_In in H. tauto.
    + auto.
Qed.

Lemma firstn_incl {A} n (l : list A) x : In x (firstn n l) -> In x l.
Proof.
  revert l; induction n as [|n IH]; intros [|a l] H; cbn in H; try contradiction.
  destruct H as [H|H]; [left; exact H | right; apply IH; exact H].
Qed.

Lemma page_incl y limit msgs x :
  In x (fst (channelMessagePageFromRead y limit msgs)) ->
  exists m, In m msgs /\ row_seq m = x /\ row_sync m = false.
Proof.
  unfold channelMessagePageFromRead. cbn [fst].
  set (seqs := filterSyncedMessages y (syncedMessagesFromChannel msgs)).
  intro H.
  assert (Hs : In x seqs).
  { destruct (query_reverse y); [apply in_rev in H|];
      destruct ((limit <? Z.of_nat (length seqs))%Z); try (apply firstn_incl in H); exact H. }
  apply filterSynced_incl in Hs. unfold syncedMessagesFromChannel in Hs.
  apply in_map_iff in Hs. destruct Hs as (m & E & Hm). apply filter_In in Hm.
  destruct Hm as [Hm Hf]. exists m. repeat split; auto. apply negb_true_iff in Hf. exact Hf.
Qed.

Theorem SyncMessages_window s y retention minISR x :
  rows_below_max s ->
  In x (fst (SyncMessages s y retention minISR)) ->
  exists m, In m (s_rows s) /\ row_seq m = x /\ row_sync m = false
            /\ N.max retention (s_local s) < x /\ x <= committed_of s minISR.
Proof.
  intros Hwf. unfold SyncMessages.
  destruct (readLocalCommitted s (readCommittedRequest y (sync_limit y)) retention minISR) as [msgs nx] eqn:E.
  intro H. apply page_incl in H. destruct H as (m & Hm & Hx & Hs).
  assert (Hm' : In m (fst (readLocalCommitted s (readCommittedRequest y (sync_limit y)) retention minISR)))
    by (rewrite E; exact Hm).
  apply readLocalCommitted_window in Hm'; [|exact Hwf]. destruct Hm' as (A & B & C).
  exists m. subst x. repeat split; auto.
Qed.
